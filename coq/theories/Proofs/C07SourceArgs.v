(* The argument-handling glue of calculate_distance_matrix (gap review G7.2): the statements of get_args() after
   parser.parse_args(), and main() as a whole command.  The hand-written models Cli.cd_get_args /
   cli_calculate_distance_matrix_cmd equal the translations of the functions of /repo, regenerated on every run
   (Generated/SrcCliArgsDist.v, configurations ARGS_GET_ARGS_CD / ARGS_CMD_CD of harness/src_functions.py), for every
   introspection record, every record of string primitives, every constructor and library record and all raw namespaces.
   Then what the model says about --distance-metric-param: the cast KEY=VALUE items are what the constructor of the metric
   receives (never dropped); a key that is not a required __init__ argument of the class is a KeyError. *)
From Coq Require Import ZArith List Bool Lia.
From Batchie Require Import Lib.Sexp Lib.PyRt Model.Cli Generated.SrcCli Generated.SrcCliArgs Generated.SrcCliArgsDist
  Proofs.PyRtLemmas Proofs.C07SourceCli Proofs.C18Args Proofs.C18SourceArgs_Cast Proofs.C18SourceIntrospect.
Import ListNotations.
Open Scope Z_scope.

Theorem src_cd_get_args_is_model : forall (Cls F O : Type) (I : introspect Cls) (P : pyprims F O) (raw : cd_ns Cls F O),
  src_cd_get_args Cls F O I P raw = cd_get_args I P raw.
Proof.
  intros. unfold src_cd_get_args, cd_get_args. cbv zeta.
  rewrite <- (resolve_block I P BDistanceMetric (cd_distance_metric raw) (cd_distance_metric_param raw)
                (fun c ps => Ok (cd_set_metric_params (cd_set_metric_cls raw c) ps))).
  unfold s_batchie.
  destruct (i_get_class I [98; 97; 116; 99; 104; 105; 101] (cd_distance_metric raw) BDistanceMetric) as [c|e];
    cbn [res_bind]; [|reflexivity].
  cbn [cd_metric_cls cd_distance_metric_param cd_set_metric_cls].
  destruct (i_required I c) as [req|e]; cbn [res_bind]; [|reflexivity].
  apply res_bind_ret.
Qed.

(* main() as a whole command: get_args() is the translated get_args on the raw namespace, the metric is `construct` on the
   class and the parameters the namespace holds *)
Theorem src_cli_calculate_distance_matrix_cmd_is_model :
  forall (Cls F O : Type) (I : introspect Cls) (P : pyprims F O) (Scr Th Me Dm : Type)
         (construct : Cls -> list (str * pval F O) -> result Me) (L : cd_lib Scr Th Me Dm) (raw : cd_ns Cls F O),
  src_cli_calculate_distance_matrix_cmd Cls F O I P Scr Th Me Dm construct L raw
  = cli_calculate_distance_matrix_cmd I P construct L raw.
Proof.
  intros. unfold src_cli_calculate_distance_matrix_cmd, cli_calculate_distance_matrix_cmd. cbv zeta.
  rewrite src_cd_get_args_is_model.
  destruct (cd_get_args I P raw) as [a|e]; cbn [res_bind]; [|reflexivity].
  rewrite <- C07SourceCli.src_cli_calculate_distance_matrix_is_model.
  unfold SrcCli.src_cli_calculate_distance_matrix, instantiate. cbv zeta.
  cbn [cd_with_mk cd_load_screen cd_load_thetas cd_concat_thetas cd_mk_metric cd_calculate].
  destruct (cd_load_screen L (cd_data (cd_plain a))); cbn [res_bind]; [|reflexivity].
  destruct (res_map_all _ (cd_thetas (cd_plain a))) as [ths|e]; cbn [res_bind]; [|reflexivity].
  destruct (cd_concat_thetas L ths); cbn [res_bind]; [|reflexivity].
  destruct (unwrap (cd_metric_cls a)); cbn [res_bind]; reflexivity.
Qed.

(* the same, with the model spelled out: the metric component of the main() model IS the resolved class instantiated with
   the cast parameters; the plain arguments are those of the raw namespace *)
Theorem src_cli_calculate_distance_matrix_cmd_spelled :
  forall (Cls F O : Type) (I : introspect Cls) (P : pyprims F O) (Scr Th Me Dm : Type)
         (construct : Cls -> list (str * pval F O) -> result Me) (L : cd_lib Scr Th Me Dm) (raw : cd_ns Cls F O),
  src_cli_calculate_distance_matrix_cmd Cls F O I P Scr Th Me Dm construct L raw
  = (dor cp <- resolve I P BDistanceMetric (cd_distance_metric raw) (cd_distance_metric_param raw);
     cli_calculate_distance_matrix (cd_with_mk L (instantiate construct (fst cp) (snd cp))) (cd_plain raw)).
Proof.
  intros. rewrite src_cli_calculate_distance_matrix_cmd_is_model.
  unfold cli_calculate_distance_matrix_cmd, cd_get_args.
  destruct (resolve I P BDistanceMetric (cd_distance_metric raw) (cd_distance_metric_param raw)); reflexivity.
Qed.

(* with the introspection record made of the TRANSLATED get_class / get_required_init_args_with_annotations *)
Theorem src_cli_calculate_distance_matrix_cmd_world :
  forall (Mod Obj F O : Type) (W : pyworld Mod Obj) (P : pyprims F O) (Scr Th Me Dm : Type)
         (construct : Obj -> list (str * pval F O) -> result Me) (L : cd_lib Scr Th Me Dm) (raw : cd_ns Obj F O),
  src_cli_calculate_distance_matrix_cmd Obj F O (introspect_src W) P Scr Th Me Dm construct L raw
  = cli_calculate_distance_matrix_cmd (introspect_of W) P construct L raw.
Proof.
  intros. rewrite src_cli_calculate_distance_matrix_cmd_is_model.
  unfold cli_calculate_distance_matrix_cmd, cd_get_args. now rewrite resolve_src.
Qed.

(* ---- what reaches the constructor ---- *)

(* the command succeeds only through `construct` on the class found and on exactly the cast --distance-metric-param items:
   whenever the translated main() writes a file, the class lookup gave Some c, the cast of the KEY=VALUE items by the
   required-argument annotations of c succeeded with ps (= [] exactly when the option is absent or empty), construct c ps
   gave the metric m, and the file holds what the library computed WITH m. *)
Theorem cmd_metric_is_constructed_from_params :
  forall (Cls F O : Type) (I : introspect Cls) (P : pyprims F O) (Scr Th Me Dm : Type)
         (construct : Cls -> list (str * pval F O) -> result Me) (L : cd_lib Scr Th Me Dm) (raw : cd_ns Cls F O) out,
  src_cli_calculate_distance_matrix_cmd Cls F O I P Scr Th Me Dm construct L raw = Ok out ->
  exists c req ps m,
    i_get_class I s_batchie (cd_distance_metric raw) BDistanceMetric = Ok (Some c)
    /\ i_required I (Some c) = Ok req
    /\ cast_params P (cd_distance_metric_param raw) req = Ok ps
    /\ construct c ps = Ok m
    /\ cli_calculate_distance_matrix (cd_with_mk L (Ok m)) (cd_plain raw) = Ok out.
Proof.
  intros Cls F O I P Scr Th Me Dm construct L raw out H.
  rewrite src_cli_calculate_distance_matrix_cmd_spelled in H. unfold resolve in H.
  destruct (i_get_class I s_batchie (cd_distance_metric raw) BDistanceMetric) as [c|e]; cbn [res_bind] in H; [|discriminate].
  destruct (i_required I c) as [req|e] eqn:Hreq; cbn [res_bind] in H; [|discriminate].
  destruct (cast_params P (cd_distance_metric_param raw) req) as [ps|e] eqn:Hps; cbn [res_bind fst snd] in H; [|discriminate].
  destruct c as [c|].
  - cbn [instantiate unwrap res_bind] in H.
    destruct (construct c ps) as [m|e] eqn:Hm.
    + exists c, req, ps, m. repeat split; auto.
    + exfalso. unfold cli_calculate_distance_matrix in H. cbn [cd_with_mk cd_load_screen cd_load_thetas cd_concat_thetas cd_mk_metric] in H.
      destruct (cd_load_screen L (cd_data (cd_plain raw))); cbn [res_bind] in H; [|discriminate].
      destruct (res_map_all (cd_load_thetas L) (cd_thetas (cd_plain raw))) as [ths|e2]; cbn [res_bind] in H; [|discriminate].
      destruct (cd_concat_thetas L ths); cbn [res_bind] in H; discriminate.
  - exfalso. unfold cli_calculate_distance_matrix in H. cbn [instantiate unwrap res_bind cd_with_mk cd_load_screen cd_load_thetas cd_concat_thetas cd_mk_metric] in H.
    destruct (cd_load_screen L (cd_data (cd_plain raw))); cbn [res_bind] in H; [|discriminate].
    destruct (res_map_all (cd_load_thetas L) (cd_thetas (cd_plain raw))) as [ths|e2]; cbn [res_bind] in H; [|discriminate].
    destruct (cd_concat_thetas L ths); cbn [res_bind] in H; discriminate.
Qed.

(* a non-empty option is never dropped: its FIRST key must be a required __init__ argument of the class, else KeyError (25);
   in particular a class all of whose __init__ arguments have defaults (required = []) - MSEDistance(sigmoid=True), the only
   metric the package ships - refuses every --distance-metric-param *)
Lemma cast_params_first_key_absent :
  forall (F O : Type) (P : pyprims F O) k v rest req,
  kdict_find str_eqb req k = None ->
  cast_params P (Some ((k, v) :: rest)) req = Err 25.
Proof.
  intros. unfold cast_params, cast_dict. cbn [cast_items]. unfold kdict_get. rewrite H. reflexivity.
Qed.

Theorem cmd_param_not_required_is_key_error :
  forall (Cls F O : Type) (I : introspect Cls) (P : pyprims F O) (Scr Th Me Dm : Type)
         (construct : Cls -> list (str * pval F O) -> result Me) (L : cd_lib Scr Th Me Dm) (raw : cd_ns Cls F O) c req k v rest,
  i_get_class I s_batchie (cd_distance_metric raw) BDistanceMetric = Ok c ->
  i_required I c = Ok req ->
  cd_distance_metric_param raw = Some ((k, v) :: rest) ->
  kdict_find str_eqb req k = None ->
  src_cli_calculate_distance_matrix_cmd Cls F O I P Scr Th Me Dm construct L raw = Err 25.
Proof.
  intros Cls F O I P Scr Th Me Dm construct L raw c req k v rest Hc Hr Hp Hk.
  rewrite src_cli_calculate_distance_matrix_cmd_spelled. unfold resolve.
  rewrite Hc. cbn [res_bind]. rewrite Hr. cbn [res_bind]. rewrite Hp.
  unfold cast_params, cast_dict. cbn [cast_items]. unfold kdict_get. rewrite Hk. reflexivity.
Qed.

(* in the world of the translated introspection: a parameter of __init__ that HAS a default is not among the required
   arguments, whatever else the signature holds *)
Lemma kdict_find_set_other {V : Type} (d : list (str * V)) (n k : str) (v : V) :
  str_eqb n k = false -> kdict_find str_eqb (kdict_set str_eqb d n v) k = kdict_find str_eqb d k.
Proof.
  intros Hnk. induction d as [|[k0 v0] d IH]; cbn [kdict_set kdict_find].
  - now rewrite Hnk.
  - destruct (str_eqb k0 n) eqn:E0; cbn [kdict_find].
    + apply str_eqb_eq in E0. subst k0. now rewrite Hnk.
    + rewrite IH. reflexivity.
Qed.

Lemma required_step_keys : forall ps d k,
  kdict_find str_eqb (fold_left required_step ps d) k <> None ->
  kdict_find str_eqb d k <> None \/ exists sp, In (k, sp) ps /\ sp_no_default sp = true.
Proof.
  induction ps as [|[n sp] ps IH]; intros d k H; cbn [fold_left] in H.
  - now left.
  - apply IH in H. destruct H as [H|[sp' [Hin Hd]]].
    + unfold required_step in H. cbn [fst snd] in H.
      destruct (str_eqb n s_self); [now left|].
      destruct (sp_no_default sp) eqn:Hnd; [|now left].
      destruct (str_eqb n k) eqn:Hnk.
      * apply str_eqb_eq in Hnk. subst n. right. exists sp. split; [now left|assumption].
      * left. rewrite kdict_find_set_other in H by assumption. assumption.
    + right. exists sp'. split; [now right|assumption].
Qed.

Theorem world_defaulted_param_not_required :
  forall (Mod Obj : Type) (W : pyworld Mod Obj) (o : Obj) ps k,
  w_isclass W o = true -> w_signature W o = Ok ps ->
  (forall sp, In (k, sp) ps -> sp_no_default sp = false) ->
  exists req, required_args W (Some o) = Ok req /\ kdict_find str_eqb req k = None.
Proof.
  intros Mod Obj W o ps k Hc Hs Hd. exists (fold_left required_step ps []). split.
  - unfold required_args. rewrite Hc, Hs. reflexivity.
  - destruct (kdict_find str_eqb (fold_left required_step ps []) k) eqn:E; [|reflexivity].
    exfalso. assert (H : kdict_find str_eqb (fold_left required_step ps []) k <> None) by (rewrite E; discriminate).
    apply required_step_keys in H. destruct H as [H|[sp [Hin Hnd]]].
    + now apply H.
    + rewrite (Hd sp Hin) in Hnd. discriminate.
Qed.

Theorem cmd_defaulted_param_is_key_error_world :
  forall (Mod Obj F O : Type) (W : pyworld Mod Obj) (P : pyprims F O) (Scr Th Me Dm : Type)
         (construct : Obj -> list (str * pval F O) -> result Me) (L : cd_lib Scr Th Me Dm) (raw : cd_ns Obj F O)
         (o : Obj) sig k v rest,
  get_class W s_batchie (cd_distance_metric raw) BDistanceMetric = Ok (Some o) ->
  w_isclass W o = true -> w_signature W o = Ok sig ->
  (forall sp, In (k, sp) sig -> sp_no_default sp = false) ->
  cd_distance_metric_param raw = Some ((k, v) :: rest) ->
  src_cli_calculate_distance_matrix_cmd Obj F O (introspect_src W) P Scr Th Me Dm construct L raw = Err 25.
Proof.
  intros Mod Obj F O W P Scr Th Me Dm construct L raw o sig k v rest Hc Hi Hs Hd Hp.
  destruct (world_defaulted_param_not_required Mod Obj W o sig k Hi Hs Hd) as [req [Hreq Hk]].
  rewrite src_cli_calculate_distance_matrix_cmd_world.
  unfold cli_calculate_distance_matrix_cmd, cd_get_args, resolve.
  cbn [introspect_of i_get_class i_required]. rewrite Hc. cbn [res_bind]. rewrite Hreq. cbn [res_bind]. rewrite Hp.
  unfold cast_params, cast_dict. cbn [cast_items]. unfold kdict_get. rewrite Hk. reflexivity.
Qed.
