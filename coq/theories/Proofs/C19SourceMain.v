(* C19: main() of nextflow/scripts/batchie.py, re-translated from /repo on every run (Generated/SrcOrchMain.v, configuration
   C19_MAIN of harness/src_functions.py), is the model's [invocation]: the mode dispatch, the while-loop on explicit fuel whose
   body calls the translated run_next_* function in the world, and the test that leaves the loop.  The fuel hypothesis is
   discharged on every reachable tree. *)
From Coq Require Import ZArith List Bool Lia Arith.
From Batchie Require Import Lib.Sexp Lib.PyRt Model.Orchestrate Generated.SrcOrchestrate Generated.SrcOrchMain
  Proofs.C19Base Proofs.C19Canon Proofs.C19Step Proofs.C19Main Proofs.C19Invocation Proofs.C19InvocationThm Proofs.C19Source.
Import ListNotations.
Open Scope Z_scope.

(* ---- one call in the world = one [attempt] of the model, with the value [call_returns] says it hands back ---- *)
Lemma exec_result_is_attempt md fixed bs n f e :
  exec_result n f e (result_of_plan md bs (plan_of md fixed bs f))
  = (fst (attempt md fixed bs n f e), snd (attempt md fixed bs n f e),
     call_returns md bs (snd (attempt md fixed bs n f e))).
Proof.
  unfold attempt. destruct (plan_of md fixed bs f) as [w s| |acts] eqn:Ep;
    cbn [result_of_plan exec_result fst snd call_returns]; [reflexivity | reflexivity |].
  destruct (plan_acts_shape _ _ _ _ _ Ep) as (a0 & b0 & c0 & x & ->).
  cbn [rev app].
  destruct x as [s|i|s|s l|w]; cbn [exec_result app]; unfold run_events; cbn [firstn nth];
    destruct (e_k e <? 4)%nat; cbn [fst snd call_returns]; reflexivity.
  (* (the launch: complete_run does not depend on the mode, and call_returns' match on the exit status is the `if`) *)
Qed.

(* the function main() holds in run_next *)
(* (the world of main()'s link holds no torn marker: the function runs on the tree with the empty torn set) *)
Definition src_stepfn (md : mode) : stepfn :=
  match md with
  | Retro => fun f => src_run_next_retrospective_step (f, [])
  | Prosp => fun f => src_run_next_prospective_step (f, [])
  end.

Lemma src_stepfn_is_model md f extra bs :
  src_stepfn md f SInput extra bs = result_of_plan md bs (plan_of md true bs f).
Proof. destruct md; [apply src_run_next_retro_is_model | apply src_run_next_prosp_is_model]. Qed.

Lemma world_call_is_attempt md n f sched calls0 extra bs :
  world_call n (src_stepfn md) (mkw f sched calls0) OutDir SInput extra bs
  = match sched with
    | [] => MEnd IExhausted (mkw f [] calls0)
    | e :: rest =>
        let a := attempt md true bs n f e in
        let w1 := mkw (fst a) rest (calls0 ++ [snd a]) in
        match call_returns md bs (snd a) with Some v => MOk (v, w1) | None => MEnd IRaised w1 end
    end.
Proof.
  unfold world_call. cbn [w_sched w_fs w_calls]. destruct sched as [|e rest]; [reflexivity|].
  rewrite src_stepfn_is_model, exec_result_is_attempt. reflexivity.
Qed.

(* ---- the while-loop ---- *)
(* number of times the loop body is started: one per call, and once more when the observation ends while main() goes on *)
Definition iterations (r : ires) : nat :=
  match r_end r with IExhausted => S (length (r_calls r)) | _ => length (r_calls r) end.

Definition main_body (md : mode) (n : nat) (extra : eargs) (bs : Z) (w : world) : mres (bool * world) :=
  dom r <- world_call n (src_stepfn md) w OutDir SInput extra bs;
  if negb (fst r) then MOk (false, snd r) else MOk (true, snd r).

Lemma main_loop md n extra bs (body : world -> mres (bool * world)) :
  (forall w, body w = main_body md n extra bs w) ->
  forall sched fuel f calls0,
  (iterations (invocation md true bs n f sched) <= fuel)%nat ->
  mwhile fuel body (mkw f sched calls0) = mres_of_ires calls0 (invocation md true bs n f sched).
Proof.
  intros Hb sched; induction sched as [|e rest IH]; intros fuel f calls0 Hf.
  - cbn [invocation iterations r_end r_calls length] in Hf. destruct fuel as [|fuel]; [lia|].
    cbn [mwhile]. rewrite Hb. unfold main_body. rewrite world_call_is_attempt.
    cbn [mbind invocation]. unfold mres_of_ires. cbn [r_fs r_rest r_calls r_end]. now rewrite app_nil_r.
  - cbn [invocation] in Hf |- *.
    destruct fuel as [|fuel].
    { exfalso. destruct (attempt md true bs n f e) as [f1 g]. unfold iterations in Hf.
      destruct (call_returns md bs g) as [[|]|]; cbn [r_end r_calls length] in Hf;
        [destruct (r_end (invocation md true bs n f1 rest))|..]; lia. }
    cbn [mwhile]. rewrite Hb. unfold main_body. rewrite world_call_is_attempt. cbn zeta.
    destruct (attempt md true bs n f e) as [f1 g]. cbn [fst snd].
    destruct (call_returns md bs g) as [[|]|]; cbn [mbind fst snd negb].
    + rewrite IH.
      * unfold mres_of_ires. cbn [r_fs r_rest r_calls r_end]. rewrite <- app_assoc. reflexivity.
      * unfold iterations in Hf |- *. cbn [r_end r_calls length] in Hf.
        destruct (r_end (invocation md true bs n f1 rest)); lia.
    + reflexivity.
    + reflexivity.
Qed.

Lemma mbind_ret (r : mres world) : (dom w <- r; MOk w) = r.
Proof. destruct r; reflexivity. Qed.

(* ---- main(): for sufficient fuel it is the model's invocation ---- *)
Theorem src_main_is_invocation : forall md n fuel argv extra f sched calls0,
  a_mode argv = modename_of md ->
  (iterations (invocation md true (a_batch_size argv) n f sched) <= fuel)%nat ->
  src_main n fuel argv extra (mkw f sched calls0)
  = mres_of_ires calls0 (invocation md true (a_batch_size argv) n f sched).
Proof.
  intros md n fuel argv extra f sched calls0 Hm Hf. unfold src_main. rewrite Hm.
  destruct md; cbn [modename_of modename_eqb].
  - rewrite (main_loop Retro n extra (a_batch_size argv)) by (exact Hf || (intros w; unfold main_body, src_stepfn;
      destruct (world_call n (fun f => src_run_next_retrospective_step (f, [])) w OutDir SInput extra (a_batch_size argv)) as [[b w1]| |]; reflexivity)).
    apply mbind_ret.
  - rewrite (main_loop Prosp n extra (a_batch_size argv)) by (exact Hf || (intros w; unfold main_body, src_stepfn;
      destruct (world_call n (fun f => src_run_next_prospective_step (f, [])) w OutDir SInput extra (a_batch_size argv)) as [[b w1]| |]; reflexivity)).
    apply mbind_ret.
Qed.

(* a mode string argparse does not admit: ValueError before anything is called *)
Theorem src_main_unknown_mode : forall n fuel argv extra w z,
  a_mode argv = NOther z -> src_main n fuel argv extra w = MEnd IRaised w.
Proof. intros n fuel argv extra w z Hm. unfold src_main. rewrite Hm. reflexivity. Qed.

(* the observation window bounds the loop: one iteration per schedule entry, and one more *)
Lemma iterations_le_sched md fixed bs n : forall sched f,
  (iterations (invocation md fixed bs n f sched) <= S (length sched))%nat.
Proof.
  induction sched as [|e rest IH]; intros f; cbn [invocation]; [cbn; lia|].
  destruct (attempt md fixed bs n f e) as [f1 g]. specialize (IH f1). unfold iterations in *.
  destruct (call_returns md bs g) as [[|]|]; cbn [r_end r_calls length] in *;
    [destruct (r_end (invocation md fixed bs n f1 rest))|..]; lia.
Qed.

Theorem src_main_is_invocation_window : forall md n fuel argv extra f sched calls0,
  a_mode argv = modename_of md -> (length sched < fuel)%nat ->
  src_main n fuel argv extra (mkw f sched calls0)
  = mres_of_ires calls0 (invocation md true (a_batch_size argv) n f sched).
Proof.
  intros md n fuel argv extra f sched calls0 Hm Hf. apply src_main_is_invocation; [exact Hm|].
  pose proof (iterations_le_sched md true (a_batch_size argv) n sched f). lia.
Qed.

(* ---- the fuel hypothesis discharged: on reachable trees the model bounds the number of calls, whatever the schedule ---- *)
Definition call_bound (md : mode) (bs n c : nat) : nat :=
  match md with Retro => S (n - c) | Prosp => (bs - c mod bs)%nat end.

Section Bound.
Variables (bs n : nat) (fixed : bool).
Hypothesis Hbs : (1 <= bs)%nat.
Hypothesis Hn : (1 <= n)%nat.
Hypothesis Hfix : fixed = true \/ bs = 1%nat.
Local Notation B := (Z.of_nat bs).

Lemma call_bound_pos md c : (1 <= call_bound md bs n c)%nat.
Proof. unfold call_bound. destruct md; [lia|]. pose proof (Nat.mod_upper_bound c bs ltac:(lia)). lia. Qed.

Lemma iterations_bound md : forall sched c x, sched_ok sched -> Inv2 md n c x ->
  (iterations (invocation md fixed B n (canon md bs n c x) sched) <= call_bound md bs n c)%nat.
Proof.
  induction sched as [|e rest IH]; intros c x Hs Hi; cbn [invocation].
  - unfold iterations. cbn [r_end r_calls length]. apply call_bound_pos.
  - inversion Hs as [|? ? He Hr]; subst.
    destruct (inv2_attempt md bs n fixed Hbs Hn Hfix c x e Hi He) as (c1 & x1 & g & Ea & Hi1 & Hlog & Hd & Hdone).
    rewrite Ea. pose proof (call_bound_pos md c) as Hpos.
    destruct (call_returns md B g) as [[|]|] eqn:Ec; [|unfold iterations; cbn [r_end r_calls length]; lia..].
    destruct (call_true_inv md bs g Ec) as (s & l & ps & Eg & Hlt).
    destruct Hd as [[_ Hno]|(-> & -> & ps' & Eg')]; [now apply Hno in Eg|].
    specialize (IH (S c) XNone Hr Hi1).
    assert (Hstep : (S (call_bound md bs n (S c)) <= call_bound md bs n c)%nat).
    { unfold call_bound. destruct md.
      - destruct Hi1 as [_ Hr1]. destruct (Hr1 eq_refl) as [Hle _]. lia.
      - rewrite Eg in Eg'. injection Eg' as Es _ _. subst s. specialize (Hlt eq_refl).
        unfold step_of in Hlt. cbn [snd] in Hlt.
        destruct (div_same_batch bs n fixed Hbs Hn Hfix c Hlt) as [_ Hmod]. rewrite Hmod. lia. }
    unfold iterations in IH |- *. cbn [r_end r_calls length].
    destruct (r_end (invocation md fixed B n (canon md bs n (S c) XNone) rest)); lia.
Qed.

End Bound.

(* from ANY tree reachable by a crash schedule, for ANY further schedule: main() with fuel call_bound (retrospective:
   plates not yet completed + 1, prospective: what is left of the current batch) is the model's invocation - no fuel hypothesis *)
Theorem src_main_fuel_discharged : forall (bs n : nat), (1 <= bs)%nat -> (1 <= n)%nat ->
  forall md sched0 sched argv extra calls0 fuel,
  sched_ok sched0 -> sched_ok sched ->
  a_mode argv = modename_of md -> a_batch_size argv = Z.of_nat bs ->
  let f := fst (script_run md true (Z.of_nat bs) n [] sched0) in
  (call_bound md bs n (length (completed f)) <= fuel)%nat ->
  src_main n fuel argv extra (mkw f sched calls0)
  = mres_of_ires calls0 (invocation md true (Z.of_nat bs) n f sched).
Proof.
  intros bs n Hbs Hn md sched0 sched argv extra calls0 fuel Hs0 Hs Hm Hb. cbn zeta.
  destruct (reach2 bs n true Hbs Hn (or_introl eq_refl) md sched0 Hs0) as (c & x & -> & Hi).
  destruct Hi as [Hx Hr].
  rewrite (completed_canon md bs n Hbs Hn c x Hx), (ideal_length md bs n). intros Hf.
  rewrite <- Hb. apply src_main_is_invocation; [exact Hm|]. rewrite Hb.
  pose proof (iterations_bound bs n true Hbs Hn (or_introl eq_refl) md sched c x Hs (conj Hx Hr)). lia.
Qed.

(* in particular: n + 1 iterations (retrospective) resp. batch-size iterations (prospective) always suffice *)
Lemma call_bound_le md bs n c : (call_bound md bs n c <= match md with Retro => S n | Prosp => bs end)%nat.
Proof. unfold call_bound. destruct md; lia. Qed.

(* prospective, the setting of C19_invocation_finishes_batch_and_stops: with fuel = the batch size main() returns normally,
   having made exactly bs - c mod bs calls, all successful launches of the steps up to the end of the current batch *)
Theorem src_main_finishes_batch : forall (bs n : nat), (1 <= bs)%nat -> (1 <= n)%nat ->
  forall sched0 e rest argv extra fuel,
  sched_ok sched0 -> entry_ok e = true -> full_entry e -> (bs <= n)%nat ->
  a_mode argv = NProspective -> a_batch_size argv = Z.of_nat bs -> (bs <= fuel)%nat ->
  let f := fst (script_run Prosp true (Z.of_nat bs) n [] sched0) in
  let c := length (completed f) in
  let m := (bs - c mod bs)%nat in
  (forall w s, plan_of Prosp true (Z.of_nat bs) f <> PNamed w s) ->
  exists w', src_main n fuel argv extra (mkw f (repeat e m ++ rest) []) = MOk w'
    /\ w_sched w' = rest
    /\ map launch_key (w_calls w') = map (ideal_key Prosp bs) (seq c m)
    /\ completed (w_fs w') = ideal Prosp bs n (c + m).
Proof.
  intros bs n Hbs Hn sched0 e rest argv extra fuel Hs0 He Hf Hbn Hm Hb Hfuel. cbn zeta. intros Hplan.
  pose proof (invocation_finishes_batch bs n true Hbs Hn (or_introl eq_refl) sched0 e rest Hs0 He Hf Hbn) as H.
  cbn zeta in H. specialize (H Hplan). destruct H as (H1 & H2 & H3 & H4).
  set (f := fst (script_run Prosp true (Z.of_nat bs) n [] sched0)) in *.
  set (r := invocation Prosp true (Z.of_nat bs) n f (repeat e (bs - length (completed f) mod bs) ++ rest)) in *.
  exists (mkw (r_fs r) (r_rest r) (r_calls r)).
  rewrite (src_main_is_invocation Prosp n fuel argv extra f _ [] Hm).
  - rewrite Hb. fold r. unfold mres_of_ires. rewrite H1. cbn [app w_sched w_calls w_fs]. auto.
  - rewrite Hb. fold r. unfold iterations. rewrite H1.
    apply (f_equal (@length _)) in H3. rewrite !map_length, seq_length in H3. lia.
Qed.

(* retrospective, the setting of C19_retro_invocation_stops_iff_finished: with fuel = n + 1, whatever the schedule, a main()
   that returns normally has completed all n steps, all its calls but the last were successful launches; once the n steps are
   complete main() makes one call, changes nothing and returns *)
Theorem src_main_retro_stops : forall (bs n : nat), (1 <= bs)%nat -> (1 <= n)%nat ->
  forall sched0 sched argv extra fuel,
  sched_ok sched0 -> sched_ok sched ->
  a_mode argv = NRetrospective -> a_batch_size argv = Z.of_nat bs -> (S n <= fuel)%nat ->
  let f := fst (script_run Retro true (Z.of_nat bs) n [] sched0) in
  (forall w', src_main n fuel argv extra (mkw f sched []) = MOk w' ->
     completed (w_fs w') = crash_free Retro bs n /\
     exists pre, w_calls w' = pre ++ [GDone] /\ Forall (fun g => exists s l ps, g = GLaunch s l ps true) pre) /\
  (completed f = crash_free Retro bs n -> sched <> [] ->
     exists w', src_main n fuel argv extra (mkw f sched []) = MOk w' /\ w_fs w' = f /\ w_calls w' = [GDone]).
Proof.
  intros bs n Hbs Hn sched0 sched argv extra fuel Hs0 Hs Hm Hb Hfuel. cbn zeta.
  pose proof (src_main_fuel_discharged bs n Hbs Hn Retro sched0 sched argv extra [] fuel Hs0 Hs Hm Hb) as E.
  cbn zeta in E. rewrite E by (pose proof (call_bound_le Retro bs n (length (completed (fst (script_run Retro true (Z.of_nat bs) n [] sched0))))); cbn in *; lia).
  clear E.
  pose proof (retro_invocation_stops bs n true Hbs Hn (or_introl eq_refl) sched0 sched Hs0 Hs) as H. cbn zeta in H.
  destruct H as [H1 H2].
  set (r := invocation Retro true (Z.of_nat bs) n (fst (script_run Retro true (Z.of_nat bs) n [] sched0)) sched) in *.
  unfold mres_of_ires. cbn [app]. split.
  - intros w' Ew. destruct (r_end r) eqn:Er; try discriminate Ew. injection Ew as <-. cbn [w_fs w_calls]. exact (H1 eq_refl).
  - intros Ec Hne. destruct (H2 Ec Hne) as (Ecalls & Eend & Efs). rewrite Eend. eexists. split; [reflexivity|].
    cbn [w_fs w_calls]. auto.
Qed.
