(* C19 — one call of run_next_* (or one operator action) from a canonical tree. *)
From Coq Require Import ZArith List Bool Lia Arith.
From Batchie Require Import Model.Orchestrate Proofs.C19Base Proofs.C19Canon.
Import ListNotations.
Open Scope Z_scope.

Section Step.
Variables (md : mode) (bs n : nat).
Hypothesis Hbs : (1 <= bs)%nat.
Hypothesis Hn : (1 <= n)%nat.

Local Notation ip := (ip md bs n).
Local Notation canon := (canon md bs n).
Local Notation plates_of := (plates_of md bs n).
Local Notation full_iter := (full_iter md bs n).
Local Notation last_iter := (last_iter md bs n).
Local Notation okx := (okx).

Let lookup_canon_none := lookup_canon_none md bs n Hbs Hn.
Let lookup_canon_last := lookup_canon_last md bs n Hbs Hn.
Let get_plate_canon := get_plate_canon md bs n Hbs Hn.
Let examine_canon := examine_canon md bs n Hbs Hn.
Let canon_complete := canon_complete md bs n Hbs Hn.
Let sort_canon := sort_canon md bs n Hbs Hn.
Let sort_plates := sort_plates md bs n Hbs Hn.
Let dm_spec := dm_spec bs n Hbs Hn.
Let dm_unique := dm_unique bs n Hbs Hn.
Let dm_succ := dm_succ bs n Hbs Hn.
Let dm_lt := dm_lt bs n Hbs Hn.

Lemma md_cases : md = Retro \/ md = Prosp.
Proof. destruct md; auto. Qed.
Lemma md_retro {A} (a b : A) : md = Retro -> match md with Retro => a | Prosp => b end = a.
Proof. now intros ->. Qed.
Lemma md_prosp {A} (a b : A) : md = Prosp -> match md with Retro => a | Prosp => b end = b.
Proof. now intros ->. Qed.

(* ---------- file-system mutations on canonical trees ---------- *)
Lemma update_canon c x (g : idir -> idir) :
  update (Z.of_nat (c / bs)) g (canon c x)
  = tab full_iter 0 (c / bs) ++
    match last_iter (c / bs) (c mod bs) x with
    | [] => []
    | _ => [(Z.of_nat (c / bs), g (plates_of (c / bs) 0 (c mod bs) ++ tail_of x (c mod bs)))]
    end.
Proof.
  unfold C19Canon.canon. rewrite update_app_r by (apply lookup_tab_out; lia). f_equal.
  unfold C19Canon.last_iter. destruct (c mod bs)%nat, x; try reflexivity; apply update_hd.
Qed.

Lemma canon_unfold c x :
  (0 < c mod bs)%nat \/ x <> XNone ->
  canon c x = tab full_iter 0 (c / bs) ++ [(Z.of_nat (c / bs), plates_of (c / bs) 0 (c mod bs) ++ tail_of x (c mod bs))].
Proof.
  intros H. unfold C19Canon.canon, C19Canon.last_iter. destruct (c mod bs)%nat, x; try reflexivity.
  destruct H; [lia|congruence].
Qed.

Lemma canon_empty_iter_eq c : (0 < c mod bs)%nat -> canon c XEmptyIter = canon c XNone.
Proof. intros H. unfold C19Canon.canon, C19Canon.last_iter. now destruct (c mod bs)%nat; [lia|]. Qed.

Lemma remove_plates I J x :
  remove_key (Z.of_nat J) (plates_of I 0 J ++ tail_of x J) = plates_of I 0 J ++ [].
Proof.
  rewrite remove_key_app, remove_key_none.
  - f_equal. destruct x; try reflexivity. apply remove_key_one.
  - intros q Hq. apply tab_keys_lt in Hq. lia.
Qed.

Lemma rmtree_canon_inc c d : rmtree (step_of bs c) (canon c (XIncomplete d)) = canon c XEmptyIter.
Proof.
  unfold rmtree, step_of. cbn [fst snd]. rewrite update_canon, remove_plates.
  rewrite (canon_unfold c XEmptyIter) by (right; congruence).
  unfold C19Canon.last_iter. now destruct (c mod bs)%nat.
Qed.

Lemma rmtree_canon c x : (forall d, x <> XIncomplete d) -> rmtree (step_of bs c) (canon c x) = canon c x.
Proof.
  intros H. unfold rmtree, step_of. cbn [fst snd]. rewrite update_canon, remove_plates.
  unfold C19Canon.canon. f_equal. unfold C19Canon.last_iter.
  destruct (c mod bs)%nat, x; try reflexivity; exfalso; eapply H; reflexivity.
Qed.

Lemma mk_iter_canon c x :
  mk_iter (Z.of_nat (c / bs)) (canon c x) = canon c (match x with XNone => XEmptyIter | _ => x end).
Proof.
  unfold mk_iter, ensure.
  destruct (Nat.eq_dec (c mod bs) 0) as [EJ|EJ]; [destruct x as [| |d]|].
  - rewrite lookup_canon_none by assumption.
    rewrite (canon_unfold c XEmptyIter) by (right; congruence).
    unfold C19Canon.canon. rewrite EJ. cbn [C19Canon.last_iter tail_of]. now rewrite app_nil_r.
  - rewrite lookup_canon_last by (right; congruence). reflexivity.
  - rewrite lookup_canon_last by (right; congruence). reflexivity.
  - rewrite lookup_canon_last by (left; lia). destruct x; try reflexivity.
    symmetry. apply canon_empty_iter_eq. lia.
Qed.

Lemma mk_plate_canon c :
  mk_plate (step_of bs c) (canon c XEmptyIter) = canon c (XIncomplete empty_pdir).
Proof.
  unfold mk_plate, step_of. cbn [fst snd]. rewrite update_canon.
  rewrite (canon_unfold c (XIncomplete empty_pdir)) by (right; congruence). f_equal.
  assert (E : last_iter (c / bs) (c mod bs) XEmptyIter <> []) by (unfold C19Canon.last_iter; now destruct (c mod bs)%nat).
  destruct (last_iter (c / bs) (c mod bs) XEmptyIter); [congruence|]. f_equal. f_equal.
  cbn [tail_of]. rewrite app_nil_r. unfold ensure, C19Canon.plates_of.
  rewrite lookup_tab_out by lia. reflexivity.
Qed.

Lemma upd_plate_canon c d g :
  upd_plate (step_of bs c) g (canon c (XIncomplete d)) = canon c (XIncomplete (g d)).
Proof.
  unfold upd_plate, step_of. cbn [fst snd]. rewrite update_canon.
  rewrite (canon_unfold c (XIncomplete (g d))) by (right; congruence). f_equal.
  assert (E : last_iter (c / bs) (c mod bs) (XIncomplete d) <> []) by (unfold C19Canon.last_iter; now destruct (c mod bs)%nat).
  destruct (last_iter (c / bs) (c mod bs) (XIncomplete d)); [congruence|]. f_equal. f_equal.
  cbn [tail_of]. unfold C19Canon.plates_of. rewrite update_app_r by (apply lookup_tab_out; lia). f_equal. apply update_hd.
Qed.

Lemma publish_all_canon c o ks : forall d,
  publish_all (step_of bs c) o ks (canon c (XIncomplete d)) = canon c (XIncomplete (pub_fold o ks d)).
Proof.
  induction ks as [|k ks IH]; intros d; cbn [publish_all pub_fold]; [reflexivity|].
  now rewrite upd_plate_canon, IH.
Qed.

(* ---------- what the ideal directories contain ---------- *)
Definition sel_val (k : nat) : Z := match md with Retro => Z.of_nat k | Prosp => Z.of_nat (k mod bs) end.

Lemma ip_selected k : f_selected (ip k) = Some (sel_val k).
Proof. unfold C19Canon.ip, ideal_pdir, sel_val. destruct md; [reflexivity|]. now destruct (k mod bs)%nat. Qed.

Lemma ip_advanced_retro k : md = Retro -> f_advanced (ip k) = Some (seqZ (Z.of_nat k + 1) (n - k - 1)).
Proof. intros E. unfold C19Canon.ip, ideal_pdir. now rewrite E. Qed.

Lemma ip_training0 : md = Retro -> f_training (ip 0) = Some (seqZ 0 n).
Proof. intros E. unfold C19Canon.ip, ideal_pdir. now rewrite E. Qed.

Lemma ip_thetas_dist k : (k mod bs = 0)%nat -> f_thetas (ip k) && f_dist (ip k) = true.
Proof. intros E. unfold C19Canon.ip, ideal_pdir. rewrite E. now destruct md. Qed.

Definition excl_of (c : nat) : list Z :=
  match md with
  | Retro => seqZ (Z.of_nat (c - c mod bs)) (c mod bs)
  | Prosp => seqZ 0 (c mod bs)
  end.

Lemma selected_of_plates I : forall cnt a, (a + cnt <= bs)%nat ->
  selected_of (plates_of I a cnt) = seqZ (sel_val (I * bs + a)) cnt.
Proof.
  induction cnt as [|cnt IH]; intros a H; [reflexivity|].
  unfold C19Canon.plates_of. rewrite tab_cons. fold (plates_of I (S a) cnt).
  cbn [selected_of seqZ]. rewrite ip_selected, IH by lia. f_equal.
  destruct cnt as [|cnt']; [reflexivity|]. f_equal.
  unfold sel_val. destruct md; [lia|].
  destruct (dm_unique I a) as [_ H1]; [lia|]. destruct (dm_unique I (S a)) as [_ H2]; [lia|].
  replace (I * bs + S a)%nat with (I * bs + S a)%nat by lia. rewrite H1, H2. lia.
Qed.

Lemma selected_plates_canon c x :
  (forall d, x <> XIncomplete d) -> selected_plates (canon c x) (Z.of_nat (c / bs)) = excl_of c.
Proof.
  intros Hx. unfold selected_plates. destruct (dm_spec c) as [Hc Hr].
  assert (Hsel : selected_of (plates_of (c / bs) 0 (c mod bs)) = excl_of c).
  { rewrite selected_of_plates by lia. unfold excl_of, sel_val. destruct md.
    - do 2 f_equal. lia.
    - destruct (dm_unique (c / bs) 0) as [_ H1]; [lia|]. rewrite H1. reflexivity. }
  destruct (Nat.eq_dec (c mod bs) 0) as [EJ|EJ]; [destruct x as [| |d]|].
  - rewrite lookup_canon_none by assumption. unfold excl_of. rewrite EJ. now destruct md.
  - rewrite lookup_canon_last by (right; congruence). cbn [tail_of]. rewrite app_nil_r.
    pose proof (sort_plates (c / bs) 0 (c mod bs) XNone) as Hs. cbn [tail_of] in Hs. rewrite app_nil_r in Hs.
    now rewrite Hs.
  - exfalso. eapply Hx. reflexivity.
  - rewrite lookup_canon_last by (left; lia).
    assert (Et : tail_of x (c mod bs) = []) by (destruct x; try reflexivity; exfalso; eapply Hx; reflexivity).
    rewrite Et, app_nil_r.
    pose proof (sort_plates (c / bs) 0 (c mod bs) XNone) as Hs. cbn [tail_of] in Hs. rewrite app_nil_r in Hs.
    now rewrite Hs.
Qed.

Lemma step_of_0 : step_of bs 0 = (0, 0).
Proof. unfold step_of. rewrite Nat.div_0_l, Nat.mod_0_l by lia. reflexivity. Qed.

Lemma step_of_iter_start c : (Z.of_nat (c / bs), 0) = step_of bs (c - c mod bs).
Proof.
  destruct (dm_spec c) as [Hc Hr]. destruct (dm_unique (c / bs) 0) as [H1 H2]; [lia|].
  unfold step_of. replace (c - c mod bs)%nat with (c / bs * bs + 0)%nat by lia. now rewrite H1, H2.
Qed.

(* ---------- the plan on canonical trees ---------- *)
Definition acts_of (c : nat) : list action :=
  [ARmTree (step_of bs c); AMkIter (Z.of_nat (c / bs)); AMkPlate (step_of bs c);
   ALaunch (step_of bs c) (ideal_launch md bs c)].

Lemma plan_canon fixed c x :
  okx c x -> fixed = true \/ bs = 1%nat -> (md = Retro -> (c <= n)%nat) ->
  plan_of md fixed (Z.of_nat bs) (canon c x)
  = match x with
    | XIncomplete _ => PNamed 1 (step_of bs c)
    | _ => if match md with Retro => (n <=? c)%nat | Prosp => false end then PDone else PActs (acts_of c)
    end.
Proof.
  intros Hx Hfix Hcn. unfold plan_of. rewrite (examine_canon fixed c x Hx Hfix).
  assert (Hxx : forall x', (forall d, x' <> XIncomplete d) -> okx c x' ->
    match (match c with
           | O => XOk (0, 0, None, None)
           | S c' => XOk (fst (step_of bs c), snd (step_of bs c), Some (meta_of md bs n c'),
                          screen_of (Some (step_of bs c', ip c')))
           end : xres (Z * Z * option Z * option spath)) with
    | XNamed w s => PNamed w s
    | XOk (i, j, meta, scr) =>
        let pre := [ARmTree (i, j); AMkIter i; AMkPlate (i, j)] in
        match md with
        | Retro =>
            if match meta with Some m => m <=? 0 | None => false end then PDone
            else if (i =? 0) && (j =? 0) then PActs (pre ++ [ALaunch (i, j) (LInit SInput)])
            else if j =? 0 then
              if has_training (canon c x') (0, 0) then
                match scr with
                | Some sp => PActs (pre ++ [ALaunch (i, j) (LFirst sp (SFile (0, 0) KTraining))])
                | None => PActs (pre ++ [AFail 9])
                end
              else PActs (pre ++ [AFail 1])
            else PActs (pre ++ [next_action (canon c x') i j scr])
        | Prosp =>
            if j =? 0 then PActs (pre ++ [ALaunch (i, j) (LProsp SInput)])
            else PActs (pre ++ [next_action (canon c x') i j (Some SInput)])
        end
    end = if match md with Retro => (n <=? c)%nat | Prosp => false end then PDone else PActs (acts_of c)).
  { intros x' Hx' Hok. destruct (dm_spec c) as [Hc Hr].
    assert (Hnext : forall scr, (0 < c mod bs)%nat ->
       next_action (canon c x') (Z.of_nat (c / bs)) (Z.of_nat (c mod bs)) (Some scr)
       = ALaunch (step_of bs c) (LNext scr (Z.of_nat (c / bs), 0) (excl_of c))).
    { intros scr HJ. unfold next_action, has_thetas_dist. rewrite step_of_iter_start.
      rewrite get_plate_canon by lia. rewrite ip_thetas_dist.
      - rewrite <- step_of_iter_start. now rewrite selected_plates_canon.
      - pose proof (step_of_iter_start c) as E. unfold step_of in E. injection E as E1 E2. lia. }
    destruct c as [|c'].
    - cbn [Z.eqb andb]. unfold acts_of. rewrite step_of_0.
      unfold ideal_launch. rewrite Nat.div_0_l, Nat.mod_0_l by lia.
      destruct md_cases as [Emd|Emd].
      + rewrite !(md_retro _ _ Emd). replace (n <=? 0)%nat with false by (symmetry; apply Nat.leb_gt; lia). reflexivity.
      + rewrite !(md_prosp _ _ Emd). reflexivity.
    - assert (HL : ideal_launch md bs (S c') =
        match md with
        | Retro => match (S c' mod bs)%nat with
                   | O => LFirst (SFile (step_of bs c') KAdvanced) (SFile (0, 0) KTraining)
                   | S _ => LNext (SFile (step_of bs c') KAdvanced) (Z.of_nat (S c' / bs), 0)
                              (seqZ (Z.of_nat (S c' - S c' mod bs)) (S c' mod bs))
                   end
        | Prosp => match (S c' mod bs)%nat with
                   | O => LProsp SInput
                   | S _ => LNext SInput (Z.of_nat (S c' / bs), 0) (seqZ 0 (S c' mod bs))
                   end
        end) by reflexivity.
      remember (S c') as c eqn:Ec. unfold acts_of. rewrite HL. clear HL.
      assert (Hnext' : forall scr, (0 < c mod bs)%nat ->
         next_action (canon c x') (Z.of_nat (c / bs)) (Z.of_nat (c mod bs)) (Some scr)
         = ALaunch (Z.of_nat (c / bs), Z.of_nat (c mod bs)) (LNext scr (Z.of_nat (c / bs), 0) (excl_of c)))
        by exact Hnext.
      clear Hnext.
      change (step_of bs c) with (Z.of_nat (c / bs), Z.of_nat (c mod bs)). cbn [fst snd]. cbv zeta.
      destruct md_cases as [Emd|Emd].
      + rewrite !(md_retro _ _ Emd). rewrite (meta_of_retro md bs n c' Emd).
        destruct (n <=? c)%nat eqn:Enc.
        * apply Nat.leb_le in Enc. replace (Z.of_nat (n - c' - 1) <=? 0) with true by (symmetry; apply Z.leb_le; lia). reflexivity.
        * apply Nat.leb_gt in Enc. replace (Z.of_nat (n - c' - 1) <=? 0) with false by (symmetry; apply Z.leb_gt; lia).
          assert (E00 : (Z.of_nat (c / bs) =? 0) && (Z.of_nat (c mod bs) =? 0) = false).
          { destruct (Z.eqb_spec (Z.of_nat (c / bs)) 0) as [E1|]; [|reflexivity].
            destruct (Z.eqb_spec (Z.of_nat (c mod bs)) 0) as [E2|]; [|reflexivity]. exfalso. lia. }
          rewrite E00.
          assert (Hscr : screen_of (Some (step_of bs c', ip c')) = Some (SFile (step_of bs c') KAdvanced)).
          { unfold screen_of. now rewrite ip_advanced_retro. }
          rewrite Hscr.
          destruct (c mod bs)%nat as [|j'] eqn:EJ.
          -- cbn [Z.of_nat Z.eqb]. unfold has_training. rewrite <- step_of_0, get_plate_canon by lia.
             rewrite ip_training0 by assumption. reflexivity.
          -- replace (Z.of_nat (S j') =? 0) with false by (symmetry; apply Z.eqb_neq; lia).
             rewrite Hnext' by lia. unfold excl_of. rewrite !(md_retro _ _ Emd). rewrite EJ. reflexivity.
      + rewrite !(md_prosp _ _ Emd).
        destruct (c mod bs)%nat as [|j'] eqn:EJ.
        * cbn [Z.of_nat Z.eqb]. reflexivity.
        * replace (Z.of_nat (S j') =? 0) with false by (symmetry; apply Z.eqb_neq; lia).
          rewrite Hnext' by lia. unfold excl_of. rewrite !(md_prosp _ _ Emd). rewrite EJ. reflexivity. }
  destruct x as [| |d]; [apply Hxx; [congruence|exact I]|apply Hxx; [congruence|exact I]|reflexivity].
Qed.

(* ---------- what the launched pipeline publishes ---------- *)
Definition can_complete (c : nat) : Prop :=
  match md with Retro => (c < n)%nat | Prosp => (c mod bs < n)%nat end.

Lemma ideal_launch_S c' : ideal_launch md bs (S c') =
  match md with
  | Retro => match (S c' mod bs)%nat with
             | O => LFirst (SFile (step_of bs c') KAdvanced) (SFile (0, 0) KTraining)
             | S _ => LNext (SFile (step_of bs c') KAdvanced) (Z.of_nat (S c' / bs), 0)
                        (seqZ (Z.of_nat (S c' - S c' mod bs)) (S c' mod bs))
             end
  | Prosp => match (S c' mod bs)%nat with
             | O => LProsp SInput
             | S _ => LNext SInput (Z.of_nat (S c' / bs), 0) (seqZ 0 (S c' mod bs))
             end
  end.
Proof. reflexivity. Qed.

Lemma outputs_retro c d : md = Retro -> (c < n)%nat ->
  outputs n (canon c (XIncomplete d)) (ideal_launch md bs c) = ip c.
Proof.
  intros Emd Hc. unfold C19Canon.ip, ideal_pdir. rewrite !(md_retro _ _ Emd).
  destruct c as [|c'].
  - unfold ideal_launch. rewrite !(md_retro _ _ Emd). rewrite Nat.mod_0_l by lia.
    destruct n as [|n']; [lia|]. unfold outputs, sel_rev. rewrite select_head by (intros q []).
    rewrite reveal_head. cbn [f_training f_test f_thetas f_dist f_by Z.of_nat].
    replace (S n' - 0 - 1)%nat with n' by lia. reflexivity.
  - rewrite ideal_launch_S, !(md_retro _ _ Emd).
    assert (Hres : resolve n (canon (S c') (XIncomplete d)) (SFile (step_of bs c') KAdvanced)
                   = Some (seqZ (Z.of_nat (S c')) (S (n - S c' - 1)))).
    { unfold resolve. rewrite get_plate_canon by lia. rewrite ip_advanced_retro by exact Emd.
      do 2 f_equal; lia. }
    destruct (S c' mod bs)%nat as [|j'] eqn:EJ.
    + unfold outputs. rewrite Hres. unfold sel_rev. rewrite select_head by (intros q []).
      rewrite reveal_head. reflexivity.
    + unfold outputs. rewrite Hres. unfold sel_rev. rewrite select_head.
      * rewrite reveal_head. reflexivity.
      * intros q Hq. apply seqZ_in in Hq. pose proof (Nat.mod_le (S c') bs). lia.
Qed.

Lemma outputs_prosp c d : md = Prosp -> (c mod bs < n)%nat ->
  outputs n (canon c (XIncomplete d)) (ideal_launch md bs c) = ip c.
Proof.
  intros Emd Hc. unfold C19Canon.ip, ideal_pdir, ideal_launch. rewrite !(md_prosp _ _ Emd).
  destruct (c mod bs)%nat as [|j'] eqn:EJ.
  - destruct n as [|n']; [lia|]. unfold outputs, resolve. rewrite select_head by (intros q []).
    unfold zlen. rewrite seqZ_length. reflexivity.
  - unfold outputs, resolve, sel_rev.
    replace n with (S j' + S (n - S j' - 1))%nat at 1 by lia.
    rewrite select_skip, Z.add_0_l. reflexivity.
Qed.

Lemma outputs_canon c d : can_complete c ->
  outputs n (canon c (XIncomplete d)) (ideal_launch md bs c) = ip c.
Proof.
  unfold can_complete. destruct md_cases as [E|E]; rewrite ?(md_retro _ _ E), ?(md_prosp _ _ E); intros H.
  - now apply outputs_retro.
  - now apply outputs_prosp.
Qed.

Lemma outputs_stuck c d : md = Prosp -> (n <= c mod bs)%nat ->
  f_meta (outputs n (canon c (XIncomplete d)) (ideal_launch md bs c)) = None.
Proof.
  intros Emd Hc. unfold ideal_launch. rewrite !(md_prosp _ _ Emd).
  destruct (c mod bs)%nat as [|j'] eqn:EJ; [lia|].
  unfold outputs, resolve, sel_rev. rewrite select_none by lia. reflexivity.
Qed.

(* ---------- one attempt ---------- *)
Lemma ip_by c : f_by (ip c) = Some (ideal_launch md bs c).
Proof. unfold C19Canon.ip, ideal_pdir. destruct md; [reflexivity|]. now destruct (c mod bs)%nat. Qed.

Lemma pub_fold_meta_none o ps d :
  f_meta d = None -> f_meta o = None \/ inb KMeta ps = false -> f_meta (pub_fold o ps d) = None.
Proof.
  intros Hd H. pose proof (pub_fold_fields o ps d) as F. cbn zeta in F.
  destruct F as (_ & _ & _ & _ & _ & _ & F & _). rewrite F.
  destruct H as [H|H]; rewrite H; [now destruct (inb KMeta ps)|exact Hd].
Qed.

Definition log_ok (c : nat) (g : logitem) : Prop :=
  match g with
  | GLaunch s l _ _ => s = step_of bs c /\ l = ideal_launch md bs c
  | GNamed _ s => s = step_of bs c
  | GFail _ => False
  | _ => True
  end.

Definition is_inc (x : extra) : bool := match x with XIncomplete _ => true | _ => false end.

Lemma attempt_canon fixed c x e :
  okx c x -> fixed = true \/ bs = 1%nat -> (md = Retro -> (c <= n)%nat) -> entry_ok e = true ->
  exists c' x' g,
    attempt md fixed (Z.of_nat bs) n (canon c x) e = (canon c' x', g)
    /\ okx c' x' /\ (md = Retro -> (c' <= n)%nat) /\ (c' = c \/ c' = S c) /\ log_ok c g.
Proof.
  intros Hx Hfix Hcn He. unfold attempt. rewrite (plan_canon fixed c x Hx Hfix Hcn).
  apply andb_true_iff in He as [Hcov Hml].
  destruct (is_inc x) eqn:Einc.
  { destruct x as [| |d]; try discriminate. exists c, XEmptyIter, (GNamed 1 (step_of bs c)).
    rewrite rmtree_canon_inc. repeat split; auto. }
  assert (Hx' : forall d, x <> XIncomplete d) by (intros d ->; discriminate).
  assert (F1 : rmtree (step_of bs c) (canon c x) = canon c x) by (now apply rmtree_canon).
  assert (F2 : mk_iter (Z.of_nat (c / bs)) (canon c x) = canon c XEmptyIter).
  { rewrite mk_iter_canon. destruct x; try reflexivity. discriminate. }
  pose proof (mk_plate_canon c) as F3.
  assert (Eplan : match x with
                  | XIncomplete _ => PNamed 1 (step_of bs c)
                  | _ => if match md with Retro => (n <=? c)%nat | Prosp => false end then PDone else PActs (acts_of c)
                  end = if match md with Retro => (n <=? c)%nat | Prosp => false end then PDone else PActs (acts_of c))
    by (destruct x; try reflexivity; discriminate).
  rewrite Eplan. clear Eplan.
  destruct (match md with Retro => (n <=? c)%nat | Prosp => false end) eqn:Edone.
  { exists c, x, GDone. repeat split; auto. }
  unfold acts_of. cbn [firstn nth].
  destruct (e_k e) as [|[|[|[|k']]]] eqn:Ek; cbn [Nat.ltb Nat.leb firstn fold_left apply_action].
  - exists c, x, (GStopped 0). repeat split; auto.
  - exists c, x, (GStopped 1). rewrite F1. repeat split; auto.
  - exists c, XEmptyIter, (GStopped 2). rewrite F1, F2. repeat split; auto.
  - exists c, (XIncomplete empty_pdir), (GStopped 3). rewrite F1, F2, F3. repeat split; auto.
  - rewrite F1, F2, F3. cbn [Nat.sub]. rewrite ?Nat.sub_0_r. rewrite upd_plate_canon, publish_all_canon.
    set (l := ideal_launch md bs c). set (s := step_of bs c).
    set (o := outputs n (canon c (XIncomplete empty_pdir)) l).
    set (allp := pubs_of o (e_order e)).
    assert (Hml' : marker_last allp = true) by (apply marker_last_filter; exact Hml).
    assert (Hdec : can_complete c \/ (md = Prosp /\ (n <= c mod bs)%nat)).
    { unfold can_complete. destruct md_cases as [E|E].
      - left. rewrite (md_retro _ _ E). rewrite (md_retro _ _ E) in Edone. apply Nat.leb_gt in Edone. exact Edone.
      - rewrite (md_prosp _ _ E). destruct (lt_dec (c mod bs) n); [now left|right; split; [exact E|lia]]. }
    destruct Hdec as [Hcan|[Emd Hstuck]].
    + assert (Ho : o = ip c) by (apply outputs_canon; exact Hcan).
      destruct (le_lt_dec (length allp) k') as [Hall|Hpart].
      * exists (S c), XNone. eexists. rewrite firstn_all2 by exact Hall.
        unfold allp. rewrite (pub_fold_all o l (e_order e) Hcov) by (rewrite Ho; apply ip_by).
        rewrite Ho, canon_complete. split; [reflexivity|]. repeat split; auto.
        intros E. unfold can_complete in Hcan. rewrite (md_retro _ _ E) in Hcan. lia.
      * exists c. eexists. eexists. split; [reflexivity|]. repeat split; auto.
        cbn [C19Canon.okx]. apply pub_fold_meta_none; [reflexivity|]. right.
        apply marker_last_prefix; assumption.
    + exists c. eexists. eexists. split; [reflexivity|]. repeat split; auto.
      cbn [C19Canon.okx]. apply pub_fold_meta_none; [reflexivity|]. left. now apply outputs_stuck.
Qed.

(* a call that launches leaves the incomplete directory of the next step behind (possibly with all its files: canon_complete) *)
Lemma attempt_canon_launch fixed c x e s l ps ok :
  okx c x -> fixed = true \/ bs = 1%nat -> (md = Retro -> (c <= n)%nat) ->
  snd (attempt md fixed (Z.of_nat bs) n (canon c x) e) = GLaunch s l ps ok ->
  s = step_of bs c /\ exists d, fst (attempt md fixed (Z.of_nat bs) n (canon c x) e) = canon c (XIncomplete d).
Proof.
  intros Hx Hfix Hcn. unfold attempt. rewrite (plan_canon fixed c x Hx Hfix Hcn).
  destruct (is_inc x) eqn:Einc.
  { destruct x as [| |d]; discriminate. }
  assert (Hx' : forall d, x <> XIncomplete d) by (intros d ->; discriminate).
  assert (F1 : rmtree (step_of bs c) (canon c x) = canon c x) by (now apply rmtree_canon).
  assert (F2 : mk_iter (Z.of_nat (c / bs)) (canon c x) = canon c XEmptyIter).
  { rewrite mk_iter_canon. destruct x; try reflexivity. discriminate. }
  pose proof (mk_plate_canon c) as F3.
  assert (Eplan : match x with
                  | XIncomplete _ => PNamed 1 (step_of bs c)
                  | _ => if match md with Retro => (n <=? c)%nat | Prosp => false end then PDone else PActs (acts_of c)
                  end = if match md with Retro => (n <=? c)%nat | Prosp => false end then PDone else PActs (acts_of c))
    by (destruct x; try reflexivity; discriminate).
  rewrite Eplan. clear Eplan.
  destruct (match md with Retro => (n <=? c)%nat | Prosp => false end); [cbn [snd]; discriminate|].
  unfold acts_of. cbn [firstn nth].
  destruct (e_k e) as [|[|[|[|k']]]] eqn:Ek; cbn [Nat.ltb Nat.leb firstn fold_left apply_action snd fst]; try discriminate.
  rewrite F1, F2, F3. rewrite upd_plate_canon, publish_all_canon.
  intros H; injection H as <- _ _ _. split; [reflexivity|]. eexists; reflexivity.
Qed.

(* an entry that lets the attempt run to its end *)
Definition full_entry (e : entry) : Prop := (4 + length (e_order e) <= e_k e)%nat.

Lemma filter_len {A} (p : A -> bool) l : (length (filter p l) <= length l)%nat.
Proof. induction l as [|a l IH]; cbn [filter length]; [lia|]. destruct (p a); cbn [length]; lia. Qed.

Lemma attempt_full fixed c x e :
  okx c x -> fixed = true \/ bs = 1%nat -> (forall d, x <> XIncomplete d) ->
  can_complete c -> (md = Retro -> (c < n)%nat) -> entry_ok e = true -> full_entry e ->
  fst (attempt md fixed (Z.of_nat bs) n (canon c x) e) = canon (S c) XNone.
Proof.
  intros Hx Hfix Hx' Hcan Hcn He Hfull. unfold attempt.
  rewrite (plan_canon fixed c x Hx Hfix) by (intros E; specialize (Hcn E); lia).
  apply andb_true_iff in He as [Hcov Hml].
  assert (F1 : rmtree (step_of bs c) (canon c x) = canon c x) by (now apply rmtree_canon).
  assert (F2 : mk_iter (Z.of_nat (c / bs)) (canon c x) = canon c XEmptyIter).
  { rewrite mk_iter_canon. destruct x; try reflexivity. exfalso. eapply Hx'. reflexivity. }
  pose proof (mk_plate_canon c) as F3.
  assert (Edone : match md with Retro => (n <=? c)%nat | Prosp => false end = false).
  { destruct md_cases as [E|E]; [rewrite (md_retro _ _ E); apply Nat.leb_gt; auto|now rewrite (md_prosp _ _ E)]. }
  assert (Eplan : match x with
                  | XIncomplete _ => PNamed 1 (step_of bs c)
                  | _ => if match md with Retro => (n <=? c)%nat | Prosp => false end then PDone else PActs (acts_of c)
                  end = PActs (acts_of c)).
  { rewrite Edone. destruct x; try reflexivity. exfalso. eapply Hx'. reflexivity. }
  rewrite Eplan. unfold acts_of. cbn [firstn nth]. unfold full_entry in Hfull.
  destruct (e_k e) as [|[|[|[|k']]]] eqn:Ek; try lia.
  cbn [Nat.ltb Nat.leb firstn fold_left apply_action fst Nat.sub]. rewrite ?Nat.sub_0_r.
  rewrite F1, F2, F3, upd_plate_canon, publish_all_canon. cbn [fst].
  rewrite (outputs_canon c empty_pdir Hcan).
  rewrite firstn_all2 by (unfold pubs_of; pose proof (filter_len (produced (ip c)) (e_order e)); lia).
  rewrite (pub_fold_all (ip c) _ (e_order e) Hcov (ip_by c)). apply canon_complete.
Qed.

(* ---------- completed steps of a canonical tree ---------- *)
Lemma step_of_split I a : (a < bs)%nat -> step_of bs (I * bs + a) = (Z.of_nat I, Z.of_nat a).
Proof. intros H. unfold step_of. destruct (dm_unique I a H) as [-> ->]. reflexivity. Qed.

Lemma completed_plates I : forall cnt a, (a + cnt <= bs)%nat ->
  flat_map (fun p : Z * pdir => match f_meta (snd p) with Some _ => [((Z.of_nat I, fst p), snd p)] | None => [] end)
           (plates_of I a cnt)
  = map (ideal_step md bs n) (seq (I * bs + a) cnt).
Proof.
  induction cnt as [|cnt IH]; intros a H; [reflexivity|].
  unfold C19Canon.plates_of. rewrite tab_cons. fold (plates_of I (S a) cnt).
  cbn [flat_map seq map fst snd]. rewrite (ip_meta md bs n). cbn [app]. rewrite IH by lia.
  unfold ideal_step at 2. rewrite step_of_split by lia.
  replace (I * bs + S a)%nat with (S (I * bs + a)) by lia. reflexivity.
Qed.

Lemma completed_of_iter_canon I J x : (J <= bs)%nat -> okx (I * bs + J) x ->
  completed_of_iter (Z.of_nat I, plates_of I 0 J ++ tail_of x J) = map (ideal_step md bs n) (seq (I * bs) J).
Proof.
  intros HJ Hx. unfold completed_of_iter. cbn [fst snd].
  pose proof (sort_plates I 0 J x) as Hs. cbn [Nat.add] in Hs. rewrite Hs.
  rewrite flat_map_app, completed_plates by lia. rewrite Nat.add_0_r.
  destruct x as [| |d]; cbn [tail_of flat_map]; rewrite ?app_nil_r; try reflexivity.
  cbn [snd]. cbn in Hx. rewrite Hx. now rewrite app_nil_r.
Qed.

Lemma completed_full : forall cnt a,
  flat_map completed_of_iter (tab full_iter a cnt) = map (ideal_step md bs n) (seq (a * bs) (cnt * bs)).
Proof.
  induction cnt as [|cnt IH]; intros a; [reflexivity|].
  rewrite tab_cons. cbn [flat_map]. rewrite IH.
  pose proof (completed_of_iter_canon a bs XNone (le_n bs) I) as H. cbn [tail_of] in H. rewrite app_nil_r in H.
  unfold C19Canon.full_iter.
  etransitivity; [apply (f_equal2 (@app _)); [exact H|reflexivity]|]. rewrite <- map_app. f_equal.
  replace (S cnt * bs)%nat with (bs + cnt * bs)%nat by lia. rewrite seq_app. do 2 f_equal. lia.
Qed.

Lemma completed_canon c x : okx c x -> completed (canon c x) = ideal md bs n c.
Proof.
  intros Hx. unfold completed. rewrite sort_canon. unfold C19Canon.canon. rewrite flat_map_app, completed_full.
  destruct (dm_spec c) as [Hc Hr]. unfold ideal. rewrite Hc at 4. rewrite seq_app, map_app. cbn [Nat.mul Nat.add]. f_equal.
  assert (Hx2 : okx (c / bs * bs + c mod bs) x) by (destruct x; cbn in *; auto).
  pose proof (completed_of_iter_canon (c / bs) (c mod bs) x (Nat.lt_le_incl _ _ Hr) Hx2) as H.
  unfold C19Canon.last_iter. destruct (c mod bs)%nat as [|j] eqn:EJ.
  - destruct x as [| |d]; [reflexivity| |]; cbn [flat_map]; rewrite H; reflexivity.
  - cbn [flat_map]. rewrite H. now rewrite app_nil_r.
Qed.

Lemma ideal_length c : length (ideal md bs n c) = c.
Proof. unfold ideal. now rewrite map_length, seq_length. Qed.

Lemma step_of_inj a b : step_of bs a = step_of bs b -> a = b.
Proof.
  unfold step_of. intros E. injection E as E1 E2. apply Nat2Z.inj in E1, E2.
  destruct (dm_spec a) as [Ha _]. destruct (dm_spec b) as [Hb _]. rewrite Ha, Hb, E1, E2. reflexivity.
Qed.

Lemma next_not_completed c : ~ In (step_of bs c) (map fst (ideal md bs n c)).
Proof.
  unfold ideal. rewrite map_map. cbn [ideal_step fst]. intros H. apply in_map_iff in H as (k & E & Hk).
  apply step_of_inj in E. apply in_seq in Hk. lia.
Qed.

End Step.
