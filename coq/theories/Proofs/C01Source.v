(* C01: the hand-written models of Model/Encode.v (and the id part of Model/Screen.v's constructor) equal the translations of
     batchie.data.numpy_array_is_0_indexed_integers, encode_treatment_arrays_to_0_indexed_ids, encode_1d_array_to_0_indexed_ids
   regenerated from /repo on every run (Generated/SrcEncode.v, by harness/py2gal.py with the configurations C01_* of
   harness/src_functions.py), for all inputs; and the id-encoding statements of Screen.__init__ (Generated/SrcScreenIds.v)
   equal the id part of the constructor model Screen.mk_screen.  Each numpy / pandas call is one primitive with a list meaning (end of
   Model/Encode.v); the order and wiring of the calls is the translation's.

   This file only collects the pieces Proofs/C01Source_<Piece>.v (one per translated function), so that a file of another
   property that needs the link of one function (Plate.merge needs encode_1d_array_to_0_indexed_ids) imports that piece alone. *)
From Batchie Require Export Proofs.C01Source_Base Proofs.C01Source_ValidIds Proofs.C01Source_Treatments
  Proofs.C01Source_Encode1d Proofs.C01Source_Init Proofs.C01Source_Space
  Proofs.C01Source_SpaceBase Proofs.C01Source_SpaceInit Proofs.C01Source_SpaceCounts Proofs.C01Source_SpaceByName
  Proofs.C01Source_SpaceSampleLookup.
