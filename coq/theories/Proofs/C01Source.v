(* C01: the hand-written models of Model/Encode.v (and the id part of Model/Screen.v's constructor) equal the translations of
     batchie.data.numpy_array_is_0_indexed_integers, encode_treatment_arrays_to_0_indexed_ids, encode_1d_array_to_0_indexed_ids
   regenerated from /repo on every run (Generated/SrcEncode.v, by harness/py2gal.py with the configurations C01_* of
   harness/src_functions.py), for all inputs; and the id-encoding statements of Screen.__init__ (Generated/SrcScreenIds.v)
   equal the id part of the constructor model Screen.mk_screen.  Each numpy / pandas call is one primitive with a list meaning (end of
   Model/Encode.v); the order and wiring of the calls is the translation's. *)
From Coq Require Import ZArith List Bool Lia ZifyBool Arith Sorted.
From Batchie Require Import Lib.Sexp Lib.PyRt Generated.Consts Generated.SrcArithC01 Model.Encode Model.Screen Generated.SrcEncode
  Generated.SrcScreenIds Proofs.PyRtLemmas Proofs.C01Sort Proofs.C01Encode Proofs.C03Screen.
Import ListNotations.
Open Scope Z_scope.

(* ---------- sorting ---------- *)
Section SortBy.
Context {K : Type} (cmp : K -> K -> comparison) (HC : CmpSpec cmp).

(* a strictly sorted list is a fixed point of the (stable insertion) sort *)
Lemma sort_by_of_sorted l : SSorted cmp l -> sort_by cmp l = l.
Proof.
  induction 1 as [|a l Hs IH Hall]; [reflexivity|].
  unfold sort_by in *. cbn [fold_right]. rewrite IH.
  destruct l as [|x r]; [reflexivity|]. cbn [insert_sorted].
  inversion Hall as [|? ? Hax _]; subst. unfold lt in Hax. now rewrite Hax.
Qed.

Lemma insert_sorted_In k l x : In x (insert_sorted cmp k l) <-> x = k \/ In x l.
Proof.
  induction l as [|y l IH]; cbn [insert_sorted In]; [intuition|].
  destruct (cmp k y); cbn [In]; rewrite ?IH; intuition.
Qed.

Lemma sort_by_In l x : In x (sort_by cmp l) <-> In x l.
Proof.
  induction l as [|y l IH]; cbn [sort_by fold_right In]; [tauto|].
  fold (sort_by cmp l). rewrite insert_sorted_In, IH. intuition.
Qed.

(* inserting a key that is not there into a strictly sorted list keeps it strictly sorted *)
Lemma insert_sorted_sorted k l : SSorted cmp l -> ~ In k l -> SSorted cmp (insert_sorted cmp k l).
Proof.
  induction l as [|y l IH]; intros Hs Hn; cbn [insert_sorted]; [repeat constructor|].
  inversion Hs as [|? ? Hs' Hall]; subst.
  assert (Hlt : forall z, cmp k y = Lt -> In z (y :: l) -> lt cmp k z).
  { intros z E [<-|Hz]; [exact E|]. rewrite Forall_forall in Hall. eapply (cmp_trans _ HC); [exact E | now apply Hall]. }
  destruct (cmp k y) eqn:E.
  - apply (cmp_eq _ HC) in E. subst. exfalso. apply Hn. now left.
  - constructor; [exact Hs|]. apply Forall_forall. intros z Hz. now apply Hlt.
  - constructor; [apply IH; [exact Hs' | intros X; apply Hn; now right]|].
    apply Forall_forall. intros z Hz. apply insert_sorted_In in Hz as [->|Hz].
    + now apply cmp_gt_lt.
    + rewrite Forall_forall in Hall. now apply Hall.
Qed.

Lemma sort_by_sorted l : NoDup l -> SSorted cmp (sort_by cmp l).
Proof.
  induction 1 as [|a l Hn Hd IH]; cbn [sort_by fold_right]; [constructor|].
  fold (sort_by cmp l). apply insert_sorted_sorted; [exact IH|]. now rewrite sort_by_In.
Qed.

(* sorting a duplicate-free list = the model's sort_uniq *)
Lemma sort_by_NoDup l : NoDup l -> sort_by cmp l = sort_uniq cmp l.
Proof.
  intros H. apply (SSorted_unique cmp HC); [now apply sort_by_sorted | now apply sort_uniq_sorted|].
  intros x. now rewrite sort_by_In, (sort_uniq_In cmp HC).
Qed.
End SortBy.

(* ---------- numpy_array_is_0_indexed_integers ---------- *)
Lemma all_true_eq_Z a : forall b, length a = length b -> all_true (np_eq_Z a b) = Zlist_eqb a b.
Proof.
  unfold all_true, np_eq_Z.
  induction a as [|x a IH]; intros [|y b] Hl; cbn [length] in Hl; try discriminate; [reflexivity|].
  cbn [combine map forallb Zlist_eqb fst snd]. rewrite IH by lia. reflexivity.
Qed.

Lemma zrange_pred n : zrange (Z.of_nat n - 1) = map Z.of_nat (seq 0 (n - 1)).
Proof. unfold zrange. f_equal. f_equal. lia. Qed.

Lemma zrange_of_nat n : zrange (Z.of_nat n) = map Z.of_nat (seq 0 n).
Proof. unfold zrange. now rewrite Nat2Z.id. Qed.

Theorem src_valid_ids_is_model : forall (isint : bool) (ids : list Z),
  src_numpy_array_is_0_indexed_integers (isint, ids) = Ok (zero_indexed isint ids).
Proof.
  intros isint ids. unfold src_numpy_array_is_0_indexed_integers, zero_indexed, arr_is_int, np_contains, np_unique_ids, np_sort_Z.
  cbn [fst snd]. destruct isint; cbn [negb]; [|reflexivity].
  rewrite (sort_by_of_sorted Z.compare) by apply (sort_uniq_sorted Z.compare Zcmp_spec).
  set (u := sort_uniq Z.compare ids).
  destruct (existsb (Z.eqb CONTROL_SENTINEL_VALUE) ids) eqn:E.
  - rewrite zrange_pred. cbn [app]. rewrite all_true_eq_Z; [reflexivity|].
    cbn [length]. rewrite map_length, seq_length.
    apply existsb_exists in E as (z & Hz & _). apply (sort_uniq_In Z.compare Zcmp_spec) in Hz. fold u in Hz.
    destruct u; [contradiction | cbn [length]; lia].
  - rewrite zrange_of_nat, all_true_eq_Z; [reflexivity|]. now rewrite map_length, seq_length.
Qed.

(* ---------- frames ---------- *)
Definition lab {R} (s : Z) (l : list R) : frame R := combine (zseq s (length l)) l.

Lemma df_fresh_lab {R} (l : list R) : df_fresh l = lab 0 l.
Proof. unfold df_fresh, lab. now rewrite zseq_0. Qed.

Lemma lab_cons {R} s (a : R) l : lab s (a :: l) = (s, a) :: lab (s + 1) l.
Proof. unfold lab. cbn [length]. rewrite zseq_S. reflexivity. Qed.

Lemma lab_rows {R} (l : list R) : forall s, map snd (lab s l) = l.
Proof. induction l as [|a l IH]; intros s; [reflexivity|]. rewrite lab_cons. cbn [map snd]. now rewrite IH. Qed.

Lemma lab_index {R} (l : list R) : forall s, map fst (lab s l) = zseq s (length l).
Proof.
  induction l as [|a l IH]; intros s; [reflexivity|]. rewrite lab_cons. cbn [map fst length]. now rewrite IH, zseq_S.
Qed.

Lemma lab_map {R T} (g : R -> T) (l : list R) : forall s, lab s (map g l) = map (fun p => (fst p, g (snd p))) (lab s l).
Proof.
  induction l as [|a l IH]; intros s; [reflexivity|]. cbn [map]. rewrite !lab_cons. cbn [map fst snd]. now rewrite IH.
Qed.

(* drop_duplicates: the values that remain are duplicate-free and are the values there were *)
Section DropDups.
Context {R : Type} (eqb : R -> R -> bool) (Heq : forall a b, eqb a b = true <-> a = b).

Lemma existsb_eqb_In r seen : existsb (eqb r) seen = true <-> In r seen.
Proof.
  rewrite existsb_exists. split.
  - intros (x & Hx & E). apply Heq in E. now subst.
  - intros H. exists r. split; [exact H | now apply Heq].
Qed.

Lemma drop_dups_from_spec (d : frame R) : forall seen,
  NoDup (map snd (drop_dups_from eqb seen d)) /\
  forall x, In x (map snd (drop_dups_from eqb seen d)) <-> In x (map snd d) /\ ~ In x seen.
Proof.
  induction d as [|[l r] d IH]; intros seen; cbn [drop_dups_from map snd].
  - split; [constructor | cbn [In]; tauto].
  - destruct (existsb (eqb r) seen) eqn:E.
    + destruct (IH seen) as [Hn Hi]. split; [exact Hn|]. intros x. rewrite Hi. cbn [In].
      apply existsb_eqb_In in E. split; [tauto|]. intros [[<-|Hx] Hs]; [contradiction | tauto].
    + destruct (IH (r :: seen)) as [Hn Hi]. cbn [map snd]. split.
      * constructor; [|exact Hn]. rewrite Hi. cbn [In]. tauto.
      * intros x. cbn [In]. rewrite Hi. cbn [In].
        assert (Hr : ~ In r seen) by (intros X; apply existsb_eqb_In in X; congruence).
        split.
        -- intros [<-|[Hx Hs]]; [tauto|]. split; [tauto|]. intros X. apply Hs. now right.
        -- intros [[<-|Hx] Hs]; [now left|]. destruct (existsb (eqb x) [r]) eqn:Ex.
           ++ apply existsb_eqb_In in Ex as [<-|[]]. now left.
           ++ right. split; [exact Hx|]. intros [<-|X]; [|contradiction].
              assert (Y : existsb (eqb r) [r] = true) by (apply existsb_eqb_In; now left). congruence.
Qed.
End DropDups.

Lemma insert_sorted_rows {R} (cmp : R -> R -> comparison) (p : Z * R) (d : frame R) :
  map snd (insert_sorted (fun a b => cmp (snd a) (snd b)) p d) = insert_sorted cmp (snd p) (map snd d).
Proof.
  induction d as [|q d IH]; cbn [insert_sorted map snd]; [reflexivity|].
  destruct (cmp (snd p) (snd q)); cbn [map snd]; now rewrite ?IH.
Qed.

Lemma df_sort_values_rows {R} (cmp : R -> R -> comparison) (d : frame R) :
  map snd (df_sort_values cmp d) = sort_by cmp (map snd d).
Proof.
  unfold df_sort_values, sort_by. induction d as [|p d IH]; cbn [fold_right map]; [reflexivity|].
  now rewrite insert_sorted_rows, IH.
Qed.

(* df.drop_duplicates().sort_values(by=<all columns>).reset_index(drop=True) = the model's sort_uniq, freshly labelled *)
Lemma dedup_sort_reset {R} (eqb : R -> R -> bool) (cmp : R -> R -> comparison) (l : list R) :
  (forall a b, eqb a b = true <-> a = b) -> CmpSpec cmp ->
  df_reset_drop (df_sort_values cmp (df_drop_duplicates eqb (df_fresh l))) = df_fresh (sort_uniq cmp l).
Proof.
  intros Heq HC. unfold df_reset_drop. f_equal. rewrite df_sort_values_rows.
  destruct (drop_dups_from_spec eqb Heq (df_fresh l) []) as [Hn Hi]. fold (df_drop_duplicates eqb (df_fresh l)) in Hn, Hi.
  rewrite (sort_by_NoDup cmp HC) by exact Hn. apply (sort_uniq_ext cmp HC). intros x. rewrite Hi.
  rewrite df_fresh_lab, lab_rows. cbn [In]. tauto.
Qed.

(* ---------- the control columns and the id assignment of encode_treatment_arrays_to_0_indexed_ids ---------- *)
Lemma control_column ctrl (su : list tkey) :
  series_or (series_le0 (kcol_dose (df_fresh su))) (series_eq_name (kcol_name (df_fresh su)) ctrl) = map (is_control ctrl) su.
Proof.
  unfold kcol_dose, kcol_name. rewrite <- !(map_map snd), df_fresh_lab, lab_rows.
  unfold series_or, series_le0, series_eq_name.
  induction su as [|k su IH]; cbn [map combine fst snd]; [reflexivity|]. now rewrite IH.
Qed.

Lemma add_control_column ctrl (su : list tkey) : forall s,
  df_add_col (lab s su) (map (is_control ctrl) su) = lab s (map (fun k => (k, is_control ctrl k)) su).
Proof.
  unfold df_add_col. induction su as [|k su IH]; intros s; [reflexivity|].
  cbn [map]. rewrite !lab_cons. cbn [combine map fst snd]. now rewrite IH.
Qed.

(* the frame after `df_unique["new_index"] = df_unique.index - df_unique.is_control.cumsum()`, row by row:
   (label, ((index column, ((name, dose), is_control)), label - inclusive running count of controls)) *)
Fixpoint id_rows (ctrl : name) (s cum : Z) (su : list tkey) : nframe :=
  match su with
  | [] => []
  | k :: r =>
      let c := is_control ctrl k in
      let cum' := if c then cum + 1 else cum in
      (s, ((s, (k, c)), s - cum')) :: id_rows ctrl (s + 1) cum' r
  end.

Lemma new_index_column ctrl (su : list tkey) : forall s cum,
  let d2 : iframe := lab s (lab s (map (fun k => (k, is_control ctrl k)) su)) in
  df_add_col d2 (series_sub (df_index d2) (cumsum_from cum (icol_is_control d2))) = id_rows ctrl s cum su.
Proof.
  cbv zeta. unfold df_add_col, series_sub, df_index, icol_is_control.
  induction su as [|k su IH]; intros s cum; [reflexivity|].
  cbn [map]. rewrite !lab_cons. cbn [map fst snd cumsum_from combine id_rows]. now rewrite IH.
Qed.

Lemma id_rows_index ctrl su : forall s cum, df_index (id_rows ctrl s cum su) = zseq s (length su).
Proof.
  unfold df_index. induction su as [|k su IH]; intros s cum; [reflexivity|].
  cbn [id_rows map fst length]. now rewrite IH, zseq_S.
Qed.

Lemma id_rows_is_control ctrl su : forall s cum, ncol_is_control (id_rows ctrl s cum su) = map (is_control ctrl) su.
Proof.
  unfold ncol_is_control. induction su as [|k su IH]; intros s cum; [reflexivity|].
  cbn [id_rows map fst snd]. now rewrite IH.
Qed.

(* the labels selected by a boolean column *)
Lemma series_select_In {A} (f : A -> bool) (l : list A) : forall s z,
  In z (series_select (map f l) (zseq s (length l))) <-> exists i a, nth_error l i = Some a /\ f a = true /\ z = s + Z.of_nat i.
Proof.
  unfold series_select. induction l as [|a l IH]; intros s z.
  - cbn. split; [tauto|]. intros (i & a & H & _). destruct i; discriminate.
  - cbn [length map]. rewrite zseq_S. cbn [combine filter fst].
    assert (Htl : In z (map snd (filter fst (combine (map f l) (zseq (s + 1) (length l))))) <->
                  exists i a', nth_error (a :: l) (S i) = Some a' /\ f a' = true /\ z = s + Z.of_nat (S i)).
    { rewrite IH. cbn [nth_error]. split; intros (i & a' & H1 & H2 & H3); exists i, a'; repeat split; try assumption; lia. }
    destruct (f a) eqn:E; cbn [map snd In]; rewrite Htl; split.
    + intros [<-|(i & a' & H)]; [exists 0%nat, a; cbn [nth_error]; repeat split; [exact E | lia] | exists (S i), a'; exact H].
    + intros ([|i] & a' & H1 & H2 & H3); [left; lia | right; exists i, a'; now repeat split].
    + intros (i & a' & H). exists (S i), a'. exact H.
    + intros ([|i] & a' & H1 & H2 & H3); [cbn [nth_error] in H1; congruence | exists i, a'; now repeat split].
Qed.

Lemma selected_labels {A} (f : A -> bool) (l : list A) s i a :
  nth_error l i = Some a -> existsb (Z.eqb (s + Z.of_nat i)) (series_select (map f l) (zseq s (length l))) = f a.
Proof.
  intros Hn. apply eq_true_iff_eq. rewrite existsb_exists. split.
  - intros (z & Hz & E). apply Z.eqb_eq in E. subst z. apply series_select_In in Hz as (j & b & H1 & H2 & H3).
    assert (j = i) by lia. subst j. congruence.
  - intros Hf. exists (s + Z.of_nat i). split; [|apply Z.eqb_refl]. apply series_select_In. now exists i, a.
Qed.

(* override of the selected labels, then `del index`, `del is_control` = the model's assignment *)
Lemma id_rows_final ctrl su : forall s cum sel,
  (forall i k, nth_error su i = Some k -> existsb (Z.eqb (s + Z.of_nat i)) sel = is_control ctrl k) ->
  map snd (df_del_is_control (df_del_index (df_loc_set (id_rows ctrl s cum su) sel CONTROL_SENTINEL_VALUE)))
  = assign_from ctrl s cum su.
Proof.
  unfold df_del_is_control, df_del_index, df_loc_set.
  induction su as [|k su IH]; intros s cum sel H; [reflexivity|].
  cbn [id_rows assign_from map fst snd].
  pose proof (H 0%nat k eq_refl) as H0. cbn [Z.of_nat] in H0. rewrite Z.add_0_r in H0. rewrite H0.
  rewrite IH.
  - destruct (is_control ctrl k); reflexivity.
  - intros i k' Hi. rewrite <- (H (S i) k' Hi). f_equal. f_equal. lia.
Qed.

(* the whole `else` branch: the frame df_unique ends as, from the frame df *)
Definition src_built_frame (ctrl : name) (df : kframe) : mframe :=
  let df_unique : kframe := df_reset_drop (df_sort_values tkey_cmp (df_drop_duplicates tkey_eqb df)) in
  let is_control := series_or (series_le0 (kcol_dose df_unique)) (series_eq_name (kcol_name df_unique) ctrl) in
  let df_unique : cframe := df_add_col df_unique is_control in
  let df_unique : iframe := df_reset_keep df_unique in
  let df_unique : nframe := df_add_col df_unique (series_sub (df_index df_unique) (series_cumsum (icol_is_control df_unique))) in
  let selection := series_select (ncol_is_control df_unique) (df_index df_unique) in
  let df_unique : nframe := df_loc_set df_unique selection CONTROL_SENTINEL_VALUE in
  df_del_is_control (df_del_index df_unique).

Lemma src_built_frame_rows ctrl (keys : list tkey) :
  map snd (src_built_frame ctrl (df_fresh keys)) = build_tmapping ctrl keys.
Proof.
  unfold src_built_frame, build_tmapping. cbv zeta.
  rewrite (dedup_sort_reset tkey_eqb tkey_cmp keys tkey_eqb_eq tkey_cmp_spec).
  set (su := sort_uniq tkey_cmp keys). rewrite control_column.
  rewrite (df_fresh_lab su), add_control_column. unfold df_reset_keep. rewrite df_fresh_lab.
  unfold series_cumsum. rewrite new_index_column.
  rewrite id_rows_index, id_rows_is_control. apply id_rows_final.
  intros i k Hi. apply (selected_labels (is_control ctrl) su 0 i k Hi).
Qed.

(* ---------- the left merge ---------- *)
Section Merge.
Context {K : Type} (eqb : K -> K -> bool) (Heq : forall a b, eqb a b = true <-> a = b).

(* the first row of the mapping with that key (the model's tlookup / nlookup) *)
Definition lookup_first (m : list (K * Z)) (k : K) : option Z :=
  match filter (fun q => eqb k (fst q)) m with [] => None | q :: _ => Some (snd q) end.

(* key-unique right-hand side: at most one row matches *)
Lemma filter_key_unique (m : list (K * Z)) k : NoDup (map fst m) ->
  (length (filter (fun q => eqb k (fst q)) m) <= 1)%nat.
Proof.
  induction m as [|[k' v] m IH]; intros Hn; cbn [filter fst length]; [lia|].
  inversion Hn as [|? ? Hnot Hn']; subst. destruct (eqb k k') eqn:E.
  - apply Heq in E. subst k'. cbn [length].
    replace (filter (fun q => eqb k (fst q)) m) with (@nil (K * Z)); [cbn [length]; lia|].
    symmetry. destruct (filter (fun q => eqb k (fst q)) m) as [|q r] eqn:F; [reflexivity|].
    exfalso. assert (Hq : In q (filter (fun q => eqb k (fst q)) m)) by (rewrite F; now left).
    apply filter_In in Hq as [Hq Eq]. apply Heq in Eq. apply Hnot. rewrite Eq. now apply in_map.
  - now apply IH.
Qed.

(* so the merged frame has one row per row of the left frame, carrying the first (= only) match or NaN *)
Lemma merge_left_ids (m : list (K * Z)) : NoDup (map fst m) ->
  forall (l : frame K) (r : frame (K * Z)), map snd r = m ->
  jcol_new_index (df_merge_left eqb l r) = map (lookup_first m) (map snd l).
Proof.
  intros Hn l r <-. unfold df_merge_left, jcol_new_index. rewrite <- (map_map snd snd), df_fresh_lab, lab_rows.
  set (f := fun p : Z * K => match filter (fun q => eqb (snd p) (fst q)) (map snd r) with
                             | [] => [(snd p, @None Z)]
                             | ms => map (fun q => (snd p, Some (snd q))) ms
                             end).
  induction l as [|p l IH]; [reflexivity|].
  change (flat_map f (p :: l)) with (f p ++ flat_map f l). rewrite map_app, IH. cbn [map]. f_equal.
  unfold f, lookup_first.
  pose proof (filter_key_unique (map snd r) (snd p) Hn) as Hlen.
  destruct (filter (fun q => eqb (snd p) (fst q)) (map snd r)) as [|q [|q' rest]]; cbn [length] in Hlen; try lia; reflexivity.
Qed.
End Merge.

Lemma lookup_first_tlookup m k : lookup_first tkey_eqb m k = tlookup m k.
Proof.
  unfold lookup_first. induction m as [|[k' id] m IH]; cbn [filter tlookup fst]; [reflexivity|].
  destruct (tkey_eqb k k'); [reflexivity | exact IH].
Qed.

Lemma lookup_first_nlookup m k : lookup_first name_eqb m k = nlookup m k.
Proof.
  unfold lookup_first. induction m as [|[k' id] m IH]; cbn [filter nlookup fst]; [reflexivity|].
  destruct (name_eqb k k'); [reflexivity | exact IH].
Qed.

(* np.all(column.notna()) and the column's values, against the model's all-or-nothing lookup *)
Lemma notna_opt_map_all {A} (f : A -> option Z) (l : list A) :
  match opt_map_all f l with
  | Some ids => all_true (series_notna (map f l)) = true /\ map f l = map Some ids
  | None => all_true (series_notna (map f l)) = false
  end.
Proof.
  unfold all_true, series_notna. induction l as [|a l IH]; cbn [opt_map_all map forallb]; [split; reflexivity|].
  destruct (f a) as [b|]; cbn [opt_bind]; [|reflexivity].
  destruct (opt_map_all f l) as [bs|]; cbn [opt_bind andb]; [|exact IH].
  destruct IH as [H1 H2]. split; [exact H1 | cbn [map]; now rewrite H2].
Qed.

(* ---------- encode_treatment_arrays_to_0_indexed_ids ---------- *)
Lemma mframe_cols (m : tmapping) (d : mframe) : map snd d = m ->
  mcol_name d = map (fun e => fst (fst e)) m /\ mcol_dose d = map (fun e => snd (fst e)) m /\ mcol_new_index d = map snd m.
Proof. intros <-. unfold mcol_name, mcol_dose, mcol_new_index. rewrite !map_map. repeat split. Qed.

(* merge + the NaN check + the four returned arrays, for any frame df_unique whose rows are a key-unique mapping m *)
Lemma src_encode_treatments_tail (keys : list tkey) (m : tmapping) (d : mframe) : map snd d = m -> NoDup (map fst m) ->
  (if negb (all_true (series_notna (jcol_new_index (df_merge_left tkey_eqb (df_fresh keys) d)))) then Err 5
   else Ok (jcol_new_index (df_merge_left tkey_eqb (df_fresh keys) d), mcol_name d, mcol_dose d, mcol_new_index d))
  = match opt_map_all (tlookup m) keys with
    | Some ids => Ok (map Some ids, map (fun e => fst (fst e)) m, map (fun e => snd (fst e)) m, map snd m)
    | None => Err 5
    end.
Proof.
  intros Hd Hn. rewrite (merge_left_ids tkey_eqb tkey_eqb_eq m Hn _ d Hd), df_fresh_lab, lab_rows.
  rewrite (map_ext _ _ (lookup_first_tlookup m)).
  destruct (mframe_cols m d Hd) as (-> & -> & ->).
  pose proof (notna_opt_map_all (tlookup m) keys) as H.
  destruct (opt_map_all (tlookup m) keys) as [ids|]; [destruct H as [-> ->] | rewrite H]; reflexivity.
Qed.

Theorem src_encode_treatments_is_model : forall (names : list name) (doses : list Z) (ctrl : name) (existing : option tmap_py),
  match existing with Some t => NoDup (map fst (tmap_py_rows t)) | None => True end ->
  src_encode_treatment_arrays names doses ctrl existing
  = if negb (Nat.eqb (length names) (length doses)) then Err 15
    else if match existing with Some t => negb (tmap_py_aligned t) | None => false end then Err 15
    else dor r <- encode_treatments (combine names doses) ctrl (option_map tmap_py_rows existing);
         Ok (map Some (fst r), map (fun e => fst (fst e)) (snd r), map (fun e => snd (fst e)) (snd r), map snd (snd r)).
Proof.
  intros names doses ctrl existing Hex. unfold src_encode_treatment_arrays, df_of_cols2.
  destruct (Nat.eqb (length names) (length doses)); cbn [negb res_bind]; [|reflexivity].
  set (keys := combine names doses). unfold encode_treatments.
  destruct existing as [[[a b] [isint c]]|]; cbn [is_some unwrap res_bind option_map fst snd].
  - unfold mframe_of_cols, df_of_cols3, tmap_py_aligned. cbn [fst snd].
    destruct (Nat.eqb (length a) (length b) && Nat.eqb (length b) (length c)); cbn [negb res_bind]; [|reflexivity].
    unfold tmap_py_rows in *. cbn [fst snd] in *. set (m := combine (combine a b) c) in *. cbv zeta.
    etransitivity; [apply (src_encode_treatments_tail keys m (df_fresh m)); [now rewrite df_fresh_lab, lab_rows | exact Hex]|].
    destruct (opt_map_all (tlookup m) keys); reflexivity.
  - cbv zeta. change (df_del_is_control _) with (src_built_frame ctrl (df_fresh keys)).
    etransitivity; [apply (src_encode_treatments_tail keys (build_tmapping ctrl keys)); [apply src_built_frame_rows | apply built_keys_NoDup]|].
    destruct (opt_map_all (tlookup (build_tmapping ctrl keys)) keys); reflexivity.
Qed.

(* the round-1 reading of the control comparison (Generated/SrcArithC01.v) is the operator the translation applies
   to the dose column: the constant is redundant now, and consistent *)
Theorem src_dose_is_control_consistent : forall doses : list Z, series_le0 doses = map src_dose_is_control doses.
Proof. reflexivity. Qed.

(* ---------- encode_1d_array_to_0_indexed_ids ---------- *)
Lemma number_rows (su : list name) : forall s,
  map snd (df_rename_index (lab s (lab s su))) = number_from s su.
Proof.
  unfold df_rename_index. induction su as [|k su IH]; intros s; [reflexivity|].
  rewrite !lab_cons. cbn [map fst snd number_from]. now rewrite IH.
Qed.

Lemma src_built_nframe_rows (names : list name) :
  map snd (df_rename_index (df_reset_keep (df_reset_drop (df_sort_values name_cmp (df_drop_duplicates name_eqb (df_fresh names))))))
  = build_nmapping names.
Proof.
  rewrite (dedup_sort_reset name_eqb name_cmp names name_eqb_eq name_cmp_spec).
  unfold df_reset_keep, build_nmapping. rewrite !df_fresh_lab. apply number_rows.
Qed.

Lemma src_encode_1d_tail (names : list name) (m : nmapping) (d : vmframe) (tag : Z) : map snd d = m -> NoDup (map fst m) ->
  (if negb (all_true (series_notna (jcol_new_index (df_merge_left name_eqb (vframe_of_col names) d)))) then Err tag
   else Ok (jcol_new_index (df_merge_left name_eqb (vframe_of_col names) d), vmcol_val d, vmcol_new_index d))
  = match opt_map_all (nlookup m) names with
    | Some ids => Ok (map Some ids, map fst m, map snd m)
    | None => Err tag
    end.
Proof.
  intros Hd Hn. unfold vframe_of_col.
  rewrite (merge_left_ids name_eqb name_eqb_eq m Hn _ d Hd), df_fresh_lab, lab_rows.
  rewrite (map_ext _ _ (lookup_first_nlookup m)).
  unfold vmcol_val, vmcol_new_index. rewrite <- Hd, !map_map.
  pose proof (notna_opt_map_all (nlookup (map snd d)) names) as H.
  destruct (opt_map_all (nlookup (map snd d)) names) as [ids|]; [destruct H as [-> ->] | rewrite H]; reflexivity.
Qed.

Theorem src_encode_1d_is_model : forall (names : list name) (existing : option smap_py),
  match existing with Some t => NoDup (map fst (smap_py_rows t)) | None => True end ->
  src_encode_1d_array names existing
  = if match existing with Some t => negb (smap_py_aligned t) | None => false end then Err 15
    else dor r <- encode_names names (option_map smap_py_rows existing) 6;
         Ok (map Some (fst r), map fst (snd r), map snd (snd r)).
Proof.
  intros names existing Hex. unfold src_encode_1d_array, encode_names.
  destruct existing as [[a [isint c]]|]; cbn [is_some unwrap res_bind option_map fst snd].
  - unfold vmframe_of_cols, df_of_cols2, smap_py_aligned. cbn [fst snd].
    destruct (Nat.eqb (length a) (length c)); cbn [negb res_bind]; [|reflexivity].
    unfold smap_py_rows in *. cbn [fst snd] in *. set (m := combine a c) in *. cbv zeta.
    etransitivity; [apply (src_encode_1d_tail names m (df_fresh m)); [now rewrite df_fresh_lab, lab_rows | exact Hex]|].
    destruct (opt_map_all (nlookup m) names); reflexivity.
  - cbv zeta. etransitivity; [apply (src_encode_1d_tail names (build_nmapping names)); [apply src_built_nframe_rows | apply nbuilt_keys_NoDup]|].
    destruct (opt_map_all (nlookup (build_nmapping names)) names); reflexivity.
Qed.

(* ---------- Screen.__init__: the statements that encode names and doses to ids ---------- *)
Theorem src_init_control_name_is_param : forall c : name, src_init_control_name c = Ok c.
Proof. reflexivity. Qed.

Lemma res_fold_append_in {A B} (f : list B -> A -> result (list B)) (g : A -> B) l :
  (forall acc x, In x l -> f acc x = Ok (acc ++ [g x])) -> forall acc, res_fold f l acc = Ok (acc ++ map g l).
Proof.
  induction l as [|a l IH]; intros H acc; cbn [res_fold map]; [now rewrite app_nil_r|].
  rewrite H by now left. cbn [res_bind]. rewrite IH by (intros; apply H; now right). now rewrite <- app_assoc.
Qed.

Lemma arr2_col_in {A} (d : A) a rows i : (i < a)%nat -> arr2_col d (a, rows) (Z.of_nat i) = Ok (column d i rows).
Proof.
  intros H. unfold arr2_col. cbn [fst snd].
  replace (Z.of_nat i <? 0) with false by lia.
  replace ((0 <=? Z.of_nat i) && (Z.of_nat i <? Z.of_nat a)) with true by lia. now rewrite Nat2Z.id.
Qed.

Lemma column_map {A B} (f : A -> B) d i rows : column (f d) i (map (map f) rows) = map f (column d i rows).
Proof. unfold column. rewrite !map_map. apply map_ext. intros r. apply map_nth. Qed.

Lemma flatten_cols_map {A B} (f : A -> B) d a rows :
  flatten_cols (f d) a (map (map f) rows) = map f (flatten_cols d a rows).
Proof.
  unfold flatten_cols. rewrite concat_map, map_map. f_equal. apply map_ext. intros i. apply column_map.
Qed.

Lemma combine_fst_snd {A B} (l : list (A * B)) : combine (map fst l) (map snd l) = l.
Proof. induction l as [|[a b] l IH]; cbn [map combine fst snd]; [reflexivity | now rewrite IH]. Qed.

Lemma np_concat_cons {A} (x : list A) l : np_concat (x :: l) = Ok (concat (x :: l)).
Proof. reflexivity. Qed.

(* the loop over range(treatment_arity) and the two np.concatenate calls: the column-major flattening of both arrays *)
Lemma src_flatten {A} (d : A) (a : nat) (rows : list (list A)) (proj : list name * list Z -> list A)
      (combos : list (list name * list Z)) (cols : nat -> list name * list Z) :
  (0 < a)%nat -> combos = map cols (seq 0 a) -> (forall i, proj (cols i) = column d i rows) ->
  np_concat (map proj combos) = Ok (flatten_cols d a rows).
Proof.
  intros Ha -> Hp. unfold flatten_cols. rewrite map_map. rewrite (map_ext _ _ Hp).
  destruct a as [|a]; [lia|]. reflexivity.
Qed.

(* np.vstack(np.split(flat, arity)).T = the model's unflatten_cols *)
Lemma nth_firstn_lt {A} (d : A) : forall n j l, (j < n)%nat -> nth j (firstn n l) d = nth j l d.
Proof. induction n as [|n IH]; intros j l H; [lia|]. destruct l as [|x l]; [now destruct j|]. destruct j; [reflexivity|]. cbn [firstn nth]. apply IH. lia. Qed.

Lemma nth_skipn_add {A} (d : A) : forall k j l, nth j (skipn k l) d = nth (k + j) l d.
Proof. induction k as [|k IH]; intros j l; [reflexivity|]. destruct l as [|x l]; [now destruct j|]. cbn [skipn Nat.add nth]. apply IH. Qed.

Lemma np_split_chunks {A} (l : list A) a n : (0 < a)%nat -> length l = (a * n)%nat ->
  np_split l (Z.of_nat a) = Ok (map (fun i => firstn n (skipn (i * n) l)) (seq 0 a)).
Proof.
  intros Ha Hl. unfold np_split. replace (Z.of_nat a <=? 0) with false by lia.
  rewrite Hl, Nat2Z.inj_mul, Z.mul_comm, Z_mod_mult. cbn [Z.eqb negb].
  rewrite Z.div_mul by lia. now rewrite !Nat2Z.id.
Qed.

Lemma np_vstack_uniform {A} (l : list (list A)) n : l <> [] -> (forall x, In x l -> length x = n) -> np_vstack l = Ok (n, l).
Proof.
  intros Hne H. destruct l as [|r rest]; [contradiction|]. unfold np_vstack.
  rewrite (H r) by now left.
  replace (forallb (fun x => Nat.eqb (length x) n) rest) with true; [reflexivity|].
  symmetry. apply forallb_forall. intros x Hx. apply Nat.eqb_eq. apply H. now right.
Qed.

Lemma src_unflatten (tflat : list Z) a n : (0 < a)%nat -> length tflat = (a * n)%nat ->
  (dor r1 <- np_split (map Some tflat) (Z.of_nat a); dor r2 <- np_vstack r1; Ok (arr2_T None r2))
  = Ok (a, map (map Some) (unflatten_cols a n tflat)).
Proof.
  intros Ha Hl. rewrite (np_split_chunks _ a n Ha) by now rewrite map_length. cbn [res_bind].
  set (l := map Some tflat).
  rewrite (np_vstack_uniform _ n).
  - cbn [res_bind]. unfold arr2_T. cbn [fst snd]. rewrite map_length, seq_length. f_equal. f_equal.
    unfold unflatten_cols. rewrite map_map. apply map_ext_in. intros j Hj. apply in_seq in Hj.
    unfold column. rewrite !map_map. apply map_ext_in. intros i Hi. apply in_seq in Hi.
    rewrite nth_firstn_lt by lia. rewrite nth_skipn_add. unfold l.
    rewrite (nth_indep _ None (Some 0)) by (rewrite map_length; nia). apply map_nth.
  - destruct a; [lia | discriminate].
  - intros x Hx. apply in_map_iff in Hx as (i & <- & Hi). apply in_seq in Hi.
    rewrite firstn_length, skipn_length. unfold l. rewrite map_length. nia.
Qed.

Lemma tmap_py_rows_of m b : tmap_py_rows (tmap_py_of m b) = m.
Proof.
  unfold tmap_py_rows, tmap_py_of. cbn [fst snd].
  induction m as [|[[n d] i] m IH]; cbn [map combine fst snd]; [reflexivity | now rewrite IH].
Qed.

Lemma tmap_py_aligned_of m b : tmap_py_aligned (tmap_py_of m b) = true.
Proof. unfold tmap_py_aligned, tmap_py_of. cbn [fst snd]. rewrite !map_length, !Nat.eqb_refl. reflexivity. Qed.

Lemma smap_py_rows_of m b : smap_py_rows (smap_py_of m b) = m.
Proof. unfold smap_py_rows, smap_py_of. cbn [fst snd]. apply combine_fst_snd. Qed.

Lemma smap_py_aligned_of m b : smap_py_aligned (smap_py_of m b) = true.
Proof. unfold smap_py_aligned, smap_py_of. cbn [fst snd]. now rewrite !map_length, Nat.eqb_refl. Qed.

(* the validation of a supplied mapping's id array *)
Lemma src_check_tmap (tm : option (tmapping * bool)) :
  (if is_some (tmap_arg_py tm) then
     dor u <- unwrap (tmap_arg_py tm); dor r <- src_numpy_array_is_0_indexed_integers (snd u);
     if negb r then Err 3 else Ok tt
   else Ok tt) = if tmap_bad tm then Err 3 else Ok tt.
Proof.
  destruct tm as [[m b]|]; cbn [tmap_arg_py option_map is_some unwrap res_bind tmap_bad fst snd]; [|reflexivity].
  unfold tmap_py_of. cbn [snd]. rewrite src_valid_ids_is_model. reflexivity.
Qed.

Lemma src_check_smap (sm : option (nmapping * bool)) :
  (if is_some (smap_arg_py sm) then
     dor u <- unwrap (smap_arg_py sm); dor r <- src_numpy_array_is_0_indexed_integers (snd u);
     if negb r then Err 4 else Ok tt
   else Ok tt) = if smap_bad sm then Err 4 else Ok tt.
Proof.
  destruct sm as [[m b]|]; cbn [smap_arg_py option_map is_some unwrap res_bind smap_bad fst snd]; [|reflexivity].
  unfold smap_py_of. cbn [snd]. rewrite src_valid_ids_is_model. reflexivity.
Qed.

Lemma opt_map_all_length {A B} (f : A -> option B) l : forall r, opt_map_all f l = Some r -> length r = length l.
Proof.
  induction l as [|a l IH]; intros r E; cbn [opt_map_all] in E; [now inversion E|].
  destruct (f a); cbn [opt_bind] in E; [|discriminate].
  destruct (opt_map_all f l) as [y|]; cbn [opt_bind] in E; [|discriminate]. inversion E. cbn [length]. now rewrite (IH y).
Qed.

Lemma encode_treatments_length keys c ex ids m : encode_treatments keys c ex = Ok (ids, m) -> length ids = length keys.
Proof.
  unfold encode_treatments. cbv zeta. set (mm := match ex with Some m0 => m0 | None => build_tmapping c keys end).
  destruct (opt_map_all (tlookup mm) keys) as [x|] eqn:E; [|discriminate]. intros H. inversion H. subst.
  now apply opt_map_all_length in E.
Qed.

(* the statement run on the arrays of a constructor call whose observations and mask are given: after the constructor
   model's arity and per-plate checks, it IS the id part of the model, read back by [stored_ids] *)
Theorem src_init_ids_is_model : forall rows a c tm sm,
  (0 < a)%nat ->
  match tm with Some (m, _) => NoDup (map fst m) | None => True end ->
  match sm with Some (m, _) => NoDup (map fst m) | None => True end ->
  (dor s <- mk_screen rows a c tm sm true true; Ok (stored_ids s))
  = if negb (arity_ok a rows) then Err 1
    else if negb (plate_uniform rows) then Err 2
    else src_init_ids (names_arr a rows) (doses_arr a rows) (map r_sample rows) (map r_plate rows)
                      (tmap_arg_py tm) (smap_arg_py sm) c.
Proof.
  intros rows a c tm sm Ha Htm Hsm. rewrite mk_screen_unfold.
  destruct (arity_ok a rows); cbn [negb andb res_bind]; [|reflexivity].
  cbv zeta. change (norm_rows true true rows) with rows.
  destruct (plate_uniform rows); cbn [negb res_bind]; [|reflexivity].
  unfold src_init_ids, names_arr, doses_arr, arr2_shape1. cbn [fst snd]. rewrite zrange_of_nat.
  set (T := map r_treats rows).
  set (N := map (fun r => map fst (r_treats r)) rows). set (D := map (fun r => map snd (r_treats r)) rows).
  assert (HN : N = map (map fst) T) by (unfold N, T; now rewrite map_map).
  assert (HD : D = map (map snd) T) by (unfold D, T; now rewrite map_map).
  (* the loop *)
  rewrite (res_fold_append_in _ (fun x => (column [] (Z.to_nat x) N, column 0 (Z.to_nat x) D))).
  2:{ intros acc x Hx. apply in_map_iff in Hx as (i & <- & Hi). apply in_seq in Hi.
      rewrite !arr2_col_in by lia. cbn [res_bind]. now rewrite Nat2Z.id. }
  cbn [res_bind app].
  assert (Hc : map (fun x => (column [] (Z.to_nat x) N, column 0 (Z.to_nat x) D)) (map Z.of_nat (seq 0 a))
               = map (fun i => (column [] i N, column 0 i D)) (seq 0 a))
    by (rewrite map_map; apply map_ext; intros i; now rewrite Nat2Z.id).
  rewrite Hc. clear Hc.
  set (e4 := @np_concat name _).
  assert (E4 : e4 = Ok (flatten_cols [] a N))
    by (apply (@src_flatten name [] a N (fun x => fst x) _ (fun i => (column [] i N, column 0 i D)) Ha eq_refl); reflexivity).
  rewrite E4. clear e4 E4. cbn [res_bind].
  set (e5 := @np_concat Z _).
  assert (E5 : e5 = Ok (flatten_cols 0 a D))
    by (apply (@src_flatten Z 0 a D (fun x => snd x) _ (fun i => (column [] i N, column 0 i D)) Ha eq_refl); reflexivity).
  rewrite E5. clear e5 E5. cbn [res_bind].
  replace (flatten_cols [] a N) with (map fst (the_tkeys a rows))
    by (unfold the_tkeys; fold T; rewrite HN; symmetry; exact (flatten_cols_map fst ([], 0) a T)).
  replace (flatten_cols 0 a D) with (map snd (the_tkeys a rows))
    by (unfold the_tkeys; fold T; rewrite HD; symmetry; exact (flatten_cols_map snd ([], 0) a T)).
  (* the two validations *)
  rewrite src_check_tmap. destruct (tmap_bad tm) eqn:Etm; cbn [res_bind]; [reflexivity|].
  rewrite src_check_smap. destruct (smap_bad sm) eqn:Esm; cbn [res_bind]; [reflexivity|].
  (* the treatment encoder *)
  rewrite src_encode_treatments_is_model.
  2:{ destruct tm as [[m b]|]; cbn [tmap_arg_py option_map fst snd]; [now rewrite tmap_py_rows_of | exact I]. }
  rewrite !map_length, Nat.eqb_refl. cbn [negb].
  replace (match tmap_arg_py tm with Some t => negb (tmap_py_aligned t) | None => false end) with false
    by (destruct tm as [[m b]|]; cbn [tmap_arg_py option_map fst snd]; [now rewrite tmap_py_aligned_of | reflexivity]).
  rewrite combine_fst_snd.
  replace (option_map tmap_py_rows (tmap_arg_py tm)) with (option_map fst tm)
    by (destruct tm as [[m b]|]; cbn [tmap_arg_py option_map fst snd]; [now rewrite tmap_py_rows_of | reflexivity]).
  set (et := encode_treatments (the_tkeys a rows) c (option_map fst tm)). change (encode_treatments _ _ _) with et.
  pose proof (eq_refl : encode_treatments (the_tkeys a rows) c (option_map fst tm) = et) as Et. clearbody et.
  destruct et as [[tflat tmp]|t]; cbn [res_bind fst snd]; [|reflexivity].
  (* split / vstack / T *)
  pose proof (src_unflatten tflat a (length rows) Ha) as Hu.
  rewrite (encode_treatments_length _ _ _ _ _ Et) in Hu. unfold the_tkeys in Hu. rewrite flatten_cols_length, map_length in Hu.
  specialize (Hu eq_refl).
  destruct (np_split (map Some tflat) (Z.of_nat a)) as [r1|]; cbn [res_bind] in Hu |- *; [|discriminate].
  destruct (np_vstack r1) as [r2|]; cbn [res_bind] in Hu |- *; [|discriminate].
  assert (Hu' : arr2_T None r2 = (a, map (map Some) (unflatten_cols a (length rows) tflat))) by congruence.
  rewrite Hu'. clear Hu Hu'.
  (* samples and plates *)
  rewrite src_encode_1d_is_model.
  2:{ destruct sm as [[m b]|]; cbn [smap_arg_py option_map fst snd]; [now rewrite smap_py_rows_of | exact I]. }
  replace (match smap_arg_py sm with Some t => negb (smap_py_aligned t) | None => false end) with false
    by (destruct sm as [[m b]|]; cbn [smap_arg_py option_map fst snd]; [now rewrite smap_py_aligned_of | reflexivity]).
  replace (option_map smap_py_rows (smap_arg_py sm)) with (option_map fst sm)
    by (destruct sm as [[m b]|]; cbn [smap_arg_py option_map fst snd]; [now rewrite smap_py_rows_of | reflexivity]).
  set (es := encode_names (map r_sample rows) (option_map fst sm) 6). change (encode_names _ (option_map _ sm) _) with es.
  clearbody es. destruct es as [[sids smp]|t]; cbn [res_bind fst snd]; [|reflexivity].
  rewrite (src_encode_1d_is_model _ None I). cbn [option_map].
  destruct (encode_names (map r_plate rows) None 6) as [[pids pmp]|t] eqn:Ep; cbn [res_bind fst snd]; reflexivity.
Qed.

(* ---------- ExperimentSpace.n_unique_samples / n_unique_treatments on the tuples a constructed screen stores ---------- *)
Theorem src_space_n_samples_is_model : forall s : screen,
  src_space_n_unique_samples (nmap_cols2 (s_smap s)) = Ok (space_n_samples s).
Proof. reflexivity. Qed.

Theorem src_space_n_treatments_is_model : forall s : screen,
  src_space_n_unique_treatments (tmap_cols3 (s_tmap s)) = Ok (space_n_treatments s).
Proof.
  intros s. unfold src_space_n_unique_treatments, space_n_treatments, tmap_cols3, np_setdiff1d. cbn [snd].
  rewrite (sort_uniq_of_sorted Z.compare Zcmp_spec) by apply (sort_uniq_sorted Z.compare Zcmp_spec).
  do 4 f_equal. apply filter_ext. intros x. cbn [existsb]. now rewrite orb_false_r.
Qed.
