(* C13: MergeTopBottom - merges stay within a sample; one iteration halves (rounding up) the
   number of plates of the sample and leaves the other samples' plates alone. *)
From Coq Require Import ZArith List Bool Arith Lia Permutation.
From Batchie Require Import Lib.Sexp Lib.ListX Model.Encode Model.Screen Model.Retro
  Proofs.C11Lib Proofs.C11Gen Proofs.C11Smooth Proofs.C11Select Proofs.C13NPlate Proofs.C13MergeLib.
Import ListNotations.
Open Scope nat_scope.

(* sorted(plates, key=size) permutes the plates *)
Lemma insert_sz_map (f : name -> bvec) : forall x l,
  exists l', Permutation l' (x :: l) /\ insert_sz (f x) (map f l) = map f l'.
Proof.
  intros x l. induction l as [|y l (l' & HP & He)]; cbn [map insert_sz].
  - exists [x]. split; reflexivity.
  - destruct (vcount (f x) <=? vcount (f y)).
    + exists (x :: y :: l). split; reflexivity.
    + exists (y :: l'). split; [rewrite HP; apply perm_swap|]. cbn [map]. now rewrite He.
Qed.

Lemma sort_sz_map (f : name -> bvec) : forall l,
  exists l', Permutation l' l /\ sort_sz (map f l) = map f l'.
Proof.
  induction l as [|x l (l' & HP & He)]; cbn [map sort_sz fold_right].
  - exists []. split; reflexivity.
  - change (fold_right insert_sz [] (map f l)) with (sort_sz (map f l)). rewrite He.
    destruct (insert_sz_map f x l') as (l'' & HP' & He'). exists l''. split; [|exact He'].
    rewrite HP'. now constructor.
Qed.

Lemma combine_fst_snd {A B} : forall (la : list A) (lb : list B), length la = length lb ->
  map fst (combine la lb) = la /\ map snd (combine la lb) = lb.
Proof.
  induction la as [|a la IH]; intros [|b lb] H; try discriminate; [split; reflexivity|].
  cbn [combine map fst snd]. destruct (IH lb) as [H1 H2]; [cbn in H; lia|]. now rewrite H1, H2.
Qed.

Lemma combine_map2 {A B} (f : A -> B) : forall (la lb : list A),
  combine (map f la) (map f lb) = map (fun ab => (f (fst ab), f (snd ab))) (combine la lb).
Proof.
  induction la as [|a la IH]; intros [|b lb]; cbn [map combine fst snd]; try reflexivity. now rewrite IH.
Qed.

Lemma NoDup_drop_mid {A} : forall (a m b : list A), NoDup (a ++ m ++ b) -> NoDup (a ++ b).
Proof.
  induction a as [|x a IH]; intros m b H; cbn [app] in *.
  - now destruct (NoDup_app_inv _ _ H) as (_ & H2 & _).
  - inversion H as [|? ? Hn Hd]; subst. constructor; [|eapply IH; exact Hd].
    intros Hin. apply Hn. apply in_app_or in Hin as [Hin|Hin]; apply in_or_app; [now left|right].
    apply in_or_app. now right.
Qed.

Lemma NoDup_top_bottom {A} : forall (l : list A) h, NoDup l -> 2 * h <= length l ->
  NoDup (firstn h l ++ firstn h (rev l)).
Proof.
  intros l h Hnd Hh. rewrite firstn_rev.
  eapply Permutation_NoDup; [apply Permutation_app_head, Permutation_rev|].
  apply (NoDup_drop_mid _ (firstn (length l - 2 * h) (skipn h l))).
  replace (skipn (length l - h) l) with (skipn (length l - 2 * h) (skipn h l))
    by (rewrite skipn_skipn; f_equal; lia).
  now rewrite (firstn_skipn (length l - 2 * h)), firstn_skipn.
Qed.

Section Pairs.
Variables (s : name) (rows0 : list row).

Lemma tb_pairs_effect : forall (npairs : list (name * name)) rows,
  one_sample rows ->
  NoDup (map fst npairs ++ map snd npairs) ->
  (forall c, In c (map fst npairs ++ map snd npairs) ->
     In c (sample_plates s rows) /\ plate_vec c rows = plate_vec c rows0) ->
  let out := tb_merge_pairs (map (fun ab => (plate_vec (fst ab) rows0, plate_vec (snd ab) rows0)) npairs) rows in
  one_sample out /\
  length (sample_plates s rows) = length npairs + length (sample_plates s out) /\
  forall s', s' <> s -> sample_plates s' out = sample_plates s' rows.
Proof.
  induction npairs as [|[sm bg] npairs IH]; intros rows Hone Hnd Hin; cbn [map tb_merge_pairs fst snd length].
  - auto.
  - cbn [map fst snd app] in Hnd, Hin.
    assert (Hsm : In sm (sample_plates s rows) /\ plate_vec sm rows = plate_vec sm rows0) by (apply Hin; now left).
    assert (Hbg : In bg (sample_plates s rows) /\ plate_vec bg rows = plate_vec bg rows0).
    { apply Hin. right. apply in_or_app. right. now left. }
    destruct Hsm as [Hsm Vsm]. destruct Hbg as [Hbg Vbg].
    assert (Hne : bg <> sm).
    { intros E. inversion Hnd as [|? ? Hn _]; subst. apply Hn. apply in_or_app. right. now left. }
    rewrite <- Vsm, <- Vbg, merge_exact. cbn [snd].
    set (rows1 := merge_names bg sm rows).
    pose proof (eff_one_sample s bg sm rows Hone Hbg Hsm) as Hone1.
    destruct (eff_plates s bg sm rows Hone Hbg Hsm Hne) as (other & Ho1 & Ho2 & Ho3 & Ho4).
    pose proof (eff_other_samples s bg sm rows Hone Hbg Hsm) as Hos.
    pose proof (eff_other_vec s bg sm rows Hbg) as Hov.
    fold rows1 in Hone1, Ho4, Hos, Hov.
    assert (Hnd' : NoDup (map fst npairs ++ map snd npairs)).
    { inversion Hnd as [|? ? _ Hd]; subst. apply (NoDup_drop_mid _ [bg]) . cbn [app]. exact Hd. }
    assert (Hrest : forall c, In c (map fst npairs ++ map snd npairs) -> c <> sm /\ c <> bg).
    { intros c Hc. inversion Hnd as [|? ? Hn Hd]; subst. split.
      - intros ->. apply Hn. apply in_app_or in Hc as [Hc|Hc]; apply in_or_app; [now left|right; now right].
      - intros ->. apply NoDup_remove_2 in Hd. apply Hd. exact Hc. }
    destruct (IH rows1 Hone1 Hnd') as (I1 & I2 & I3).
    { intros c Hc. destruct (Hrest c Hc) as [Hc1 Hc2].
      assert (Hc' : In c (sample_plates s rows) /\ plate_vec c rows = plate_vec c rows0).
      { apply Hin. apply in_app_or in Hc as [Hc|Hc]; [right; apply in_or_app; now left|].
        right. apply in_or_app. right. now right. }
      destruct Hc' as [Hc3 Hc4]. split.
      - apply Ho4. split; [exact Hc3|]. destruct Ho1 as [->| ->]; congruence.
      - rewrite Hov by congruence. exact Hc4. }
    split; [exact I1|]. split.
    + rewrite (length_remove_one (sample_plates s rows) (sample_plates s rows1) other
                (NoDup_sample_plates _ _) (NoDup_sample_plates _ _) Ho3 Ho4). lia.
    + intros s' Hs'. rewrite (I3 s' Hs'). now apply Hos.
Qed.
End Pairs.

Theorem tb_iter_halves : forall s rows,
  match tb_iter s rows with
  | Ok (Some rows') =>
      one_sample rows' /\
      length (sample_plates s rows') = (length (sample_plates s rows) + 1) / 2 /\
      forall s', s' <> s -> sample_plates s' rows' = sample_plates s' rows
  | Ok None => one_sample rows /\ length (sample_plates s rows) <= 1
  | Err _ => True
  end.
Proof.
  intros s rows. unfold tb_iter.
  destruct (plates_of_sample s rows) as [ps|t] eqn:Ep; cbn [res_bind]; [|exact I].
  destruct (plates_of_sample_spec _ _ _ Ep) as (Hone & Hnd & Hmem).
  assert (Hlen : length ps = length (sample_plates s rows)).
  { apply Permutation_length, NoDup_Permutation; [exact Hnd|apply NoDup_sample_plates|exact Hmem]. }
  destruct (length ps <=? 1) eqn:El.
  - apply Nat.leb_le in El. split; [exact Hone|lia].
  - apply Nat.leb_gt in El.
    destruct (sort_sz_map (fun p => plate_vec p rows) ps) as (ps' & HP & Hs). rewrite Hs.
    rewrite map_length. set (h := length ps' / 2).
    assert (Hl' : length ps' = length ps) by now apply Permutation_length.
    assert (Hh : 2 * h <= length ps').
    { unfold h. pose proof (Nat.div_mod (length ps') 2 ltac:(lia)). lia. }
    rewrite <- map_rev, !firstn_map, combine_map2.
    set (npairs := combine (firstn h ps') (firstn h (rev ps'))).
    assert (Hfl : length (firstn h ps') = length (firstn h (rev ps'))).
    { rewrite !firstn_length, rev_length. reflexivity. }
    destruct (combine_fst_snd _ _ Hfl) as [Hf1 Hf2]. fold npairs in Hf1, Hf2.
    assert (Hnp : length npairs = h).
    { unfold npairs. rewrite combine_length, !firstn_length, rev_length. lia. }
    destruct (tb_pairs_effect s rows npairs rows Hone) as (I1 & I2 & I3).
    + rewrite Hf1, Hf2. apply NoDup_top_bottom; [|exact Hh]. eapply Permutation_NoDup; [symmetry; exact HP|exact Hnd].
    + intros c Hc. split; [|reflexivity]. apply Hmem. eapply Permutation_in; [exact HP|].
      rewrite Hf1, Hf2 in Hc. apply in_app_or in Hc as [Hc|Hc]; [eapply In_firstn; exact Hc|].
      apply In_firstn in Hc. now apply in_rev.
    + split; [exact I1|]. split; [|exact I3].
      rewrite Hnp in I2. unfold h in I2. rewrite Hl', Hlen in I2.
      pose proof (Nat.div_mod (length (sample_plates s rows)) 2 ltac:(lia)) as D1.
      pose proof (Nat.mod_upper_bound (length (sample_plates s rows)) 2 ltac:(lia)) as D2.
      pose proof (Nat.div_mod (length (sample_plates s rows) + 1) 2 ltac:(lia)) as D3.
      pose proof (Nat.mod_upper_bound (length (sample_plates s rows) + 1) 2 ltac:(lia)) as D4.
      lia.
Qed.

(* merges stay within a sample: when at least one iteration runs the screen is (and stays)
   one-sample-per-plate; otherwise nothing is merged *)
Lemma tb_iters_one_sample : forall n s rows out, tb_iters n s rows = Ok out -> one_sample rows -> one_sample out.
Proof.
  induction n as [|n IH]; intros s rows out H Hone; cbn [tb_iters] in H; [now inversion H; subst|].
  pose proof (tb_iter_halves s rows) as Hh.
  destruct (tb_iter s rows) as [[rows1|]|t]; cbn [res_bind] in H; try discriminate.
  - eapply IH; [exact H|apply Hh].
  - now inversion H; subst.
Qed.

Lemma tb_iters_first : forall n s rows out, tb_iters (S n) s rows = Ok out -> one_sample rows.
Proof.
  intros n s rows out H. cbn [tb_iters] in H. pose proof (tb_iter_halves s rows) as Hh.
  destruct (tb_iter s rows) as [[rows1|]|t] eqn:E; cbn [res_bind] in H; try discriminate.
  - unfold tb_iter in E. destruct (plates_of_sample s rows) as [ps|t] eqn:Ep; [|discriminate].
    now destruct (plates_of_sample_spec _ _ _ Ep).
  - apply Hh.
Qed.

Lemma tb_samples_one_sample : forall n samples rows out,
  tb_samples n samples rows = Ok out -> one_sample rows -> one_sample out.
Proof.
  induction samples as [|s samples IH]; intros rows out H Hone; cbn [tb_samples] in H; [now inversion H; subst|].
  destruct (tb_iters n s rows) as [rows1|t] eqn:E; cbn [res_bind] in H; [|discriminate].
  eapply IH; [exact H|]. eapply tb_iters_one_sample; eassumption.
Qed.

Lemma tb_samples_zero : forall samples rows out, tb_samples 0 samples rows = Ok out -> out = rows.
Proof.
  induction samples as [|s l IH]; intros rows out H; cbn [tb_samples tb_iters res_bind] in H; [now inversion H|].
  now apply IH.
Qed.

Theorem merge_tb_same_sample : forall n rows out,
  merge_tb n rows = Ok out -> one_sample out \/ ((n <= 0)%Z /\ out = rows).
Proof.
  intros n rows out H. unfold merge_tb in H.
  destruct (Z.to_nat n) as [|k] eqn:En.
  - right. split; [lia|]. eapply tb_samples_zero; exact H.
  - left. destruct (sample_names rows) as [|s l] eqn:Es.
    + cbn in H. inversion H; subst. intros r1 r2 H1. exfalso.
      assert (Hin : In (r_sample r1) (sample_names out)) by (apply In_sample_names; eauto).
      rewrite Es in Hin. contradiction.
    + cbn [tb_samples] in H. destruct (tb_iters (S k) s rows) as [rows1|t] eqn:E; cbn [res_bind] in H; [|discriminate].
      eapply tb_samples_one_sample; [exact H|]. eapply tb_iters_one_sample; [exact E|].
      eapply tb_iters_first; exact E.
Qed.
