(* C14: the view operations one by one. *)
From Coq Require Import ZArith List Bool Arith Lia Sorted.
From Batchie Require Import Lib.Sexp Model.Encode Model.Screen Model.Views
  Proofs.C14Defs Proofs.C14Lists Proofs.C14Unique.
Import ListNotations.
Open Scope nat_scope.

(* ---- constructor ---- *)
Lemma mk_view_inv tag p isb sel v : mk_view tag p isb sel = Ok v ->
  isb = true /\ length sel = screen_size p /\ v = {| v_tag := tag; v_parent := p; v_sel := sel |}.
Proof.
  unfold mk_view. destruct isb; cbn [negb]; [|discriminate].
  destruct (Nat.eqb_spec (length sel) (screen_size p)) as [E|E]; cbn [negb]; [|discriminate].
  now intros [= <-].
Qed.

Lemma mk_view_ok tag p sel : length sel = screen_size p ->
  mk_view tag p true sel = Ok {| v_tag := tag; v_parent := p; v_sel := sel |}.
Proof. intros H. unfold mk_view. cbn [negb]. rewrite H, Nat.eqb_refl. reflexivity. Qed.

Lemma mk_view_bad_length tag p isb sel v : length sel <> screen_size p -> mk_view tag p isb sel <> Ok v.
Proof. intros H E. apply mk_view_inv in E. tauto. Qed.

Lemma screen_subset_inv tag p isb sel v : screen_subset tag p isb sel = Ok v ->
  isb = true /\ length sel = screen_size p /\ v = {| v_tag := tag; v_parent := p; v_sel := sel |}.
Proof.
  unfold screen_subset. destruct isb; cbn [negb]; [|discriminate].
  destruct (Nat.eqb_spec (length sel) (screen_size p)) as [E|E]; cbn [negb]; [|discriminate].
  apply mk_view_inv.
Qed.

Lemma screen_subset_ok tag p sel : length sel = screen_size p ->
  screen_subset tag p true sel = Ok {| v_tag := tag; v_parent := p; v_sel := sel |}.
Proof. intros H. unfold screen_subset. cbn [negb]. rewrite H, Nat.eqb_refl. cbn [negb]. now apply mk_view_ok. Qed.

(* ---- the constructor of screens returns well-formed screens ---- *)
Lemma opt_map_all_length {A B} (f : A -> option B) l r : opt_map_all f l = Some r -> length r = length l.
Proof.
  revert r; induction l as [|a l IH]; intros r; cbn [opt_map_all].
  - now intros [= <-].
  - destruct (f a); cbn [opt_bind]; [|discriminate]. destruct (opt_map_all f l); cbn [opt_bind]; [|discriminate].
    intros [= <-]. cbn [length]. now rewrite (IH _ eq_refl).
Qed.

Lemma encode_names_length names ex tag ids m : encode_names names ex tag = Ok (ids, m) -> length ids = length names.
Proof.
  unfold encode_names. destruct (opt_map_all _ names) eqn:E; [|discriminate].
  intros [= <- _]. now apply opt_map_all_length in E.
Qed.

Lemma unflatten_cols_wf arity n flat :
  length (unflatten_cols arity n flat) = n /\ Forall (fun t => length t = arity) (unflatten_cols arity n flat).
Proof.
  unfold unflatten_cols. split; [now rewrite map_length, seq_length|].
  apply Forall_forall. intros t Ht. apply in_map_iff in Ht. destruct Ht as (j & <- & _).
  now rewrite map_length, seq_length.
Qed.

Lemma mk_screen_wf rows ar ctrl tm sm og mg s : mk_screen rows ar ctrl tm sm og mg = Ok s -> screen_wf s.
Proof.
  unfold mk_screen.
  destruct (negb (forallb _ rows)); [discriminate|].
  destruct (negb og && mg); [discriminate|].
  set (rows' := if og then _ else _).
  assert (HL : length rows' = length rows).
  { subst rows'. destruct og; [destruct mg|]; now rewrite ?map_length. }
  destruct (negb (plate_uniform rows')); [discriminate|].
  destruct (match tm with Some _ => _ | None => false end); [discriminate|].
  destruct (match sm with Some _ => _ | None => false end); [discriminate|].
  destruct (encode_treatments _ ctrl _) as [[tflat tmm]|]; cbn [res_bind]; [|discriminate].
  destruct (encode_names (map r_sample rows') _ 6%Z) as [[sids smm]|] eqn:ES; cbn [res_bind]; [|discriminate].
  destruct (encode_names (map r_plate rows') None 6%Z) as [[pids pmm]|] eqn:EP; cbn [res_bind]; [|discriminate].
  intros [= <-]. unfold screen_wf, screen_size. cbn.
  apply encode_names_length in ES, EP. rewrite map_length in ES, EP.
  destruct (unflatten_cols_wf ar (length rows') tflat) as [H1 H2].
  rewrite H1. auto.
Qed.

(* ---- attributes ---- *)
Lemma view_size_where v : view_ok v -> view_size v = length (np_where (v_sel v)).
Proof. intros H. unfold view_size, view_tids. now apply select_length. Qed.

(* ---- subset ---- *)
Lemma view_subset_inv v isb inner v' : view_ok v -> view_subset v isb inner = Ok v' ->
  isb = true /\ length inner = length (np_where (v_sel v)) /\
  v' = {| v_tag := v_tag v; v_parent := v_parent v; v_sel := expand (v_sel v) inner |}.
Proof.
  intros Hok. unfold view_subset. destruct isb; cbn [negb]; [|discriminate].
  destruct (Nat.eqb_spec (length inner) (view_size v)) as [E|E]; cbn [negb]; [|discriminate].
  rewrite scatter_where. intros H. apply mk_view_inv in H. destruct H as (_ & _ & ->).
  rewrite <- view_size_where by exact Hok. auto.
Qed.

Lemma view_subset_ok v inner : view_ok v -> length inner = view_size v ->
  view_subset v true inner = Ok {| v_tag := v_tag v; v_parent := v_parent v; v_sel := expand (v_sel v) inner |}.
Proof.
  intros Hok HL. unfold view_subset. cbn [negb]. rewrite HL, Nat.eqb_refl. cbn [negb].
  rewrite scatter_where. apply mk_view_ok. rewrite expand_length. exact Hok.
Qed.

Lemma subset_compose v isb inner v' : view_ok v -> view_subset v isb inner = Ok v' ->
  v_tag v' = v_tag v /\ v_parent v' = v_parent v /\ view_ok v' /\
  np_where (v_sel v') = select inner (np_where (v_sel v)) /\
  forall A (col : list A), length col = length (v_sel v) ->
    select (v_sel v') col = select inner (select (v_sel v) col).
Proof.
  intros Hok H. destruct (view_subset_inv _ _ _ _ Hok H) as (_ & HL & ->). cbn [v_tag v_parent v_sel].
  repeat split.
  - unfold view_ok. cbn [v_sel v_parent]. rewrite expand_length. exact Hok.
  - now apply where_expand.
  - intros A col Hc. apply select_expand; [now symmetry|]. rewrite select_length by now symmetry. exact HL.
Qed.

Lemma subset_refused v isb inner :
  (isb = false -> view_subset v isb inner = Err 21%Z) /\
  (isb = true -> length inner <> view_size v -> view_subset v isb inner = Err 22%Z).
Proof.
  unfold view_subset. split.
  - now intros ->.
  - intros -> H. cbn [negb]. destruct (Nat.eqb_spec (length inner) (view_size v)); [contradiction|reflexivity].
Qed.

(* ---- combine ---- *)
Lemma view_combine_inv a b c : view_combine a b = Ok c ->
  v_tag b = v_tag a /\ length (bor_vec (v_sel a) (v_sel b)) = screen_size (v_parent a) /\
  c = {| v_tag := v_tag a; v_parent := v_parent a; v_sel := bor_vec (v_sel a) (v_sel b) |}.
Proof.
  unfold view_combine. destruct (Z.eqb_spec (v_tag b) (v_tag a)) as [E|E]; cbn [negb]; [|discriminate].
  intros H. apply mk_view_inv in H. tauto.
Qed.

Lemma combine_union a b c : view_ok a -> view_ok b -> v_parent b = v_parent a -> view_combine a b = Ok c ->
  v_tag c = v_tag a /\ v_parent c = v_parent a /\ view_ok c /\
  forall i, nth i (v_sel c) false = nth i (v_sel a) false || nth i (v_sel b) false.
Proof.
  intros Ha Hb Hp H. apply view_combine_inv in H. destruct H as (_ & HL & ->). cbn [v_tag v_parent v_sel].
  repeat split; [exact HL|]. intros i. apply nth_bor_vec. unfold view_ok in *. congruence.
Qed.

Lemma combine_total a b : view_ok a -> view_ok b -> v_parent b = v_parent a -> v_tag b = v_tag a ->
  exists c, view_combine a b = Ok c.
Proof.
  intros Ha Hb Hp Ht. unfold view_combine. rewrite Ht, Z.eqb_refl. cbn [negb].
  eexists. apply mk_view_ok. rewrite bor_vec_length; [exact Ha|]. unfold view_ok in *. congruence.
Qed.

Lemma combine_different_parent a b : v_tag a <> v_tag b -> view_combine a b = Err 23%Z.
Proof.
  intros H. unfold view_combine. destruct (Z.eqb_spec (v_tag b) (v_tag a)) as [E|E]; [congruence|reflexivity].
Qed.

(* ---- invert ---- *)
Lemma invert_complement v : view_ok v ->
  exists v', view_invert v = Ok v' /\ v_tag v' = v_tag v /\ v_parent v' = v_parent v /\ view_ok v' /\
    forall i, i < length (v_sel v) -> nth i (v_sel v') false = negb (nth i (v_sel v) false).
Proof.
  intros H. eexists. split; [apply mk_view_ok; now rewrite map_length|]. cbn [v_tag v_parent v_sel].
  repeat split; [unfold view_ok; cbn; now rewrite map_length|]. intros i Hi. now apply nth_map_negb.
Qed.

Lemma view_invert_inv v v' : view_invert v = Ok v' ->
  v' = {| v_tag := v_tag v; v_parent := v_parent v; v_sel := map negb (v_sel v) |}.
Proof. intros H. apply mk_view_inv in H. tauto. Qed.

(* ---- concat ---- *)
Lemma concat_loop_spec tag0 n acc vs s :
  length acc = n ->
  Forall (fun v => v_tag v = tag0 -> length (v_sel v) = n) vs ->
  concat_loop tag0 (Some acc) vs = Ok (Some s) ->
  length s = n /\ Forall (fun v => v_tag v = tag0) vs /\
  forall i, nth i s false = nth i acc false || existsb (fun v => nth i (v_sel v) false) vs.
Proof.
  revert acc; induction vs as [|v r IH]; intros acc HL HF; cbn [concat_loop existsb].
  - intros [= <-]. repeat split; [exact HL|constructor|]. intros i. now rewrite orb_false_r.
  - destruct (Z.eqb_spec (v_tag v) tag0) as [E|E]; cbn [negb]; [|discriminate].
    inversion HF as [|? ? Hv HF']; subst. specialize (Hv eq_refl).
    intros H. apply IH in H; [|now rewrite bor_vec_length|exact HF'].
    destruct H as (H1 & H2 & H3). repeat split; [exact H1|now constructor|].
    intros i. rewrite H3, nth_bor_vec by congruence. now rewrite orb_assoc.
Qed.

Lemma concat_loop_head v0 vs :
  concat_loop (v_tag v0) None (v0 :: vs) = concat_loop (v_tag v0) (Some (v_sel v0)) vs.
Proof. cbn [concat_loop]. now rewrite Z.eqb_refl. Qed.

(* views carrying the first one's tag have the first one's length: all that union needs *)
Lemma concat_union_gen v0 vs c :
  Forall (fun v => v_tag v = v_tag v0 -> length (v_sel v) = length (v_sel v0)) vs ->
  view_concat (v0 :: vs) = Ok c ->
  v_tag c = v_tag v0 /\ v_parent c = v_parent v0 /\ length (v_sel c) = length (v_sel v0) /\
  Forall (fun v => v_tag v = v_tag v0) vs /\
  forall i, nth i (v_sel c) false = existsb (fun v => nth i (v_sel v) false) (v0 :: vs).
Proof.
  intros HF. destruct vs as [|v1 r]; cbn [view_concat].
  - intros [= <-]. repeat split; [constructor|]. intros i. cbn [existsb]. now rewrite orb_false_r.
  - rewrite concat_loop_head.
    destruct (concat_loop (v_tag v0) (Some (v_sel v0)) (v1 :: r)) as [[s|]|] eqn:E; cbn [res_bind]; try discriminate.
    apply (concat_loop_spec _ _ _ _ _ eq_refl HF) in E. destruct E as (H1 & H2 & H3).
    intros H. apply mk_view_inv in H. destruct H as (_ & _ & ->). cbn [v_tag v_parent v_sel].
    repeat split; [exact H1|exact H2|]. intros i. rewrite H3. reflexivity.
Qed.

Lemma concat_union p vs c :
  Forall (fun v => v_parent v = p /\ view_ok v) vs -> view_concat vs = Ok c ->
  v_parent c = p /\ view_ok c /\ Forall (fun v => v_tag v = v_tag c) vs /\
  forall i, nth i (v_sel c) false = existsb (fun v => nth i (v_sel v) false) vs.
Proof.
  intros HF. destruct vs as [|v0 r]; [discriminate|].
  inversion HF as [|? ? [Hp0 Hv0] HF']; subst. intros H.
  apply concat_union_gen in H.
  - destruct H as (Ht & Hp & HL & HT & Hi). repeat split; [exact Hp| |constructor|exact Hi].
    + unfold view_ok in *. congruence.
    + now symmetry.
    + eapply Forall_impl; [|exact HT]. cbn. intros v Hv. congruence.
  - eapply Forall_impl; [|exact HF']. cbn. intros v [Hp Hv] _. unfold view_ok in *. congruence.
Qed.

Lemma concat_empty : view_concat [] = Err 24%Z.
Proof. reflexivity. Qed.

Lemma concat_single v : view_concat [v] = Ok v.
Proof. reflexivity. Qed.

Lemma concat_loop_refuses tag0 acc vs :
  Exists (fun v => v_tag v <> tag0) vs -> concat_loop tag0 acc vs = Err 23%Z.
Proof.
  revert acc; induction vs as [|v r IH]; intros acc H; [inversion H|]. cbn [concat_loop].
  destruct (Z.eqb_spec (v_tag v) tag0) as [E|E]; cbn [negb]; [|reflexivity].
  inversion H as [? ? H0|? ? H0]; subst; [contradiction|]. now apply IH.
Qed.

Lemma concat_different_parent v0 vs :
  Exists (fun v => v_tag v <> v_tag v0) vs -> view_concat (v0 :: vs) = Err 23%Z.
Proof.
  intros H. destruct vs as [|v1 r]; [inversion H|]. cbn [view_concat].
  rewrite concat_loop_head. now rewrite concat_loop_refuses.
Qed.

(* ---- observed / unobserved ---- *)
Lemma nth_screen_mask p i : nth i (screen_mask p) false = row_observed p i.
Proof. unfold screen_mask, row_observed. apply nth_map_error. Qed.

Lemma existsb_id_nth l : existsb (fun b : bool => b) l = true <-> exists i, nth i l false = true.
Proof.
  rewrite existsb_exists. split.
  - intros (x & Hx & ->). destruct (In_nth _ _ false Hx) as (i & _ & E). now exists i.
  - intros (i & E). exists true. split; [|reflexivity]. rewrite <- E. apply nth_In.
    destruct (Nat.lt_ge_cases i (length l)) as [L|G]; [exact L|]. rewrite nth_overflow in E by exact G. discriminate.
Qed.

Lemma observed_split tag p : screen_wf p ->
  let n := screen_size p in
  (subset_observed tag p = None <-> forall i, row_observed p i = false) /\
  (subset_unobserved tag p = None <-> forall i, i < n -> row_observed p i = true) /\
  (forall r, subset_observed tag p = Some r ->
     exists v, r = Ok v /\ v_tag v = tag /\ v_parent v = p /\ view_ok v /\
       (forall i, nth i (v_sel v) false = row_observed p i) /\ Forall (fun b => b = true) (view_mask v)) /\
  (forall r, subset_unobserved tag p = Some r ->
     exists v, r = Ok v /\ v_tag v = tag /\ v_parent v = p /\ view_ok v /\
       (forall i, i < n -> nth i (v_sel v) false = negb (row_observed p i)) /\ Forall (fun b => b = false) (view_mask v)).
Proof.
  intros (_ & _ & HR & _) n.
  assert (HL : length (screen_mask p) = n) by (unfold screen_mask; now rewrite map_length).
  assert (Hsel : forall (sel : list bool) b, (forall x, In x (combine sel (screen_mask p)) -> fst x = true -> snd x = b) ->
                 Forall (fun y => y = b) (select sel (screen_mask p))).
  { intros sel b. generalize (screen_mask p). induction sel as [|x s IH]; intros [|y l] H; cbn [select]; try constructor.
    destruct x.
    - constructor; [apply (H (true, y)); [now left|reflexivity]|]. apply IH. intros z Hz. apply H. now right.
    - apply IH. intros z Hz. apply H. now right. }
  unfold subset_observed, subset_unobserved. repeat split.
  - destruct (existsb _ (screen_mask p)) eqn:E; [discriminate|]. intros _ i.
    apply not_true_iff_false in E. rewrite existsb_id_nth in E. rewrite <- nth_screen_mask.
    destruct (nth i (screen_mask p) false) eqn:E'; [exfalso; apply E; now exists i|reflexivity].
  - intros H. destruct (existsb _ (screen_mask p)) eqn:E; [|reflexivity].
    apply existsb_id_nth in E. destruct E as (i & E). rewrite nth_screen_mask, H in E. discriminate.
  - destruct (existsb _ (map negb (screen_mask p))) eqn:E; [discriminate|]. intros _ i Hi.
    apply not_true_iff_false in E. rewrite existsb_id_nth in E. rewrite <- nth_screen_mask.
    destruct (nth i (screen_mask p) false) eqn:E'; [reflexivity|]. exfalso. apply E. exists i.
    rewrite nth_map_negb by lia. now rewrite E'.
  - intros H. destruct (existsb _ (map negb (screen_mask p))) eqn:E; [|reflexivity].
    apply existsb_id_nth in E. destruct E as (i & E).
    assert (Hi : i < n).
    { destruct (Nat.lt_ge_cases i n) as [L|G]; [exact L|]. rewrite nth_overflow in E; [discriminate|]. rewrite map_length. lia. }
    rewrite nth_map_negb, nth_screen_mask, H in E by lia. discriminate.
  - intros r. destruct (existsb _ (screen_mask p)); [|discriminate]. intros [= <-].
    rewrite screen_subset_ok by exact HL. eexists. split; [reflexivity|]. cbn [v_tag v_parent v_sel].
    repeat split; [exact HL|apply nth_screen_mask|].
    unfold view_mask. cbn [v_sel v_parent]. apply Hsel.
    intros [x y] Hx. fold (screen_mask p) in Hx. cbn [fst snd]. intros ->.
    revert Hx. generalize (screen_mask p). induction l as [|z l IH]; cbn [combine In]; [tauto|].
    intros [[= -> ->]|H]; [reflexivity|now apply IH].
  - intros r. destruct (existsb _ (map negb (screen_mask p))); [|discriminate]. intros [= <-].
    rewrite screen_subset_ok by now rewrite map_length. eexists. split; [reflexivity|]. cbn [v_tag v_parent v_sel].
    repeat split; [unfold view_ok; cbn; now rewrite map_length| |].
    + intros i Hi. rewrite nth_map_negb by lia. now rewrite nth_screen_mask.
    + unfold view_mask. cbn [v_sel v_parent]. apply Hsel.
      intros [x y] Hx. fold (screen_mask p) in Hx. cbn [fst snd]. intros ->.
      revert Hx. generalize (screen_mask p). induction l as [|z l IH]; cbn [map combine In]; [tauto|].
      intros [[= E ->]|H]; [now destruct y|now apply IH].
Qed.

(* ---- get_plate / plates ---- *)
Lemma get_plate_spec tag p pid : screen_wf p ->
  exists v, get_plate tag p pid = Ok v /\ v_tag v = tag /\ v_parent v = p /\ view_ok v /\
    forall i, nth i (v_sel v) false = row_on_plate p pid i.
Proof.
  intros (_ & HP & _). eexists. split; [apply mk_view_ok; now rewrite map_length|]. cbn [v_tag v_parent v_sel].
  repeat split; [unfold view_ok; cbn; now rewrite map_length|].
  intros i. unfold row_on_plate. apply (nth_map_error (fun x => (x =? pid)%Z)).
Qed.

Lemma res_map_all_map {A B} (f : A -> result B) (g : A -> B) l :
  (forall a, f a = Ok (g a)) -> res_map_all f l = Ok (map g l).
Proof. intros H. induction l as [|a l IH]; cbn [res_map_all map]; [reflexivity|]. now rewrite H, IH. Qed.

Lemma plates_spec tag p : screen_wf p ->
  plates tag p = Ok (map (fun pid => {| v_tag := tag; v_parent := p; v_sel := map (fun x => (x =? pid)%Z) (s_pids p) |})
                         (sort_uniq Z.compare (s_pids p))).
Proof.
  intros (_ & HP & _). unfold plates. apply res_map_all_map. intros pid. apply mk_view_ok. now rewrite map_length.
Qed.

(* sort_uniq Z.compare: strictly increasing, same members *)
Lemma insert_uniq_Z_sorted k l : StronglySorted Z.lt l -> StronglySorted Z.lt (insert_uniq Z.compare k l).
Proof.
  induction l as [|a l IH]; intros H; cbn [insert_uniq]; [repeat constructor|].
  inversion H as [|? ? Hs Hf]; subst.
  destruct (Z.compare_spec k a) as [E|L|G].
  - exact H.
  - constructor; [exact H|]. constructor; [exact L|]. eapply Forall_impl; [|exact Hf]. cbn. intros x Hx. lia.
  - constructor; [now apply IH|]. apply Forall_forall. intros x Hx.
    apply In_insert_uniq in Hx; [|intros u w; apply Z.compare_eq]. destruct Hx as [->|Hx]; [lia|].
    rewrite Forall_forall in Hf. now apply Hf.
Qed.

Lemma sort_uniq_Z_sorted l : StronglySorted Z.lt (sort_uniq Z.compare l).
Proof. unfold sort_uniq. induction l as [|a l IH]; cbn [fold_right]; [constructor|now apply insert_uniq_Z_sorted]. Qed.

Lemma sorted_Z_NoDup l : StronglySorted Z.lt l -> NoDup l.
Proof.
  induction 1 as [|a l Hs IH Hf]; constructor; [|exact IH].
  intros Hin. rewrite Forall_forall in Hf. apply Hf in Hin. lia.
Qed.

Lemma plates_partition tag p vs : screen_wf p -> plates tag p = Ok vs ->
  let ids := sort_uniq Z.compare (s_pids p) in
  StronglySorted Z.lt ids /\ NoDup ids /\ (forall x, In x ids <-> In x (s_pids p)) /\
  length vs = length ids /\
  (forall j, j < length ids ->
     v_tag (nth j vs (Build_view 0 p [])) = tag /\ v_parent (nth j vs (Build_view 0 p [])) = p /\
     view_ok (nth j vs (Build_view 0 p [])) /\
     forall i, nth i (v_sel (nth j vs (Build_view 0 p []))) false = row_on_plate p (nth j ids 0%Z) i) /\
  (forall i, i < screen_size p -> exists j, j < length ids /\ row_on_plate p (nth j ids 0%Z) i = true /\
     forall j', j' < length ids -> row_on_plate p (nth j' ids 0%Z) i = true -> j' = j).
Proof.
  intros Hwf H ids. rewrite plates_spec in H by exact Hwf. injection H as <-. fold ids.
  assert (Hs : StronglySorted Z.lt ids) by apply sort_uniq_Z_sorted.
  assert (Hn : NoDup ids) by now apply sorted_Z_NoDup.
  assert (Hin : forall x, In x ids <-> In x (s_pids p)) by (intros x; apply In_sort_uniq; intros u w; apply Z.compare_eq).
  destruct Hwf as (_ & HP & _).
  repeat split; try assumption; try (now apply Hin).
  - now rewrite map_length.
  - set (g := fun pid => Build_view tag p (map (fun x => (x =? pid)%Z) (s_pids p))).
    rewrite (nth_indep _ _ (g 0%Z)) by now rewrite map_length. rewrite map_nth. reflexivity.
  - set (g := fun pid => Build_view tag p (map (fun x => (x =? pid)%Z) (s_pids p))).
    rewrite (nth_indep _ _ (g 0%Z)) by now rewrite map_length. rewrite map_nth. reflexivity.
  - set (g := fun pid => Build_view tag p (map (fun x => (x =? pid)%Z) (s_pids p))).
    rewrite (nth_indep _ _ (g 0%Z)) by now rewrite map_length. rewrite map_nth. unfold view_ok. cbn. now rewrite map_length.
  - intros i. set (g := fun pid => Build_view tag p (map (fun x => (x =? pid)%Z) (s_pids p))).
    rewrite (nth_indep _ _ (g 0%Z)) by now rewrite map_length. rewrite map_nth. cbn [g v_sel].
    unfold row_on_plate. apply (nth_map_error (fun x => (x =? nth j ids 0%Z)%Z)).
  - intros i Hi. rewrite <- HP in Hi.
    destruct (nth_error (s_pids p) i) as [x|] eqn:E; [|apply nth_error_None in E; lia].
    assert (Hx : In x ids) by (apply Hin; eapply nth_error_In; eassumption).
    destruct (In_nth _ _ 0%Z Hx) as (j & Hj & Ej). exists j. unfold row_on_plate. rewrite E.
    repeat split; [exact Hj|now apply Z.eqb_eq|].
    intros j' Hj' E'. apply Z.eqb_eq in E'.
    apply (proj1 (NoDup_nth ids 0%Z) Hn); [exact Hj'|exact Hj|]. rewrite Ej. now symmetry.
Qed.

(* ---- to_screen ---- *)
Lemma mk_screen_rows rows ar ctrl s : mk_screen rows ar ctrl None None true true = Ok s ->
  s_rows s = rows /\ s_arity s = ar /\ s_ctrl s = ctrl.
Proof.
  unfold mk_screen. cbn [negb andb].
  destruct (negb (forallb _ rows)); [discriminate|].
  destruct (negb (plate_uniform rows)); [discriminate|].
  destruct (encode_treatments _ ctrl _) as [[tflat tmm]|]; cbn [res_bind]; [|discriminate].
  destruct (encode_names (map r_sample rows) _ 6%Z) as [[sids smm]|]; cbn [res_bind]; [|discriminate].
  destruct (encode_names (map r_plate rows) None 6%Z) as [[pids pmm]|]; cbn [res_bind]; [|discriminate].
  intros [= <-]. cbn. auto.
Qed.

Lemma to_screen_rows v s : to_screen v = Ok s ->
  s_rows s = view_rows v /\ s_arity s = s_arity (v_parent v) /\ s_ctrl s = s_ctrl (v_parent v) /\ screen_wf s.
Proof.
  intros H. pose proof (mk_screen_wf _ _ _ _ _ _ _ _ H) as Hwf. apply mk_screen_rows in H. tauto.
Qed.
