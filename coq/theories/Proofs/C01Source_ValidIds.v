(* C01, one piece of Proofs/C01Source.v (which see): numpy_array_is_0_indexed_integers *)
From Coq Require Import ZArith List Bool Lia ZifyBool Arith Sorted.
From Batchie Require Import Lib.Sexp Lib.PyRt Generated.Consts Generated.SrcArithC01 Model.Encode Model.Screen Generated.SrcEncode
  Generated.SrcScreenIds Proofs.PyRtLemmas Proofs.C01Sort Proofs.C01Encode Proofs.C03Screen
  Proofs.C01Source_Base.
Import ListNotations.
Open Scope Z_scope.

(* ---------- numpy_array_is_0_indexed_integers ---------- *)
Lemma all_true_eq_Z a : forall b, length a = length b -> all_true (np_eq_Z a b) = Zlist_eqb a b.
Proof.
  unfold all_true, np_eq_Z.
  induction a as [|x a IH]; intros [|y b] Hl; cbn [length] in Hl; try discriminate; [reflexivity|].
  cbn [combine map forallb Zlist_eqb fst snd]. rewrite IH by lia. reflexivity.
Qed.

Lemma zrange_pred n : zrange (Z.of_nat n - 1) = map Z.of_nat (seq 0 (n - 1)).
Proof. unfold zrange. f_equal. f_equal. lia. Qed.

Lemma zrange_of_nat n : zrange (Z.of_nat n) = map Z.of_nat (seq 0 n).
Proof. unfold zrange. now rewrite Nat2Z.id. Qed.

Theorem src_valid_ids_is_model : forall (isint : bool) (ids : list Z),
  src_numpy_array_is_0_indexed_integers (isint, ids) = Ok (zero_indexed isint ids).
Proof.
  intros isint ids. unfold src_numpy_array_is_0_indexed_integers, zero_indexed, arr_is_int, np_contains, np_unique_ids, np_sort_Z.
  cbn [fst snd]. destruct isint; cbn [negb]; [|reflexivity].
  rewrite (sort_by_of_sorted Z.compare) by apply (sort_uniq_sorted Z.compare Zcmp_spec).
  set (u := sort_uniq Z.compare ids).
  destruct (existsb (Z.eqb CONTROL_SENTINEL_VALUE) ids) eqn:E.
  - rewrite zrange_pred. cbn [app]. rewrite all_true_eq_Z; [reflexivity|].
    cbn [length]. rewrite map_length, seq_length.
    apply existsb_exists in E as (z & Hz & _). apply (sort_uniq_In Z.compare Zcmp_spec) in Hz. fold u in Hz.
    destruct u; [contradiction | cbn [length]; lia].
  - rewrite zrange_of_nat, all_true_eq_Z; [reflexivity|]. now rewrite map_length, seq_length.
Qed.
