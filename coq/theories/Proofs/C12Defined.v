(* C12: the lifecycle operations never fail for a mixed plate, and are defined whenever the reveal guards pass. *)
From Coq Require Import ZArith List Bool Lia Arith.
From Batchie Require Import Lib.Sexp Generated.Consts Model.Encode Model.Screen Model.Reveal Model.Holdout
  Proofs.C03Base Proofs.C03Screen Proofs.C12Reveal Proofs.C12Counters Proofs.C03Frozen.
Import ListNotations.
Open Scope Z_scope.

(* ---------- the rows every operation builds are plate-uniform ---------- *)
Lemma uniform_const_mask b rows : plate_uniform (map (with_mask b) rows) = true.
Proof.
  apply plate_uniform_spec. intros r1 r2 H1 H2 _.
  apply in_map_iff in H1. apply in_map_iff in H2. destruct H1 as (x1 & <- & _). destruct H2 as (x2 & <- & _). reflexivity.
Qed.

Lemma uniform_reveal_rows s ids :
  plates_encoded s -> plate_uniform (s_rows s) = true -> plate_uniform (reveal_rows s ids) = true.
Proof.
  intros Hs Hu. rewrite reveal_rows_eq. apply plate_uniform_spec. intros r1 r2 H1 H2 Hp.
  apply in_map_iff in H1. apply in_map_iff in H2.
  destruct H1 as ([x1 p1] & <- & H1). destruct H2 as ([x2 p2] & <- & H2).
  unfold reveal_row in *. cbn [fst snd] in *. rewrite !with_mask_mask.
  change (r_plate x1 = r_plate x2) in Hp.
  rewrite (plates_encoded_same s x1 p1 x2 p2 Hs H1 H2 Hp).
  rewrite (proj1 (plate_uniform_spec _) Hu x1 x2 (in_combine_l _ _ _ _ H1) (in_combine_l _ _ _ _ H2) Hp). reflexivity.
Qed.

Lemma rebuild_not_mixed carry s rows : plate_uniform rows = true -> rebuild carry s rows <> Err 2.
Proof.
  intros Hu H. unfold rebuild in H. apply mk_screen_err2 in H. destruct H as [_ H]. rewrite norm_rows_tt in H. congruence.
Qed.

Theorem step_never_mixed v s o : constructed s -> step v s o <> Err 2.
Proof.
  intros Hc. pose proof (constructed_plates s Hc) as Hs. pose proof (constructed_uniform s Hc) as Hu.
  destruct o as [ids| | |]; cbn [step].
  - unfold reveal_plates. destruct (reveal_zero_guard s ids); [discriminate|].
    destruct (existsb obs_is_nan _); [discriminate|]. apply rebuild_not_mixed. now apply uniform_reveal_rows.
  - apply rebuild_not_mixed, uniform_const_mask.
  - apply rebuild_not_mixed, uniform_const_mask.
  - intros H. unfold save_load in H. apply mk_screen_err2 in H. destruct H as [_ H]. rewrite norm_rows_tt in H. congruence.
Qed.

Lemma history_constructed v ops s0 s : constructed s0 -> history v ops s0 = Ok s -> constructed s.
Proof.
  intros H0. apply (history_invariant constructed v); [|exact H0].
  intros s1 o s' _ Hs. eapply step_constructed; eassumption.
Qed.

Theorem history_never_mixed v ops s0 s o :
  constructed s0 -> history v ops s0 = Ok s -> step v s o <> Err 2.
Proof. intros H0 H. apply step_never_mixed. eapply history_constructed; eassumption. Qed.

(* ---------- definedness ---------- *)
(* the id columns of both mappings pass numpy_array_is_0_indexed_integers (the check a constructor call makes
   on mappings it is handed) *)
Definition mappings_valid (s : screen) : Prop :=
  zero_indexed true (map snd (s_tmap s)) = true /\ zero_indexed true (map snd (s_smap s)) = true.

Lemma supplied_valid rows a c tm sm og mg s :
  mk_screen rows a c (Some (tm, true)) (Some (sm, true)) og mg = Ok s -> mappings_valid s.
Proof.
  intros H. destruct (supplied_maps _ _ _ _ _ _ _ _ _ _ H) as [Ht Hs].
  destruct (mk_screen_inv _ _ _ _ _ _ _ _ H) as [tflat B].
  pose proof (b_tmap_ok _ _ _ _ _ _ _ _ _ B) as A1. pose proof (b_smap_ok _ _ _ _ _ _ _ _ _ B) as A2.
  unfold tmap_bad, smap_bad in A1, A2. apply negb_false_iff in A1. apply negb_false_iff in A2.
  unfold mappings_valid. now rewrite Ht, Hs.
Qed.

Lemma constructed_own_lookups s :
  constructed s ->
  arity_ok (s_arity s) (s_rows s) = true /\
  (exists tflat, opt_map_all (tlookup (s_tmap s)) (the_tkeys (s_arity s) (s_rows s)) = Some tflat) /\
  (exists sids, opt_map_all (nlookup (s_smap s)) (map r_sample (s_rows s)) = Some sids).
Proof.
  intros (rows & a & c & tm & sm & og & mg & H). destruct (mk_screen_inv _ _ _ _ _ _ _ _ H) as [tflat B].
  pose proof (b_rows _ _ _ _ _ _ _ _ _ B) as Hr. pose proof (b_ar _ _ _ _ _ _ _ _ _ B) as Ha.
  destruct (encode_names_inv _ _ _ _ _ (b_samples _ _ _ _ _ _ _ _ _ B)) as [_ Hs].
  destruct (encode_treatments_inv _ _ _ _ _ (b_treats _ _ _ _ _ _ _ _ _ B)) as [_ Hk].
  rewrite Hr, Ha. split; [|split].
  - rewrite (arity_ok_treats a rows (norm_rows og mg rows)) by apply norm_rows_treats. exact (b_arity_ok _ _ _ _ _ _ _ _ _ B).
  - exists tflat. exact Hk.
  - eexists. exact Hs.
Qed.

Lemma the_tkeys_treats a rows rows' : map r_treats rows' = map r_treats rows -> the_tkeys a rows' = the_tkeys a rows.
Proof. unfold the_tkeys. now intros ->. Qed.

Lemma rebuild_defined carry s rows :
  constructed s -> (carry = true -> mappings_valid s) ->
  map r_treats rows = map r_treats (s_rows s) -> map r_sample rows = map r_sample (s_rows s) ->
  plate_uniform rows = true -> exists s', rebuild carry s rows = Ok s'.
Proof.
  intros Hc Hv Ht Hsm Hu. destruct (constructed_own_lookups s Hc) as (Ha & (tflat & Hk) & (sids & Hs)).
  destruct (encode_names_built_total (map r_plate rows) 6) as [pids Hp].
  unfold rebuild.
  assert (Hk' : exists tf tmp, encode_treatments (the_tkeys (s_arity s) (norm_rows true true rows)) (s_ctrl s)
                                                (option_map fst (tmap_arg carry s)) = Ok (tf, tmp)).
  { rewrite norm_rows_tt, (the_tkeys_treats _ _ _ Ht). destruct carry; cbn [tmap_arg option_map fst].
    - unfold encode_treatments. rewrite Hk. do 2 eexists. reflexivity.
    - destruct (encode_treatments_built_total (the_tkeys (s_arity s) (s_rows s)) (s_ctrl s)) as [tf Htf]. do 2 eexists. exact Htf. }
  assert (Hs' : exists si smp, encode_names (map r_sample (norm_rows true true rows)) (option_map fst (smap_arg carry s)) 6 = Ok (si, smp)).
  { rewrite norm_rows_tt, Hsm. destruct carry; cbn [smap_arg option_map fst].
    - unfold encode_names. rewrite Hs. do 2 eexists. reflexivity.
    - destruct (encode_names_built_total (map r_sample (s_rows s)) 6) as [si Hsi]. do 2 eexists. exact Hsi. }
  destruct Hk' as (tf & tmp & Hk'). destruct Hs' as (si & smp & Hs').
  eexists. eapply mk_screen_ok; try eassumption.
  - rewrite (arity_ok_treats _ _ _ Ht). exact Ha.
  - reflexivity.
  - destruct carry; cbn [tmap_arg tmap_bad]; [|reflexivity]. destruct (Hv eq_refl) as [A _]. now rewrite A.
  - destruct carry; cbn [smap_arg smap_bad]; [|reflexivity]. destruct (Hv eq_refl) as [_ A]. now rewrite A.
Qed.

Theorem reveal_defined v s ids :
  constructed s -> (carry_reveal v = true -> mappings_valid s) ->
  reveal_zero_guard s ids = false -> existsb obs_is_nan (revealed_values s ids) = false ->
  exists s', reveal_plates v s ids = Ok s'.
Proof.
  intros Hc Hv Hz Hn. unfold reveal_plates. rewrite Hz, Hn.
  pose proof (constructed_plates s Hc) as Hs. pose proof (plates_encoded_length s Hs) as Hl.
  destruct (map_core_proj _ _ (map_core_reveal_rows s ids Hl)) as (A & _ & B & _).
  apply rebuild_defined; auto. apply uniform_reveal_rows; [exact Hs|now apply constructed_uniform].
Qed.

Theorem step_defined v s o :
  constructed s -> (carries v o = true -> mappings_valid s) ->
  match o with
  | Reveal ids => reveal_zero_guard s ids = false /\ existsb obs_is_nan (revealed_values s ids) = false
  | _ => True
  end -> exists s', step v s o = Ok s'.
Proof.
  intros Hc Hv Hg. destruct o as [ids| | |]; cbn [step carries] in *.
  - destruct Hg. now apply reveal_defined.
  - unfold mask_screen. apply rebuild_defined; auto; try (rewrite map_map; reflexivity). apply uniform_const_mask.
  - unfold unmask_screen. apply rebuild_defined; auto; try (rewrite map_map; reflexivity). apply uniform_const_mask.
  - change (save_load s) with (rebuild true s (s_rows s)). apply rebuild_defined; auto. now apply constructed_uniform.
Qed.

(* the halves of a split, and every result of an operation that passes the mappings on, have valid mappings *)
Lemma split_valid p sel pr t : holdout_split p sel = Ok pr -> mappings_valid (half t pr).
Proof.
  destruct pr as [tr te]. intros H. apply holdout_split_inv in H. destruct H as (_ & H1 & H2).
  apply supplied_valid in H1. apply supplied_valid in H2. now destruct t.
Qed.

Lemma step_valid v s o s' : carries v o = true -> step v s o = Ok s' -> mappings_valid s'.
Proof.
  destruct o as [ids| | |]; cbn [carries step]; intros Hc H.
  - apply reveal_plates_inv in H. destruct H as (_ & _ & H). rewrite Hc in H. now apply supplied_valid in H.
  - unfold mask_screen in H. rewrite Hc in H. now apply supplied_valid in H.
  - unfold unmask_screen in H. rewrite Hc in H. now apply supplied_valid in H.
  - now apply supplied_valid in H.
Qed.

(* repaired construction: along any lifecycle, mask / unmask / save+load are always defined and reveal is
   defined exactly when its two guards pass *)
Theorem repaired_lifecycle_defined p sel test ops s o :
  lifecycle (carry_mappings true) p sel test ops = Ok s ->
  match o with
  | Reveal ids => reveal_zero_guard s ids = false /\ existsb obs_is_nan (revealed_values s ids) = false
  | _ => True
  end -> exists s', step (carry_mappings true) s o = Ok s'.
Proof.
  unfold lifecycle. destruct (holdout_split p sel) as [pr|] eqn:E; cbn [res_bind]; [|discriminate].
  intros H Hg.
  assert (HP : constructed s /\ mappings_valid s).
  { revert H. apply (history_invariant (fun s => constructed s /\ mappings_valid s) (carry_mappings true)).
    - intros s1 o1 s2 _ Hs. split; [eapply step_constructed; eassumption|].
      eapply step_valid; [apply carries_all|exact Hs].
    - split; [eapply holdout_constructed; eassumption|eapply split_valid; eassumption]. }
  destruct HP as [Hc Hv]. apply step_defined; auto.
Qed.
