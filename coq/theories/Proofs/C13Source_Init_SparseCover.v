(* C13: SparseCoverPlateGenerator.__init__ (Generated/SrcInits.v) stores its argument: the attribute the translated methods of the class read
   (`self.<attr>` = the model parameter of their links) is the value the object was constructed with - reveal_single_treatment_experiments *)
From Coq Require Import ZArith List Bool.
From Batchie Require Import Lib.Sexp Lib.PyRt Model.Encode Generated.SrcInits.
Import ListNotations.
Open Scope Z_scope.

Theorem src_sparse_cover_init_stores : forall reveal : bool, src_sparse_cover_init reveal = Ok reveal.
Proof. reflexivity. Qed.
