(* C13 / C11, one piece of Proofs/C13SourceHelpers.v (representation and side conditions: see there): Screen.subset = subset_of, ScreenSubset.to_screen = Retro.to_screen *)
From Coq Require Import ZArith List Bool Arith Lia ZifyBool.
From Batchie Require Import Lib.Sexp Lib.PyRt Generated.Consts Model.Encode Model.Screen Model.Views Model.Retro Model.RetroHoldout
  Generated.SrcEncode Generated.SrcViews Generated.SrcPlates
  Proofs.PyRtLemmas Proofs.C01Sort Proofs.C01Encode Proofs.C14Defs Proofs.C14Lists Proofs.C14Unique Proofs.C14Views
  Proofs.C14ToScreen
  Proofs.C14Source_ScreenSubset Proofs.C14Source_ToScreen Proofs.C13SourceHelpers_Base.
Import ListNotations.
Open Scope nat_scope.

(* ---------------- subset / to_screen ---------------- *)

(* Screen.subset(v), v a bool array of the screen's length: the view whose rows are subset_of's *)
Theorem src_screen_subset_is_subset_of : forall (t : Z) (p : screen) (v : bvec), length v = screen_size p ->
  exists w, src_screen_subset (t, p) (true, v) = Ok w /\ view_rows w = subset_of (s_rows p) v /\
            v_tag w = t /\ v_parent w = p /\ v_sel w = v /\ view_ok w.
Proof.
  intros t p v H. rewrite src_screen_subset_is_model. cbn [fst snd]. rewrite (screen_subset_ok t p v H).
  eexists. split; [reflexivity|]. unfold view_rows, subset_of, view_ok. cbn [v_sel v_parent v_tag]. auto.
Qed.

(* ScreenSubset.to_screen() on a view of a valid screen: never refused; the new screen's rows are the selected rows
   (Retro.to_screen is the identity on them), and it is a fresh screen of the parent's arity and control name *)
Theorem src_to_screen_is_retro_to_screen : forall v : view, screen_valid (v_parent v) ->
  exists s, src_to_screen v = Ok s /\ s_rows s = Retro.to_screen (subset_of (s_rows (v_parent v)) (v_sel v)) /\
            fresh_screen s /\ s_arity s = s_arity (v_parent v) /\ s_ctrl s = s_ctrl (v_parent v).
Proof.
  intros v Hv. rewrite src_to_screen_is_model. destruct (to_screen_total v Hv) as (s & Hs). exists s. split; [exact Hs|].
  pose proof (mk_screen_fresh _ _ _ _ Hs) as Hf. apply to_screen_rows in Hs. destruct Hs as (H1 & H2 & H3 & _).
  unfold Retro.to_screen, subset_of. rewrite H1. auto.
Qed.
