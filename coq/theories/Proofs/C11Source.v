(* C11 / C13: the hand-written models of Model/Retro.v and Model/RetroHoldout.v equal the translations of
   the corresponding WHOLE functions of /repo, regenerated on every run (Generated/SrcRetro.v, by
   harness/py2gal.py with the configurations of harness/src_functions.py), for all inputs. *)
From Coq Require Import ZArith List Bool Arith Lia.
From Batchie Require Import Lib.Sexp Lib.PyRt Model.Encode Model.Screen Model.Retro Model.Pairwise
  Generated.SrcRetro Proofs.PyRtLemmas.
Import ListNotations.
Open Scope nat_scope.

(* ---------- core.py: RetrospectivePlateGenerator.generate_plates / RetrospectivePlateSmoother.smooth_plates ---------- *)
Theorem src_generate_plates_is_wrap : forall (f : inner) rows ds,
  src_generate_plates f rows ds = wrap f rows ds.
Proof.
  intros f rows ds. unfold src_generate_plates, wrap, subset_unobserved, subset_observed, to_screen, combine_screens.
  destruct (unobserved rows) as [|u us]; cbn [Retro.is_nil is_none unwrap res_bind]; [reflexivity|].
  destruct (f (u :: us) ds) as [[nu ds']|t]; cbn [res_bind]; [|reflexivity].
  destruct (observed rows) as [|o os]; cbn [Retro.is_nil is_none unwrap res_bind]; [reflexivity|].
  destruct (construct (nu ++ o :: os)); reflexivity.
Qed.

Theorem src_smooth_plates_is_wrap : forall (f : inner) rows ds,
  src_smooth_plates f rows ds = wrap f rows ds.
Proof.
  intros f rows ds. unfold src_smooth_plates, wrap, subset_unobserved, subset_observed, to_screen, combine_screens.
  destruct (unobserved rows) as [|u us]; cbn [Retro.is_nil is_none unwrap res_bind]; [reflexivity|].
  destruct (f (u :: us) ds) as [[nu ds']|t]; cbn [res_bind]; [|reflexivity].
  destruct (observed rows) as [|o os]; cbn [Retro.is_nil is_none unwrap res_bind]; [reflexivity|].
  destruct (construct (nu ++ o :: os)); reflexivity.
Qed.

Theorem src_generate_plates_is_model : forall rows ds,
  (forall f : inner, src_generate_plates f rows ds = wrap f rows ds) /\
  (forall g, src_generate_plates (generate_inner g) rows ds = generate_plates g rows ds).
Proof. intros rows ds; split; intros; apply src_generate_plates_is_wrap. Qed.

Theorem src_smooth_plates_is_model : forall rows ds,
  (forall f : inner, src_smooth_plates f rows ds = wrap f rows ds) /\
  (forall sm, src_smooth_plates (smooth_inner sm) rows ds = smooth_plates sm rows ds).
Proof. intros rows ds; split; intros; apply src_smooth_plates_is_wrap. Qed.
