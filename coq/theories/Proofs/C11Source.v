(* C11 / C13: the hand-written models of Model/Retro.v and Model/RetroHoldout.v equal the translations of
   the corresponding WHOLE functions of /repo, regenerated on every run (Generated/SrcRetro.v, by
   harness/py2gal.py with the configurations of harness/src_functions.py), for all inputs.
   (create_plate_balanced_holdout_set_among_masked_plates, which only C11 states, is in Proofs/C11Source_Holdout.v.) *)
From Coq Require Import ZArith List Bool Arith Lia.
From Batchie Require Import Lib.Sexp Lib.PyRt Model.Encode Model.Screen Model.Retro Model.Pairwise Model.RetroHoldout
  Generated.SrcRetro Proofs.PyRtLemmas Proofs.C11Lib Proofs.C11Smooth Proofs.C13MergeMin.
Import ListNotations.
Open Scope nat_scope.

(* ---------- core.py: RetrospectivePlateGenerator.generate_plates / RetrospectivePlateSmoother.smooth_plates ---------- *)
Theorem src_generate_plates_is_wrap : forall (f : inner) rows ds,
  src_generate_plates f rows ds = wrap f rows ds.
Proof.
  intros f rows ds. unfold src_generate_plates, wrap, subset_unobserved, subset_observed, to_screen, combine_screens.
  destruct (unobserved rows) as [|u us]; cbn [Retro.is_nil is_none unwrap res_bind]; [reflexivity|].
  destruct (f (u :: us) ds) as [[nu ds']|t]; cbn [res_bind]; [|reflexivity].
  destruct (observed rows) as [|o os]; cbn [Retro.is_nil is_none unwrap res_bind]; [reflexivity|].
  destruct (construct (nu ++ o :: os)); reflexivity.
Qed.

Theorem src_smooth_plates_is_wrap : forall (f : inner) rows ds,
  src_smooth_plates f rows ds = wrap f rows ds.
Proof.
  intros f rows ds. unfold src_smooth_plates, wrap, subset_unobserved, subset_observed, to_screen, combine_screens.
  destruct (unobserved rows) as [|u us]; cbn [Retro.is_nil is_none unwrap res_bind]; [reflexivity|].
  destruct (f (u :: us) ds) as [[nu ds']|t]; cbn [res_bind]; [|reflexivity].
  destruct (observed rows) as [|o os]; cbn [Retro.is_nil is_none unwrap res_bind]; [reflexivity|].
  destruct (construct (nu ++ o :: os)); reflexivity.
Qed.

Theorem src_generate_plates_is_model : forall rows ds,
  (forall f : inner, src_generate_plates f rows ds = wrap f rows ds) /\
  (forall g, src_generate_plates (generate_inner g) rows ds = generate_plates g rows ds).
Proof. intros rows ds; split; intros; apply src_generate_plates_is_wrap. Qed.

Theorem src_smooth_plates_is_model : forall rows ds,
  (forall f : inner, src_smooth_plates f rows ds = wrap f rows ds) /\
  (forall sm, src_smooth_plates (smooth_inner sm) rows ds = smooth_plates sm rows ds).
Proof. intros rows ds; split; intros; apply src_smooth_plates_is_wrap. Qed.

(* ---------- retrospective.py: MergeMinPlateSmoother._get_plate_sample_id ---------- *)
Lemma vselect_plate_vec : forall p rows, vselect (plate_vec p rows) rows = filter (in_plate p) rows.
Proof. intros. unfold plate_vec. symmetry. apply filter_vselect. Qed.

(* on a plate of the screen (selection vector of the plate named p) it is the model's [plate_sample] *)
Theorem src_get_plate_sample_id_is_model : forall rows p,
  src_merge_min_get_plate_sample_id rows (plate_vec p rows) = plate_sample p rows.
Proof.
  intros rows p. unfold src_merge_min_get_plate_sample_id, plate_sample, plate_unique_samples, plate_samples, zlen.
  rewrite vselect_plate_vec.
  destruct (sort_uniq name_cmp (map r_sample (filter (in_plate p) rows))) as [|x [|y l]]; cbn [length first_item res_bind];
    try reflexivity.
  destruct (Z.of_nat (S (S (length l))) >? 1)%Z eqn:E; [reflexivity|].
  rewrite Z.gtb_ltb in E. apply Z.ltb_ge in E. lia.
Qed.

(* ---------- retrospective.py: MergeMinPlateSmoother._smooth_plates ---------- *)
(* the comprehension building the heap *)
Lemma heap_comprehension : forall s rows (g : bvec -> result bool),
  (forall p, g (plate_vec p rows) = dor r <- plate_sample p rows; Ok (name_eqb r s)) ->
  res_filter g (plates_of rows)
  = dor ps <- plates_of_sample s rows; Ok (map (fun p => plate_vec p rows) ps).
Proof.
  intros s rows g Hg. unfold plates_of, plates_of_sample.
  induction (plate_names_of rows) as [|p ps IH]; [reflexivity|].
  cbn [map res_filter res_map_all]. rewrite Hg.
  destruct (plate_sample p rows) as [s'|t]; cbn [res_bind]; [|reflexivity].
  rewrite IH. destruct (res_map_all (fun p0 => plate_sample p0 rows) ps) as [sps|t]; cbn [res_bind combine filter snd]; [|reflexivity].
  destruct (name_eqb s' s); reflexivity.
Qed.

Lemma pop_length : forall heap ds v h ds', pop heap ds = Ok (v, h, ds') -> length heap = S (length h).
Proof.
  intros heap ds v h ds' H. apply pop_ok in H as (i & _ & Hn & -> & _). eapply remove_nth_length; eassumption.
Qed.

(* the `while True` loop, for an arbitrary body [bd] equal to the canonical one and an arbitrary continuation [K]
   that drops the heap the loop ends with *)
Lemma mm_while {B : Type} (ms : Z) (bd : list bvec * list draw * screen_t -> result (bool * (list bvec * list draw * screen_t)))
      (K : list bvec * list draw * screen_t -> result B) (k : screen_t -> list draw -> result B) :
  (forall h d r, bd (h, d, r) =
     if (zlen h <=? 1)%Z then Ok (false, (h, d, r))
     else
       dor p1 <- pop h d; let '(a, h1, d1) := p1 in
       dor p2 <- pop h1 d1; let '(b, h2, d2) := p2 in
       if (plate_size a + plate_size b >? ms)%Z then Ok (false, (h2, d2, r))
       else Ok (true, (h2 ++ [fst (merge b a r)], d2, snd (merge b a r)))) ->
  (forall h d r, K (h, d, r) = k r d) ->
  forall fs fm heap ds rows, length heap < fs -> length heap <= fm ->
    res_bind (res_while fs bd (heap, ds, rows)) K = dor x <- mm_loop fm ms heap rows ds; k (fst x) (snd x).
Proof.
  intros Hbd HK. induction fs as [|fs IH]; intros fm heap ds rows Hs Hm; [lia|].
  cbn [res_while]. rewrite Hbd. unfold zlen.
  destruct fm as [|fm].
  - destruct heap; [|cbn [length] in Hm; lia]. cbn. apply HK.
  - cbn [mm_loop]. destruct (length heap <=? 1) eqn:E1.
    + apply Nat.leb_le in E1. destruct (Z.of_nat (length heap) <=? 1)%Z eqn:E2; [cbn; apply HK|]. lia.
    + apply Nat.leb_gt in E1. destruct (Z.of_nat (length heap) <=? 1)%Z eqn:E2; [lia|].
      destruct (pop heap ds) as [[[a h1] d1]|t] eqn:P1; cbn [res_bind]; [|reflexivity].
      destruct (pop h1 d1) as [[[b h2] d2]|t] eqn:P2; cbn [res_bind]; [|reflexivity].
      unfold plate_size. rewrite <- Nat2Z.inj_add.
      destruct (Z.of_nat (vcount a + vcount b) >? ms)%Z; cbn [res_bind fst snd]; [apply HK|].
      apply pop_length in P1. apply pop_length in P2.
      unfold merge. cbn [fst snd].
      apply IH; rewrite app_length; cbn [length]; lia.
Qed.

Lemma filter_len_le {A} (f : A -> bool) : forall l, length (filter f l) <= length l.
Proof. induction l as [|a l IH]; cbn [filter length]; [lia|]. destruct (f a); cbn [length]; lia. Qed.

Lemma plate_names_of_length : forall rows, length (plate_names_of rows) <= length rows.
Proof.
  intros rows. unfold plate_names_of. rewrite <- (map_length r_plate rows).
  apply NoDup_incl_length; [apply NoDup_sort_uniq|]. intros x Hx. exact (proj1 (In_sort_uniq _ _) Hx).
Qed.

Lemma plates_of_sample_length : forall s rows ps, plates_of_sample s rows = Ok ps -> length ps <= length rows.
Proof.
  intros s rows ps H. unfold plates_of_sample in H.
  destruct (res_map_all _ (plate_names_of rows)) as [sps|t]; cbn [res_bind] in H; [|discriminate].
  inversion H; subst ps. rewrite map_length.
  etransitivity; [apply filter_len_le|]. rewrite combine_length.
  pose proof (plate_names_of_length rows). lia.
Qed.

(* the loop over the samples, for an arbitrary body equal to the canonical one while the screen keeps its length *)
Lemma mm_for (ms : Z) (fuel : nat) (f : list draw * screen_t -> name -> result (list draw * screen_t)) :
  (forall d r s, length r < fuel ->
     f (d, r) s = dor ps <- plates_of_sample s r;
                  dor x <- mm_loop (length (map (fun p => plate_vec p r) ps)) ms (map (fun p => plate_vec p r) ps) r d;
                  Ok (snd x, fst x)) ->
  forall samples rows ds, length rows < fuel ->
    res_fold f samples (ds, rows) = dor x <- mm_samples ms samples rows ds; Ok (snd x, fst x).
Proof.
  intros Hf. induction samples as [|s samples IH]; intros rows ds Hl; cbn [res_fold mm_samples]; [reflexivity|].
  rewrite Hf by exact Hl.
  destruct (plates_of_sample s rows) as [ps|t]; cbn [res_bind]; [|reflexivity].
  destruct (mm_loop _ ms _ rows ds) as [[r1 d1]|t] eqn:El; cbn [res_bind fst snd]; [|reflexivity].
  apply IH. apply mm_loop_strip in El. apply (f_equal (@length _)) in El. rewrite !map_length in El. lia.
Qed.

Theorem src_merge_min_is_model : forall ms rows ds fuel, length rows < fuel ->
  src_merge_min_smooth_plates ms rows ds fuel = merge_min ms rows ds.
Proof.
  intros ms rows ds fuel Hfuel. unfold src_merge_min_smooth_plates, merge_min.
  rewrite (mm_for ms fuel); [| |exact Hfuel].
  - destruct (mm_samples ms (sample_names rows) rows ds) as [[r d]|t]; reflexivity.
  - intros d r s Hr. cbv beta.
    rewrite (heap_comprehension s r) by (intro p; rewrite src_get_plate_sample_id_is_model; reflexivity).
    destruct (plates_of_sample s r) as [ps|t] eqn:Ep; cbn [res_bind]; [|reflexivity].
    apply plates_of_sample_length in Ep.
    apply (mm_while ms _ _ (fun r d => Ok (d, r))).
    + intros h d0 r0. reflexivity.
    + intros h d0 r0. reflexivity.
    + rewrite map_length. lia.
    + lia.
Qed.

(* ---------- retrospective.py: MergeTopBottomPlateSmoother._get_plate_sample_id / ._smooth_plates ---------- *)
Theorem src_tb_get_plate_sample_id_is_model : forall rows p,
  src_merge_tb_get_plate_sample_id rows (plate_vec p rows) = plate_sample p rows.
Proof.
  intros rows p. unfold src_merge_tb_get_plate_sample_id, plate_sample, plate_unique_samples, plate_samples, zlen.
  rewrite vselect_plate_vec.
  destruct (sort_uniq name_cmp (map r_sample (filter (in_plate p) rows))) as [|x [|y l]]; cbn [length first_item res_bind];
    try reflexivity.
  destruct (Z.of_nat (S (S (length l))) >? 1)%Z eqn:E; [reflexivity|].
  rewrite Z.gtb_ltb in E. apply Z.ltb_ge in E. lia.
Qed.

(* the loop over the (smaller, bigger) pairs *)
Lemma tb_pairs_loop : forall pairs rows,
  fold_left (fun r (ab : bvec * bvec) => snd (merge (snd ab) (fst ab) r)) pairs rows = tb_merge_pairs pairs rows.
Proof. induction pairs as [|[a b] pairs IH]; intros rows; cbn [fold_left tb_merge_pairs fst snd]; [reflexivity | apply IH]. Qed.

Lemma half_nat : forall n, Z.to_nat (Z.of_nat n / 2) = n / 2.
Proof. intros n. change 2%Z with (Z.of_nat 2). rewrite <- Nat2Z.inj_div. apply Nat2Z.id. Qed.

(* the `for i in range(n_iterations)` loop with its break, for an arbitrary body equal to one model iteration *)
Lemma tb_brk {A : Type} (s : name) (f : screen_t -> A -> result (bool * screen_t)) :
  (forall r i, f r i = dor o <- tb_iter s r; match o with None => Ok (false, r) | Some r' => Ok (true, r') end) ->
  forall (l : list A) rows, res_fold_brk f l rows = tb_iters (length l) s rows.
Proof.
  intros Hf. induction l as [|i l IH]; intros rows; cbn [res_fold_brk length tb_iters]; [reflexivity|].
  rewrite Hf. destruct (tb_iter s rows) as [[r'|]|t]; cbn [res_bind fst snd]; [apply IH | reflexivity | reflexivity].
Qed.

Lemma tb_for (n : nat) (f : screen_t -> name -> result screen_t) :
  (forall r s, f r s = tb_iters n s r) ->
  forall samples rows, res_fold f samples rows = tb_samples n samples rows.
Proof.
  intros Hf. induction samples as [|s samples IH]; intros rows; cbn [res_fold tb_samples]; [reflexivity|].
  rewrite Hf. destruct (tb_iters n s rows); cbn [res_bind]; [apply IH | reflexivity].
Qed.

Theorem src_merge_tb_is_model : forall n_iter rows, src_merge_tb_smooth_plates n_iter rows = merge_tb n_iter rows.
Proof.
  intros n rows. unfold src_merge_tb_smooth_plates, merge_tb.
  rewrite (tb_for (Z.to_nat n)).
  - destruct (tb_samples (Z.to_nat n) (sample_names rows) rows); reflexivity.
  - intros r s. cbv beta.
    rewrite (tb_brk s).
    + destruct (tb_iters (length (zrange n)) s r) eqn:E; cbn [res_bind];
        unfold zrange in E; rewrite map_length, seq_length in E; now rewrite E.
    + intros r0 i. cbv beta. unfold tb_iter.
      rewrite (heap_comprehension s r0) by (intro p; rewrite src_tb_get_plate_sample_id_is_model; reflexivity).
      destruct (plates_of_sample s r0) as [ps|t]; cbn [res_bind]; [|reflexivity].
      unfold zlen. rewrite map_length.
      destruct (length ps <=? 1) eqn:E1.
      * apply Nat.leb_le in E1. destruct (Z.of_nat (length ps) <=? 1)%Z eqn:E2; [reflexivity|]. lia.
      * apply Nat.leb_gt in E1. destruct (Z.of_nat (length ps) <=? 1)%Z eqn:E2; [lia|].
        rewrite half_nat.
        rewrite (res_fold_pure _ (fun r (ab : bvec * bvec) => snd (merge (snd ab) (fst ab) r))) by (intros r1 [a b]; reflexivity).
        cbn [res_bind]. now rewrite tb_pairs_loop.
Qed.
