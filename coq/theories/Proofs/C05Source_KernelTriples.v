(* C05 / C15: the translated index-to-triple run of dbal_fast_gauss_scoring_vectorized (Generated/SrcDbal.v: src_kernel_triples,
   `n_plates, n_thetas, ... = predictions.shape` .. `idx3 = np.array(idx3)`) equals its specification in the vocabulary of
   Model/Dbal.v.  A file of its own (failure isolation): it mentions no other translated function, so property C15's use-site
   theorem (Proofs/C15UseSite.v) can import it without depending on the links of the scorer / wrappers / padding. *)
From Coq Require Import ZArith List Bool Lia Arith.
From Batchie Require Import Lib.Sexp Lib.PyRt Model.Unrank Model.Dbal Generated.SrcDbal.
Import ListNotations.

Lemma res_bind_ok_id {A} (x : result A) : (dor r <- x; Ok r) = x.
Proof. destruct x; reflexivity. Qed.

Lemma comb3_small T : (T < 3)%nat -> comb3 (Z.of_nat T) = 0%Z.
Proof. intros H. unfold comb3. destruct (Z.ltb_spec (Z.of_nat T) 3); [reflexivity|lia]. Qed.

Lemma comb3_pos T : (3 <= T)%nat -> (1 <= comb3 (Z.of_nat T))%Z.
Proof.
  intros H. unfold comb3. destruct (Z.ltb_spec (Z.of_nat T) 3); [lia|].
  apply Z.div_le_lower_bound; [lia|]. nia.
Qed.

Lemma res_map_all_eta {A B} (f : A -> result B) l : res_map_all (fun x => dor r <- f x; Ok r) l = res_map_all f l.
Proof. induction l as [|a l IH]; cbn [res_map_all]; [reflexivity|]. now rewrite res_bind_ok_id, IH. Qed.

Lemma res_map_all_length {A B} (f : A -> result B) l : forall l', res_map_all f l = Ok l' -> length l' = length l.
Proof.
  induction l as [|a l IH]; intros l' H; cbn [res_map_all] in H; [now inversion H|].
  destruct (f a); cbn [res_bind] in H; [|discriminate].
  destruct (res_map_all f l) as [bs|]; cbn [res_bind] in H; [|discriminate].
  inversion H. cbn [length]. now rewrite (IH bs eq_refl).
Qed.

(* the run: comb(n_thetas, 3), the raise, min with the budget, rng.choice, unranking per index, the three columns *)
Theorem src_kernel_triples_spec (pred : arr3) (mc : Z) (d : list Z) (rest : list (list Z)) np T E :
  shape3 pred = (np, T, E) ->
  (1 <= mc)%Z ->
  choice_ok (comb3 (Z.of_nat T)) (Z.min (comb3 (Z.of_nat T)) mc) d = true ->
  src_kernel_triples pred mc (d :: rest)
  = if (T <? 3)%nat then Err 23%Z
    else dor zs <- res_map_all (fun i => unrank3 i (Z.of_nat T)) d;
         dor t3 <- unzip3 zs;
         Ok (t3, rest).
Proof.
  intros Es Hmc Hok. unfold src_kernel_triples, shape3z. rewrite Es.
  destruct (Nat.ltb_spec T 3) as [Hlt|Hge].
  - now rewrite (comb3_small T Hlt).
  - pose proof (comb3_pos T Hge) as Hc. set (c := comb3 (Z.of_nat T)) in *.
    destruct (Z.eqb_spec c 0) as [|_]; [lia|]. cbn [negb].
    unfold rng_choice.
    destruct (Z.ltb_spec (Z.min c mc) 0) as [|_]; [lia|].
    destruct (Z.ltb_spec c (Z.min c mc)) as [|_]; [lia|].
    rewrite Hok. cbn [res_bind]. rewrite res_map_all_eta.
    destruct (res_map_all _ d) as [zs|t]; cbn [res_bind]; [|reflexivity].
    destruct (unzip3 zs) as [[[i1 i2] i3]|t]; reflexivity.
Qed.

(* ---- the index arrays that run delivers, read as the model's list of triples (vocabulary only) ---- *)
Definition nat3 (z : Z * Z * Z) : triple := (Z.to_nat (fst (fst z)), Z.to_nat (snd (fst z)), Z.to_nat (snd z)).

Lemma triples_via_unrank3 T d :
  triples_of_draw T d = dor zs <- res_map_all (fun i => unrank3 i (Z.of_nat T)) d; Ok (map nat3 zs).
Proof.
  unfold triples_of_draw. induction d as [|ix d IH]; cbn [res_map_all]; [reflexivity|].
  rewrite IH. unfold triple_of_index. change (unrank3 ix (Z.of_nat T)) with (dor l <- unrank ix (Z.of_nat T) 3; match l with [a; b; c] => Ok (a, b, c) | _ => Err 9%Z end).
  destruct (unrank ix (Z.of_nat T) 3) as [l|t]; cbn [res_bind]; [|reflexivity].
  destruct l as [|a [|b [|c [|x l]]]]; cbn [res_bind]; try reflexivity.
  clear IH. destruct (res_map_all (fun i : Z => unrank3 i (Z.of_nat T)) d); reflexivity.
Qed.

Lemma nat_triples_unzip3 zs t3 : unzip3 zs = Ok t3 -> nat_triples t3 = map nat3 zs.
Proof.
  unfold unzip3. destruct zs as [|z0 zs0] eqn:E; [discriminate|]. rewrite <- E. clear. intros H. inversion H; subst. clear H.
  unfold nat_triples. cbn [fst snd].
  induction zs as [|[[a b] c] zs IH]; cbn [map zip3_nat fst snd]; [reflexivity|]. now rewrite IH.
Qed.
