(* C01, one piece of Proofs/C01Source.v (which see): encode_1d_array_to_0_indexed_ids *)
From Coq Require Import ZArith List Bool Lia ZifyBool Arith Sorted.
From Batchie Require Import Lib.Sexp Lib.PyRt Generated.Consts Generated.SrcArithC01 Model.Encode Model.Screen Generated.SrcEncode
  Generated.SrcScreenIds Proofs.PyRtLemmas Proofs.C01Sort Proofs.C01Encode Proofs.C03Screen
  Proofs.C01Source_Base.
Import ListNotations.
Open Scope Z_scope.

(* ---------- encode_1d_array_to_0_indexed_ids ---------- *)
Lemma number_rows (su : list name) : forall s,
  map snd (df_rename_index (lab s (lab s su))) = number_from s su.
Proof.
  unfold df_rename_index. induction su as [|k su IH]; intros s; [reflexivity|].
  rewrite !lab_cons. cbn [map fst snd number_from]. now rewrite IH.
Qed.

Lemma src_built_nframe_rows (names : list name) :
  map snd (df_rename_index (df_reset_keep (df_reset_drop (df_sort_values name_cmp (df_drop_duplicates name_eqb (df_fresh names))))))
  = build_nmapping names.
Proof.
  rewrite (dedup_sort_reset name_eqb name_cmp names name_eqb_eq name_cmp_spec).
  unfold df_reset_keep, build_nmapping. rewrite !df_fresh_lab. apply number_rows.
Qed.

Lemma src_encode_1d_tail (names : list name) (m : nmapping) (d : vmframe) (tag : Z) : map snd d = m -> NoDup (map fst m) ->
  (if negb (all_true (series_notna (jcol_new_index (df_merge_left name_eqb (vframe_of_col names) d)))) then Err tag
   else Ok (jcol_new_index (df_merge_left name_eqb (vframe_of_col names) d), vmcol_val d, vmcol_new_index d))
  = match opt_map_all (nlookup m) names with
    | Some ids => Ok (map Some ids, map fst m, map snd m)
    | None => Err tag
    end.
Proof.
  intros Hd Hn. unfold vframe_of_col.
  rewrite (merge_left_ids name_eqb name_eqb_eq m Hn _ d Hd), df_fresh_lab, lab_rows.
  rewrite (map_ext _ _ (lookup_first_nlookup m)).
  unfold vmcol_val, vmcol_new_index. rewrite <- Hd, !map_map.
  pose proof (notna_opt_map_all (nlookup (map snd d)) names) as H.
  destruct (opt_map_all (nlookup (map snd d)) names) as [ids|]; [destruct H as [-> ->] | rewrite H]; reflexivity.
Qed.

Theorem src_encode_1d_is_model : forall (names : list name) (existing : option smap_py),
  match existing with Some t => NoDup (map fst (smap_py_rows t)) | None => True end ->
  src_encode_1d_array names existing
  = if match existing with Some t => negb (smap_py_aligned t) | None => false end then Err 15
    else dor r <- encode_names names (option_map smap_py_rows existing) 6;
         Ok (map Some (fst r), map fst (snd r), map snd (snd r)).
Proof.
  intros names existing Hex. unfold src_encode_1d_array, encode_names.
  destruct existing as [[a [isint c]]|]; cbn [is_some unwrap res_bind option_map fst snd].
  - unfold vmframe_of_cols, df_of_cols2, smap_py_aligned. cbn [fst snd].
    destruct (Nat.eqb (length a) (length c)); cbn [negb res_bind]; [|reflexivity].
    unfold smap_py_rows in *. cbn [fst snd] in *. set (m := combine a c) in *. cbv zeta.
    etransitivity; [apply (src_encode_1d_tail names m (df_fresh m)); [now rewrite df_fresh_lab, lab_rows | exact Hex]|].
    destruct (opt_map_all (nlookup m) names); reflexivity.
  - cbv zeta. etransitivity; [apply (src_encode_1d_tail names (build_nmapping names)); [apply src_built_nframe_rows | apply nbuilt_keys_NoDup]|].
    destruct (opt_map_all (nlookup (build_nmapping names)) names); reflexivity.
Qed.
