(* C07: the translated functions composed as the command line composes them - per listed chunk index one
   calculate_pairwise_distance_matrix_on_predictions, save, load; then ChunkedDistanceMatrix.concat and to_dense -
   equal the model's pipeline (Model/DistMat.pipeline). *)
From Coq Require Import ZArith List Bool Lia.
From Batchie Require Import Lib.Sexp Lib.PyRt Lib.ListX Model.Chunks Model.DistMat Generated.SrcChunks Generated.SrcDistMat
  Proofs.C07Chunks Proofs.C07DistMat Proofs.C07Source Proofs.C07SourceMat.
Import ListNotations.
Open Scope Z_scope.

Section Pipe.
Variable V : Type.
Variable vzero : V.
Variable visz : V -> bool.
Hypothesis visz_zero : visz vzero = true.
Variables Th Pr : Type.
Variable get_theta : Z -> Th.
Variable predict : Th -> Pr.
Variable dist : Pr -> Pr -> V.

Notation ok := (storage_ok vzero visz).
Notation abs := (dm_of_storage vzero).
Notation d := (metric_of V Th Pr get_theta predict dist).

(* one job of the pipeline: compute the chunk, save it, load the file *)
Definition one_chunk (n : nat) (c k : Z) : result (cdm V) :=
  dor m <- src_calculate_pairwise V vzero visz Th Pr (Z.of_nat n) get_theta predict dist k c;
  dor f <- src_cdm_save V vzero visz m;
  src_cdm_load V vzero visz f.

Definition src_pipeline (n : nat) (c : Z) (order : list Z) : result (list (list V)) :=
  dor ms <- res_map_all (fun k => one_chunk n c k) order;
  dor m <- src_cdm_concat V vzero visz ms;
  src_cdm_to_dense V vzero visz m.

Lemma calc_chunks n c order : (forall k, In k order -> 0 <= k < c) ->
  exists sts, res_map_all (fun k => one_chunk n c k) order = Ok sts
    /\ Forall ok sts /\ map abs sts = map (fun k => mk V d n (chunk n k c)) order.
Proof.
  induction order as [|k order IH]; intros H; cbn [res_map_all map].
  - exists []. repeat split. constructor.
  - pose proof (src_calculate_is_model V vzero visz visz_zero Th Pr get_theta predict dist n k c (H k ltac:(now left))) as L.
    rewrite compute_chunk_ok in L. unfold one_chunk at 1.
    destruct (src_calculate_pairwise V vzero visz Th Pr (Z.of_nat n) get_theta predict dist k c) as [st|t];
      cbn [storage_refines] in L; [|contradiction].
    destruct L as [L1 L2]. destruct (IH ltac:(intros k' Hk'; apply H; now right)) as (sts & E & F & M).
    cbn [res_bind]. rewrite src_save_is_model. cbn [res_bind]. rewrite (src_load_of_saved V vzero visz st L1).
    destruct (composed1_ok V vzero visz visz_zero st L1) as [C1 C2].
    exists (composed1 V vzero st :: sts). rewrite E. cbn [res_bind map]. repeat split; [now constructor | now rewrite C2, L2, M].
Qed.

Lemma valid_none n ps : (n < 2)%nat -> Forall (valid n) ps -> ps = [].
Proof. intros Hn H. destruct ps as [|p ps]; [reflexivity|]. inversion H as [|? ? Hp _]; subst. unfold valid in Hp. lia. Qed.

Lemma abs_roomy st n ps : ok st -> abs st = mk V d n ps -> Forall (valid n) ps -> roomy st.
Proof.
  intros (H1 & H2 & H3 & H4 & H5) E Hv. unfold roomy.
  assert (Es : c_size st = Z.of_nat n) by (apply (f_equal dm_size) in E; exact E).
  assert (El : Z.to_nat (c_cur st) = length ps).
  { apply (f_equal (fun m => length (dm_entries m))) in E. cbn [dm_of_storage mk dm_entries] in E.
    now rewrite !map_length, seq_length in E. }
  destruct (Nat.lt_ge_cases n 2) as [L|G]; [left | right; lia].
  rewrite (valid_none n ps L Hv) in El. cbn [length] in El. lia.
Qed.

Lemma abs_in_range st n ps : ok st -> abs st = mk V d n ps -> Forall (valid n) ps -> entries_in_range st.
Proof.
  intros (H1 & H2 & H3 & H4 & H5) E Hv k Hk.
  assert (Es : c_size st = Z.of_nat n) by (apply (f_equal dm_size) in E; exact E).
  apply (f_equal dm_entries) in E. cbn [dm_of_storage mk dm_entries] in E.
  assert (El : Z.to_nat (c_cur st) = length ps) by (apply (f_equal (@length _)) in E; now rewrite !map_length, seq_length in E).
  apply (f_equal (fun l => nth k l (0, 0, vzero))) in E.
  rewrite (ListX.nth_map_seq0 (fun k => (nth k (c_rows st) 0, nth k (c_cols st) 0, nth k (c_vals st) vzero))) in E by exact Hk.
  rewrite (ListX.nth_map_lt (ent V d) ps (0, 0, vzero) (0%nat, 0%nat)) in E by lia.
  assert (Hp : valid n (nth k ps (0%nat, 0%nat))).
  { rewrite Forall_forall in Hv. apply Hv. apply nth_In. lia. }
  unfold ent in E. injection E as E1 E2 _. unfold valid in Hp. rewrite E1, E2, Es. lia.
Qed.

Theorem src_pipeline_is_model : forall (n : nat) (c : Z) (order : list Z),
  order <> [] -> (forall k, In k order -> 0 <= k < c) ->
  src_pipeline n c order = pipeline V vzero d n c order.
Proof.
  intros n c order Hne Hk. unfold src_pipeline, pipeline.
  rewrite (res_map_all_ok _ (fun k => mk V d n (chunk n k c))) by (intros k _; now rewrite compute_chunk_ok).
  destruct (calc_chunks n c order Hk) as (sts & E & F & M). rewrite E. cbn [res_bind].
  assert (Hch : Forall (fun ps => NoDup ps /\ Forall (valid n) ps) (map (fun k => chunk n k c) order)).
  { apply Forall_forall. intros ps Hps. apply in_map_iff in Hps as (k & <- & _). split; [apply chunk_NoDup | apply chunk_valid]. }
  assert (Hroomy : Forall roomy (tl sts)).
  { assert (R : Forall roomy sts).
    { clear E Hne Hk Hch. revert order M. induction F as [|st sts Hst F IH]; intros order M; [constructor|].
      destruct order as [|k order]; [discriminate|]. cbn [map] in M.
      pose proof (f_equal (fun l => hd (abs st) l) M) as M1. pose proof (f_equal (@tl _) M) as M2. cbn [hd tl] in M1, M2.
      constructor; [|now apply (IH order)]. apply (abs_roomy st n (chunk n k c) Hst M1). apply chunk_valid. }
    destruct sts; [constructor | now inversion R]. }
  pose proof (src_concat_is_model V vzero visz visz_zero sts F Hroomy) as L.
  rewrite M, <- (map_map (fun k => chunk n k c) (mk V d n)) in L.
  rewrite <- (map_map (fun k => chunk n k c) (mk V d n)).
  destruct (dm_concat_wf V d n (map (fun k => chunk n k c) order)) as (ps' & Ec & W & _);
    [destruct order; [congruence | discriminate] | exact Hch |].
  rewrite Ec in *. destruct (src_cdm_concat V vzero visz sts) as [st|t]; cbn [storage_refines] in L; [|contradiction].
  destruct L as [L1 L2]. cbn [res_bind]. destruct W as (_ & _ & _ & Wv).
  rewrite src_to_dense_is_model; [now rewrite L2 | exact L1 | exact (abs_in_range st n ps' L1 L2 Wv)].
Qed.
End Pipe.
