(* C08 proofs, part 4: sweep order, export, alpha, conjugate gamma blocks, clipping. *)
From Coq Require Import String.
From Coq Require Import ZArith List QArith Qcanon Lia Arith Bool.
From Batchie Require Import Lib.Num Lib.NumP Generated.Consts Generated.ConstsMcmc Model.Gibbs Model.GibbsSpec Proofs.C08Sums Proofs.C08Gauss Proofs.C08Cache.
Import ListNotations.
Open Scope Qc_scope.

(* ---------------------------------------------------------------- order *)
Theorem order_matches_source :
  map (fun b => (blk_name b, ""%string)) step_order = MCMC_STEP_ORDER.
Proof. reflexivity. Qed.

Theorem order_nodup : NoDup step_order.
Proof. unfold step_order. repeat (constructor; [cbn [In]; intuition discriminate|]). constructor. Qed.

Theorem order_complete : forall b : blk, In b step_order.
Proof. intros b; destruct b; cbn [step_order In]; tauto. Qed.

Theorem order_reconstruct_first : hd_error step_order = Some BReconstruct.
Proof. reflexivity. Qed.

(* ---------------------------------------------------------------- export *)
Lemma predict_row_mu D s c d1 d2 : predict_row D (export s) c d1 d2 = mu_row D s c d1 d2.
Proof.
  unfold predict_row, mu_row, export, ctl_v, ctl_r, get_v, get_r. cbn [sm_W sm_W0 sm_V2 sm_V1 sm_V0 sm_alpha].
  change CONTROL_SENTINEL_VALUE with (-1)%Z.
  assert (H : forall w a b, sumn D (fun k => vnth w k * (vnth a k + vnth b k)) = vdot D w (vadd D a b)).
  { intros w a b. unfold vdot. apply sumn_ext; intros k Hk. unfold vadd. now rewrite vnth_tab by exact Hk. }
  rewrite H. reflexivity.
Qed.

Theorem export_predicts g d s :
  predict_training g d (export s) = reconstruct g d s /\ sm_precision (export s) = prec s.
Proof.
  split; [|reflexivity]. unfold predict_training, reconstruct, tab. apply map_ext. intros i. unfold mu_at. apply predict_row_mu.
Qed.

Corollary export_predicts_cache g d s :
  cache_ok g d s -> predict_training g d (export s) = Mu s /\ sm_precision (export s) = prec s.
Proof. intros H. rewrite H. apply export_predicts. Qed.

(* ---------------------------------------------------------------- alpha *)
Theorem alpha_is_mean d s : nobs d <> 0%nat -> alpha (alpha_step d s) = qmean (d_y d).
Proof. intros H. unfold alpha_step. destruct (nobs d); [congruence|reflexivity]. Qed.

(* ---------------------------------------------------------------- gamma blocks *)
Lemma two_neq0 : 1 + 1 <> 0.
Proof. intros H. apply (f_equal this) in H. vm_compute in H. discriminate H. Qed.
Lemma half_inv : half = / (1 + 1).
Proof. apply Qc_is_canon. reflexivity. Qed.

Lemma qsum_map_vnth (f : Qc -> Qc) l : qsum (map f l) = sumn (length l) (fun i => f (vnth l i)).
Proof.
  induction l as [|x l IH] using rev_ind; [reflexivity|].
  rewrite map_app, qsum_app, app_length. cbn [map length]. rewrite Nat.add_1_r, sumn_S, qsum_single, IH.
  f_equal.
  - apply sumn_ext; intros i Hi. unfold vnth. now rewrite app_nth1 by exact Hi.
  - unfold vnth. now rewrite nth_middle.
Qed.

Section Gamma.
Variable ln : Qc -> Qc.
Variable orc : oracle.
Variable g : cfg.
Variable d : data.

Lemma sse_cache s : ValidData d -> cache_ok g d s ->
  sumn (nobs d) (fun i => qsq (yi d i - vnth (Mu s) i)) = sse g d s.
Proof. intros Hv Hc. unfold sse. apply sumn_ext; intros i Hi. now rewrite (cache_nth g d s i Hv Hc Hi). Qed.

(* observation precision: with data, the draw is Gamma(shape, rate) where (shape - 1, rate) are
   the coefficients of -2 ln(prec) and 2 prec in the energy *)
Theorem gamma_block_prec_obs s a r k :
  ValidData d -> cache_ok g d s -> nobs d <> 0%nat ->
  prog_prec_obs g d orc s = Draw (DGamma a r) k ->
  forall t t', energy ln g d (set_prec s t) - energy ln g d (set_prec s t')
               = - (qofZ 2 * (a - 1) * (ln t - ln t')) + qofZ 2 * r * (t - t').
Proof.
  intros Hv Hc Hn Hp t t'. unfold prog_prec_obs in Hp. destruct (nobs d) as [|n0] eqn:En; [congruence|].
  inversion Hp; subst a r. clear Hp. rewrite <- En, (sse_cache s Hv Hc).
  unfold energy, e_lik, e_hyper, e_gamma.
  change (sse g d (set_prec s t)) with (sse g d s). change (sse g d (set_prec s t')) with (sse g d s).
  change (e_W0 ln g (set_prec s t)) with (e_W0 ln g s). change (e_W0 ln g (set_prec s t')) with (e_W0 ln g s).
  change (e_V0 ln g (set_prec s t)) with (e_V0 ln g s). change (e_V0 ln g (set_prec s t')) with (e_V0 ln g s).
  change (e_W ln g (set_prec s t)) with (e_W ln g s). change (e_W ln g (set_prec s t')) with (e_W ln g s).
  cbn [set_prec prec tau0 gam V2 V1 phi2 phi1 eta2 eta1]. rewrite half_inv, q2_eq. field. exact two_neq0.
Qed.

(* without data the code draws from Gamma(a0, b0): the prior without the jitter, and (see
   prec_unclipped_without_data) stores it unclipped *)
Theorem prec_obs_prior s : nobs d = 0%nat ->
  prog_prec_obs g d orc s = Draw (DGamma (c_a0 g) (c_b0 g)) (fun v => Ret (set_prec s (val_q v))).
Proof. intros H. unfold prog_prec_obs. now rewrite H. Qed.

Theorem gamma_block_tau0 s a r k :
  length (W0 s) = c_ncl g ->
  prog_prec_W0 g d orc s = Draw (DGamma a r) k ->
  forall t t', energy ln g d (set_tau0 s t) - energy ln g d (set_tau0 s t')
               = - (qofZ 2 * (a - 1) * (ln t - ln t')) + qofZ 2 * r * (t - t').
Proof.
  intros Hl Hp t t'. unfold prog_prec_W0 in Hp. inversion Hp; subst a r. clear Hp.
  rewrite qsum_map_vnth, Hl.
  unfold energy, e_W0, e_hyper, e_gamma.
  change (e_lik ln g d (set_tau0 s t)) with (e_lik ln g d s). change (e_lik ln g d (set_tau0 s t')) with (e_lik ln g d s).
  change (e_V0 ln g (set_tau0 s t)) with (e_V0 ln g s). change (e_V0 ln g (set_tau0 s t')) with (e_V0 ln g s).
  change (e_W ln g (set_tau0 s t)) with (e_W ln g s). change (e_W ln g (set_tau0 s t')) with (e_W ln g s).
  cbn [set_tau0 prec tau0 W0 gam V2 V1 phi2 phi1 eta2 eta1]. rewrite half_inv, q2_eq. field. exact two_neq0.
Qed.

(* ---------------------------------------------------------------- clipping *)
Definition in_bounds (lo x : Qc) : Prop := lo <= x /\ x <= prec_hi.

Lemma qclip_bounds lo hi x : lo <= hi -> lo <= qclip lo hi x /\ qclip lo hi x <= hi.
Proof.
  intros H. unfold qclip, qltb. destruct (Qclt_le_dec x lo); [split; [apply Qcle_refl|exact H]|].
  destruct (Qclt_le_dec hi x); [split; [exact H|apply Qcle_refl]|split; assumption].
Qed.

Lemma clipC_bounds k x : clip_lo orc k <= prec_hi -> in_bounds (clip_lo orc k) (clipC orc k x).
Proof. intros H. unfold clipC. now apply qclip_bounds. Qed.

(* the bound of every precision after its own step; the lower bounds 1/sqrt(1+n) must not
   exceed 1e6 for the sqrt the model is run with *)
Definition LoOk : Prop := forall k, clip_lo orc k <= prec_hi.

Theorem clip_tau0 s : LoOk -> all_rets (fun s' => in_bounds (clip_lo orc (nobs d)) (tau0 s')) (prog_prec_W0 g d orc s).
Proof. intros H. unfold prog_prec_W0. cbn [all_rets tau0 set_tau0]. intros v. apply clipC_bounds, H. Qed.

Theorem clip_prec s : LoOk -> nobs d <> 0%nat ->
  all_rets (fun s' => in_bounds (clip_lo orc (nobs d)) (prec s')) (prog_prec_obs g d orc s).
Proof.
  intros H Hn. unfold prog_prec_obs. destruct (nobs d) eqn:En; [congruence|].
  cbn [all_rets prec set_prec]. intros v. apply clipC_bounds, H.
Qed.

Theorem clip_V0 s : LoOk ->
  all_rets (fun s' => in_bounds (clip_lo orc (nobs d)) (eta0 s') /\
                      forall m, (m < c_ndd g)%nat -> in_bounds (clip_lo orc (n_occ d m)) (vnth (phi0 s') m))
           (prog_prec_V0 g d orc s).
Proof.
  intros H. unfold prog_prec_V0. cbn [all_rets eta0 phi0 set_eta0 set_phi0]. intros v1 v2 v3 v4. split.
  - apply clipC_bounds, H.
  - intros m Hm. rewrite vnth_tab by exact Hm. apply clipC_bounds, H.
Qed.

Lemma clip_Vk V phi eta fin (P : st -> Prop) :
  (forall ph et,
      (forall k, (k < c_D g)%nat -> in_bounds (clip_lo orc (nobs d)) (vnth et k)) ->
      (forall m k, (m < c_ndd g)%nat -> (k < c_D g)%nat -> in_bounds (clip_lo orc (n_occ d m)) (vnth (rnth ph m) k)) ->
      P (fin ph et)) ->
  LoOk -> all_rets P (prog_prec_Vk g d orc V phi eta fin).
Proof.
  intros HP H. unfold prog_prec_Vk. cbn [all_rets]. intros v1 v2 v3 v4. apply HP.
  - intros k Hk. rewrite vnth_tab by exact Hk. apply clipC_bounds, H.
  - intros m k Hm Hk. rewrite rnth_tab by exact Hm. rewrite vnth_tab by exact Hk. apply clipC_bounds, H.
Qed.

Theorem clip_V2 s : LoOk ->
  all_rets (fun s' => (forall k, (k < c_D g)%nat -> in_bounds (clip_lo orc (nobs d)) (vnth (eta2 s') k)) /\
                      forall m k, (m < c_ndd g)%nat -> (k < c_D g)%nat -> in_bounds (clip_lo orc (n_occ d m)) (vnth (rnth (phi2 s') m) k))
           (prog_prec_V2 g d orc s).
Proof. intros H. unfold prog_prec_V2. apply clip_Vk; [|exact H]. intros ph et H1 H2. cbn [eta2 phi2 set_eta2 set_phi2]. split; assumption. Qed.

Theorem clip_V1 s : LoOk ->
  all_rets (fun s' => (forall k, (k < c_D g)%nat -> in_bounds (clip_lo orc (nobs d)) (vnth (eta1 s') k)) /\
                      forall m k, (m < c_ndd g)%nat -> (k < c_D g)%nat -> in_bounds (clip_lo orc (n_occ d m)) (vnth (rnth (phi1 s') m) k))
           (prog_prec_V1 g d orc s).
Proof. intros H. unfold prog_prec_V1. apply clip_Vk; [|exact H]. intros ph et H1 H2. cbn [eta1 phi1 set_eta1 set_phi1]. split; assumption. Qed.

Theorem clip_tau s : LoOk ->
  all_rets (fun s' => Forall (in_bounds (clip_lo orc (nobs d))) (tau s')) (prog_prec_W g d orc s).
Proof.
  intros H. unfold prog_prec_W. generalize (seq 0 (c_D g)) as ds. intros ds; revert s.
  induction ds as [|dd r IH]; intros s; cbn [prog_gam all_rets].
  - cbn [tau set_tau]. apply Forall_forall. intros x Hx. apply in_map_iff in Hx as (y & <- & _). apply clipC_bounds, H.
  - intros v. apply IH.
Qed.
End Gamma.

(* with no observation the precision draw is stored as drawn: a value above 1e6 stays *)
Theorem prec_unclipped_without_data :
  exists orc g d s v k, nobs d = 0%nat /\ (exists dr, prog_prec_obs g d orc s = Draw dr k) /\
                        exists s', k v = Ret s' /\ prec_hi < prec s'.
Proof.
  exists (fun _ x => x), wit_cfg, {| d_y := []; d_cl := []; d_dd1 := []; d_dd2 := [] |}, wit_state, (VQ (qofZ 2000000)).
  eexists. split; [reflexivity|]. split; [eexists; reflexivity|]. eexists. split; [reflexivity|].
  cbn [prec set_prec val_q]. unfold Qclt. vm_compute. reflexivity.
Qed.
