(* C20, the DEFINITION side: what each metric is supposed to be, written as plainly as
   possible (explicit sums over indices, loops over zipped rows), independently of the
   vectorised numpy forms transcribed in Model/Metrics.v, Model/Synergy.v, Model/Corr.v.
   Only definitions here; the equalities "model = definition" are proved in the other
   Proofs/C20*.v files and stated in Props/C20.v. *)
From Coq Require Import ZArith List QArith Qcanon.
From Batchie Require Import Lib.Sexp Lib.Num Model.Metrics Model.Synergy Model.Corr.
Import ListNotations.
Open Scope Qc_scope.

Definition qnat (n : nat) : Qc := qofZ (Z.of_nat n).

(* sum_{i < n} g i *)
Definition sum_upto (n : nat) (g : nat -> Qc) : Qc := qsum (map g (seq 0 n)).

(* population variance of g 0 .. g (n-1):  (1/n) sum_i (g i - (1/n) sum_i' g i')^2 *)
Definition var_upto (n : nat) (g : nat -> Qc) : Qc :=
  let mu := sum_upto n g / qnat n in
  sum_upto n (fun i => qsq (g i - mu)) / qnat n.

Section Eval.
Variable P : list (list Qc).   (* predictions, n x m *)
Variable o : list Qc.          (* observations, n *)
Variable chains : list Z.      (* chain id of each posterior sample, m *)
Variable n m : nat.

Definition P_at (i j : nat) : Qc := nth j (nth i P []) 0.
Definition o_at (i : nat) : Qc := nth i o 0.
Definition sq_err (i j : nat) : Qc := qsq (P_at i j - o_at i).

(* mean squared error over all (experiment, posterior sample) pairs *)
Definition mse_def : Qc :=
  sum_upto n (fun i => sum_upto m (fun j => sq_err i j)) / (qnat n * qnat m).

(* mean squared error of experiment i over the posterior samples *)
Definition exp_mse_def (i : nat) : Qc := sum_upto m (fun j => sq_err i j) / qnat m.

(* variance ACROSS EXPERIMENTS of the per-experiment mean squared error *)
Definition mse_variance_def : Qc := var_upto n exp_mse_def.

(* MSE of the posterior samples of chain c over all experiments *)
Definition chain_size (c : Z) : nat := length (filter (Z.eqb c) chains).
Definition chain_mse_def (c : Z) : Qc :=
  sum_upto n (fun i => sum_upto m (fun j => if (c =? nth j chains 0%Z)%Z then sq_err i j else 0))
  / (qnat n * qnat (chain_size c)).

(* variance of the per-chain MSEs over the distinct chain ids *)
Definition inter_chain_def : Qc :=
  let cs := nodup Z.eq_dec chains in
  var_upto (length cs) (fun k => chain_mse_def (nth k cs 0%Z)).

(* average over the posterior samples *)
Definition mean_prediction_def (i : nat) : Qc := sum_upto m (fun j => P_at i j) / qnat m.
End Eval.

(* retrospective.calculate_mse: [pt] has one row per theta (T x n) *)
Definition calculate_mse_def (pt : list (list Qc)) (o : list Qc) (T n : nat) : Qc :=
  sum_upto n (fun i => qsq (sum_upto T (fun th => nth i (nth th pt []) 0) / qnat T - nth i o 0)) / qnat n.

(* ---- single-agent effects and Bliss synergy ---- *)

(* [single_of t row]: t occurs in one column of the row and every other column is control *)
Fixpoint single_of (t : Z) (row : list Z) : bool :=
  match row with
  | [] => false
  | x :: r => ((x =? t)%Z && forallb is_control r) || (is_control x && single_of t r)
  end.

(* exactly one column of the row is not control: a single-agent measurement *)
Fixpoint one_noncontrol (row : list Z) : bool :=
  match row with
  | [] => false
  | x :: r => if is_control x then one_noncontrol r else forallb is_control r
  end.

Definition rows3 (sids : list Z) (tids : list (list Z)) (obs : list Qc) : list (Z * list Z * Qc) :=
  combine (combine sids tids) obs.

Section Effects.
Variable sids : list Z.
Variable tids : list (list Z).
Variable obs : list Qc.

(* sample s's single-agent observations of treatment t, in row order *)
Definition single_obs (s t : Z) : list Qc :=
  flat_map (fun r => if (fst (fst r) =? s)%Z && single_of t (snd (fst r)) then [snd r] else [])
           (rows3 sids tids obs).

(* the single-agent effect: 1 for control, else the mean of those observations, if any *)
Definition single_effect_def (s t : Z) : option Qc :=
  if is_control t then Some 1
  else match single_obs s t with
       | [] => None
       | l => Some (qsum l / qnat (length l))
       end.

(* Bliss synergy, row by row: single-agent rows are not combinations; a combination whose
   columns all have a single-agent effect yields product - observation; otherwise it is
   skipped, or refused in strict mode *)
Fixpoint synergy_rows_def (strict : bool) (rows : list (Z * list Z * Qc))
  : result (list (Z * list Z * Qc)) :=
  match rows with
  | [] => Ok []
  | (s, row, ob) :: rest =>
      if one_noncontrol row then synergy_rows_def strict rest
      else
        let effs := map (single_effect_def s) row in
        if forallb is_some effs then
          dor r <- synergy_rows_def strict rest;
          Ok ((s, filter (fun t => negb (is_control t)) row, qprod (somes effs) - ob) :: r)
        else if strict then Err E_VALUE
        else synergy_rows_def strict rest
  end.

Definition synergy_def (strict : bool) : result (list Z * list (list Z) * list Qc) :=
  dor out <- synergy_rows_def strict (rows3 sids tids obs);
  let idss := map (fun r => snd (fst r)) out in
  if all_same_length idss then Ok (map (fun r => fst (fst r)) out, idss, map snd out)
  else Err E_VALUE.

(* the effect array: entry (i, j) is the effect of (sample_i, id_ij) *)
Definition effect_array_def : result (list (list Qc)) :=
  res_map_all (fun st =>
    res_map_all (fun t => match single_effect_def (fst st) t with Some v => Ok v | None => Err E_KEY end)
                (snd st))
    (combine sids tids).
End Effects.

(* ---- correlation matrix ---- *)
Section CorrDef.
Variable orc : oracle.
Variable P : list (list Qc).   (* average predictions, n_samples x n_combinations *)
Variable n ncols : nat.

Definition Pc (i k : nat) : Qc := nth k (nth i P []) 0.
(* deviation from the across-sample mean at combination k *)
Definition X_def (i k : nat) : Qc := Pc i k - sum_upto n (fun i' => Pc i' k) / qnat n.
Definition S_def (i : nat) : Qc := sum_upto ncols (fun k => qsq (X_def i k)).
Definition corr_entry_def (i j : nat) : option Qc :=
  if qeqb (S_def i) 0 || qeqb (S_def j) 0 then None
  else Some (sum_upto ncols (fun k => X_def i k * X_def j k)
             / (orc ORC_SQRT (S_def i) * orc ORC_SQRT (S_def j))).
End CorrDef.

Definition mat_get {A} (M : list (list (option A))) (i j : nat) : option A :=
  nth j (nth i M []) None.
