(* C14, one piece of Proofs/C14Source.v (conventions and objects: see there): ScreenSubset.to_screen *)
From Coq Require Import ZArith List Bool Arith Lia ZifyBool.
From Batchie Require Import Lib.Sexp Lib.PyRt Model.Encode Model.Screen Model.Views Generated.SrcViews
  Proofs.PyRtLemmas Proofs.C14Lists Proofs.C14Source_Base.
Import ListNotations.
Open Scope Z_scope.

(* Screen(...) receives the parent's six per-row arrays at the selected rows and the parent's control name: that is
   the model's constructor on the selected rows, the parent's arity and control name, no mappings, observations and mask given *)
Theorem src_to_screen_is_model : forall v : view, src_to_screen v = to_screen v.
Proof.
  intros v. unfold src_to_screen, to_screen, view_rows. rewrite res_bind_ok.
  unfold screen_of_arrays, select2, screen_treatment_names, screen_treatment_doses, screen_mask, view_screen.
  cbn [fst snd]. rewrite !select_map, rows_of_arrays_rows. reflexivity.
Qed.
