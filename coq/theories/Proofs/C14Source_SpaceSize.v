(* C14, one piece of Proofs/C14Source.v (conventions and objects: see there): ScreenBase.sample_space_size / treatment_space_size
   on a Screen object and on a ScreenSubset / Plate object (Generated/SrcScreenAttrs.v) *)
From Coq Require Import ZArith List Bool Arith Lia ZifyBool.
From Batchie Require Import Lib.Sexp Lib.PyRt Model.Encode Model.Screen Model.Views Generated.SrcViews Generated.SrcScreenAttrs
  Proofs.PyRtLemmas Proofs.C14Lists.
Import ListNotations.
Open Scope Z_scope.

(* the sizes of the universe: the number of rows of the screen's sample / treatment mapping; a view reports its parent's *)
Theorem src_space_sizes_are_model : forall (s : pyscreen) (v : view),
  src_screen_sample_space_size s = Ok (Z.of_nat (length (s_smap (snd s)))) /\
  src_screen_treatment_space_size s = Ok (Z.of_nat (length (s_tmap (snd s)))) /\
  src_view_sample_space_size v = Ok (Z.of_nat (length (s_smap (v_parent v)))) /\
  src_view_treatment_space_size v = Ok (Z.of_nat (length (s_tmap (v_parent v)))).
Proof.
  intros s v. unfold src_screen_sample_space_size, src_screen_treatment_space_size, src_view_sample_space_size,
    src_view_treatment_space_size, src_screen_sample_mapping, src_screen_treatment_mapping, src_view_sample_mapping,
    src_view_treatment_mapping.
  cbn [res_bind view_screen snd]. now rewrite !map_length.
Qed.
