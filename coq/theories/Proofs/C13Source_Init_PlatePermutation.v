(* C13: PlatePermutationPlateGenerator.__init__ (Generated/SrcInits.v) stores its arguments: the attributes the translated methods of the class read
   (`self.<attr>` = the model parameter of their links) are the values the object was constructed with - force_include_plate_names (None when the argument is not passed) *)
From Coq Require Import ZArith List Bool.
From Batchie Require Import Lib.Sexp Lib.PyRt Model.Encode Generated.SrcInits.
Import ListNotations.
Open Scope Z_scope.

Theorem src_plate_permutation_init_stores : forall force : option (list name), src_plate_permutation_init force = Ok force.
Proof. reflexivity. Qed.
