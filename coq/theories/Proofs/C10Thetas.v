(* C10 lemmas, part 2: holders, persistence, concatenation, chain labelling. *)
From Coq Require Import ZArith List Bool Lia ZifyBool Permutation Sorted Decimal DecimalNat.
From Batchie Require Import Lib.Sexp Model.Thetas Proofs.C10Sort.
Import ListNotations.
Open Scope Z_scope.

Lemma res_map_all_id {A} (f : A -> result A) l :
  (forall x, In x l -> f x = Ok x) -> res_map_all f l = Ok l.
Proof.
  induction l as [|a r IH]; intros H; cbn [res_map_all]; [reflexivity|].
  rewrite (H a (or_introl eq_refl)). cbn [res_bind]. rewrite IH; [reflexivity|].
  intros x Hx. apply H. now right.
Qed.

Lemma res_map_all_ext {A B} (f : A -> result B) (g : A -> B) l :
  (forall x, In x l -> f x = Ok (g x)) -> res_map_all f l = Ok (map g l).
Proof.
  induction l as [|a r IH]; intros H; cbn [res_map_all map]; [reflexivity|].
  rewrite (H a (or_introl eq_refl)). cbn [res_bind]. rewrite IH; [reflexivity|].
  intros x Hx. apply H. now right.
Qed.

(* `theta P S` and `P * S` are convertible but different atoms for lia *)
Ltac tlia := unfold Thetas.theta in *; lia.

Section Thetas.
Variables P Sh : Type.
Notation theta := (theta P Sh).
Notation holder := (holder P Sh).

Definition hlen (h : holder) : Z := Z.of_nat (length (h_thetas h)).
(* the invariant add_theta maintains *)
Definition within_declared (h : holder) : Prop := hlen h <= h_declared h.
Definition complete (h : holder) : Prop := hlen h = h_declared h.
Definition shared_uniform (h : holder) : Prop :=
  forall t u, In t (h_thetas h) -> In u (h_thetas h) -> snd t = snd u.

(* what save/load does to the samples: shared parameters of sample 0 for everybody *)
Definition normalize (h : holder) : holder :=
  match h_thetas h with
  | [] => h
  | t0 :: _ => {| h_declared := h_declared h; h_thetas := map (fun t => (fst t, snd t0)) (h_thetas h) |}
  end.

Lemma holder_eta (h : holder) : {| h_declared := h_declared h; h_thetas := h_thetas h |} = h.
Proof. now destruct h. Qed.

(* ---- add / get ---------------------------------------------------------------------- *)

Lemma add_beyond_declared_refused (h : holder) t :
  h_declared h <= hlen h -> add_theta P Sh h t = Err 1.
Proof. unfold add_theta, hlen. intros H. destruct (_ >=? _) eqn:E; [reflexivity|tlia]. Qed.

Lemma add_within_declared (h : holder) t :
  hlen h < h_declared h ->
  add_theta P Sh h t = Ok {| h_declared := h_declared h; h_thetas := h_thetas h ++ [t] |}.
Proof. unfold add_theta, hlen. intros H. destruct (_ >=? _) eqn:E; [tlia|reflexivity]. Qed.

Lemma add_preserves_within (h h' : holder) t :
  add_theta P Sh h t = Ok h' -> within_declared h'.
Proof.
  unfold add_theta, within_declared, hlen. destruct (_ >=? _) eqn:E; [discriminate|].
  intros [= <-]. cbn [h_declared h_thetas]. rewrite app_length. cbn [length]. tlia.
Qed.

Lemma get_out_of_range_refused (h : holder) i :
  i < 0 \/ hlen h <= i -> get_theta P Sh h i = Err 2.
Proof.
  unfold get_theta, hlen. intros H.
  destruct ((i >? Z.of_nat (length (h_thetas h)) - 1) || (i <? 0)) eqn:E; [reflexivity|tlia].
Qed.

Lemma get_in_range (h : holder) (i : nat) t :
  nth_error (h_thetas h) i = Some t -> get_theta P Sh h (Z.of_nat i) = Ok t.
Proof.
  intros H. unfold get_theta.
  assert (Hi : (i < length (h_thetas h))%nat) by (apply nth_error_Some; congruence).
  destruct ((Z.of_nat i >? Z.of_nat (length (h_thetas h)) - 1) || (Z.of_nat i <? 0)) eqn:E; [tlia|].
  rewrite Nat2Z.id, H. reflexivity.
Qed.

Lemma get_ok_inv (h : holder) i t :
  get_theta P Sh h i = Ok t -> 0 <= i < hlen h /\ nth_error (h_thetas h) (Z.to_nat i) = Some t.
Proof.
  unfold get_theta, hlen.
  destruct ((i >? Z.of_nat (length (h_thetas h)) - 1) || (i <? 0)) eqn:E; [discriminate|].
  destruct (nth_error (h_thetas h) (Z.to_nat i)) eqn:N; [|discriminate].
  intros [= ->]. split; [tlia|reflexivity].
Qed.

(* ---- add_all ------------------------------------------------------------------------ *)

Lemma add_all_ok ts : forall h : holder,
  Z.of_nat (length (h_thetas h) + length ts) <= h_declared h ->
  add_all P Sh h ts = Ok {| h_declared := h_declared h; h_thetas := h_thetas h ++ ts |}.
Proof.
  induction ts as [|t r IH]; intros h H; cbn [add_all].
  - rewrite app_nil_r, holder_eta. reflexivity.
  - cbn [length] in H. rewrite add_within_declared by (unfold hlen; tlia). cbn [res_bind].
    rewrite IH; cbn [h_declared h_thetas].
    + rewrite <- app_assoc. reflexivity.
    + rewrite app_length. cbn [length]. tlia.
Qed.

Lemma add_all_err ts : forall h : holder,
  ts <> [] -> Z.of_nat (length (h_thetas h) + length ts) > h_declared h ->
  add_all P Sh h ts = Err 1.
Proof.
  induction ts as [|t r IH]; intros h Hne H; [congruence|]. cbn [add_all].
  destruct (Z_lt_le_dec (hlen h) (h_declared h)) as [Hlt|Hge].
  - rewrite add_within_declared by exact Hlt. cbn [res_bind].
    destruct r as [|t' r'].
    + cbn [length] in H. unfold hlen in Hlt. tlia.
    + apply IH; [discriminate|]. cbn [h_declared h_thetas]. rewrite app_length. cbn [length] in *. tlia.
  - rewrite add_beyond_declared_refused by exact Hge. reflexivity.
Qed.

(* ---- the file ----------------------------------------------------------------------- *)

Definition groups_from (s : nat) (ts : list theta) : list (Decimal.uint * P) :=
  map (fun it => (key_of_index (fst it), fst (snd it))) (combine (seq s (length ts)) ts).

Lemma groups_from_cons s t r : groups_from s (t :: r) = (key_of_index s, fst t) :: groups_from (S s) r.
Proof. reflexivity. Qed.

Lemma groups_from_numkeys ts : forall s,
  map (fun g => index_of_key (fst g)) (groups_from s ts) = seq s (length ts).
Proof.
  induction ts as [|t r IH]; intros s; [reflexivity|].
  rewrite groups_from_cons. cbn [map length seq fst]. now rewrite index_of_key_of_index, IH.
Qed.

Lemma groups_from_keys ts : forall s,
  map fst (groups_from s ts) = map key_of_index (seq s (length ts)).
Proof.
  induction ts as [|t r IH]; intros s; [reflexivity|].
  rewrite groups_from_cons. cbn [map length seq fst]. now rewrite IH.
Qed.

Lemma groups_from_values ts (sh : Sh) : forall s,
  map (fun g => (snd g, sh)) (groups_from s ts) = map (fun t => (fst t, sh)) ts.
Proof.
  induction ts as [|t r IH]; intros s; [reflexivity|].
  rewrite groups_from_cons. cbn [map snd]. now rewrite IH.
Qed.

Lemma save_groups (h : holder) f :
  save P Sh h = Ok f -> f_groups f = lexsort P (groups_from 0 (h_thetas h)).
Proof.
  unfold save. destruct (h_thetas h) as [|t0 r] eqn:E; [discriminate|]. intros [= <-]. reflexivity.
Qed.

(* sorted(keys, key=int) undoes ANY iteration order of the groups save_h5 wrote *)
Lemma numsort_restores ts gs :
  Permutation gs (groups_from 0 ts) -> numsort P gs = groups_from 0 ts.
Proof.
  intros Hp. unfold numsort. apply sort_by_restores.
  - eapply keys_seq_sorted. apply groups_from_numkeys.
  - rewrite groups_from_numkeys. apply seq_NoDup.
  - exact Hp.
Qed.

Lemma save_empty_refused (h : holder) : h_thetas h = [] -> save P Sh h = Err 4.
Proof. unfold save. now intros ->. Qed.

Lemma load_of_groups n (sh : Sh) ts gs :
  Permutation gs (groups_from 0 ts) ->
  load P Sh {| f_n := n; f_shared := sh; f_groups := gs |}
  = add_all P Sh (empty_holder P Sh n) (map (fun t => (fst t, sh)) ts).
Proof.
  intros Hp. unfold load. cbn [f_n f_shared f_groups].
  rewrite (numsort_restores ts gs Hp), groups_from_values. reflexivity.
Qed.

(* complete description of save followed by load *)
Lemma save_load_nonempty (h : holder) t0 r :
  h_thetas h = t0 :: r ->
  save_load P Sh h
  = add_all P Sh (empty_holder P Sh (h_declared h)) (map (fun t => (fst t, snd t0)) (h_thetas h)).
Proof.
  intros E. unfold save_load, save. rewrite E. cbn [res_bind]. rewrite <- E.
  apply load_of_groups. apply sort_by_perm.
Qed.

Lemma save_load_general (h : holder) :
  h_thetas h <> [] -> within_declared h -> save_load P Sh h = Ok (normalize h).
Proof.
  intros Hne Hw. destruct (h_thetas h) as [|t0 r] eqn:E; [congruence|].
  rewrite (save_load_nonempty h t0 r E). unfold normalize. rewrite E. rewrite <- E.
  rewrite add_all_ok; cbn [empty_holder h_declared h_thetas app]; [reflexivity|].
  rewrite map_length. unfold within_declared, hlen in Hw. cbn [length Nat.add]. tlia.
Qed.

Lemma save_load_general_explicit (h : holder) t0 r :
  h_thetas h = t0 :: r -> hlen h <= h_declared h ->
  save_load P Sh h
  = Ok {| h_declared := h_declared h; h_thetas := map (fun t => (fst t, snd t0)) (h_thetas h) |}.
Proof.
  intros E Hw. rewrite save_load_general; [|rewrite E; discriminate|exact Hw].
  unfold normalize. now rewrite E.
Qed.

Lemma save_load_overfull (h : holder) :
  h_thetas h <> [] -> hlen h > h_declared h -> save_load P Sh h = Err 1.
Proof.
  intros Hne Hw. destruct (h_thetas h) as [|t0 r] eqn:E; [congruence|].
  rewrite (save_load_nonempty h t0 r E).
  apply add_all_err.
  - rewrite E. discriminate.
  - cbn [empty_holder h_declared h_thetas length]. rewrite map_length. unfold hlen in Hw. tlia.
Qed.

Lemma save_load_empty (h : holder) : h_thetas h = [] -> save_load P Sh h = Err 4.
Proof. intros E. unfold save_load. now rewrite save_empty_refused. Qed.

Lemma normalize_uniform (h : holder) : shared_uniform h -> normalize h = h.
Proof.
  intros Hu. unfold normalize. destruct (h_thetas h) as [|t0 r] eqn:E; [reflexivity|].
  rewrite <- (holder_eta h) at 2. f_equal. rewrite E.
  rewrite <- (map_id (t0 :: r)) at 2. apply map_ext_in. intros t Ht.
  rewrite (surjective_pairing t) at 2. f_equal. symmetry. apply Hu; rewrite E; [exact Ht | now left].
Qed.

Lemma normalize_is_uniform (h : holder) : h_thetas h <> [] -> shared_uniform (normalize h).
Proof.
  intros Hne. unfold normalize, shared_uniform. destruct (h_thetas h) as [|t0 r] eqn:E; [congruence|].
  cbn [h_thetas]. intros t u Ht Hu. apply in_map_iff in Ht as [t' [<- _]]. apply in_map_iff in Hu as [u' [<- _]].
  reflexivity.
Qed.

Lemma normalize_thetas_length (h : holder) : length (h_thetas (normalize h)) = length (h_thetas h).
Proof. unfold normalize. destruct (h_thetas h) eqn:E; [now rewrite E|]. cbn [h_thetas]. now rewrite map_length. Qed.

Lemma normalize_declared (h : holder) : h_declared (normalize h) = h_declared h.
Proof. unfold normalize. now destruct (h_thetas h). Qed.

Theorem load_save (h : holder) :
  h_thetas h <> [] -> within_declared h -> shared_uniform h -> save_load P Sh h = Ok h.
Proof. intros Hne Hw Hu. rewrite save_load_general by assumption. now rewrite normalize_uniform. Qed.

Theorem load_save_complete (n : nat) (ts : list theta) :
  (1 <= n)%nat -> length ts = n -> (forall t u, In t ts -> In u ts -> snd t = snd u) ->
  save_load P Sh {| h_declared := Z.of_nat n; h_thetas := ts |} = Ok {| h_declared := Z.of_nat n; h_thetas := ts |}.
Proof.
  intros Hn Hl Hu. apply load_save.
  - cbn [h_thetas]. destruct ts; [cbn in Hl; tlia | discriminate].
  - unfold within_declared, hlen. cbn [h_thetas h_declared]. tlia.
  - exact Hu.
Qed.

Lemma save_load_ok_inv (h h' : holder) :
  save_load P Sh h = Ok h' -> h_thetas h <> [] /\ within_declared h /\ h' = normalize h.
Proof.
  intros H. destruct (h_thetas h) as [|t0 r] eqn:E.
  - rewrite save_load_empty in H by exact E. discriminate.
  - assert (Hne : h_thetas h <> []) by (rewrite E; discriminate).
    destruct (Z_le_gt_dec (hlen h) (h_declared h)) as [Hw|Hw].
    + rewrite save_load_general in H by assumption. injection H as <-. rewrite <- E. auto.
    + rewrite save_load_overfull in H by assumption. discriminate.
Qed.

Theorem save_load_fixed_point (h h' : holder) :
  save_load P Sh h = Ok h' -> save_load P Sh h' = Ok h'.
Proof.
  intros H. apply save_load_ok_inv in H as (Hne & Hw & ->).
  apply load_save.
  - intros E. apply Hne. apply length_zero_iff_nil. rewrite <- normalize_thetas_length, E. reflexivity.
  - unfold within_declared, hlen in *. now rewrite normalize_thetas_length, normalize_declared.
  - apply normalize_is_uniform, Hne.
Qed.

Theorem file_keys (h : holder) f :
  save P Sh h = Ok f ->
  Permutation (map fst (f_groups f)) (map key_of_index (seq 0 (length (h_thetas h)))).
Proof.
  intros H. rewrite (save_groups h f H), <- groups_from_keys.
  apply Permutation_map. apply sort_by_perm.
Qed.

(* the statement about sorting on its own, for plain values *)
Theorem numeric_sort_restores_order (xs : list P) (gs : list (Decimal.uint * P)) :
  Permutation gs (map (fun it => (key_of_index (fst it), snd it)) (combine (seq 0 (length xs)) xs)) ->
  map snd (numsort P gs) = xs.
Proof.
  intros Hp.
  assert (G : forall (l : list P) s, StronglySorted (le_key (fun g : Decimal.uint * P => index_of_key (fst g)))
               (map (fun it => (key_of_index (fst it), snd it)) (combine (seq s (length l)) l))
             /\ map (fun g : Decimal.uint * P => index_of_key (fst g))
                  (map (fun it => (key_of_index (fst it), snd it)) (combine (seq s (length l)) l)) = seq s (length l)
             /\ map snd (map (fun it : nat * P => (key_of_index (fst it), snd it)) (combine (seq s (length l)) l)) = l).
  { intros l s.
    assert (K : map (fun g : Decimal.uint * P => index_of_key (fst g))
                  (map (fun it => (key_of_index (fst it), snd it)) (combine (seq s (length l)) l)) = seq s (length l)).
    { revert s. induction l as [|x r IH]; intros s; [reflexivity|].
      cbn [length seq combine map fst]. now rewrite index_of_key_of_index, IH. }
    split; [eapply keys_seq_sorted, K|]. split; [exact K|].
    clear K. revert s. induction l as [|x r IH]; intros s; [reflexivity|].
    cbn [length seq combine map snd]. now rewrite IH. }
  destruct (G xs 0%nat) as (Hs & Hk & Hv).
  unfold numsort. rewrite (sort_by_restores _ _ gs Hs); [exact Hv | | exact Hp].
  rewrite Hk. apply seq_NoDup.
Qed.

(* ---- concat ------------------------------------------------------------------------- *)

Definition total_declared (hs : list holder) : Z := fold_right Z.add 0 (map h_declared hs).
Definition all_thetas (hs : list holder) : list theta := concat (map h_thetas hs).

Lemma fold_combine (r : list holder) : forall h,
  fold_left (combine_holders P Sh) r h
  = {| h_declared := h_declared h + total_declared r; h_thetas := h_thetas h ++ all_thetas r |}.
Proof.
  induction r as [|a r IH]; intros h; cbn [fold_left].
  - unfold total_declared, all_thetas. cbn. rewrite Z.add_0_r, app_nil_r, holder_eta. reflexivity.
  - rewrite IH. unfold combine_holders, total_declared, all_thetas. cbn [h_declared h_thetas map fold_right concat].
    f_equal; [tlia | now rewrite app_assoc].
Qed.

Theorem concat_chain_major (hs : list holder) :
  hs <> [] ->
  concat_holders P Sh hs = Ok {| h_declared := total_declared hs; h_thetas := all_thetas hs |}.
Proof.
  intros Hne. destruct hs as [|h r]; [congruence|]. unfold concat_holders.
  destruct r as [|h2 r].
  - unfold total_declared, all_thetas. cbn. rewrite Z.add_0_r, app_nil_r, holder_eta. reflexivity.
  - rewrite fold_combine. reflexivity.
Qed.

Lemma concat_nothing_refused : concat_holders P Sh [] = Err 3.
Proof. reflexivity. Qed.

(* ---- chain ids ---------------------------------------------------------------------- *)

Definition chain_ids_from (s : nat) (hs : list holder) : list Z :=
  concat (map (fun ih => repeat (Z.of_nat (fst ih)) (Z.to_nat (h_declared (snd ih)))) (combine (seq s (length hs)) hs)).
(* the intended labelling: every sample paired with the number of the holder it sits in *)
Definition labelled_from (s : nat) (hs : list holder) : list (Z * theta) :=
  concat (map (fun ih => map (pair (Z.of_nat (fst ih))) (h_thetas (snd ih))) (combine (seq s (length hs)) hs)).
Definition labelled := labelled_from 0.

Lemma chain_ids_is_from hs : chain_ids P Sh hs = chain_ids_from 0 hs.
Proof. reflexivity. Qed.

Lemma combine_repeat_app {A B} (a : A) (l : list B) xs ys :
  combine (repeat a (length l) ++ xs) (l ++ ys) = map (pair a) l ++ combine xs ys.
Proof. induction l as [|b r IH]; cbn; [reflexivity | now rewrite IH]. Qed.

Lemma aligned_from hs : forall s,
  (forall h, In h hs -> complete h) ->
  combine (chain_ids_from s hs) (all_thetas hs) = labelled_from s hs.
Proof.
  induction hs as [|h r IH]; intros s Hc; [reflexivity|].
  unfold chain_ids_from, all_thetas, labelled_from in *.
  cbn [length seq combine map concat fst snd].
  assert (Hh : Z.to_nat (h_declared h) = length (h_thetas h)).
  { specialize (Hc h (or_introl eq_refl)). unfold complete, hlen in Hc. tlia. }
  rewrite Hh, combine_repeat_app. f_equal. apply IH. intros h' Hin. apply Hc. now right.
Qed.

Theorem chain_ids_aligned hs :
  (forall h, In h hs -> complete h) ->
  combine (chain_ids P Sh hs) (all_thetas hs) = labelled hs.
Proof. intros Hc. rewrite chain_ids_is_from. now apply aligned_from. Qed.

Lemma chain_ids_from_length hs : forall s,
  (forall h, In h hs -> complete h) -> length (chain_ids_from s hs) = length (all_thetas hs).
Proof.
  induction hs as [|h r IH]; intros s Hc; [reflexivity|].
  unfold chain_ids_from, all_thetas in *. cbn [length seq combine map concat fst snd].
  rewrite !app_length, repeat_length, (IH (Datatypes.S s)) by (intros h' Hin; apply Hc; now right).
  specialize (Hc h (or_introl eq_refl)). unfold complete, hlen in Hc. tlia.
Qed.

(* position form: position p of the concatenation lies in holder number chain_ids[p] *)
Lemma position_from hs : forall s p,
  (forall h, In h hs -> complete h) -> (p < length (all_thetas hs))%nat ->
  exists c h off,
    nth_error (chain_ids_from s hs) p = Some (Z.of_nat (s + c)) /\
    nth_error hs c = Some h /\
    p = (length (all_thetas (firstn c hs)) + off)%nat /\
    (off < length (h_thetas h))%nat /\
    nth_error (all_thetas hs) p = nth_error (h_thetas h) off.
Proof.
  induction hs as [|h r IH]; intros s p Hc Hp; [cbn in Hp; tlia|].
  assert (Hh : Z.to_nat (h_declared h) = length (h_thetas h)).
  { specialize (Hc h (or_introl eq_refl)). unfold complete, hlen in Hc. tlia. }
  unfold chain_ids_from, all_thetas in *. cbn [length seq combine map concat fst snd] in *.
  rewrite Hh. destruct (Nat.lt_ge_cases p (length (h_thetas h))) as [Hlt|Hge].
  - exists 0%nat, h, p. repeat split.
    + rewrite nth_error_app1 by (now rewrite repeat_length). rewrite Nat.add_0_r.
      apply nth_error_repeat. exact Hlt.
    + exact Hlt.
    + now rewrite nth_error_app1.
  - rewrite app_length in Hp.
    destruct (IH (Datatypes.S s) (p - length (h_thetas h))%nat) as (c & h' & off & H1 & H2 & H3 & H4 & H5).
    + intros h' Hin. apply Hc. now right.
    + tlia.
    + exists (Datatypes.S c), h', off. repeat split.
      * rewrite nth_error_app2 by (rewrite repeat_length; tlia). rewrite repeat_length, H1. f_equal. tlia.
      * exact H2.
      * cbn [firstn map concat]. rewrite app_length. tlia.
      * exact H4.
      * rewrite nth_error_app2 by tlia. exact H5.
Qed.

Theorem chain_ids_position hs p :
  (forall h, In h hs -> complete h) -> (p < length (all_thetas hs))%nat ->
  exists c h off,
    nth_error (chain_ids P Sh hs) p = Some (Z.of_nat c) /\
    nth_error hs c = Some h /\
    p = (length (all_thetas (firstn c hs)) + off)%nat /\
    (off < length (h_thetas h))%nat /\
    nth_error (all_thetas hs) p = nth_error (h_thetas h) off.
Proof. intros Hc Hp. rewrite chain_ids_is_from. exact (position_from hs 0 p Hc Hp). Qed.

(* ---- evaluate ----------------------------------------------------------------------- *)

Lemma get_all (h : holder) m : forall s,
  (s + m <= length (h_thetas h))%nat ->
  res_map_all (fun k => get_theta P Sh h (Z.of_nat k)) (seq s m) = Ok (firstn m (skipn s (h_thetas h))).
Proof.
  induction m as [|m IH]; intros s H; cbn [seq res_map_all]; [reflexivity|].
  destruct (nth_error (h_thetas h) s) as [t|] eqn:N; [|apply nth_error_None in N; tlia].
  rewrite (get_in_range h s t N). cbn [res_bind]. rewrite IH by tlia. cbn [res_bind].
  f_equal. clear IH H. revert s N. generalize (h_thetas h). intros l.
  induction l as [|a l IHl]; intros [|s] N; cbn in *; try discriminate.
  - now injection N as ->.
  - now apply IHl.
Qed.

Lemma get_all_err (h : holder) m : forall s,
  (s <= length (h_thetas h))%nat -> (s + m > length (h_thetas h))%nat ->
  res_map_all (fun k => get_theta P Sh h (Z.of_nat k)) (seq s m) = Err 2.
Proof.
  induction m as [|m IH]; intros s Hs H; [tlia|]. cbn [seq res_map_all].
  destruct (Nat.lt_ge_cases s (length (h_thetas h))) as [Hlt|Hge].
  - destruct (nth_error (h_thetas h) s) as [t|] eqn:N; [|apply nth_error_None in N; tlia].
    rewrite (get_in_range h s t N). cbn [res_bind]. rewrite IH by tlia. reflexivity.
  - rewrite get_out_of_range_refused by (unfold hlen; tlia). reflexivity.
Qed.

Lemma lengths_sum (hs : list holder) :
  (forall h, In h hs -> within_declared h) ->
  Z.of_nat (length (all_thetas hs)) <= total_declared hs /\
  (total_declared hs <= Z.of_nat (length (all_thetas hs)) -> forall h, In h hs -> complete h).
Proof.
  induction hs as [|h r IH]; intros Hw.
  - split; [cbn; tlia | intros _ h []].
  - unfold all_thetas, total_declared in *. cbn [map concat fold_right]. rewrite app_length.
    assert (Hh := Hw h (or_introl eq_refl)). unfold within_declared, hlen in Hh.
    destruct IH as [I1 I2]; [intros h' Hin; apply Hw; now right|].
    split; [tlia|]. intros Hge h' [<-|Hin].
    + unfold complete, hlen. tlia.
    + apply I2; [tlia | exact Hin].
Qed.

Lemma evaluate_complete_raw hs :
  hs <> [] -> (forall h, In h hs -> complete h) -> evaluate P Sh hs = Ok (labelled hs).
Proof.
  intros Hne Hc. unfold evaluate. rewrite concat_chain_major by exact Hne. cbn [res_bind h_declared h_thetas].
  assert (Hlen : Z.to_nat (total_declared hs) = length (all_thetas hs)).
  { destruct (lengths_sum hs) as [H1 _]; [intros h Hin; specialize (Hc h Hin); unfold complete, within_declared in *; tlia|].
    clear Hne. induction hs as [|h r IH]; [reflexivity|].
    unfold total_declared, all_thetas in *. cbn [map concat fold_right] in *. rewrite app_length in *.
    assert (Hh := Hc h (or_introl eq_refl)). unfold complete, hlen in Hh.
    assert (Hr : Z.to_nat (fold_right Z.add 0 (map h_declared r)) = length (concat (map h_thetas r))).
    { apply IH; [intros h' Hin; apply Hc; now right|].
      destruct (lengths_sum r) as [H _]; [|exact H].
      intros h' Hin. specialize (Hc h' (or_intror Hin)). unfold complete, within_declared in *. tlia. }
    tlia. }
  rewrite Hlen, get_all by (cbn [h_thetas]; tlia). cbn [res_bind h_thetas skipn].
  rewrite firstn_all, chain_ids_is_from, chain_ids_from_length, Nat.eqb_refl by exact Hc. cbn [negb].
  now rewrite aligned_from.
Qed.

(* whenever the pipeline succeeds on holders that respect their declared size, the labels are right *)
Theorem evaluate_labels hs l :
  (forall h, In h hs -> within_declared h) -> evaluate P Sh hs = Ok l -> l = labelled hs.
Proof.
  intros Hw H.
  destruct hs as [|h0 r0] eqn:Ehs; [discriminate|]. rewrite <- Ehs in *.
  assert (Hne : hs <> []) by (rewrite Ehs; discriminate).
  destruct (lengths_sum hs Hw) as [H1 H2].
  destruct (Z_le_gt_dec (total_declared hs) (Z.of_nat (length (all_thetas hs)))) as [Hle|Hgt].
  - rewrite evaluate_complete_raw in H; [now injection H | exact Hne | now apply H2].
  - exfalso. unfold evaluate in H. rewrite concat_chain_major in H by exact Hne.
    cbn [res_bind h_declared h_thetas] in H.
    rewrite get_all_err in H by (cbn [h_thetas]; tlia). discriminate.
Qed.

Theorem evaluate_partial_refused hs h :
  (forall h, In h hs -> within_declared h) -> In h hs -> hlen h < h_declared h ->
  evaluate P Sh hs = Err 2.
Proof.
  intros Hw Hin Hp.
  assert (Hne : hs <> []) by (intros ->; contradiction).
  destruct (lengths_sum hs Hw) as [H1 H2].
  destruct (Z_le_gt_dec (total_declared hs) (Z.of_nat (length (all_thetas hs)))) as [Hle|Hgt].
  - specialize (H2 Hle h Hin). unfold complete in H2. tlia.
  - unfold evaluate. rewrite concat_chain_major by exact Hne. cbn [res_bind h_declared h_thetas].
    rewrite get_all_err by (cbn [h_thetas]; tlia). reflexivity.
Qed.

Lemma normalize_complete (h : holder) : complete h -> complete (normalize h).
Proof. unfold complete, hlen. now rewrite normalize_thetas_length, normalize_declared. Qed.

Theorem evaluate_files_complete hs :
  hs <> [] -> (forall h, In h hs -> complete h /\ h_thetas h <> []) ->
  evaluate_files P Sh hs = Ok (labelled (map normalize hs)).
Proof.
  intros Hne Hc. unfold evaluate_files.
  rewrite (res_map_all_ext (save_load P Sh) normalize).
  - cbn [res_bind]. apply evaluate_complete_raw.
    + destruct hs; [congruence|discriminate].
    + intros h Hin. apply in_map_iff in Hin as [h' [<- Hin']]. apply normalize_complete, Hc, Hin'.
  - intros h Hin. destruct (Hc h Hin) as [Hcomp Hnn]. apply save_load_general; [exact Hnn|].
    unfold complete, within_declared in *. tlia.
Qed.

Lemma map_normalize_uniform hs : (forall h, In h hs -> shared_uniform h) -> map normalize hs = hs.
Proof.
  intros Hu. rewrite <- (map_id hs) at 2. apply map_ext_in. intros h Hin. apply normalize_uniform, Hu, Hin.
Qed.

Theorem evaluate_files_complete_uniform hs :
  hs <> [] -> (forall h, In h hs -> complete h /\ h_thetas h <> [] /\ shared_uniform h) ->
  evaluate_files P Sh hs = Ok (labelled hs).
Proof.
  intros Hne Hc. rewrite evaluate_files_complete.
  - rewrite map_normalize_uniform; [reflexivity|]. intros h Hin. apply Hc, Hin.
  - exact Hne.
  - intros h Hin. destruct (Hc h Hin) as (A & B & _). now split.
Qed.

End Thetas.
