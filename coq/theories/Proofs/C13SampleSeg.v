(* C13: SampleSegregating generator, repaired logic: one sample per generated plate, at most max
   experiments per plate.  (The code as found is refuted in Props/C13.v.) *)
From Coq Require Import ZArith List Bool Arith Lia Permutation.
From Batchie Require Import Lib.Sexp Lib.ListX Model.Encode Model.Screen Model.Retro Model.Pairwise
  Proofs.C11Lib Proofs.C11Gen Proofs.C11Select Proofs.C11Holdout Proofs.C13Wrap.
Import ListNotations.
Open Scope nat_scope.

(* ---------- generated names are distinct ---------- *)
Definition dval (l : list Z) : Z := fold_left (fun a d => (10 * a + (d - 48))%Z) l 0%Z.

Lemma dval_snoc : forall l d, dval (l ++ [d]) = (10 * dval l + (d - 48))%Z.
Proof. intros. unfold dval. now rewrite fold_left_app. Qed.

Lemma dec_fuel_spec : forall f n acc, n < f ->
  exists digs, dec_fuel f n acc = digs ++ acc /\ dval digs = Z.of_nat n.
Proof.
  induction f as [|f IH]; intros n acc Hn; [lia|]. cbn [dec_fuel].
  pose proof (Nat.div_mod n 10 ltac:(lia)) as Hdm.
  pose proof (Nat.mod_upper_bound n 10 ltac:(lia)) as Hm.
  destruct (n / 10 =? 0) eqn:E.
  - apply Nat.eqb_eq in E. exists [(48 + Z.of_nat (n mod 10))%Z]. split; [reflexivity|].
    unfold dval. cbn [fold_left]. lia.
  - apply Nat.eqb_neq in E.
    destruct (IH (n / 10) ((48 + Z.of_nat (n mod 10))%Z :: acc)) as (digs & Hd & Hv); [lia|].
    exists (digs ++ [(48 + Z.of_nat (n mod 10))%Z]). split.
    + rewrite Hd, <- app_assoc. reflexivity.
    + rewrite dval_snoc, Hv. lia.
Qed.

Lemma decimal_inj : forall a b, decimal a = decimal b -> a = b.
Proof.
  intros a b H. unfold decimal in H.
  destruct (dec_fuel_spec (S a) a [] ltac:(lia)) as (da & Ha & Va).
  destruct (dec_fuel_spec (S b) b [] ltac:(lia)) as (db & Hb & Vb).
  rewrite Ha, Hb, !app_nil_r in H. subst db. lia.
Qed.

Lemma gen_name_inj : forall a b, gen_name a = gen_name b -> a = b.
Proof. intros a b H. unfold gen_name in H. apply app_inv_head in H. now apply decimal_inj. Qed.
Lemma gen_name_not_nil : forall a, gen_name a <> [].
Proof. intros a. unfold gen_name, gen_prefix. discriminate. Qed.

(* ---------- np.array_split ---------- *)
Lemma split_start_mono : forall q r k, split_start q r k <= split_start q r (S k).
Proof. intros. unfold split_start. lia. Qed.

Lemma array_split_concat {A} : forall (l : list A) n, 0 < n -> concat (array_split l n) = l.
Proof.
  intros l n Hn. unfold array_split.
  rewrite (concat_slices l (split_start (length l / n) (length l mod n)) (split_start_mono _ _) n 0).
  pose proof (Nat.div_mod (length l) n ltac:(lia)) as Hdm.
  pose proof (Nat.mod_upper_bound (length l) n ltac:(lia)) as Hm.
  unfold split_start. cbn [Nat.add Nat.mul Nat.min skipn]. rewrite Nat.sub_0_r.
  apply firstn_all2. rewrite Nat.min_r by lia. lia.
Qed.

Lemma array_split_chunk {A} : forall (l : list A) n c, In c (array_split l n) ->
  (forall x, In x c -> In x l) /\
  length c <= length l / n + (if length l mod n =? 0 then 0 else 1).
Proof.
  intros l n c Hc. unfold array_split in Hc. apply in_map_iff in Hc as (j & <- & _). split.
  - intros x Hx. eapply In_skipn, In_firstn, Hx.
  - rewrite firstn_length. unfold split_start. destruct (length l mod n =? 0) eqn:E.
    + apply Nat.eqb_eq in E. rewrite E. lia.
    + lia.
Qed.

Lemma array_split_bound : forall L M, 0 < M ->
  let n := Z.to_nat (cdiv (Z.of_nat L) (Z.of_nat M)) in
  0 < L -> 0 < n /\ L / n + (if L mod n =? 0 then 0 else 1) <= M.
Proof.
  intros L M HM n HL. unfold cdiv in n.
  assert (Hn : n = (L + M - 1) / M).
  { subst n. replace (Z.of_nat L + Z.of_nat M - 1)%Z with (Z.of_nat (L + M - 1)) by lia.
    rewrite <- Nat2Z.inj_div. apply Nat2Z.id. }
  pose proof (Nat.div_mod (L + M - 1) M ltac:(lia)) as H1.
  pose proof (Nat.mod_upper_bound (L + M - 1) M ltac:(lia)) as H2.
  rewrite <- Hn in H1.
  assert (Hn0 : 0 < n) by nia.
  split; [exact Hn0|].
  pose proof (Nat.div_mod L n ltac:(lia)) as H3.
  pose proof (Nat.mod_upper_bound L n ltac:(lia)) as H4.
  assert (HnM : L <= n * M) by nia.
  destruct (L mod n =? 0) eqn:E.
  - apply Nat.eqb_eq in E. nia.
  - apply Nat.eqb_neq in E. nia.
Qed.

(* ---------- the labelling ---------- *)
Lemma label_of_gen : forall i pis k acc,
  let res := fold_left (fun acc kp => if memb i (snd kp) then gen_name (fst kp) else acc) (enum_from k pis) acc in
  (res = acc /\ forall c, In c pis -> memb i c = false) \/
  (exists j c, nth_error pis j = Some c /\ memb i c = true /\ res = gen_name (k + j)).
Proof.
  intros i pis. induction pis as [|c0 pis IH]; intros k acc; cbn [enum_from fold_left fst snd].
  - left. split; [reflexivity|intros c []].
  - destruct (IH (S k) (if memb i c0 then gen_name k else acc)) as [[Hr Hn]|(j & c & Hj & Hm & Hr)].
    + destruct (memb i c0) eqn:E.
      * right. exists 0, c0. cbn. rewrite Nat.add_0_r. auto.
      * left. split; [exact Hr|]. intros c [<-|Hc]; auto.
    + right. exists (S j), c. cbn [nth_error]. replace (k + S j) with (S k + j) by lia. auto.
Qed.

Lemma label_of_spec : forall pis i,
  (label_of pis i = [] /\ forall c, In c pis -> ~ In i c) \/
  (exists j c, nth_error pis j = Some c /\ In i c /\ label_of pis i = gen_name j).
Proof.
  intros pis i. unfold label_of. destruct (label_of_gen i pis 0 []) as [[Hr Hn]|(j & c & Hj & Hm & Hr)].
  - left. split; [exact Hr|]. intros c Hc Hi. apply memb_In in Hi. rewrite (Hn c Hc) in Hi. discriminate.
  - right. exists j, c. apply memb_In in Hm. auto.
Qed.

(* ---------- the numpy contract of rng.permutation, answer by answer ---------- *)
Definition sample_count (s : name) (rows : list row) : Z := Z.of_nat (length (idx_where (in_sample s) rows)).

Fixpoint ss_contract (mx : Z) (rows : list row) (samples : list name) (ds : list draw) : Prop :=
  match samples with
  | [] => True
  | s :: rest =>
      if (sample_count s rows >? mx)%Z then
        match ds with
        | DInts perm :: ds1 => Permutation perm (idx_where (in_sample s) rows) /\ ss_contract mx rows rest ds1
        | _ => False
        end
      else ss_contract mx rows rest ds
  end.

Definition chunk_ok (mx : Z) (rows : list row) (c : list nat) : Prop :=
  (exists s, forall i, In i c -> exists r, nth_error rows i = Some r /\ r_sample r = s)
  /\ (Z.of_nat (length c) <= mx)%Z.

Lemma ss_plates_spec : forall mx rows samples ds pis ds',
  ss_plates true mx rows samples ds = Ok (pis, ds') ->
  ss_contract mx rows samples ds ->
  (forall c, In c pis -> chunk_ok mx rows c) /\
  (forall s i, In s samples -> In i (idx_where (in_sample s) rows) -> exists c, In c pis /\ In i c).
Proof.
  intros mx rows samples. induction samples as [|s samples IH]; intros ds pis ds' H HC; cbn [ss_plates] in H.
  - inversion H; subst. split; [intros c []|intros s i []].
  - cbn [ss_contract] in HC. fold (sample_count s rows) in H.
    set (idx := idx_where (in_sample s) rows) in *.
    assert (Hidx : forall i, In i idx -> exists r, nth_error rows i = Some r /\ r_sample r = s).
    { intros i Hi. apply In_idx_where in Hi as (r & Hn & Hs). apply in_sample_true in Hs. eauto. }
    destruct (sample_count s rows >? mx)%Z eqn:Eb.
    + destruct (mx <=? 0)%Z eqn:Em; [discriminate|]. apply Z.leb_gt in Em.
      destruct ds as [|[perm|l] ds1]; try contradiction. destruct HC as [HP HC].
      cbn [take_ints res_bind] in H.
      destruct (ss_plates true mx rows samples ds1) as [[ps ds2]|t] eqn:Er; cbn [res_bind] in H; [|discriminate].
      inversion H; subst pis ds2. clear H. destruct (IH _ _ _ Er HC) as [IH1 IH2].
      assert (HL : 0 < length idx) by (unfold sample_count in Eb; fold idx in Eb; lia).
      destruct (array_split_bound (length idx) (Z.to_nat mx) ltac:(lia) HL) as [Hn0 Hb].
      rewrite Z2Nat.id in Hn0, Hb by lia.
      set (n := Z.to_nat (cdiv (Z.of_nat (length idx)) mx)) in *.
      assert (Hlen : length perm = length idx) by now apply Permutation_length.
      split.
      * intros c Hc. apply in_app_or in Hc as [Hc|Hc]; [|now apply IH1].
        destruct (array_split_chunk perm n c Hc) as [Hsub Hl]. split.
        -- exists s. intros i Hi. apply Hidx. eapply Permutation_in; [exact HP|]. now apply Hsub.
        -- rewrite Hlen in Hl. lia.
      * intros s' i [<-|Hs'] Hi.
        -- assert (Hip : In i (concat (array_split perm n))).
           { rewrite array_split_concat by exact Hn0. eapply Permutation_in; [symmetry; exact HP|exact Hi]. }
           apply in_concat in Hip as (c & Hc & Hic). exists c. split; [apply in_or_app; now left|exact Hic].
        -- destruct (IH2 s' i Hs' Hi) as (c & Hc & Hic). exists c. split; [apply in_or_app; now right|exact Hic].
    + destruct (ss_plates true mx rows samples ds) as [[ps ds2]|t] eqn:Er; cbn [res_bind] in H; [|discriminate].
      inversion H; subst pis ds2. clear H. destruct (IH _ _ _ Er HC) as [IH1 IH2]. cbn [app].
      split.
      * intros c [<-|Hc]; [|now apply IH1]. split; [exists s; exact Hidx|].
        unfold sample_count in Eb. fold idx in Eb. lia.
      * intros s' i [<-|Hs'] Hi.
        -- exists idx. split; [now left|exact Hi].
        -- destruct (IH2 s' i Hs' Hi) as (c & Hc & Hic). exists c. split; [now right|exact Hic].
Qed.

(* ---------- the inner generator ---------- *)
Lemma sample_seg_shape : forall mx u ds nu ds',
  sample_seg true mx u ds = Ok (nu, ds') ->
  ss_contract mx u (sample_names u) ds ->
  (forall r1 r2, In r1 nu -> In r2 nu -> r_plate r1 = r_plate r2 -> r_sample r1 = r_sample r2) /\
  (forall p, In p (plate_names_of nu) -> (Z.of_nat (length (filter (in_plate p) nu)) <= mx)%Z).
Proof.
  intros mx u ds nu ds' H HC. unfold sample_seg in H.
  destruct (ss_plates true mx u (sample_names u) ds) as [[pis ds1]|t] eqn:Es; cbn [res_bind] in H; [|discriminate].
  match type of H with (dor c <- construct ?x; _) = _ => destruct (construct x) as [c|t] eqn:Ec end;
    cbn [res_bind] in H; [|discriminate].
  apply construct_ok in Ec. inversion H; subst c nu ds1. clear H.
  destruct (ss_plates_spec _ _ _ _ _ _ Es HC) as [Hchunk Hcover].
  (* every row gets the name of a chunk that contains its index *)
  assert (Hlab : forall i r, nth_error u i = Some r ->
            exists j c, nth_error pis j = Some c /\ In i c /\ label_of pis i = gen_name j).
  { intros i r Hn. destruct (label_of_spec pis i) as [[_ Hno]|Hyes]; [exfalso|exact Hyes].
    destruct (Hcover (r_sample r) i) as (c & Hc & Hic).
    - apply In_sample_names. exists r. split; [eapply nth_error_In; exact Hn|reflexivity].
    - apply In_idx_where. exists r. split; [exact Hn|now apply in_sample_true].
    - exact (Hno c Hc Hic). }
  assert (Hrow : forall r', In r' (map (fun ir => set_plate (label_of pis (fst ir)) (snd ir)) (enum_from 0 u)) ->
            exists i r, nth_error u i = Some r /\ r' = set_plate (label_of pis i) r).
  { intros r' Hr'. apply in_map_iff in Hr' as ([i r] & <- & Hin). apply In_enum_from in Hin as [_ Hn].
    rewrite Nat.sub_0_r in Hn. exists i, r. auto. }
  split.
  - intros r1 r2 H1 H2 Hp.
    destruct (Hrow _ H1) as (i1 & q1 & Hn1 & ->). destruct (Hrow _ H2) as (i2 & q2 & Hn2 & ->).
    cbn [set_plate r_plate r_sample] in *.
    destruct (Hlab _ _ Hn1) as (j1 & c1 & Hj1 & Hi1 & L1). destruct (Hlab _ _ Hn2) as (j2 & c2 & Hj2 & Hi2 & L2).
    rewrite L1, L2 in Hp. apply gen_name_inj in Hp. subst j2. assert (c2 = c1) by congruence. subst c2.
    destruct (Hchunk c1 (nth_error_In _ _ Hj1)) as [(s & Hs) _].
    destruct (Hs _ Hi1) as (r1 & Hr1 & S1). destruct (Hs _ Hi2) as (r2 & Hr2 & S2). congruence.
  - intros p Hp. apply In_plate_names_of in Hp as (r' & Hr' & Hpl).
    destruct (Hrow _ Hr') as (i0 & q0 & Hn0 & ->). cbn [set_plate r_plate] in Hpl.
    destruct (Hlab _ _ Hn0) as (j & c & Hj & Hi & L). rewrite L in Hpl. subst p.
    destruct (Hchunk c (nth_error_In _ _ Hj)) as [_ Hsz].
    etransitivity; [|exact Hsz]. apply inj_le.
    rewrite filter_length_map. cbn [set_plate r_plate fst snd].
    rewrite <- (map_length fst). apply NoDup_incl_length.
    + apply NoDup_map_fst_filter, NoDup_enum_fst.
    + intros i Hi'. apply in_map_iff in Hi' as ([i' r] & E & Hin). cbn in E. subst i'.
      apply filter_In in Hin as [Hin Hf]. cbn [fst snd] in Hf. apply in_plate_true in Hf. cbn [set_plate r_plate] in Hf.
      apply In_enum_from in Hin as [_ Hn]. rewrite Nat.sub_0_r in Hn.
      destruct (Hlab _ _ Hn) as (j' & c' & Hj' & Hi2 & L'). rewrite L' in Hf. apply gen_name_inj in Hf. subst j'.
      congruence.
Qed.

(* ---------- through generate_plates ---------- *)
Theorem sample_segregating_shape : forall mx rows ds out ds',
  generate_plates (GSampleSeg true mx) rows ds = Ok (out, ds') ->
  ss_contract mx (unobserved rows) (sample_names (unobserved rows)) ds ->
  (forall r1 r2, In r1 (unobserved out) -> In r2 (unobserved out) ->
     r_plate r1 = r_plate r2 -> r_sample r1 = r_sample r2) /\
  (forall p, In p (plate_names_of (unobserved out)) ->
     (Z.of_nat (length (filter (in_plate p) (unobserved out))) <= mx)%Z).
Proof.
  intros mx rows ds out ds' H HC. apply generate_wrap_unobs in H as [[_ E]|H].
  - rewrite E. split; [intros r1 r2 []|intros p Hp; apply In_plate_names_of in Hp as (r & [] & _)].
  - cbn [generate_inner] in H. eapply sample_seg_shape; eassumption.
Qed.
