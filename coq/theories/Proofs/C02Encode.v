(* C02, part 1: facts about the shared encoder / constructor model (Model/Encode.v, Model/Screen.v) that the
   persistence theorems stand on:
     - a mapping built by the encoders passes numpy_array_is_0_indexed_integers ([zero_indexed]);
     - re-encoding with the mapping an encoding returned gives the same ids and the same mapping;
     - constructing again from a constructed screen's rows with its own mappings returns that screen
       ([mk_screen_idem]).
   (These are statements about C01's model; they could move to Proofs/C01*.v.) *)
From Coq Require Import ZArith List Bool Lia.
From Batchie Require Import Lib.Sexp Generated.Consts Model.Encode Model.Screen.
Import ListNotations.
Open Scope Z_scope.

(* ---- consecutive integers ---- *)
Fixpoint zrange (k : Z) (m : nat) : list Z :=
  match m with
  | O => []
  | S m' => k :: zrange (k + 1) m'
  end.

Lemma zrange_length k m : length (zrange k m) = m.
Proof. revert k; induction m as [|m IH]; intros k; cbn [zrange length]; [reflexivity|now rewrite IH]. Qed.

Lemma zrange_seq a m : map Z.of_nat (seq a m) = zrange (Z.of_nat a) m.
Proof.
  revert a; induction m as [|m IH]; intros a; cbn [seq map zrange]; [reflexivity|].
  rewrite IH. do 2 f_equal. lia.
Qed.

Lemma Zlist_eqb_refl l : Zlist_eqb l l = true.
Proof. induction l as [|x l IH]; cbn [Zlist_eqb]; [reflexivity|]. now rewrite Z.eqb_refl, IH. Qed.

Lemma insert_lt_zrange k j m : k < j -> insert_uniq Z.compare k (zrange j m) = k :: zrange j m.
Proof.
  intros Hlt. destruct m as [|m]; cbn [zrange insert_uniq]; [reflexivity|].
  now apply Z.compare_lt_iff in Hlt as ->.
Qed.

Lemma existsb_zrange_neg x k m : x < k -> existsb (Z.eqb x) (zrange k m) = false.
Proof.
  revert k; induction m as [|m IH]; intros k Hk; cbn [zrange existsb]; [reflexivity|].
  rewrite IH by lia. replace (x =? k) with false by (symmetry; apply Z.eqb_neq; lia). reflexivity.
Qed.

(* ---- 1-d mappings: ids are 0..n-1 ---- *)
Lemma number_from_ids {A} k (l : list A) : map snd (number_from k l) = zrange k (length l).
Proof.
  revert k; induction l as [|a l IH]; intros k; cbn [number_from map snd zrange length]; [reflexivity|].
  now rewrite IH.
Qed.

Lemma sort_uniq_zrange k m : sort_uniq Z.compare (zrange k m) = zrange k m.
Proof.
  revert k; induction m as [|m IH]; intros k; cbn [zrange]; [reflexivity|].
  unfold sort_uniq in *. cbn [fold_right]. rewrite IH. apply insert_lt_zrange. lia.
Qed.

Lemma zero_indexed_zrange m : zero_indexed true (zrange 0 m) = true.
Proof.
  unfold zero_indexed. cbn [negb]. rewrite sort_uniq_zrange.
  unfold CONTROL_SENTINEL_VALUE. rewrite existsb_zrange_neg by lia.
  rewrite zrange_length, zrange_seq. apply Zlist_eqb_refl.
Qed.

Lemma zero_indexed_build_nmapping names : zero_indexed true (map snd (build_nmapping names)) = true.
Proof. unfold build_nmapping. rewrite number_from_ids. apply zero_indexed_zrange. Qed.

(* ---- treatment mappings: ids are -1 (iff some control) and 0..m-1 ---- *)
Definition count_nonctrl (ctrl : name) (l : list tkey) : nat :=
  length (filter (fun k => negb (is_control ctrl k)) l).

Lemma assign_from_sorted_ids ctrl l : forall idx cum,
  0 <= idx - cum ->
  sort_uniq Z.compare (map snd (assign_from ctrl idx cum l))
  = (if existsb (is_control ctrl) l then [-1] else []) ++ zrange (idx - cum) (count_nonctrl ctrl l)
  /\ existsb (Z.eqb (-1)) (map snd (assign_from ctrl idx cum l)) = existsb (is_control ctrl) l.
Proof.
  unfold count_nonctrl.
  induction l as [|x l IH]; intros idx cum Hk; cbn [assign_from map snd existsb filter]; [split; reflexivity|].
  destruct (is_control ctrl x) eqn:Hc; cbn [negb orb length zrange snd].
  - destruct (IH (idx + 1) (cum + 1) ltac:(lia)) as [IH1 IH2].
    replace (idx + 1 - (cum + 1)) with (idx - cum) in IH1 by lia.
    unfold sort_uniq in *. cbn [fold_right]. rewrite IH1. unfold CONTROL_SENTINEL_VALUE.
    split; [|reflexivity].
    destruct (existsb (is_control ctrl) l); cbn [app insert_uniq].
    + reflexivity.
    + apply insert_lt_zrange. lia.
  - destruct (IH (idx + 1) cum ltac:(lia)) as [IH1 IH2].
    replace (idx + 1 - cum) with (idx - cum + 1) in IH1 by lia.
    unfold sort_uniq in *. cbn [fold_right]. rewrite IH1. split.
    + destruct (existsb (is_control ctrl) l); cbn [app insert_uniq].
      * replace (idx - cum ?= -1) with Gt by (symmetry; apply Z.compare_gt_iff; lia).
        f_equal. apply insert_lt_zrange. lia.
      * apply insert_lt_zrange. lia.
    + rewrite IH2. replace (-1 =? idx - cum) with false by (symmetry; apply Z.eqb_neq; lia). reflexivity.
Qed.

Lemma zero_indexed_build_tmapping ctrl keys : zero_indexed true (map snd (build_tmapping ctrl keys)) = true.
Proof.
  unfold build_tmapping, zero_indexed. cbn [negb].
  destruct (assign_from_sorted_ids ctrl (sort_uniq tkey_cmp keys) 0 0 ltac:(lia)) as [H1 H2].
  rewrite H1. unfold CONTROL_SENTINEL_VALUE. rewrite H2. rewrite Z.sub_diag.
  destruct (existsb (is_control ctrl) (sort_uniq tkey_cmp keys)); cbn [app length].
  - rewrite zrange_length. replace (S (count_nonctrl ctrl (sort_uniq tkey_cmp keys)) - 1)%nat
      with (count_nonctrl ctrl (sort_uniq tkey_cmp keys)) by lia.
    rewrite zrange_seq. apply Zlist_eqb_refl.
  - rewrite zrange_length, zrange_seq. apply Zlist_eqb_refl.
Qed.

Lemma zero_indexed_isint b ids : zero_indexed b ids = true -> b = true.
Proof. destruct b; [reflexivity|]. unfold zero_indexed. cbn [negb]. discriminate. Qed.

(* ---- re-encoding with the returned mapping ---- *)
Lemma encode_treatments_reuse keys ctrl ex ids m :
  encode_treatments keys ctrl ex = Ok (ids, m) ->
  encode_treatments keys ctrl (Some m) = Ok (ids, m)
  /\ (match ex with Some m0 => m = m0 | None => m = build_tmapping ctrl keys end)
  /\ (keys <> [] -> m <> []).
Proof.
  unfold encode_treatments. intros H.
  set (m0 := match ex with Some m1 => m1 | None => build_tmapping ctrl keys end) in *.
  destruct (opt_map_all (tlookup m0) keys) as [ids0|] eqn:Hl; [|discriminate].
  injection H as <- <-. rewrite Hl. split; [reflexivity|]. split.
  - subst m0. destruct ex; reflexivity.
  - intros Hne Hm. rewrite Hm in Hl. destruct keys as [|k keys]; [now apply Hne|].
    cbn [opt_map_all tlookup opt_bind] in Hl. discriminate.
Qed.

Lemma encode_names_reuse names ex tag ids m :
  encode_names names ex tag = Ok (ids, m) ->
  forall tag', encode_names names (Some m) tag' = Ok (ids, m)
  /\ (match ex with Some m0 => m = m0 | None => m = build_nmapping names end)
  /\ (names <> [] -> m <> []).
Proof.
  unfold encode_names. intros H tag'.
  set (m0 := match ex with Some m1 => m1 | None => build_nmapping names end) in *.
  destruct (opt_map_all (nlookup m0) names) as [ids0|] eqn:Hl; [|discriminate].
  injection H as <- <-. rewrite Hl. split; [reflexivity|]. split.
  - subst m0. destruct ex; reflexivity.
  - intros Hne Hm. rewrite Hm in Hl. destruct names as [|k names]; [now apply Hne|].
    cbn [opt_map_all nlookup opt_bind] in Hl. discriminate.
Qed.

(* ---- the constructor, split at the normalisation of observations / mask ---- *)
Definition norm_rows (og mg : bool) (rows : list row) : list row :=
  if og then
    (if mg then rows
     else map (fun r => {| r_sample := r_sample r; r_plate := r_plate r; r_treats := r_treats r;
                           r_obs := r_obs r; r_mask := true |}) rows)
  else map (fun r => {| r_sample := r_sample r; r_plate := r_plate r; r_treats := r_treats r;
                        r_obs := 0; r_mask := false |}) rows.

Definition mk_tail (rows : list row) (arity : nat) (ctrl : name)
           (tmap : option (tmapping * bool)) (smap : option (nmapping * bool)) : result screen :=
  if negb (plate_uniform rows) then Err 2
  else if match tmap with Some (m, isint) => negb (zero_indexed isint (map snd m)) | None => false end then Err 3
  else if match smap with Some (m, isint) => negb (zero_indexed isint (map snd m)) | None => false end then Err 4
  else
    let flat := flatten_cols ([], 0) arity (map r_treats rows) in
    dor te <- encode_treatments flat ctrl (option_map fst tmap);
    let '(tflat, tm) := te in
    dor se <- encode_names (map r_sample rows) (option_map fst smap) 6;
    let '(sids, sm) := se in
    dor pe <- encode_names (map r_plate rows) None 6;
    let '(pids, pm) := pe in
    Ok {| s_rows := rows; s_arity := arity; s_ctrl := ctrl;
          s_tmap := tm; s_smap := sm; s_pmap := pm;
          s_tids := unflatten_cols arity (length rows) tflat;
          s_sids := sids; s_pids := pids |}.

Definition rows_arity (arity : nat) (rows : list row) : bool :=
  forallb (fun r => Nat.eqb (length (r_treats r)) arity) rows.

Lemma mk_screen_split rows arity ctrl tmap smap og mg :
  mk_screen rows arity ctrl tmap smap og mg
  = if negb (rows_arity arity rows) then Err 1
    else if negb og && mg then Err 7
    else mk_tail (norm_rows og mg rows) arity ctrl tmap smap.
Proof. reflexivity. Qed.

Lemma norm_rows_arity arity og mg rows : rows_arity arity (norm_rows og mg rows) = rows_arity arity rows.
Proof.
  unfold norm_rows, rows_arity. destruct og; [destruct mg|]; try reflexivity;
    induction rows as [|r rows IH]; cbn [map forallb r_treats]; try reflexivity; now rewrite IH.
Qed.

Lemma norm_rows_nil og mg rows : norm_rows og mg rows = [] <-> rows = [].
Proof.
  unfold norm_rows. destruct og; [destruct mg|]; try tauto;
    (split; [intros H; destruct rows; [reflexivity|discriminate]|intros ->; reflexivity]).
Qed.

Lemma flatten_cols_nonnil {A} (d : A) arity (rows : list (list A)) :
  rows <> [] -> arity <> 0%nat -> flatten_cols d arity rows <> [].
Proof.
  intros Hr Ha. destruct arity as [|a]; [now elim Ha|]. destruct rows as [|r rows]; [now elim Hr|].
  unfold flatten_cols. cbn [seq map concat column app]. discriminate.
Qed.

(* what a successful [mk_tail] returns, and that feeding its own mappings back returns it again *)
Lemma mk_tail_idem rows arity ctrl tmap smap s :
  mk_tail rows arity ctrl tmap smap = Ok s ->
  s_rows s = rows /\ s_arity s = arity /\ s_ctrl s = ctrl
  /\ plate_uniform rows = true
  /\ (match tmap with Some (m, _) => s_tmap s = m | None => True end)
  /\ (match smap with Some (m, _) => s_smap s = m | None => True end)
  /\ (rows <> [] -> arity <> 0%nat -> s_tmap s <> [])
  /\ (rows <> [] -> s_smap s <> [])
  /\ mk_tail rows arity ctrl (Some (s_tmap s, true)) (Some (s_smap s, true)) = Ok s.
Proof.
  unfold mk_tail. intros H.
  destruct (plate_uniform rows) eqn:Hpu; cbn [negb] in *; [|discriminate].
  destruct (match tmap with Some (m, isint) => negb (zero_indexed isint (map snd m)) | None => false end) eqn:Hzt;
    [discriminate|].
  destruct (match smap with Some (m, isint) => negb (zero_indexed isint (map snd m)) | None => false end) eqn:Hzs;
    [discriminate|].
  cbv zeta in *.
  destruct (encode_treatments (flatten_cols ([], 0) arity (map r_treats rows)) ctrl (option_map fst tmap))
    as [[tflat tm]|] eqn:Het; cbn [res_bind] in H; [|discriminate].
  destruct (encode_names (map r_sample rows) (option_map fst smap) 6) as [[sids sm]|] eqn:Hes;
    cbn [res_bind] in H; [|discriminate].
  destruct (encode_names (map r_plate rows) None 6) as [[pids pm]|] eqn:Hep; cbn [res_bind] in H; [|discriminate].
  injection H as <-. cbn [s_rows s_arity s_ctrl s_tmap s_smap].
  destruct (encode_treatments_reuse _ _ _ _ _ Het) as (Ht1 & Ht2 & Ht3).
  destruct (encode_names_reuse _ _ _ _ _ Hes 6) as (Hs1 & Hs2 & Hs3).
  assert (Hzt' : zero_indexed true (map snd tm) = true).
  { destruct tmap as [[m0 b]|]; cbn [option_map fst] in Ht2; subst tm.
    - apply negb_false_iff in Hzt. now rewrite (zero_indexed_isint _ _ Hzt) in Hzt.
    - apply zero_indexed_build_tmapping. }
  assert (Hzs' : zero_indexed true (map snd sm) = true).
  { destruct smap as [[m0 b]|]; cbn [option_map fst] in Hs2; subst sm.
    - apply negb_false_iff in Hzs. now rewrite (zero_indexed_isint _ _ Hzs) in Hzs.
    - apply zero_indexed_build_nmapping. }
  repeat split.
  - destruct tmap as [[m0 b]|]; [exact Ht2|exact I].
  - destruct smap as [[m0 b]|]; [exact Hs2|exact I].
  - intros Hr Ha. apply Ht3. apply flatten_cols_nonnil; [|exact Ha].
    destruct rows; [now elim Hr|discriminate].
  - intros Hr. apply Hs3. destruct rows; [now elim Hr|discriminate].
  - rewrite Hzt', Hzs'. cbn [negb option_map fst]. rewrite Ht1. cbn [res_bind]. rewrite Hs1. cbn [res_bind].
    reflexivity.
Qed.

Lemma mk_screen_idem rows arity ctrl tmap smap og mg s :
  mk_screen rows arity ctrl tmap smap og mg = Ok s ->
  s_rows s = norm_rows og mg rows /\ s_arity s = arity /\ s_ctrl s = ctrl
  /\ rows_arity (s_arity s) (s_rows s) = true
  /\ (match tmap with Some (m, _) => s_tmap s = m | None => True end)
  /\ (match smap with Some (m, _) => s_smap s = m | None => True end)
  /\ (rows <> [] -> arity <> 0%nat -> s_tmap s <> [])
  /\ (rows <> [] -> s_smap s <> [])
  /\ mk_screen (s_rows s) (s_arity s) (s_ctrl s) (Some (s_tmap s, true)) (Some (s_smap s, true)) true true = Ok s.
Proof.
  rewrite mk_screen_split. intros H.
  destruct (rows_arity arity rows) eqn:Hra; cbn [negb] in H; [|discriminate].
  destruct (negb og && mg) eqn:Hog; [discriminate|].
  destruct (mk_tail_idem _ _ _ _ _ _ H) as (H1 & H2 & H3 & H4 & H5 & H6 & H7 & H8 & H9).
  rewrite H1, H2, H3.
  assert (Hra' : rows_arity arity (norm_rows og mg rows) = true) by now rewrite norm_rows_arity.
  repeat split; try assumption.
  - intros Hr. apply H7. now rewrite norm_rows_nil.
  - intros Hr. apply H8. now rewrite norm_rows_nil.
  - rewrite mk_screen_split, Hra'. cbn [negb andb norm_rows]. rewrite <- H1 at 1. rewrite <- H2, <- H3 at 1.
    rewrite <- H1, <- H2, <- H3 in H9. exact H9.
Qed.
