(* C14: the hand-written model Model/Views.v equals the translations of the methods of
   batchie.data.ScreenSubset / Plate and of the view-producing methods of ScreenBase / Screen, regenerated
   from /repo on every run (Generated/SrcViews.v, by harness/py2gal.py with the C14_* configurations of
   harness/src_functions.py), for all inputs.

   Objects: a Screen object is [pyscreen] = (identity tag, contents), a ScreenSubset / Plate object is a
   [view]; an array handed in as a selection is [anyarray] = (dtype is bool, truth values).  The model's
   functions take these components as separate arguments; every theorem below is
       translated method (objects) = model function (their components)
   with no side condition. *)
From Coq Require Import ZArith List Bool Arith Lia ZifyBool.
From Batchie Require Import Lib.Sexp Lib.PyRt Model.Encode Model.Screen Model.Views Generated.SrcViews
  Proofs.PyRtLemmas Proofs.C14Lists.
Import ListNotations.
Open Scope Z_scope.

Lemma res_bind_ok {A} (r : result A) : (dor x <- r; Ok x) = r.
Proof. destruct r; reflexivity. Qed.

Lemma of_nat_eqb a b : (Z.of_nat a =? Z.of_nat b) = Nat.eqb a b.
Proof. destruct (Nat.eqb_spec a b) as [->|H]; [apply Z.eqb_refl | apply Z.eqb_neq; lia]. Qed.

Lemma res_map_all_ext {A B} (f g : A -> result B) : (forall a, f a = g a) -> forall l, res_map_all f l = res_map_all g l.
Proof. intros H l. induction l as [|a l IH]; cbn [res_map_all]; [reflexivity|]. now rewrite H, IH. Qed.

(* ---------------- sizes, the constructor ---------------- *)
(* ScreenBase.size on a Screen object *)
Theorem src_screen_size_is_model : forall s : pyscreen, src_screen_size s = Ok (Z.of_nat (screen_size (snd s))).
Proof. reflexivity. Qed.

(* ScreenSubset.__init__ (also what Plate(...) runs): whatever the fresh instance held, the two checks and then
   the object (screen, selection_vector) *)
Theorem src_view_init_is_model : forall (self : view) (s : pyscreen) (sv : anyarray),
  src_view_init self s sv = mk_view (fst s) (snd s) (fst sv) (snd sv).
Proof.
  intros self s sv. unfold src_view_init, mk_view. destruct (negb (fst sv)); [reflexivity|].
  rewrite src_screen_size_is_model. cbn [res_bind]. rewrite of_nat_eqb.
  destruct (negb (Nat.eqb (length (snd sv)) (screen_size (snd s)))); reflexivity.
Qed.

(* ---------------- attribute properties: parent.attr[self.selection_vector] ---------------- *)
Theorem src_view_attrs_are_model : forall v : view,
  src_view_plate_ids v = Ok (view_pids v) /\
  src_view_sample_ids v = Ok (view_sids v) /\
  src_view_treatment_ids v = Ok (view_tids v) /\
  src_view_sample_names v = Ok (view_sample_names v) /\
  src_view_observations v = Ok (view_obs v) /\
  src_view_observation_mask v = Ok (view_mask v) /\
  (* the two 2-d arrays: the view's (name, dose) pairs, split, with the parent's number of columns *)
  src_view_treatment_names v = Ok (s_arity (v_parent v), map (map fst) (view_treats v)) /\
  src_view_treatment_doses v = Ok (s_arity (v_parent v), map (map snd) (view_treats v)) /\
  (* not row-wise: handed through from the parent *)
  src_view_control_treatment_name v = Ok (s_ctrl (v_parent v)) /\
  src_view_treatment_mapping v = Ok (s_tmap (v_parent v)) /\
  src_view_sample_mapping v = Ok (s_smap (v_parent v)) /\
  src_view_plate_mapping v = Ok (s_pmap (v_parent v)).
Proof.
  intros v. repeat split; try reflexivity.
  - unfold src_view_treatment_names, select2, screen_treatment_names, view_treats. cbn [fst snd view_screen].
    now rewrite <- select_map, map_map.
  - unfold src_view_treatment_doses, select2, screen_treatment_doses, view_treats. cbn [fst snd view_screen].
    now rewrite <- select_map, map_map.
Qed.

(* single_treatment_effects: None when the parent's property is None, else its selected rows *)
Theorem src_view_single_effects_is_model : forall (E : Type) (v : view) (parent_value : option (list E)),
  src_view_single_treatment_effects E v parent_value = Ok (view_single_effects v parent_value).
Proof. intros E v [l|]; reflexivity. Qed.

(* ScreenBase.size on a ScreenSubset object *)
Theorem src_view_size_is_model : forall v : view, src_view_size v = Ok (Z.of_nat (view_size v)).
Proof. reflexivity. Qed.

(* ---------------- ScreenSubset.subset / invert / combine / concat ---------------- *)
Theorem src_view_subset_is_model : forall (v : view) (sv : anyarray),
  src_view_subset v sv = view_subset v (fst sv) (snd sv).
Proof.
  intros v sv. unfold src_view_subset, view_subset. destruct (negb (fst sv)); [reflexivity|].
  rewrite src_view_size_is_model. cbn [res_bind]. rewrite of_nat_eqb.
  destruct (negb (Nat.eqb (length (snd sv)) (view_size v))); [reflexivity|].
  rewrite src_view_init_is_model, res_bind_ok. reflexivity.
Qed.

Theorem src_view_invert_is_model : forall v : view, src_view_invert v = view_invert v.
Proof. intros v. unfold src_view_invert. rewrite src_view_init_is_model, res_bind_ok. reflexivity. Qed.

(* `other.screen is not self.screen` is the comparison of the parents' identity tags *)
Theorem src_view_combine_is_model : forall a b : view, src_view_combine a b = view_combine a b.
Proof.
  intros a b. unfold src_view_combine, view_combine, same_object, view_screen. cbn [fst].
  destruct (negb (v_tag b =? v_tag a)); [reflexivity|].
  rewrite src_view_init_is_model, res_bind_ok. reflexivity.
Qed.

(* the loop of concat: [vs0] is the whole argument list (whose first element the body re-reads) *)
Lemma concat_loop_src (vs0 : list view) (v0 : view)
      (f : option (list bool) -> view -> result (option (list bool))) :
  list_get vs0 0 = Ok v0 ->
  (forall acc v, f acc v =
     dor r <- list_get vs0 0;
     if negb (same_object (view_screen v) (view_screen r)) then Err 23
     else dor acc' <- (if is_none acc then Ok (Some (v_sel v))
                       else dor u <- unwrap acc; Ok (Some (bor_vec u (v_sel v))));
          Ok acc') ->
  forall vs acc, res_fold f vs acc = concat_loop (v_tag v0) acc vs.
Proof.
  intros Hget Hf. induction vs as [|v vs IH]; intros acc; cbn [res_fold concat_loop]; [reflexivity|].
  rewrite Hf, Hget. cbn [res_bind]. unfold same_object, view_screen. cbn [fst].
  destruct (negb (v_tag v =? v_tag v0)); [reflexivity|].
  destruct acc as [s|]; cbn [is_none unwrap res_bind]; apply IH.
Qed.

Lemma concat_loop_some tag : forall vs s, concat_loop tag (Some s) vs <> Ok None.
Proof.
  induction vs as [|v vs IH]; intros s; cbn [concat_loop]; [discriminate|].
  destruct (negb (v_tag v =? tag)); [discriminate | apply IH].
Qed.

Lemma concat_loop_cons tag v vs acc : concat_loop tag acc (v :: vs) <> Ok None.
Proof.
  cbn [concat_loop]. destruct (negb (v_tag v =? tag)); [discriminate | apply concat_loop_some].
Qed.

Theorem src_view_concat_is_model : forall vs : list view, src_view_concat vs = view_concat vs.
Proof.
  intros [|v0 [|v1 r]]; [reflexivity | reflexivity |].
  unfold src_view_concat, view_concat.
  replace (Z.of_nat (length (v0 :: v1 :: r)) =? 1) with false by (cbn [length]; lia).
  replace (Z.of_nat (length (v0 :: v1 :: r)) =? 0) with false by (cbn [length]; lia).
  rewrite (concat_loop_src (v0 :: v1 :: r) v0) by (reflexivity || (intros; reflexivity)).
  destruct (concat_loop (v_tag v0) None (v0 :: v1 :: r)) as [[s|]|e] eqn:E; cbn [res_bind].
  - change (list_get (v0 :: v1 :: r) 0) with (Ok v0). cbn [res_bind unwrap].
    rewrite src_view_init_is_model, res_bind_ok. reflexivity.
  - exfalso. exact (concat_loop_cons _ _ _ _ E).
  - reflexivity.
Qed.

(* ---------------- ScreenSubset.to_screen ---------------- *)
Lemma combine_fst_snd {A B} (l : list (A * B)) : combine (map fst l) (map snd l) = l.
Proof. induction l as [|[a b] l IH]; cbn [map combine fst snd]; [reflexivity | now rewrite IH]. Qed.

(* the per-row arrays of a row list give the row list back *)
Lemma rows_of_arrays_rows (rows : list row) :
  rows_of_arrays (map (fun r => map fst (r_treats r)) rows) (map (fun r => map snd (r_treats r)) rows)
                 (map r_obs rows) (map r_mask rows) (map r_sample rows) (map r_plate rows) = rows.
Proof.
  induction rows as [|x rows IH]; cbn [map rows_of_arrays]; [reflexivity|].
  rewrite IH, combine_fst_snd. destruct x; reflexivity.
Qed.

(* Screen(...) receives the parent's six per-row arrays at the selected rows and the parent's control name: that is
   the model's constructor on the selected rows, the parent's arity and control name, no mappings, observations and mask given *)
Theorem src_to_screen_is_model : forall v : view, src_to_screen v = to_screen v.
Proof.
  intros v. unfold src_to_screen, to_screen, view_rows. rewrite res_bind_ok.
  unfold screen_of_arrays, select2, screen_treatment_names, screen_treatment_doses, screen_mask, view_screen.
  cbn [fst snd]. rewrite !select_map, rows_of_arrays_rows. reflexivity.
Qed.

(* ---------------- Screen.subset / subset_observed / subset_unobserved / get_plate / plates ---------------- *)
Theorem src_screen_subset_is_model : forall (s : pyscreen) (sv : anyarray),
  src_screen_subset s sv = screen_subset (fst s) (snd s) (fst sv) (snd sv).
Proof.
  intros s sv. unfold src_screen_subset, screen_subset. destruct (negb (fst sv)); [reflexivity|].
  rewrite src_screen_size_is_model. cbn [res_bind]. rewrite of_nat_eqb.
  destruct (negb (Nat.eqb (length (snd sv)) (screen_size (snd s)))); [reflexivity|].
  rewrite src_view_init_is_model, res_bind_ok. reflexivity.
Qed.

(* None iff no row is observed; otherwise self.subset(mask) *)
Theorem src_subset_observed_is_model : forall s : pyscreen,
  src_subset_observed s = opt_result (subset_observed (fst s) (snd s)).
Proof.
  intros s. unfold src_subset_observed, subset_observed.
  destruct (existsb (fun b => b) (screen_mask (snd s))); [|reflexivity].
  rewrite src_screen_subset_is_model. reflexivity.
Qed.

Theorem src_subset_unobserved_is_model : forall s : pyscreen,
  src_subset_unobserved s = opt_result (subset_unobserved (fst s) (snd s)).
Proof.
  intros s. unfold src_subset_unobserved, subset_unobserved.
  destruct (existsb (fun b => b) (map negb (screen_mask (snd s)))); [|reflexivity].
  rewrite src_screen_subset_is_model. reflexivity.
Qed.

Theorem src_get_plate_is_model : forall (s : pyscreen) (pid : Z),
  src_get_plate s pid = get_plate (fst s) (snd s) pid.
Proof. intros s pid. unfold src_get_plate. rewrite src_view_init_is_model, res_bind_ok. reflexivity. Qed.

(* ScreenBase.unique_plate_ids on a Screen object *)
Theorem src_unique_plate_ids_is_model : forall s : pyscreen,
  src_unique_plate_ids s = Ok (sort_uniq Z.compare (s_pids (snd s))).
Proof. reflexivity. Qed.

Theorem src_plates_is_model : forall s : pyscreen, src_plates s = plates (fst s) (snd s).
Proof.
  intros s. unfold src_plates, plates. rewrite src_unique_plate_ids_is_model. cbn [res_bind].
  rewrite res_bind_ok. apply res_map_all_ext. intros x. rewrite res_bind_ok. apply src_get_plate_is_model.
Qed.
