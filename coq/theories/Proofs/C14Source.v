(* C14: the hand-written model Model/Views.v equals the translations of the methods of
   batchie.data.ScreenSubset / Plate and of the view-producing methods of ScreenBase / Screen, regenerated
   from /repo on every run (Generated/SrcViews.v, by harness/py2gal.py with the C14_* configurations of
   harness/src_functions.py), for all inputs.

   Objects: a Screen object is [pyscreen] = (identity tag, contents), a ScreenSubset / Plate object is a
   [view]; an array handed in as a selection is [anyarray] = (dtype is bool, truth values).  The model's
   functions take these components as separate arguments; every theorem below is
       translated method (objects) = model function (their components)
   with no side condition.

   This file only collects the pieces: one file Proofs/C14Source_<Piece>.v per translated function (or per group of functions
   that are stated together), so that a file of ANOTHER property which needs the link of one function imports that piece alone
   and does not depend on the translations of the others. *)
From Batchie Require Export Proofs.C14Source_Base Proofs.C14Source_ScreenSize Proofs.C14Source_ViewInit Proofs.C14Source_Attrs
  Proofs.C14Source_SingleEffects Proofs.C14Source_ViewSize Proofs.C14Source_ViewSubset Proofs.C14Source_ViewInvert
  Proofs.C14Source_ViewCombine Proofs.C14Source_ViewConcat Proofs.C14Source_ToScreen Proofs.C14Source_ScreenSubset
  Proofs.C14Source_SubsetObserved Proofs.C14Source_GetPlate Proofs.C14Source_UniquePlateIds Proofs.C14Source_Plates
  Proofs.C14Source_ScreenAttrs Proofs.C14Source_SpaceSize.
