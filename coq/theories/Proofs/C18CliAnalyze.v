(* C18 about cli/analyze_model_evaluation.main (the WHOLE function, re-translated on every run: Generated/SrcCliAnalyze.v,
   configuration CLI_ANALYZE; link Proofs/C20SourceCli_AnalyzeMain.v): where the generators of its two bootstraps come from.
   seaborn.regplot(seed=s) draws the confidence band of its regression from numpy.random.default_rng(s)
   (Model/CliAnalyze.v: regplot_rng).  Since the repair "fix: analyze_model_evaluation ignored --seed" both regplot-drawing
   calls of main() carry seed=args.seed: the generators of a run are a function of --seed alone, whatever the operating
   system's entropy source answers.  The wrapper before the repair (cli_analyze_gen false: the keyword absent) is refuted. *)
From Coq Require Import ZArith List Bool.
From Batchie Require Import Lib.Sexp Lib.PyRt Model.Cli Model.CliAnalyze Generated.SrcCliAnalyze Proofs.C20SourceCli_AnalyzeMain.
Import ListNotations.
Open Scope Z_scope.

(* the regplot-drawing calls of a run of the model, for either variant *)
Lemma cli_analyze_gen_regplot_seeds :
  forall (b : bool) (Scr Th Ev Co F : Type) (L : an_lib Scr Th Ev Co F) (a : an_args) evs,
  cli_analyze_gen b L a = Ok evs ->
  an_regplot_seeds evs = let sd := if b then Some (an_seed a) else None in [sd; sd].
Proof.
  intros b Scr Th Ev Co F L a evs. unfold cli_analyze_gen.
  destruct (res_map_all (an_load_thetas L) (an_thetas a)) as [hs|t]; cbn [res_bind]; [|discriminate].
  destruct (an_concat_thetas L hs) as [th|t]; cbn [res_bind]; [|discriminate].
  destruct (an_load_screen L (an_screen a)) as [scr|t]; cbn [res_bind]; [|discriminate].
  destruct (an_load_eval L (an_model_evaluation a)) as [e|t]; cbn [res_bind]; [|discriminate].
  destruct (an_correlation_matrix L scr th) as [c|t]; cbn [res_bind]; [|discriminate].
  intros H. injection H as <-. reflexivity.
Qed.

(* the translated main(): a run that completes makes exactly two regplot-drawing calls, both with seed=--seed *)
Theorem src_cli_analyze_regplot_seeds :
  forall (Scr Th Ev Co F : Type) (L : an_lib Scr Th Ev Co F) (a : an_args) evs,
  src_cli_analyze Scr Th Ev Co F L a = Ok evs ->
  an_regplot_seeds evs = [Some (an_seed a); Some (an_seed a)].
Proof.
  intros Scr Th Ev Co F L a evs H. rewrite src_cli_analyze_is_model in H. unfold cli_analyze in H.
  exact (cli_analyze_gen_regplot_seeds true Scr Th Ev Co F L a evs H).
Qed.

(* ... hence its bootstrap generators are default_rng(--seed), in every world *)
Theorem src_cli_analyze_bootstrap_seeded :
  forall (Scr Th Ev Co F G W : Type) (of_seed : Z -> G) (of_entropy : W -> G) (L : an_lib Scr Th Ev Co F) (a : an_args) (w : W),
  an_bootstrap_rngs of_seed of_entropy (src_cli_analyze Scr Th Ev Co F L a) w
  = match src_cli_analyze Scr Th Ev Co F L a with
    | Ok _ => [of_seed (an_seed a); of_seed (an_seed a)]
    | Err _ => []
    end.
Proof.
  intros Scr Th Ev Co F G W of_seed of_entropy L a w.
  destruct (src_cli_analyze Scr Th Ev Co F L a) as [evs|t] eqn:E; [|reflexivity].
  unfold an_bootstrap_rngs. rewrite (src_cli_analyze_regplot_seeds Scr Th Ev Co F L a evs E). reflexivity.
Qed.

(* two runs on the same files with the same --seed, under ANY two answers of the entropy source: the same effects and the
   same bootstrap generators *)
Theorem src_cli_analyze_entropy_free :
  forall (Scr Th Ev Co F G W : Type) (of_seed : Z -> G) (of_entropy : W -> G) (L : an_lib Scr Th Ev Co F) (a : an_args) (w1 w2 : W),
  an_bootstrap_rngs of_seed of_entropy (src_cli_analyze Scr Th Ev Co F L a) w1
  = an_bootstrap_rngs of_seed of_entropy (src_cli_analyze Scr Th Ev Co F L a) w2.
Proof. intros. rewrite !src_cli_analyze_bootstrap_seeded. reflexivity. Qed.

(* the wrapper before the repair: there are files, a --seed and two answers of the entropy source for which the two runs
   bootstrap from different generators (every run that completes does: its generators ARE the entropy's) *)
Definition ex_unit_lib : an_lib unit unit unit unit unit :=
  {| an_load_thetas := fun _ => Ok tt; an_concat_thetas := fun _ => Ok tt; an_load_screen := fun _ => Ok tt;
     an_load_eval := fun _ => Ok tt; an_correlation_matrix := fun _ _ => Ok tt;
     an_mse := fun _ => tt; an_mse_variance := fun _ => tt; an_inter_chain := fun _ => tt |}.
Definition ex_unit_args (seed : Z) : an_args := mk_an_args [1] [2] [[3]] [4] seed.

Theorem cli_analyze_unseeded_bootstrap :
  forall (Scr Th Ev Co F G W : Type) (of_seed : Z -> G) (of_entropy : W -> G) (L : an_lib Scr Th Ev Co F) (a : an_args) (w : W),
  an_bootstrap_rngs of_seed of_entropy (cli_analyze_gen false L a) w
  = match cli_analyze_gen false L a with
    | Ok _ => [of_entropy w; of_entropy w]
    | Err _ => []
    end.
Proof.
  intros Scr Th Ev Co F G W of_seed of_entropy L a w.
  destruct (cli_analyze_gen false L a) as [evs|t] eqn:E; [|reflexivity].
  unfold an_bootstrap_rngs. rewrite (cli_analyze_gen_regplot_seeds false Scr Th Ev Co F L a evs E). reflexivity.
Qed.

Theorem cli_analyze_unseeded_refuted :
  exists (L : an_lib unit unit unit unit unit) (a : an_args) (w1 w2 : Z),
    an_bootstrap_rngs (fun z => z) (fun w => w) (cli_analyze_gen false L a) w1
    <> an_bootstrap_rngs (fun z => z) (fun w => w) (cli_analyze_gen false L a) w2.
Proof. exists ex_unit_lib, (ex_unit_args 3), 10, 11. vm_compute. discriminate. Qed.
