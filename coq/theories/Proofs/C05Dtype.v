(* C05: the dtype of the dense array of pad_ragged_arrays_to_dense_array (Model/Dbal.v, pad_dtype_of).
   Repaired code (np.result_type over all arrays and the pad value): the dense dtype holds every plate's dtype, is one
   of the plates' dtypes, and does not depend on the order of the plates.  The code before the repair (the dtype of the
   first plate) is refuted on [F32; F64]. *)
From Coq Require Import ZArith List Arith Permutation Lia.
From Batchie Require Import Lib.Sexp Model.Dbal.
Import ListNotations.

Lemma dt_rank_inj : forall a b, dt_rank a = dt_rank b -> a = b.
Proof. intros [] []; cbn; intros H; try reflexivity; discriminate H. Qed.

Lemma dt_le_iff : forall a b, dt_le a b = true <-> (dt_rank a <= dt_rank b)%nat.
Proof. intros a b. unfold dt_le. apply Nat.leb_le. Qed.

Lemma dt_join_rank : forall a b, dt_rank (dt_join a b) = Nat.max (dt_rank a) (dt_rank b).
Proof.
  intros a b. unfold dt_join. destruct (dt_le a b) eqn:E.
  - apply dt_le_iff in E. lia.
  - assert (H : ~ (dt_rank a <= dt_rank b)%nat) by (intro H; apply dt_le_iff in H; congruence). lia.
Qed.

Lemma fold_join_rank : forall r d,
  dt_rank (fold_left dt_join r d) = fold_left Nat.max (map dt_rank r) (dt_rank d).
Proof.
  induction r as [|x r IH]; intros d; cbn [fold_left map]; [reflexivity|].
  rewrite IH, dt_join_rank. reflexivity.
Qed.

Lemma fold_max_ge_init : forall l n, (n <= fold_left Nat.max l n)%nat.
Proof.
  induction l as [|x l IH]; intros n; cbn [fold_left]; [lia|].
  specialize (IH (Nat.max n x)). lia.
Qed.

Lemma fold_max_ge_in : forall l n x, In x l -> (x <= fold_left Nat.max l n)%nat.
Proof.
  induction l as [|y l IH]; intros n x Hin; cbn [fold_left]; [destruct Hin|].
  destruct Hin as [->|Hin].
  - pose proof (fold_max_ge_init l (Nat.max n x)). lia.
  - apply IH. exact Hin.
Qed.

Lemma fold_max_in : forall l n, fold_left Nat.max l n = n \/ In (fold_left Nat.max l n) l.
Proof.
  induction l as [|y l IH]; intros n; cbn [fold_left]; [left; reflexivity|].
  destruct (IH (Nat.max n y)) as [H|H].
  - rewrite H. destruct (Nat.max_spec n y) as [[_ E]|[_ E]]; rewrite E; [right; left; reflexivity|left; reflexivity].
  - right. right. exact H.
Qed.

Lemma fold_max_perm : forall l l', Permutation l l' -> forall n, fold_left Nat.max l n = fold_left Nat.max l' n.
Proof.
  induction 1 as [|x l l' _ IH|x y l|l l' l'' _ IH1 _ IH2]; intros n; cbn [fold_left].
  - reflexivity.
  - apply IH.
  - f_equal. lia.
  - rewrite IH1. apply IH2.
Qed.

(* rank of the repaired dense dtype = the maximum of the ranks *)
Lemma pad_dtype_rank : forall d r dense,
  pad_dtype (d :: r) = Ok dense -> dt_rank dense = fold_left Nat.max (map dt_rank r) (dt_rank d).
Proof.
  intros d r dense H. unfold pad_dtype, pad_dtype_of in H. injection H as <-. apply fold_join_rank.
Qed.

(* 1. no plate is rounded: the dense array holds the dtype of EVERY plate *)
Lemma pad_dtype_holds_every_plate : forall ds dense,
  pad_dtype ds = Ok dense -> forall d, In d ds -> dt_le d dense = true.
Proof.
  intros [|d0 r] dense H d Hin; [discriminate H|].
  apply dt_le_iff. rewrite (pad_dtype_rank _ _ _ H).
  destruct Hin as [->|Hin].
  - apply fold_max_ge_init.
  - apply fold_max_ge_in. apply in_map. exact Hin.
Qed.

Lemma pad_dtype_stored_exactly : forall ds dense k,
  pad_dtype ds = Ok dense -> stored_exactly dense ds k = true.
Proof.
  intros ds dense k H. unfold stored_exactly. destruct (nth_error ds k) as [d|] eqn:E; [|reflexivity].
  apply (pad_dtype_holds_every_plate _ _ H). eapply nth_error_In. exact E.
Qed.

(* 2. nothing is widened beyond need: the dense dtype is the dtype of one of the plates (an all-float32 call stays float32) *)
Lemma pad_dtype_is_a_plate_dtype : forall ds dense, pad_dtype ds = Ok dense -> In dense ds.
Proof.
  intros [|d0 r] dense H; [discriminate H|].
  pose proof (pad_dtype_rank _ _ _ H) as Hr.
  destruct (fold_max_in (map dt_rank r) (dt_rank d0)) as [E|E].
  - left. apply dt_rank_inj. congruence.
  - right. rewrite <- Hr in E. apply in_map_iff in E. destruct E as [x [Ex Hx]].
    apply dt_rank_inj in Ex. subst x. exact Hx.
Qed.

(* 3. the order of the plates does not matter *)
Lemma pad_dtype_perm : forall ds ds', Permutation ds ds' -> pad_dtype ds = pad_dtype ds'.
Proof.
  intros ds ds' HP.
  destruct ds as [|d r].
  - apply Permutation_nil in HP. subst ds'. reflexivity.
  - destruct ds' as [|d' r']; [apply Permutation_sym, Permutation_nil in HP; discriminate HP|].
    unfold pad_dtype, pad_dtype_of. f_equal. apply dt_rank_inj. rewrite !fold_join_rank.
    change (fold_left Nat.max (map dt_rank r) (dt_rank d)) with (fold_left Nat.max (map dt_rank (d :: r)) 0%nat).
    change (fold_left Nat.max (map dt_rank r') (dt_rank d')) with (fold_left Nat.max (map dt_rank (d' :: r')) 0%nat).
    apply fold_max_perm. apply Permutation_map. exact HP.
Qed.

(* errors: exactly on no arrays *)
Lemma pad_dtype_error_iff : forall ds, (exists e, pad_dtype ds = Err e) <-> ds = [].
Proof.
  intros [|d r]; split; intros H.
  - reflexivity.
  - exists 27%Z. reflexivity.
  - destruct H as [e H]. discriminate H.
  - discriminate H.
Qed.

(* the code before the repair: a float32 first plate makes the dense array float32, the float64 plate behind it is rounded;
   and the two orders of the same two plates get different dense dtypes *)
Lemma pad_dtype_first_only_rounds : exists ds dense k,
  pad_dtype_of true ds = Ok dense /\ stored_exactly dense ds k = false.
Proof. exists [F32; F64], F32, 1%nat. split; reflexivity. Qed.

Lemma pad_dtype_first_only_order : exists ds ds',
  Permutation ds ds' /\ pad_dtype_of true ds <> pad_dtype_of true ds'.
Proof.
  exists [F32; F64], [F64; F32]. split.
  - apply perm_swap.
  - cbn. intro H. discriminate H.
Qed.
