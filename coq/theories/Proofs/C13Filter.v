(* C13: the combination filter keeps exactly the experiments all of whose treatments occur in a
   full combination. *)
From Coq Require Import ZArith List Bool Arith Lia.
From Batchie Require Import Lib.Sexp Model.Encode Model.Screen Model.Retro Model.RetroInit Proofs.C11Lib.
Import ListNotations.
Open Scope nat_scope.

Lemma tkey_eqb_eq : forall a b, tkey_eqb a b = true <-> a = b.
Proof.
  intros [n1 d1] [n2 d2]. unfold tkey_eqb, tkey_cmp. cbn [fst snd].
  destruct (name_cmp n1 n2) eqn:E.
  - apply name_cmp_eq in E. subst. destruct (Z.compare_spec d1 d2) as [Hd|Hd|Hd]; split; intros H; try congruence;
      inversion H; lia.
  - split; [discriminate|]. intros H. inversion H; subst.
    assert (name_cmp n2 n2 = Eq) by now apply name_cmp_eq. congruence.
  - split; [discriminate|]. intros H. inversion H; subst.
    assert (name_cmp n2 n2 = Eq) by now apply name_cmp_eq. congruence.
Qed.

Lemma tid_eqb_eq : forall a b, tid_eqb a b = true <-> a = b.
Proof.
  intros [a|] [b|]; cbn [tid_eqb]; try (split; congruence).
  rewrite tkey_eqb_eq. split; congruence.
Qed.

Lemma tid_mem_In : forall t l, tid_mem t l = true <-> In t l.
Proof.
  intros t l. unfold tid_mem. rewrite existsb_exists. split.
  - intros (x & Hx & E). apply tid_eqb_eq in E. now subst.
  - intros H. exists t. split; [exact H|now apply tid_eqb_eq].
Qed.

(* a row without control *)
Lemma full_combo_spec : forall ctrl r, full_combo ctrl r = true <-> ~ In None (row_tids ctrl r).
Proof.
  intros ctrl r. unfold full_combo. rewrite forallb_forall. split.
  - intros H Hin. specialize (H _ Hin). cbn in H. discriminate.
  - intros H t Ht. destruct t as [k|]; [reflexivity|contradiction].
Qed.

Lemma In_all_tids : forall ctrl rows t, In t (all_tids ctrl rows) <-> exists r, In r rows /\ In t (row_tids ctrl r).
Proof.
  intros ctrl rows t. unfold all_tids. rewrite in_concat. split.
  - intros (l & Hl & Ht). apply in_map_iff in Hl as (r & <- & Hr). eauto.
  - intros (r & Hr & Ht). exists (row_tids ctrl r). split; [now apply in_map|exact Ht].
Qed.

(* specification predicate: every treatment of r is a control or occurs in some row without control *)
Definition keeps (ctrl : name) (rows : list row) (r : row) : bool :=
  forallb (fun t => tid_eqb t None || tid_mem t (combo_tids ctrl rows)) (row_tids ctrl r).

Lemma keeps_spec : forall ctrl rows r,
  keeps ctrl rows r = true <->
  forall t, In t (row_tids ctrl r) ->
    t = None \/ exists r', In r' rows /\ ~ In None (row_tids ctrl r') /\ In t (row_tids ctrl r').
Proof.
  intros ctrl rows r. unfold keeps. rewrite forallb_forall. split; intros H t Ht; specialize (H t Ht).
  - apply orb_true_iff in H as [H|H]; [left; now apply tid_eqb_eq|right].
    apply tid_mem_In in H. unfold combo_tids in H. apply In_all_tids in H as (r' & Hr' & Hin).
    apply filter_In in Hr' as [Hr' Hf]. apply full_combo_spec in Hf. eauto.
  - apply orb_true_iff. destruct H as [->|(r' & Hr' & Hf & Hin)]; [left; reflexivity|right].
    apply tid_mem_In. unfold combo_tids. apply In_all_tids. exists r'. split; [|exact Hin].
    apply filter_In. split; [exact Hr'|now apply full_combo_spec].
Qed.

Theorem combo_filter_exact : forall ctrl arity rows out,
  combo_filter ctrl arity rows = Ok out -> out = filter (keeps ctrl rows) rows.
Proof.
  intros ctrl arity rows out H. unfold combo_filter in H. destruct (arity <? 2); [discriminate|].
  now apply construct_ok in H.
Qed.
