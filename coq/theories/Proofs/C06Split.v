(* C06 proofs, part 1: np.array_split. *)
From Coq Require Import ZArith List Arith Lia.
From Batchie Require Import Lib.ListX Lib.Sexp Model.Scores.
Import ListNotations.
Open Scope nat_scope.

Lemma split_point_mono len n k : split_point len n k <= split_point len n (S k).
Proof. unfold split_point. assert (k * (len / n) <= S k * (len / n)) by nia. lia. Qed.

Lemma split_point_0 len n : split_point len n 0 = 0.
Proof. unfold split_point. cbn [Nat.mul Nat.add]. lia. Qed.

Lemma split_point_n len n : 0 < n -> split_point len n n = len.
Proof.
  intros Hn. unfold split_point.
  pose proof (Nat.div_mod len n) as Hdm. pose proof (Nat.mod_upper_bound len n) as Hub.
  rewrite Nat.min_r by lia. nia.
Qed.

Lemma split_point_le len n k : 0 < n -> k <= n -> split_point len n k <= len.
Proof.
  intros Hn Hk. rewrite <- (split_point_n len n Hn) at 2. unfold split_point.
  assert (k * (len / n) <= n * (len / n)) by nia. lia.
Qed.

Lemma split_point_step len n k :
  split_point len n (S k) - split_point len n k = len / n + (if k <? len mod n then 1 else 0).
Proof.
  unfold split_point. destruct (k <? len mod n) eqn:E.
  - apply Nat.ltb_lt in E. rewrite !Nat.min_l by lia. nia.
  - apply Nat.ltb_ge in E. rewrite !Nat.min_r by lia. nia.
Qed.

Lemma nth_map_seq {B} (f : nat -> B) n k d : k < n -> nth k (map f (seq 0 n)) d = f k.
Proof.
  intros Hk. rewrite (nth_indep _ d (f 0)) by (now rewrite map_length, seq_length).
  rewrite map_nth, seq_nth by exact Hk. reflexivity.
Qed.

Lemma array_split_length {A} (l : list A) n : length (array_split l n) = n.
Proof. unfold array_split. now rewrite map_length, seq_length. Qed.

Lemma array_split_concat {A} (l : list A) n : 0 < n -> concat (array_split l n) = l.
Proof.
  intros Hn. unfold array_split.
  rewrite (concat_slices l (split_point (length l) n) (split_point_mono _ _) n 0).
  cbn [Nat.add]. rewrite split_point_0, split_point_n by exact Hn.
  rewrite Nat.sub_0_r. cbn [skipn]. apply firstn_all.
Qed.

Lemma array_split_nth {A} (l : list A) n k : k < n ->
  nth k (array_split l n) [] =
  firstn (split_point (length l) n (S k) - split_point (length l) n k) (skipn (split_point (length l) n k) l).
Proof. intros Hk. unfold array_split. now rewrite nth_map_seq. Qed.

Lemma array_split_sizes {A} (l : list A) n k : 0 < n -> k < n ->
  length (nth k (array_split l n) []) = length l / n + (if k <? length l mod n then 1 else 0).
Proof.
  intros Hn Hk. rewrite array_split_nth by exact Hk.
  rewrite firstn_length, skipn_length.
  pose proof (split_point_le (length l) n (S k) Hn ltac:(lia)) as H1.
  pose proof (split_point_mono (length l) n k) as H2.
  rewrite <- split_point_step. lia.
Qed.

Lemma array_split_In {A} (l : list A) n k x : In x (nth k (array_split l n) []) -> In x l.
Proof.
  intros H. destruct (Nat.lt_ge_cases k n) as [Hk|Hk].
  - rewrite array_split_nth in H by exact Hk. eapply In_skipn, In_firstn, H.
  - rewrite nth_overflow in H by (now rewrite array_split_length). contradiction.
Qed.

Lemma array_split_cover {A} (l : list A) n x : 0 < n -> In x l ->
  exists k, k < n /\ In x (nth k (array_split l n) []).
Proof.
  intros Hn Hx. rewrite <- (array_split_concat l n Hn) in Hx.
  apply in_concat in Hx. destruct Hx as (c & Hc & Hxc).
  destruct (In_nth _ _ [] Hc) as (k & Hk & Hnth). rewrite array_split_length in Hk.
  exists k. split; [exact Hk|]. now rewrite Hnth.
Qed.

(* py_index on an in-range non-negative index *)
Lemma py_index_in_range {A} (l : list A) (k : Z) :
  (0 <= k < Z.of_nat (length l))%Z -> py_index l k = nth_error l (Z.to_nat k).
Proof.
  intros Hk. unfold py_index.
  destruct ((0 <=? k)%Z && (k <? Z.of_nat (length l))%Z)%bool eqn:E; [reflexivity|].
  apply Bool.andb_false_iff in E. destruct E as [E|E]; [apply Z.leb_gt in E|apply Z.ltb_ge in E]; lia.
Qed.
