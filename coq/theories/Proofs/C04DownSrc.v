(* C04 downstream non-interference, SOURCE level: the functions below are the Gallina translations of /repo's current
   text (Generated/SrcScoring.v, SrcScoringPolicy.v, SrcDistMat.v, SrcGibbs.v, SrcTrain.v, SrcCli.v), applied to what a
   screen's rows give each of them (Model/Downstream.v).  Two kinds of statement:
     *_is_model          the translated stage on the projection = the stage of Downstream.loop_iteration (through the C06 /
                         C07 / C04 links), so the model-level loop theorem is a theorem about the translations;
     *_noninterference   the translated stage answers alike on two screens that differ only behind the mask.
   The file systems of the command-line theorems map a path to the rows of the screen stored there. *)
From Coq Require Import ZArith List Bool QArith Qcanon Lia.
From Batchie Require Import Lib.Sexp Lib.Num Lib.PyRt Model.Train Model.Downstream Proofs.C04Train Proofs.C04Down.
From Batchie Require Model.Scores Model.Policy Model.Gibbs Model.DistMat Model.Cli.
From Batchie Require Export Proofs.C04DownSrc_Train Proofs.C04DownSrc_Dist Proofs.C04DownSrc_Scores Proofs.C04DownSrc_Policy
  Proofs.C04DownSrc_Cli.
Import ListNotations.
Open Scope Z_scope.

(* pieces (failure isolation: one file per stage, each importing only the link proofs of its own functions):
     C04DownSrc_Train.v   training (SparseDrugCombo, SparseDrugComboInteraction) and the sampler
     C04DownSrc_Dist.v    distance pipeline (C07)
     C04DownSrc_Scores.v  score_chunk / concat / select_next_plate (C06)
     C04DownSrc_Policy.v  select_next_plate with KPerSamplePlatePolicy (C16)
     C04DownSrc_Cli.v     the four main() functions
   this file: the whole iteration composed of them. *)

(* ---- the whole iteration from the translations ---- *)
Section SrcLoop.
Variables (V : Type) (vzero : V) (visz : V -> bool).
Variable run : Gibbs.data -> Gibbs.blk -> Gibbs.st -> Gibbs.gprog Gibbs.st.
Variable predict : Gibbs.st -> list (Z * list Z) -> list Qc.
Variable metric : list Qc -> list Qc -> V.
Variable scorer : list Gibbs.st -> list (list V) -> Scores.scorer_fn.
Variable orc : oracle.
Variable r32 : Qc -> oval.

Definition src_loop_iteration (c : loop_cfg) (rows : list trow)
  : result (list Gibbs.st * list (list V) * Scores.holder * option Z) :=
  dor th <- src_stage_thetas run orc r32 (lc_s0 c) (lc_vals c) rows;
  dor dm <- src_stage_dist V vzero visz Gibbs.st (lc_s0 c) predict metric th rows (lc_dchunks c) (lc_dorder c);
  dor h <- src_stage_scores (scorer th dm) rows (Some tt) (lc_batch c) (lc_schunks c) (lc_sorder c);
  dor sel <- match lc_policy c with
             | None => src_stage_select None h rows (lc_batch c) (Some tt)
             | Some k => src_stage_select_k k h rows (lc_batch c) (Some tt)
             end;
  Ok (th, dm, h, sel).

Lemma src_loop_iteration_noninterference c s1 s2 : same_except_masked s1 s2 ->
  src_loop_iteration c s1 = src_loop_iteration c s2.
Proof.
  intros H. unfold src_loop_iteration.
  rewrite (src_stage_thetas_noninterference run orc r32 (lc_s0 c) (lc_vals c) s1 s2 H).
  destruct (src_stage_thetas _ _ _ _ _ s2) as [th|e]; cbn [res_bind]; [|reflexivity].
  rewrite (src_stage_dist_noninterference V vzero visz Gibbs.st (lc_s0 c) predict metric th s1 s2 _ _ H).
  destruct (src_stage_dist _ _ _ _ _ _ _ th s2 _ _) as [dm|e]; cbn [res_bind]; [|reflexivity].
  rewrite (src_stage_scores_noninterference (scorer th dm) s1 s2 _ _ _ _ H).
  destruct (src_stage_scores _ s2 _ _ _ _) as [h|e]; cbn [res_bind]; [|reflexivity].
  destruct (lc_policy c) as [k|].
  - now rewrite (src_stage_select_k_noninterference k h s1 s2 _ _ H).
  - now rewrite (src_stage_select_noninterference None h s1 s2 _ _ H).
Qed.
End SrcLoop.

