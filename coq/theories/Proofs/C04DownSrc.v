(* C04 downstream non-interference, SOURCE level: the functions below are the Gallina translations of /repo's current
   text (Generated/SrcScoring.v, SrcScoringPolicy.v, SrcDistMat.v, SrcGibbs.v, SrcTrain.v, SrcCli.v), applied to what a
   screen's rows give each of them (Model/Downstream.v).  Two kinds of statement:
     *_is_model          the translated stage on the projection = the stage of Downstream.loop_iteration (through the C06 /
                         C07 / C04 links), so the model-level loop theorem is a theorem about the translations;
     *_noninterference   the translated stage answers alike on two screens that differ only behind the mask.
   The file systems of the command-line theorems map a path to the rows of the screen stored there. *)
From Coq Require Import ZArith List Bool QArith Qcanon Lia.
From Batchie Require Import Lib.Sexp Lib.Num Lib.PyRt Model.Train Model.Downstream Proofs.C04Train Proofs.C04Down.
From Batchie Require Model.Scores Model.Policy Model.Gibbs Model.DistMat Model.Cli.
From Batchie Require Generated.SrcScoring Generated.SrcScoringPolicy Generated.SrcDistMat Generated.SrcGibbs Generated.SrcTrain
  Generated.SrcCli.
From Batchie Require Proofs.C06Source Proofs.C06SourceCliScores Proofs.C07SourcePipeline Proofs.C07SourceCli Proofs.C16SourceSelect
  Proofs.C04Source Proofs.C04SourceCli.
Import ListNotations.
Open Scope Z_scope.

Lemma res_map_all_ext {A B} (f g : A -> result B) (l : list A) : (forall x, f x = g x) -> res_map_all f l = res_map_all g l.
Proof. intros H. induction l as [|a l IH]; [reflexivity|]. cbn [res_map_all]. now rewrite H, IH. Qed.

(* ================================================================ in-process stages *)

(* ---- training: the translated add_observations around the translated SparseDrugCombo._add_observations, on a fresh
   wrapped object, handed the observed subset (train_model.main's call) ---- *)
Definition src_stage_train (orc : oracle) (r32 : Qc -> oval) (rows : list trow) : result legacy :=
  match train_input rows with
  | Some o => SrcTrain.src_add_observations legacy (SrcTrain.src_sdc_add_observations orc r32) (legacy_of []) o
  | None => Ok (legacy_of [])
  end.

Lemma src_stage_train_is_model orc r32 rows :
  src_stage_train orc r32 rows = dor t <- train_sdc orc r32 rows; Ok (legacy_of t).
Proof.
  unfold src_stage_train, train_sdc. destruct (train_input rows) as [o|]; [|reflexivity].
  apply C04Source.src_sdc_add_is_model.
Qed.

Lemma src_stage_train_noninterference orc r32 s1 s2 : same_except_masked s1 s2 ->
  src_stage_train orc r32 s1 = src_stage_train orc r32 s2.
Proof. intros H. rewrite !src_stage_train_is_model. now rewrite (train_sdc_noninterference orc r32 s1 s2 H). Qed.

(* the same for SparseDrugComboInteraction: (single-effect lookup, wrapped object) after train_model.main's training call *)
Definition src_stage_train_int (orc : oracle) (r32 : Qc -> oval) (arity : nat) (rows : list trow) : result (lookup * legacy) :=
  match train_input rows with
  | Some o => SrcTrain.src_add_observations (lookup * legacy)
                (fun self d => SrcTrain.src_int_add_observations orc r32 arity (fst self) (snd self) d) ([], legacy_of []) o
  | None => Ok ([], legacy_of [])
  end.

Lemma src_stage_train_int_is_model orc r32 arity rows :
  src_stage_train_int orc r32 arity rows
  = dor s <- train_int orc r32 true true true arity rows; Ok (i_lookup s, legacy_of (i_train s)).
Proof.
  unfold src_stage_train_int, train_int. destruct (train_input rows) as [o|]; [|reflexivity].
  exact (C04Source.src_int_add_is_model orc r32 arity istate0 o).
Qed.

(* ... so whatever the interaction sampler and its predictions compute from the trained object (its Gibbs blocks read the wrapped
   lists, predict_viability the lookup frozen here) is computed from equal inputs *)
Lemma src_stage_train_int_noninterference orc r32 arity s1 s2 : same_except_masked s1 s2 ->
  src_stage_train_int orc r32 arity s1 = src_stage_train_int orc r32 arity s2.
Proof.
  intros H. rewrite !src_stage_train_int_is_model.
  now rewrite (train_int_noninterference orc r32 true true true arity s1 s2 H).
Qed.

(* ---- the sampler: the translated mcmc_step (its order of the thirteen block calls) with ANY block runner that is given
   the stored data - in particular C08's translated blocks `C08SourceObj.src_run flags g d orc` ---- *)
Definition legacy_data (w : legacy) : option Gibbs.data :=
  match all_some (map fin_of (lg_y w)) with
  | Some ys => Some {| Gibbs.d_y := ys; Gibbs.d_cl := lg_cline w; Gibbs.d_dd1 := lg_dd1 w; Gibbs.d_dd2 := lg_dd2 w |}
  | None => None
  end.

Lemma legacy_data_of st : legacy_data (legacy_of st) = gibbs_data st.
Proof. unfold legacy_data, gibbs_data, legacy_of. cbn [lg_y lg_cline lg_dd1 lg_dd2]. rewrite map_map. reflexivity. Qed.

Fixpoint src_sweeps (run : Gibbs.data -> Gibbs.blk -> Gibbs.st -> Gibbs.gprog Gibbs.st) (d : Gibbs.data) (nsteps : Z)
    (s : Gibbs.st) (vals : list (list Gibbs.val)) : option (list Gibbs.st) :=
  match vals with
  | [] => Some []
  | vs :: rest =>
      match snd (Gibbs.run_prog (Gibbs.to_prog (SrcGibbs.src_mcmc_step (run d) nsteps s)) vs) with
      | Some s' => match src_sweeps run d (nsteps + 1) s' rest with Some r => Some (s' :: r) | None => None end
      | None => None
      end
  end.

Definition src_stage_thetas run orc r32 (s0 : Gibbs.st) (vals : list (list Gibbs.val)) (rows : list trow)
  : result (list Gibbs.st) :=
  dor w <- src_stage_train orc r32 rows;
  match legacy_data w with
  | None => Err 3
  | Some d => match src_sweeps run d 0 s0 vals with Some th => Ok th | None => Err 9 end
  end.

Lemma src_stage_thetas_noninterference run orc r32 s0 vals s1 s2 : same_except_masked s1 s2 ->
  src_stage_thetas run orc r32 s0 vals s1 = src_stage_thetas run orc r32 s0 vals s2.
Proof. intros H. unfold src_stage_thetas. now rewrite (src_stage_train_noninterference orc r32 s1 s2 H). Qed.

(* the data the sampler is run on are the model's training trips of the observed rows *)
Lemma src_stage_thetas_data run orc r32 s0 vals rows :
  src_stage_thetas run orc r32 s0 vals rows =
  dor t <- train_sdc orc r32 rows;
  match gibbs_data t with
  | None => Err 3
  | Some d => match src_sweeps run d 0 s0 vals with Some th => Ok th | None => Err 9 end
  end.
Proof.
  unfold src_stage_thetas. rewrite src_stage_train_is_model.
  destruct (train_sdc orc r32 rows) as [t|e]; cbn [res_bind]; [|reflexivity]. now rewrite legacy_data_of.
Qed.

(* ---- distance: calculate_pairwise_distance_matrix_on_predictions per chunk, save, load, concat, to_dense (C07's
   src_pipeline), the prediction of a posterior sample being ANY function of the sample and the rows' ids ---- *)
Section Dist.
Variables (V : Type) (vzero : V) (visz : V -> bool) (T : Type) (dflt : T).
Variable predict : T -> list (Z * list Z) -> list Qc.
Variable metric : list Qc -> list Qc -> V.

Definition src_stage_dist (th : list T) (rows : list trow) (c : Z) (order : list Z) : result (list (list V)) :=
  C07SourcePipeline.src_pipeline V vzero visz T (list Qc) (fun i => nth (Z.to_nat i) th dflt)
    (fun t => predict t (pred_rows_of rows)) metric (length th) c order.

Lemma src_stage_dist_noninterference th s1 s2 c order : same_except_masked s1 s2 ->
  src_stage_dist th s1 c order = src_stage_dist th s2 c order.
Proof. intros H. unfold src_stage_dist. now rewrite (proj1 (proj2 (proj2 (views_noninterference s1 s2 H)))). Qed.
End Dist.

(* ---- scores: score_chunk per chunk, save, load, ChunkedScoresHolder.concat ---- *)
Definition src_stage_scores (scorer : Scores.scorer_fn) (rows : list trow) (rng : option Scores.rng_t) (batch : list Z)
    (n : Z) (order : list Z) : result Scores.holder :=
  dor hs <- res_map_all (fun k =>
              dor h <- SrcScoring.src_score_chunk scorer (scores_screen_of rows) rng n k (Some batch);
              Ok (Scores.h_load (Scores.h_save h))) order;
  SrcScoring.src_concat hs.

Lemma src_stage_scores_noninterference scorer s1 s2 rng batch n order : same_except_masked s1 s2 ->
  src_stage_scores scorer s1 rng batch n order = src_stage_scores scorer s2 rng batch n order.
Proof. intros H. unfold src_stage_scores. now rewrite (proj1 (views_noninterference s1 s2 H)). Qed.

Lemma src_stage_scores_is_model (V : Type) (scorer : list Gibbs.st -> list (list V) -> Scores.scorer_fn) c th dm rows rng :
  src_stage_scores (scorer th dm) rows rng (lc_batch c) (lc_schunks c) (lc_sorder c)
  = loop_scores V scorer c th dm (downstream_input rows).
Proof.
  unfold src_stage_scores, loop_scores. rewrite scores_screen_factors.
  erewrite res_map_all_ext.
  2: { intros k. rewrite C06Source.src_score_chunk_is_model.
       instantiate (1 := fun k => dor ps <- Scores.score_chunk (dn_scores_screen (downstream_input rows)) (lc_batch c) (lc_schunks c) k;
                                  dor h <- Scores.chunk_holder_of_answer ps (scorer th dm ps);
                                  Ok (Scores.h_load (Scores.h_save h))).
       cbv beta. destruct (Scores.score_chunk _ _ _ _) as [ps|e]; cbn [res_bind]; reflexivity. }
  destruct (res_map_all _ (lc_sorder c)) as [hs|e]; cbn [res_bind]; [apply C06Source.src_concat_is_model|reflexivity].
Qed.

(* ---- selection without a policy / with an arbitrary policy function (C06's translation) ---- *)
Definition src_stage_select (policy : option Scores.policy_t) (h : Scores.holder) (rows : list trow) (batch : list Z)
    (rng : option Scores.rng_t) : result (option Z) :=
  dor r <- SrcScoring.src_select_next_plate h (scores_screen_of rows) policy (Some batch) rng;
  Ok (option_map Scores.p_id r).

Lemma src_stage_select_is_model policy h rows batch rng :
  src_stage_select policy h rows batch rng = Scores.select_next policy (dn_scores_screen (downstream_input rows)) batch h.
Proof.
  unfold src_stage_select. rewrite C06Source.src_select_next_plate_is_model, scores_screen_factors.
  destruct (Scores.select_next _ _ _ _) as [[i|]|e]; reflexivity.
Qed.

Lemma src_stage_select_noninterference policy h s1 s2 batch rng : same_except_masked s1 s2 ->
  src_stage_select policy h s1 batch rng = src_stage_select policy h s2 batch rng.
Proof. intros H. unfold src_stage_select. now rewrite (proj1 (views_noninterference s1 s2 H)). Qed.

(* ---- selection with KPerSamplePlatePolicy(k) (C16's translation of select_next_plate; the policy's method is C16's
   filter_eligible = the translated filter_eligible_plates): a Plate is (id, sample ids of its rows), is_observed the
   conjunction of its rows' mask bits ---- *)
Definition observed_in (sp : list Policy.splate) (p : Policy.plate) : bool :=
  match find (fun q => Policy.plate_id (fst q) =? Policy.plate_id p) sp with
  | Some q => snd q
  | None => false
  end.

Definition src_stage_select_k (k : Z) (h : Scores.holder) (rows : list trow) (batch : list Z) (rng : option Policy.rng_t)
  : result (option Z) :=
  let sp := policy_plates_of rows in
  dor r <- SrcScoringPolicy.src_select_next_plate_k (observed_in sp) (Scores.h_slots h) (map fst sp) (Some k) (Some batch) rng;
  Ok (option_map Policy.plate_id r).

Lemma src_stage_select_k_noninterference k h s1 s2 batch rng : same_except_masked s1 s2 ->
  src_stage_select_k k h s1 batch rng = src_stage_select_k k h s2 batch rng.
Proof. intros H. unfold src_stage_select_k. now rewrite (proj1 (proj2 (views_noninterference s1 s2 H))). Qed.

(* ---- the whole iteration from the translations ---- *)
Section SrcLoop.
Variables (V : Type) (vzero : V) (visz : V -> bool).
Variable run : Gibbs.data -> Gibbs.blk -> Gibbs.st -> Gibbs.gprog Gibbs.st.
Variable predict : Gibbs.st -> list (Z * list Z) -> list Qc.
Variable metric : list Qc -> list Qc -> V.
Variable scorer : list Gibbs.st -> list (list V) -> Scores.scorer_fn.
Variable orc : oracle.
Variable r32 : Qc -> oval.

Definition src_loop_iteration (c : loop_cfg) (rows : list trow)
  : result (list Gibbs.st * list (list V) * Scores.holder * option Z) :=
  dor th <- src_stage_thetas run orc r32 (lc_s0 c) (lc_vals c) rows;
  dor dm <- src_stage_dist V vzero visz Gibbs.st (lc_s0 c) predict metric th rows (lc_dchunks c) (lc_dorder c);
  dor h <- src_stage_scores (scorer th dm) rows (Some tt) (lc_batch c) (lc_schunks c) (lc_sorder c);
  dor sel <- match lc_policy c with
             | None => src_stage_select None h rows (lc_batch c) (Some tt)
             | Some k => src_stage_select_k k h rows (lc_batch c) (Some tt)
             end;
  Ok (th, dm, h, sel).

Lemma src_loop_iteration_noninterference c s1 s2 : same_except_masked s1 s2 ->
  src_loop_iteration c s1 = src_loop_iteration c s2.
Proof.
  intros H. unfold src_loop_iteration.
  rewrite (src_stage_thetas_noninterference run orc r32 (lc_s0 c) (lc_vals c) s1 s2 H).
  destruct (src_stage_thetas _ _ _ _ _ s2) as [th|e]; cbn [res_bind]; [|reflexivity].
  rewrite (src_stage_dist_noninterference V vzero visz Gibbs.st (lc_s0 c) predict metric th s1 s2 _ _ H).
  destruct (src_stage_dist _ _ _ _ _ _ _ th s2 _ _) as [dm|e]; cbn [res_bind]; [|reflexivity].
  rewrite (src_stage_scores_noninterference (scorer th dm) s1 s2 _ _ _ _ H).
  destruct (src_stage_scores _ s2 _ _ _ _) as [h|e]; cbn [res_bind]; [|reflexivity].
  destruct (lc_policy c) as [k|].
  - now rewrite (src_stage_select_k_noninterference k h s1 s2 _ _ H).
  - now rewrite (src_stage_select_noninterference None h s1 s2 _ _ H).
Qed.
End SrcLoop.

(* ================================================================ the four command-line steps *)
(* a file system: what Screen.load_h5 yields at a path, as id-level rows *)
Definition screen_fs : Type := Cli.path -> result (list trow).
Definition fs_agree (fs1 fs2 : screen_fs) : Prop :=
  forall p, match fs1 p, fs2 p with
            | Ok s1, Ok s2 => same_except_masked s1 s2
            | Err a, Err b => a = b
            | _, _ => False
            end.

Lemma fs_agree_load {A} (f : list trow -> A) (fs1 fs2 : screen_fs) :
  (forall s1 s2, same_except_masked s1 s2 -> f s1 = f s2) -> fs_agree fs1 fs2 ->
  forall p, (dor s <- fs1 p; Ok (f s)) = (dor s <- fs2 p; Ok (f s)).
Proof.
  intros Hf H p. specialize (H p). destruct (fs1 p) as [a|a], (fs2 p) as [b|b]; cbn [res_bind]; try contradiction.
  - now rewrite (Hf a b H).
  - now subst.
Qed.

(* ---- train_model.main: the translated wrapper over ANY library whose screen loader is the file system, whose
   subset_observed is Train.train_input and whose ExperimentSpace.from_screen reads the rows' ids; model class, sampler,
   holder arbitrary ---- *)
Definition tm_lib_fs (Sp Pa Mo Th : Type) (fs : screen_fs) (from_ids : list (Z * list Z) -> result Sp)
    (set_space : Pa -> Sp -> Pa) (construct : Pa -> result Mo) (new_holder : Z -> result Th)
    (add_observations : Mo -> list trow -> result Mo)
    (sample : Mo -> Th -> Z -> option Z -> option Z -> option Z -> option Z -> bool -> result Th)
  : Cli.tm_lib (list trow) (list trow) Sp Pa Mo Th :=
  Cli.mk_tm_lib fs (fun s => from_ids (pred_rows_of s)) set_space construct new_holder train_input add_observations sample.

Lemma src_cli_train_model_noninterference Sp Pa Mo Th fs1 fs2 from_ids set_space construct new_holder add_obs sample params a :
  fs_agree fs1 fs2 ->
  SrcCli.src_cli_train_model _ _ Sp Pa Mo Th (tm_lib_fs Sp Pa Mo Th fs1 from_ids set_space construct new_holder add_obs sample) params a
  = SrcCli.src_cli_train_model _ _ Sp Pa Mo Th (tm_lib_fs Sp Pa Mo Th fs2 from_ids set_space construct new_holder add_obs sample) params a.
Proof.
  intros H. rewrite !C04SourceCli.src_cli_train_model_is_model. unfold Cli.cli_train_model, tm_lib_fs.
  cbn [Cli.tm_load_screen Cli.tm_from_screen Cli.tm_set_space Cli.tm_construct Cli.tm_new_holder Cli.tm_subset_observed
       Cli.tm_add_observations Cli.tm_sample].
  specialize (H (Cli.tm_data a)).
  destruct (fs1 (Cli.tm_data a)) as [s1|e1], (fs2 (Cli.tm_data a)) as [s2|e2]; cbn [res_bind]; try contradiction.
  - destruct (views_noninterference s1 s2 H) as (_ & _ & Hp & Ht). now rewrite Hp, Ht.
  - now subst.
Qed.

(* with SparseDrugCombo: the model object is (anything the constructor made, the wrapped legacy object), trained by the
   translated add_observations; what sample(...) is handed holds the model's training trips of the observed rows *)
Lemma src_cli_train_model_sdc_trains Sp Pa X Th fs from_ids set_space (construct : Pa -> result X) new_holder sample orc r32 params a :
  SrcCli.src_cli_train_model _ _ Sp Pa (X * legacy) Th
    (tm_lib_fs Sp Pa (X * legacy) Th fs from_ids set_space (fun pa => dor x <- construct pa; Ok (x, legacy_of [])) new_holder
       (fun m d => dor w <- SrcTrain.src_add_observations legacy (SrcTrain.src_sdc_add_observations orc r32) (snd m) d; Ok (fst m, w))
       sample) params a
  = dor s <- fs (Cli.tm_data a);
    dor sp <- from_ids (pred_rows_of s);
    dor x <- construct (set_space params sp);
    dor holder <- new_holder (Cli.tm_n_samples a);
    dor t <- train_sdc orc r32 s;
    dor results <- sample (x, legacy_of t) holder (Cli.tm_seed a) (Some (Cli.tm_n_chains a)) (Some (Cli.tm_chain_index a))
                     (Some (Cli.tm_n_burnin a)) (Some (Cli.tm_thin a)) (Cli.tm_progress a);
    Ok [(Cli.tm_output a, results)].
Proof.
  rewrite C04SourceCli.src_cli_train_model_is_model. unfold Cli.cli_train_model, tm_lib_fs.
  cbn [Cli.tm_load_screen Cli.tm_from_screen Cli.tm_set_space Cli.tm_construct Cli.tm_new_holder Cli.tm_subset_observed
       Cli.tm_add_observations Cli.tm_sample].
  destruct (fs (Cli.tm_data a)) as [s|e]; cbn [res_bind fst snd]; [|reflexivity].
  destruct (from_ids (pred_rows_of s)) as [sp|e]; cbn [res_bind]; [|reflexivity].
  destruct (construct (set_space params sp)) as [x|e]; cbn [res_bind]; [|reflexivity].
  destruct (new_holder (Cli.tm_n_samples a)) as [hd|e]; cbn [res_bind]; [|reflexivity].
  unfold train_sdc. destruct (train_input s) as [o|]; cbn [res_bind fst snd]; [|reflexivity].
  rewrite C04Source.src_sdc_add_is_model.
  destruct (sdc_add orc r32 [] o) as [t|e]; cbn [res_bind]; reflexivity.
Qed.

(* ---- calculate_distance_matrix.main: the library's calculate_... is the TRANSLATED function, a holder the list of its
   samples, the prediction of a sample ANY function of it and the rows' ids ---- *)
Section CliDist.
Variables (V : Type) (vzero : V) (visz : V -> bool) (T : Type) (dflt : T).
Variable predict : T -> list (Z * list Z) -> list Qc.

Definition cd_lib_fs (fs : screen_fs) (load_thetas : Cli.path -> result (list T)) (mk_metric : result (list Qc -> list Qc -> V))
  : Cli.cd_lib (list trow) (list T) (list Qc -> list Qc -> V) (DistMat.cdm V) :=
  Cli.mk_cd_lib fs load_thetas (fun l => match l with [] => Err 5 | _ => Ok (concat l) end) mk_metric
    (fun th me data k n _ =>
       SrcDistMat.src_calculate_pairwise V vzero visz T (list Qc) (Z.of_nat (length th))
         (fun i => nth (Z.to_nat i) th dflt) (fun t => predict t (pred_rows_of data)) me k n).

Lemma src_cli_calculate_distance_matrix_noninterference fs1 fs2 load_thetas mk_metric a : fs_agree fs1 fs2 ->
  SrcCli.src_cli_calculate_distance_matrix _ _ _ _ (cd_lib_fs fs1 load_thetas mk_metric) a
  = SrcCli.src_cli_calculate_distance_matrix _ _ _ _ (cd_lib_fs fs2 load_thetas mk_metric) a.
Proof.
  intros H. rewrite !C07SourceCli.src_cli_calculate_distance_matrix_is_model.
  unfold Cli.cli_calculate_distance_matrix, cd_lib_fs.
  cbn [Cli.cd_load_screen Cli.cd_load_thetas Cli.cd_concat_thetas Cli.cd_mk_metric Cli.cd_calculate].
  specialize (H (Cli.cd_data a)).
  destruct (fs1 (Cli.cd_data a)) as [s1|e1], (fs2 (Cli.cd_data a)) as [s2|e2]; cbn [res_bind]; try contradiction.
  - now rewrite (proj1 (proj2 (proj2 (views_noninterference s1 s2 H)))).
  - now subst.
Qed.
End CliDist.

(* ---- calculate_scores.main and select_next_plate.main over C06's library records (score_chunk, select_next_plate,
   ChunkedScoresHolder.concat = the translated functions) ---- *)
Definition scores_fs (fs : screen_fs) : Cli.path -> result Scores.screen :=
  fun p => dor s <- fs p; Ok (scores_screen_of s).

Lemma scores_fs_agree fs1 fs2 : fs_agree fs1 fs2 -> forall p, scores_fs fs1 p = scores_fs fs2 p.
Proof.
  intros H p. unfold scores_fs. apply (fs_agree_load scores_screen_of fs1 fs2); [|exact H].
  intros s1 s2 Hs. exact (proj1 (views_noninterference s1 s2 Hs)).
Qed.

Lemma src_cli_calculate_scores_noninterference (Th Dm : Type) fs1 fs2 mk_scorer load_thetas concat_thetas load_dist concat_dist mix a :
  fs_agree fs1 fs2 ->
  SrcCli.src_cli_calculate_scores _ _ _ _ _ _
    (C06SourceCliScores.cs_scores_lib Th Dm (scores_fs fs1) mk_scorer load_thetas concat_thetas load_dist concat_dist) mix a
  = SrcCli.src_cli_calculate_scores _ _ _ _ _ _
    (C06SourceCliScores.cs_scores_lib Th Dm (scores_fs fs2) mk_scorer load_thetas concat_thetas load_dist concat_dist) mix a.
Proof.
  intros H. rewrite !C06SourceCliScores.src_cli_calculate_scores_scores. now rewrite (scores_fs_agree fs1 fs2 H). Qed.

Lemma src_cli_select_next_plate_noninterference fs1 fs2 mk_policy load_scores mix a :
  fs_agree fs1 fs2 ->
  SrcCli.src_cli_select_next_plate _ _ _ _ (C06SourceCliScores.sn_scores_lib (scores_fs fs1) mk_policy load_scores) mix a
  = SrcCli.src_cli_select_next_plate _ _ _ _ (C06SourceCliScores.sn_scores_lib (scores_fs fs2) mk_policy load_scores) mix a.
Proof.
  intros H. rewrite !C06SourceCliScores.src_cli_select_next_plate_scores. now rewrite (scores_fs_agree fs1 fs2 H). Qed.
