(* C07, gap review G7.1: matrices built by hand through the public class, not by the pipeline.
   (1) any matrix whose stored keys are distinct, strictly lower-triangular and in range (whatever order they were added
       in, whatever values they carry) refuses to densify while a pair is missing, and densifies to the symmetric
       zero-diagonal matrix once none is;
   (2) the side condition is needed: add_value accepts a diagonal key (its guard is i < j), is_complete counts entries,
       so three accepted calls on a size-3 matrix give a "complete" matrix that densifies with two pairs missing and a
       non-zero diagonal.  Witness replayed on the implementation by harness/c07.py (extra check). *)
From Coq Require Import ZArith List Lia Arith Bool.
From Batchie Require Import Lib.Sexp Lib.ListX Model.Chunks Model.DistMat Proofs.C07Chunks Proofs.C07DistMat.
Import ListNotations.

Theorem hand_built_incomplete_refused (V : Type) (vzero : V) (d : nat -> nat -> V) (n : nat) (ps : list (nat * nat)) i j :
  NoDup ps -> Forall (valid n) ps -> (j < i < n)%nat -> ~ In (i, j) ps ->
  to_dense V vzero (mk V d n ps) = Err 5%Z.
Proof.
  intros Hnd Hv Hij Hnin. apply (to_dense_incomplete V vzero d n ps i j); [|exact Hij|exact Hnin].
  now apply WF_mk.
Qed.

Theorem hand_built_complete_densifies (V : Type) (vzero : V) (d : nat -> nat -> V) (n : nat) (ps : list (nat * nat)) :
  NoDup ps -> Forall (valid n) ps -> (forall i j, (j < i < n)%nat -> In (i, j) ps) ->
  to_dense V vzero (mk V d n ps) = Ok (dense_of V vzero d n).
Proof.
  intros Hnd Hv Hall. apply to_dense_complete; [now apply WF_mk|exact Hall].
Qed.

(* the keys of mk ps are built by add_value calls in the order of ps *)
Theorem hand_built_by_add_value (V : Type) (d : nat -> nat -> V) (n : nat) (ps : list (nat * nat)) :
  Forall (valid n) ps -> add_all V d (dm_empty V (Z.of_nat n)) ps = Ok (mk V d n ps).
Proof.
  intros Hv. rewrite (add_all_valid V d n ps (dm_empty V (Z.of_nat n)) eq_refl Hv). reflexivity.
Qed.

Definition ill_formed_script : result (dmat Z) :=
  dor m1 <- add_value Z (dm_empty Z 3) 1 1 5;
  dor m2 <- add_value Z m1 2 2 7;
  add_value Z m2 1 0 3.

Theorem to_dense_accepts_ill_formed :
  exists m D, ill_formed_script = Ok m /\ to_dense Z 0%Z m = Ok D
              /\ has_key Z (dm_entries m) 2 0 = false /\ has_key Z (dm_entries m) 2 1 = false
              /\ D = [[0; 3; 0]; [3; 5; 0]; [0; 0; 7]]%Z.
Proof.
  eexists. eexists. split; [vm_compute; reflexivity|]. split; [vm_compute; reflexivity|].
  repeat split; vm_compute; reflexivity.
Qed.
