(* C10 lemmas, part 1: the insertion sort of Model/Thetas.v, uniqueness of the sorted
   arrangement of a list with distinct keys, decimal keys. *)
From Coq Require Import ZArith List Bool Lia Permutation Sorted Decimal DecimalNat.
From Batchie Require Import Lib.Sexp Model.Thetas.
Import ListNotations.

Lemma sort_insert_perm {A K} (key : A -> K) (leb : K -> K -> bool) x l :
  Permutation (sort_insert key leb x l) (x :: l).
Proof.
  induction l as [|y r IH]; cbn [sort_insert].
  - reflexivity.
  - destruct (leb (key x) (key y)).
    + reflexivity.
    + transitivity (y :: x :: r).
      * apply perm_skip, IH.
      * apply perm_swap.
Qed.

Lemma sort_by_perm {A K} (key : A -> K) (leb : K -> K -> bool) l :
  Permutation (sort_by key leb l) l.
Proof.
  induction l as [|x r IH]; cbn [sort_by fold_right].
  - constructor.
  - etransitivity; [apply sort_insert_perm|]. apply perm_skip, IH.
Qed.

Section NatKey.
Context {A : Type} (key : A -> nat).
Definition le_key (a b : A) : Prop := (key a <= key b)%nat.

Lemma sort_insert_sorted x l :
  StronglySorted le_key l -> StronglySorted le_key (sort_insert key Nat.leb x l).
Proof.
  induction l as [|y r IH]; intros Hs; cbn [sort_insert].
  - constructor; constructor.
  - apply StronglySorted_inv in Hs as [Hr Hy].
    destruct (Nat.leb (key x) (key y)) eqn:E.
    + apply Nat.leb_le in E. constructor.
      * constructor; assumption.
      * constructor; [exact E|].
        rewrite Forall_forall in *. intros z Hz. specialize (Hy z Hz). unfold le_key in *. lia.
    + apply Nat.leb_gt in E. constructor.
      * apply IH, Hr.
      * eapply Permutation_Forall; [symmetry; apply sort_insert_perm|].
        constructor; [unfold le_key; lia | exact Hy].
Qed.

Lemma sort_by_sorted l : StronglySorted le_key (sort_by key Nat.leb l).
Proof.
  induction l as [|x r IH]; cbn [sort_by fold_right].
  - constructor.
  - apply sort_insert_sorted, IH.
Qed.

Lemma key_inj_in l a b :
  NoDup (map key l) -> In a l -> In b l -> key a = key b -> a = b.
Proof.
  induction l as [|c r IH]; intros Hnd Ha Hb Hk; [contradiction|].
  cbn [map] in Hnd. inversion Hnd as [|? ? Hnotin Hnd']; subst.
  destruct Ha as [->|Ha], Hb as [->|Hb].
  - reflexivity.
  - exfalso. apply Hnotin. rewrite Hk. apply in_map, Hb.
  - exfalso. apply Hnotin. rewrite <- Hk. apply in_map, Ha.
  - apply IH; assumption.
Qed.

(* a list with distinct keys has exactly one sorted arrangement *)
Lemma sorted_perm_unique l1 : forall l2,
  StronglySorted le_key l1 -> StronglySorted le_key l2 -> NoDup (map key l1) ->
  Permutation l1 l2 -> l1 = l2.
Proof.
  induction l1 as [|a r1 IH]; intros l2 H1 H2 Hnd Hp.
  - apply Permutation_nil in Hp. now subst.
  - destruct l2 as [|b r2]; [symmetry in Hp; now apply Permutation_nil_cons in Hp|].
    assert (Hab : a = b).
    { apply StronglySorted_inv in H1 as [_ Fa]. apply StronglySorted_inv in H2 as [_ Fb].
      rewrite Forall_forall in Fa, Fb.
      assert (Hb : In b (a :: r1)) by (eapply Permutation_in; [symmetry; exact Hp | now left]).
      assert (Ha : In a (b :: r2)) by (eapply Permutation_in; [exact Hp | now left]).
      destruct Hb as [Hb|Hb]; [exact Hb|]. destruct Ha as [Ha|Ha]; [now symmetry|].
      apply (key_inj_in (a :: r1)); [exact Hnd | now left | now right |].
      specialize (Fa b Hb). specialize (Fb a Ha). unfold le_key in *. lia. }
    subst b. f_equal. apply IH.
    + now apply StronglySorted_inv in H1.
    + now apply StronglySorted_inv in H2.
    + cbn [map] in Hnd. now inversion Hnd.
    + eapply Permutation_cons_inv, Hp.
Qed.

(* sorting any rearrangement of a strictly key-sorted list gives that list back *)
Lemma sort_by_restores l0 gs :
  StronglySorted le_key l0 -> NoDup (map key l0) -> Permutation gs l0 ->
  sort_by key Nat.leb gs = l0.
Proof.
  intros Hs Hnd Hp. symmetry. apply sorted_perm_unique; [exact Hs | apply sort_by_sorted | exact Hnd |].
  transitivity gs; [symmetry; exact Hp | symmetry; apply sort_by_perm].
Qed.

Lemma keys_seq_sorted l : forall s n, map key l = seq s n -> StronglySorted le_key l.
Proof.
  induction l as [|a r IH]; intros s n H.
  - constructor.
  - destruct n as [|n]; [discriminate|]. cbn [map seq] in H. injection H as Ha Hr.
    constructor; [eapply IH, Hr|].
    rewrite Forall_forall. intros z Hz.
    assert (Hin : In (key z) (seq (S s) n)) by (rewrite <- Hr; apply in_map, Hz).
    apply in_seq in Hin. unfold le_key. lia.
Qed.
End NatKey.

(* int(str(k)) = k *)
Lemma index_of_key_of_index k : index_of_key (key_of_index k) = k.
Proof. apply Unsigned.of_to. Qed.

Lemma key_of_index_inj a b : key_of_index a = key_of_index b -> a = b.
Proof. intros H. rewrite <- (index_of_key_of_index a), <- (index_of_key_of_index b). now f_equal. Qed.
