(* C19 — the shape of reachable trees ("canonical trees") and what examine / plan_of
   compute on them. *)
From Coq Require Import ZArith List Bool Lia Arith.
From Batchie Require Import Model.Orchestrate Proofs.C19Base.
Import ListNotations.
Open Scope Z_scope.

Section Canon.
Variables (md : mode) (bs n : nat).
Hypothesis Hbs : (1 <= bs)%nat.
Hypothesis Hn : (1 <= n)%nat.

(* ---------- arithmetic of step indices ---------- *)
Lemma dm_spec k : (k = (k / bs) * bs + k mod bs /\ k mod bs < bs)%nat.
Proof.
  split; [|apply Nat.mod_upper_bound; lia].
  rewrite Nat.mul_comm. apply Nat.div_mod. lia.
Qed.

Lemma dm_unique q r : (r < bs)%nat -> ((q * bs + r) / bs = q /\ (q * bs + r) mod bs = r)%nat.
Proof.
  intros Hr. split.
  - symmetry. apply (Nat.div_unique _ _ _ r); [exact Hr|lia].
  - symmetry. apply (Nat.mod_unique _ _ q r); [exact Hr|lia].
Qed.

Lemma dm_succ k :
  ((S k mod bs = 0 /\ S k / bs = S (k / bs) /\ k mod bs = bs - 1) \/
   (S k mod bs = S (k mod bs) /\ S k / bs = k / bs /\ S (k mod bs) < bs))%nat.
Proof.
  destruct (dm_spec k) as [Hk Hr].
  destruct (Nat.eq_dec (k mod bs) (bs - 1)) as [E|E].
  - left. destruct (dm_unique (S (k / bs)) 0) as [H1 H2]; [lia|].
    replace (S (k / bs) * bs + 0)%nat with (S k) in * by lia. tauto.
  - right. destruct (dm_unique (k / bs) (S (k mod bs))) as [H1 H2]; [lia|].
    replace (k / bs * bs + S (k mod bs))%nat with (S k) in * by lia. repeat split; [exact H2|exact H1|lia].
Qed.

Lemma dm_lt k c : (k < c)%nat -> (k / bs < c / bs \/ (k / bs = c / bs /\ k mod bs < c mod bs))%nat.
Proof.
  intros H. destruct (dm_spec k) as [Hk Hr]. destruct (dm_spec c) as [Hc Hrc].
  destruct (Nat.lt_trichotomy (k / bs) (c / bs)) as [L|[E|G]]; [now left| |].
  - right. split; [exact E|]. rewrite E in Hk. lia.
  - exfalso. assert ((c / bs + 1) * bs <= (k / bs) * bs)%nat by (apply Nat.mul_le_mono_r; lia). lia.
Qed.

(* ---------- canonical trees ---------- *)
Definition ip (c : nat) : pdir := ideal_pdir md bs n c.
Definition plates_of (i a cnt : nat) : idir := tab (fun j => ip (i * bs + j)) a cnt.
Definition full_iter (i : nat) : idir := plates_of i 0 bs.

Inductive extra := XNone | XEmptyIter | XIncomplete (d : pdir).

Definition tail_of (x : extra) (J : nat) : idir :=
  match x with XIncomplete d => [(Z.of_nat J, d)] | _ => [] end.
Definition last_iter (I J : nat) (x : extra) : fs :=
  match J, x with
  | O, XNone => []
  | _, _ => [(Z.of_nat I, plates_of I 0 J ++ tail_of x J)]
  end.
Definition canon (c : nat) (x : extra) : fs :=
  tab full_iter 0 (c / bs) ++ last_iter (c / bs) (c mod bs) x.

Definition okx (c : nat) (x : extra) : Prop :=
  match x with
  | XNone => True
  | XEmptyIter => True      (* when c mod bs > 0 this is the same tree as XNone *)
  | XIncomplete d => f_meta d = None
  end.

Lemma canon_0 : canon 0 XNone = [].
Proof. unfold canon. rewrite Nat.div_0_l, Nat.mod_0_l by lia. reflexivity. Qed.

(* the incomplete directory, once it holds the ideal contents, is the next completed step *)
Lemma canon_complete c : canon c (XIncomplete (ip c)) = canon (S c) XNone.
Proof.
  unfold canon. destruct (dm_spec c) as [Hc Hr].
  assert (Hlast : plates_of (c / bs) 0 (c mod bs) ++ [(Z.of_nat (c mod bs), ip c)] = plates_of (c / bs) 0 (S (c mod bs))).
  { unfold plates_of. rewrite tab_S. cbn [Nat.add]. now rewrite <- Hc. }
  destruct (dm_succ c) as [(H1 & H2 & H3)|(H1 & H2 & H3)]; rewrite H1, H2.
  - rewrite tab_S. cbn [Nat.add last_iter]. rewrite app_nil_r.
    assert (E : last_iter (c / bs) (c mod bs) (XIncomplete (ip c)) = [(Z.of_nat (c / bs), full_iter (c / bs))]).
    { unfold last_iter, tail_of, full_iter. rewrite Hlast. replace (S (c mod bs)) with bs by lia. now destruct (c mod bs)%nat. }
    now rewrite E.
  - f_equal. unfold last_iter at 2. cbn [tail_of]. rewrite app_nil_r. rewrite <- Hlast.
    unfold last_iter, tail_of. now destruct (c mod bs)%nat.
Qed.

(* ---------- look-ups in canonical trees ---------- *)
Lemma lookup_last_iter I J x :
  (0 < J)%nat \/ x <> XNone ->
  lookup (Z.of_nat I) (last_iter I J x) = Some (plates_of I 0 J ++ tail_of x J).
Proof.
  intros H. unfold last_iter. destruct J, x; try (cbn [lookup]; now rewrite Z.eqb_refl).
  destruct H; [lia|congruence].
Qed.

Lemma lookup_canon_last c x :
  (0 < c mod bs)%nat \/ x <> XNone ->
  lookup (Z.of_nat (c / bs)) (canon c x) = Some (plates_of (c / bs) 0 (c mod bs) ++ tail_of x (c mod bs)).
Proof.
  intros H. unfold canon. rewrite lookup_app, lookup_tab_out by lia. now apply lookup_last_iter.
Qed.

Lemma lookup_canon_none c : (c mod bs = 0)%nat -> lookup (Z.of_nat (c / bs)) (canon c XNone) = None.
Proof.
  intros H. unfold canon. rewrite lookup_app, lookup_tab_out by lia. rewrite H. reflexivity.
Qed.

Lemma get_plate_canon c x k : (k < c)%nat -> get_plate (canon c x) (step_of bs k) = Some (ip k).
Proof.
  intros Hk. unfold get_plate, step_of. cbn [fst snd].
  destruct (dm_spec k) as [Ek Hr].
  destruct (dm_lt k c Hk) as [L|[E L]].
  - unfold canon. rewrite lookup_app, lookup_tab_in by lia.
    unfold full_iter, plates_of. rewrite lookup_tab_in by lia. now rewrite <- Ek.
  - rewrite E, lookup_canon_last by lia. rewrite lookup_app. unfold plates_of.
    rewrite lookup_tab_in by lia. rewrite <- E. now rewrite <- Ek.
Qed.

(* ---------- sortedness ---------- *)
Lemma sort_plates I a J x : sort_dirs (plates_of I a J ++ tail_of x (a + J)) = plates_of I a J ++ tail_of x (a + J).
Proof.
  apply sort_incr. destruct x; cbn [tail_of]; rewrite ?app_nil_r; try apply incr_tab.
  apply incr_app_last; [apply incr_tab|]. intros q Hq. apply tab_keys_lt in Hq. lia.
Qed.

Lemma sort_canon c x : sort_dirs (canon c x) = canon c x.
Proof.
  apply sort_incr. unfold canon, last_iter.
  destruct (c mod bs)%nat, x; rewrite ?app_nil_r; try apply incr_tab;
    (apply incr_app_last; [apply incr_tab|]; intros q Hq; apply tab_keys_lt in Hq; lia).
Qed.

(* ---------- contents of the ideal directories ---------- *)
Definition meta_of (k : nat) : Z := match f_meta (ip k) with Some m => m | None => 0 end.

Lemma ip_meta k : f_meta (ip k) = Some (meta_of k).
Proof. unfold meta_of, ip, ideal_pdir. destruct md; [reflexivity|]. now destruct (k mod bs)%nat. Qed.

Lemma meta_of_retro k : md = Retro -> meta_of k = Z.of_nat (n - k - 1).
Proof.
  intros E. unfold meta_of, ip, ideal_pdir. rewrite E. cbn [f_meta]. unfold zlen. now rewrite seqZ_length.
Qed.

(* ---------- examine on canonical trees ---------- *)
Definition st_done (k : nat) : exst :=
  mkx (Some (meta_of k)) (Z.of_nat (k / bs)) (Z.of_nat (k mod bs)) (Some (step_of bs k, ip k)).

Lemma examine_plates_app it st idx l1 l2 :
  examine_plates it st idx (l1 ++ l2)
  = xbind (examine_plates it st idx l1) (fun st' => examine_plates it st' (idx + Z.of_nat (length l1)) l2).
Proof.
  revert st idx; induction l1 as [|[pidx d] l1 IH]; intros st idx; cbn [app examine_plates length xbind].
  - now rewrite Z.add_0_r.
  - destruct (f_meta d); [|reflexivity]. destruct (negb (pidx =? idx)); [reflexivity|].
    rewrite IH. replace (idx + Z.of_nat (S (length l1))) with (idx + 1 + Z.of_nat (length l1)) by lia. reflexivity.
Qed.

Lemma examine_plates_tab i : forall cnt st a, (a + cnt <= bs)%nat ->
  examine_plates (Z.of_nat i) st (Z.of_nat a) (plates_of i a cnt)
  = XOk (match cnt with O => st | S m => st_done (i * bs + (a + m)) end).
Proof.
  induction cnt as [|cnt IH]; intros st a H; [reflexivity|].
  unfold plates_of. rewrite tab_cons. fold (plates_of i (S a) cnt). cbn [examine_plates].
  rewrite ip_meta, Z.eqb_refl. cbn [negb].
  replace (Z.of_nat a + 1) with (Z.of_nat (S a)) by lia. rewrite IH by lia.
  destruct (dm_unique i a) as [H1 H2]; [lia|].
  destruct cnt as [|m].
  - unfold st_done, step_of. rewrite Nat.add_0_r, H1, H2. reflexivity.
  - do 2 f_equal. lia.
Qed.

Lemma examine_iter_full fixed st i :
  examine_iter fixed st (Z.of_nat i, full_iter i) = XOk (st_done (i * bs + (bs - 1))).
Proof.
  unfold examine_iter, full_iter. cbn [fst snd].
  pose proof (sort_plates i 0 bs XNone) as Hs. cbn [tail_of] in Hs. rewrite app_nil_r in Hs. rewrite Hs.
  destruct bs as [|b] eqn:Eb; [lia|]. rewrite <- Eb in *.
  assert (Hnil : is_nil (plates_of i 0 bs) = false) by (rewrite Eb; reflexivity).
  rewrite Hnil, andb_false_r. change 0 with (Z.of_nat 0) at 2.
  rewrite examine_plates_tab by lia. rewrite Eb. cbn [Nat.add]. do 3 f_equal. lia.
Qed.

Lemma examine_iters_full fixed : forall cnt st a rest,
  examine_iters fixed st (tab full_iter a cnt ++ rest)
  = examine_iters fixed (match cnt with O => st | S m => st_done ((a + m) * bs + (bs - 1)) end) rest.
Proof.
  induction cnt as [|cnt IH]; intros st a rest; [reflexivity|].
  rewrite tab_cons. cbn [app examine_iters]. rewrite examine_iter_full. cbn [xbind]. rewrite IH.
  destruct cnt as [|m]; [now rewrite Nat.add_0_r|]. do 3 f_equal. lia.
Qed.

Definition st_before (c : nat) : exst := match c with O => exst0 | S c' => st_done c' end.

Lemma st_before_plate0 c : bs = 1%nat -> x_plate (st_before c) = 0.
Proof.
  intros E. destruct c as [|c']; [reflexivity|]. cbn [st_before st_done x_plate]. rewrite E, Nat.mod_1_r. reflexivity.
Qed.

Lemma examine_last fixed st I J x :
  (J < bs)%nat -> (forall d, x = XIncomplete d -> f_meta d = None) ->
  examine_iters fixed st [(Z.of_nat I, plates_of I 0 J ++ tail_of x J)]
  = match x with
    | XIncomplete _ => XNamed 1 (Z.of_nat I, Z.of_nat J)
    | _ => XOk (match J with
                | O => if fixed then st else mkx (x_meta st) (x_iter st) 0 (x_leak st)
                | S m => st_done (I * bs + m)
                end)
    end.
Proof.
  intros HJ Hx. cbn [examine_iters]. unfold examine_iter. cbn [fst snd].
  pose proof (sort_plates I 0 J x) as Hs. cbn [Nat.add] in Hs. rewrite Hs.
  rewrite examine_plates_app. change 0 with (Z.of_nat 0) at 2. rewrite examine_plates_tab by lia. cbn [xbind Nat.add].
  unfold plates_of at 2. unfold tab at 1. rewrite map_length, seq_length.
  destruct J as [|m].
  - destruct x as [| |d]; cbn [tail_of app is_nil andb examine_plates xbind plates_of tab seq map].
    + rewrite andb_true_r. now destruct fixed.
    + rewrite andb_true_r. now destruct fixed.
    + rewrite (Hx d eq_refl). reflexivity.
  - destruct x as [| |d]; cbn [tail_of examine_plates xbind]; try reflexivity.
    rewrite (Hx d eq_refl). reflexivity.
Qed.

Lemma examine_iters_canon fixed c x :
  okx c x -> fixed = true \/ bs = 1%nat ->
  examine_iters fixed exst0 (canon c x)
  = match x with
    | XIncomplete _ => XNamed 1 (step_of bs c)
    | _ => XOk (st_before c)
    end.
Proof.
  intros Hx Hfix. unfold canon. rewrite examine_iters_full.
  destruct (dm_spec c) as [Hc Hr]. unfold step_of.
  assert (Hxd : forall d, x = XIncomplete d -> f_meta d = None) by (intros d ->; exact Hx).
  (* state before the last iteration directory *)
  assert (Hpre : (c mod bs = 0)%nat ->
     match (c / bs)%nat with O => exst0 | S m => st_done ((0 + m) * bs + (bs - 1)) end = st_before c).
  { intros EJ. destruct (c / bs)%nat as [|m]; [replace c with O by lia; reflexivity|].
    destruct c as [|c']; [lia|]. cbn [st_before Nat.add]. f_equal. lia. }
  unfold last_iter. destruct (c mod bs)%nat as [|m] eqn:EJ.
  - destruct x as [| |d].
    + cbn [examine_iters]. now rewrite Hpre.
    + rewrite (examine_last fixed _ _ 0 XEmptyIter) by (lia || exact Hxd). rewrite Hpre by reflexivity.
      destruct Hfix as [->|E1]; [reflexivity|]. destruct fixed; [reflexivity|]. f_equal.
      pose proof (st_before_plate0 c E1) as Hp. destruct (st_before c) as [m0 i0 p0 l0]. cbn in Hp |- *. now subst p0.
    + rewrite (examine_last fixed _ _ 0 (XIncomplete d)) by (lia || exact Hxd). reflexivity.
  - rewrite (examine_last fixed _ _ (S m) x) by (lia || exact Hxd).
    destruct x; try reflexivity;
      (destruct c as [|c']; [lia|]; cbn [st_before]; do 2 f_equal; lia).
Qed.

(* the next-step arithmetic lands on step_of c *)
Lemma next_step_arith c' :
  (if Z.of_nat (c' mod bs) >=? Z.of_nat bs - 1
   then (Z.of_nat (c' / bs) + 1, 0)
   else (Z.of_nat (c' / bs), Z.of_nat (c' mod bs) + 1)) = step_of bs (S c').
Proof.
  unfold step_of. destruct (dm_succ c') as [(H1 & H2 & H3)|(H1 & H2 & H3)]; rewrite H1, H2.
  - replace (Z.of_nat (c' mod bs) >=? Z.of_nat bs - 1) with true by (symmetry; apply Z.geb_le; lia).
    f_equal; lia.
  - replace (Z.of_nat (c' mod bs) >=? Z.of_nat bs - 1) with false.
    + f_equal; lia.
    + symmetry. destruct (Z.geb_spec (Z.of_nat (c' mod bs)) (Z.of_nat bs - 1)); [lia|reflexivity].
Qed.

Lemma examine_canon fixed c x :
  okx c x -> fixed = true \/ bs = 1%nat ->
  examine fixed (Z.of_nat bs) (canon c x)
  = match x with
    | XIncomplete _ => XNamed 1 (step_of bs c)
    | _ => match c with
           | O => XOk (0, 0, None, None)
           | S c' => XOk (fst (step_of bs c), snd (step_of bs c), Some (meta_of c'),
                          screen_of (Some (step_of bs c', ip c')))
           end
    end.
Proof.
  intros Hx Hfix. unfold examine. rewrite sort_canon, (examine_iters_canon fixed c x Hx Hfix).
  destruct x as [| |d]; cbn [xbind]; try reflexivity;
    (destruct c as [|c']; [reflexivity|]; cbn [st_before st_done x_meta x_plate x_iter x_leak];
     pose proof (next_step_arith c') as Ha;
     destruct (Z.of_nat (c' mod bs) >=? Z.of_nat bs - 1); rewrite <- Ha; reflexivity).
Qed.

End Canon.
