(* C07: MSEDistance.__init__ (Generated/SrcInits.v) stores its argument: the attribute the translated methods of the class read
   (`self.<attr>` = the model parameter of their links) is the value the object was constructed with - sigmoid *)
From Coq Require Import ZArith List Bool.
From Batchie Require Import Lib.Sexp Lib.PyRt Model.Encode Generated.SrcInits.
Import ListNotations.
Open Scope Z_scope.

Theorem src_mse_distance_init_stores : forall sigmoid : bool, src_mse_distance_init sigmoid = Ok sigmoid.
Proof. reflexivity. Qed.
