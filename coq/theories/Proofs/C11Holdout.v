(* C11: the hold-out splits partition their input; per-plate counts under the numpy contract. *)
From Coq Require Import ZArith List Bool Arith Lia Permutation.
From Batchie Require Import Lib.Sexp Model.Encode Model.Screen Model.Retro Model.RetroHoldout
  Proofs.C11Lib Proofs.C11Gen Proofs.C11Select.
Import ListNotations.
Open Scope nat_scope.

(* ---------- specification vocabulary ---------- *)
Definition unobserved_plates (rows : list row) : list name :=
  filter (fun p => negb (plate_observed p rows)) (plate_names_of rows).
Definition plate_count (p : name) (rows : list row) : nat := length (filter (in_plate p) rows).

(* numpy: rng.choice(plate_indices, n, replace=False) answers a duplicate-free sub-list of plate_indices
   (one answer per unobserved plate, in plate order) *)
Definition choice_contract (rows : list row) (ds : list draw) : Prop :=
  Forall2 (fun q d => exists idx, d = DInts idx /\ NoDup idx /\ incl idx (idx_where (in_plate q) rows))
          (unobserved_plates rows) (firstn (length (unobserved_plates rows)) ds).

(* ---------- ceil ---------- *)
Lemma ceil_frac_spec : forall size num den,
  let n := ceil_frac size num den in
  (Zpos den * (n - 1) < Z.of_nat size * num <= Zpos den * n)%Z.
Proof.
  intros size num den n. subst n. unfold ceil_frac.
  set (a := (Z.of_nat size * num + Z.pos den - 1)%Z).
  pose proof (Z.div_mod a (Zpos den) ltac:(lia)) as Hdm.
  pose proof (Z.mod_pos_bound a (Zpos den) ltac:(lia)) as Hb.
  set (q := (a / Zpos den)%Z) in *. set (m := (a mod Zpos den)%Z) in *.
  assert (Ha : a = (Z.of_nat size * num + Z.pos den - 1)%Z) by reflexivity.
  nia.
Qed.

(* ---------- the plate loop ---------- *)
Lemma ho_plates_spec : forall n num den rows plates counts ds K0 sel ds',
  ho_plates n num den rows plates counts ds (vof_idx n K0) = Ok (sel, ds') ->
  exists assoc : list (name * list nat),
    sel = vof_idx n (K0 ++ concat (map snd assoc)) /\
    map fst assoc = filter (fun p => negb (plate_observed p rows)) plates /\
    ds = map (fun qd => DInts (snd qd)) assoc ++ ds' /\
    (counts = None -> forall q d, In (q, d) assoc ->
       Z.of_nat (length d) = ceil_frac (vcount (plate_vec q rows)) num den) /\
    (forall cs, counts = Some cs ->
       map (fun qd => Z.of_nat (length (snd qd))) assoc = firstn (length assoc) cs).
Proof.
  intros n num den rows plates. induction plates as [|p plates IH]; intros counts ds K0 sel ds' H;
    cbn [ho_plates] in H.
  - inversion H; subst. exists []. cbn. rewrite app_nil_r. repeat split; auto. intros _ q d [].
  - cbn [filter]. destruct (plate_observed p rows) eqn:Eo; cbn [negb].
    + apply IH in H. exact H.
    + destruct (next_count _ num den counts) as [[ns counts']|t] eqn:En; cbn [res_bind] in H; [|discriminate].
      destruct (take_ints ds) as [[idx ds1]|t] eqn:Et; cbn [res_bind] in H; [|discriminate].
      apply take_ints_ok in Et. subst ds.
      destruct (negb (Z.of_nat (length idx) =? ns)%Z) eqn:El; [discriminate|].
      apply negb_false_iff, Z.eqb_eq in El.
      rewrite vor_vof_idx in H. apply IH in H as (assoc & Hs & Hf & Hd & Hn & Hc).
      exists ((p, idx) :: assoc). cbn [map fst snd concat app length firstn].
      rewrite <- app_assoc in Hs. repeat split.
      * exact Hs.
      * now rewrite Hf.
      * now rewrite Hd.
      * intros -> q d Hqd. cbn in En. injection En as En1 En2. destruct Hqd as [E|Hin].
        -- inversion E; subst q d. congruence.
        -- apply Hn; [congruence|exact Hin].
      * intros cs ->. destruct cs as [|c cs]; cbn in En; [discriminate|]. injection En as En1 En2.
        cbn [firstn]. f_equal; [congruence|]. apply Hc. congruence.
Qed.

Lemma split_by_ok : forall sel rows k h,
  split_by sel rows = Ok (k, h) ->
  k = vselect (map negb sel) rows /\ h = map (set_mask true) (vselect sel rows).
Proof.
  intros sel rows k h H. unfold split_by in H.
  destruct (construct (vselect (map negb sel) rows)) as [k0|t] eqn:E1; cbn [res_bind] in H; [|discriminate].
  destruct (construct (map (set_mask true) (vselect sel rows))) as [h0|t] eqn:E2; cbn [res_bind] in H; [|discriminate].
  apply construct_ok in E1. apply construct_ok in E2. inversion H; subst. auto.
Qed.

Lemma holdout_balanced_ok : forall num den counts rows ds train held ds',
  holdout_balanced num den counts rows ds = Ok (train, held, ds') ->
  exists assoc : list (name * list nat),
    let sel := vof_idx (length rows) (concat (map snd assoc)) in
    train = vselect (map negb sel) rows /\ held = map (set_mask true) (vselect sel rows) /\
    map fst assoc = unobserved_plates rows /\
    ds = map (fun qd => DInts (snd qd)) assoc ++ ds' /\
    (counts = None -> forall q d, In (q, d) assoc ->
       Z.of_nat (length d) = ceil_frac (vcount (plate_vec q rows)) num den) /\
    (forall cs, counts = Some cs ->
       map (fun qd => Z.of_nat (length (snd qd))) assoc = firstn (length assoc) cs).
Proof.
  intros num den counts rows ds train held ds' H. unfold holdout_balanced in H.
  destruct ((num <? 0)%Z || (Z.pos den <? num)%Z); [discriminate|].
  rewrite repeat_false_vof_idx in H.
  destruct (ho_plates _ _ _ _ _ _ _ _) as [[sel ds1]|t] eqn:Eh; cbn [res_bind] in H; [|discriminate].
  destruct (split_by sel rows) as [[k h]|t] eqn:Es; cbn [res_bind] in H; [|discriminate].
  inversion H; subst k h ds1. clear H.
  apply ho_plates_spec in Eh as (assoc & Hs & Hf & Hd & Hn & Hc). cbn [app] in Hs.
  apply split_by_ok in Es as [Hk Hh]. exists assoc. cbn zeta. subst sel. auto 10.
Qed.

Theorem holdout_partition : forall num den counts rows ds train held ds',
  holdout_balanced num den counts rows ds = Ok (train, held, ds') ->
  exists held0,
    held = map (set_mask true) held0 /\ Permutation (train ++ held0) rows /\
    Forall (fun r => r_mask r = true) held /\ exists v : bvec, train = vselect v rows.
Proof.
  intros num den counts rows ds train held ds' H.
  apply holdout_balanced_ok in H as (assoc & Ht & Hh & _). cbn zeta in *.
  eexists. split; [exact Hh|]. split; [|split].
  - subst train. apply vselect_partition. now rewrite vof_idx_length.
  - subst held. apply Forall_forall. intros r Hr. apply in_map_iff in Hr as (r0 & <- & _). reflexivity.
  - eauto.
Qed.

Lemma Forall2_map_assoc {A B C} (P : A -> C -> Prop) (g : A * B -> C) : forall assoc : list (A * B),
  Forall2 P (map fst assoc) (map g assoc) -> forall q d, In (q, d) assoc -> P q (g (q, d)).
Proof.
  induction assoc as [|[k v] assoc IH]; intros H q d Hin; [contradiction|].
  cbn [map fst] in H. inversion H; subst. destruct Hin as [E|Hin]; [now inversion E; subst|now apply IH].
Qed.

Lemma filter_length_map {A B} (P : B -> bool) (g : A -> B) : forall l,
  length (filter P (map g l)) = length (filter (fun x => P (g x)) l).
Proof.
  induction l as [|a l IH]; cbn [map filter]; [reflexivity|]. destruct (P (g a)); cbn [length]; now rewrite IH.
Qed.

Lemma holdout_counts_assoc : forall num den counts rows ds train held ds',
  holdout_balanced num den counts rows ds = Ok (train, held, ds') ->
  choice_contract rows ds ->
  exists assoc : list (name * list nat),
    map fst assoc = unobserved_plates rows /\
    (forall q d, In (q, d) assoc -> plate_count q held = length d) /\
    (forall p, ~ In p (unobserved_plates rows) -> plate_count p held = 0) /\
    (counts = None -> forall q d, In (q, d) assoc ->
       Z.of_nat (length d) = ceil_frac (vcount (plate_vec q rows)) num den) /\
    (forall cs, counts = Some cs ->
       map (fun qd => Z.of_nat (length (snd qd))) assoc = firstn (length assoc) cs).
Proof.
  intros num den counts rows ds train held ds' H HC.
  apply holdout_balanced_ok in H as (assoc & Ht & Hh & Hf & Hd & Hn & Hc). cbn zeta in *.
  exists assoc. split; [exact Hf|].
  assert (Hok : plate_assoc_ok rows assoc).
  { split.
    - rewrite Hf. unfold unobserved_plates. apply NoDup_filter, NoDup_sort_uniq.
    - unfold choice_contract in HC. rewrite <- Hf, map_length in HC.
      rewrite Hd, firstn_app, map_length, Nat.sub_diag, firstn_O, app_nil_r in HC.
      rewrite firstn_all2 in HC by (rewrite map_length; lia).
      intros q d Hin. destruct (Forall2_map_assoc _ _ _ HC q d Hin) as (idx & E & Hnd & Hincl).
      cbn in E. inversion E; subst. auto. }
  assert (Hcount : forall p, plate_count p held = sel_count (concat (map snd assoc)) (in_plate p) rows).
  { intros p. subst held. unfold plate_count, sel_count. rewrite filter_length_map.
    f_equal. }
  repeat split.
  - intros q d Hin. rewrite Hcount. now apply (sel_count_assoc rows assoc q Hok).
  - intros p Hp. rewrite Hcount. apply (sel_count_assoc rows assoc p Hok). now rewrite Hf.
  - exact Hn.
  - exact Hc.
Qed.

Theorem holdout_counts : forall num den rows ds train held ds',
  holdout_balanced num den None rows ds = Ok (train, held, ds') ->
  choice_contract rows ds ->
  forall p,
    (In p (unobserved_plates rows) ->
       Z.of_nat (plate_count p held) = ceil_frac (plate_count p rows) num den) /\
    (~ In p (unobserved_plates rows) -> plate_count p held = 0).
Proof.
  intros num den rows ds train held ds' H HC p.
  destruct (holdout_counts_assoc _ _ _ _ _ _ _ _ H HC) as (assoc & Hf & Hc & H0 & Hn & _).
  split; [|apply H0].
  intros Hp. rewrite <- Hf in Hp. apply in_map_iff in Hp as ([q d] & E & Hin). cbn in E. subst q.
  rewrite (Hc _ _ Hin), (Hn eq_refl _ _ Hin). unfold plate_count, plate_vec. now rewrite vcount_map.
Qed.

Theorem holdout_counts_oracle : forall num den cs rows ds train held ds',
  holdout_balanced num den (Some cs) rows ds = Ok (train, held, ds') ->
  choice_contract rows ds ->
  map (fun q => Z.of_nat (plate_count q held)) (unobserved_plates rows)
    = firstn (length (unobserved_plates rows)) cs /\
  forall p, ~ In p (unobserved_plates rows) -> plate_count p held = 0.
Proof.
  intros num den cs rows ds train held ds' H HC.
  destruct (holdout_counts_assoc _ _ _ _ _ _ _ _ H HC) as (assoc & Hf & Hc & H0 & _ & Ho).
  split; [|exact H0]. rewrite <- Hf, map_map, map_length, <- (Ho cs eq_refl).
  apply map_ext_in. intros [q d] Hin. cbn [fst snd]. now rewrite (Hc _ _ Hin).
Qed.

(* ---------- create_random_holdout ---------- *)
Theorem random_holdout_partition : forall num den count rows ds train held ds',
  holdout_random num den count rows ds = Ok (train, held, ds') ->
  exists held0 idx,
    held = map (set_mask true) held0 /\ Permutation (train ++ held0) rows /\
    ds = DInts idx :: ds' /\
    Z.of_nat (length idx) = match count with Some c => c | None => ceil_frac (length rows) num den end /\
    (NoDup idx -> (forall i, In i idx -> i < length rows) -> length held = length idx).
Proof.
  intros num den count rows ds train held ds' H. unfold holdout_random in H.
  destruct ((num <? 0)%Z || (Z.pos den <? num)%Z); [discriminate|].
  destruct (take_ints ds) as [[idx ds1]|t] eqn:Et; cbn [res_bind] in H; [|discriminate].
  apply take_ints_ok in Et. subst ds.
  destruct (negb (Z.of_nat (length idx) =? _)%Z) eqn:El; [discriminate|].
  apply negb_false_iff, Z.eqb_eq in El.
  destruct (split_by _ rows) as [[k h]|t] eqn:Es; cbn [res_bind] in H; [|discriminate].
  inversion H; subst k h ds1. apply split_by_ok in Es as [Hk Hh].
  exists (vselect (vof_idx (length rows) idx) rows), idx. repeat split; auto.
  - subst train. apply vselect_partition. now rewrite vof_idx_length.
  - intros Hnd Hlt. subst held. rewrite map_length.
    transitivity (sel_count idx (fun _ => true) rows).
    + unfold sel_count. f_equal. symmetry.
      generalize (vselect (vof_idx (length rows) idx) rows). intros l.
      induction l as [|a l IHl]; cbn [filter]; congruence.
    + apply sel_count_spec; [exact Hnd|]. intros i. split.
      * intros Hi. split; [exact Hi|]. destruct (nth_error rows i) as [r|] eqn:En; [eauto|].
        apply nth_error_None in En. specialize (Hlt i Hi). lia.
      * tauto.
Qed.
