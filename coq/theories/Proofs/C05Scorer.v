(* C05 proofs, part 4: np.array_split partitions in order; the scorer's sub-grouping, per-group
   padding, per-group draw and zip-back give every key the direct estimator of its own plate. *)
From Coq Require Import ZArith List QArith Qcanon Lia Arith Permutation.
From Batchie Require Import Lib.Sexp Lib.Num Lib.NumP Lib.ListX Model.Dbal
  Proofs.C05Pad Proofs.C05Lse Proofs.C05Kernel.
Import ListNotations.

Lemma concat_take_sizes {A} sizes : forall (l : list A),
  concat (take_sizes l sizes) = firstn (list_sum sizes) l.
Proof.
  induction sizes as [|s r IH]; intros l; cbn [take_sizes concat list_sum]; [reflexivity|].
  rewrite IH. apply firstn_skipn_app.
Qed.

Lemma length_take_sizes {A} sizes : forall (l : list A), length (take_sizes l sizes) = length sizes.
Proof. induction sizes as [|s r IH]; intros l; cbn [take_sizes length]; [reflexivity|now rewrite IH]. Qed.

Lemma list_sum_repeat a n : list_sum (repeat a n) = (n * a)%nat.
Proof.
  induction n as [|n IH]; cbn [repeat]; [reflexivity|].
  change (list_sum (a :: repeat a n)) with (a + list_sum (repeat a n))%nat. rewrite IH. lia.
Qed.

Lemma split_sizes_sum n k : (0 < k)%nat ->
  list_sum (repeat (S (n / k)) (n mod k) ++ repeat (n / k)%nat (k - n mod k)) = n.
Proof.
  intros Hk. rewrite list_sum_app, !list_sum_repeat.
  pose proof (Nat.div_mod n k ltac:(lia)) as Hdm.
  pose proof (Nat.mod_upper_bound n k ltac:(lia)) as Hr.
  set (q := (n / k)%nat) in *. set (r := (n mod k)%nat) in *.
  rewrite Nat.mul_sub_distr_r.
  assert (r * q <= k * q)%nat by (apply Nat.mul_le_mono_r; lia).
  lia.
Qed.

Lemma concat_array_split {A} (l : list A) k : (0 < k)%nat \/ l = [] -> concat (array_split l k) = l.
Proof.
  intros [Hk| ->]; unfold array_split; rewrite concat_take_sizes.
  - rewrite split_sizes_sum by exact Hk. apply firstn_all.
  - apply firstn_nil.
Qed.

Lemma length_array_split {A} (l : list A) k : (0 < k)%nat \/ l = [] -> length (array_split l k) = k.
Proof.
  intros H. unfold array_split. rewrite length_take_sizes, app_length, !repeat_length.
  destruct H as [Hk| ->].
  - pose proof (Nat.mod_upper_bound (length l) k ltac:(lia)). lia.
  - cbn [length]. destruct k as [|k]; [reflexivity|]. rewrite Nat.mod_0_l by lia. lia.
Qed.

Lemma ceil_div_pos n m : (0 < n)%nat -> (0 < m)%nat -> (0 < ceil_div n m)%nat.
Proof.
  intros Hn Hm. unfold ceil_div. apply Nat.div_str_pos. lia.
Qed.

Lemma flat_map_groups {A B C} (f : list A * B -> list C) (F : A -> C) groups : forall draws,
  length draws = length groups ->
  (forall g d, In (g, d) (combine groups draws) -> f (g, d) = map F g) ->
  flat_map f (combine groups draws) = map F (concat groups).
Proof.
  induction groups as [|g groups IH]; intros [|d draws] Hlen Hf; cbn [length] in Hlen; try discriminate.
  - reflexivity.
  - cbn [combine flat_map concat]. rewrite map_app. f_equal.
    + apply Hf. now left.
    + apply IH; [lia|]. intros g' d' Hin. apply Hf. now right.
Qed.

Lemma combine_map_fst_snd {A B C} (g : B -> C) (l : list (A * B)) :
  combine (map fst l) (map g (map snd l)) = map (fun kp => (fst kp, g (snd kp))) l.
Proof. induction l as [|[a b] l IH]; cbn [map combine fst snd]; [reflexivity|now rewrite IH]. Qed.

Theorem direct_perm_triples orc D df ts ts' pl :
  Permutation ts ts' -> direct orc D df ts pl = direct orc D df ts' pl.
Proof. intros HP. unfold direct. apply logsumexp_perm. now apply Permutation_map. Qed.

Theorem scorer_eq_direct orc T mc plates D draws ts0 :
  (0 < T)%nat -> (0 < mc)%nat ->
  Forall (fun kp => plate_wf T (snd kp)) plates ->
  Forall (triple_valid T) ts0 ->
  length draws = ceil_div (length plates) mc ->
  Forall (Permutation ts0) draws ->
  scorer orc mc plates D draws = map (fun kp => (fst kp, direct orc D 1%Qc ts0 (snd kp))) plates.
Proof.
  intros HT Hmc Hwf Hts Hlen Hdraws. unfold scorer.
  set (k := ceil_div (length plates) mc) in *.
  assert (Hk : (0 < k)%nat \/ plates = []).
  { destruct plates as [|kp rest]; [now right|left]. apply ceil_div_pos; cbn [length]; lia. }
  rewrite (flat_map_groups _ (fun kp => (fst kp, direct orc D 1%Qc ts0 (snd kp)))).
  - now rewrite concat_array_split.
  - now rewrite length_array_split.
  - intros g ts Hin. cbn [fst snd].
    assert (Hg : In g (array_split plates k)) by (eapply in_combine_l; eassumption).
    assert (Hd : In ts draws) by (eapply in_combine_r; eassumption).
    rewrite Forall_forall in Hdraws. specialize (Hdraws _ Hd).
    rewrite (hetero_eq_direct orc T).
    + rewrite combine_map_fst_snd. apply map_ext. intros kp. f_equal.
      apply direct_perm_triples. now apply Permutation_sym.
    + exact HT.
    + apply Forall_forall. intros pl Hpl. apply in_map_iff in Hpl as (kp & <- & Hkp).
      rewrite Forall_forall in Hwf. apply Hwf.
      rewrite <- (concat_array_split plates k Hk). apply in_concat. now exists g.
    + apply Forall_forall. intros t Ht. rewrite Forall_forall in Hts. apply Hts.
      eapply Permutation_in; [apply Permutation_sym|]; eassumption.
Qed.

Lemma assoc_unique {A B} (l : list (A * B)) k a b :
  NoDup (map fst l) -> In (k, a) l -> In (k, b) l -> a = b.
Proof.
  induction l as [|[k' c] l IH]; cbn [map fst]; intros Hnd Ha Hb; [contradiction|].
  inversion Hnd as [|? ? Hnot Hnd']; subst.
  destruct Ha as [Ha|Ha], Hb as [Hb|Hb].
  - congruence.
  - inversion Ha; subst. exfalso. apply Hnot. apply in_map_iff. now exists (k, b).
  - inversion Hb; subst. exfalso. apply Hnot. apply in_map_iff. now exists (k, a).
  - now apply IH.
Qed.

(* the same plate under the same key in two different scorer calls gets the same score *)
Theorem scorer_alone orc T D ts0 mc1 plates1 draws1 mc2 plates2 draws2 k pl s1 s2 :
  (0 < T)%nat -> Forall (triple_valid T) ts0 ->
  (0 < mc1)%nat -> Forall (fun kp => plate_wf T (snd kp)) plates1 ->
  length draws1 = ceil_div (length plates1) mc1 -> Forall (Permutation ts0) draws1 ->
  (0 < mc2)%nat -> Forall (fun kp => plate_wf T (snd kp)) plates2 ->
  length draws2 = ceil_div (length plates2) mc2 -> Forall (Permutation ts0) draws2 ->
  NoDup (map fst plates1) -> NoDup (map fst plates2) ->
  In (k, pl) plates1 -> In (k, pl) plates2 ->
  In (k, s1) (scorer orc mc1 plates1 D draws1) -> In (k, s2) (scorer orc mc2 plates2 D draws2) ->
  s1 = s2.
Proof.
  intros HT Hts Hmc1 Hwf1 Hl1 Hd1 Hmc2 Hwf2 Hl2 Hd2 Hnd1 Hnd2 Hin1 Hin2 Hs1 Hs2.
  rewrite (scorer_eq_direct orc T mc1 plates1 D draws1 ts0) in Hs1 by assumption.
  rewrite (scorer_eq_direct orc T mc2 plates2 D draws2 ts0) in Hs2 by assumption.
  apply in_map_iff in Hs1 as ([k1 p1] & Heq1 & Hp1). apply in_map_iff in Hs2 as ([k2 p2] & Heq2 & Hp2).
  cbn [fst snd] in Heq1, Heq2. inversion Heq1; subst. inversion Heq2; subst.
  rewrite (assoc_unique _ _ _ _ Hnd1 Hp1 Hin1), (assoc_unique _ _ _ _ Hnd2 Hp2 Hin2). reflexivity.
Qed.
