(* C08 proofs, part 7: the horseshoe hyper-prior factors of Model/GibbsSpec.v as functions of one
   group of variables at a time (local precisions phi, their auxiliaries, global precisions eta,
   their auxiliaries), for the scalar-eta family (V0) and the vector-eta family (V2, V1).
   Everything here is about the specification only; the sampler enters in C08Horseshoe.v. *)
From Coq Require Import ZArith List QArith Qcanon Lia Arith Bool.
From Batchie Require Import Lib.Num Lib.NumP Model.Gibbs Model.GibbsSpec Proofs.C08Sums Proofs.C08Gauss Proofs.C08Misc Proofs.C08Mgp.
Import ListNotations.
Open Scope Qc_scope.

Lemma vnth_map (f : Qc -> Qc) l k : (k < length l)%nat -> vnth (map f l) k = f (vnth l k).
Proof.
  intros H. unfold vnth. rewrite (nth_indep (map f l) 0 (f 0)) by (now rewrite map_length). apply map_nth.
Qed.
Lemma rnth_map (f : list Qc -> list Qc) M m : (m < length M)%nat -> rnth (map f M) m = f (rnth M m).
Proof.
  intros H. unfold rnth. rewrite (nth_indep (map f M) [] (f [])) by (now rewrite map_length). apply map_nth.
Qed.

Lemma sumn_sub2 n m (f h : nat -> nat -> Qc) :
  sumn n (fun i => sumn m (fun k => f i k)) - sumn n (fun i => sumn m (fun k => h i k))
  = sumn n (fun i => sumn m (fun k => f i k - h i k)).
Proof. rewrite <- sumn_sub. apply sumn_ext; intros i _. now rewrite sumn_sub. Qed.

(* one half-Cauchy factor, spelled out *)
Lemma e_hc_eq ln j p a : e_hc ln j p a = ln p + qofZ 2 * (a + j) * p + qofZ 2 * a - ln 1.
Proof. unfold e_hc, e_gamma_n, e_gamma. rewrite half_inv, q2_eq. field. exact two_neq0. Qed.

Section Alg.
Variable ln : Qc -> Qc.
Variable j : Qc.

(* as a function of the auxiliary: Gamma(1, 1 + p) *)
Lemma e_hc_aux p a a' : e_hc ln j p a - e_hc ln j p a' = gform ln 1 (1 + p) a a'.
Proof. rewrite !e_hc_eq. unfold gform. rewrite q2_eq. ring. Qed.

(* as a function of the precision, alone: the prior part of its conditional *)
Lemma e_hc_prec p p' a :
  e_hc ln j p a - e_hc ln j p' a = (ln p - ln p') + qofZ 2 * (a + j) * (p - p').
Proof. rewrite !e_hc_eq. ring. Qed.

Lemma e_hs_vec_aux n p a a' :
  e_hs_vec ln j n p a - e_hs_vec ln j n p a' = sumn n (fun i => gform ln 1 (1 + vnth p i) (vnth a i) (vnth a' i)).
Proof. unfold e_hs_vec. rewrite <- sumn_sub. apply sumn_ext; intros i _. apply e_hc_aux. Qed.

(* the tilt, separated *)
Lemma e_hc_tilt p a : e_hc ln j p a = e_hc ln 0 p a + qofZ 2 * j * p.
Proof. rewrite !e_hc_eq. ring. Qed.
Lemma e_hs_vec_tilt n p a : e_hs_vec ln j n p a = e_hs_vec ln 0 n p a + qofZ 2 * j * sumn n (fun i => vnth p i).
Proof.
  unfold e_hs_vec. rewrite <- sumn_scale, <- sumn_add. apply sumn_ext; intros i _. apply e_hc_tilt.
Qed.

Hypothesis ln_mul : forall a b, 0 < a -> 0 < b -> ln (a * b) = ln a + ln b.

(* ---------------------------------------------------------------- scalar global precision (V0) *)
(* the factors of the joint that mention phi0, eta0 or their auxiliaries *)
Definition blk0 (n : nat) (V phi : list Qc) (eta : Qc) (aphi : list Qc) (aeta : Qc) : Qc :=
  (sumn n (fun m => vnth phi m * eta * qsq (vnth V m)) - sumn n (fun m => ln (vnth phi m * eta)))
  + e_hs_vec ln j n phi aphi + e_hc ln j eta aeta.

Lemma blk0_phiaux n V phi eta a a' aeta :
  blk0 n V phi eta a aeta - blk0 n V phi eta a' aeta
  = sumn n (fun m => gform ln 1 (1 + vnth phi m) (vnth a m) (vnth a' m)).
Proof. unfold blk0. rewrite <- e_hs_vec_aux. ring. Qed.

Lemma blk0_etaaux n V phi eta aphi b b' :
  blk0 n V phi eta aphi b - blk0 n V phi eta aphi b' = gform ln 1 (1 + eta) b b'.
Proof. unfold blk0. rewrite <- e_hc_aux. ring. Qed.

Lemma blk0_phi n V x x' eta aphi aeta :
  0 < eta -> (forall m, (m < n)%nat -> 0 < vnth x m) -> (forall m, (m < n)%nat -> 0 < vnth x' m) ->
  blk0 n V x eta aphi aeta - blk0 n V x' eta aphi aeta
  = sumn n (fun m => gform ln 1 (vnth aphi m + half * eta * qsq (vnth V m) + j) (vnth x m) (vnth x' m)).
Proof.
  intros He Hx Hx'. unfold blk0, e_hs_vec.
  match goal with |- (?A - ?B + ?C + ?E) - (?A' - ?B' + ?C' + ?E) = _ =>
    transitivity ((A - A') - (B - B') + (C - C')); [ring|] end.
  rewrite <- !sumn_sub, <- sumn_add. apply sumn_ext; intros m Hm.
  rewrite e_hc_prec, (ln_mul _ _ (Hx m Hm) He), (ln_mul _ _ (Hx' m Hm) He).
  unfold gform. rewrite half_inv, q2_eq. field. exact two_neq0.
Qed.

Lemma blk0_eta n V phi t t' aphi aeta :
  0 < t -> 0 < t' -> (forall m, (m < n)%nat -> 0 < vnth phi m) ->
  blk0 n V phi t aphi aeta - blk0 n V phi t' aphi aeta
  = gform ln (half * (1 + qnat n)) (aeta + half * sumn n (fun m => vnth phi m * qsq (vnth V m)) + j) t t'.
Proof.
  intros Ht Ht' Hp. unfold blk0.
  assert (Hl : forall z, 0 < z -> sumn n (fun m => ln (vnth phi m * z)) = sumn n (fun m => ln (vnth phi m)) + qnat n * ln z).
  { intros z Hz. rewrite <- sumn_const, <- sumn_add. apply sumn_ext; intros m Hm. apply ln_mul; [apply Hp, Hm|exact Hz]. }
  assert (Hs : forall z, sumn n (fun m => vnth phi m * z * qsq (vnth V m)) = z * sumn n (fun m => vnth phi m * qsq (vnth V m))).
  { intros z. rewrite <- sumn_scale. apply sumn_ext; intros m _. ring. }
  rewrite (Hl t Ht), (Hl t' Ht'), (Hs t), (Hs t').
  match goal with |- (?A - ?B + ?C + ?E) - (?A' - ?B' + ?C + ?E') = _ =>
    transitivity ((A - A') - (B - B') + (E - E')); [ring|] end.
  rewrite e_hc_prec. unfold gform. rewrite half_inv, q2_eq. field. exact two_neq0.
Qed.

(* ---------------------------------------------------------------- vector global precision (V2, V1) *)
Definition blkK (n D : nat) (V phi : list (list Qc)) (eta : list Qc) (aphi : list (list Qc)) (aeta : list Qc) : Qc :=
  (sumn n (fun m => sumn D (fun k => vnth (rnth phi m) k * vnth eta k * qsq (vnth (rnth V m) k)))
   - sumn n (fun m => sumn D (fun k => ln (vnth (rnth phi m) k * vnth eta k))))
  + sumn n (fun m => e_hs_vec ln j D (rnth phi m) (rnth aphi m)) + e_hs_vec ln j D eta aeta.

Lemma blkK_phiaux n D V phi eta a a' aeta :
  blkK n D V phi eta a aeta - blkK n D V phi eta a' aeta
  = sumn n (fun m => sumn D (fun k => gform ln 1 (1 + vnth (rnth phi m) k) (vnth (rnth a m) k) (vnth (rnth a' m) k))).
Proof.
  unfold blkK.
  match goal with |- (?A + ?C + ?E) - (?A + ?C' + ?E) = _ => transitivity (C - C'); [ring|] end.
  rewrite <- sumn_sub. apply sumn_ext; intros m _. apply e_hs_vec_aux.
Qed.

Lemma blkK_etaaux n D V phi eta aphi b b' :
  blkK n D V phi eta aphi b - blkK n D V phi eta aphi b'
  = sumn D (fun k => gform ln 1 (1 + vnth eta k) (vnth b k) (vnth b' k)).
Proof. unfold blkK. rewrite <- e_hs_vec_aux. ring. Qed.

Lemma blkK_phi n D V x x' eta aphi aeta :
  (forall k, (k < D)%nat -> 0 < vnth eta k) ->
  (forall m k, (m < n)%nat -> (k < D)%nat -> 0 < vnth (rnth x m) k) ->
  (forall m k, (m < n)%nat -> (k < D)%nat -> 0 < vnth (rnth x' m) k) ->
  blkK n D V x eta aphi aeta - blkK n D V x' eta aphi aeta
  = sumn n (fun m => sumn D (fun k =>
      gform ln 1 (vnth (rnth aphi m) k + half * vnth eta k * qsq (vnth (rnth V m) k) + j) (vnth (rnth x m) k) (vnth (rnth x' m) k))).
Proof.
  intros He Hx Hx'. unfold blkK, e_hs_vec.
  match goal with |- (?A - ?B + ?C + ?E) - (?A' - ?B' + ?C' + ?E) = _ =>
    transitivity ((A - A') - (B - B') + (C - C')); [ring|] end.
  rewrite !sumn_sub2, <- sumn_add. apply sumn_ext; intros m Hm.
  rewrite <- sumn_add. apply sumn_ext; intros k Hk.
  rewrite e_hc_prec, (ln_mul _ _ (Hx m k Hm Hk) (He k Hk)), (ln_mul _ _ (Hx' m k Hm Hk) (He k Hk)).
  unfold gform. rewrite half_inv, q2_eq. field. exact two_neq0.
Qed.

Lemma blkK_eta n D V phi t t' aphi aeta :
  (forall k, (k < D)%nat -> 0 < vnth t k) -> (forall k, (k < D)%nat -> 0 < vnth t' k) ->
  (forall m k, (m < n)%nat -> (k < D)%nat -> 0 < vnth (rnth phi m) k) ->
  blkK n D V phi t aphi aeta - blkK n D V phi t' aphi aeta
  = sumn D (fun k => gform ln (half * (1 + qnat n))
                       (vnth aeta k + half * sumn n (fun m => vnth (rnth phi m) k * qsq (vnth (rnth V m) k)) + j)
                       (vnth t k) (vnth t' k)).
Proof.
  intros Ht Ht' Hp. unfold blkK, e_hs_vec.
  match goal with |- (?A - ?B + ?C + ?E) - (?A' - ?B' + ?C + ?E') = _ =>
    transitivity ((A - A') - (B - B') + (E - E')); [ring|] end.
  rewrite !sumn_sub2, (sumn_swap n D), <- sumn_sub, <- sumn_add.
  apply sumn_ext; intros k Hk.
  rewrite (sumn_ext n _ (fun m => (vnth t k - vnth t' k) * (vnth (rnth phi m) k * qsq (vnth (rnth V m) k))
                                  - (ln (vnth t k) - ln (vnth t' k)))).
  2:{ intros m Hm. rewrite (ln_mul _ _ (Hp m k Hm Hk) (Ht k Hk)), (ln_mul _ _ (Hp m k Hm Hk) (Ht' k Hk)). ring. }
  rewrite sumn_sub.
  rewrite sumn_scale, sumn_const, e_hc_prec.
  unfold gform. rewrite half_inv, q2_eq. field. exact two_neq0.
Qed.
End Alg.
