(* The argument-handling glue of select_next_plate: the statements of get_args() after parser.parse_args(), and main() as
   a whole command.  The hand-written models Cli.sn_get_args / cli_select_next_plate_cmd equal the translations of the
   functions of /repo, regenerated on every run (Generated/SrcCliArgs.v, configurations ARGS_GET_ARGS_SN / ARGS_CMD_SN of
   harness/src_functions.py), for every introspection record, every record of string primitives, every constructor and
   library record, and all raw namespaces. *)
From Coq Require Import ZArith List Bool Lia.
From Batchie Require Import Lib.Sexp Lib.PyRt Model.Cli Generated.SrcCli Generated.SrcCliArgs Proofs.PyRtLemmas
  Proofs.C06SourceCli Proofs.C18SourceArgs_Cast Proofs.C18SourceIntrospect.
Import ListNotations.
Open Scope Z_scope.

Theorem src_sn_get_args_is_model : forall (Cls F O : Type) (I : introspect Cls) (P : pyprims F O) (raw : sn_ns Cls F O),
  src_sn_get_args Cls F O I P raw = sn_get_args I P raw.
Proof.
  intros. unfold src_sn_get_args, sn_get_args. cbv zeta.
  destruct (sn_policy (sn_plain raw)) as [name|]; cbn [is_some unwrap res_bind]; [|reflexivity].
  rewrite <- (resolve_block I P BPlatePolicy name (sn_policy_param raw)
                (fun c ps => Ok (sn_set_policy_params (sn_set_policy_cls raw c) ps))).
  unfold s_batchie.
  destruct (i_get_class I [98; 97; 116; 99; 104; 105; 101] name BPlatePolicy) as [c|e]; cbn [res_bind]; [|reflexivity].
  cbn [sn_policy_cls sn_policy_param sn_set_policy_cls].
  destruct (i_required I c) as [req|e]; cbn [res_bind]; [|reflexivity].
  rewrite !res_bind_ret. reflexivity.
Qed.

Theorem src_cli_select_next_plate_cmd_is_model :
  forall (Cls F O : Type) (I : introspect Cls) (P : pyprims F O) (Scr Pl Po H : Type)
         (construct : Cls -> list (str * pval F O) -> result Po) (L : sn_lib Scr Pl Po H) (mix : Z -> Z)
         (raw : sn_ns Cls F O),
  src_cli_select_next_plate_cmd Cls F O I P Scr Pl Po H construct L mix raw
  = cli_select_next_plate_cmd I P construct L mix raw.
Proof.
  intros. unfold src_cli_select_next_plate_cmd, cli_select_next_plate_cmd. cbv zeta.
  rewrite src_sn_get_args_is_model.
  destruct (sn_get_args I P raw) as [a|e]; cbn [res_bind]; [|reflexivity].
  rewrite <- C06SourceCli.src_cli_select_next_plate_is_model.
  unfold SrcCli.src_cli_select_next_plate, instantiate. cbv zeta.
  cbn [sn_with_mk sn_load_screen sn_mk_policy sn_load_scores sn_concat_scores sn_select sn_plate_id].
  destruct (sn_load_screen L (sn_data (sn_plain a))); cbn [res_bind]; [|reflexivity].
  destruct (sn_policy (sn_plain a)); cbn [is_some res_bind]; [|reflexivity].
  destruct (unwrap (sn_policy_cls a)); cbn [res_bind]; reflexivity.
Qed.

Theorem src_cli_select_next_plate_cmd_world :
  forall (Mod Obj F O : Type) (W : pyworld Mod Obj) (P : pyprims F O) (Scr Pl Po H : Type)
         (construct : Obj -> list (str * pval F O) -> result Po) (L : sn_lib Scr Pl Po H) (mix : Z -> Z)
         (raw : sn_ns Obj F O),
  src_cli_select_next_plate_cmd Obj F O (introspect_src W) P Scr Pl Po H construct L mix raw
  = cli_select_next_plate_cmd (introspect_of W) P construct L mix raw.
Proof.
  intros. rewrite src_cli_select_next_plate_cmd_is_model.
  unfold cli_select_next_plate_cmd, sn_get_args. destruct (sn_policy (sn_plain raw)); [|reflexivity].
  now rewrite resolve_src.
Qed.
