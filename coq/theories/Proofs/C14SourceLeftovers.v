(* C14: Screen.concat and Screen.single_treatment_effects (data.py), re-translated from /repo on every run
   (Generated/SrcPlates.v, configurations L10B_SCREEN_CONCAT / L10B_SCREEN_STE), equal their models at the end of Model/Views.v
   for all inputs.  A Screen object is [pyscreen] = (identity tag, contents). *)
From Coq Require Import ZArith List Bool Lia ZifyBool.
From Batchie Require Import Lib.Sexp Lib.PyRt Generated.Consts Model.Encode Model.Screen Model.Views
  Generated.SrcEncode Generated.SrcViews Generated.SrcPlates Proofs.PyRtLemmas Proofs.C14Source Proofs.C14SourceHelpers.
Import ListNotations.
Open Scope Z_scope.

(* the loop `for screen in screens[1:]: result = result.combine(screen)`: every step makes a new object *)
Lemma screen_concat_loop (new_tag : Z) (f : pyscreen -> pyscreen -> result pyscreen) :
  (forall acc x, f acc x = dor c <- src_screen_combine acc x; Ok (new_tag, c)) ->
  forall (r : list pyscreen) (acc : pyscreen),
  res_fold f r acc
  = dor c <- screen_concat_from (snd acc) (map snd r); Ok (match r with [] => fst acc | _ => new_tag end, c).
Proof.
  intros Hf. induction r as [|x r IH]; intros [t a]; cbn [res_fold map screen_concat_from res_bind fst snd]; [reflexivity|].
  rewrite Hf, src_screen_combine_is_model. cbn [snd].
  destruct (screen_combine a (snd x)) as [c|e]; cbn [res_bind]; [|reflexivity].
  rewrite IH. cbn [fst snd]. destruct (screen_concat_from c (map snd r)); cbn [res_bind]; [|reflexivity].
  now destruct r.
Qed.

Theorem src_screen_concat_is_model : forall (new_tag : Z) (ss : list pyscreen),
  src_screen_concat new_tag ss
  = match ss with
    | [] => Err 24
    | [s] => Ok s
    | s :: r => dor c <- screen_concat_from (snd s) (map snd r); Ok (new_tag, c)
    end.
Proof.
  intros new_tag ss. unfold src_screen_concat. destruct ss as [|s [|x r]]; [reflexivity | reflexivity |].
  replace (Z.of_nat (length (s :: x :: r)) =? 1) with false by (cbn [length]; lia).
  replace (Z.of_nat (length (s :: x :: r)) =? 0) with false by (cbn [length]; lia).
  unfold list_get. cbn [Z.ltb Z.compare Z.to_nat nth_error res_bind tl].
  rewrite (screen_concat_loop new_tag) by (intros acc y; destruct (src_screen_combine acc y); reflexivity).
  destruct (screen_concat_from (snd s) (map snd (x :: r))); reflexivity.
Qed.

(* on the contents: Screen.concat is the model's screen_concat, whatever the identities of the objects *)
Corollary src_screen_concat_contents : forall (new_tag : Z) (ss : list pyscreen),
  (dor o <- src_screen_concat new_tag ss; Ok (snd o)) = screen_concat (map snd ss).
Proof.
  intros new_tag ss. rewrite src_screen_concat_is_model. destruct ss as [|s [|x r]]; [reflexivity | reflexivity |].
  cbn [map screen_concat]. destruct (screen_concat_from (snd s) (snd x :: map snd r)); reflexivity.
Qed.

(* Screen.single_treatment_effects: the KeyError of the effect array's construction becomes None, nothing else is caught *)
Theorem src_screen_single_effects_is_model :
  forall (E : Type) (key_error : Z) (effect_array : list Z -> list (list Z) -> list Z -> result (list E)) (self : pyscreen),
  src_screen_single_treatment_effects E key_error effect_array self = screen_single_effects key_error effect_array (snd self).
Proof.
  intros E ke f [t s]. unfold src_screen_single_treatment_effects, screen_single_effects, res_catch. cbn [snd].
  destruct (f (s_sids s) (s_tids s) (map r_obs (s_rows s))) as [a|e]; cbn [res_bind]; [reflexivity|].
  destruct (e =? ke); reflexivity.
Qed.

(* consistency with the C14 link of ScreenSubset.single_treatment_effects, which took the parent's property as a primitive value:
   with the translated Screen property in its place, a view's property is the model's row selection of the parent's array *)
Theorem src_view_single_effects_of_parent :
  forall (E : Type) (key_error : Z) (effect_array : list Z -> list (list Z) -> list Z -> result (list E)) (v : view),
  (dor ste <- src_screen_single_treatment_effects E key_error effect_array (view_screen v);
   src_view_single_treatment_effects E v ste)
  = (dor ste <- screen_single_effects key_error effect_array (v_parent v); Ok (view_single_effects v ste)).
Proof.
  intros E ke f v. rewrite src_screen_single_effects_is_model. cbn [view_screen snd].
  destruct (screen_single_effects ke f (v_parent v)) as [ste|e]; cbn [res_bind]; [|reflexivity].
  apply src_view_single_effects_is_model.
Qed.
