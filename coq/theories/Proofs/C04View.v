(* C04: the single_treatment_effects attribute of the observed subset handed to the model - AS CODED it depends on masked values
   (witness), computed from the observed rows it would not. *)
From Coq Require Import ZArith List Bool QArith Qcanon.
From Batchie Require Import Lib.Sexp Lib.Num Model.Train Model.Downstream Proofs.C04Train.
Import ListNotations.
Open Scope Z_scope.

Definition v_half : Qc := Q2Qc (1 # 2).
Definition v_rows (masked : oval) : list trow :=
  [ {| t_sample := 0; t_plate := 0; t_treats := [0; -1]; t_obs := OFin v_half; t_mask := true |};
    {| t_sample := 0; t_plate := 1; t_treats := [0; -1]; t_obs := masked; t_mask := false |} ].

Lemma handed_view_single_effects_refuted :
  exists arity s1 s2, same_except_masked s1 s2 /\
    subset_observed_single_effects arity s1 = Some [[OFin v_half; OFin 1%Qc]] /\
    subset_observed_single_effects arity s2 = Some [[OFin (Q2Qc (3 # 4)); OFin 1%Qc]].
Proof.
  exists 2%nat, (v_rows (OFin v_half)), (v_rows (OFin 1%Qc)). split.
  - unfold v_rows. repeat constructor; cbn; discriminate.
  - split; vm_compute; reflexivity.
Qed.

Lemma handed_view_single_effects_repaired arity s1 s2 : same_except_masked s1 s2 ->
  subset_observed_single_effects_repaired arity s1 = subset_observed_single_effects_repaired arity s2.
Proof. intros H. unfold subset_observed_single_effects_repaired. now rewrite (same_except_masked_filter s1 s2 H). Qed.

(* every other array the observed subset exposes is a row selection of ids / names / doses / the observed values themselves *)
Lemma handed_view_rows s1 s2 : same_except_masked s1 s2 -> filter t_mask s1 = filter t_mask s2.
Proof. exact (same_except_masked_filter s1 s2). Qed.
