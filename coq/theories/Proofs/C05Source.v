(* C05: the hand-written models of Model/Dbal.v equal the translations of the corresponding functions of
   /repo's scoring/gaussian_dbal.py, regenerated on every run (Generated/SrcDbal.v, by harness/py2gal.py with the
   configurations C05_* of harness/src_functions.py). *)
From Coq Require Import ZArith List Bool QArith Qcanon Lia Arith.
From Batchie Require Import Lib.Sexp Lib.Num Lib.PyRt Lib.ListX Model.Unrank Model.Dbal Generated.SrcDbal
  Proofs.PyRtLemmas Proofs.C05Pad Proofs.C05Scorer Proofs.C05Checked.
From Batchie Require Export Proofs.C05Source_KernelTriples.
Import ListNotations.

(* ---------- generic facts ---------- *)
Lemma take_sizes_map {A B} (f : A -> B) sizes : forall l,
  take_sizes (map f l) sizes = map (map f) (take_sizes l sizes).
Proof.
  induction sizes as [|s r IH]; intros l; cbn [take_sizes map]; [reflexivity|].
  rewrite firstn_map, skipn_map, IH. reflexivity.
Qed.

Lemma array_split_map {A B} (f : A -> B) l k : array_split (map f l) k = map (map f) (array_split l k).
Proof. unfold array_split. rewrite map_length. apply take_sizes_map. Qed.

(* np.ceil(n / mc) for a positive mc is the model's ceil_div *)
Lemma np_ceil_div_pos n mc : (0 < mc)%Z ->
  np_ceil_div (Z.of_nat n) mc = Ok (Z.of_nat (ceil_div n (Z.to_nat mc))).
Proof.
  intros Hmc. unfold np_ceil_div, ceil_div.
  destruct (Z.eqb_spec mc 0) as [E|_]; [lia|]. f_equal.
  rewrite Nat2Z.inj_div, Nat2Z.inj_sub, Nat2Z.inj_add, Z2Nat.id by lia.
  change (Z.of_nat 1) with 1%Z. set (N := Z.of_nat n).
  assert (HN : (0 <= N)%Z) by (subst N; lia).
  pose proof (Z.div_mod (- N) mc ltac:(lia)) as H1.
  pose proof (Z.mod_pos_bound (- N) mc Hmc) as H2.
  pose proof (Z.div_mod (N + mc - 1) mc ltac:(lia)) as H3.
  pose proof (Z.mod_pos_bound (N + mc - 1) mc Hmc) as H4.
  nia.
Qed.

Lemma np_ceil_div_neg n mc : (mc < 0)%Z -> exists q, np_ceil_div (Z.of_nat n) mc = Ok q /\ (q <= 0)%Z.
Proof.
  intros Hmc. unfold np_ceil_div. destruct (Z.eqb_spec mc 0) as [E|_]; [lia|].
  eexists; split; [reflexivity|].
  pose proof (Z.div_mod (- Z.of_nat n) mc ltac:(lia)) as H1.
  pose proof (Z.mod_neg_bound (- Z.of_nat n) mc Hmc) as H2.
  nia.
Qed.

(* a key of a dict (distinct keys) looks up its own value *)
Lemma dict_get_in {V} (d : list (Z * V)) k v : NoDup (map fst d) -> In (k, v) d -> dict_get d k = Ok v.
Proof.
  induction d as [|[k' v'] d IH]; intros Hnd Hin; [destruct Hin|].
  cbn [map fst] in Hnd. inversion Hnd as [|? ? Hni Hnd']; subst.
  cbn [dict_get]. destruct Hin as [E|Hin].
  - inversion E; subst. now rewrite Z.eqb_refl.
  - destruct (Z.eqb_spec k' k) as [->|_]; [|now apply IH].
    exfalso. apply Hni. apply in_map_iff. now exists (k, v).
Qed.

Lemma lookup_group {V} (d : list (Z * V)) (g : list (Z * V)) :
  Forall (fun kp => dict_get d (fst kp) = Ok (snd kp)) g ->
  res_map_all (fun k => dor r <- dict_get d k; Ok r) (map fst g) = Ok (map snd g).
Proof.
  induction g as [|kp g IH]; intros H; [reflexivity|].
  inversion H as [|? ? Hk Hg]; subst. cbn [map res_map_all]. rewrite Hk. cbn [res_bind].
  rewrite (IH Hg). reflexivity.
Qed.

Lemma dict_update_pairs_fresh {V} (d l : list (Z * V)) :
  NoDup (map fst d ++ map fst l) -> dict_update d (dict_of_pairs l) = d ++ l.
Proof.
  intros H. unfold dict_update, dict_of_pairs.
  assert (Hl : NoDup (map fst (@nil (Z * V)) ++ map fst l)) by (apply NoDup_app_inv in H; cbn [map app]; tauto).
  rewrite (fold_dict_set_distinct fst snd l [] Hl). cbn [app].
  assert (E : map (fun x : Z * V => (fst x, snd x)) l = l)
    by (clear; induction l as [|[a b] l IH]; cbn [map fst snd]; [reflexivity|now rewrite IH]).
  rewrite E, (fold_dict_set_distinct fst snd l d H), E. reflexivity.
Qed.

(* ---------- GaussianDBALScorer.score ---------- *)
Section Score.
Variables (orc : oracle) (plates : list (Z * pyplate)) (D : arr2).

(* the (unused) union of the sub-group's selection vectors *)
Definition mask_body (m : option (list bool)) (p : pyplate) : result (option (list bool)) :=
  dor m' <- (if is_none m then Ok (Some (pp_sel p))
             else dor u <- unwrap m; dor r <- np_or_vec u (pp_sel p); Ok (Some r));
  Ok m'.

Lemma mask_loop_ok n (f : option (list bool) -> pyplate -> result (option (list bool))) :
  (forall m p, f m p = mask_body m p) ->
  forall l m, Forall (fun p => length (pp_sel p) = n) l ->
  match m with None => True | Some v => length v = n end ->
  exists m', res_fold f l m = Ok m'.
Proof.
  intros Hf l; induction l as [|p l IH]; intros m Hl Hm; cbn [res_fold]; [now exists m|].
  apply Forall_cons_iff in Hl as [Hp Hl']. rewrite Hf. unfold mask_body.
  destruct m as [v|]; cbn [is_none unwrap res_bind].
  - unfold np_or_vec. rewrite Hm, Hp, Nat.eqb_refl. cbn [res_bind]. apply IH; [exact Hl'|].
    rewrite map_length, combine_length, Hm, Hp. apply Nat.min_id.
  - apply IH; [exact Hl'|exact Hp].
Qed.

(* the body of the loop over the sub-groups, as generated *)
Definition score_body (st : list (list Z) * list (Z * ext)) (ks : list Z)
  : result (list (list Z) * list (Z * ext)) :=
  let '(draws, result) := st in
  dor cur <- res_map_all (fun k => dor r <- dict_get plates k; Ok r) ks;
  dor mask <- res_fold (fun m p => mask_body m p) cur None;
  let means := map (fun p => pp_means p) cur in
  let vars := map (fun p => pp_vars p) cur in
  dor _ <- res_fold (fun (_ : unit) '(a, b) => if shape_ne a b then Err 24%Z else Ok tt) (combine means vars) tt;
  dor pm <- pad_means_py means;
  dor pv <- pad_vars_py vars;
  dor (vals, draws) <- kernel_call orc pm pv D one_q draws;
  Ok (draws, dict_update result (dict_of_pairs (combine ks vals))).

(* what the model does with one sub-group and its recorded draw *)
Definition mstep (g : list (Z * pyplate)) (d : list Z) : result (list (Z * ext)) :=
  dor v <- hetero_checked orc (map (fun kp => snd (snd kp)) g) D 1%Qc d; Ok (combine (map fst g) v).

Lemma kernel_checked_length pred vars df idxs v :
  kernel_checked orc pred vars D df idxs = Ok v -> length v = length pred.
Proof.
  unfold kernel_checked. destruct (shape3 pred) as [[np T] E] eqn:Es. destruct (shape3 vars) as [[np' T'] E'].
  destruct (negb _); [discriminate|]. destruct (negb _); [discriminate|]. destruct (negb _); [discriminate|].
  destruct (T <? 3)%nat; [discriminate|].
  destruct (triples_of_draw T idxs) as [ts|t]; cbn [res_bind]; [|discriminate].
  intros H. inversion H; subst. unfold kernel. rewrite Es, map_length, seq_length.
  unfold shape3 in Es. now inversion Es.
Qed.

Lemma hetero_checked_length pls df idxs v :
  hetero_checked orc pls D df idxs = Ok v -> length v = length pls.
Proof.
  unfold hetero_checked. destruct (negb _); [discriminate|]. intros H.
  apply kernel_checked_length in H. rewrite H. unfold pad_means, pad_ragged. now rewrite !map_length.
Qed.

Lemma mstep_length g d kv : mstep g d = Ok kv -> map fst kv = map fst g.
Proof.
  unfold mstep. destruct (hetero_checked _ _ _ _ _) as [v|t] eqn:E; cbn [res_bind]; [|discriminate].
  intros H. inversion H; subst. apply hetero_checked_length in E. rewrite map_length in E.
  clear H. revert v E. induction g as [|kp g IH]; intros [|x v] E; cbn [length] in E; try discriminate; [reflexivity|].
  cbn [map combine fst]. f_equal. apply IH. lia.
Qed.

Lemma shape_check_forallb (l : list pyplate) :
  forallb (fun ab : arr2 * arr2 => negb (shape_ne (fst ab) (snd ab))) (combine (map (fun p => pp_means p) l) (map (fun p => pp_vars p) l))
  = forallb (fun pl : plate => shape2_eqb (shape2 (fst pl)) (shape2 (snd pl))) (map snd l).
Proof.
  induction l as [|[s [m v]] l IH]; [reflexivity|].
  cbn [map combine forallb fst snd pp_means pp_vars]. rewrite IH. unfold shape_ne. now rewrite negb_involutive.
Qed.

Lemma score_body_spec n g acc d r :
  g <> [] ->
  Forall (fun kp => dict_get plates (fst kp) = Ok (snd kp)) g ->
  Forall (fun kp => length (pp_sel (snd kp)) = n) g ->
  NoDup (map fst acc ++ map fst g) ->
  score_body (d :: r, acc) (map fst g) = dor kv <- mstep g d; Ok (r, acc ++ kv).
Proof.
  intros Hne Hget Hsel Hnd. unfold score_body.
  rewrite (lookup_group plates g Hget). cbn [res_bind].
  destruct (mask_loop_ok n (fun m p => mask_body m p) (fun m p => eq_refl) (map snd g) None) as [m' Hm];
    [rewrite Forall_map; exact Hsel|exact I|].
  rewrite Hm. cbn [res_bind].
  rewrite (res_fold_check (fun ab : arr2 * arr2 => negb (shape_ne (fst ab) (snd ab))) 24%Z)
    by (intros u [a b]; cbn [fst snd]; destruct (shape_ne a b); reflexivity).
  rewrite shape_check_forallb.
  unfold mstep, hetero_checked. rewrite !map_map. unfold pyplate, plate, arr2 in *.
  destruct (forallb _ (map _ g)) eqn:Echk; cbn [negb res_bind]; [|reflexivity].
  unfold pad_means_py, pad_vars_py.
  destruct g as [|kp g']; [congruence|]. cbn [map]. cbn [res_bind]. unfold kernel_call, one_q.
  change (pp_means (snd kp) :: map (fun x => pp_means (snd x)) g')
    with (map (fun x : Z * pyplate => fst (snd (snd x))) (kp :: g')).
  change (pp_vars (snd kp) :: map (fun x => pp_vars (snd x)) g')
    with (map (fun x : Z * pyplate => snd (snd (snd x))) (kp :: g')).
  destruct (kernel_checked orc _ _ D 1%Qc d) as [v|t] eqn:Ek; cbn [res_bind]; [|reflexivity].
  f_equal. f_equal. apply dict_update_pairs_fresh.
  apply kernel_checked_length in Ek. unfold pad_means, pad_ragged in Ek. rewrite !map_length in Ek.
  assert (Ekeys : map fst (combine (map fst (kp :: g')) v) = map fst (kp :: g')).
  { clear - Ek. revert v Ek. generalize (kp :: g') as g. induction g as [|x g IH]; intros [|y v] E; cbn [length] in E;
      try discriminate; [reflexivity|]. cbn [map combine fst]. f_equal. apply IH. lia. }
  change (fst kp :: map fst g') with (map fst (kp :: g')). rewrite Ekeys. exact Hnd.
Qed.

(* the loop over the sub-groups, for an arbitrary body equal to the generated one *)
Lemma score_loop n (f : list (list Z) * list (Z * ext) -> list Z -> result (list (list Z) * list (Z * ext))) :
  (forall st ks, f st ks = score_body st ks) ->
  forall gs draws acc,
  (length gs <= length draws)%nat ->
  Forall (fun g => g <> [] /\ Forall (fun kp => dict_get plates (fst kp) = Ok (snd kp)) g
                   /\ Forall (fun kp => length (pp_sel (snd kp)) = n) g) gs ->
  NoDup (map fst acc ++ map fst (concat gs)) ->
  res_fold f (map (map fst) gs) (draws, acc)
  = dor rs <- res_map_all (fun gd => mstep (fst gd) (snd gd)) (combine gs draws);
    Ok (skipn (length gs) draws, acc ++ concat rs).
Proof.
  intros Hf gs; induction gs as [|g gs IH]; intros draws acc Hlen Hgs Hnd.
  - cbn [map res_fold combine res_map_all res_bind concat length skipn]. now rewrite app_nil_r.
  - destruct draws as [|d r]; [cbn [length] in Hlen; lia|].
    inversion Hgs as [|? ? (Hne & Hget & Hsel) Hgs']; subst.
    cbn [map res_fold combine res_map_all fst snd]. rewrite Hf.
    cbn [concat] in Hnd. rewrite map_app in Hnd.
    rewrite (score_body_spec n g acc d r Hne Hget Hsel)
      by (rewrite app_assoc in Hnd; apply NoDup_app_inv in Hnd; tauto).
    destruct (mstep g d) as [kv|t] eqn:Em; cbn [res_bind]; [|reflexivity].
    rewrite IH; [| cbn [length] in Hlen; lia | exact Hgs' |].
    + destruct (res_map_all _ (combine gs r)) as [rs|t]; cbn [res_bind]; [|reflexivity].
      cbn [concat length skipn]. now rewrite <- app_assoc.
    + rewrite map_app, (mstep_length g d kv Em), <- app_assoc. exact Hnd.
Qed.

(* the model's per-group step on the plates without their selection vectors *)
Lemma model_steps gs : forall draws,
  res_map_all (fun gd : list (Z * plate) * list Z =>
                 dor v <- hetero_checked orc (map snd (fst gd)) D 1%Qc (snd gd); Ok (combine (map fst (fst gd)) v))
              (combine (map forget_sel gs) draws)
  = res_map_all (fun gd => mstep (fst gd) (snd gd)) (combine gs draws).
Proof.
  induction gs as [|g gs IH]; intros [|d r]; try reflexivity.
  cbn [map combine res_map_all fst snd]. rewrite IH. unfold mstep, forget_sel. rewrite !map_map. cbn [fst snd].
  reflexivity.
Qed.

Lemma steps_total_length gs : forall draws rs,
  (length gs <= length draws)%nat ->
  res_map_all (fun gd => mstep (fst gd) (snd gd)) (combine gs draws) = Ok rs ->
  length (concat rs) = length (concat gs).
Proof.
  induction gs as [|g gs IH]; intros draws rs Hlen H.
  - cbn [combine res_map_all] in H. inversion H. reflexivity.
  - destruct draws as [|d r]; [cbn [length] in Hlen; lia|].
    cbn [combine res_map_all fst snd] in H.
    destruct (mstep g d) as [kv|t] eqn:Em; cbn [res_bind] in H; [|discriminate].
    destruct (res_map_all _ (combine gs r)) as [rs'|t] eqn:Er; cbn [res_bind] in H; [|discriminate].
    inversion H; subst. cbn [concat]. rewrite !app_length.
    rewrite (IH r rs') by (cbn [length] in Hlen; lia || exact Er).
    apply mstep_length in Em. apply (f_equal (@length Z)) in Em. rewrite !map_length in Em. lia.
Qed.
End Score.

Definition sel_uniform (plates : list (Z * pyplate)) : Prop :=
  exists n, Forall (fun kp => length (pp_sel (snd kp)) = n) plates.

Theorem src_score_is_model orc (max_chunk : Z) (plates : list (Z * pyplate)) (D : arr2) (draws : list (list Z)) :
  NoDup (map fst plates) -> sel_uniform plates ->
  (ceil_div (length plates) (Z.to_nat max_chunk) <= length draws)%nat ->
  src_score orc max_chunk plates D draws = scorer_py orc max_chunk (forget_sel plates) D draws.
Proof.
  intros Hnd [n Hsel] Hdraws. unfold src_score, scorer_py.
  destruct plates as [|kp0 rest] eqn:Epl; [reflexivity|]. rewrite <- Epl in *.
  assert (Hn : (0 < length plates)%nat) by (rewrite Epl; cbn [length]; lia).
  replace (Z.of_nat (length plates) =? 0)%Z with false by (symmetry; apply Z.eqb_neq; lia).
  cbn [negb].
  destruct (forget_sel plates) as [|x xs] eqn:Ef;
    [apply (f_equal (@length _)) in Ef; unfold forget_sel in Ef; rewrite map_length in Ef; cbn [length] in Ef;
     change (@length (Z * pyplate) plates = 0%nat) in Ef; lia|].
  rewrite <- Ef. clear x xs Ef.
  destruct (Z.eqb_spec max_chunk 0) as [->|Hnz]; [reflexivity|].
  destruct (Z.ltb_spec max_chunk 0) as [Hneg|Hpos].
  - destruct (np_ceil_div_neg (length plates) max_chunk Hneg) as (q & -> & Hq). cbn [res_bind].
    unfold np_array_split. destruct (Z.leb_spec q 0) as [_|]; [reflexivity|lia].
  - rewrite np_ceil_div_pos by lia. cbn [res_bind].
    set (k := ceil_div (length plates) (Z.to_nat max_chunk)) in *.
    assert (Hk : (0 < k)%nat) by (apply ceil_div_pos; lia).
    assert (Hkn : (k <= length plates)%nat) by (apply ceil_div_le; lia).
    unfold np_array_split. destruct (Z.leb_spec (Z.of_nat k) 0) as [|_]; [lia|]. cbn [res_bind].
    rewrite Nat2Z.id, array_split_map.
    set (gs := array_split plates k).
    assert (Hcat : concat gs = plates) by (apply concat_array_split; now left).
    assert (Hlen : length gs = k) by (apply length_array_split; now left).
    match goal with |- context [res_fold ?f (map (map fst) gs) (draws, [])] =>
      assert (Hf : forall st ks, f st ks = score_body orc plates D st ks) by (intros [dr ac] ks; reflexivity);
      rewrite (score_loop orc plates D n f Hf gs draws []); [clear Hf| |clear Hf|clear Hf]
    end.
    + unfold scorer_checked.
      destruct (forget_sel plates) as [|x xs] eqn:Ef;
        [apply (f_equal (@length _)) in Ef; unfold forget_sel in Ef; rewrite map_length in Ef; cbn [length] in Ef;
     change (@length (Z * pyplate) plates = 0%nat) in Ef; lia|].
      rewrite <- Ef. unfold forget_sel at 2. rewrite map_length. fold k.
      unfold forget_sel at 1. rewrite array_split_map. fold gs. fold forget_sel.
      rewrite model_steps.
      change (array_split plates (ceil_div (length plates) (Z.to_nat max_chunk))) with gs.
      destruct (res_map_all _ (combine gs draws)) as [rs|t] eqn:Ers; cbn [res_bind app]; [|reflexivity].
      rewrite (steps_total_length orc D gs draws rs) by (lia || exact Ers).
      rewrite Hcat, Z.eqb_refl. reflexivity.
    + lia.
    + pose proof (array_split_nonempty plates k Hk Hkn) as Hnonempty. fold gs in Hnonempty.
      rewrite Forall_forall in Hnonempty. apply Forall_forall. intros g Hg.
      assert (Hsub : forall x, In x g -> In x plates)
        by (intros x Hx; rewrite <- Hcat; apply in_concat; now exists g).
      split; [now apply Hnonempty|]. split; apply Forall_forall; intros [k' p] Hx.
      * apply dict_get_in; [exact Hnd|]. now apply Hsub.
      * rewrite Forall_forall in Hsel. apply (Hsel (k', p)). now apply Hsub.
    + cbn [map app]. rewrite Hcat. exact Hnd.
Qed.

(* for a positive max_chunk this is the model scorer itself *)
Corollary src_score_is_scorer_checked orc (mc : nat) (plates : list (Z * pyplate)) D draws :
  (0 < mc)%nat -> NoDup (map fst plates) -> sel_uniform plates ->
  (ceil_div (length plates) mc <= length draws)%nat ->
  src_score orc (Z.of_nat mc) plates D draws = scorer_checked orc mc (forget_sel plates) D draws.
Proof.
  intros Hmc Hnd Hsel Hd. rewrite src_score_is_model by (rewrite ?Nat2Z.id; assumption).
  unfold scorer_py, scorer_checked. destruct (forget_sel plates); [reflexivity|].
  destruct (Z.eqb_spec (Z.of_nat mc) 0); [lia|]. destruct (Z.ltb_spec (Z.of_nat mc) 0); [lia|].
  now rewrite Nat2Z.id.
Qed.

(* ---------- pad_ragged_arrays_to_dense_array ---------- *)
Lemma fold_zmax_max_list l : forall x,
  fold_left Z.max (map Z.of_nat l) (Z.of_nat x) = Z.of_nat (max_list (x :: l)).
Proof.
  induction l as [|y l IH]; intros x; cbn [map fold_left].
  - unfold max_list. cbn [fold_right]. now rewrite Nat.max_0_r.
  - rewrite <- Nat2Z.inj_max, IH. f_equal. unfold max_list. cbn [fold_right]. lia.
Qed.

Lemma skipn_repeat {A} (a : A) n k : skipn k (repeat a n) = repeat a (n - k).
Proof.
  revert k; induction n as [|n IH]; intros [|k]; cbn [repeat skipn Nat.sub]; try reflexivity. apply IH.
Qed.

Lemma overlay_row_blank {A} (pad : A) w r : overlay_row r (repeat pad w) = pad_row pad w r.
Proof. unfold overlay_row, pad_row. now rewrite skipn_repeat. Qed.

Lemma overlay2_blank {A} (pad : A) w a : forall h, (length a <= h)%nat ->
  overlay2 a (repeat (repeat pad w) h) = pad2 pad h w a.
Proof.
  unfold pad2. induction a as [|r a IH]; intros h Hh; cbn [overlay2 map app length].
  - now rewrite Nat.sub_0_r.
  - destruct h as [|h]; [cbn [length] in Hh; lia|]. cbn [repeat Nat.sub].
    rewrite overlay_row_blank, IH by (cbn [length] in Hh; lia). reflexivity.
Qed.

Lemma pad_loop {A} (pad : A) h w arrays : forall done,
  Forall (fun a => length a <= h)%nat arrays ->
  fold_left (fun res (ia : Z * list (list A)) => set_block res (fst ia) (snd ia))
            (combine (map Z.of_nat (seq (length done) (length arrays))) arrays)
            (done ++ repeat (repeat (repeat pad w) h) (length arrays))
  = done ++ map (pad2 pad h w) arrays.
Proof.
  induction arrays as [|a arrays IH]; intros done Hfit; cbn [length seq map combine fold_left repeat]; [reflexivity|].
  inversion Hfit as [|? ? Ha Hrest]; subst. cbn [fst snd]. unfold set_block at 2. rewrite Nat2Z.id.
  rewrite firstn_app, Nat.sub_diag, firstn_all, skipn_app, Nat.sub_diag, skipn_all. cbn [firstn skipn app].
  rewrite app_nil_r, overlay2_blank by exact Ha.
  replace (S (length done)) with (length (done ++ [pad2 pad h w a])) by (rewrite app_length; cbn [length]; lia).
  change (done ++ pad2 pad h w a :: repeat (repeat (repeat pad w) h) (length arrays))
    with (done ++ [pad2 pad h w a] ++ repeat (repeat (repeat pad w) h) (length arrays)).
  rewrite app_assoc, (IH _ Hrest), <- app_assoc. reflexivity.
Qed.

Theorem src_pad_is_model (A : Type) (arrays : list (list (list A))) (pad : A) :
  src_pad A arrays pad = match arrays with [] => Err 27%Z | _ => Ok (pad_ragged pad arrays) end.
Proof.
  unfold src_pad. destruct arrays as [|a0 rest] eqn:E; [reflexivity|]. rewrite <- E.
  set (h := max_list (map (fun a => fst (shape2 a)) arrays)).
  set (w := max_list (map (fun a => snd (shape2 a)) arrays)).
  assert (Hmax : np_max_axis0 (map (fun a => shape2z a) arrays) = Ok (Z.of_nat h, Z.of_nat w)).
  { subst h w. rewrite E. cbn [map np_max_axis0 shape2z fst snd]. rewrite !map_map. cbn [fst snd].
    rewrite <- (map_map (fun a : list (list A) => length a) Z.of_nat),
            <- (map_map (fun a : list (list A) => length (hd [] a)) Z.of_nat), !fold_zmax_max_list. reflexivity. }
  rewrite Hmax. cbn [res_bind].
  rewrite (res_fold_pure _ (fun res (ia : Z * list (list A)) => set_block res (fst ia) (snd ia)))
    by (intros s [i a]; reflexivity).
  cbn [res_bind]. f_equal. unfold np_full3, enumerate_z. cbn [fst snd]. rewrite !Nat2Z.id.
  apply (pad_loop pad h w arrays []).
  apply Forall_forall. intros a Ha. apply (max_list_ge (map (fun a => fst (shape2 a)) arrays)).
  apply in_map_iff. now exists a.
Qed.

(* the two uses: 0-padding of the means, NaN-padding of the variances (every real cell is [Some]) *)
Corollary pad_means_py_is_source ms : pad_means_py ms = src_pad Qc ms 0%Qc.
Proof. rewrite src_pad_is_model. destruct ms; reflexivity. Qed.
Corollary pad_vars_py_is_source vs : pad_vars_py vs = src_pad (option Qc) (map (map (map Some)) vs) None.
Proof. rewrite src_pad_is_model. destruct vs; reflexivity. Qed.

(* ---------- dbal_fast_gaussian_scoring_heteroscedastic ---------- *)
Lemma shape_check_plates (pls : list plate) :
  forallb (fun ab : arr2 * arr2 => negb (shape_ne (fst ab) (snd ab))) (combine (map fst pls) (map snd pls))
  = forallb (fun pl : plate => shape2_eqb (shape2 (fst pl)) (shape2 (snd pl))) pls.
Proof.
  induction pls as [|[m v] l IH]; [reflexivity|].
  cbn [map combine forallb fst snd]. rewrite IH. unfold shape_ne. now rewrite negb_involutive.
Qed.

Theorem src_hetero_is_model orc (plates : list plate) D df idxs :
  src_hetero orc (map fst plates) (map snd plates) D df idxs
  = match plates with [] => Err 27%Z | _ => hetero_checked orc plates D df idxs end.
Proof.
  unfold src_hetero, hetero_checked.
  rewrite (res_fold_check (fun ab : arr2 * arr2 => negb (shape_ne (fst ab) (snd ab))) 24%Z)
    by (intros u [a b]; cbn [fst snd]; destruct (shape_ne a b); reflexivity).
  rewrite shape_check_plates.
  destruct plates as [|p pls]; [reflexivity|]. unfold plate, arr2 in *.
  destruct (forallb _ (p :: pls)); cbn [negb res_bind]; [|reflexivity].
  cbn [map pad_means_py pad_vars_py res_bind].
  destruct (kernel_checked _ _ _ _ _ _); reflexivity.
Qed.

(* ---------- dbal_fast_gaussian_scoring_homoscedastic ---------- *)
Lemma homo_loop (variances : arr2) (f : list arr2 -> Z * arr2 -> result (list arr2)) :
  (forall acc ip, f acc ip =
     dor row <- list_get variances (fst ip);
     dor x <- np_col_times_ones row (Z.of_nat (length row)) (dim1 (snd ip));
     Ok (acc ++ [x])) ->
  forall preds s acc, (s + length preds <= length variances)%nat ->
  res_fold f (combine (map Z.of_nat (seq s (length preds))) preds) acc
  = Ok (acc ++ map (fun pv => homo_expand (fst pv) (snd pv)) (combine preds (skipn s variances))).
Proof.
  intros Hf preds; induction preds as [|mu preds IH]; intros s acc Hlen;
    cbn [length seq map combine res_fold]; [now rewrite app_nil_r|].
  cbn [length] in Hlen. rewrite Hf. cbn [fst snd].
  destruct (skipn s variances) as [|row rest] eqn:Esk;
    [apply (f_equal (@length _)) in Esk; rewrite skipn_length in Esk; cbn [length] in Esk; lia|].
  assert (Hnth : nth_error variances s = Some row).
  { rewrite <- (firstn_skipn s variances), Esk, nth_error_app2 by (rewrite firstn_length; lia).
    rewrite firstn_length, Nat.min_l by lia. now rewrite Nat.sub_diag. }
  unfold list_get. destruct (Z.ltb_spec (Z.of_nat s) 0) as [|_]; [lia|].
  destruct (Z.ltb_spec (Z.of_nat s) 0) as [|_]; [lia|]. rewrite Nat2Z.id, Hnth. cbn [res_bind].
  unfold np_col_times_ones. rewrite Z.eqb_refl. cbn [res_bind]. unfold dim1. rewrite Nat2Z.id.
  rewrite IH by lia.
  assert (Erest : skipn (S s) variances = rest).
  { change (S s) with (1 + s)%nat. rewrite Nat.add_comm, <- skipn_skipn, Esk. reflexivity. }
  rewrite Erest. cbn [combine map fst snd]. rewrite <- app_assoc. reflexivity.
Qed.

Lemma pad_vars_py_nonempty l : l <> [] -> pad_vars_py l = Ok (pad_vars l).
Proof. destruct l; [congruence|reflexivity]. Qed.

Lemma zeqb_of_nat a b : (Z.of_nat a =? Z.of_nat b)%Z = Nat.eqb a b.
Proof. destruct (Nat.eqb_spec a b), (Z.eqb_spec (Z.of_nat a) (Z.of_nat b)); (reflexivity || lia). Qed.

Theorem src_homo_is_model orc (preds : list arr2) (variances : arr2) D df idxs :
  src_homo orc preds variances D df idxs
  = match preds with
    | [] => match variances with [] => Err 27%Z | _ => Err 25%Z end
    | _ => homo_checked orc preds variances D df idxs
    end.
Proof.
  unfold src_homo, homo_checked. unfold dim0 at 1. rewrite zeqb_of_nat. unfold arr2 in *.
  destruct preds as [|mu0 preds0] eqn:E.
  - destruct variances; reflexivity.
  - rewrite <- E. assert (Hne : preds <> []) by (rewrite E; discriminate).
    destruct (Nat.eqb_spec (length preds) (fst (shape2 variances))) as [Hlen|_]; cbn [negb]; [|reflexivity].
    rewrite (res_fold_check (fun mu : arr2 => (dim0 mu =? dim1 variances)%Z) 26%Z)
      by (intros u mu; destruct (dim0 mu =? dim1 variances)%Z; reflexivity).
    assert (Hchk : forallb (fun mu : arr2 => (dim0 mu =? dim1 variances)%Z) preds
                   = forallb (fun mu : list (list Qc) => Nat.eqb (fst (shape2 mu)) (snd (shape2 variances))) preds)
      by (clear; induction preds as [|mu l IH]; cbn [forallb]; [reflexivity|]; rewrite IH; f_equal; unfold dim0, dim1; apply zeqb_of_nat).
    rewrite Hchk. clear Hchk.
    destruct (forallb _ preds); cbn [negb res_bind]; [|reflexivity].
    assert (Hpm : pad_means_py preds = Ok (pad_means preds)) by (rewrite E; reflexivity).
    rewrite Hpm. clear Hpm. cbn [res_bind].
    unfold enumerate_z.
    match goal with |- context [res_fold ?f (combine _ preds) []] =>
      rewrite (homo_loop variances f) with (s := 0%nat);
        [| intros acc [i mu]; reflexivity | cbn [shape2 fst] in Hlen; unfold arr2; lia]
    end.
    cbn [res_bind app skipn].
    rewrite pad_vars_py_nonempty.
    + cbn [res_bind]. apply res_bind_ok_id.
    + cbn [shape2 fst] in Hlen. rewrite E in Hlen |- *.
      destruct variances; [cbn [length] in Hlen; lia|discriminate].
Qed.

(* ---------- dbal_fast_gauss_scoring_vectorized: the shape checks and the index-to-triple run ---------- *)
Lemma src_kernel_checks_spec (pred : arr3) (vars : arr3n) (D : arr2) :
  src_kernel_checks pred vars D
  = let '(np, T, E) := shape3 pred in
    let '(np', T', E') := shape3 vars in
    if negb (Nat.eqb np np' && Nat.eqb T T' && Nat.eqb E E') then Err 20%Z
    else if negb (Nat.eqb (fst (shape2 D)) (snd (shape2 D))) then Err 21%Z
    else if negb (Nat.eqb (fst (shape2 D)) T) then Err 22%Z
    else Ok tt.
Proof.
  unfold src_kernel_checks, shape3_ne, dim0, dim1, dim3_1.
  destruct (shape3 pred) as [[np T] E]. destruct (shape3 vars) as [[np' T'] E']. cbn [fst snd].
  rewrite !zeqb_of_nat, (Nat.eqb_sym np' np), (Nat.eqb_sym T' T), (Nat.eqb_sym E' E),
    (Nat.eqb_sym (snd (shape2 D)) (fst (shape2 D))).
  reflexivity.
Qed.

(* comb3_small / comb3_pos / res_map_all_eta / res_map_all_length / src_kernel_triples_spec: Proofs/C05Source_KernelTriples.v
   (a file of its own: property C15's use-site theorem is about that translated run and imports only it) *)

(* nat3 / triples_via_unrank3 / nat_triples_unzip3: Proofs/C05Source_KernelTriples.v *)

(* the model's checked kernel IS: the translated shape checks, the translated index-to-triple run on the recorded
   rng.choice answer d, and the (untranslated) tensor expressions [kernel] on the triples that run produces *)
Theorem kernel_checked_is_source orc (pred : arr3) (vars : arr3n) (D : arr2) df (mc : Z) (d : list Z) rest :
  (1 <= mc)%Z ->
  (let T := Z.of_nat (snd (fst (shape3 pred))) in choice_ok (comb3 T) (Z.min (comb3 T) mc) d = true) ->
  kernel_checked orc pred vars D df d
  = dor _ <- src_kernel_checks pred vars D;
    dor r <- src_kernel_triples pred mc (d :: rest);
    Ok (kernel orc pred vars D df (nat_triples (fst r))).
Proof.
  intros Hmc Hok. rewrite src_kernel_checks_spec. unfold kernel_checked.
  destruct (shape3 pred) as [[np T] E] eqn:Es. destruct (shape3 vars) as [[np' T'] E']. cbn [fst snd] in Hok.
  destruct (negb (_ && _ && _)); [reflexivity|].
  destruct (negb (Nat.eqb (fst (shape2 D)) (snd (shape2 D)))); [reflexivity|].
  destruct (negb (Nat.eqb (fst (shape2 D)) T)); [reflexivity|]. cbn [res_bind].
  rewrite (src_kernel_triples_spec pred mc d rest np T E Es Hmc Hok).
  destruct (Nat.ltb_spec T 3) as [Hlt|Hge]; [reflexivity|].
  rewrite triples_via_unrank3.
  destruct (res_map_all _ d) as [zs|t] eqn:Ez; cbn [res_bind]; [|reflexivity].
  destruct (unzip3 zs) as [t3|t] eqn:Eu; cbn [res_bind fst].
  - now rewrite (nat_triples_unzip3 zs t3 Eu).
  - exfalso. apply res_map_all_length in Ez. pose proof (comb3_pos T Hge) as Hc.
    unfold choice_ok in Hok. apply andb_prop in Hok as [Hok _]. apply andb_prop in Hok as [Hlen _].
    apply Z.eqb_eq in Hlen. destruct zs; [cbn [length] in Ez; lia|discriminate].
Qed.
