(* C13: the optimal size retains the most experiments:  s * #{plates of size >= s}  is maximal at
   s = optimal_size. *)
From Coq Require Import ZArith List Bool Arith Lia Permutation Sorted.
From Batchie Require Import Lib.Sexp Model.Encode Model.Screen Model.Retro Proofs.C11Lib.
Import ListNotations.
Open Scope nat_scope.

Definition count_ge (x : nat) (l : list nat) : nat := length (filter (fun y => x <=? y) l).

Lemma filter_length_perm {A} (f : A -> bool) : forall l l', Permutation l l' -> length (filter f l) = length (filter f l').
Proof.
  intros l l' H. induction H as [|x l l' H IH|x y l|l l' l'' H1 IH1 H2 IH2]; cbn [filter]; auto.
  - destruct (f x); cbn [length]; congruence.
  - destruct (f x), (f y); reflexivity.
  - congruence.
Qed.

(* np.sort *)
Lemma insert_nat_perm : forall x l, Permutation (insert_nat x l) (x :: l).
Proof.
  intros x l. induction l as [|y l IH]; cbn [insert_nat]; [reflexivity|].
  destruct (x <=? y); [reflexivity|]. rewrite IH. apply perm_swap.
Qed.
Lemma sort_nat_perm : forall l, Permutation (sort_nat l) l.
Proof.
  induction l as [|x l IH]; cbn [sort_nat fold_right]; [constructor|].
  change (fold_right insert_nat [] l) with (sort_nat l). rewrite insert_nat_perm. now constructor.
Qed.
Lemma insert_nat_sorted : forall x l, StronglySorted le l -> StronglySorted le (insert_nat x l).
Proof.
  intros x l H. induction H as [|y l Hs IH Hall]; cbn [insert_nat]; [repeat constructor|].
  destruct (x <=? y) eqn:E.
  - apply Nat.leb_le in E. constructor; [now constructor|]. constructor; [exact E|].
    eapply Forall_impl; [|exact Hall]. intros z Hz. lia.
  - apply Nat.leb_gt in E. constructor; [exact IH|]. apply Forall_forall. intros z Hz.
    apply (Permutation_in _ (insert_nat_perm x l)) in Hz as [<-|Hz]; [lia|].
    rewrite Forall_forall in Hall. now apply Hall.
Qed.
Lemma sort_nat_sorted : forall l, StronglySorted le (sort_nat l).
Proof.
  induction l as [|x l IH]; cbn [sort_nat fold_right]; [constructor|]. now apply insert_nat_sorted.
Qed.

(* the products array, by suffixes *)
Fixpoint prods_suffix (l : list nat) : list nat :=
  match l with [] => [] | x :: r => x * length l :: prods_suffix r end.

Lemma size_products_suffix_gen : forall l k n, n = k + length l ->
  map (fun kx => snd kx * (n - fst kx)) (enum_from k l) = prods_suffix l.
Proof.
  induction l as [|x l IH]; intros k n Hn; cbn [enum_from map prods_suffix fst snd]; [reflexivity|].
  cbn [length] in *. rewrite (IH (S k) n) by lia. f_equal. f_equal. lia.
Qed.
Lemma size_products_suffix : forall s, size_products s = prods_suffix s.
Proof. intros s. unfold size_products. now apply size_products_suffix_gen. Qed.
Lemma prods_suffix_length : forall l, length (prods_suffix l) = length l.
Proof. induction l as [|x l IH]; cbn [prods_suffix length]; congruence. Qed.

(* np.argmax *)
Lemma argmax_go_spec : forall l pre i best bi,
  length pre = i -> bi < i -> nth bi pre 0 = best -> (forall y, In y pre -> y <= best) ->
  let j := argmax_go l i best bi in
  j < length (pre ++ l) /\ forall y, In y (pre ++ l) -> y <= nth j (pre ++ l) 0.
Proof.
  induction l as [|y l IH]; intros pre i best bi Hl Hbi Hb Hall; cbn [argmax_go].
  - rewrite app_nil_r. cbn zeta. split; [lia|]. intros z Hz. rewrite Hb. now apply Hall.
  - destruct (best <? y) eqn:E.
    + apply Nat.ltb_lt in E.
      specialize (IH (pre ++ [y]) (S i) y i). rewrite <- app_assoc in IH. cbn [app] in IH. apply IH.
      * rewrite app_length. cbn. lia.
      * lia.
      * rewrite app_nth2 by lia. now replace (i - length pre) with 0 by lia.
      * intros z Hz. apply in_app_or in Hz as [Hz|[<-|[]]]; [specialize (Hall z Hz); lia|lia].
    + apply Nat.ltb_ge in E.
      specialize (IH (pre ++ [y]) (S i) best bi). rewrite <- app_assoc in IH. cbn [app] in IH. apply IH.
      * rewrite app_length. cbn. lia.
      * lia.
      * rewrite app_nth1 by lia. exact Hb.
      * intros z Hz. apply in_app_or in Hz as [Hz|[<-|[]]]; [now apply Hall|lia].
Qed.

Lemma argmax_spec : forall l, l <> [] ->
  argmax l < length l /\ forall y, In y l -> y <= nth (argmax l) l 0.
Proof.
  intros [|x l] H; [congruence|]. unfold argmax.
  apply (argmax_go_spec l [x] 1 x 0); cbn; auto. intros y [<-|[]]. lia.
Qed.

(* sorted lists: counting from a position on *)
Lemma count_ge_all : forall x l, Forall (fun y => x <= y) l -> count_ge x l = length l.
Proof.
  intros x l H. unfold count_ge. induction H as [|y l Hy Hl IH]; cbn [filter length]; [reflexivity|].
  apply Nat.leb_le in Hy. rewrite Hy. cbn [length]. congruence.
Qed.
Lemma count_ge_cons_le : forall x a l, count_ge x l <= count_ge x (a :: l).
Proof. intros. unfold count_ge. cbn [filter]. destruct (x <=? a); cbn [length]; lia. Qed.

Lemma suffix_le_count : forall l, StronglySorted le l -> forall k, k < length l ->
  nth k (prods_suffix l) 0 <= nth k l 0 * count_ge (nth k l 0) l.
Proof.
  intros l H. induction H as [|a l Hs IH Hall]; intros k Hk; [cbn in Hk; lia|].
  destruct k as [|k]; cbn [nth prods_suffix].
  - rewrite count_ge_all; [lia|]. constructor; [lia|exact Hall].
  - cbn [length] in Hk. etransitivity; [apply IH; lia|]. apply Nat.mul_le_mono_l, count_ge_cons_le.
Qed.

Lemma count_le_max : forall l, StronglySorted le l -> forall x m,
  (forall y, In y (prods_suffix l) -> y <= m) -> x * count_ge x l <= m.
Proof.
  intros l H. induction H as [|a l Hs IH Hall]; intros x m Hm; [cbn; lia|].
  destruct (x <=? a) eqn:E.
  - apply Nat.leb_le in E. rewrite count_ge_all.
    + etransitivity; [|apply Hm; cbn [prods_suffix]; left; reflexivity]. apply Nat.mul_le_mono_r. exact E.
    + constructor; [exact E|]. eapply Forall_impl; [|exact Hall]. intros z Hz. lia.
  - unfold count_ge. cbn [filter]. rewrite E. apply IH. intros y Hy. apply Hm. cbn [prods_suffix]. now right.
Qed.

Theorem optimal_size_optimal : forall sizes x,
  x * count_ge x sizes <= optimal_size sizes * count_ge (optimal_size sizes) sizes.
Proof.
  intros sizes x. unfold optimal_size. set (s := sort_nat sizes).
  assert (HP : Permutation s sizes) by apply sort_nat_perm.
  assert (HS : StronglySorted le s) by apply sort_nat_sorted.
  unfold count_ge. rewrite <- !(filter_length_perm _ _ _ HP). fold (count_ge x s).
  rewrite size_products_suffix.
  destruct s as [|a s'] eqn:Es; [cbn; lia|]. rewrite <- Es in *.
  assert (Hne : prods_suffix s <> []) by (rewrite Es; discriminate).
  destruct (argmax_spec _ Hne) as [Hlt Hmax]. rewrite prods_suffix_length in Hlt.
  set (i := argmax (prods_suffix s)) in *.
  etransitivity; [apply (count_le_max s HS x _ Hmax)|].
  apply (suffix_le_count s HS i Hlt).
Qed.

(* the optimal size is the size of an existing plate *)
Lemma optimal_size_In : forall sizes, sizes <> [] -> In (optimal_size sizes) sizes.
Proof.
  intros sizes Hne. unfold optimal_size. set (s := sort_nat sizes).
  assert (HP : Permutation s sizes) by apply sort_nat_perm.
  eapply Permutation_in; [exact HP|]. apply nth_In.
  assert (Hs : s <> []).
  { intros E. rewrite E in HP. apply Permutation_nil in HP. contradiction. }
  rewrite size_products_suffix.
  assert (Hne' : prods_suffix s <> []) by (destruct s; [congruence|discriminate]).
  destruct (argmax_spec _ Hne') as [Hlt _]. now rewrite prods_suffix_length in Hlt.
Qed.
