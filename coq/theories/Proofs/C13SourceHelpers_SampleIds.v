(* C13 / C11, one piece of Proofs/C13SourceHelpers.v (representation and side conditions: see there): screen.unique_sample_ids / n_unique_samples *)
From Coq Require Import ZArith List Bool Arith Lia ZifyBool.
From Batchie Require Import Lib.Sexp Lib.PyRt Generated.Consts Model.Encode Model.Screen Model.Views Model.Retro Model.RetroHoldout
  Generated.SrcEncode Generated.SrcViews Generated.SrcPlates
  Proofs.PyRtLemmas Proofs.C01Sort Proofs.C01Encode Proofs.C14Defs Proofs.C14Lists Proofs.C14Unique Proofs.C14Views
  Proofs.C14ToScreen
  Proofs.C14SourceHelpers_ScreenSamples Proofs.C13SourceHelpers_Base.
Import ListNotations.
Open Scope nat_scope.

(* ---------------- unique_sample_ids / n_unique_samples ---------------- *)
(* on a screen whose sample ids are fresh (any to_screen() / combine result - what every generator and smoother is handed):
   the unique sample ids are 0 .. k-1, k the number of distinct sample names; id j stands for the j-th name of
   [sample_names] (the list the Retro vocabulary iterates over instead): the rows with sample id j are the rows of that sample *)
Theorem src_unique_sample_ids_are_sample_names : forall s : pyscreen, sample_ids_fresh (snd s) ->
  let names := sample_names (s_rows (snd s)) in
  src_screen_unique_sample_ids s = Ok (map Z.of_nat (seq 0 (length names))) /\
  src_screen_n_unique_samples s = Ok (zlen names) /\
  (forall j, j < length names ->
     map (fun x => (x =? Z.of_nat j)%Z) (s_sids (snd s)) = map (in_sample (nth j names [])) (s_rows (snd s))).
Proof.
  intros s (m & Hm) names. pose proof (fresh_ids_are_ranks _ _ _ _ Hm) as Hr.
  rewrite src_screen_unique_sample_ids_is_model, src_screen_n_unique_samples_is_model. unfold screen_unique_sids.
  unfold names, sample_names. set (sn := map r_sample (s_rows (snd s))) in *. rewrite Hr.
  pose proof (ranks_sorted_unique sn) as Hs. cbv zeta in Hs. rewrite Hs.
  split; [reflexivity|]. split; [unfold zlen; now rewrite map_length, seq_length|].
  intros j Hj. pose proof (rank_eqb_name sn j) as He. cbv zeta in He. rewrite He by exact Hj.
  unfold sn. rewrite map_map. reflexivity.
Qed.
