(* C19 — the invariant along arbitrary crash schedules, the resume theorems, and the two
   refutations of the unrestricted statement. *)
From Coq Require Import ZArith List Bool Lia Arith.
From Batchie Require Import Model.Orchestrate Proofs.C19Base Proofs.C19Canon Proofs.C19Step.
Import ListNotations.
Open Scope Z_scope.

Section Main.
Variables (md : mode) (bs n : nat) (fixed : bool).
Hypothesis Hbs : (1 <= bs)%nat.
Hypothesis Hn : (1 <= n)%nat.
Hypothesis Hfix : fixed = true \/ bs = 1%nat.

Local Notation canon := (canon md bs n).

(* reachable trees: completed steps 0..c-1 in lexicographic order with the ideal contents,
   plus at most one of {empty next iteration directory, one incomplete directory at index c} *)
Definition Inv (f : fs) : Prop :=
  exists c x, f = canon c x /\ okx c x /\ (md = Retro -> (c <= n)%nat).

Lemma inv_init : Inv [].
Proof. exists O, XNone. rewrite (canon_0 md bs n Hbs Hn). repeat split. lia. Qed.

Definition sched_ok (sched : list entry) : Prop := Forall (fun e => entry_ok e = true) sched.

(* what one call may do, seen from a tree with completed steps 0..c-1 *)
Definition call_ok (f f' : fs) (g : logitem) : Prop :=
  exists c,
    completed f = ideal md bs n c /\
    (completed f' = ideal md bs n c \/ completed f' = ideal md bs n (S c)) /\
    match g with
    | GLaunch s l _ _ => s = step_of bs c /\ l = ideal_launch md bs c /\ ~ In s (map fst (completed f))
    | GNamed _ s => ~ In s (map fst (completed f))
    | GFail _ => False
    | _ => True
    end.

Lemma inv_attempt f e :
  Inv f -> entry_ok e = true ->
  let r := attempt md fixed (Z.of_nat bs) n f e in
  Inv (fst r) /\ call_ok f (fst r) (snd r).
Proof.
  intros (c & x & -> & Hx & Hcn) He.
  destruct (attempt_canon md bs n Hbs Hn fixed c x e Hx Hfix Hcn He) as (c' & x' & g & E & Hx' & Hcn' & Hc' & Hg).
  cbn zeta. rewrite E. cbn [fst snd]. split; [now exists c', x'|].
  exists c. rewrite !(completed_canon md bs n Hbs Hn) by assumption.
  split; [reflexivity|]. split; [destruct Hc' as [->| ->]; auto|].
  pose proof (next_not_completed md bs n Hbs Hn c) as Hnot.
  destruct g; cbn [log_ok] in Hg |- *; auto.
  - now subst s.
  - destruct Hg as [-> ->]. auto.
Qed.

Lemma inv_run : forall sched f, sched_ok sched -> Inv f -> Inv (fst (script_run md fixed (Z.of_nat bs) n f sched)).
Proof.
  induction sched as [|e r IH]; intros f Hs Hf; [exact Hf|].
  inversion Hs as [|? ? He Hr]; subst. cbn [script_run].
  destruct (inv_attempt f e Hf He) as [Hi _]. cbn zeta in Hi.
  destruct (attempt md fixed (Z.of_nat bs) n f e) as [f1 g]. cbn [fst] in Hi.
  specialize (IH f1 Hr Hi). destruct (script_run md fixed (Z.of_nat bs) n f1 r) as [f2 gs]. exact IH.
Qed.

Lemma inv_completed f : Inv f ->
  completed f = ideal md bs n (length (completed f)) /\ (md = Retro -> (length (completed f) <= n)%nat).
Proof.
  intros (c & x & -> & Hx & Hcn). rewrite (completed_canon md bs n Hbs Hn) by assumption.
  rewrite ideal_length. auto.
Qed.

Theorem resume_correct sched :
  sched_ok sched ->
  let f := fst (script_run md fixed (Z.of_nat bs) n [] sched) in
  completed f = ideal md bs n (length (completed f)) /\ (md = Retro -> (length (completed f) <= n)%nat).
Proof. intros Hs. apply inv_completed, inv_run; [exact Hs|exact inv_init]. Qed.

(* every single call along every schedule is safe *)
Theorem step_safe sched e :
  sched_ok sched -> entry_ok e = true ->
  let f := fst (script_run md fixed (Z.of_nat bs) n [] sched) in
  let r := attempt md fixed (Z.of_nat bs) n f e in
  call_ok f (fst r) (snd r).
Proof.
  intros Hs He. cbn zeta. apply inv_attempt; [|exact He]. apply inv_run; [exact Hs|exact inv_init].
Qed.

Theorem invariant sched : sched_ok sched -> Inv (fst (script_run md fixed (Z.of_nat bs) n [] sched)).
Proof. intros Hs. apply inv_run; [exact Hs|exact inv_init]. Qed.

(* the uninterrupted run is crash_free *)
Lemma run_full e : entry_ok e = true -> full_entry e ->
  forall m c, (forall k, (c <= k < c + m)%nat -> can_complete md bs n k /\ (md = Retro -> (k < n)%nat)) ->
  fst (script_run md fixed (Z.of_nat bs) n (canon c XNone) (repeat e m)) = canon (c + m) XNone.
Proof.
  intros He Hf. induction m as [|m IH]; intros c Hc; [now rewrite Nat.add_0_r|].
  cbn [repeat script_run].
  pose proof (attempt_full md bs n Hbs Hn fixed c XNone e I Hfix) as Ha.
  destruct (Hc c) as [Hc1 Hc2]; [lia|]. specialize (Ha ltac:(congruence) Hc1 Hc2 He Hf).
  destruct (attempt md fixed (Z.of_nat bs) n (canon c XNone) e) as [f1 g]. cbn [fst] in Ha. subst f1.
  specialize (IH (S c)). rewrite Nat.add_succ_r.
  destruct (script_run md fixed (Z.of_nat bs) n (canon (S c) XNone) (repeat e m)) as [f2 gs]. cbn [fst] in *.
  apply IH. intros k Hk. apply Hc. lia.
Qed.

End Main.

(* ---------- closed statements ---------- *)

Lemma firstn_map_seq {A} (g : nat -> A) k m : (k <= m)%nat -> firstn k (map g (seq 0 m)) = map g (seq 0 k).
Proof.
  intros H. rewrite firstn_map. f_equal. replace m with (k + (m - k))%nat by lia.
  rewrite seq_app, firstn_app, seq_length, Nat.sub_diag. cbn [firstn]. rewrite app_nil_r.
  apply firstn_all2. now rewrite seq_length.
Qed.

Theorem resume_correct_retro (bs n : nat) fixed sched :
  (1 <= bs)%nat -> (1 <= n)%nat -> fixed = true \/ bs = 1%nat -> sched_ok sched ->
  let f := fst (script_run Retro fixed (Z.of_nat bs) n [] sched) in
  completed f = firstn (length (completed f)) (crash_free Retro bs n).
Proof.
  intros Hbs Hn Hfix Hs. cbn zeta.
  destruct (resume_correct Retro bs n fixed Hbs Hn Hfix sched Hs) as [H1 H2]. cbn zeta in H1, H2.
  unfold crash_free. unfold ideal in *. rewrite firstn_map_seq by auto. exact H1.
Qed.

Theorem uninterrupted_is_crash_free md (bs n : nat) fixed e :
  (1 <= bs)%nat -> (1 <= n)%nat -> fixed = true \/ bs = 1%nat ->
  entry_ok e = true -> full_entry e -> (md = Prosp -> (bs <= n)%nat) ->
  completed (fst (script_run md fixed (Z.of_nat bs) n []
                    (repeat e (match md with Retro => n | Prosp => bs end))))
  = crash_free md bs n.
Proof.
  intros Hbs Hn Hfix He Hf Hp. rewrite <- (canon_0 md bs n Hbs Hn).
  rewrite (run_full md bs n fixed Hbs Hn Hfix e He Hf).
  - rewrite (completed_canon md bs n Hbs Hn) by exact I. reflexivity.
  - intros k Hk. unfold can_complete. destruct md.
    + split; [lia|intros _; lia].
    + split; [|discriminate]. specialize (Hp eq_refl). pose proof (Nat.mod_upper_bound k bs). lia.
Qed.

(* each retrospective step after the first reads the advanced screen of its immediate predecessor,
   and step_of enumerates the indices in lexicographic order without gaps *)
Theorem inputs_from_predecessor (bs c : nat) :
  match ideal_launch Retro bs (S c) with
  | LFirst sp _ => sp = SFile (step_of bs c) KAdvanced
  | LNext sp _ _ => sp = SFile (step_of bs c) KAdvanced
  | _ => False
  end.
Proof. rewrite (ideal_launch_S Retro bs c). now destruct (S c mod bs)%nat. Qed.

Theorem step_of_successor (bs n c : nat) : (1 <= bs)%nat ->
  step_of bs (S c) = (if snd (step_of bs c) >=? Z.of_nat bs - 1
                      then (fst (step_of bs c) + 1, 0)
                      else (fst (step_of bs c), snd (step_of bs c) + 1)).
Proof. intros Hbs. symmetry. apply (next_step_arith bs 1 Hbs (le_n 1)). Qed.

(* ---------- the unrestricted statement is false of the faithful model ---------- *)
Definition canon_order : list kind := all_kinds.
Definition full : entry := mke 99 canon_order.

(* (i) unrepaired examine, batch size 2, every publication order canonical (marker last):
   crash between the two makedirs levels of iter_1 -> step (0,1), complete, is launched again *)
Definition witness_empty_iter : list entry := [full; full; mke 2 canon_order; full].

Theorem resume_refuted_empty_iter :
  exists sched k s l ps ok,
    sched_ok sched /\
    In s (map fst (completed (fst (script_run Retro false 2 4 [] (firstn k sched))))) /\
    nth k (snd (script_run Retro false 2 4 [] sched)) GDone = GLaunch s l ps ok /\
    ~ In s (map fst (completed (fst (script_run Retro false 2 4 [] sched)))).
Proof.
  exists witness_empty_iter, 3%nat, (0, 1). do 3 eexists.
  split; [repeat constructor|]. split; [vm_compute; tauto|]. split; [vm_compute; reflexivity|].
  vm_compute. intros [H|[]]. discriminate.
Qed.

(* (ii) repaired examine, prospective mode, batch size 1: the metadata is published first (allowed by
   data dependence: it is computed from the input screen), the pipeline crashes -> step (0,0) counts as
   complete although it never recorded a selection, and the run goes on to iteration 1 *)
Definition meta_first : list kind := [KMeta; KTraining; KTest; KThetas; KDist; KSelected; KAdvanced].
Definition witness_marker_early : list entry := [mke 5 meta_first; full].

Theorem resume_refuted_marker_early :
  exists sched,
    Forall (fun e => covers (e_order e) = true /\ dep_ok (LProsp SInput) (e_order e) = true) sched /\
    let f := fst (script_run Prosp true 1 3 [] sched) in
    completed f <> ideal Prosp 1 3 (length (completed f)) /\
    exists d, In ((0, 0), d) (completed f) /\ f_selected d = None.
Proof.
  exists witness_marker_early. split; [repeat constructor|]. cbn zeta. split.
  - vm_compute. discriminate.
  - eexists. split; [vm_compute; left; reflexivity|reflexivity].
Qed.
