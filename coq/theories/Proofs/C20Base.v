(* C20 proofs, part 0: generic list / rational-sum lemmas (index form of zipped and mapped
   lists, sums over selections, np.unique as sorted insertion). *)
From Coq Require Import ZArith List QArith Qcanon Lia Arith Permutation Sorted.
From Batchie Require Import Lib.Sexp Lib.Num Lib.NumP Model.Metrics Proofs.C20Spec.
Import ListNotations.
Open Scope Qc_scope.

(* ---- index form of lists ---- *)

Lemma map_seq_shift {A} (g : nat -> A) k : map g (seq 1 k) = map (fun i => g (S i)) (seq 0 k).
Proof. now rewrite <- seq_shift, map_map. Qed.

Lemma map_seq_nth {A B} (f : A -> B) (l : list A) d :
  map f l = map (fun i => f (nth i l d)) (seq 0 (length l)).
Proof.
  induction l as [|a l IH]; [reflexivity|].
  cbn [length seq map nth]. f_equal. rewrite map_seq_shift. exact IH.
Qed.

Lemma list_seq_nth {A} (l : list A) d : l = map (fun i => nth i l d) (seq 0 (length l)).
Proof. rewrite <- (map_seq_nth (fun x => x)). now rewrite map_id. Qed.

Lemma nth_map_seq {A} (g : nat -> A) k i d : (i < k)%nat -> nth i (map g (seq 0 k)) d = g i.
Proof.
  intros Hi. rewrite (nth_indep _ d (g 0%nat)) by (now rewrite map_length, seq_length).
  rewrite map_nth. now rewrite seq_nth.
Qed.

Lemma combine_seq_nth {A B} (a : list A) (b : list B) k da db :
  length a = k -> length b = k ->
  combine a b = map (fun i => (nth i a da, nth i b db)) (seq 0 k).
Proof.
  revert b k; induction a as [|x a IH]; intros [|y b] k Ha Hb; cbn [length] in *; subst k; try discriminate.
  - reflexivity.
  - cbn [combine seq map nth]. f_equal. rewrite map_seq_shift. apply IH; [reflexivity|lia].
Qed.

Lemma combine_map_l {A A' B} (g : A -> A') (a : list A) (b : list B) :
  combine (map g a) b = map (fun p => (g (fst p), snd p)) (combine a b).
Proof.
  revert b; induction a as [|x a IH]; intros [|y b]; cbn [map combine]; try reflexivity.
  now rewrite IH.
Qed.

Lemma Forall_nth_len {A} (P : A -> Prop) (l : list A) d i : Forall P l -> (i < length l)%nat -> P (nth i l d).
Proof. intros H Hi. rewrite Forall_forall in H. apply H. now apply nth_In. Qed.

(* ---- sums ---- *)

Lemma qsum_cons x l : qsum (x :: l) = x + qsum l.
Proof. reflexivity. Qed.

Lemma qsum_app a b : qsum (a ++ b) = qsum a + qsum b.
Proof.
  induction a as [|x a IH]; cbn [app]; rewrite ?qsum_cons; [cbn; ring|]. rewrite IH. ring.
Qed.

Lemma qsum_concat ll : qsum (concat ll) = qsum (map qsum ll).
Proof.
  induction ll as [|l ll IH]; [reflexivity|]. cbn [concat map]. now rewrite qsum_app, qsum_cons, IH.
Qed.

Lemma qsum_perm a b : Permutation a b -> qsum a = qsum b.
Proof.
  induction 1 as [|x a b H IH|x y a|a b c H1 IH1 H2 IH2]; rewrite ?qsum_cons.
  - reflexivity.
  - now rewrite IH.
  - ring.
  - congruence.
Qed.

Lemma sum_upto_ext k g h : (forall i, (i < k)%nat -> g i = h i) -> sum_upto k g = sum_upto k h.
Proof.
  intros H. unfold sum_upto. f_equal. apply map_ext_in. intros i Hi. apply in_seq in Hi. apply H. lia.
Qed.

Lemma sum_upto_S_shift k g : sum_upto (S k) g = g 0%nat + sum_upto k (fun i => g (S i)).
Proof. unfold sum_upto. cbn [seq map]. now rewrite qsum_cons, map_seq_shift. Qed.

Lemma sum_upto_plus k g h : sum_upto k (fun i => g i + h i) = sum_upto k g + sum_upto k h.
Proof.
  unfold sum_upto. induction (seq 0 k) as [|i l IH]; cbn [map]; rewrite ?qsum_cons; [cbn; ring|].
  rewrite IH. ring.
Qed.

Lemma sum_upto_scale k g c : sum_upto k (fun i => g i * c) = sum_upto k g * c.
Proof.
  unfold sum_upto. induction (seq 0 k) as [|i l IH]; cbn [map]; rewrite ?qsum_cons; [cbn; ring|].
  rewrite IH. ring.
Qed.

Lemma qnat_mul a b : qnat (a * b) = qnat a * qnat b.
Proof.
  unfold qnat, qofZ. apply Qc_is_canon. unfold Qcmult. cbn [this Q2Qc].
  rewrite !Qred_correct. rewrite Nat2Z.inj_mul, inject_Z_mult. reflexivity.
Qed.

Lemma qlen_qnat {A} (l : list A) : qlen l = qnat (length l).
Proof. reflexivity. Qed.

Lemma qmean_map_seq g k : qmean (map g (seq 0 k)) = sum_upto k g / qnat k.
Proof. unfold qmean. now rewrite qlen_qnat, map_length, seq_length. Qed.

Lemma qvar_map_seq g k : qvar (map g (seq 0 k)) = var_upto k g.
Proof.
  unfold qvar, var_upto. rewrite qmean_map_seq, map_map.
  exact (qmean_map_seq (fun i => qsq (g i - sum_upto k g / qnat k)) k).
Qed.

Lemma qvar_perm a b : Permutation a b -> qvar a = qvar b.
Proof.
  intros H. unfold qvar, qmean. rewrite !qlen_qnat.
  rewrite (Permutation_length H), (qsum_perm _ _ H).
  f_equal; [apply qsum_perm; now apply Permutation_map|].
  now rewrite !map_length, (Permutation_length H).
Qed.

Lemma length_concat_const {A} (ll : list (list A)) m :
  Forall (fun r => length r = m) ll -> length (concat ll) = (length ll * m)%nat.
Proof.
  induction 1 as [|r ll Hr Hll IH]; [reflexivity|].
  cbn [concat length]. rewrite app_length, IH, Hr. lia.
Qed.

(* ---- boolean-mask selection ---- *)

Lemma select_cons {A} (b : bool) mask (x : A) l :
  select (b :: mask) (x :: l) = if b then x :: select mask l else select mask l.
Proof. unfold select. cbn [combine filter fst]. now destruct b. Qed.

Lemma select_nil_l {A} (l : list A) : select [] l = @nil A.
Proof. reflexivity. Qed.

Lemma select_nil_r {A} (mask : list bool) : select mask (@nil A) = @nil A.
Proof. unfold select. now destruct mask. Qed.

Lemma select_map {A B} (f : A -> B) mask l : select mask (map f l) = map f (select mask l).
Proof.
  revert l; induction mask as [|b mask IH]; intros [|x l]; cbn [map]; rewrite ?select_nil_l, ?select_nil_r; try reflexivity.
  rewrite !select_cons, IH. now destruct b.
Qed.

Lemma qsum_select mask l :
  qsum (select mask l) = qsum (map (fun p : bool * Qc => if fst p then snd p else 0) (combine mask l)).
Proof.
  revert l; induction mask as [|b mask IH]; intros [|x l]; rewrite ?select_nil_l, ?select_nil_r; try reflexivity.
  rewrite select_cons. cbn [combine map fst snd]. rewrite qsum_cons, <- IH.
  destruct b; rewrite ?qsum_cons; ring.
Qed.

Lemma select_length {A} mask (l : list A) :
  length mask = length l -> length (select mask l) = length (filter (fun b => b) mask).
Proof.
  revert l; induction mask as [|b mask IH]; intros [|x l] H; try discriminate; [reflexivity|].
  rewrite select_cons. cbn [filter]. injection H as H. destruct b; cbn [length]; now rewrite IH.
Qed.

Lemma filter_map_length {A} (f : A -> bool) l :
  length (filter (fun b => b) (map f l)) = length (filter f l).
Proof.
  induction l as [|x l IH]; [reflexivity|]. cbn [map filter]. destruct (f x); cbn [length]; now rewrite IH.
Qed.

(* ---- np.unique ---- *)

Lemma zinsert_In x y l : In x (zinsert y l) <-> x = y \/ In x l.
Proof.
  induction l as [|a l IH]; cbn [zinsert].
  - cbn [In]. intuition congruence.
  - destruct (y <? a)%Z eqn:E1; [cbn [In]; intuition congruence|].
    destruct (y =? a)%Z eqn:E2.
    + apply Z.eqb_eq in E2. subst. cbn [In]. intuition congruence.
    + cbn [In]. rewrite IH. intuition congruence.
Qed.

Lemma sorted_unique_In x l : In x (sorted_unique l) <-> In x l.
Proof.
  induction l as [|a l IH]; [reflexivity|].
  cbn [sorted_unique fold_right]. fold (sorted_unique l). rewrite zinsert_In, IH. cbn [In]. intuition congruence.
Qed.

Lemma zinsert_sorted y l : StronglySorted Z.lt l -> StronglySorted Z.lt (zinsert y l).
Proof.
  induction 1 as [|a l Hs IH Ha]; cbn [zinsert].
  - repeat constructor.
  - destruct (y <? a)%Z eqn:E1.
    + apply Z.ltb_lt in E1. constructor; [now constructor|].
      constructor; [exact E1|]. eapply Forall_impl; [|exact Ha]. intros z Hz. lia.
    + destruct (y =? a)%Z eqn:E2; [now constructor|].
      apply Z.ltb_ge in E1. apply Z.eqb_neq in E2.
      constructor; [exact IH|]. apply Forall_forall. intros z Hz. apply zinsert_In in Hz as [->|Hz]; [lia|].
      rewrite Forall_forall in Ha. now apply Ha.
Qed.

Lemma sorted_unique_sorted l : StronglySorted Z.lt (sorted_unique l).
Proof.
  induction l as [|a l IH]; [constructor|]. cbn [sorted_unique fold_right]. now apply zinsert_sorted.
Qed.

Lemma ssorted_NoDup l : StronglySorted Z.lt l -> NoDup l.
Proof.
  induction 1 as [|a l Hs IH Ha]; constructor; [|exact IH].
  intros Hin. rewrite Forall_forall in Ha. specialize (Ha _ Hin). lia.
Qed.

Lemma sorted_unique_perm_nodup l : Permutation (sorted_unique l) (nodup Z.eq_dec l).
Proof.
  apply NoDup_Permutation.
  - apply ssorted_NoDup, sorted_unique_sorted.
  - apply NoDup_nodup.
  - intros x. now rewrite sorted_unique_In, nodup_In.
Qed.

(* ---- results ---- *)

Lemma res_map_all_ext_in {A B} (f g : A -> result B) l :
  (forall a, In a l -> f a = g a) -> res_map_all f l = res_map_all g l.
Proof.
  induction l as [|a l IH]; intros H; [reflexivity|].
  cbn [res_map_all]. rewrite (H a) by now left. rewrite IH; [reflexivity|].
  intros b Hb. apply H. now right.
Qed.
