(* C06, gap review G6.1: the selection clause for scorers that are not a function of the plate (the score depends on the
   position of the call in the combine order), chunks repeated: the plate returned is a candidate, allowed, and the score
   stored for it by SOME call that scored it is <= every score ANY call stored for ANY allowed plate. *)
From Coq Require Import ZArith List Arith Lia Bool.
From Batchie Require Import Lib.ListX Lib.Sexp Model.Scores Proofs.C06Split Proofs.C06Rows Proofs.C06Select.
Import ListNotations.
Open Scope Z_scope.

Lemma in_combine_seq {A} (l : list A) : forall a pos k,
  In (pos, k) (combine (seq a (length l)) l) <-> (a <= pos)%nat /\ nth_error l (pos - a) = Some k.
Proof.
  induction l as [|x r IH]; intros a pos k; cbn [length seq combine In].
  - split; [contradiction|]. intros [_ H]. destruct (pos - a)%nat; discriminate.
  - rewrite IH. split.
    + intros [H|[H1 H2]].
      * injection H as <- <-. split; [lia|]. now rewrite Nat.sub_diag.
      * split; [lia|]. replace (pos - a)%nat with (S (pos - S a)) by lia. exact H2.
    + intros [H1 H2]. destruct (pos - a)%nat as [|m] eqn:E.
      * left. cbn [nth_error] in H2. injection H2 as <-. f_equal. lia.
      * right. split; [lia|]. cbn [nth_error] in H2. replace (pos - S a)%nat with m by lia. exact H2.
Qed.

Theorem indexed_spec {A} (l : list A) pos k : In (pos, k) (positions l) <-> nth_error l pos = Some k.
Proof.
  unfold positions. rewrite in_combine_seq, Nat.sub_0_r. split; [tauto|]. intros H. split; [lia|exact H].
Qed.

Lemma indexed_snd {A} (l : list A) pk : In pk (positions l) -> In (snd pk) l.
Proof. destruct pk as [pos k]. intros H. apply indexed_spec in H. eapply nth_error_In, H. Qed.

Lemma indexed_has {A} (l : list A) k : In k l -> exists pos, In (pos, k) (positions l).
Proof. intros H. apply In_nth_error in H. destruct H as [pos H]. exists pos. now apply indexed_spec. Qed.

(* a scorer that IS a function of the plate: the positional pipeline is the pipeline *)
Lemma res_map_all_combine_snd {A B C} (f : B -> result C) (l : list B) : forall (idx : list A), length idx = length l ->
  res_map_all (fun pk => f (snd pk)) (combine idx l) = res_map_all f l.
Proof.
  induction l as [|x r IH]; intros [|i idx] H; cbn [combine res_map_all length] in *; try discriminate; [reflexivity|].
  cbn [snd]. destruct (f x); cbn [res_bind]; [|reflexivity]. rewrite IH by lia. reflexivity.
Qed.

Theorem pipeline_pos_constant scorer policy s batch n order :
  pipeline_pos (fun _ => scorer) policy s batch n order = pipeline scorer policy s batch n order.
Proof.
  unfold pipeline_pos, pipeline, positions.
  rewrite (res_map_all_combine_snd (load_chunk scorer s batch n) order) by apply seq_length. reflexivity.
Qed.

Section AnyScorer.
Variable scorer : pscorer_t.
Variable policy : option policy_t.
Variable s : screen.
Variable batch : list Z.
Variable n : Z.
Variable order : list Z.

Hypothesis policy_sub : forall f, policy = Some f -> forall b c, incl (f b c) c.
Hypothesis n_pos : 1 <= n.
Hypothesis batch_ok : batch_valid s batch.
Hypothesis order_covers : forall k, 0 <= k < n -> In k order.
Hypothesis order_in_range : forall k, In k order -> 0 <= k < n.

Let cands := candidates s batch.
Let elig := eligible_plates policy s batch.
Let pscore (pos : nat) (p : plate) : Z := scorer pos (p_id p) (rows_for s batch p).
Let slots_of (pk : nat * Z) : list slot := chunk_slots (scorer (fst pk)) s batch n (snd pk).
Let all_slots : list slot := concat (map slots_of (positions order)).

Lemma elig_incl_pos : incl elig cands.
Proof.
  unfold elig, eligible_plates. destruct policy as [f|] eqn:E; [|apply incl_refl].
  apply (policy_sub f eq_refl).
Qed.

Lemma combined_pos :
  exists h, (dor hs <- res_map_all (fun pk => load_chunk (scorer (fst pk)) s batch n (snd pk)) (positions order); h_concat hs) = Ok h
            /\ h_slots h = all_slots.
Proof.
  rewrite (res_map_all_ok _ (fun pk => loaded (scorer (fst pk)) s batch n (snd pk))).
  2:{ intros pk Hpk. apply (load_chunk_ok (scorer (fst pk)) s batch n order batch_ok order_in_range).
      now apply indexed_snd. }
  cbn [res_bind].
  assert (Hne : map (fun pk => loaded (scorer (fst pk)) s batch n (snd pk)) (positions order) <> []).
  { pose proof (order_covers 0 ltac:(lia)) as H0. destruct (indexed_has order 0 H0) as [pos Hp].
    destruct (positions order); [contradiction|discriminate]. }
  destruct (h_concat_slots _ Hne) as (h & Eh & Hs). exists h. split; [exact Eh|].
  rewrite Hs, map_map. reflexivity.
Qed.

Lemma all_slots_sound_pos sl : In sl all_slots ->
  exists pos k p, In (pos, k) (positions order) /\ In p (chunk_plates s batch n (Z.to_nat k)) /\ In p cands
                  /\ sl = (p_id p, pscore pos p).
Proof.
  intros H. apply in_concat in H. destruct H as (c & Hc & Hsl).
  apply in_map_iff in Hc. destruct Hc as ([pos k] & <- & Hpk).
  unfold slots_of, chunk_slots in Hsl. cbn [fst snd] in Hsl. rewrite map_map in Hsl.
  apply in_map_iff in Hsl. destruct Hsl as (p & <- & Hp).
  exists pos, k, p. repeat split; [exact Hpk|exact Hp|eapply array_split_In, Hp].
Qed.

Lemma all_slots_complete_pos p : In p cands ->
  exists pos k, In (pos, k) (positions order) /\ In p (chunk_plates s batch n (Z.to_nat k)) /\ In (p_id p, pscore pos p) all_slots.
Proof.
  intros Hp. destruct (array_split_cover cands (Z.to_nat n) p ltac:(lia) Hp) as (j & Hj & Hin).
  assert (Hjo : In (Z.of_nat j) order) by (apply order_covers; lia).
  destruct (indexed_has order (Z.of_nat j) Hjo) as [pos Hpos].
  assert (Hc : In p (chunk_plates s batch n (Z.to_nat (Z.of_nat j)))) by (unfold chunk_plates; now rewrite Nat2Z.id).
  exists pos, (Z.of_nat j). split; [exact Hpos|]. split; [exact Hc|].
  apply in_concat. exists (slots_of (pos, Z.of_nat j)). split; [now apply in_map|].
  unfold slots_of, chunk_slots. cbn [fst snd]. rewrite map_map. apply in_map_iff. exists p. split; [reflexivity|exact Hc].
Qed.

(* "plate q is handed to the scorer in chunk k" in the vocabulary of score_chunk *)
Lemma handed_in_chunk k ps q : In q cands -> 0 <= k < n ->
  score_chunk s batch n k = Ok ps ->
  (In (p_id q, rows_for s batch q) ps <-> In q (chunk_plates s batch n (Z.to_nat k))).
Proof.
  intros Hq Hk E. rewrite (score_chunk_ok s batch n k batch_ok Hk) in E. injection E as <-. split.
  - intros H. apply in_map_iff in H. destruct H as (q' & E' & Hq'). unfold handed_of in E'. injection E' as Eid _.
    assert (Hc' : In q' cands) by (eapply array_split_In, Hq').
    rewrite <- (cands_same_id s batch q' q Hc' Hq Eid). exact Hq'.
  - intros H. apply in_map_iff. exists q. split; [reflexivity|exact H].
Qed.

Definition select_post_pos (r : option Z) : Prop :=
  match r with
  | None => elig = []
  | Some pid =>
      In pid (map p_id cands) /\ In pid (map p_id elig) /\
      exists pos k ps,
        In (pos, k) (positions order) /\ score_chunk s batch n k = Ok ps
        /\ In (pid, rows_for s batch (get_plate s pid)) ps /\
        forall q pos' k' ps', In q elig -> In (pos', k') (positions order) -> score_chunk s batch n k' = Ok ps' ->
          In (p_id q, rows_for s batch q) ps' ->
          scorer pos pid (rows_for s batch (get_plate s pid)) <= scorer pos' (p_id q) (rows_for s batch q)
  end.

Theorem select_sound_pos : exists r, pipeline_pos scorer policy s batch n order = Ok r /\ select_post_pos r.
Proof.
  destruct combined_pos as (h & Eh & Hs).
  unfold pipeline_pos.
  destruct (res_map_all (fun pk => load_chunk (scorer (fst pk)) s batch n (snd pk)) (positions order)) as [hs|t] eqn:Em;
    cbn [res_bind] in Eh |- *; [|discriminate].
  rewrite Eh. cbn [res_bind]. unfold select_next. fold elig.
  destruct elig as [|e0 erest] eqn:Ee.
  - exists None. split; [reflexivity|]. cbn [select_post_pos]. exact Ee.
  - rewrite <- Ee.
    pose proof elig_incl_pos as Hincl.
    destruct (min_plate h (Some (map p_id elig))) as [best|t] eqn:Emin.
    + destruct (min_plate_first _ _ _ Emin) as (pre & sc & post & Hsl & Hbest & Hpre & Hpost).
      assert (Hin : In (best, sc) all_slots) by (rewrite <- Hs, Hsl; apply in_or_app; right; now left).
      destruct (all_slots_sound_pos _ Hin) as (pos & k & p & Hpk & Hpc & Hp & Esl). injection Esl as -> ->.
      cbn [res_bind].
      assert (Hz : zmem (p_id p) (map r_plate s) = true).
      { apply zmem_true. apply candidates_In_id in Hp. apply candidate_ids_In in Hp. tauto. }
      rewrite Hz. exists (Some (p_id p)). split; [reflexivity|]. cbn [select_post_pos].
      split; [now apply in_map|]. split; [exact Hbest|].
      assert (Hkr : 0 <= k < n) by (apply order_in_range; exact (indexed_snd order (pos, k) Hpk)).
      exists pos, k, (map (handed_of s batch) (chunk_plates s batch n (Z.to_nat k))).
      split; [exact Hpk|]. split; [now apply score_chunk_ok|].
      rewrite <- (candidates_are_plates s batch p Hp).
      split; [apply in_map_iff; exists p; split; [reflexivity|exact Hpc]|].
      intros q pos' k' ps' Hq Hpk' Eps' Hqin. specialize (Hincl q Hq).
      assert (Hkr' : 0 <= k' < n) by (apply order_in_range; exact (indexed_snd order (pos', k') Hpk')).
      apply (handed_in_chunk k' ps' q Hincl Hkr' Eps') in Hqin.
      assert (Hqs : In (p_id q, pscore pos' q) all_slots).
      { apply in_concat. exists (slots_of (pos', k')). split; [now apply in_map|].
        unfold slots_of, chunk_slots. cbn [fst snd]. rewrite map_map. apply in_map_iff. exists q. split; [reflexivity|exact Hqin]. }
      rewrite <- Hs, Hsl in Hqs.
      assert (Hqe : In (p_id q) (map p_id elig)) by now apply in_map.
      fold (pscore pos p). fold (pscore pos' q).
      apply in_app_or in Hqs. destruct Hqs as [Hqs|[Hqs|Hqs]].
      * specialize (Hpre _ _ Hqs Hqe). lia.
      * injection Hqs as _ <-. lia.
      * exact (Hpost _ _ Hqs Hqe).
    + exfalso.
      assert (He0 : In e0 elig) by (rewrite Ee; now left).
      destruct (all_slots_complete_pos e0 (Hincl e0 He0)) as (pos & k & _ & _ & H0). rewrite <- Hs in H0.
      unfold min_plate in Emin.
      destruct (argmin_first _) eqn:Ea; [discriminate|]. apply argmin_first_none in Ea.
      assert (Hf : In (p_id e0, pscore pos e0) (filter (fun sl => zmem (fst sl) (map p_id elig)) (h_slots h))).
      { apply filter_In. split; [exact H0|]. cbn [fst]. apply zmem_true. now apply in_map. }
      rewrite Ea in Hf. contradiction.
Qed.

(* every allowed plate is scored by at least one call: the comparison above is never vacuous *)
Theorem allowed_is_scored_pos q : In q elig ->
  exists pos k ps, In (pos, k) (positions order) /\ score_chunk s batch n k = Ok ps /\ In (p_id q, rows_for s batch q) ps.
Proof.
  intros Hq. pose proof (elig_incl_pos q Hq) as Hc.
  destruct (all_slots_complete_pos q Hc) as (pos & k & Hpk & Hin & _).
  assert (Hkr : 0 <= k < n) by (apply order_in_range; exact (indexed_snd order (pos, k) Hpk)).
  exists pos, k, (map (handed_of s batch) (chunk_plates s batch n (Z.to_nat k))).
  split; [exact Hpk|]. split; [now apply score_chunk_ok|]. apply in_map_iff. exists q. split; [reflexivity|exact Hin].
Qed.

End AnyScorer.

From Batchie Require Import Proofs.C06Main.

Lemma select_sound_pos_rows (scorer : pscorer_t) policy s batch n order :
  (forall f, policy = Some f -> forall b c, incl (f b c) c) ->
  1 <= n -> batch_valid s batch ->
  (forall k, 0 <= k < n -> In k order) -> (forall k, In k order -> 0 <= k < n) ->
  exists r, pipeline_pos scorer policy s batch n order = Ok r /\
    match r with
    | None => eligible_plates policy s batch = []
    | Some pid =>
        is_candidate s batch pid /\
        In pid (map p_id (eligible_plates policy s batch)) /\
        exists pos k ps,
          nth_error order pos = Some k /\ score_chunk s batch n k = Ok ps
          /\ In (pid, rows_for s batch (get_plate s pid)) ps /\
          forall q pos' k' ps', In q (eligible_plates policy s batch) -> nth_error order pos' = Some k' ->
            score_chunk s batch n k' = Ok ps' -> In (p_id q, rows_for s batch q) ps' ->
            scorer pos pid (rows_for s batch (get_plate s pid)) <= scorer pos' (p_id q) (rows_for s batch q)
    end.
Proof.
  intros H1 H2 H3 H4 H5. destruct (select_sound_pos scorer policy s batch n order H1 H2 H3 H4 H5) as (r & E & Hp).
  exists r. split; [exact E|]. destruct r as [pid|]; [|exact Hp].
  destruct Hp as (Hc & He & pos & k & ps & Hpk & Eps & Hin & Hmin).
  split; [now apply candidates_spec|]. split; [exact He|].
  exists pos, k, ps. split; [now apply indexed_spec|]. split; [exact Eps|]. split; [exact Hin|].
  intros q pos' k' ps' Hq Hn' E' Hi'. apply (Hmin q pos' k' ps' Hq); [now apply indexed_spec|exact E'|exact Hi'].
Qed.

Lemma allowed_is_scored_pos_rows policy s batch n order :
  (forall f, policy = Some f -> forall b c, incl (f b c) c) ->
  1 <= n -> batch_valid s batch ->
  (forall k, 0 <= k < n -> In k order) -> (forall k, In k order -> 0 <= k < n) ->
  forall q, In q (eligible_plates policy s batch) ->
  exists pos k ps, nth_error order pos = Some k /\ score_chunk s batch n k = Ok ps /\ In (p_id q, rows_for s batch q) ps.
Proof.
  intros H1 H2 H3 H4 H5 q Hq.
  destruct (allowed_is_scored_pos (fun _ _ _ => 0) policy s batch n order H1 H2 H3 H4 H5 q Hq) as (pos & k & ps & Hpk & E & Hin).
  exists pos, k, ps. split; [now apply indexed_spec|]. now split.
Qed.
