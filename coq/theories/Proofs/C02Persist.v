(* C02, part 2: save/load of screens and experiment spaces (Model/Persist.v). *)
From Coq Require Import ZArith List Bool Lia.
From Batchie Require Import Lib.Sexp Generated.Consts Model.Encode Model.Screen Model.Persist Proofs.C02Encode.
Import ListNotations.
Open Scope Z_scope.

(* ---- the arrays written by save re-assemble to what was saved ---- *)
Lemma combine_fst_snd {A B} (l : list (A * B)) : combine (map fst l) (map snd l) = l.
Proof. induction l as [|[a b] l IH]; cbn [map combine fst snd]; [reflexivity|now rewrite IH]. Qed.

Lemma zip_rows_save rows :
  zip_rows (map r_sample rows) (map r_plate rows)
           (map (fun r => map fst (r_treats r)) rows) (map (fun r => map snd (r_treats r)) rows)
           (map r_obs rows) (map r_mask rows) = Some rows.
Proof.
  induction rows as [|r rows IH]; cbn [map zip_rows]; [reflexivity|].
  rewrite !map_length, Nat.eqb_refl, IH. cbn [opt_bind]. rewrite combine_fst_snd. now destruct r.
Qed.

Lemma zip_tmap_save (m : tmapping) :
  zip_tmap (map (fun e => fst (fst e)) m) (map (fun e => snd (fst e)) m) (map snd m) = Some m.
Proof.
  induction m as [|[[n d] i] m IH]; cbn [map zip_tmap fst snd]; [reflexivity|]. now rewrite IH.
Qed.

Lemma zip_nmap_save (m : nmapping) : zip_nmap (map fst m) (map snd m) = Some m.
Proof.
  induction m as [|[n i] m IH]; cbn [map zip_nmap fst snd]; [reflexivity|]. now rewrite IH.
Qed.

Lemma char_decode_pos {A} n (x : A) : n <> 0%nat -> char_decode n x = Ok x.
Proof. intros H. unfold char_decode. now apply Nat.eqb_neq in H as ->. Qed.

Lemma decode1_nonnil l : l <> [] -> decode1 l = Ok l.
Proof. intros H. apply char_decode_pos. destruct l; [now elim H|discriminate]. Qed.

Lemma decode1_nil : decode1 [] = Err 8.
Proof. reflexivity. Qed.

(* size of the treatment_names dataset *)
Lemma tnames_size arity rows :
  rows_arity arity rows = true ->
  length (concat (map (fun r => map fst (r_treats r)) rows)) = (length rows * arity)%nat.
Proof.
  unfold rows_arity. induction rows as [|r rows IH]; cbn [map concat forallb length]; [reflexivity|].
  intros H. apply andb_prop in H as [H1 H2]. apply Nat.eqb_eq in H1.
  rewrite app_length, map_length, (IH H2). cbn [Nat.mul]. f_equal. exact H1.
Qed.

Lemma arity_of_save arity rows :
  rows_arity arity rows = true -> rows <> [] ->
  arity_of (map (fun r => map fst (r_treats r)) rows) = arity.
Proof.
  unfold rows_arity. destruct rows as [|r rows]; [intros _ H; now elim H|].
  cbn [map forallb arity_of]. intros H _. apply andb_prop in H as [H1 _]. apply Nat.eqb_eq in H1.
  now rewrite map_length.
Qed.

(* a screen can be loaded back iff its string datasets are non-empty *)
Definition loadable (s : screen) : bool :=
  negb (Nat.eqb (length (s_rows s)) 0) && negb (Nat.eqb (s_arity s) 0).

(* load . save, for a screen that satisfies what every constructed screen satisfies *)
Lemma load_save_core s :
  rows_arity (s_arity s) (s_rows s) = true ->
  (s_rows s <> [] -> s_arity s <> 0%nat -> s_tmap s <> []) ->
  (s_rows s <> [] -> s_smap s <> []) ->
  mk_screen (s_rows s) (s_arity s) (s_ctrl s) (Some (s_tmap s, true)) (Some (s_smap s, true)) true true = Ok s ->
  load (save s) = if loadable s then Ok s else Err 8.
Proof.
  intros Hra Htm Hsm Hmk. unfold load, loadable, save.
  cbn [f_tnames f_tdoses f_tm_names f_tm_doses f_tm_ids f_obs f_mask f_snames f_sm_names f_sm_ids f_pnames f_ctrl].
  unfold decode2. rewrite (tnames_size _ _ Hra).
  destruct (s_rows s) as [|r rows] eqn:Hrows.
  { reflexivity. }
  destruct (s_arity s) as [|a] eqn:Har.
  { cbn [length Nat.eqb negb andb]. unfold char_decode. now rewrite Nat.mul_0_r. }
  cbn [length Nat.eqb negb andb].
  rewrite char_decode_pos by (cbn [length Nat.mul Nat.add]; lia). cbn [res_bind].
  rewrite decode1_nonnil by discriminate. cbn [res_bind].
  rewrite decode1_nonnil by discriminate. cbn [res_bind].
  assert (Hsm' : s_smap s <> []) by (apply Hsm; discriminate).
  assert (Htm' : s_tmap s <> []) by (apply Htm; discriminate).
  rewrite decode1_nonnil by (destruct (s_smap s); [now elim Hsm'|discriminate]). cbn [res_bind].
  rewrite decode1_nonnil by (destruct (s_tmap s); [now elim Htm'|discriminate]). cbn [res_bind].
  rewrite zip_rows_save, zip_tmap_save, zip_nmap_save.
  rewrite (arity_of_save (S a) (r :: rows) Hra) by discriminate.
  exact Hmk.
Qed.

Lemma load_save_char rows arity ctrl tmap smap og mg s :
  mk_screen rows arity ctrl tmap smap og mg = Ok s ->
  load (save s) = if loadable s then Ok s else Err 8.
Proof.
  intros H. destruct (mk_screen_idem _ _ _ _ _ _ _ _ H) as (H1 & H2 & H3 & H4 & _ & _ & H7 & H8 & H9).
  apply load_save_core; [exact H4| | |exact H9].
  - intros Hr Ha. apply H7; [|now rewrite <- H2]. intros ->. apply Hr. rewrite H1. now apply norm_rows_nil.
  - intros Hr. apply H8. intros ->. apply Hr. rewrite H1. now apply norm_rows_nil.
Qed.

Lemma loadable_of_args rows arity ctrl tmap smap og mg s :
  mk_screen rows arity ctrl tmap smap og mg = Ok s ->
  loadable s = negb (Nat.eqb (length rows) 0) && negb (Nat.eqb arity 0).
Proof.
  intros H. destruct (mk_screen_idem _ _ _ _ _ _ _ _ H) as (H1 & H2 & _).
  unfold loadable. rewrite H1, H2. f_equal. f_equal.
  unfold norm_rows. destruct og; [destruct mg|]; now rewrite ?map_length.
Qed.

Lemma load_save_char_args rows arity ctrl tmap smap og mg s :
  mk_screen rows arity ctrl tmap smap og mg = Ok s ->
  load (save s) = if negb (Nat.eqb (length rows) 0) && negb (Nat.eqb arity 0) then Ok s else Err 8.
Proof.
  intros H. rewrite (load_save_char _ _ _ _ _ _ _ _ H). now rewrite (loadable_of_args _ _ _ _ _ _ _ _ H).
Qed.

Lemma load_save rows arity ctrl tmap smap og mg s :
  mk_screen rows arity ctrl tmap smap og mg = Ok s ->
  rows <> [] -> arity <> 0%nat ->
  load (save s) = Ok s.
Proof.
  intros H Hr Ha. rewrite (load_save_char _ _ _ _ _ _ _ _ H), (loadable_of_args _ _ _ _ _ _ _ _ H).
  destruct rows; [now elim Hr|]. destruct arity; [now elim Ha|]. reflexivity.
Qed.

Lemma load_save_empty rows arity ctrl tmap smap og mg s :
  mk_screen rows arity ctrl tmap smap og mg = Ok s ->
  rows = [] \/ arity = 0%nat ->
  load (save s) = Err 8.
Proof.
  intros H Hr. rewrite (load_save_char _ _ _ _ _ _ _ _ H), (loadable_of_args _ _ _ _ _ _ _ _ H).
  destruct Hr as [-> | ->]; [reflexivity|]. now rewrite andb_comm.
Qed.

(* whenever the load succeeds, what comes back is the saved screen itself *)
Lemma load_save_inv rows arity ctrl tmap smap og mg s s' :
  mk_screen rows arity ctrl tmap smap og mg = Ok s ->
  load (save s) = Ok s' -> s' = s.
Proof.
  intros H HL. rewrite (load_save_char _ _ _ _ _ _ _ _ H) in HL.
  destruct (loadable s); [now injection HL|discriminate].
Qed.

Lemma load_save_observables rows arity ctrl tmap smap og mg s :
  mk_screen rows arity ctrl tmap smap og mg = Ok s ->
  rows <> [] -> arity <> 0%nat ->
  exists s', load (save s) = Ok s'
    /\ length (s_rows s') = length (s_rows s)
    /\ map r_sample (s_rows s') = map r_sample (s_rows s)
    /\ map r_plate (s_rows s') = map r_plate (s_rows s)
    /\ map r_treats (s_rows s') = map r_treats (s_rows s)
    /\ map r_obs (s_rows s') = map r_obs (s_rows s)
    /\ map r_mask (s_rows s') = map r_mask (s_rows s)
    /\ s_arity s' = s_arity s
    /\ s_ctrl s' = s_ctrl s
    /\ s_tids s' = s_tids s /\ s_sids s' = s_sids s /\ s_pids s' = s_pids s
    /\ s_tmap s' = s_tmap s /\ s_smap s' = s_smap s /\ s_pmap s' = s_pmap s.
Proof.
  intros H Hr Ha. exists s. split; [eapply load_save; eassumption|]. repeat split.
Qed.

Lemma no_renumber rows arity ctrl tmap smap og mg s s' :
  mk_screen rows arity ctrl tmap smap og mg = Ok s ->
  load (save s) = Ok s' ->
  s_tids s' = s_tids s /\ s_sids s' = s_sids s /\ s_pids s' = s_pids s
  /\ s_tmap s' = s_tmap s /\ s_smap s' = s_smap s /\ s_pmap s' = s_pmap s
  /\ (forall m b, tmap = Some (m, b) -> s_tmap s' = m)
  /\ (forall m b, smap = Some (m, b) -> s_smap s' = m).
Proof.
  intros H HL. rewrite (load_save_inv _ _ _ _ _ _ _ _ _ H HL).
  destruct (mk_screen_idem _ _ _ _ _ _ _ _ H) as (_ & _ & _ & _ & H5 & H6 & _).
  repeat split.
  - intros m b ->. exact H5.
  - intros m b ->. exact H6.
Qed.

Lemma cycles_fixed s : load (save s) = Ok s -> forall n, cycles n s = Ok s.
Proof. intros H n. induction n as [|n IH]; cbn [cycles]; [reflexivity|]. rewrite H. cbn [res_bind]. exact IH. Qed.

Lemma fixed_point rows arity ctrl tmap smap og mg s s' :
  mk_screen rows arity ctrl tmap smap og mg = Ok s ->
  load (save s) = Ok s' ->
  save s' = save s /\ load (save s') = Ok s' /\ forall n, cycles n s' = Ok s'.
Proof.
  intros H HL. pose proof (load_save_inv _ _ _ _ _ _ _ _ _ H HL) as ->.
  split; [reflexivity|]. split; [exact HL|]. now apply cycles_fixed.
Qed.

Lemma any_cycles rows arity ctrl tmap smap og mg s :
  mk_screen rows arity ctrl tmap smap og mg = Ok s ->
  rows <> [] -> arity <> 0%nat ->
  forall n, cycles n s = Ok s.
Proof. intros H Hr Ha. apply cycles_fixed. eapply load_save; eassumption. Qed.

(* ---- experiment space ---- *)
Definition space_loadable (sp : space) : bool :=
  negb (Nat.eqb (length (sp_tmap sp)) 0) && negb (Nat.eqb (length (sp_smap sp)) 0).

Lemma space_load_save_char sp :
  space_load (space_save sp) = if space_loadable sp then Ok sp else Err 8.
Proof.
  unfold space_load, space_save, space_loadable. cbn [g_tnames g_tdoses g_tids g_snames g_sids g_ctrl].
  destruct sp as [tm sm c]. cbn [sp_tmap sp_smap sp_ctrl].
  destruct tm as [|e tm]; [reflexivity|].
  rewrite decode1_nonnil by discriminate. cbn [res_bind].
  destruct sm as [|e' sm]; [reflexivity|].
  rewrite decode1_nonnil by discriminate. cbn [res_bind].
  now rewrite zip_tmap_save, zip_nmap_save.
Qed.

Lemma space_load_save sp :
  sp_tmap sp <> [] -> sp_smap sp <> [] -> space_load (space_save sp) = Ok sp.
Proof.
  intros Ht Hs. rewrite space_load_save_char. unfold space_loadable.
  destruct (sp_tmap sp); [now elim Ht|]. destruct (sp_smap sp); [now elim Hs|]. reflexivity.
Qed.

Lemma space_load_save_inv sp sp' : space_load (space_save sp) = Ok sp' -> sp' = sp.
Proof. rewrite space_load_save_char. destruct (space_loadable sp); [now injection 1|discriminate]. Qed.

Lemma space_cycles_fixed sp : space_load (space_save sp) = Ok sp -> forall n, space_cycles n sp = Ok sp.
Proof.
  intros H n. induction n as [|n IH]; cbn [space_cycles]; [reflexivity|]. rewrite H. cbn [res_bind]. exact IH.
Qed.

Lemma space_fixed_point sp sp' :
  space_load (space_save sp) = Ok sp' ->
  sp' = sp /\ space_save sp' = space_save sp /\ forall n, space_cycles n sp' = Ok sp'.
Proof.
  intros HL. pose proof (space_load_save_inv _ _ HL) as ->. split; [reflexivity|]. split; [reflexivity|].
  now apply space_cycles_fixed.
Qed.

(* the space of a loadable constructed screen is loadable, and from_screen commutes with the round trips *)
Lemma space_of_screen_load_save rows arity ctrl tmap smap og mg s :
  mk_screen rows arity ctrl tmap smap og mg = Ok s ->
  rows <> [] -> arity <> 0%nat ->
  space_load (space_save (space_of_screen s)) = Ok (space_of_screen s)
  /\ (forall n, space_cycles n (space_of_screen s) = Ok (space_of_screen s))
  /\ (forall s', load (save s) = Ok s' -> space_of_screen s' = space_of_screen s).
Proof.
  intros H Hr Ha. destruct (mk_screen_idem _ _ _ _ _ _ _ _ H) as (_ & _ & _ & _ & _ & _ & H7 & H8 & _).
  assert (HL : space_load (space_save (space_of_screen s)) = Ok (space_of_screen s)).
  { apply space_load_save; cbn [space_of_screen sp_tmap sp_smap]; auto. }
  split; [exact HL|]. split; [now apply space_cycles_fixed|].
  intros s' HL'. now rewrite (load_save_inv _ _ _ _ _ _ _ _ _ H HL').
Qed.
