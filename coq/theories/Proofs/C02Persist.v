(* C02, part 2: save/load of screens and experiment spaces (Model/Persist.v). *)
From Coq Require Import ZArith List Bool Lia.
From Batchie Require Import Lib.Sexp Generated.Consts Model.Encode Model.Screen Model.Persist Proofs.C02Encode.
Import ListNotations.
Open Scope Z_scope.

(* ---- the arrays written by save re-assemble to what was saved ---- *)
Lemma combine_fst_snd {A B} (l : list (A * B)) : combine (map fst l) (map snd l) = l.
Proof. induction l as [|[a b] l IH]; cbn [map combine fst snd]; [reflexivity|now rewrite IH]. Qed.

Lemma zip_rows_save rows :
  zip_rows (map r_sample rows) (map r_plate rows)
           (map (fun r => map fst (r_treats r)) rows) (map (fun r => map snd (r_treats r)) rows)
           (map r_obs rows) (map r_mask rows) = Some rows.
Proof.
  induction rows as [|r rows IH]; cbn [map zip_rows]; [reflexivity|].
  rewrite !map_length, Nat.eqb_refl, IH. cbn [opt_bind]. rewrite combine_fst_snd. now destruct r.
Qed.

Lemma zip_tmap_save (m : tmapping) :
  zip_tmap (map (fun e => fst (fst e)) m) (map (fun e => snd (fst e)) m) (map snd m) = Some m.
Proof.
  induction m as [|[[n d] i] m IH]; cbn [map zip_tmap fst snd]; [reflexivity|]. now rewrite IH.
Qed.

Lemma zip_nmap_save (m : nmapping) : zip_nmap (map fst m) (map snd m) = Some m.
Proof.
  induction m as [|[n i] m IH]; cbn [map zip_nmap fst snd]; [reflexivity|]. now rewrite IH.
Qed.

(* load . save is the constructor call load_h5 makes, for ANY screen record *)
Lemma load_save_is_ctor s :
  load (save s)
  = mk_screen (s_rows s) (s_arity s) (s_ctrl s) (Some (s_tmap s, true)) (Some (s_smap s, true)) true true.
Proof.
  unfold load, save.
  cbn [f_arity f_tnames f_tdoses f_tm_names f_tm_doses f_tm_ids f_obs f_mask f_snames f_sm_names f_sm_ids f_pnames f_ctrl].
  now rewrite zip_rows_save, zip_tmap_save, zip_nmap_save.
Qed.

Lemma load_save rows arity ctrl tmap smap og mg s :
  mk_screen rows arity ctrl tmap smap og mg = Ok s ->
  load (save s) = Ok s.
Proof.
  intros H. rewrite load_save_is_ctor.
  now destruct (mk_screen_idem _ _ _ _ _ _ _ _ H) as (_ & _ & _ & _ & _ & _ & _ & _ & H9).
Qed.

(* what comes back is the saved screen itself *)
Lemma load_save_inv rows arity ctrl tmap smap og mg s s' :
  mk_screen rows arity ctrl tmap smap og mg = Ok s ->
  load (save s) = Ok s' -> s' = s.
Proof. intros H HL. rewrite (load_save _ _ _ _ _ _ _ _ H) in HL. now injection HL. Qed.

Lemma load_save_observables rows arity ctrl tmap smap og mg s :
  mk_screen rows arity ctrl tmap smap og mg = Ok s ->
  exists s', load (save s) = Ok s'
    /\ length (s_rows s') = length (s_rows s)
    /\ map r_sample (s_rows s') = map r_sample (s_rows s)
    /\ map r_plate (s_rows s') = map r_plate (s_rows s)
    /\ map r_treats (s_rows s') = map r_treats (s_rows s)
    /\ map r_obs (s_rows s') = map r_obs (s_rows s)
    /\ map r_mask (s_rows s') = map r_mask (s_rows s)
    /\ s_arity s' = s_arity s
    /\ s_ctrl s' = s_ctrl s
    /\ s_tids s' = s_tids s /\ s_sids s' = s_sids s /\ s_pids s' = s_pids s
    /\ s_tmap s' = s_tmap s /\ s_smap s' = s_smap s /\ s_pmap s' = s_pmap s.
Proof.
  intros H. exists s. split; [eapply load_save; eassumption|]. repeat split.
Qed.

Lemma no_renumber rows arity ctrl tmap smap og mg s :
  mk_screen rows arity ctrl tmap smap og mg = Ok s ->
  exists s', load (save s) = Ok s'
  /\ s_tids s' = s_tids s /\ s_sids s' = s_sids s /\ s_pids s' = s_pids s
  /\ s_tmap s' = s_tmap s /\ s_smap s' = s_smap s /\ s_pmap s' = s_pmap s
  /\ (forall m b, tmap = Some (m, b) -> s_tmap s' = m)
  /\ (forall m b, smap = Some (m, b) -> s_smap s' = m).
Proof.
  intros H. exists s. split; [eapply load_save; eassumption|].
  destruct (mk_screen_idem _ _ _ _ _ _ _ _ H) as (_ & _ & _ & _ & H5 & H6 & _).
  repeat split.
  - intros m b ->. exact H5.
  - intros m b ->. exact H6.
Qed.

Lemma cycles_fixed s : load (save s) = Ok s -> forall n, cycles n s = Ok s.
Proof. intros H n. induction n as [|n IH]; cbn [cycles]; [reflexivity|]. rewrite H. cbn [res_bind]. exact IH. Qed.

Lemma fixed_point rows arity ctrl tmap smap og mg s :
  mk_screen rows arity ctrl tmap smap og mg = Ok s ->
  exists s', load (save s) = Ok s'
  /\ save s' = save s /\ load (save s') = Ok s' /\ forall n, cycles n s' = Ok s'.
Proof.
  intros H. pose proof (load_save _ _ _ _ _ _ _ _ H) as HL. exists s.
  split; [exact HL|]. split; [reflexivity|]. split; [exact HL|]. now apply cycles_fixed.
Qed.

Lemma any_cycles rows arity ctrl tmap smap og mg s :
  mk_screen rows arity ctrl tmap smap og mg = Ok s ->
  forall n, cycles n s = Ok s.
Proof. intros H. apply cycles_fixed. eapply load_save; eassumption. Qed.

(* ---- experiment space ---- *)
Lemma space_load_save sp : space_load (space_save sp) = Ok sp.
Proof.
  unfold space_load, space_save. cbn [g_tnames g_tdoses g_tids g_snames g_sids g_ctrl].
  rewrite zip_tmap_save, zip_nmap_save. now destruct sp.
Qed.

Lemma space_cycles_fixed sp n : space_cycles n sp = Ok sp.
Proof.
  induction n as [|n IH]; cbn [space_cycles]; [reflexivity|]. rewrite space_load_save. cbn [res_bind]. exact IH.
Qed.

Lemma space_fixed_point sp :
  exists sp', space_load (space_save sp) = Ok sp'
  /\ sp' = sp /\ space_save sp' = space_save sp /\ forall n, space_cycles n sp' = Ok sp'.
Proof.
  exists sp. split; [apply space_load_save|]. split; [reflexivity|]. split; [reflexivity|].
  intros n. apply space_cycles_fixed.
Qed.

(* from_screen commutes with the screen's own round trip *)
Lemma space_of_screen_load_save rows arity ctrl tmap smap og mg s :
  mk_screen rows arity ctrl tmap smap og mg = Ok s ->
  space_load (space_save (space_of_screen s)) = Ok (space_of_screen s)
  /\ (forall n, space_cycles n (space_of_screen s) = Ok (space_of_screen s))
  /\ (forall s', load (save s) = Ok s' -> space_of_screen s' = space_of_screen s).
Proof.
  intros H. split; [apply space_load_save|]. split; [intros n; apply space_cycles_fixed|].
  intros s' HL'. now rewrite (load_save_inv _ _ _ _ _ _ _ _ _ H HL').
Qed.
