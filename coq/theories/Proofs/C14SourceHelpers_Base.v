(* C14, one piece of Proofs/C14SourceHelpers.v (which see): auxiliary facts that mention no translated function *)
From Coq Require Import ZArith List Bool Arith Lia ZifyBool.
From Batchie Require Import Lib.Sexp Lib.PyRt Generated.Consts Model.Encode Model.Screen Model.Views
  Generated.SrcEncode Generated.SrcViews Generated.SrcPlates
  Proofs.PyRtLemmas Proofs.C01Sort Proofs.C14Defs Proofs.C14Lists Proofs.C14Unique
  Proofs.C14Source_Base.
Import ListNotations.
Open Scope Z_scope.

(* ---------------- small facts ---------------- *)
Lemma forallb_map {A B} (f : A -> B) (p : B -> bool) l : forallb p (map f l) = forallb (fun x => p (f x)) l.
Proof. induction l as [|a l IH]; cbn [map forallb]; [reflexivity | now rewrite IH]. Qed.

Lemma forallb_eq {A} (p q : A -> bool) l : (forall x, p x = q x) -> forallb p l = forallb q l.
Proof. intros H. induction l as [|a l IH]; cbn [forallb]; [reflexivity | now rewrite H, IH]. Qed.

Lemma list_get_0 {A} (l : list A) : list_get l 0 = match l with x :: _ => Ok x | [] => Err 98 end.
Proof. destruct l; reflexivity. Qed.

(* np.setdiff1d(np.unique(a), [SENTINEL]) is the sorted distinct entries without the sentinel *)
Lemma setdiff_sentinel (l : list Z) :
  np_setdiff1d (sort_uniq Z.compare l) [CONTROL_SENTINEL_VALUE]
  = filter (fun x => negb (x =? CONTROL_SENTINEL_VALUE)) (sort_uniq Z.compare l).
Proof.
  unfold np_setdiff1d.
  rewrite (sort_uniq_of_sorted Z.compare Zcmp_spec)
    by (apply (SSorted_filter Z.compare); apply (sort_uniq_sorted Z.compare Zcmp_spec)).
  apply filter_ext. intros x. cbn [existsb]. now rewrite orb_false_r.
Qed.

Lemma with_plate_same r : with_plate (r_plate r) r = r.
Proof. destruct r; reflexivity. Qed.

(* the rows after `plate_names[sel] = nm`, computed through the column, are the relabelled rows *)
Lemma relabel_column (nm : name) : forall (sel : list bool) (rows : list row),
  map (fun p : name * row => with_plate (fst p) (snd p))
      (combine (map (fun p : bool * name => if fst p then nm else snd p) (combine sel (map r_plate rows))) rows)
  = relabel sel nm rows.
Proof.
  unfold relabel. induction sel as [|b sel IH]; intros [|r rows]; cbn [map combine]; try reflexivity.
  rewrite IH. cbn [fst snd]. destruct b; [reflexivity | now rewrite with_plate_same].
Qed.

Lemma relabel_length sel nm rows : length sel = length rows -> length (relabel sel nm rows) = length rows.
Proof. intros H. unfold relabel. rewrite map_length, combine_length. lia. Qed.

Lemma ids_of_column_some l : ids_of_column (map Some l) = Ok l.
Proof. unfold ids_of_column. induction l as [|x l IH]; cbn [map res_map_all]; [reflexivity | now rewrite IH]. Qed.

Lemma rows_of_arrays_app (r1 r2 : list row) :
  rows_of_arrays (map (fun r => map fst (r_treats r)) r1 ++ map (fun r => map fst (r_treats r)) r2)
                 (map (fun r => map snd (r_treats r)) r1 ++ map (fun r => map snd (r_treats r)) r2)
                 (map r_obs r1 ++ map r_obs r2) (map r_mask r1 ++ map r_mask r2)
                 (map r_sample r1 ++ map r_sample r2) (map r_plate r1 ++ map r_plate r2) = r1 ++ r2.
Proof. rewrite <- !map_app. apply rows_of_arrays_rows. Qed.

(* the loop that appends one treatment-id column per treatment position *)
Lemma append_columns_loop (a : nat) (tids : list (list Z)) (f : list (list Z) -> Z -> result (list (list Z))) :
  (forall arrs i, f arrs i = dor c <- arr2_col 0 (a, tids) i; Ok (arrs ++ [c])) ->
  forall n s arrs, (s + n <= a)%nat ->
  res_fold f (map Z.of_nat (seq s n)) arrs = Ok (arrs ++ map (fun i => column 0 i tids) (seq s n)).
Proof.
  intros Hf. induction n as [|n IH]; intros s arrs Hs; cbn [seq map res_fold]; [now rewrite app_nil_r|].
  rewrite Hf. unfold arr2_col. cbn [fst snd].
  replace (Z.of_nat s <? 0) with false by lia.
  replace ((0 <=? Z.of_nat s) && (Z.of_nat s <? Z.of_nat a)) with true by lia.
  cbn [res_bind]. rewrite Nat2Z.id, IH by lia. now rewrite <- app_assoc.
Qed.
