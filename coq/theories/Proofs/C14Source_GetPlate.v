(* C14, one piece of Proofs/C14Source.v (conventions and objects: see there): Screen.get_plate *)
From Coq Require Import ZArith List Bool Arith Lia ZifyBool.
From Batchie Require Import Lib.Sexp Lib.PyRt Model.Encode Model.Screen Model.Views Generated.SrcViews
  Proofs.PyRtLemmas Proofs.C14Lists Proofs.C14Source_Base Proofs.C14Source_ViewInit.
Import ListNotations.
Open Scope Z_scope.

Theorem src_get_plate_is_model : forall (s : pyscreen) (pid : Z),
  src_get_plate s pid = get_plate (fst s) (snd s) pid.
Proof. intros s pid. unfold src_get_plate. rewrite src_view_init_is_model, res_bind_ok. reflexivity. Qed.
