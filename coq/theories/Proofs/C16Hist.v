(* C16 proofs, part 2: the invariant of selection histories and the property clauses. *)
From Coq Require Import ZArith List Bool Lia Permutation.
From Batchie Require Import Lib.Sexp Model.Policy Proofs.C16Policy.
Import ListNotations.
Open Scope Z_scope.

(* batch of m*k + j plates: m complete samples (k plates each) and, when j > 0, one sample c0 in
   progress with j plates of which at least k - j are still available *)
Definition inv (k : Z) (s : state) : Prop :=
  let '(b, r) := s in
  exists m j, Z.of_nat (length b) = m * k + j /\ 0 <= m /\ 0 <= j < k /\
    ((j = 0 /\ forall c, cnt c b = 0 \/ cnt c b = k) \/
     (0 < j /\ exists c0, cnt c0 b = j /\ k - j <= cnt c0 r /\ forall c, c <> c0 -> cnt c b = 0 \/ cnt c b = k)).

Lemma inv_init k r : 1 <= k -> inv k ([], r).
Proof.
  intros Hk. exists 0, 0. cbn [length]. split; [lia|]. split; [lia|]. split; [lia|].
  left. split; [reflexivity|]. intros c. left. reflexivity.
Qed.

Lemma In_filter_sample c p (r : list plate) : In p (filter (fun p => sample_of p =? c) r) -> In p r /\ sample_of p = c.
Proof. intros H. apply filter_In in H as [H1 H2]. apply Z.eqb_eq in H2. now split. Qed.

Lemma inv_step k s s' : 1 <= k -> inv k s -> step k s s' -> inv k s'.
Proof.
  intros Hk Hinv Hst. destruct Hst as [b r el p b' r' Hfe Hp Hb' Hr'].
  cbn [inv] in *. destruct Hinv as (m & j & Hlen & Hm & Hj & Hcase).
  assert (Hlen' : Z.of_nat (length b') = Z.of_nat (length b) + 1).
  { rewrite (Permutation_length Hb'). cbn [length]. lia. }
  assert (Hcb : forall c, cnt c b' = (if sample_of p =? c then 1 else 0) + cnt c b).
  { intros c. rewrite (cnt_perm c _ _ Hb'). apply cnt_cons. }
  assert (Hcr : forall c, cnt c r = (if sample_of p =? c then 1 else 0) + cnt c r').
  { intros c. rewrite (cnt_perm c _ _ Hr'). apply cnt_cons. }
  destruct (fe_cases _ _ _ _ Hfe) as (_ & [(c & Hc & ->)|(Hall & ->)]).
  - (* a sample is in progress: it is c0 and p belongs to it *)
    apply In_filter_sample in Hp as [_ Hs]. subst c.
    destruct Hcase as [(-> & H0)|(Hj0 & c0 & Hc0 & Hrem & Hoth)]; [destruct (H0 (sample_of p)); lia|].
    assert (Ec : sample_of p = c0)
      by (destruct (Z.eq_dec (sample_of p) c0) as [E|E]; [exact E|destruct (Hoth _ E); lia]).
    rewrite Ec in Hcb, Hcr. clear Ec Hc.
    destruct (Z.eq_dec (j + 1) k) as [Ek|Ek].
    + exists (m + 1), 0. split; [lia|]. split; [lia|]. split; [lia|]. left. split; [reflexivity|].
      intros c. rewrite Hcb. destruct (c0 =? c) eqn:E.
      * apply Z.eqb_eq in E. right. subst c. lia.
      * apply Z.eqb_neq in E. rewrite Z.add_0_l. apply Hoth. congruence.
    + exists m, (j + 1). split; [lia|]. split; [lia|]. split; [lia|]. right. split; [lia|].
      exists c0. rewrite Hcb. specialize (Hcr c0). rewrite Z.eqb_refl in Hcr |- *.
      split; [lia|]. split; [lia|].
      intros c Hne. rewrite Hcb. destruct (c0 =? c) eqn:E; [apply Z.eqb_eq in E; congruence|].
      rewrite Z.add_0_l. now apply Hoth.
  - (* no sample in progress: p opens a new sample with >= k remaining plates *)
    apply filter_In in Hp as [_ Hop]. unfold open_pred in Hop. apply andb_prop in Hop as [Hk' H0].
    apply Z.leb_le in Hk'. apply Z.eqb_eq in H0.
    destruct Hcase as [(-> & Hzk)|(Hj0 & c0 & Hc0 & _ & _)]; [|destruct (Hall c0); lia].
    destruct (Z.eq_dec k 1) as [E1|E1].
    + exists (m + 1), 0. split; [lia|]. split; [lia|]. split; [lia|]. left. split; [reflexivity|].
      intros c. rewrite Hcb. destruct (sample_of p =? c) eqn:E.
      * apply Z.eqb_eq in E. subst c. right. lia.
      * rewrite Z.add_0_l. apply Hzk.
    + exists m, 1. split; [lia|]. split; [lia|]. split; [lia|]. right. split; [lia|].
      exists (sample_of p). rewrite Hcb. pose proof (Hcr (sample_of p)) as Hcr'. rewrite Z.eqb_refl in Hcr' |- *.
      split; [lia|]. split; [lia|].
      intros c Hne. rewrite Hcb. destruct (sample_of p =? c) eqn:E; [apply Z.eqb_eq in E; congruence|].
      rewrite Z.add_0_l. apply Hzk.
Qed.

Lemma inv_reachable k u s : 1 <= k -> reachable k u s -> inv k s.
Proof.
  intros Hk H. induction H as [|s s' _ IH Hst]; [now apply inv_init|]. eapply inv_step; eassumption.
Qed.

(* ---- the property clauses ---- *)

(* eligible = remaining restricted by a predicate: subset, same order *)
Lemma c16_eligible_subset k b r el :
  filter_eligible k b r = Ok el -> (exists f, el = filter f r) /\ (forall p, In p el -> In p r).
Proof.
  intros H. assert (Hf : exists f, el = filter f r).
  { destruct (fe_cases _ _ _ _ H) as (_ & [(c & _ & ->)|(_ & ->)]); eexists; reflexivity. }
  split; [exact Hf|]. destruct Hf as (f & ->). intros p Hp. now apply filter_In in Hp.
Qed.

Lemma c16_in_progress_only k u b r c el :
  1 <= k -> reachable k u (b, r) -> 0 < cnt c b < k -> filter_eligible k b r = Ok el ->
  el = filter (fun p => sample_of p =? c) r /\ el <> [] /\
  (forall p, In p el <-> In p r /\ sample_of p = c).
Proof.
  intros Hk Hreach Hc Hfe. pose proof (inv_reachable _ _ _ Hk Hreach) as Hinv. cbn [inv] in Hinv.
  destruct Hinv as (m & j & Hlen & Hm & Hj & Hcase).
  destruct Hcase as [(-> & H0)|(Hj0 & c0 & Hc0 & Hrem & Hoth)]; [destruct (H0 c); lia|].
  assert (c = c0) by (destruct (Z.eq_dec c c0) as [E|E]; [exact E|destruct (Hoth c E); lia]). subst c.
  assert (Hel : el = filter (fun p => sample_of p =? c0) r).
  { destruct (fe_cases _ _ _ _ Hfe) as (_ & [(c & Hc' & ->)|(Hall & _)]); [|destruct (Hall c0); lia].
    assert (c = c0) by (destruct (Z.eq_dec c c0) as [E|E]; [exact E|destruct (Hoth c E); lia]). now subst c. }
  split; [exact Hel|]. subst el. split; [apply cnt_filter_nonempty; lia|].
  intros p. rewrite filter_In, Z.eqb_eq. reflexivity.
Qed.

Lemma c16_open_needs_k k b r el p :
  filter_eligible k b r = Ok el -> In p el -> cnt (sample_of p) b = 0 -> k <= cnt (sample_of p) r.
Proof.
  intros Hfe Hp H0. destruct (fe_cases _ _ _ _ Hfe) as (_ & [(c & Hc & ->)|(_ & ->)]).
  - apply In_filter_sample in Hp as [_ Hs]. subst c. lia.
  - apply filter_In in Hp as [_ Hop]. unfold open_pred in Hop. apply andb_prop in Hop as [Hk' _]. now apply Z.leb_le.
Qed.

Lemma c16_one_incomplete k u b r :
  1 <= k -> reachable k u (b, r) ->
  (forall c, 0 <= cnt c b <= k) /\
  (forall c1 c2, cnt c1 b mod k <> 0 -> cnt c2 b mod k <> 0 -> c1 = c2).
Proof.
  intros Hk Hreach. pose proof (inv_reachable _ _ _ Hk Hreach) as Hinv. cbn [inv] in Hinv.
  destruct Hinv as (m & j & Hlen & Hm & Hj & Hcase).
  assert (Hmod : forall x, x = 0 \/ x = k -> x mod k = 0).
  { intros x [->| ->]; [apply Z.mod_0_l; lia|apply Z_mod_same_full]. }
  destruct Hcase as [(-> & H0)|(Hj0 & c0 & Hc0 & Hrem & Hoth)].
  - split; [intros c; destruct (H0 c); lia|]. intros c1 c2 H1. exfalso. apply H1, Hmod, H0.
  - split.
    + intros c. destruct (Z.eq_dec c c0) as [->|E]; [lia|destruct (Hoth c E); lia].
    + intros c1 c2 H1 H2.
      assert (E1 : c1 = c0) by (destruct (Z.eq_dec c1 c0) as [E|E]; [exact E|exfalso; apply H1, Hmod, Hoth, E]).
      assert (E2 : c2 = c0) by (destruct (Z.eq_dec c2 c0) as [E|E]; [exact E|exfalso; apply H2, Hmod, Hoth, E]).
      congruence.
Qed.

Lemma c16_batch_shape k u b r m :
  1 <= k -> reachable k u (b, r) -> Z.of_nat (length b) = m * k -> forall c, cnt c b = 0 \/ cnt c b = k.
Proof.
  intros Hk Hreach Hlen. pose proof (inv_reachable _ _ _ Hk Hreach) as Hinv. cbn [inv] in Hinv.
  destruct Hinv as (m' & j & Hlen' & Hm & Hj & Hcase).
  assert (j = 0).
  { assert (Hd : j = (m - m') * k) by lia.
    destruct (Z_lt_le_dec (m - m') 1) as [H1|H1]; [|nia].
    destruct (Z_lt_le_dec (m - m') 0) as [H2|H2]; [nia|]. assert (m - m' = 0) by lia. nia. }
  subst j. destruct Hcase as [(_ & H0)|(Hj0 & _)]; [exact H0|lia].
Qed.

Lemma c16_batch_ends_at_boundary k u b r :
  1 <= k -> reachable k u (b, r) -> filter_eligible k b r = Ok [] -> forall c, cnt c b = 0 \/ cnt c b = k.
Proof.
  intros Hk Hreach Hfe c.
  destruct (c16_one_incomplete k u b r Hk Hreach) as [Hrange _]. specialize (Hrange c).
  destruct (Z.eq_dec (cnt c b) 0) as [E0|E0]; [now left|]. destruct (Z.eq_dec (cnt c b) k) as [Ek|Ek]; [now right|].
  exfalso. destruct (c16_in_progress_only k u b r c [] Hk Hreach ltac:(lia) Hfe) as (_ & Hne & _). now apply Hne.
Qed.

Lemma c16_multi_sample_refused k b r p :
  In p (b ++ r) -> n_unique (rows p) <> 1 -> filter_eligible k b r = Err 1.
Proof.
  intros Hin Hn. apply fe_err. destruct (forallb single (b ++ r)) eqn:E; [|reflexivity].
  rewrite forallb_forall in E. specialize (E p Hin). unfold single in E. apply Z.eqb_eq in E. contradiction.
Qed.

Lemma c16_single_sample_accepted k b r :
  (forall p, In p (b ++ r) -> n_unique (rows p) = 1) -> exists el, filter_eligible k b r = Ok el.
Proof.
  intros H. apply fe_ok. apply forallb_forall. intros p Hp. unfold single. apply Z.eqb_eq. now apply H.
Qed.
