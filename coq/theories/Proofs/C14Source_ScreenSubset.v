(* C14, one piece of Proofs/C14Source.v (conventions and objects: see there): Screen.subset *)
From Coq Require Import ZArith List Bool Arith Lia ZifyBool.
From Batchie Require Import Lib.Sexp Lib.PyRt Model.Encode Model.Screen Model.Views Generated.SrcViews
  Proofs.PyRtLemmas Proofs.C14Lists Proofs.C14Source_Base Proofs.C14Source_ScreenSize Proofs.C14Source_ViewInit.
Import ListNotations.
Open Scope Z_scope.

Theorem src_screen_subset_is_model : forall (s : pyscreen) (sv : anyarray),
  src_screen_subset s sv = screen_subset (fst s) (snd s) (fst sv) (snd sv).
Proof.
  intros s sv. unfold src_screen_subset, screen_subset. destruct (negb (fst sv)); [reflexivity|].
  rewrite src_screen_size_is_model. cbn [res_bind]. rewrite of_nat_eqb.
  destruct (negb (Nat.eqb (length (snd sv)) (screen_size (snd s)))); [reflexivity|].
  rewrite src_view_init_is_model, res_bind_ok. reflexivity.
Qed.
