(* C11, the piece of Proofs/C11Source.v (which see) that only C11 states: create_plate_balanced_holdout_set_among_masked_plates *)
From Coq Require Import ZArith List Bool Arith Lia.
From Batchie Require Import Lib.Sexp Lib.PyRt Model.Encode Model.Screen Model.Retro Model.Pairwise Model.RetroHoldout
  Generated.SrcRetro Proofs.PyRtLemmas Proofs.C11Lib Proofs.C11Smooth Proofs.C13MergeMin Proofs.C11Source.
Import ListNotations.
Open Scope nat_scope.

(* ---------- retrospective.py: create_plate_balanced_holdout_set_among_masked_plates ---------- *)
(* the loop over the plates, for an arbitrary body equal to the canonical one and an arbitrary continuation that
   drops what is left of the oracle counts *)
Lemma ho_for {B : Type} (num : Z) (den : positive) (rows : screen_t)
      (f : option (list Z) * list draw * bvec -> bvec -> result (option (list Z) * list draw * bvec))
      (K : option (list Z) * list draw * bvec -> result B) (k : bvec -> list draw -> result B) :
  (forall c d sel v, f (c, d, sel) v =
     if vec_observed v rows then Ok (c, d, sel)
     else
       dor nc <- ceil_count (plate_size v) num den c; let '(n, c') := nc in
       dor xd <- choose (vec_indices v) n d; let '(idx, d') := xd in
       Ok (c', d', set_true (length rows) sel idx)) ->
  (forall c d sel, K (c, d, sel) = k sel d) ->
  forall plates c d sel,
    res_bind (res_fold f (map (fun p => plate_vec p rows) plates) (c, d, sel)) K
    = dor x <- ho_plates (length rows) num den rows plates c d sel; k (fst x) (snd x).
Proof.
  intros Hf HK. induction plates as [|p plates IH]; intros c d sel; cbn [map res_fold ho_plates res_bind fst snd]; [apply HK|].
  rewrite Hf. unfold vec_observed. rewrite vselect_plate_vec. fold (plate_observed p rows).
  destruct (plate_observed p rows); cbn [res_bind]; [apply IH|].
  unfold ceil_count, plate_size. rewrite Nat2Z.id.
  destruct (next_count (vcount (plate_vec p rows)) num den c) as [[n c']|t]; cbn [res_bind]; [|reflexivity].
  unfold choose. destruct (take_ints d) as [[idx d']|t]; cbn [res_bind]; [|reflexivity].
  destruct (negb (Z.of_nat (length idx) =? n)%Z); cbn [res_bind]; [reflexivity|].
  unfold set_true. apply IH.
Qed.

Theorem src_balanced_holdout_is_model : forall num den counts rows ds,
  src_balanced_holdout num den counts rows ds = holdout_balanced num den counts rows ds.
Proof.
  intros num den counts rows ds. unfold src_balanced_holdout, holdout_balanced.
  destruct ((num <? 0)%Z || (Z.pos den <? num)%Z); [reflexivity|].
  unfold plates_of.
  rewrite (ho_for num den rows _ _ (fun sel d => dor kh <- split_by sel rows; Ok (kh, d))).
  - destruct (ho_plates _ num den rows _ counts ds _) as [[sel d]|t]; reflexivity.
  - intros c d sel v. reflexivity.
  - intros c d sel. unfold split_by, screen_without, screen_observed_of. cbv beta.
    destruct (construct (vselect (map negb sel) rows)) as [k|t]; cbn [res_bind]; [|reflexivity].
    destruct (construct (map (set_mask true) (vselect sel rows))) as [h|t]; reflexivity.
Qed.
