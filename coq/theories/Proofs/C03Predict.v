(* C03, the clause "posterior samples learned on one stage produce identical predictions for the same experiments on
   every later stage": frozen ids (Proofs/C03Frozen.v) composed with C09's prediction model (Model/Predict.v).

   [pred_view s] is the screen as the prediction code reads it (Predict.screen = sample_ids and the columns of
   treatment_ids), built from the id arrays of the model screen [s]; [pred_view_pydata] shows that, for a constructed
   screen of arity 1 or 2, it stands for exactly the object whose .sample_ids / .treatment_ids are s_sids / s_tids
   (Predict.pydata_of is the representation map of C09's source links).  The prediction of row i is a function of
   (sample id, treatment ids) of that row alone (C09 predict_take), and two screens frozen to one parent give the
   same ids to the same sample name / (treatment, dose) (same_name_same_id). *)
From Coq Require Import ZArith List Bool Lia Arith QArith Qcanon.
From Batchie Require Import Lib.Sexp Lib.Num Generated.Consts Model.Encode Model.Screen Model.Reveal Model.Holdout
  Proofs.C03Base Proofs.C03Screen Proofs.C12Reveal Proofs.C03Frozen.
From Batchie Require Model.Predict Proofs.C09Predict.
Import ListNotations.
Open Scope Z_scope.

Definition id_row1 (s : screen) (i : nat) : Z * Z := (sample_id_at s i, treat_id_at s i 0).
Definition id_row2 (s : screen) (i : nat) : Z * Z * Z := (sample_id_at s i, treat_id_at s i 0, treat_id_at s i 1).

Definition pred_view (s : screen) : Predict.screen :=
  let n := length (s_rows s) in
  match s_arity s with
  | 1%nat => Predict.Scr1 (map (id_row1 s) (seq 0 n))
  | 2%nat => Predict.Scr2 (map (id_row2 s) (seq 0 n))
  | a => Predict.ScrN a n
  end.

Lemma pred_view_size s : Predict.scr_size (pred_view s) = length (s_rows s).
Proof.
  unfold pred_view. destruct (s_arity s) as [|[|[|a]]]; cbn [Predict.scr_size]; rewrite ?map_length, ?seq_length; reflexivity.
Qed.

Lemma nth_map_seq {A} (f : nat -> A) n i d : (i < n)%nat -> nth i (map f (seq 0 n)) d = f i.
Proof.
  intros H. rewrite (nth_indep _ d (f 0%nat)) by (rewrite map_length, seq_length; exact H).
  rewrite (map_nth f (seq 0 n) 0%nat i). now rewrite seq_nth.
Qed.

(* one experiment of a stage, as the prediction code reads it *)
Lemma pred_view_take s i : (i < length (s_rows s))%nat ->
  Predict.scr_take [i] (pred_view s) =
  match s_arity s with
  | 1%nat => Predict.Scr1 [id_row1 s i]
  | 2%nat => Predict.Scr2 [id_row2 s i]
  | a => Predict.ScrN a 1
  end.
Proof.
  intros H. unfold pred_view. destruct (s_arity s) as [|[|[|a]]]; cbn [Predict.scr_take Predict.take_idx map length]; try reflexivity.
  - now rewrite nth_map_seq.
  - now rewrite nth_map_seq.
Qed.

(* the same experiment at two stages frozen to one parent is the same row of ids *)
Lemma frozen_same_experiment p s1 s2 i j :
  frozen_to p s1 -> frozen_to p s2 -> s_arity s1 = s_arity s2 ->
  (i < length (s_rows s1))%nat -> (j < length (s_rows s2))%nat ->
  sample_at s1 i = sample_at s2 j ->
  (forall c, (c < s_arity s1)%nat -> treat_at s1 i c = treat_at s2 j c) ->
  Predict.scr_take [i] (pred_view s1) = Predict.scr_take [j] (pred_view s2).
Proof.
  intros F1 F2 Ha Hi Hj Hs Ht.
  destruct (same_name_same_id p s1 s2 F1 F2) as [SS TT].
  rewrite (pred_view_take s1 i Hi), (pred_view_take s2 j Hj). rewrite <- Ha.
  pose proof (SS i j Hi Hj Hs) as Es.
  destruct (s_arity s1) as [|[|[|a]]] eqn:E; try reflexivity.
  - unfold id_row1. rewrite Es.
    rewrite (TT i 0%nat j 0%nat Hi) by (rewrite <- ?Ha, ?E; try exact Hj; try lia; apply Ht; lia). reflexivity.
  - unfold id_row2. rewrite Es.
    rewrite (TT i 0%nat j 0%nat Hi) by (rewrite <- ?Ha, ?E; try exact Hj; try lia; apply Ht; lia).
    rewrite (TT i 1%nat j 1%nat Hi) by (rewrite <- ?Ha, ?E; try exact Hj; try lia; apply Ht; lia). reflexivity.
Qed.

Lemma take_one_ok orc k th scr i v :
  (i < Predict.scr_size scr)%nat ->
  Predict.theta_predict orc k th scr = Ok v ->
  Predict.theta_predict orc k th (Predict.scr_take [i] scr) = Ok [nth i v 0%Qc].
Proof.
  intros Hi H. apply (C09Predict.predict_take orc k th scr [i] v); [|exact H].
  constructor; [exact Hi|constructor].
Qed.

(* THE CLAUSE.  Any posterior sample [th] of either shipped sample type, any of mean / viability / variance, any oracle:
   the prediction for row i of stage s1 and for row j of stage s2 is the same number whenever the two rows are the same
   experiment (same sample name, same (treatment, dose) in every column) and both stages are frozen to one parent. *)
Theorem predict_stable orc k th p s1 s2 i j v1 v2 :
  frozen_to p s1 -> frozen_to p s2 -> s_arity s1 = s_arity s2 ->
  (i < length (s_rows s1))%nat -> (j < length (s_rows s2))%nat ->
  sample_at s1 i = sample_at s2 j ->
  (forall c, (c < s_arity s1)%nat -> treat_at s1 i c = treat_at s2 j c) ->
  Predict.theta_predict orc k th (pred_view s1) = Ok v1 ->
  Predict.theta_predict orc k th (pred_view s2) = Ok v2 ->
  nth i v1 0%Qc = nth j v2 0%Qc.
Proof.
  intros F1 F2 Ha Hi Hj Hs Ht H1 H2.
  pose proof (take_one_ok orc k th _ i v1 ltac:(rewrite pred_view_size; exact Hi) H1) as A.
  pose proof (take_one_ok orc k th _ j v2 ltac:(rewrite pred_view_size; exact Hj) H2) as B.
  rewrite (frozen_same_experiment p s1 s2 i j F1 F2 Ha Hi Hj Hs Ht) in A.
  rewrite A in B. now inversion B.
Qed.

(* a later stage that lists the experiments [idx] of an earlier one (in any order, with repeats) is predicted as the
   corresponding entries of the earlier stage's prediction, errors included: if the earlier stage can be predicted, so can
   the later one *)
Lemma scr_take_app idx1 idx2 scr :
  Predict.scr_take (idx1 ++ idx2) scr =
  match Predict.scr_take idx1 scr, Predict.scr_take idx2 scr with
  | Predict.Scr1 a, Predict.Scr1 b => Predict.Scr1 (a ++ b)
  | Predict.Scr2 a, Predict.Scr2 b => Predict.Scr2 (a ++ b)
  | Predict.ScrN a n, Predict.ScrN _ m => Predict.ScrN a (n + m)
  | x, _ => x
  end.
Proof.
  destruct scr; cbn [Predict.scr_take]; unfold Predict.take_idx; rewrite ?map_app, ?app_length; reflexivity.
Qed.

Theorem predict_stable_stage orc k th p s1 s2 idx v1 :
  frozen_to p s1 -> frozen_to p s2 -> s_arity s1 = s_arity s2 ->
  length idx = length (s_rows s2) ->
  Forall (fun i => (i < length (s_rows s1))%nat) idx ->
  (forall j, (j < length (s_rows s2))%nat ->
     sample_at s1 (nth j idx 0%nat) = sample_at s2 j /\
     forall c, (c < s_arity s1)%nat -> treat_at s1 (nth j idx 0%nat) c = treat_at s2 j c) ->
  Predict.theta_predict orc k th (pred_view s1) = Ok v1 ->
  Predict.theta_predict orc k th (pred_view s2) = Ok (Predict.take_idx 0%Qc idx v1).
Proof.
  intros F1 F2 Ha Hlen Hidx Hsame H1.
  assert (E : Predict.scr_take idx (pred_view s1) = pred_view s2).
  { assert (G : forall n idx', length idx' = n -> (n <= length (s_rows s2))%nat ->
                 Forall (fun i => (i < length (s_rows s1))%nat) idx' ->
                 (forall j, (j < n)%nat ->
                    sample_at s1 (nth j idx' 0%nat) = sample_at s2 j /\
                    forall c, (c < s_arity s1)%nat -> treat_at s1 (nth j idx' 0%nat) c = treat_at s2 j c) ->
                 Predict.scr_take idx' (pred_view s1) =
                 match s_arity s2 with
                 | 1%nat => Predict.Scr1 (map (id_row1 s2) (seq 0 n))
                 | 2%nat => Predict.Scr2 (map (id_row2 s2) (seq 0 n))
                 | a => Predict.ScrN a n
                 end).
    { induction n as [|n IH]; intros idx' Hl Hn Hf Hs.
      - destruct idx'; [|discriminate]. unfold pred_view. rewrite Ha.
        destruct (s_arity s2) as [|[|[|a]]]; reflexivity.
      - assert (Hsplit : idx' = firstn n idx' ++ [nth n idx' 0%nat]).
        { rewrite <- (firstn_skipn n idx') at 1. f_equal.
          assert (Hsk : length (skipn n idx') = 1%nat) by (rewrite skipn_length; lia).
          rewrite <- (firstn_skipn n idx') at 2. rewrite app_nth2 by (rewrite firstn_length; lia).
          rewrite firstn_length, Nat.min_l by lia. rewrite Nat.sub_diag.
          destruct (skipn n idx') as [|x [|y r]]; try discriminate. reflexivity. }
        rewrite Hsplit, scr_take_app.
        rewrite (IH (firstn n idx')).
        + assert (Hin : (nth n idx' 0%nat < length (s_rows s1))%nat).
          { rewrite Forall_forall in Hf. apply Hf. apply nth_In. lia. }
          destruct (Hs n ltac:(lia)) as [Hs1 Hs2].
          rewrite (frozen_same_experiment p s1 s2 (nth n idx' 0%nat) n F1 F2 Ha Hin ltac:(lia) Hs1 Hs2).
          rewrite (pred_view_take s2 n) by lia.
          rewrite seq_S. cbn [Nat.add].
          destruct (s_arity s2) as [|[|[|a]]]; rewrite ?map_app; cbn [map]; try reflexivity; f_equal; lia.
        + rewrite firstn_length. lia.
        + lia.
        + rewrite <- (firstn_skipn n idx') in Hf. apply Forall_app in Hf. tauto.
        + intros j Hj. specialize (Hs j ltac:(lia)).
          rewrite <- (firstn_skipn n idx') in Hs. rewrite app_nth1 in Hs by (rewrite firstn_length; lia). exact Hs. }
    rewrite (G (length (s_rows s2)) idx Hlen (Nat.le_refl _) Hidx Hsame). reflexivity. }
  rewrite <- E. apply C09Predict.predict_take; [|exact H1].
  rewrite pred_view_size. exact Hidx.
Qed.

(* ---- pred_view is the object the translated prediction code reads ---- *)
Lemma list_eq_map_nth {A} (l : list A) d : l = map (fun i => nth i l d) (seq 0 (length l)).
Proof.
  induction l as [|x l IH]; [reflexivity|]. cbn [length seq map nth]. f_equal.
  rewrite <- seq_shift, map_map. exact IH.
Qed.

Lemma constructed_id_shapes s : constructed s ->
  length (s_sids s) = length (s_rows s) /\
  s_tids s = map (fun i => map (fun c => treat_id_at s i c) (seq 0 (s_arity s))) (seq 0 (length (s_rows s))).
Proof.
  intros (rows & a & c & tm & sm & og & mg & H). destruct (mk_screen_inv _ _ _ _ _ _ _ _ H) as [tflat B].
  pose proof (b_rows _ _ _ _ _ _ _ _ _ B) as Hr. pose proof (b_ar _ _ _ _ _ _ _ _ _ B) as Ha.
  pose proof (b_tids _ _ _ _ _ _ _ _ _ B) as Ht.
  destruct (encode_names_inv _ _ _ _ _ (b_samples _ _ _ _ _ _ _ _ _ B)) as [_ Hs].
  split.
  - rewrite (opt_map_all_length _ _ _ Hs), map_length, Hr. reflexivity.
  - rewrite Hr, Ha. rewrite Ht at 1. unfold unflatten_cols.
    apply map_ext_in. intros i Hi. apply in_seq in Hi.
    apply map_ext_in. intros c0 Hc. apply in_seq in Hc.
    unfold treat_id_at. rewrite Ht. rewrite unflatten_cols_nth by lia. reflexivity.
Qed.

(* for a constructed screen of arity 1 or 2 (the arities the shipped sample types predict), [pred_view s] stands for the object
   whose sample_ids / treatment_ids arrays are exactly s_sids / s_tids: Predict.pydata_of is the representation map under
   which C09 proves the TRANSLATED predict_* methods equal to Predict.theta_predict (C09_model_is_source_theta_predict) *)
Theorem pred_view_pydata s : constructed s -> (s_arity s = 1 \/ s_arity s = 2)%nat ->
  Predict.pydata_of (pred_view s) =
  {| Predict.pd_sample_ids := s_sids s;
     Predict.pd_treatment_ids := {| Predict.im_arity := s_arity s; Predict.im_rows := s_tids s |} |}.
Proof.
  intros Hc Ha. destruct (constructed_id_shapes s Hc) as [Hl Ht].
  assert (Hsid : map (sample_id_at s) (seq 0 (length (s_rows s))) = s_sids s).
  { rewrite <- Hl. symmetry. apply (list_eq_map_nth (s_sids s) 0). }
  unfold pred_view. destruct Ha as [Ha|Ha]; rewrite Ha in *; cbn [Predict.pydata_of seq map] in *.
  - unfold Predict.tids1. rewrite !map_map. cbn [fst snd id_row1]. f_equal; [exact Hsid|]. f_equal. symmetry. exact Ht.
  - unfold Predict.tids2, Predict.col_s. rewrite !map_map. cbn [fst snd id_row2]. f_equal; [exact Hsid|]. f_equal. symmetry. exact Ht.
Qed.

(* ---- along a lifecycle ---- *)
Lemma step_arity v s o s' : step v s o = Ok s' -> s_arity s' = s_arity s.
Proof.
  destruct o as [ids| | |]; cbn [step]; intros H.
  - apply reveal_plates_inv in H. destruct H as (_ & _ & H). apply rebuild_inv in H. tauto.
  - apply rebuild_inv in H. tauto.
  - apply rebuild_inv in H. tauto.
  - apply save_load_inv in H. tauto.
Qed.

Lemma lifecycle_constructed_arity v p sel t ops s :
  lifecycle v p sel t ops = Ok s -> constructed s /\ s_arity s = s_arity p.
Proof.
  unfold lifecycle. destruct (holdout_split p sel) as [pr|] eqn:E; cbn [res_bind]; [|discriminate].
  apply (history_invariant_in (fun s => constructed s /\ s_arity s = s_arity p) v ops).
  - intros s1 o s2 _ [_ Ha] Hstep. split; [eapply step_constructed; exact Hstep|].
    rewrite (step_arity _ _ _ _ Hstep). exact Ha.
  - split; [eapply holdout_constructed; exact E|].
    destruct pr as [tr te]. apply holdout_split_inv in E. destruct E as (_ & H1 & H2).
    apply mk_screen_inv in H1. apply mk_screen_inv in H2. destruct H1 as [f1 B1], H2 as [f2 B2].
    destruct t; cbn [half fst snd]; [exact (b_ar _ _ _ _ _ _ _ _ _ B2)|exact (b_ar _ _ _ _ _ _ _ _ _ B1)].
Qed.

(* the clause for any two stages of one prepared simulation (either half, any two histories) under the repaired construction *)
Theorem predict_stable_lifecycle orc k th p sel t1 ops1 t2 ops2 s1 s2 i j v1 v2 :
  lifecycle (carry_mappings true) p sel t1 ops1 = Ok s1 ->
  lifecycle (carry_mappings true) p sel t2 ops2 = Ok s2 ->
  (i < length (s_rows s1))%nat -> (j < length (s_rows s2))%nat ->
  sample_at s1 i = sample_at s2 j ->
  (forall c, (c < s_arity p)%nat -> treat_at s1 i c = treat_at s2 j c) ->
  Predict.theta_predict orc k th (pred_view s1) = Ok v1 ->
  Predict.theta_predict orc k th (pred_view s2) = Ok v2 ->
  nth i v1 0%Qc = nth j v2 0%Qc.
Proof.
  intros L1 L2 Hi Hj Hs Ht H1 H2.
  destruct (lifecycle_constructed_arity _ _ _ _ _ _ L1) as [_ A1].
  destruct (lifecycle_constructed_arity _ _ _ _ _ _ L2) as [_ A2].
  apply (predict_stable orc k th p s1 s2 i j v1 v2); auto.
  - exact (ids_frozen _ _ _ _ _ L1).
  - exact (ids_frozen _ _ _ _ _ L2).
  - congruence.
  - rewrite A1. exact Ht.
Qed.
