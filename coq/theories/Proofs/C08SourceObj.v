(* C08, source-translation links, second part:
     batchie.fast_mvn.sample_mvn_from_precision            (Generated/SrcMvn.v)      = Model/Mvn.v
     LegacySparseDrugComboImpl.__init__ / reset_model      (Generated/SrcGibbsObj.v) = the initial / reset state, whose
       shapes are the shape hypotheses of the block links of Proofs/C08Source.v; every block preserves them for
       well-shaped answers, hence the closed whole-sweep statement
     SparseDrugCombo.get_model_state / step / n_obs / reset_model / set_rng (wrappers). *)
From Coq Require Import ZArith List QArith Qcanon Lia ZifyBool Arith Bool.
From Batchie Require Import Lib.Sexp Lib.PyRt Lib.Num Model.Gibbs Model.Mvn Generated.SrcGibbs Generated.SrcMvn Generated.SrcGibbsObj
  Proofs.C08Sums Proofs.C08Cache Proofs.C08Mvn Proofs.C08Source.
Import ListNotations.
Open Scope Qc_scope.

(* ================================================================ sample_mvn_from_precision *)
Lemma vnth_map_rows (f : list Qc -> Qc) (M : list (list Qc)) k : f [] = 0 -> vnth (map f M) k = f (rnth M k).
Proof. intros H. unfold vnth, rnth. rewrite <- H at 1. apply map_nth. Qed.

(* entry (j, k) of the transpose is entry (k, j) - also outside the matrix, where both are 0 *)
Lemma transpose_entry n (M : list (list Qc)) j k : (j < n)%nat ->
  vnth (rnth (np_transpose n M) j) k = vnth (rnth M k) j.
Proof.
  intros Hj. unfold np_transpose. rewrite C08Sums.rnth_tab by exact Hj.
  apply (vnth_map_rows (fun r => vnth r j)). apply C08Sums.vnth_nil.
Qed.

Lemma solve_upper_go_is_back_go (L : list (list Qc)) z n : forall j acc, (j <= n)%nat ->
  solve_upper_go (np_transpose n L) z n j acc = back_go n L z j acc.
Proof.
  induction j as [|j IH]; intros acc Hj; cbn [solve_upper_go back_go]; [reflexivity|].
  rewrite IH by lia. f_equal. f_equal. rewrite transpose_entry by lia. f_equal. f_equal.
  apply sumn_ext. intros t _. now rewrite transpose_entry by lia.
Qed.

Lemma transpose_length n (M : list (list Qc)) : length (np_transpose n M) = n.
Proof. apply C08Sums.tab_length. Qed.

(* solve_triangular(L.T, z, lower=False) is the model's back substitution with L *)
Lemma solve_upper_transpose (L : list (list Qc)) z :
  solve_upper (np_transpose_sq L) z = back_subst (length L) L z.
Proof.
  unfold solve_upper, np_transpose_sq, back_subst. rewrite transpose_length. now apply solve_upper_go_is_back_go.
Qed.

Lemma back_go_length D L z : forall j acc, length (back_go D L z j acc) = (j + length acc)%nat.
Proof. induction j as [|j IH]; intros acc; cbn [back_go]; [reflexivity|]. rewrite IH. cbn [length]. lia. Qed.

Lemma back_subst_length D L z : length (back_subst D L z) = D.
Proof. unfold back_subst. rewrite back_go_length. cbn [length]. lia. Qed.

(* the forward substitution reads row j only up to the diagonal: rows may be cut / padded to n entries *)
Lemma fwd_go_trunc n : forall rows b acc, (length acc + length rows <= n)%nat ->
  fwd_go (map (fun r => tab n (vnth r)) rows) b acc = fwd_go rows b acc.
Proof.
  induction rows as [|r rows IH]; intros b acc H; cbn [map fwd_go]; [reflexivity|].
  destruct b as [|bj b]; [reflexivity|]. cbn [length] in H. rewrite IH by (rewrite app_length; cbn [length]; lia).
  f_equal. f_equal. f_equal. rewrite C08Sums.vnth_tab by lia. f_equal. f_equal.
  unfold vdot. apply sumn_ext. intros k Hk. now rewrite C08Sums.vnth_tab by lia.
Qed.

Lemma rows_as_tab (M : list (list Qc)) : M = tab (length M) (rnth M).
Proof.
  apply (nth_ext _ _ [] []); [now rewrite C08Sums.tab_length|].
  intros i Hi. now rewrite C08Sums.nth_tab by exact Hi.
Qed.

Lemma transpose_twice (L : list (list Qc)) :
  np_transpose_sq (np_transpose_sq L) = map (fun r => tab (length L) (vnth r)) L.
Proof.
  unfold np_transpose_sq. rewrite transpose_length. remember (length L) as n eqn:En.
  transitivity (map (fun r => tab n (vnth r)) (tab n (rnth L))); [|f_equal; rewrite En; symmetry; apply rows_as_tab].
  unfold np_transpose at 1. unfold tab at 3. rewrite map_map. apply map_ext_in. intros j Hj. apply in_seq in Hj.
  rewrite (map_as_tab_gen [] (fun r => vnth r j)), transpose_length. apply tab_ext. intros k Hk.
  change (nth k (np_transpose n L) []) with (rnth (np_transpose n L) k). now apply transpose_entry.
Qed.

(* cho_solve((L.T, False), b) is the model's mean Q^-1 b computed from L *)
Lemma cho_solve_transpose (L : list (list Qc)) b :
  cho_solve_upper (np_transpose_sq L) b = mvn_mean (length L) L b.
Proof.
  unfold cho_solve_upper, mvn_mean. rewrite solve_upper_transpose. f_equal.
  rewrite transpose_twice. unfold fwd_subst. apply fwd_go_trunc. cbn [length]. lia.
Qed.

Lemma vadd_is_np_vadd D a b : length a = D -> length b = D -> np_vadd a b = vadd D a b.
Proof.
  intros Ha Hb. unfold np_vadd, vadd. rewrite (zipw_nth Qcplus 0 0) by congruence. now rewrite Ha.
Qed.

Lemma mvn_mean_length D L b : length (mvn_mean D L b) = D.
Proof. apply back_subst_length. Qed.

(* everything after the factorisation, for the factor L: the draw node, the two solves, the addition *)
Lemma src_mvn_tail lin_solve (Q L : list (list Qc)) (mu mu_part : option (list Qc)) :
  geq (dmv r__3 <- mp_draw_std (Z.of_nat (length Q));
       let z' : list qnum := r__3 in
       dmv result' <- (if false then
           let result' : list qnum := lin_solve (np_transpose_sq L) z' in mp_ret result'
         else
           let result' : list qnum := solve_upper (np_transpose_sq L) z' in mp_ret result');
       dmv result' <- (if is_some mu_part then
           dmv u__4 <- mp_unwrap mu_part;
           let result' := np_vadd result' (cho_solve_upper (np_transpose_sq L) u__4) in mp_ret result'
         else
           dmv result' <- (if is_some mu then
               dmv u__5 <- mp_unwrap mu; let result' := np_vadd result' u__5 in mp_ret result'
             else mp_ret result');
           mp_ret result');
       mp_ret result')
      (GDraw (DNormalVec (repeat 1 (length Q))) (fun v =>
        let x := back_subst (length L) L (val_v v) in
        GRet (Ok (match mu_part, mu with
                  | Some b, _ => vadd (length L) x (mvn_mean (length L) L b)
                  | None, Some m => np_vadd x m
                  | None, None => x
                  end)))).
Proof.
  unfold mp_draw_std, mp_bind at 1. cbn [gbind]. rewrite Nat2Z.id. constructor. intros v. cbv zeta.
  rewrite solve_upper_transpose.
  destruct mu_part as [b|]; [|destruct mu as [m|]]; cbn [is_some mp_unwrap mp_bind mp_ret gbind];
    rewrite ?cho_solve_transpose, ?(vadd_is_np_vadd (length L)) by (apply back_subst_length || apply mvn_mean_length);
    apply geq_refl.
Qed.

(* the whole function, for every argument combination (chol: any function; lin_solve, reached only for a masked array:
   any function; the generator argument does not matter to the program of draws) *)
Theorem src_sample_mvn_general chol lin_solve Q mu mu_part chol_factor rng :
  geq (src_sample_mvn_from_precision chol lin_solve Q mu mu_part chol_factor rng) (mvn_general chol Q mu mu_part chol_factor).
Proof.
  unfold src_sample_mvn_from_precision, mvn_general. cbv zeta.
  destruct chol_factor; cbn [negb].
  - unfold mp_bind at 1. unfold mp_ret at 1. cbn [gbind]. apply (src_mvn_tail lin_solve).
  - unfold mp_bind at 1. unfold mp_bind at 1. unfold mp_lift. cbn [gbind]. destruct (chol Q) as [L|t]; cbn [gbind mp_ret].
    + apply (src_mvn_tail lin_solve).
    + apply geq_refl.
Qed.

(* ... as the Gibbs blocks call it: sample_mvn_from_precision(Q, mu_part=b) with the defaults mu=None, chol_factor=False, rng=None *)
Theorem src_sample_mvn_is_model chol lin_solve Q b rng :
  geq (src_sample_mvn_from_precision chol lin_solve Q None (Some b) false rng) (mvn_prog chol Q b).
Proof.
  eapply geq_trans; [apply src_sample_mvn_general|]. unfold mvn_general, mvn_prog, sample_mvn.
  destruct (chol Q); apply geq_refl.
Qed.

(* ================================================================ __init__ and reset_model *)
Lemma map_repeat' {A B} (f : A -> B) x n : map f (repeat x n) = repeat (f x) n.
Proof. induction n as [|n IH]; cbn [repeat map]; [reflexivity | now rewrite IH]. Qed.

Lemma np_zeros1_nat n : np_zeros1 (Z.of_nat n) = Ok (repeat 0 n).
Proof. unfold np_zeros1. destruct (Z.ltb_spec (Z.of_nat n) 0); [lia|]. now rewrite Nat2Z.id. Qed.
Lemma np_ones1_nat n : np_ones1 (Z.of_nat n) = Ok (repeat 1 n).
Proof. unfold np_ones1. destruct (Z.ltb_spec (Z.of_nat n) 0); [lia|]. now rewrite Nat2Z.id. Qed.
Lemma np_zeros2_nat a b : np_zeros2 (Z.of_nat a, Z.of_nat b) = Ok (repeat (repeat 0 b) a).
Proof.
  unfold np_zeros2. cbn [fst snd]. destruct (Z.ltb_spec (Z.of_nat a) 0); [lia|]. destruct (Z.ltb_spec (Z.of_nat b) 0); [lia|].
  cbn [orb]. now rewrite !Nat2Z.id.
Qed.
Lemma q100_1 : q100 * 1 = q100.
Proof. ring. Qed.

(* records: projections of setters.  (The translated constructor is a chain of some forty rebindings of `self`; it is
   opened with cbv, never with unfold / zeta alone - the kernel compares let-expanded terms as trees.) *)
Ltac obj_red := cbv beta iota zeta delta [W W0 V2 V1 V0 alpha prec tau tau0 phi2 phi1 phi0 eta2 eta1 eta0 gam Mu set_W set_W0 set_V2 set_V1 set_V0 set_alpha set_prec set_tau set_tau0 set_phi2 set_phi1 set_phi0 set_eta2 set_eta1 set_eta0 set_gam set_Mu o_y o_cl o_dd1 o_dd2 o_cidx o_1idx o_2idx set_o_y set_o_cl set_o_dd1 set_o_dd2 set_o_cidx set_o_1idx set_o_2idx pi_D pi_ndd pi_ncl pi_minMu pi_maxMu pi_a0 pi_b0 pi_individual_eff pi_intercept pi_fake_intercept pi_local_shrinkage pi_mult_gamma_proc pi_steps pi_obs pi_st set_pi_D set_pi_ndd set_pi_ncl set_pi_minMu set_pi_maxMu set_pi_a0 set_pi_b0 set_pi_individual_eff set_pi_intercept set_pi_fake_intercept set_pi_local_shrinkage set_pi_mult_gamma_proc set_pi_steps set_pi_obs set_pi_st pi_set_W pi_set_W0 pi_set_V2 pi_set_V1 pi_set_V0 pi_set_alpha pi_set_prec pi_set_tau pi_set_tau0 pi_set_phi2 pi_set_phi1 pi_set_phi0 pi_set_eta2 pi_set_eta1 pi_set_eta0 pi_set_gam pi_set_Mu pi_set_o_y pi_set_o_cl pi_set_o_dd1 pi_set_o_dd2 pi_set_o_cidx pi_set_o_1idx pi_set_o_2idx].

(* the constructor, for any previous content of the object (every attribute is assigned; with mult_gamma_proc = False
   `gam` would not be) *)
Theorem src_impl_init_is_model self0 D ndd ncl ic fi ie ls a0 b0 mn mx :
  src_impl_init self0 (Z.of_nat D) (Z.of_nat ndd) (Z.of_nat ncl) ic fi ie true ls a0 b0 mn mx
  = Ok (init_obj D ndd ncl ic fi ie true ls a0 b0 mn mx).
Proof.
  cbv beta delta [src_impl_init]. obj_red.
  rewrite !np_zeros2_nat. cbn [res_bind]. rewrite !np_zeros1_nat. cbn [res_bind]. rewrite !np_ones1_nat. cbn [res_bind].
  obj_red.
  change (np_zeros1 0%Z) with (np_zeros1 (Z.of_nat 0)). rewrite np_zeros1_nat. cbn [res_bind repeat].
  unfold init_obj, init_st, obs_empty. obj_red. unfold np_ones_like2, np_ones_like1, np_smul, q1. rewrite !map_repeat', !q100_1.
  reflexivity.
Qed.

(* a negative size: numpy refuses the allocation (ValueError), no object is built *)
Theorem src_impl_init_negative self0 nd ndd ncl ic fi ie mgp ls a0 b0 mn mx :
  (nd < 0 \/ ndd < 0 \/ ncl < 0)%Z -> src_impl_init self0 nd ndd ncl ic fi ie mgp ls a0 b0 mn mx = Err 7%Z.
Proof.
  intros H. cbv beta delta [src_impl_init]. obj_red. unfold np_zeros2, np_zeros1. cbn [fst snd].
  destruct (Z.ltb_spec ndd 0); cbn [orb res_bind]; [reflexivity|].
  destruct (Z.ltb_spec nd 0); cbn [orb res_bind]; [reflexivity|].
  destruct (Z.ltb_spec ncl 0); cbn [orb res_bind]; [reflexivity|]. lia.
Qed.

Lemma mul0_vec (l : list Qc) : np_vmuls l q0 = map (fun _ => 0) l.
Proof. unfold np_vmuls, q0. apply map_ext. intros y. ring. Qed.
Lemma mul0_mat (M : list (list Qc)) : np_mmuls M q0 = map (map (fun _ => 0)) M.
Proof. unfold np_mmuls. apply map_ext. intros r. apply mul0_vec. Qed.

(* reset_model: exactly the five embeddings, alpha, prec and Mu are reset; everything else is kept *)
Theorem src_impl_reset_is_model o : src_impl_reset_model o = Ok (set_pi_st o (reset_st (pi_st o))).
Proof.
  cbv beta delta [src_impl_reset_model]. obj_red. change (np_zeros1 0%Z) with (np_zeros1 (Z.of_nat 0)). rewrite np_zeros1_nat.
  cbn [res_bind repeat]. unfold reset_st. obj_red. rewrite !mul0_vec, !mul0_mat. reflexivity.
Qed.

(* ================================================================ programs on well-shaped answers *)
Lemma prog_eq_ws_of_eq p q : prog_eq p q -> prog_eq_ws p q.
Proof. induction 1 as [s|dr k1 k2 _ IH]; constructor. intros v _. apply IH. Qed.

Lemma prog_eq_ws_refl p : prog_eq_ws p p.
Proof. apply prog_eq_ws_of_eq, prog_eq_refl. Qed.

Lemma prog_eq_ws_sym p q : prog_eq_ws p q -> prog_eq_ws q p.
Proof. induction 1 as [s|dr k1 k2 _ IH]; constructor; assumption. Qed.

Lemma prog_eq_ws_trans p q r : prog_eq_ws p q -> prog_eq_ws q r -> prog_eq_ws p r.
Proof.
  intros H; revert r. induction H as [s|dr k1 k2 _ IH]; intros r Hr; [exact Hr|].
  inversion Hr as [|dr' k2' k3 Hk]; subst. constructor. intros v Hv. apply IH; [exact Hv | apply Hk, Hv].
Qed.

(* programs equal in this sense answer every well-shaped stream of drawn values alike *)
Lemma prog_eq_ws_run p q : prog_eq_ws p q -> forall vals, answers_ok p vals -> run_prog p vals = run_prog q vals.
Proof.
  induction 1 as [s|dr k1 k2 _ IH]; intros vals Hok; [reflexivity|].
  cbn [run_prog]. destruct vals as [|v r]; [reflexivity|]. cbn [answers_ok] in Hok. destruct Hok as [Hv Hr].
  now rewrite (IH v Hv r Hr).
Qed.

Lemma all_rets_ws_of_all P p : all_rets P p -> all_rets_ws P p.
Proof. induction p as [s|dr k IH]; cbn [all_rets all_rets_ws]; [auto|]. intros H v _. apply IH, H. Qed.

Lemma all_rets_ws_weaken (P R : st -> Prop) p : (forall s, P s -> R s) -> all_rets_ws P p -> all_rets_ws R p.
Proof. intros HPR. induction p as [s|dr k IH]; cbn [all_rets_ws]; [auto|]. intros H v Hv. apply IH, H, Hv. Qed.

Lemma all_rets_ws_bind P p f : all_rets_ws (fun s => all_rets_ws P (f s)) p -> all_rets_ws P (bind p f).
Proof. induction p as [s|dr k IH]; cbn [bind all_rets_ws]; [auto|]. intros H v Hv. apply IH, H, Hv. Qed.

Lemma all_rets_ws_eq P p q : prog_eq_ws p q -> all_rets_ws P q -> all_rets_ws P p.
Proof. induction 1 as [s|dr k1 k2 _ IH]; cbn [all_rets_ws]; [auto|]. intros H v Hv. apply IH; [exact Hv | apply H, Hv]. Qed.

Lemma all_rets_ws_run P p : all_rets_ws P p -> forall vals s', answers_ok p vals -> snd (run_prog p vals) = Some s' -> P s'.
Proof.
  induction p as [s|dr k IH]; cbn [all_rets_ws run_prog answers_ok]; intros H vals s' Hok Hrun.
  - destruct vals; cbn [snd] in Hrun; [|discriminate]. now injection Hrun as <-.
  - destruct vals as [|v r]; cbn [snd] in Hrun; [discriminate|]. destruct Hok as [Hv Hr]. exact (IH v (H v Hv) r s' Hr Hrun).
Qed.

Lemma all_rets_ws_seq_blocks (P : st -> Prop) blocks :
  (forall b, In b blocks -> forall s v, P s -> val_ok (fst (b s)) v -> P (snd (b s) v)) ->
  forall s, P s -> all_rets_ws P (seq_blocks blocks s).
Proof.
  induction blocks as [|b r IH]; intros Hb s Hs; cbn [seq_blocks all_rets_ws]; [exact Hs|].
  intros v Hv. apply IH; [intros b' Hb'; apply Hb; now right|]. apply Hb; [now left | exact Hs | exact Hv].
Qed.

(* bind is a congruence on the states the first program can return *)
Lemma bind_cong_ws (I : st -> Prop) p p' f f' :
  prog_eq_ws p p' -> all_rets_ws I p' -> (forall s, I s -> prog_eq_ws (f s) (f' s)) -> prog_eq_ws (bind p f) (bind p' f').
Proof.
  intros H HI Hf. induction H as [s|dr k1 k2 _ IH]; cbn [bind all_rets_ws] in *; [apply Hf, HI|].
  constructor. intros v Hv. apply IH; [exact Hv | apply HI, Hv].
Qed.

Lemma run_right_cong_ws (J : st -> Prop) step step' bs :
  (forall b s, In b bs -> J s -> prog_eq_ws (step b s) (step' b s) /\ all_rets_ws J (step' b s)) ->
  forall s, J s -> prog_eq_ws (run_right step bs s) (run_right step' bs s).
Proof.
  induction bs as [|b r IH]; intros H s Hs; cbn [run_right]; [apply prog_eq_ws_refl|].
  destruct (H b s (or_introl eq_refl) Hs) as [He Hr].
  apply (bind_cong_ws J); [exact He | exact Hr|]. intros s' Hs'. apply IH; [|exact Hs']. intros b' s'' Hin. apply H. now right.
Qed.

Lemma all_rets_ws_run_right (J : st -> Prop) step bs :
  (forall b s, In b bs -> J s -> all_rets_ws J (step b s)) -> forall s, J s -> all_rets_ws J (run_right step bs s).
Proof.
  induction bs as [|b r IH]; intros H s Hs; cbn [run_right all_rets_ws]; [exact Hs|].
  apply all_rets_ws_bind. eapply all_rets_ws_weaken; [|apply H; [now left | exact Hs]].
  intros s' Hs'. apply IH; [|exact Hs']. intros b' s'' Hin. apply H. now right.
Qed.

(* ================================================================ every block keeps the shapes (well-shaped answers) *)
Ltac st_red := cbn [W W0 V2 V1 V0 alpha prec tau tau0 phi2 phi1 phi0 eta2 eta1 eta0 gam Mu
                    set_W set_W0 set_V2 set_V1 set_V0 set_alpha set_prec set_tau set_tau0 set_phi2 set_phi1 set_phi0
                    set_eta2 set_eta1 set_eta0 set_gam set_Mu].
Ltac st_red_in H := cbn [W W0 V2 V1 V0 alpha prec tau tau0 phi2 phi1 phi0 eta2 eta1 eta0 gam Mu
                    set_W set_W0 set_V2 set_V1 set_V0 set_alpha set_prec set_tau set_tau0 set_phi2 set_phi1 set_phi0
                    set_eta2 set_eta1 set_eta0 set_gam set_Mu] in H.

Lemma shape2_set_nth (M : list (list Qc)) n D c r : shape2 M n D -> length r = D -> shape2 (set_nth c r M) n D.
Proof.
  intros [Hl Hr] Hlen. split; [now rewrite C08Sums.set_nth_length|].
  intros i Hi. unfold rnth. destruct (Nat.eq_dec c i) as [->|Hne].
  - rewrite C08Sums.nth_set_nth_eq by lia. exact Hlen.
  - rewrite C08Sums.nth_set_nth_neq by exact Hne. now apply Hr.
Qed.

Lemma nth_repeat_in {A} (y d : A) : forall n i, (i < n)%nat -> nth i (repeat y n) d = y.
Proof. induction n as [|n IH]; intros [|i] H; cbn [repeat nth]; try lia; [reflexivity | apply IH; lia]. Qed.

Lemma shape2_repeat (x : Qc) n D : shape2 (repeat (repeat x D) n) n D.
Proof.
  split; [apply repeat_length|]. intros i Hi. unfold rnth. rewrite nth_repeat_in by exact Hi. apply repeat_length.
Qed.

(* after __init__ every shape hypothesis of the block links holds, and the cache is empty *)
Theorem init_shapes g : shapes g (init_st g) /\ Mu (init_st g) = [].
Proof. unfold shapes, init_st; st_red. repeat split; try apply shape2_repeat; apply repeat_length. Qed.

(* ... and reset_model keeps them *)
Theorem reset_shapes g s : shapes g s -> shapes g (reset_st s) /\ Mu (reset_st s) = [].
Proof.
  unfold shapes, reset_st; st_red. intros (HW & HW0 & HV2 & HV1 & HV0 & H).
  pose proof (shape2_map (fun _ => 0) _ _ _ HW) as HW'. pose proof (shape2_map (fun _ => 0) _ _ _ HV2) as HV2'.
  pose proof (shape2_map (fun _ => 0) _ _ _ HV1) as HV1'. split; [|reflexivity]. rewrite !map_length. tauto.
Qed.

Section Keep.
Variable g : cfg.
Variable d : data.
Variable orc : oracle.

Ltac keep := unfold in_sweep, shapes in *; st_red;
  rewrite ?C08Sums.set_nth_length, ?C08Sums.scatter_add_length, ?map_length; tauto.

Lemma keep_block_W0 s c v : in_sweep g d s -> in_sweep g d (snd (block_W0 d s c) v).
Proof. intros Hs. unfold block_W0. destruct (positions _ _); cbn [snd]; keep. Qed.

Lemma keep_block_V0 s m v : in_sweep g d s -> in_sweep g d (snd (block_V0 d s m) v).
Proof. intros Hs. unfold block_V0. destruct (_ ++ _); cbn [snd]; keep. Qed.

Lemma keep_block_W s c v : in_sweep g d s -> val_ok (fst (block_W g d s c)) v -> in_sweep g d (snd (block_W g d s c) v).
Proof.
  intros Hs Hv. unfold block_W in *. destruct (positions _ _) as [|i0 cidx]; cbn [fst snd] in *.
  - destruct Hv as (l & -> & Hl). rewrite map_length in Hl. cbn [val_v].
    assert (HW : shape2 (set_nth c l (W s)) (c_ncl g) (c_D g)) by (apply shape2_set_nth; unfold in_sweep, shapes in Hs; [tauto | lia]).
    unfold in_sweep, shapes in *; st_red; tauto.
  - destruct Hv as [->|(l & -> & Hl)]; [exact Hs|]. unfold gramQ in Hl. rewrite C08Sums.tab_length in Hl.
    assert (HW : shape2 (set_nth c l (W s)) (c_ncl g) (c_D g)) by (apply shape2_set_nth; unfold in_sweep, shapes in Hs; [tauto | lia]).
    unfold in_sweep, shapes in *; st_red. rewrite C08Sums.scatter_add_length. tauto.
Qed.

Lemma keep_block_V2 s m v : in_sweep g d s -> val_ok (fst (block_V2 g d s m)) v -> in_sweep g d (snd (block_V2 g d s m) v).
Proof.
  intros Hs Hv. unfold block_V2, block_V in *. destruct (_ ++ _) as [|i0 idx]; cbn [fst snd] in *.
  - destruct Hv as (l & -> & Hl). unfold lam_V2 in Hl. rewrite map_length, C08Sums.tab_length in Hl. cbn [val_v].
    assert (HW : shape2 (set_nth m l (V2 s)) (c_ndd g) (c_D g)) by (apply shape2_set_nth; unfold in_sweep, shapes in Hs; [tauto | lia]).
    unfold in_sweep, shapes in *; st_red; tauto.
  - destruct Hv as [->|(l & -> & Hl)]; [exact Hs|]. unfold gramQ in Hl. rewrite C08Sums.tab_length in Hl.
    assert (HW : shape2 (set_nth m l (V2 s)) (c_ndd g) (c_D g)) by (apply shape2_set_nth; unfold in_sweep, shapes in Hs; [tauto | lia]).
    unfold in_sweep, shapes in *; st_red. rewrite C08Sums.scatter_add_length. tauto.
Qed.

Lemma keep_block_V1 s m v : in_sweep g d s -> val_ok (fst (block_V1 g d s m)) v -> in_sweep g d (snd (block_V1 g d s m) v).
Proof.
  intros Hs Hv. unfold block_V1, block_V in *. destruct (_ ++ _) as [|i0 idx]; cbn [fst snd] in *.
  - destruct Hv as (l & -> & Hl). unfold lam_V1 in Hl. rewrite map_length, C08Sums.tab_length in Hl. cbn [val_v].
    assert (HW : shape2 (set_nth m l (V1 s)) (c_ndd g) (c_D g)) by (apply shape2_set_nth; unfold in_sweep, shapes in Hs; [tauto | lia]).
    unfold in_sweep, shapes in *; st_red; tauto.
  - destruct Hv as [->|(l & -> & Hl)]; [exact Hs|]. unfold gramQ in Hl. rewrite C08Sums.tab_length in Hl.
    assert (HW : shape2 (set_nth m l (V1 s)) (c_ndd g) (c_D g)) by (apply shape2_set_nth; unfold in_sweep, shapes in Hs; [tauto | lia]).
    unfold in_sweep, shapes in *; st_red. rewrite C08Sums.scatter_add_length. tauto.
Qed.

Lemma keep_prog_gam ds : forall s, in_sweep g d s -> all_rets_ws (in_sweep g d) (prog_gam g d orc ds s).
Proof.
  induction ds as [|dd r IH]; intros s Hs; cbn [prog_gam all_rets_ws].
  - unfold in_sweep, shapes in *; st_red. rewrite map_length, cumprod_length. tauto.
  - intros v _. apply IH. keep.
Qed.

Lemma keep_reconstruct clip s : sweep_ready g d s -> in_sweep g d (reconstruct_Mu g d clip s).
Proof.
  intros [Hs HMu]. unfold reconstruct_Mu. destruct (nobs d) as [|n] eqn:En.
  - split; [exact Hs | lia].
  - unfold in_sweep, shapes in *; st_red. destruct clip; rewrite ?map_length; unfold reconstruct; rewrite C08Sums.tab_length; tauto.
Qed.

Lemma in_sweep_ready s : in_sweep g d s -> sweep_ready g d s.
Proof. intros [Hs HMu]. split; [exact Hs | lia]. Qed.

(* every step function keeps the shapes and the length of the cache, for well-shaped answers *)
Theorem step_keeps b s : in_sweep g d s -> all_rets_ws (in_sweep g d) (step_prog g d orc b s).
Proof.
  intros Hs. destruct b; cbn [step_prog].
  - cbn [all_rets_ws]. apply keep_reconstruct, in_sweep_ready, Hs.
  - cbn [all_rets_ws]. unfold alpha_step. destruct (nobs d) eqn:En; [exact Hs|]. keep.
  - apply all_rets_ws_seq_blocks; [|exact Hs]. intros b Hb s0 v Hs0 _. apply in_map_iff in Hb as (c & <- & _). now apply keep_block_W0.
  - apply all_rets_ws_seq_blocks; [|exact Hs]. intros b Hb s0 v Hs0 _. apply in_map_iff in Hb as (c & <- & _). now apply keep_block_V0.
  - apply all_rets_ws_seq_blocks; [|exact Hs]. intros b Hb s0 v Hs0 Hv. apply in_map_iff in Hb as (c & <- & _). now apply keep_block_W.
  - apply all_rets_ws_seq_blocks; [|exact Hs]. intros b Hb s0 v Hs0 Hv. apply in_map_iff in Hb as (c & <- & _). now apply keep_block_V2.
  - apply all_rets_ws_seq_blocks; [|exact Hs]. intros b Hb s0 v Hs0 Hv. apply in_map_iff in Hb as (c & <- & _). now apply keep_block_V1.
  - unfold prog_prec_W0. cbn [all_rets_ws]. intros v _. keep.
  - unfold prog_prec_V0. cbn [all_rets_ws]. intros v1 _ v2 _ v3 _ v4 _. unfold in_sweep, shapes in *; st_red. rewrite C08Sums.tab_length. tauto.
  - unfold prog_prec_obs. destruct (nobs d) eqn:En; cbn [all_rets_ws]; intros v _; keep.
  - unfold prog_prec_V2, prog_prec_Vk. cbn [all_rets_ws]. intros v1 _ v2 _ v3 _ v4 _.
    pose proof (tab2_shape (c_ndd g) (c_D g) (fun m k => clipC orc (n_occ d m) (vnth (rnth (val_m v2) m) k))) as Hsh. unfold tab2 in Hsh.
    unfold in_sweep, shapes in *; st_red. rewrite C08Sums.tab_length. tauto.
  - unfold prog_prec_V1, prog_prec_Vk. cbn [all_rets_ws]. intros v1 _ v2 _ v3 _ v4 _.
    pose proof (tab2_shape (c_ndd g) (c_D g) (fun m k => clipC orc (n_occ d m) (vnth (rnth (val_m v2) m) k))) as Hsh. unfold tab2 in Hsh.
    unfold in_sweep, shapes in *; st_red. rewrite C08Sums.tab_length. tauto.
  - unfold prog_prec_W. now apply keep_prog_gam.
Qed.
End Keep.

(* ================================================================ the closed whole-sweep statement *)
(* what mcmc_step's thirteen calls run: the translated methods, the option flags as the object holds them *)
Definition src_run (fake_intercept local_shrinkage mult_gamma_proc : bool) (g : cfg) (d : data) (orc : oracle)
    (b : blk) (s : st) : gprog st :=
  match b with
  | BReconstruct => src_reconstruct_Mu g d false s
  | BAlpha => src_alpha_step g d fake_intercept s
  | BW0 => src_W0_step g d s
  | BV0 => src_V0_step g d s
  | BW => src_W_step g d s
  | BV2 => src_V2_step g d s
  | BV1 => src_V1_step g d s
  | BPrecW0 => src_prec_W0_step g d orc s
  | BPrecV0 => src_prec_V0_step g d orc local_shrinkage s
  | BPrecObs => src_prec_obs_step g d orc s
  | BPrecV2 => src_prec_V2_step g d orc local_shrinkage s
  | BPrecV1 => src_prec_V1_step g d orc local_shrinkage s
  | BPrecW => src_prec_W_step g d orc mult_gamma_proc s
  end.

Lemma shape2_len M n D : shape2 M n D -> length M = n.
Proof. now intros [H _]. Qed.

(* every block link of the first part, its shape hypotheses discharged by [in_sweep] *)
Theorem src_block_is_model g d orc b s : data_ok d -> (0 < c_D g)%nat -> shapes g s -> (b = BReconstruct \/ length (Mu s) = nobs d) ->
  prog_eq (to_prog (src_run true true true g d orc b s)) (step_prog g d orc b s).
Proof.
  intros (Hd1 & Hd2 & Hd3) HD (HW & HW0 & HV2 & HV1 & HV0 & Htau & Hp2 & Hp1 & Hp0 & He2 & He1 & Hgam) HMu.
  destruct b; cbn [src_run].
  - rewrite src_reconstruct_Mu_is_model by assumption. apply prog_eq_refl.
  - rewrite src_alpha_step_is_model. apply prog_eq_refl.
  - now apply src_W0_step_is_model.
  - now apply src_V0_step_is_model.
  - apply src_W_step_is_model; [eapply shape2_len; eassumption | assumption..].
  - apply src_V2_step_is_model; [eapply shape2_len; eassumption | assumption..].
  - apply src_V1_step_is_model; [eapply shape2_len; eassumption | assumption..].
  - apply src_prec_W0_step_is_model.
  - now apply src_prec_V0_step_is_model.
  - apply src_prec_obs_step_is_model. destruct HMu as [HMu|HMu]; [discriminate | exact HMu].
  - now apply src_prec_V2_step_is_model.
  - now apply src_prec_V1_step_is_model.
  - now apply src_prec_W_step_is_model.
Qed.

Definition step_rest : list blk := [BAlpha; BW0; BV0; BW; BV2; BV1; BPrecW0; BPrecV0; BPrecObs; BPrecV2; BPrecV1; BPrecW].
Lemma step_order_split : step_order = BReconstruct :: step_rest.
Proof. reflexivity. Qed.

Lemma mcmc_step_right g d orc s : prog_eq (mcmc_step g d orc s) (run_right (step_prog g d orc) step_order s).
Proof. apply (run_blocks_with_right (step_prog g d orc)). Qed.

(* a sweep started with well-shaped arrays and a cache no longer than the data ends with well-shaped arrays and a cache of
   the data's length, for well-shaped answers *)
Theorem sweep_keeps g d orc s : sweep_ready g d s -> all_rets_ws (in_sweep g d) (mcmc_step g d orc s).
Proof.
  intros Hs. eapply all_rets_ws_eq; [apply prog_eq_ws_of_eq, mcmc_step_right|].
  rewrite step_order_split. cbn [run_right step_prog bind].
  apply all_rets_ws_run_right; [|now apply keep_reconstruct]. intros b s' _ Hs'. now apply step_keeps.
Qed.

(* the translated mcmc_step running the translated block methods is the model's sweep, on well-shaped answers *)
Theorem src_sweep_is_model g d orc n s : data_ok d -> (0 < c_D g)%nat -> sweep_ready g d s ->
  prog_eq_ws (to_prog (src_mcmc_step (src_run true true true g d orc) n s)) (mcmc_step g d orc s).
Proof.
  intros Hd HD [Hs HMu].
  eapply prog_eq_ws_trans; [apply prog_eq_ws_of_eq, src_mcmc_step_order|].
  eapply prog_eq_ws_trans; [apply prog_eq_ws_of_eq, run_blocks_with_right|].
  eapply prog_eq_ws_trans; [|apply prog_eq_ws_sym, prog_eq_ws_of_eq, mcmc_step_right].
  rewrite step_order_split. cbn [run_right].
  apply (bind_cong_ws (in_sweep g d)).
  - apply prog_eq_ws_of_eq, src_block_is_model; auto.
  - cbn [step_prog all_rets_ws]. apply keep_reconstruct. now split.
  - intros s' Hs'. apply (run_right_cong_ws (in_sweep g d)); [|exact Hs']. intros b s'' _ [Hs'' HMu'']. split.
    + apply prog_eq_ws_of_eq, src_block_is_model; auto.
    + apply step_keeps. now split.
Qed.

(* ---- reachable states *)
Lemma data_ok_empty : data_ok data_empty.
Proof. repeat split. Qed.

Lemma data_ok_snoc d y cl dd1 dd2 : data_ok d -> data_ok (data_snoc d y cl dd1 dd2).
Proof.
  unfold data_ok, nobs, data_snoc. cbn [d_y d_cl d_dd1 d_dd2]. rewrite !app_length. cbn [length]. lia.
Qed.

Lemma nobs_snoc d y cl dd1 dd2 : nobs (data_snoc d y cl dd1 dd2) = S (nobs d).
Proof. unfold nobs, data_snoc. cbn [d_y]. rewrite app_length. cbn [length]. lia. Qed.

Theorem reach_ready g orc d s : reach g orc d s -> sweep_ready g d s /\ data_ok d.
Proof.
  induction 1 as [|d s y cl dd1 dd2 _ [[Hs HMu] Hd]|d s vals s' _ [Hs Hd] Hok Hrun|d s _ [[Hs HMu] Hd]].
  - destruct (init_shapes g) as [Hs HMu]. split; [split; [exact Hs | rewrite HMu; cbn [length]; lia] | apply data_ok_empty].
  - split; [split; [exact Hs | rewrite nobs_snoc; lia] | now apply data_ok_snoc].
  - split; [|exact Hd]. apply in_sweep_ready. exact (all_rets_ws_run _ _ (sweep_keeps g d orc s Hs) vals s' Hok Hrun).
  - destruct (reset_shapes g s Hs) as [Hs' HMu']. split; [split; [exact Hs' | rewrite HMu'; cbn [length]; lia] | exact Hd].
Qed.

Theorem src_sweep_reachable g orc d s n : reach g orc d s -> (0 < c_D g)%nat ->
  prog_eq_ws (to_prog (src_mcmc_step (src_run true true true g d orc) n s)) (mcmc_step g d orc s).
Proof. intros H HD. destruct (reach_ready g orc d s H) as [Hs Hd]. now apply src_sweep_is_model. Qed.

(* ---- the composite from the translated constructor and translated _update calls *)
Fixpoint src_updates (o : pyobs) (rows : list (Qc * Z * Z * Z)) : result pyobs :=
  match rows with
  | [] => Ok o
  | (y, cl, dd1, dd2) :: r => dor o' <- src_update o y cl dd1 dd2; src_updates o' r
  end.
Fixpoint data_rows (d : data) (rows : list (Qc * Z * Z * Z)) : data :=
  match rows with
  | [] => d
  | (y, cl, dd1, dd2) :: r => data_rows (data_snoc d y cl dd1 dd2) r
  end.

Lemma src_updates_rep rows : forall o d, obs_rep o d -> data_ok d ->
  exists o', src_updates o rows = Ok o' /\ obs_rep o' (data_rows d rows) /\ data_ok (data_rows d rows).
Proof.
  induction rows as [|[[[y cl] dd1] dd2] r IH]; intros o d Ho Hd; cbn [src_updates data_rows]; [now exists o|].
  destruct Hd as (H1 & H2 & H3). destruct (src_update_is_model o d y cl dd1 dd2 Ho H1 H2 H3) as (o1 & -> & Ho1).
  cbn [res_bind]. apply IH; [exact Ho1 | apply data_ok_snoc; now repeat split].
Qed.

Lemma reach_rows g orc rows : forall d s, reach g orc d s -> reach g orc (data_rows d rows) s.
Proof.
  induction rows as [|[[[y cl] dd1] dd2] r IH]; intros d s H; cbn [data_rows]; [exact H|]. apply IH. now constructor.
Qed.

Lemma cfg_of_init D ndd ncl ic fi ie mgp ls a0 b0 mn mx :
  cfg_of (init_obj D ndd ncl ic fi ie mgp ls a0 b0 mn mx)
  = {| c_D := D; c_ndd := ndd; c_ncl := ncl; c_a0 := a0; c_b0 := b0; c_minMu := mn; c_maxMu := mx |}.
Proof. unfold cfg_of, init_obj. cbn [pi_D pi_ndd pi_ncl pi_a0 pi_b0 pi_minMu pi_maxMu]. now rewrite !Nat2Z.id. Qed.

(* the object built by the translated __init__ (default options), fed by any number of translated _update calls: the translated
   mcmc_step is the model's sweep on the data the store then represents, for every well-shaped answer stream *)
Theorem src_sweep_from_init self0 D ndd ncl ic ie a0 b0 mn mx rows orc n : (0 < D)%nat ->
  exists o o', src_impl_init self0 (Z.of_nat D) (Z.of_nat ndd) (Z.of_nat ncl) ic true ie true true a0 b0 mn mx = Ok o /\
    src_updates (pi_obs o) rows = Ok o' /\
    exists d, obs_rep o' d /\ reach (cfg_of o) orc d (pi_st o) /\
      prog_eq_ws (to_prog (src_mcmc_step (src_run (pi_fake_intercept o) (pi_local_shrinkage o) (pi_mult_gamma_proc o) (cfg_of o) d orc) n (pi_st o)))
                 (mcmc_step (cfg_of o) d orc (pi_st o)).
Proof.
  intros HD. eexists. rewrite src_impl_init_is_model.
  destruct (src_updates_rep rows obs_empty data_empty obs_rep_empty data_ok_empty) as (o' & Hu & Hrep & Hd).
  exists o'. split; [reflexivity|]. split; [exact Hu|]. exists (data_rows data_empty rows). split; [exact Hrep|].
  rewrite cfg_of_init. cbn [pi_st pi_fake_intercept pi_local_shrinkage pi_mult_gamma_proc init_obj].
  assert (Hr : reach {| c_D := D; c_ndd := ndd; c_ncl := ncl; c_a0 := a0; c_b0 := b0; c_minMu := mn; c_maxMu := mx |} orc
                 (data_rows data_empty rows)
                 (init_st {| c_D := D; c_ndd := ndd; c_ncl := ncl; c_a0 := a0; c_b0 := b0; c_minMu := mn; c_maxMu := mx |}))
    by (apply reach_rows; constructor).
  split; [exact Hr|]. apply src_sweep_reachable; [exact Hr | exact HD].
Qed.

(* ================================================================ the MVN draw node becomes the translated function *)
Lemma gplug_cong q q' k k' : geq q q' -> (forall v, prog_eq (k v) (k' v)) -> prog_eq (gplug q k) (gplug q' k').
Proof. intros H Hk. induction H as [x|dr k1 k2 _ IH]; cbn [gplug]; [apply Hk|]. constructor. intros a. apply IH. Qed.

Lemma expand_mvn_cong f f' p q : (forall Q b, geq (f Q b) (f' Q b)) -> prog_eq p q ->
  prog_eq (expand_mvn f p) (expand_mvn f' q).
Proof.
  intros Hf H. induction H as [s|dr k1 k2 _ IH]; cbn [expand_mvn]; [apply prog_eq_refl|].
  destruct dr; try (constructor; intros v; apply IH). apply gplug_cong; [apply Hf | intros v; apply IH].
Qed.

Lemma mvn_call_cong p q : geq p q -> geq (mvn_call p) (mvn_call q).
Proof. intros H. unfold mvn_call. apply gbind_cong; [exact H | intros r; apply geq_refl]. Qed.

(* how a block calls it: sample_mvn_from_precision(Q, mu_part=b), every other argument at its default *)
Definition src_mvn_call chol lin_solve (Q : list (list Qc)) (b : list Qc) : gprog val :=
  mvn_call (src_sample_mvn_from_precision chol lin_solve Q None (Some b) false None).

(* equal programs stay equal when every DMvn node is replaced by the translated function on one side and by the model's
   mvn_prog on the other: the Cholesky call, the standard-normal draw node and the two solves take the node's place *)
Theorem src_mvn_node chol lin_solve p q : prog_eq p q ->
  prog_eq (expand_mvn (src_mvn_call chol lin_solve) p) (expand_mvn (fun Q b => mvn_call (mvn_prog chol Q b)) q).
Proof. apply expand_mvn_cong. intros Q b. apply mvn_call_cong, src_sample_mvn_is_model. Qed.

(* ... on well-shaped answers: the expanded node only gives well-shaped answers back when chol keeps the size of Q *)
Fixpoint grets_ws (P : val -> Prop) (q : gprog val) : Prop :=
  match q with GRet v => P v | GDraw dr k => forall a, val_ok dr a -> grets_ws P (k a) end.

Lemma gplug_cong_ws (P : val -> Prop) q q' k k' : geq q q' -> grets_ws P q' ->
  (forall v, P v -> prog_eq_ws (k v) (k' v)) -> prog_eq_ws (gplug q k) (gplug q' k').
Proof.
  intros H HP Hk. induction H as [x|dr k1 k2 _ IH]; cbn [gplug grets_ws] in *; [apply Hk, HP|].
  constructor. intros a Ha. apply IH, HP, Ha.
Qed.

Lemma expand_mvn_cong_ws f f' p q : (forall Q b, geq (f Q b) (f' Q b)) -> (forall Q b, grets_ws (val_ok (DMvn Q b)) (f' Q b)) ->
  prog_eq_ws p q -> prog_eq_ws (expand_mvn f p) (expand_mvn f' q).
Proof.
  intros Hf Hok H. induction H as [s|dr k1 k2 Hk IH]; cbn [expand_mvn]; [apply prog_eq_ws_refl|].
  destruct dr; try (constructor; intros v Hv; apply IH, Hv).
  apply (gplug_cong_ws (val_ok (DMvn Q b))); [apply Hf | apply Hok | intros v Hv; apply IH, Hv].
Qed.

Lemma sample_mvn_length D L z b : length (sample_mvn D L z b) = D.
Proof. unfold sample_mvn, vadd. apply C08Sums.tab_length. Qed.

Lemma mvn_prog_answers chol Q b : (forall Q L, chol Q = Ok L -> length L = length Q) ->
  grets_ws (val_ok (DMvn Q b)) (mvn_call (mvn_prog chol Q b)).
Proof.
  intros Hc. unfold mvn_call, mvn_prog. destruct (chol Q) as [L|t] eqn:E; cbn [gbind grets_ws mvn_answer val_ok].
  - intros a _. right. eexists. split; [reflexivity|]. rewrite sample_mvn_length. now apply Hc.
  - now left.
Qed.

(* the whole sweep with the MVN draws expanded: from a reachable state the translated mcmc_step, running the translated block
   methods and the translated sample_mvn_from_precision, is the model's sweep with the model's mvn_prog at every MVN node *)
Theorem src_sweep_mvn chol lin_solve g orc d s n : (forall Q L, chol Q = Ok L -> length L = length Q) ->
  reach g orc d s -> (0 < c_D g)%nat ->
  prog_eq_ws (expand_mvn (src_mvn_call chol lin_solve) (to_prog (src_mcmc_step (src_run true true true g d orc) n s)))
             (expand_mvn (fun Q b => mvn_call (mvn_prog chol Q b)) (mcmc_step g d orc s)).
Proof.
  intros Hc Hr HD. apply expand_mvn_cong_ws.
  - intros Q b. apply mvn_call_cong, src_sample_mvn_is_model.
  - intros Q b. now apply mvn_prog_answers.
  - now apply src_sweep_reachable.
Qed.

(* the law of the model's mvn_prog under np.linalg.cholesky's contract (C08_mvn_mean_cov at D = the size of Q) *)
Theorem mvn_prog_law chol Q L b : chol_contract chol -> chol Q = Ok L -> length b = length Q ->
  let D := length Q in let m := mvn_mean D L b in
  mvn_prog chol Q b = GDraw (DNormalVec (repeat 1 D)) (fun v => GRet (Ok (sample_mvn D L (val_v v) b))) /\
  (forall j, (j < D)%nat -> sumn D (fun k => vnth (rnth Q j) k * vnth m k) = vnth b j) /\
  (forall z j, (j < D)%nat -> sumn D (fun k => vnth (rnth L k) j * (vnth (sample_mvn D L z b) k - vnth m k)) = vnth z j).
Proof.
  intros Hc E Hb. destruct (Hc Q L E) as (HL & Hlow & Hdiag & HQ). cbv zeta. split; [|split].
  - unfold mvn_prog. rewrite E, HL. reflexivity.
  - intros j Hj. now apply (C08Mvn.mvn_mean_solves (length Q) L Hlow Hdiag HL Q HQ b j).
  - intros z j Hj. now apply (C08Mvn.mvn_sample_law (length Q) L Hlow Hdiag z b j).
Qed.

(* ================================================================ the wrapper class SparseDrugCombo *)
(* __init__: the experiment space's sizes become n_clines / n_drugdoses, the embedding dimension n_dims, every option and
   hyper-parameter reaches the parameter of the same name of the translated legacy constructor (run on a new instance) *)
Theorem src_sdc_init_is_model self0 nS nT D fi ie ls a0 b0 mn mx rng pint ilt ic :
  src_sdc_init self0 (Z.of_nat nS) (Z.of_nat nT) (Z.of_nat D) fi ie true ls a0 b0 mn mx rng pint ilt ic
  = Ok (sdc_init_obj nS nT D fi ie true ls a0 b0 mn mx rng pint ilt ic).
Proof.
  cbv beta delta [src_sdc_init]. cbv beta iota zeta delta [sdc_n_dims sdc_n_treatments sdc_n_samples sdc_rng sdc_predict_interactions
    sdc_interaction_log_transform sdc_wrapped set_sdc_n_dims set_sdc_n_treatments set_sdc_n_samples set_sdc_rng
    set_sdc_predict_interactions set_sdc_interaction_log_transform set_sdc_wrapped].
  rewrite src_impl_init_is_model. reflexivity.
Qed.

(* get_model_state exports exactly the model's [export]: W, W0, V2, V1, V0, alpha and the observation precision *)
Theorem src_sdc_get_model_state_is_model o : src_sdc_get_model_state o = Ok (export (pi_st (sdc_wrapped o))).
Proof. reflexivity. Qed.

Theorem src_sdc_n_obs_is_model o d : obs_rep (pi_obs (sdc_wrapped o)) d -> src_sdc_n_obs o = Ok (Z.of_nat (nobs d)).
Proof. intros (Hy & _). unfold src_sdc_n_obs, src_impl_n_obs, nobs. cbn [res_bind]. now rewrite Hy. Qed.

(* reset_model resets the wrapped object's state (the translated legacy reset_model) and nothing else *)
Theorem src_sdc_reset_is_model o :
  src_sdc_reset_model o = Ok (sdc_with_state o (reset_st (pi_st (sdc_wrapped o)))).
Proof. unfold src_sdc_reset_model. rewrite src_impl_reset_is_model. reflexivity. Qed.

Theorem src_sdc_set_rng_is_model o r : src_sdc_set_rng o r = Ok (set_sdc_rng o (Some r)) /\ src_sdc_rng o = Ok (sdc_rng o).
Proof. split; reflexivity. Qed.

(* step is one call of the wrapped object's mcmc_step: the sweep's program, the wrapper then holding the new state *)
Theorem src_sdc_step_is_model run o :
  geq (src_sdc_step run o)
      (gbind (src_mcmc_step run (pi_steps (sdc_wrapped o)) (pi_st (sdc_wrapped o))) (fun s => GRet (sdc_with_state o s))).
Proof. unfold src_sdc_step. apply gbind_ret. Qed.

(* ... hence, read on the wrapped object's state, the model's sweep (from every reachable state, well-shaped answers) *)
Theorem src_sdc_step_sweep g orc d o : reach g orc d (pi_st (sdc_wrapped o)) -> (0 < c_D g)%nat ->
  prog_eq_ws (to_prog (gbind (src_sdc_step (src_run true true true g d orc) o) (fun o' => GRet (pi_st (sdc_wrapped o')))))
             (mcmc_step g d orc (pi_st (sdc_wrapped o))).
Proof.
  intros Hr HD. eapply prog_eq_ws_trans; [|apply (src_sweep_reachable g orc d _ (pi_steps (sdc_wrapped o)) Hr HD)].
  apply prog_eq_ws_of_eq, to_prog_geq.
  eapply geq_trans; [apply gbind_cong; [apply src_sdc_step_is_model | intros x; apply geq_refl]|].
  eapply geq_trans; [apply gbind_assoc|]. cbn [gbind]. apply gbind_ret.
Qed.
