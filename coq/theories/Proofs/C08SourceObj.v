(* C08, source-translation links, second part:
     batchie.fast_mvn.sample_mvn_from_precision            (Generated/SrcMvn.v)      = Model/Mvn.v
     LegacySparseDrugComboImpl.__init__ / reset_model      (Generated/SrcGibbsObj.v) = the initial / reset state, whose
       shapes are the shape hypotheses of the block links of Proofs/C08Source.v; every block preserves them for
       well-shaped answers, hence the closed whole-sweep statement
     SparseDrugCombo.get_model_state / step / n_obs / reset_model / set_rng (wrappers). *)
From Coq Require Import ZArith List QArith Qcanon Lia ZifyBool Arith Bool.
From Batchie Require Import Lib.Sexp Lib.PyRt Lib.Num Model.Gibbs Model.Mvn Generated.SrcGibbs Generated.SrcMvn Generated.SrcGibbsObj
  Proofs.C08Sums Proofs.C08Cache Proofs.C08Source.
Import ListNotations.
Open Scope Qc_scope.

(* ================================================================ sample_mvn_from_precision *)
Lemma vnth_map_rows (f : list Qc -> Qc) (M : list (list Qc)) k : f [] = 0 -> vnth (map f M) k = f (rnth M k).
Proof. intros H. unfold vnth, rnth. rewrite <- H at 1. apply map_nth. Qed.

(* entry (j, k) of the transpose is entry (k, j) - also outside the matrix, where both are 0 *)
Lemma transpose_entry n (M : list (list Qc)) j k : (j < n)%nat ->
  vnth (rnth (np_transpose n M) j) k = vnth (rnth M k) j.
Proof.
  intros Hj. unfold np_transpose. rewrite C08Sums.rnth_tab by exact Hj.
  apply (vnth_map_rows (fun r => vnth r j)). apply C08Sums.vnth_nil.
Qed.

Lemma solve_upper_go_is_back_go (L : list (list Qc)) z n : forall j acc, (j <= n)%nat ->
  solve_upper_go (np_transpose n L) z n j acc = back_go n L z j acc.
Proof.
  induction j as [|j IH]; intros acc Hj; cbn [solve_upper_go back_go]; [reflexivity|].
  rewrite IH by lia. f_equal. f_equal. rewrite transpose_entry by lia. f_equal. f_equal.
  apply sumn_ext. intros t _. now rewrite transpose_entry by lia.
Qed.

Lemma transpose_length n (M : list (list Qc)) : length (np_transpose n M) = n.
Proof. apply C08Sums.tab_length. Qed.

(* solve_triangular(L.T, z, lower=False) is the model's back substitution with L *)
Lemma solve_upper_transpose (L : list (list Qc)) z :
  solve_upper (np_transpose_sq L) z = back_subst (length L) L z.
Proof.
  unfold solve_upper, np_transpose_sq, back_subst. rewrite transpose_length. now apply solve_upper_go_is_back_go.
Qed.

Lemma back_go_length D L z : forall j acc, length (back_go D L z j acc) = (j + length acc)%nat.
Proof. induction j as [|j IH]; intros acc; cbn [back_go]; [reflexivity|]. rewrite IH. cbn [length]. lia. Qed.

Lemma back_subst_length D L z : length (back_subst D L z) = D.
Proof. unfold back_subst. rewrite back_go_length. cbn [length]. lia. Qed.

(* the forward substitution reads row j only up to the diagonal: rows may be cut / padded to n entries *)
Lemma fwd_go_trunc n : forall rows b acc, (length acc + length rows <= n)%nat ->
  fwd_go (map (fun r => tab n (vnth r)) rows) b acc = fwd_go rows b acc.
Proof.
  induction rows as [|r rows IH]; intros b acc H; cbn [map fwd_go]; [reflexivity|].
  destruct b as [|bj b]; [reflexivity|]. cbn [length] in H. rewrite IH by (rewrite app_length; cbn [length]; lia).
  f_equal. f_equal. f_equal. rewrite C08Sums.vnth_tab by lia. f_equal. f_equal.
  unfold vdot. apply sumn_ext. intros k Hk. now rewrite C08Sums.vnth_tab by lia.
Qed.

Lemma rows_as_tab (M : list (list Qc)) : M = tab (length M) (rnth M).
Proof.
  apply (nth_ext _ _ [] []); [now rewrite C08Sums.tab_length|].
  intros i Hi. now rewrite C08Sums.nth_tab by exact Hi.
Qed.

Lemma transpose_twice (L : list (list Qc)) :
  np_transpose_sq (np_transpose_sq L) = map (fun r => tab (length L) (vnth r)) L.
Proof.
  unfold np_transpose_sq. rewrite transpose_length. remember (length L) as n eqn:En.
  transitivity (map (fun r => tab n (vnth r)) (tab n (rnth L))); [|f_equal; rewrite En; symmetry; apply rows_as_tab].
  unfold np_transpose at 1. unfold tab at 3. rewrite map_map. apply map_ext_in. intros j Hj. apply in_seq in Hj.
  rewrite (map_as_tab_gen [] (fun r => vnth r j)), transpose_length. apply tab_ext. intros k Hk.
  change (nth k (np_transpose n L) []) with (rnth (np_transpose n L) k). now apply transpose_entry.
Qed.

(* cho_solve((L.T, False), b) is the model's mean Q^-1 b computed from L *)
Lemma cho_solve_transpose (L : list (list Qc)) b :
  cho_solve_upper (np_transpose_sq L) b = mvn_mean (length L) L b.
Proof.
  unfold cho_solve_upper, mvn_mean. rewrite solve_upper_transpose. f_equal.
  rewrite transpose_twice. unfold fwd_subst. apply fwd_go_trunc. cbn [length]. lia.
Qed.

Lemma vadd_is_np_vadd D a b : length a = D -> length b = D -> np_vadd a b = vadd D a b.
Proof.
  intros Ha Hb. unfold np_vadd, vadd. rewrite (zipw_nth Qcplus 0 0) by congruence. now rewrite Ha.
Qed.

Lemma mvn_mean_length D L b : length (mvn_mean D L b) = D.
Proof. apply back_subst_length. Qed.

(* everything after the factorisation, for the factor L: the draw node, the two solves, the addition *)
Lemma src_mvn_tail lin_solve (Q L : list (list Qc)) (mu mu_part : option (list Qc)) :
  geq (dmv r__3 <- mp_draw_std (Z.of_nat (length Q));
       let z' : list qnum := r__3 in
       dmv result' <- (if false then
           let result' : list qnum := lin_solve (np_transpose_sq L) z' in mp_ret result'
         else
           let result' : list qnum := solve_upper (np_transpose_sq L) z' in mp_ret result');
       dmv result' <- (if is_some mu_part then
           dmv u__4 <- mp_unwrap mu_part;
           let result' := np_vadd result' (cho_solve_upper (np_transpose_sq L) u__4) in mp_ret result'
         else
           dmv result' <- (if is_some mu then
               dmv u__5 <- mp_unwrap mu; let result' := np_vadd result' u__5 in mp_ret result'
             else mp_ret result');
           mp_ret result');
       mp_ret result')
      (GDraw (DNormalVec (repeat 1 (length Q))) (fun v =>
        let x := back_subst (length L) L (val_v v) in
        GRet (Ok (match mu_part, mu with
                  | Some b, _ => vadd (length L) x (mvn_mean (length L) L b)
                  | None, Some m => np_vadd x m
                  | None, None => x
                  end)))).
Proof.
  unfold mp_draw_std, mp_bind at 1. cbn [gbind]. rewrite Nat2Z.id. constructor. intros v. cbv zeta.
  rewrite solve_upper_transpose.
  destruct mu_part as [b|]; [|destruct mu as [m|]]; cbn [is_some mp_unwrap mp_bind mp_ret gbind];
    rewrite ?cho_solve_transpose, ?(vadd_is_np_vadd (length L)) by (apply back_subst_length || apply mvn_mean_length);
    apply geq_refl.
Qed.

(* the whole function, for every argument combination (chol: any function; lin_solve, reached only for a masked array:
   any function; the generator argument does not matter to the program of draws) *)
Theorem src_sample_mvn_general chol lin_solve Q mu mu_part chol_factor rng :
  geq (src_sample_mvn_from_precision chol lin_solve Q mu mu_part chol_factor rng) (mvn_general chol Q mu mu_part chol_factor).
Proof.
  unfold src_sample_mvn_from_precision, mvn_general. cbv zeta.
  destruct chol_factor; cbn [negb].
  - unfold mp_bind at 1. unfold mp_ret at 1. cbn [gbind]. apply (src_mvn_tail lin_solve).
  - unfold mp_bind at 1. unfold mp_bind at 1. unfold mp_lift. cbn [gbind]. destruct (chol Q) as [L|t]; cbn [gbind mp_ret].
    + apply (src_mvn_tail lin_solve).
    + apply geq_refl.
Qed.

(* ... as the Gibbs blocks call it: sample_mvn_from_precision(Q, mu_part=b) with the defaults mu=None, chol_factor=False, rng=None *)
Theorem src_sample_mvn_is_model chol lin_solve Q b rng :
  geq (src_sample_mvn_from_precision chol lin_solve Q None (Some b) false rng) (mvn_prog chol Q b).
Proof.
  eapply geq_trans; [apply src_sample_mvn_general|]. unfold mvn_general, mvn_prog, sample_mvn.
  destruct (chol Q); apply geq_refl.
Qed.

(* ================================================================ __init__ and reset_model *)
Lemma map_repeat' {A B} (f : A -> B) x n : map f (repeat x n) = repeat (f x) n.
Proof. induction n as [|n IH]; cbn [repeat map]; [reflexivity | now rewrite IH]. Qed.

Lemma np_zeros1_nat n : np_zeros1 (Z.of_nat n) = Ok (repeat 0 n).
Proof. unfold np_zeros1. destruct (Z.ltb_spec (Z.of_nat n) 0); [lia|]. now rewrite Nat2Z.id. Qed.
Lemma np_ones1_nat n : np_ones1 (Z.of_nat n) = Ok (repeat 1 n).
Proof. unfold np_ones1. destruct (Z.ltb_spec (Z.of_nat n) 0); [lia|]. now rewrite Nat2Z.id. Qed.
Lemma np_zeros2_nat a b : np_zeros2 (Z.of_nat a, Z.of_nat b) = Ok (repeat (repeat 0 b) a).
Proof.
  unfold np_zeros2. cbn [fst snd]. destruct (Z.ltb_spec (Z.of_nat a) 0); [lia|]. destruct (Z.ltb_spec (Z.of_nat b) 0); [lia|].
  cbn [orb]. now rewrite !Nat2Z.id.
Qed.
Lemma q100_1 : q100 * 1 = q100.
Proof. ring. Qed.

(* records: projections of setters.  (The translated constructor is a chain of some forty rebindings of `self`; it is
   opened with cbv, never with unfold / zeta alone - the kernel compares let-expanded terms as trees.) *)
Ltac obj_red := cbv beta iota zeta delta [W W0 V2 V1 V0 alpha prec tau tau0 phi2 phi1 phi0 eta2 eta1 eta0 gam Mu set_W set_W0 set_V2 set_V1 set_V0 set_alpha set_prec set_tau set_tau0 set_phi2 set_phi1 set_phi0 set_eta2 set_eta1 set_eta0 set_gam set_Mu o_y o_cl o_dd1 o_dd2 o_cidx o_1idx o_2idx set_o_y set_o_cl set_o_dd1 set_o_dd2 set_o_cidx set_o_1idx set_o_2idx pi_D pi_ndd pi_ncl pi_minMu pi_maxMu pi_a0 pi_b0 pi_individual_eff pi_intercept pi_fake_intercept pi_local_shrinkage pi_mult_gamma_proc pi_steps pi_obs pi_st set_pi_D set_pi_ndd set_pi_ncl set_pi_minMu set_pi_maxMu set_pi_a0 set_pi_b0 set_pi_individual_eff set_pi_intercept set_pi_fake_intercept set_pi_local_shrinkage set_pi_mult_gamma_proc set_pi_steps set_pi_obs set_pi_st pi_set_W pi_set_W0 pi_set_V2 pi_set_V1 pi_set_V0 pi_set_alpha pi_set_prec pi_set_tau pi_set_tau0 pi_set_phi2 pi_set_phi1 pi_set_phi0 pi_set_eta2 pi_set_eta1 pi_set_eta0 pi_set_gam pi_set_Mu pi_set_o_y pi_set_o_cl pi_set_o_dd1 pi_set_o_dd2 pi_set_o_cidx pi_set_o_1idx pi_set_o_2idx].

(* the constructor, for any previous content of the object (every attribute is assigned; with mult_gamma_proc = False
   `gam` would not be) *)
Theorem src_impl_init_is_model self0 D ndd ncl ic fi ie ls a0 b0 mn mx :
  src_impl_init self0 (Z.of_nat D) (Z.of_nat ndd) (Z.of_nat ncl) ic fi ie true ls a0 b0 mn mx
  = Ok (init_obj D ndd ncl ic fi ie true ls a0 b0 mn mx).
Proof.
  cbv beta delta [src_impl_init]. obj_red.
  rewrite !np_zeros2_nat. cbn [res_bind]. rewrite !np_zeros1_nat. cbn [res_bind]. rewrite !np_ones1_nat. cbn [res_bind].
  obj_red.
  change (np_zeros1 0%Z) with (np_zeros1 (Z.of_nat 0)). rewrite np_zeros1_nat. cbn [res_bind repeat].
  unfold init_obj, init_st, obs_empty. obj_red. unfold np_ones_like2, np_ones_like1, np_smul, q1. rewrite !map_repeat', !q100_1.
  reflexivity.
Qed.

(* a negative size: numpy refuses the allocation (ValueError), no object is built *)
Theorem src_impl_init_negative self0 nd ndd ncl ic fi ie mgp ls a0 b0 mn mx :
  (nd < 0 \/ ndd < 0 \/ ncl < 0)%Z -> src_impl_init self0 nd ndd ncl ic fi ie mgp ls a0 b0 mn mx = Err 7%Z.
Proof.
  intros H. cbv beta delta [src_impl_init]. obj_red. unfold np_zeros2, np_zeros1. cbn [fst snd].
  destruct (Z.ltb_spec ndd 0); cbn [orb res_bind]; [reflexivity|].
  destruct (Z.ltb_spec nd 0); cbn [orb res_bind]; [reflexivity|].
  destruct (Z.ltb_spec ncl 0); cbn [orb res_bind]; [reflexivity|]. lia.
Qed.

Lemma mul0_vec (l : list Qc) : np_vmuls l q0 = map (fun _ => 0) l.
Proof. unfold np_vmuls, q0. apply map_ext. intros y. ring. Qed.
Lemma mul0_mat (M : list (list Qc)) : np_mmuls M q0 = map (map (fun _ => 0)) M.
Proof. unfold np_mmuls. apply map_ext. intros r. apply mul0_vec. Qed.

(* reset_model: exactly the five embeddings, alpha, prec and Mu are reset; everything else is kept *)
Theorem src_impl_reset_is_model o : src_impl_reset_model o = Ok (set_pi_st o (reset_st (pi_st o))).
Proof.
  cbv beta delta [src_impl_reset_model]. obj_red. change (np_zeros1 0%Z) with (np_zeros1 (Z.of_nat 0)). rewrite np_zeros1_nat.
  cbn [res_bind repeat]. unfold reset_st. obj_red. rewrite !mul0_vec, !mul0_mat. reflexivity.
Qed.
