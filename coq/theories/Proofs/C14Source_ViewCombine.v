(* C14, one piece of Proofs/C14Source.v (conventions and objects: see there): ScreenSubset.combine *)
From Coq Require Import ZArith List Bool Arith Lia ZifyBool.
From Batchie Require Import Lib.Sexp Lib.PyRt Model.Encode Model.Screen Model.Views Generated.SrcViews
  Proofs.PyRtLemmas Proofs.C14Lists Proofs.C14Source_Base Proofs.C14Source_ViewInit.
Import ListNotations.
Open Scope Z_scope.

(* `other.screen is not self.screen` is the comparison of the parents' identity tags *)
Theorem src_view_combine_is_model : forall a b : view, src_view_combine a b = view_combine a b.
Proof.
  intros a b. unfold src_view_combine, view_combine, same_object, view_screen. cbn [fst].
  destruct (negb (v_tag b =? v_tag a)); [reflexivity|].
  rewrite src_view_init_is_model, res_bind_ok. reflexivity.
Qed.
