(* C20: the model correlation_matrix of Model/Corr.v equals the translation of
     batchie.models.main.correlation_matrix
   (and of predict_viability_avg once more, with NaN as a value), regenerated from /repo on every run
   (Generated/SrcCorr.v, configurations C20_CORR / C20_PREDICT_AVG_NAN of harness/src_functions.py), for all inputs:
   the dict of sample names, the loop over the unique sample ids in increasing order (the translated
   generate_full_combinatoric_space per sample, the translated predict_viability_avg on that space, the two appends),
   np.stack, the centring on the across-sample mean (axis 0), the row norms through the sqrt oracle, the division, the
   einsum of the outer products and the DataFrame with the sample names as index and columns.
   In the translation a float is option Qc (None = NaN) and every numpy operator is lifted; the model computes on Qc and
   uses option only for the NaN entries of the result.  The link proves: with at least one theta every intermediate value
   is a number and the lifted operators are the model's; a row norm of 0 makes the whole row NaN (0 / 0) and every entry
   of its row and column of the result; without thetas the averages are 0 / 0 and the whole matrix is NaN; x / 0 with
   x <> 0 (inf, not modelled) never occurs.
   Hypotheses: [key] injective on the mapping's (name, dose) pairs (as in the link of generate_full_combinatoric_space),
   and the sqrt oracle vanishes exactly at 0 on non-negative arguments (true of the real square root and of IEEE sqrt:
   the square root of the smallest positive double is not 0). *)
From Coq Require Import ZArith List Bool Lia Arith QArith Qcanon.
From Batchie Require Import Lib.Sexp Lib.Num Lib.NumP Lib.PyRt Model.Metrics Model.Synergy Model.Corr
  Generated.SrcSpace Generated.SrcCorr
  Proofs.PyRtLemmas Proofs.C20Spec Proofs.C20Base Proofs.C20Corr Proofs.C20SourceMetrics Proofs.C20SourceSpace.
Import ListNotations.
Open Scope Z_scope.

Definition somes (l : list Qc) : nvec := map Some l.
(* the type names of the vocabulary are the same types: make rewriting syntactic *)
Ltac denq := unfold theta_n, nvec, ncol, nq in *.

(* ---------- small facts about Qc ---------- *)
Lemma qofZ_zero z : qofZ z = 0%Qc -> z = 0.
Proof.
  unfold qofZ. intros H. apply (f_equal this) in H. cbn [this Q2Qc] in H.
  apply Qred_eq_iff in H. unfold Qeq in H. cbn in H. lia.
Qed.

Lemma qeqb_refl x : qeqb x x = true.
Proof. unfold qeqb. destruct (Qc_eq_dec x x); [reflexivity | congruence]. Qed.

Lemma qeqb_false x y : x <> y -> qeqb x y = false.
Proof. intros H. unfold qeqb. destruct (Qc_eq_dec x y); [contradiction | reflexivity]. Qed.

Lemma Qc_sum_zero_l (a b : Qc) : (0 <= a)%Qc -> (0 <= b)%Qc -> (a + b = 0)%Qc -> a = 0%Qc.
Proof.
  intros Ha Hb E. apply Qcle_antisym; [|exact Ha].
  rewrite <- E. rewrite <- (Qcplus_0_r a) at 1. apply Qcplus_le_compat; [apply Qcle_refl | exact Hb].
Qed.

Lemma sumsq_zero x : sumsq x = 0%Qc -> Forall (fun v => v = 0%Qc) x.
Proof.
  induction x as [|v x IH]; intros H; [constructor|].
  unfold sumsq in H. cbn [map] in H. rewrite qsum_cons in H. fold (sumsq x) in H.
  assert (Hv : qsq v = 0%Qc) by (apply (Qc_sum_zero_l _ (sumsq x)); [apply Qc_sq_nonneg | apply sumsq_nonneg | exact H]).
  rewrite Hv, Qcplus_0_l in H. constructor; [|now apply IH].
  unfold qsq in Hv. apply Qcmult_integral in Hv. now destruct Hv.
Qed.

(* ---------- lifted operators on numbers ---------- *)
Lemma nq_sum_somes l : nq_sum (somes l) = Some (qsum l).
Proof. unfold nq_sum, somes. induction l as [|x l IH]; [reflexivity|]. cbn [map fold_right]. rewrite IH. reflexivity. Qed.

Lemma nq_sum_nan l : nq_sum (None :: l) = None.
Proof. reflexivity. Qed.

Lemma nq_mean_somes l : l <> [] -> nq_mean (somes l) = Some (qmean l).
Proof.
  intros H. destruct l as [|x l]; [now elim H|]. unfold nq_mean. cbn [somes map].
  change (Some x :: map Some l) with (somes (x :: l)). rewrite nq_sum_somes. cbn [nq_lift2].
  unfold qmean, qlen, somes. now rewrite map_length.
Qed.

Lemma nth_somes k l : (k < length l)%nat -> nth k (somes l) None = Some (nth k l 0%Qc).
Proof. intros H. unfold somes. rewrite (nth_indep _ None (Some 0%Qc)) by (now rewrite map_length). apply map_nth. Qed.

Lemma combine_somes a b : combine (somes a) (somes b) = map (fun p => (Some (fst p), Some (snd p))) (combine a b).
Proof. revert b. induction a as [|x a IH]; intros [|y b]; cbn [somes map combine fst snd]; try reflexivity. f_equal. apply IH. Qed.

Lemma combine_map_both {A B C} (g : A -> B) (h : A -> C) l : combine (map g l) (map h l) = map (fun x => (g x, h x)) l.
Proof. induction l as [|x l IH]; cbn [map combine]; [reflexivity | now rewrite IH]. Qed.

Lemma any_isnan_somes {A} (g : A -> Qc) l : np_any1 (nv_isnan (map (fun a => Some (g a)) l)) = false.
Proof. unfold np_any1, nv_isnan. induction l as [|a l IH]; [reflexivity | exact IH]. Qed.

(* ---------- predict_viability_avg with NaN as a value, on the thetas of the model ----------
   E = the experiments (sample id, treatment ids) of the screen; every theta predicts one number per experiment *)
Section Avg.
Variable f : nat -> Z -> list Z -> Qc.

Lemma avg_loop (E : list (Z * list Z)) (F : nvec -> theta_n -> result nvec) :
  (forall acc row, F acc row = if np_any1 (nv_isnan row) then Err 1 else dor r <- nv_add acc row; Ok r) ->
  forall ths (a : Z * list Z -> Qc),
  res_fold F (map (fun th => map (fun st => Some (f th (fst st) (snd st))) E) ths) (map (fun st => Some (a st)) E)
  = Ok (map (fun st => Some (a st + qsum (map (fun th => f th (fst st) (snd st)) ths))%Qc) E).
Proof.
  intros HF. induction ths as [|th ths IH]; intros a; cbn [map res_fold].
  - f_equal. apply map_ext. intros st. cbn [qsum fold_right]. now rewrite Qcplus_0_r.
  - rewrite HF, any_isnan_somes. unfold nv_add. rewrite !map_length, Nat.eqb_refl. cbn [res_bind].
    rewrite combine_map_both. rewrite map_map. cbn [fst snd nq_add nq_lift2].
    specialize (IH (fun st => (a st + f th (fst st) (snd st))%Qc)). cbn beta in IH. unfold nq. rewrite IH. f_equal. apply map_ext. intros st.
    rewrite qsum_cons. now rewrite Qcplus_assoc.
Qed.
End Avg.

(* the translated predict_viability_avg on the model's thetas: every entry is the model's avg_pred; without thetas
   every entry is 0 / 0 = NaN *)
Lemma src_predict_avg_nan_on (f : nat -> Z -> list Z -> Qc) (n : nat) (sp : list Z * list (list Z)) :
  length (fst sp) = length (snd sp) ->
  src_predict_viability_avg_nan (length (fst sp)) (thetas_on f n sp)
  = Ok (map (fun st => match n with O => None | S _ => Some (avg_pred f n (fst st) (snd st)) end) (combine (fst sp) (snd sp))).
Proof.
  intros L. unfold src_predict_viability_avg_nan.
  set (E := combine (fst sp) (snd sp)).
  assert (LE : length E = length (fst sp)) by (unfold E; rewrite combine_length, L; apply Nat.min_id).
  rewrite (res_fold_zrange_get (thetas_on f n sp) _
             (fun acc row => if np_any1 (nv_isnan row) then Err 1 else dor r <- nv_add acc row; Ok r)).
  2:{ intros s i. destruct (list_get _ i) as [row|e]; reflexivity. }
  assert (Z0 : nv_zeros (Z.of_nat (length (fst sp))) = map (fun _ : Z * list Z => Some 0%Qc) E).
  { unfold nv_zeros. now rewrite Nat2Z.id, <- LE, map_const_repeat. }
  rewrite Z0. unfold thetas_on, theta_on. fold E.
  pose proof (avg_loop f E _ (fun _ _ => eq_refl) (seq 0 n) (fun _ => 0%Qc)) as HL. cbn beta in HL.
  denq. rewrite HL. clear HL. cbn [res_bind].
  rewrite res_bind_ret, map_length, seq_length. unfold nv_div_int. rewrite res_map_all_map.
  apply res_map_all_ok. intros st _. rewrite Qcplus_0_l. unfold nq_div. destruct n as [|n'].
  - cbn [seq map qsum fold_right Z.of_nat]. change (qofZ 0) with 0%Qc. now rewrite !qeqb_refl.
  - rewrite qeqb_false; [reflexivity|]. intros H. apply qofZ_zero in H. lia.
Qed.

(* ---------- list plumbing ---------- *)
Lemma res_map_all_length {A B} (g : A -> result B) : forall l l', res_map_all g l = Ok l' -> length l' = length l.
Proof.
  induction l as [|a l IH]; intros l' H; cbn [res_map_all] in H; [now injection H as <-|].
  destruct (g a) as [b|]; [|discriminate]. cbn [res_bind] in H.
  destruct (res_map_all g l) as [bs|]; [|discriminate]. cbn [res_bind] in H. injection H as <-.
  cbn [length]. f_equal. now apply IH.
Qed.

Lemma map_const_in {A B} (g : A -> B) (c : B) l : (forall a, In a l -> g a = c) -> map g l = repeat c (length l).
Proof.
  induction l as [|a l IH]; intros H; [reflexivity|]. cbn [map length repeat].
  rewrite (H a) by now left. f_equal. apply IH. intros b Hb. apply H. now right.
Qed.

Lemma map_repeat' {A B} (g : A -> B) x n : map g (repeat x n) = repeat (g x) n.
Proof. induction n as [|n IH]; cbn [repeat map]; [reflexivity | now rewrite IH]. Qed.

Lemma combine_repeat {A B} (x : A) (y : B) n : combine (repeat x n) (repeat y n) = repeat (x, y) n.
Proof. induction n as [|n IH]; cbn [repeat combine]; [reflexivity | now rewrite IH]. Qed.

Lemma forallb_repeat {A} (p : A -> bool) x n : p x = true -> forallb p (repeat x n) = true.
Proof. intros H. induction n as [|n IH]; cbn [repeat forallb]; [reflexivity | now rewrite H, IH]. Qed.

Lemma forallb_in {A} (p : A -> bool) l : (forall a, In a l -> p a = true) -> forallb p l = true.
Proof. intros H. apply forallb_forall. exact H. Qed.

Lemma zlookup_some_in k (m : list (Z * Z)) : In k (map fst m) -> exists v, zlookup k m = Some v.
Proof.
  unfold zlookup. induction m as [|[a v] m IH]; intros H; [elim H|]. cbn [find fst snd].
  destruct (Z.eqb_spec a k) as [->|N]; [now exists v|]. apply IH. destruct H as [H|H]; [cbn in H; congruence | exact H].
Qed.

(* a loop that appends to two lists, the first from a call that may raise *)
Lemma res_fold_two_appends {A S B C} (G : A -> result S) (p : S -> B) (q : A -> C)
    (F : list B * list C -> A -> result (list B * list C)) :
  forall l, (forall a, In a l -> forall acc, F acc a = dor s <- G a; Ok (fst acc ++ [p s], snd acc ++ [q a])) ->
  forall acc, res_fold F l acc = dor ss <- res_map_all G l; Ok (fst acc ++ map p ss, snd acc ++ map q l).
Proof.
  induction l as [|a l IH]; intros H acc; cbn [res_fold res_map_all res_bind map].
  - rewrite !app_nil_r. now destruct acc.
  - rewrite (H a) by now left. destruct (G a) as [s|e]; cbn [res_bind]; [|reflexivity].
    rewrite IH by (intros b Hb; apply H; now right). cbn [fst snd].
    destruct (res_map_all G l) as [ss|e]; cbn [res_bind map]; [|reflexivity].
    now rewrite <- !app_assoc.
Qed.

(* what a successful full_space looks like: one sample id and one id row per combination, and there is a combination *)
Lemma full_space_shape mapping smap arity s ss tids :
  full_space mapping smap arity s = Ok (ss, tids) ->
  length ss = length (combs mapping arity) /\ length tids = length (combs mapping arity) /\ combs mapping arity <> [].
Proof.
  unfold full_space, combination_count. destruct (Nat.ltb_spec (length mapping) arity) as [|Le]; [discriminate|]. cbn [res_bind].
  destruct (10000000 <? _); [discriminate|]. destruct (Nat.eqb arity 0); [discriminate|].
  destruct (zlookup s _); [|discriminate]. destruct (zlookup _ smap); [|discriminate].
  destruct (res_map_all _ _) as [t|] eqn:E; [|discriminate]. cbn [res_bind]. intros H. injection H as <- <-.
  rewrite map_length. apply res_map_all_length in E. repeat split; [exact E|]. now apply combs_nonempty.
Qed.

(* ---------- the numeric core ---------- *)
Section Core.
Variable orc : oracle.
(* the square root vanishes exactly at 0 (on non-negative arguments) *)
Hypothesis sqrt_zero : forall x : Qc, (0 <= x)%Qc -> (orc ORC_SQRT x = 0%Qc <-> x = 0%Qc).

Definition nones (m : nat) : nvec := repeat None m.
(* a row of X_: the model's optional row as an array of m floats *)
Definition nrow (m : nat) (o : option (list Qc)) : nvec := match o with Some l => somes l | None => nones m end.

(* the statements of correlation_matrix after the loop, with the rest of the function as a continuation *)
Definition core {T} (P : list nvec) (K : list nvec -> result T) : result T :=
  dor P1 <- nm_stack P;
  dor mu <- nm_mean0 P1;
  dor X <- nm_sub_row P1 mu;
  dor X_ <- nm_div_col X (nc_sqrt orc (nm_sum1 (nm_square X)));
  dor c <- nm_einsum_ik_jk X_ X_;
  K c.

(* -- without thetas: every average is NaN, and so is every entry of the result -- *)
Lemma nones_sub m : map (fun pm : nq * nq => nq_sub (fst pm) (snd pm)) (combine (nones m) (nones m)) = nones m.
Proof. unfold nones. rewrite combine_repeat, map_repeat'. reflexivity. Qed.

Lemma nq_sum_nones m : nq_sum (nones (S m)) = None.
Proof. reflexivity. Qed.

Lemma nq_dot_nones_l m y : (0 < m)%nat -> length y = m -> nq_dot (nones m) y = None.
Proof. intros Hm L. destruct m as [|m']; [lia|]. destruct y as [|y0 y]; [discriminate|]. reflexivity. Qed.

Lemma nq_dot_nones_r m x : (0 < m)%nat -> length x = m -> nq_dot x (nones m) = None.
Proof.
  intros Hm L. destruct m as [|m']; [lia|]. destruct x as [|x0 x]; [discriminate|].
  unfold nq_dot, nones. cbn [repeat combine map fst snd]. destruct x0; reflexivity.
Qed.

Lemma core_nan {T} (k m : nat) (K : list nvec -> result T) : (0 < k)%nat -> (0 < m)%nat ->
  core (repeat (nones m) k) K = K (repeat (nones k) k).
Proof.
  intros Hk Hm. unfold core. destruct k as [|k']; [lia|]. destruct m as [|m']; [lia|].
  set (k := S k'). set (m := S m').
  assert (E1 : nm_stack (repeat (nones m) k) = Ok (repeat (nones m) k)).
  { unfold k. cbn [repeat nm_stack]. rewrite forallb_repeat by apply Nat.eqb_refl. reflexivity. }
  rewrite E1. cbn [res_bind].
  assert (E2 : nm_mean0 (repeat (nones m) k) = Ok (nones m)).
  { unfold k at 1. cbn [repeat nm_mean0]. f_equal.
    rewrite (map_const_in _ (None : nq)); [unfold nones; now rewrite seq_length, repeat_length|]. intros j _.
    unfold ncolumn. cbn [map]. unfold nones. now rewrite nth_repeat. }
  rewrite E2. cbn [res_bind].
  assert (E3 : nm_sub_row (repeat (nones m) k) (nones m) = Ok (repeat (nones m) k)).
  { unfold nm_sub_row. rewrite forallb_repeat by apply Nat.eqb_refl. now rewrite map_repeat', nones_sub. }
  rewrite E3. cbn [res_bind].
  assert (E4 : nc_sqrt orc (nm_sum1 (nm_square (repeat (nones m) k))) = nones k).
  { unfold nc_sqrt, nm_sum1, nm_square. rewrite !map_repeat'. unfold nones at 1. rewrite map_repeat'. reflexivity. }
  rewrite E4.
  assert (E5 : nm_div_col (repeat (nones m) k) (nones k) = Ok (repeat (nones m) k)).
  { unfold nm_div_col. change (nones k) with (repeat (None : nq) k). rewrite !repeat_length, Nat.eqb_refl, combine_repeat.
    apply res_map_all_repeat_ok. cbn [fst snd]. unfold nones. now apply res_map_all_repeat_ok. }
  rewrite E5. cbn [res_bind].
  assert (E6 : nm_einsum_ik_jk (repeat (nones m) k) (repeat (nones m) k) = Ok (repeat (nones k) k)).
  { unfold nm_einsum_ik_jk. rewrite forallb_repeat by (apply forallb_repeat, Nat.eqb_refl).
    rewrite map_repeat', map_repeat'. reflexivity. }
  now rewrite E6.
Qed.

(* -- with thetas: every intermediate value is a number, the lifted operators are the model's -- *)
Lemma qltb_nonneg x : (0 <= x)%Qc -> qltb x 0 = false.
Proof. intros H. unfold qltb. destruct (Qclt_le_dec x 0) as [L|_]; [|reflexivity]. elim (Qcle_not_lt _ _ H L). Qed.

Lemma nq_dot_somes a b : nq_dot (somes a) (somes b) = Some (qdot a b).
Proof.
  unfold nq_dot, qdot. rewrite combine_somes, map_map, <- nq_sum_somes. f_equal.
  unfold somes. rewrite map_map. apply map_ext. reflexivity.
Qed.

(* one row of X / norm: the model's [normalised] *)
Lemma div_row (x : list Qc) :
  res_map_all (fun v => nq_div v (Some (orc ORC_SQRT (sumsq x)))) (somes x) = Ok (nrow (length x) (normalised orc x)).
Proof.
  unfold normalised, somes. rewrite res_map_all_map. pose proof (sumsq_nonneg x) as Pos.
  destruct (qeqb_spec (sumsq x) 0) as [Z|NZ]; cbv beta iota delta [nrow].
  - assert (Sq : orc ORC_SQRT (sumsq x) = 0%Qc) by (now apply sqrt_zero).
    rewrite Sq. unfold nones. rewrite <- (map_const_repeat (@None Qc) x). apply res_map_all_ok.
    intros v Hv. pose proof (sumsq_zero x Z) as All. rewrite Forall_forall in All. rewrite (All v Hv).
    unfold nq_div. now rewrite !qeqb_refl.
  - unfold somes. rewrite map_map. apply res_map_all_ok. intros v _. unfold nq_div.
    rewrite qeqb_false; [reflexivity|]. intros Sq. apply NZ. now apply sqrt_zero.
Qed.

Lemma nrow_length m o : match o with Some l => length l = m | None => True end -> length (nrow m o) = m.
Proof. destruct o as [l|]; cbn [nrow]; intros H; [unfold somes; now rewrite map_length | apply repeat_length]. Qed.

Lemma nq_dot_nrow m a b : (0 < m)%nat ->
  match a with Some l => length l = m | None => True end ->
  match b with Some l => length l = m | None => True end ->
  nq_dot (nrow m a) (nrow m b) = corr_entry a b.
Proof.
  intros Hm Ha Hb. destruct a as [a|]; cbn [nrow corr_entry].
  - destruct b as [b|]; cbn [nrow]; [apply nq_dot_somes|].
    apply nq_dot_nones_r; [exact Hm | unfold somes; now rewrite map_length].
  - apply nq_dot_nones_l; [exact Hm | now apply nrow_length].
Qed.

Lemma core_num {T} (P : list (list Qc)) (m : nat) (K : list nvec -> result T) :
  P <> [] -> Forall (fun r => length r = m) P -> (0 < m)%nat ->
  core (map somes P) K = K (corr_of orc P m).
Proof.
  intros NE Rect Hm. unfold core. rewrite Forall_forall in Rect.
  (* np.stack *)
  assert (E1 : nm_stack (map somes P) = Ok (map somes P)).
  { destruct P as [|r t]; [now elim NE|]. cbn [map nm_stack]. rewrite forallb_in; [reflexivity|].
    intros x Hx. apply in_map_iff in Hx as (y & <- & Hy). unfold somes. rewrite !map_length.
    rewrite (Rect y) by now right. rewrite (Rect r) by now left. apply Nat.eqb_refl. }
  rewrite E1. cbn [res_bind].
  (* the column means *)
  set (mu := col_means P m).
  assert (Lmu : length mu = m) by (unfold mu, col_means; now rewrite map_length, seq_length).
  assert (E2 : nm_mean0 (map somes P) = Ok (somes mu)).
  { assert (HL : forall x, In x (map somes P) -> length x = m).
    { intros x Hx. apply in_map_iff in Hx as (y & <- & Hy). unfold somes. rewrite map_length. now apply Rect. }
    destruct (map somes P) as [|r0 t0] eqn:EM; [destruct P; [now elim NE | discriminate]|].
    cbn [nm_mean0]. rewrite (HL r0) by now left. rewrite <- EM. f_equal.
    transitivity (map (fun k => Some (qmean (col P k))) (seq 0 m)); [|unfold mu, col_means, somes; now rewrite map_map].
    apply map_ext_in. intros k Hk. apply in_seq in Hk.
    assert (Ec : ncolumn (map somes P) k = somes (col P k)).
    { unfold ncolumn, col, somes. rewrite !map_map. apply map_ext_in. intros row Hrow. apply nth_somes. rewrite (Rect row Hrow). lia. }
    rewrite Ec. apply nq_mean_somes. unfold col. destruct P; [now elim NE | discriminate]. }
  rewrite E2. cbn [res_bind].
  (* the centring *)
  assert (E3 : nm_sub_row (map somes P) (somes mu) = Ok (map somes (centered P m))).
  { unfold nm_sub_row. rewrite forallb_in.
    - f_equal. unfold centered. fold mu. rewrite !map_map. apply map_ext. intros row.
      rewrite combine_somes, map_map. cbn [fst snd nq_sub nq_lift2]. unfold somes. now rewrite map_map.
    - intros x Hx. apply in_map_iff in Hx as (y & <- & Hy). unfold somes. rewrite !map_length, Lmu, (Rect y Hy). apply Nat.eqb_refl. }
  rewrite E3. cbn [res_bind].
  set (X := centered P m).
  assert (LX : forall x, In x X -> length x = m).
  { intros x Hx. unfold X, centered in Hx. apply in_map_iff in Hx as (row & <- & Hrow).
    fold mu. rewrite map_length, combine_length, Lmu, (Rect row Hrow). apply Nat.min_id. }
  (* the norms *)
  assert (E4 : nc_sqrt orc (nm_sum1 (nm_square (map somes X))) = map (fun x => Some (orc ORC_SQRT (sumsq x))) X).
  { unfold nc_sqrt, nm_sum1, nm_square. rewrite !map_map. apply map_ext. intros x.
    replace (map (fun v : nq => nq_mul v v) (somes x)) with (somes (map qsq x))
      by (unfold somes; rewrite !map_map; apply map_ext; reflexivity).
    rewrite nq_sum_somes. fold (sumsq x).
    cbn [nq_sqrt]. now rewrite qltb_nonneg by apply sumsq_nonneg. }
  rewrite E4.
  (* the division *)
  assert (E5 : nm_div_col (map somes X) (map (fun x => Some (orc ORC_SQRT (sumsq x))) X)
               = Ok (map (fun x => nrow m (normalised orc x)) X)).
  { unfold nm_div_col. rewrite !map_length, Nat.eqb_refl, combine_map_both, res_map_all_map. cbn [fst snd].
    apply res_map_all_ok. intros x Hx. rewrite div_row. now rewrite (LX x Hx). }
  rewrite E5. cbn [res_bind].
  (* the outer products *)
  set (Xn := map (normalised orc) X).
  assert (WF : forall o, In o Xn -> match o with Some l => length l = m | None => True end).
  { intros o Ho. unfold Xn in Ho. apply in_map_iff in Ho as (x & <- & Hx). unfold normalised.
    destruct (qeqb (sumsq x) 0); [exact I|]. rewrite map_length. now apply LX. }
  assert (E6 : nm_einsum_ik_jk (map (fun x => nrow m (normalised orc x)) X) (map (fun x => nrow m (normalised orc x)) X)
               = Ok (corr_of orc P m)).
  { replace (map (fun x => nrow m (normalised orc x)) X) with (map (nrow m) Xn) by (unfold Xn; now rewrite map_map).
    unfold nm_einsum_ik_jk. rewrite forallb_in.
    - f_equal. unfold corr_of. fold X. fold Xn. rewrite map_map. apply map_ext_in. intros a Ha.
      rewrite map_map. apply map_ext_in. intros b Hb. apply nq_dot_nrow; [exact Hm | now apply WF | now apply WF].
    - intros a Ha. apply in_map_iff in Ha as (oa & <- & Hoa). apply forallb_in. intros b Hb.
      apply in_map_iff in Hb as (ob & <- & Hob). rewrite !nrow_length by (now apply WF). apply Nat.eqb_refl. }
  now rewrite E6.
Qed.
End Core.

(* ---------- correlation_matrix ---------- *)
Lemma res_map_all_in {A B} (G : A -> result B) : forall l l', res_map_all G l = Ok l' ->
  forall y, In y l' -> exists x, In x l /\ G x = Ok y.
Proof.
  induction l as [|a l IH]; intros l' H y Hy; cbn [res_map_all] in H; [injection H as <-; elim Hy|].
  destruct (G a) as [b|] eqn:Ea; [|discriminate]. cbn [res_bind] in H.
  destruct (res_map_all G l) as [bs|] eqn:El; [|discriminate]. cbn [res_bind] in H. injection H as <-.
  destruct Hy as [<-|Hy]; [exists a; split; [now left | exact Ea]|].
  destruct (IH bs eq_refl y Hy) as (x & Hx & Gx). exists x. split; [now right | exact Gx].
Qed.

Section Link.
Variable orc : oracle.
Hypothesis sqrt_zero : forall x : Qc, (0 <= x)%Qc -> (orc ORC_SQRT x = 0%Qc <-> x = 0%Qc).
Variable f : nat -> Z -> list Z -> Qc.
Variable key : Z * Z -> Z.
Variable tm : tmap3.
Hypothesis key_inj : forall a b, In a (map fst tm) -> In b (map fst tm) -> key a = key b -> a = b.

Theorem src_correlation_matrix_is_model : forall (sm : list (Z * Z)) (arity nthetas : nat) (rows : list (Z * Z)),
  src_correlation_matrix orc f tm sm arity nthetas rows
  = dor r <- correlation_matrix orc f (key_rows key tm) sm arity nthetas rows; Ok (mk_frame (snd r) (fst r) (fst r)).
Proof.
  intros sm arity n rows. unfold src_correlation_matrix, correlation_matrix.
  set (mapping := key_rows key tm). set (sids := sorted_unique (map fst rows)).
  set (q := fun s : Z => match zlookup s (rev rows) with Some nm => nm | None => 0 end).
  set (p := fun sp : list Z * list (list Z) =>
              map (fun st => match n with O => None | S _ => Some (avg_pred f n (fst st) (snd st)) end) (combine (fst sp) (snd sp))).
  (* the loop over the unique sample ids *)
  rewrite (res_fold_two_appends (full_space mapping sm arity) p q).
  2:{ intros sid Hsid [acc1 acc2]. cbn [fst snd]. rewrite (src_full_space_is_model key tm key_inj). fold mapping.
      destruct (full_space mapping sm arity sid) as [[ss tids]|e] eqn:E; cbn [res_bind]; [|reflexivity].
      destruct (full_space_shape _ _ _ _ _ _ E) as (L1 & L2 & _).
      rewrite src_predict_avg_nan_on by (cbn [fst snd]; congruence). cbn [res_bind].
      rewrite combine_fst_snd', dict_read_last.
      destruct (zlookup_some_in sid (rev rows)) as [v Hv].
      { rewrite map_rev. apply -> in_rev. apply (proj1 (sorted_unique_In sid (map fst rows))). exact Hsid. }
      unfold q. rewrite Hv. reflexivity. }
  cbn [fst snd app].
  destruct (res_map_all (full_space mapping sm arity) sids) as [spaces|e] eqn:ES; cbn [res_bind]; [|reflexivity].
  match goal with |- ?L = _ => change L with (core orc (map p spaces) (fun c => Ok (mk_frame c (map q sids) (map q sids)))) end.
  pose proof (res_map_all_length _ _ _ ES) as Lsp.
  destruct sids as [|s0 sids'] eqn:Esids.
  - destruct spaces; [reflexivity | discriminate].
  - rewrite <- Esids in *. fold q.
    (* every space has one experiment per combination, and there is a combination *)
    set (m := length (combs mapping arity)).
    assert (Shape : forall sp, In sp spaces -> length (fst sp) = m /\ length (snd sp) = m /\ (0 < m)%nat).
    { intros [ss tids] Hsp. destruct (res_map_all_in _ _ _ ES _ Hsp) as (sid & _ & E).
      destruct (full_space_shape _ _ _ _ _ _ E) as (L1 & L2 & NE). cbn [fst snd]. repeat split; [exact L1 | exact L2|].
      unfold m. destruct (combs mapping arity); [now elim NE | cbn [length]; lia]. }
    assert (Ksp : (0 < length spaces)%nat) by (rewrite Lsp, Esids; cbn [length]; lia).
    destruct spaces as [|sp0 spaces'] eqn:Espaces; [cbn [length] in Ksp; lia|]. rewrite <- Espaces in *.
    assert (Hm : (0 < m)%nat) by (apply (Shape sp0); rewrite Espaces; now left).
    assert (LE : forall sp, In sp spaces -> length (combine (fst sp) (snd sp)) = m).
    { intros sp Hsp. destruct (Shape sp Hsp) as (L1 & L2 & _). rewrite combine_length, L1, L2. apply Nat.min_id. }
    assert (Nc : length (snd sp0) = m) by (apply (Shape sp0); rewrite Espaces; now left).
    rewrite Nc. destruct n as [|T].
    + (* no theta: every average is 0 / 0 *)
      assert (EP : map p spaces = repeat (nones m) (length spaces)).
      { apply map_const_in. intros sp Hsp. unfold p, nones. rewrite <- (LE sp Hsp). apply map_const_repeat. }
      rewrite EP, core_nan by assumption. cbn [res_bind fst snd]. do 2 f_equal.
      rewrite Lsp. unfold nones. now rewrite !map_const_repeat.
    + (* at least one theta: the model's matrix of averages *)
      set (P := map (fun sp : list Z * list (list Z) =>
                       map (fun st => avg_pred f (S T) (fst st) (snd st)) (combine (fst sp) (snd sp))) spaces).
      assert (EP : map p spaces = map somes P).
      { unfold P, p, somes. rewrite map_map. apply map_ext. intros sp. now rewrite map_map. }
      rewrite EP, (core_num orc sqrt_zero P m).
      * reflexivity.
      * unfold P. rewrite Espaces. discriminate.
      * apply Forall_forall. intros r Hr. unfold P in Hr. apply in_map_iff in Hr as (sp & <- & Hsp).
        rewrite map_length. now apply LE.
      * exact Hm.
Qed.
End Link.

(* the theorems about the model's matrix are theorems about the translated function: its DataFrame carries the sample
   names as index AND columns, and its values are symmetric *)
Theorem src_correlation_matrix_symmetric : forall (orc : oracle),
  (forall x : Qc, (0 <= x)%Qc -> (orc ORC_SQRT x = 0%Qc <-> x = 0%Qc)) ->
  forall (f : nat -> Z -> list Z -> Qc) (key : Z * Z -> Z) (tm : tmap3),
  (forall a b, In a (map fst tm) -> In b (map fst tm) -> key a = key b -> a = b) ->
  forall sm arity nthetas rows index columns M i j,
  src_correlation_matrix orc f tm sm arity nthetas rows = Ok (index, columns, M) ->
  columns = index /\ mat_get M i j = mat_get M j i.
Proof.
  intros orc Hs f key tm Hk sm arity n rows index columns M i j H.
  rewrite (src_correlation_matrix_is_model orc Hs f key tm Hk) in H.
  destruct (correlation_matrix orc f (key_rows key tm) sm arity n rows) as [[ix M']|e] eqn:E; [|discriminate].
  cbn [res_bind fst snd mk_frame] in H. injection H as <- <- <-. split; [reflexivity|].
  eapply correlation_matrix_symmetric. exact E.
Qed.
