(* C04 downstream, source level: the distance stage (C07's composition of the translated functions).  See Proofs/C04DownSrc.v. *)
From Coq Require Import ZArith List Bool QArith Qcanon Lia.
From Batchie Require Import Lib.Sexp Lib.Num Lib.PyRt Model.Train Model.Downstream Proofs.C04Train Proofs.C04Down.
From Batchie Require Model.Scores Model.Policy Model.Gibbs Model.DistMat Model.Cli.
From Batchie Require Generated.SrcDistMat Proofs.C07SourcePipeline.
Import ListNotations.
Open Scope Z_scope.

(* ---- distance: calculate_pairwise_distance_matrix_on_predictions per chunk, save, load, concat, to_dense (C07's
   src_pipeline), the prediction of a posterior sample being ANY function of the sample and the rows' ids ---- *)
Section Dist.
Variables (V : Type) (vzero : V) (visz : V -> bool) (T : Type) (dflt : T).
Variable predict : T -> list (Z * list Z) -> list Qc.
Variable metric : list Qc -> list Qc -> V.

Definition src_stage_dist (th : list T) (rows : list trow) (c : Z) (order : list Z) : result (list (list V)) :=
  C07SourcePipeline.src_pipeline V vzero visz T (list Qc) (fun i => nth (Z.to_nat i) th dflt)
    (fun t => predict t (pred_rows_of rows)) metric (length th) c order.

Lemma src_stage_dist_noninterference th s1 s2 c order : same_except_masked s1 s2 ->
  src_stage_dist th s1 c order = src_stage_dist th s2 c order.
Proof. intros H. unfold src_stage_dist. now rewrite (proj1 (proj2 (proj2 (views_noninterference s1 s2 H)))). Qed.
End Dist.

