(* C03: create_plate_balanced_holdout_set_among_masked_plates linked at the id / mapping level.
   Generated/SrcHoldoutIds.v is the whole function re-translated with `screen` the model Screen (ids and mappings included)
   and the two Screen(...) calls the model's constructor on the keyword arguments the call sites pass.  It equals
   Holdout.balanced_holdout_ids: the selection the loop computes (C11's model of the loop), then Holdout.holdout_split -
   so every C03 theorem about holdout_split is a theorem about the translated hold-out. *)
From Coq Require Import ZArith List Bool Arith Lia.
From Batchie Require Import Lib.Sexp Lib.PyRt Generated.Consts Model.Encode Model.Screen Model.Reveal Model.Holdout
  Generated.SrcHoldoutIds Proofs.PyRtLemmas Proofs.C03Base Proofs.C03Screen Proofs.C12Reveal Proofs.C03Frozen Proofs.C12Source_Base.
From Batchie Require Model.Retro Model.RetroHoldout Proofs.C11Lib Proofs.C11Init Proofs.C11Select.
Import Retro.
Import ListNotations.
Open Scope Z_scope.

Lemma remask_self rows : remask rows (map r_mask rows) = rows.
Proof.
  unfold remask. induction rows as [|r rows IH]; cbn [map combine fst snd]; [reflexivity|].
  rewrite IH. f_equal. destruct r; reflexivity.
Qed.

Lemma select_length_vcount {A} : forall (sel : list bool) (l : list A), length sel = length l -> length (select sel l) = vcount sel.
Proof.
  induction sel as [|b sel IH]; intros [|x l] H; cbn [length] in H; try discriminate; cbn [select vcount length]; [reflexivity|].
  destruct b; cbn [length]; rewrite IH by lia; reflexivity.
Qed.

(* Screen(<every column>[m], observation_mask = mk, the parent's control name and mappings) *)
Lemma py_screen_select p m mk :
  py_screen (fst (col_tnames p), select m (snd (col_tnames p))) (fst (col_tdoses p), select m (snd (col_tdoses p)))
            (select m (col_samples p)) (select m (col_plates p)) (Some (select m (col_obs p))) (Some mk)
            (Some (s_ctrl p)) (Some (attr_tmap p)) (Some (attr_smap p))
  = mk_screen (remask (select m (s_rows p)) mk) (s_arity p) (s_ctrl p) (Some (s_tmap p, true)) (Some (s_smap p, true)) true true.
Proof.
  unfold py_screen, col_tnames, col_tdoses, col_samples, col_plates, col_obs, attr_tmap, attr_smap. cbn [fst snd].
  rewrite !select_map, zip_rows_cols. reflexivity.
Qed.

(* the loop over the plates, for an arbitrary body equal to the canonical one and a continuation that only looks at
   selection vectors of the screen's length *)
Lemma ho_ids_for {B : Type} (num : Z) (den : positive) (rows : list row)
      (f : option (list Z) * list draw * bvec -> bvec -> result (option (list Z) * list draw * bvec))
      (K : option (list Z) * list draw * bvec -> result B) (k : bvec -> list draw -> result B) :
  (forall c d sel v, f (c, d, sel) v =
     if RetroHoldout.vec_observed v rows then Ok (c, d, sel)
     else
       dor nc <- RetroHoldout.ceil_count (plate_size v) num den c; let '(n, c') := nc in
       dor xd <- RetroHoldout.choose (RetroHoldout.vec_indices v) n d; let '(idx, d') := xd in
       Ok (c', d', RetroHoldout.set_true (length rows) sel idx)) ->
  (forall c d sel, length sel = length rows -> K (c, d, sel) = k sel d) ->
  forall plates c d sel, length sel = length rows ->
    res_bind (res_fold f (map (fun p => plate_vec p rows) plates) (c, d, sel)) K
    = dor x <- RetroHoldout.ho_plates (length rows) num den rows plates c d sel; k (fst x) (snd x).
Proof.
  intros Hf HK. induction plates as [|p plates IH]; intros c d sel Hl;
    cbn [map res_fold RetroHoldout.ho_plates res_bind fst snd]; [now apply HK|].
  rewrite Hf. unfold RetroHoldout.vec_observed.
  replace (vselect (plate_vec p rows) rows) with (filter (in_plate p) rows) by (unfold plate_vec; apply C11Lib.filter_vselect).
  fold (RetroHoldout.plate_observed p rows).
  destruct (RetroHoldout.plate_observed p rows); cbn [res_bind]; [now apply IH|].
  unfold RetroHoldout.ceil_count, plate_size. rewrite Nat2Z.id.
  destruct (RetroHoldout.next_count (vcount (plate_vec p rows)) num den c) as [[n c']|t]; cbn [res_bind]; [|reflexivity].
  unfold RetroHoldout.choose. destruct (take_ints d) as [[idx d']|t]; cbn [res_bind]; [|reflexivity].
  destruct (negb (Z.of_nat (length idx) =? n)%Z); cbn [res_bind]; [reflexivity|].
  unfold RetroHoldout.set_true. apply IH.
  rewrite C11Init.vor_length, C11Select.vof_idx_length, Hl. apply Nat.min_id.
Qed.

Theorem src_balanced_holdout_ids_is_model : forall num den counts p ds,
  src_balanced_holdout_ids num den counts p ds = balanced_holdout_ids num den counts p ds.
Proof.
  intros num den counts p ds. unfold src_balanced_holdout_ids, balanced_holdout_ids.
  destruct ((num <? 0) || (Z.pos den <? num)); [reflexivity|].
  unfold plates_of. cbv zeta.
  rewrite (ho_ids_for num den (s_rows p) _ _ (fun sel d => dor pr <- holdout_split p sel; Ok (pr, d))).
  - reflexivity.
  - intros c d sel v. reflexivity.
  - intros c d sel Hl. cbv beta.
    rewrite !py_screen_select. unfold holdout_split. rewrite Hl, Nat.eqb_refl. cbn [negb].
    unfold col_mask. rewrite select_map, remask_self.
    rewrite <- (select_length_vcount sel (s_rows p) Hl), remask_const.
    destruct (mk_screen (select (map negb sel) (s_rows p)) _ _ _ _ true true) as [tr|t]; cbn [res_bind]; [|reflexivity].
    destruct (mk_screen (map (with_mask true) (select sel (s_rows p))) _ _ _ _ true true) as [te|t]; reflexivity.
  - now rewrite repeat_length.
Qed.

(* hence the translated hold-out freezes both halves to the parent *)
Theorem src_holdout_frozen : forall num den counts p ds pr ds' test,
  src_balanced_holdout_ids num den counts p ds = Ok (pr, ds') -> frozen_to p (half test pr).
Proof.
  intros num den counts p ds pr ds' test H. rewrite src_balanced_holdout_ids_is_model in H.
  unfold balanced_holdout_ids in H. destruct ((num <? 0) || (Z.pos den <? num)); [discriminate|]. cbv zeta in H.
  destruct (RetroHoldout.ho_plates _ _ _ _ _ _ _ _) as [[sel d]|t]; cbn [res_bind fst snd] in H; [|discriminate].
  destruct (holdout_split p sel) as [pr'|t] eqn:E; cbn [res_bind] in H; [|discriminate].
  inversion H; subst. exact (split_frozen p sel pr test E).
Qed.

(* and it is a holdout_split for SOME selection vector of the screen's length (the one its loop computed) *)
Theorem src_holdout_is_split : forall num den counts p ds pr ds',
  src_balanced_holdout_ids num den counts p ds = Ok (pr, ds') ->
  exists sel, length sel = length (s_rows p) /\ holdout_split p sel = Ok pr.
Proof.
  intros num den counts p ds pr ds' H. rewrite src_balanced_holdout_ids_is_model in H.
  unfold balanced_holdout_ids in H. destruct ((num <? 0) || (Z.pos den <? num)); [discriminate|]. cbv zeta in H.
  destruct (RetroHoldout.ho_plates _ _ _ _ _ _ _ _) as [[sel d]|t]; cbn [res_bind fst snd] in H; [|discriminate].
  destruct (holdout_split p sel) as [pr'|t] eqn:E; cbn [res_bind] in H; [|discriminate].
  inversion H; subst. exists sel. split; [|exact E].
  destruct pr as [tr te]. now apply holdout_split_inv in E.
Qed.
