(* C13 / C11, one piece of Proofs/C13SourceHelpers.v (representation and side conditions: see there): Screen.combine = combine_screens *)
From Coq Require Import ZArith List Bool Arith Lia ZifyBool.
From Batchie Require Import Lib.Sexp Lib.PyRt Generated.Consts Model.Encode Model.Screen Model.Views Model.Retro Model.RetroHoldout
  Generated.SrcEncode Generated.SrcViews Generated.SrcPlates
  Proofs.PyRtLemmas Proofs.C01Sort Proofs.C01Encode Proofs.C14Defs Proofs.C14Lists Proofs.C14Unique Proofs.C14Views
  Proofs.C14ToScreen
  Proofs.C14SourceHelpers_ScreenCombine Proofs.C13SourceHelpers_Base.
Import ListNotations.
Open Scope nat_scope.

(* ---------------- Screen.combine = combine_screens ---------------- *)

(* two screens of one arity and control name (true of every pair the wrappers and generators combine: both descend from
   one screen): Screen.combine answers the constructor's refusal of a mixed plate (tag 2) exactly when [construct] does, and
   otherwise a fresh screen whose rows are the two row lists one after the other *)
Theorem src_screen_combine_is_combine_screens : forall a b : pyscreen,
  screen_valid (snd a) -> screen_valid (snd b) -> s_arity (snd b) = s_arity (snd a) -> s_ctrl (snd b) = s_ctrl (snd a) ->
  res_rows (src_screen_combine a b) = combine_screens (s_rows (snd a)) (s_rows (snd b)) /\
  (forall s, src_screen_combine a b = Ok s ->
     fresh_screen s /\ s_arity s = s_arity (snd a) /\ s_ctrl s = s_ctrl (snd a)).
Proof.
  intros [ta a] [tb b]. cbn [snd]. intros [Va _] [Vb _] Har Hc. rewrite src_screen_combine_is_model. cbn [snd].
  unfold screen_combine, combine_screens, construct. rewrite Hc, name_eqb_refl, Har, Nat.eqb_refl. cbn [negb].
  assert (HA : forallb (fun r => Nat.eqb (length (r_treats r)) (s_arity a)) (s_rows a ++ s_rows b) = true).
  { rewrite forallb_app, Va. rewrite <- Har. now rewrite Vb. }
  split.
  - destruct (plate_uniform (s_rows a ++ s_rows b)) eqn:E.
    + destruct (mk_screen_total (s_rows a ++ s_rows b) (s_arity a) (s_ctrl a) (conj HA E)) as (s & Hs). rewrite Hs.
      unfold res_rows. cbn [res_bind]. now rewrite (proj1 (mk_screen_rows _ _ _ _ Hs)).
    + now rewrite (mk_screen_not_uniform _ _ _ HA E).
  - intros s Hs. split; [eapply mk_screen_fresh; exact Hs|]. apply mk_screen_rows in Hs. tauto.
Qed.
