(* The argument-handling glue of the command-line wrappers, part 1: cli/argument_parsing.py.  The hand-written models
   Cli.str_to_bool / cast_dict / kv_append equal the translations of the WHOLE functions str_to_bool, cast_dict_to_type and
   KVAppendAction.__call__ of /repo, regenerated on every run (Generated/SrcCliArgs.v, configurations ARGS_* of
   harness/src_functions.py), for every record of string primitives and all inputs. *)
From Coq Require Import ZArith List Bool Lia.
From Batchie Require Import Lib.Sexp Lib.PyRt Model.Cli Generated.SrcCliArgs Proofs.PyRtLemmas.
Import ListNotations.
Open Scope Z_scope.

Theorem src_str_to_bool_is_model : forall {F O : Type} (P : pyprims F O) (s : str),
  src_str_to_bool F O P s = str_to_bool P s.
Proof. intros. reflexivity. Qed.

Lemma call_callable_ext {F O : Type} (P : pyprims F O) (f g : str -> result bool) :
  (forall s, f s = g s) -> forall c s, call_callable P f c s = call_callable P g c s.
Proof. intros H c s. destruct c as [|t]; cbn [call_callable]; [now rewrite H|reflexivity]. Qed.

(* the comprehension of cast_dict_to_type, for an arbitrary body equal to the canonical one *)
Lemma cast_loop {F O : Type} (P : pyprims F O) (types : list (str * ann))
  (f : list (str * pval F O) -> str * str -> result (list (str * pval F O))) :
  (forall acc kv, f acc kv = dor t <- kdict_get str_eqb 25 types (fst kv);
                             dor x <- convert P t (snd kv); Ok (kdict_set str_eqb acc (fst kv) x)) ->
  forall items acc, res_fold f items acc = cast_items P types items acc.
Proof.
  intros Hf items. induction items as [|[k v] r IH]; intros acc; cbn [res_fold cast_items]; [reflexivity|].
  rewrite Hf. cbn [fst snd].
  destruct (kdict_get str_eqb 25 types k) as [t|e]; cbn [res_bind]; [|reflexivity].
  destruct (convert P t v) as [x|e]; cbn [res_bind]; [|reflexivity].
  apply IH.
Qed.

Theorem src_cast_dict_is_model : forall (F O : Type) (P : pyprims F O) (k_v_string : list (str * str))
  (k_v_types : list (str * ann)),
  src_cast_dict_to_type F O P k_v_string k_v_types = cast_dict P k_v_string k_v_types.
Proof.
  intros. unfold src_cast_dict_to_type, cast_dict. cbv zeta.
  rewrite (cast_loop P k_v_types).
  - apply res_bind_ret.
  - intros acc [k v]. cbn [fst snd].
    destruct (kdict_get str_eqb 25 k_v_types k) as [t|e]; cbn [res_bind]; [|reflexivity].
    unfold convert.
    rewrite (call_callable_ext P (src_str_to_bool F O P) (str_to_bool P) (src_str_to_bool_is_model P)).
    reflexivity.
Qed.

Theorem src_kv_append_is_model : forall (dest : option (list (str * str))) (values : list str),
  src_kv_append dest values = kv_append dest values.
Proof.
  intros dest values. unfold src_kv_append, kv_append.
  destruct values as [|w [|w2 r]].
  - reflexivity.
  - cbn [length Z.of_nat Z.eqb Pos.of_succ_nat Pos.eqb]. change (list_get [w] 0) with (Ok w). cbn [res_bind].
    change ([61] : str) with s_eq.
    destruct (str_split w s_eq 2) as [parts|t]; cbn [res_bind res_catch].
    + destruct parts as [|k [|v [|x parts]]]; reflexivity.
    + destruct (zmem t [23; 24]); reflexivity.
  - replace (Z.of_nat (length (w :: w2 :: r)) =? 1) with false; [reflexivity|].
    symmetry. apply Z.eqb_neq. cbn [length]. lia.
Qed.
