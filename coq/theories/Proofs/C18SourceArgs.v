(* The argument-handling glue of the command-line wrappers, part 1: cli/argument_parsing.py.  The hand-written models
   Cli.str_to_bool / cast_dict / kv_append equal the translations of the WHOLE functions str_to_bool, cast_dict_to_type and
   KVAppendAction.__call__ of /repo, regenerated on every run (Generated/SrcCliArgs.v, configurations ARGS_* of
   harness/src_functions.py), for every record of string primitives and all inputs. *)
From Coq Require Import ZArith List Bool Lia.
From Batchie Require Import Lib.Sexp Lib.PyRt Model.Cli Generated.SrcCli Generated.SrcCliArgs Proofs.PyRtLemmas Proofs.C06SourceCli.
Import ListNotations.
Open Scope Z_scope.

Theorem src_str_to_bool_is_model : forall {F O : Type} (P : pyprims F O) (s : str),
  src_str_to_bool F O P s = str_to_bool P s.
Proof. intros. reflexivity. Qed.

Lemma call_callable_ext {F O : Type} (P : pyprims F O) (f g : str -> result bool) :
  (forall s, f s = g s) -> forall c s, call_callable P f c s = call_callable P g c s.
Proof. intros H c s. destruct c as [|t]; cbn [call_callable]; [now rewrite H|reflexivity]. Qed.

(* the comprehension of cast_dict_to_type, for an arbitrary body equal to the canonical one *)
Lemma cast_loop {F O : Type} (P : pyprims F O) (types : list (str * ann))
  (f : list (str * pval F O) -> str * str -> result (list (str * pval F O))) :
  (forall acc kv, f acc kv = dor t <- kdict_get str_eqb 25 types (fst kv);
                             dor x <- convert P t (snd kv); Ok (kdict_set str_eqb acc (fst kv) x)) ->
  forall items acc, res_fold f items acc = cast_items P types items acc.
Proof.
  intros Hf items. induction items as [|[k v] r IH]; intros acc; cbn [res_fold cast_items]; [reflexivity|].
  rewrite Hf. cbn [fst snd].
  destruct (kdict_get str_eqb 25 types k) as [t|e]; cbn [res_bind]; [|reflexivity].
  destruct (convert P t v) as [x|e]; cbn [res_bind]; [|reflexivity].
  apply IH.
Qed.

Theorem src_cast_dict_is_model : forall (F O : Type) (P : pyprims F O) (k_v_string : list (str * str))
  (k_v_types : list (str * ann)),
  src_cast_dict_to_type F O P k_v_string k_v_types = cast_dict P k_v_string k_v_types.
Proof.
  intros. unfold src_cast_dict_to_type, cast_dict. cbv zeta.
  rewrite (cast_loop P k_v_types).
  - apply res_bind_ret.
  - intros acc [k v]. cbn [fst snd].
    destruct (kdict_get str_eqb 25 k_v_types k) as [t|e]; cbn [res_bind]; [|reflexivity].
    unfold convert.
    rewrite (call_callable_ext P (src_str_to_bool F O P) (str_to_bool P) (src_str_to_bool_is_model P)).
    reflexivity.
Qed.

Theorem src_kv_append_is_model : forall (dest : option (list (str * str))) (values : list str),
  src_kv_append dest values = kv_append dest values.
Proof.
  intros dest values. unfold src_kv_append, kv_append.
  destruct values as [|w [|w2 r]].
  - reflexivity.
  - cbn [length Z.of_nat Z.eqb Pos.of_succ_nat Pos.eqb]. change (list_get [w] 0) with (Ok w). cbn [res_bind].
    change ([61] : str) with s_eq.
    destruct (str_split w s_eq 2) as [parts|t]; cbn [res_bind res_catch_tags].
    + destruct parts as [|k [|v [|x parts]]]; reflexivity.
    + destruct (zmem t [23; 24]); reflexivity.
  - replace (Z.of_nat (length (w :: w2 :: r)) =? 1) with false; [reflexivity|].
    symmetry. apply Z.eqb_neq. cbn [length]. lia.
Qed.

(* ---------- part 2: the statements of get_args() after parser.parse_args(), and main() as a whole command ---------- *)
(* the `if not args.<x>_param: ... = {} else: ... = cast_dict_to_type(...)` block, for any continuation *)
Lemma cast_block {F O X : Type} (P : pyprims F O) (param : option (list (str * str))) (req : list (str * ann))
  (k : list (str * pval F O) -> result X) :
  (if negb (opt_list_truthy param) then k []
   else dor u <- unwrap param; dor r <- src_cast_dict_to_type F O P u req; k r)
  = dor ps <- cast_params P param req; k ps.
Proof.
  destruct param as [[|x l]|]; cbn [opt_list_truthy negb unwrap res_bind cast_params]; try reflexivity.
  now rewrite src_cast_dict_is_model.
Qed.

(* class lookup, required-argument annotations, cast: the three steps every get_args() makes per class-valued option *)
Lemma resolve_block {Cls F O X : Type} (I : introspect Cls) (P : pyprims F O) (base : base_class) (name : str)
  (param : option (list (str * str))) (k : option Cls -> list (str * pval F O) -> result X) :
  (dor c <- i_get_class I s_batchie name base;
   dor req <- i_required I c;
   if negb (opt_list_truthy param) then k c []
   else dor u <- unwrap param; dor r <- src_cast_dict_to_type F O P u req; k c r)
  = dor cp <- resolve I P base name param; k (fst cp) (snd cp).
Proof.
  unfold resolve.
  destruct (i_get_class I s_batchie name base) as [c|e]; cbn [res_bind]; [|reflexivity].
  destruct (i_required I c) as [req|e]; cbn [res_bind]; [|reflexivity].
  rewrite (cast_block P param req (k c)).
  destruct (cast_params P param req); reflexivity.
Qed.

Theorem src_cs_get_args_is_model : forall (Cls F O : Type) (I : introspect Cls) (P : pyprims F O) (raw : cs_ns Cls F O),
  src_cs_get_args Cls F O I P raw = cs_get_args I P raw.
Proof.
  intros. unfold src_cs_get_args, cs_get_args. cbv zeta.
  rewrite <- (resolve_block I P BScorer (cs_scorer raw) (cs_scorer_param raw)
                (fun c ps => Ok (cs_set_scorer_params (cs_set_scorer_cls raw c) ps))).
  unfold s_batchie.
  destruct (i_get_class I [98; 97; 116; 99; 104; 105; 101] (cs_scorer raw) BScorer) as [c|e]; cbn [res_bind]; [|reflexivity].
  cbn [cs_scorer_cls cs_scorer_param cs_set_scorer_cls].
  destruct (i_required I c) as [req|e]; cbn [res_bind]; [|reflexivity].
  apply res_bind_ret.
Qed.

(* main() as a whole command: get_args() is the translated get_args on the raw namespace, the scorer is `construct` on the
   class and the parameters the namespace holds *)
Theorem src_cli_calculate_scores_cmd_is_model :
  forall (Cls F O : Type) (I : introspect Cls) (P : pyprims F O) (Scr Pl Th Dm Sc H : Type)
         (construct : Cls -> list (str * pval F O) -> result Sc) (L : cs_lib Scr Pl Th Dm Sc H) (mix : Z -> Z)
         (raw : cs_ns Cls F O),
  src_cli_calculate_scores_cmd Cls F O I P Scr Pl Th Dm Sc H construct L mix raw
  = cli_calculate_scores_cmd I P construct L mix raw.
Proof.
  intros. unfold src_cli_calculate_scores_cmd, cli_calculate_scores_cmd. cbv zeta.
  rewrite src_cs_get_args_is_model.
  destruct (cs_get_args I P raw) as [a|e]; cbn [res_bind]; [|reflexivity].
  rewrite <- C06SourceCli.src_cli_calculate_scores_is_model.
  unfold SrcCli.src_cli_calculate_scores, instantiate. cbv zeta.
  cbn [cs_with_mk cs_load_screen cs_plates cs_is_observed cs_plate_id cs_mk_scorer cs_load_thetas cs_concat_thetas cs_load_dist
       cs_concat_dist cs_score_chunk].
  destruct (cs_load_screen L (cs_data (cs_plain a))); cbn [res_bind]; [|reflexivity].
  destruct (unwrap (cs_scorer_cls a)); cbn [res_bind]; reflexivity.
Qed.

(* the same, with the model spelled out: the scorer component of the main() model IS the resolved class instantiated with
   the cast parameters *)
Theorem src_cli_calculate_scores_cmd_spelled :
  forall (Cls F O : Type) (I : introspect Cls) (P : pyprims F O) (Scr Pl Th Dm Sc H : Type)
         (construct : Cls -> list (str * pval F O) -> result Sc) (L : cs_lib Scr Pl Th Dm Sc H) (mix : Z -> Z)
         (raw : cs_ns Cls F O),
  src_cli_calculate_scores_cmd Cls F O I P Scr Pl Th Dm Sc H construct L mix raw
  = (dor cp <- resolve I P BScorer (cs_scorer raw) (cs_scorer_param raw);
     cli_calculate_scores (cs_with_mk L (instantiate construct (fst cp) (snd cp))) mix (cs_plain raw)).
Proof.
  intros. rewrite src_cli_calculate_scores_cmd_is_model.
  unfold cli_calculate_scores_cmd, cs_get_args.
  destruct (resolve I P BScorer (cs_scorer raw) (cs_scorer_param raw)); reflexivity.
Qed.
