(* The argument-handling glue of the command-line wrappers, part 1: cli/argument_parsing.py.  The hand-written models
   Cli.str_to_bool / cast_dict / kv_append equal the translations of the WHOLE functions str_to_bool, cast_dict_to_type and
   KVAppendAction.__call__ of /repo, regenerated on every run (Generated/SrcCliArgs.v, configurations ARGS_* of
   harness/src_functions.py), for every record of string primitives and all inputs.

   Each link is proved in its own file - Proofs/C18SourceArgs_StrBool.v, C18SourceArgs_Cast.v (with the cast / resolve blocks every
   get_args() link uses), C18SourceArgs_KV.v, C18SourceArgs_Cmd.v (part 2: get_args() and main() of calculate_scores) - which is what
   the argument links of the OTHER wrappers import, so that they depend on the translations of str_to_bool and cast_dict_to_type
   only.  This file states the links together, for Props/C18.v. *)
From Coq Require Import ZArith List Bool Lia.
From Batchie Require Import Lib.Sexp Lib.PyRt Model.Cli Generated.SrcCli Generated.SrcCliArgs Proofs.PyRtLemmas
  Proofs.C18SourceArgs_StrBool Proofs.C18SourceArgs_Cast Proofs.C18SourceArgs_KV Proofs.C18SourceArgs_Cmd.
Import ListNotations.
Open Scope Z_scope.

Theorem src_str_to_bool_is_model : forall {F O : Type} (P : pyprims F O) (s : str),
  src_str_to_bool F O P s = str_to_bool P s.
Proof. exact (@C18SourceArgs_StrBool.src_str_to_bool_is_model). Qed.

Theorem src_cast_dict_is_model : forall (F O : Type) (P : pyprims F O) (k_v_string : list (str * str))
  (k_v_types : list (str * ann)),
  src_cast_dict_to_type F O P k_v_string k_v_types = cast_dict P k_v_string k_v_types.
Proof. exact C18SourceArgs_Cast.src_cast_dict_is_model. Qed.

Theorem src_kv_append_is_model : forall (dest : option (list (str * str))) (values : list str),
  src_kv_append dest values = kv_append dest values.
Proof. exact C18SourceArgs_KV.src_kv_append_is_model. Qed.

Theorem src_cs_get_args_is_model : forall (Cls F O : Type) (I : introspect Cls) (P : pyprims F O) (raw : cs_ns Cls F O),
  src_cs_get_args Cls F O I P raw = cs_get_args I P raw.
Proof. exact C18SourceArgs_Cmd.src_cs_get_args_is_model. Qed.

(* main() as a whole command: get_args() is the translated get_args on the raw namespace, the scorer is `construct` on the
   class and the parameters the namespace holds *)
Theorem src_cli_calculate_scores_cmd_is_model :
  forall (Cls F O : Type) (I : introspect Cls) (P : pyprims F O) (Scr Pl Th Dm Sc H : Type)
         (construct : Cls -> list (str * pval F O) -> result Sc) (L : cs_lib Scr Pl Th Dm Sc H) (mix : Z -> Z)
         (raw : cs_ns Cls F O),
  src_cli_calculate_scores_cmd Cls F O I P Scr Pl Th Dm Sc H construct L mix raw
  = cli_calculate_scores_cmd I P construct L mix raw.
Proof. exact C18SourceArgs_Cmd.src_cli_calculate_scores_cmd_is_model. Qed.

(* the same, with the model spelled out: the scorer component of the main() model IS the resolved class instantiated with
   the cast parameters *)
Theorem src_cli_calculate_scores_cmd_spelled :
  forall (Cls F O : Type) (I : introspect Cls) (P : pyprims F O) (Scr Pl Th Dm Sc H : Type)
         (construct : Cls -> list (str * pval F O) -> result Sc) (L : cs_lib Scr Pl Th Dm Sc H) (mix : Z -> Z)
         (raw : cs_ns Cls F O),
  src_cli_calculate_scores_cmd Cls F O I P Scr Pl Th Dm Sc H construct L mix raw
  = (dor cp <- resolve I P BScorer (cs_scorer raw) (cs_scorer_param raw);
     cli_calculate_scores (cs_with_mk L (instantiate construct (fst cp) (snd cp))) mix (cs_plain raw)).
Proof. exact C18SourceArgs_Cmd.src_cli_calculate_scores_cmd_spelled. Qed.
