(* C06: the PRIMITIVES of the scoring links that are data.py helpers are theorems.
   The configurations C06_SELECT / C06_SCORE_CHUNK (harness/src_functions.py) give a meaning, in the vocabulary of Model/Scores.v
   (a Screen = its rows (plate id, observed bit, sample id, treatment ids) in storage order; a Plate = its id and the
   (position, row) pairs it selects), to screen.plates, screen.get_plate, plate.plate_id, plate.is_observed and plate.plate_name.
   Those helpers are translated themselves (Generated/SrcViews.v, Generated/SrcPlates.v; equal to the models of Model/Views.v by
   Props/C14.v).  This file proves that each translation, read through the representation below, is the meaning the primitive was
   given.  Representation: [sc_rows p] = the Scores rows of a Views screen (row i = the i-th entries of plate_ids, the mask,
   sample_ids, treatment_ids), [sc_subset v] = the (position, row) pairs at the positions the view's selection vector selects.
   Side conditions: [screen_wf] (every constructed screen), [view_ok] (every constructed view). *)
From Coq Require Import ZArith List Bool Arith Lia ZifyBool.
From Batchie Require Import Lib.Sexp Lib.PyRt Model.Encode Model.Screen Model.Views Generated.SrcViews Generated.SrcPlates
  Proofs.PyRtLemmas Proofs.C01Sort Proofs.C14Defs Proofs.C14Lists Proofs.C14Views
  Proofs.C14Source_GetPlate Proofs.C14Source_Plates
  Proofs.C14SourceHelpers_Base Proofs.C14SourceHelpers_PlateId Proofs.C14SourceHelpers_PlateName Proofs.C14SourceHelpers_ViewObserved.
From Batchie Require Model.Scores.
Import ListNotations.
Open Scope nat_scope.

Definition sc_row (p : screen) (i : nat) : Scores.row :=
  Scores.mkrow (nth i (s_pids p) 0%Z) (nth i (screen_mask p) false) (nth i (s_sids p) 0%Z) (nth i (s_tids p) []).
Definition sc_rows (p : screen) : Scores.screen := map (sc_row p) (seq 0 (screen_size p)).
Definition sc_subset (v : view) : list Scores.irow :=
  filter (fun ir => nth (fst ir) (v_sel v) false) (Scores.indexed (sc_rows (v_parent v))).
Definition sc_plate (pid : Z) (v : view) : Scores.plate := Scores.mkplate pid (sc_subset v).

(* ---------------- the two sort_uniq agree ---------------- *)
Lemma sc_insert_uniq x l : Scores.insert_uniq x l = insert_uniq Z.compare x l.
Proof.
  induction l as [|y l IH]; cbn [Scores.insert_uniq insert_uniq]; [reflexivity|].
  destruct (Z.compare_spec x y) as [->|H|H].
  - rewrite Z.ltb_irrefl, Z.eqb_refl. reflexivity.
  - replace (x <? y)%Z with true by lia. reflexivity.
  - replace (x <? y)%Z with false by lia. replace (x =? y)%Z with false by lia. now rewrite IH.
Qed.

Lemma sc_sort_uniq l : Scores.sort_uniq l = sort_uniq Z.compare l.
Proof.
  unfold Scores.sort_uniq, sort_uniq. induction l as [|x l IH]; cbn [fold_right]; [reflexivity|]. now rewrite IH, sc_insert_uniq.
Qed.

(* ---------------- the representation, by positions ---------------- *)
Lemma sc_indexed p : Scores.indexed (sc_rows p) = map (fun i => (i, sc_row p i)) (seq 0 (screen_size p)).
Proof.
  unfold Scores.indexed, sc_rows. rewrite map_length, seq_length.
  generalize (seq 0 (screen_size p)). intros l. induction l as [|i l IH]; cbn [map combine]; [reflexivity | now rewrite IH].
Qed.

Lemma sc_plate_ids p : screen_wf p -> map Scores.r_plate (sc_rows p) = s_pids p.
Proof.
  intros (_ & HP & _). unfold sc_rows. rewrite map_map. cbn [sc_row Scores.r_plate]. rewrite <- HP. apply map_nth_seq.
Qed.

(* ---------------- screen.get_plate / screen.plates ---------------- *)
Theorem src_get_plate_is_scores_get_plate : forall (t : Z) (p : screen) (pid : Z), screen_wf p ->
  exists v, src_get_plate (t, p) pid = Ok v /\ sc_plate pid v = Scores.get_plate (sc_rows p) pid /\
            v_tag v = t /\ v_parent v = p /\ view_ok v.
Proof.
  intros t p pid Hwf. rewrite src_get_plate_is_model. cbn [fst snd].
  destruct (get_plate_spec t p pid Hwf) as (v & Hv & Ht & Hp & Hok & Hn). exists v. split; [exact Hv|]. split; [|auto].
  unfold sc_plate, Scores.get_plate, sc_subset, Scores.sub_rows. f_equal. rewrite Hp, sc_indexed.
  apply filter_ext_in. intros ir Hir. apply in_map_iff in Hir. destruct Hir as (i & <- & Hi). apply in_seq in Hi.
  cbn [fst snd sc_row Scores.r_plate]. rewrite Hn. unfold row_on_plate.
  destruct Hwf as (_ & HP & _). destruct (nth_error (s_pids p) i) as [x|] eqn:E.
  - rewrite (nth_error_nth _ _ _ E). apply Z.eqb_sym.
  - apply nth_error_None in E. lia.
Qed.

Theorem src_plates_is_scores_plates : forall (t : Z) (p : screen), screen_wf p ->
  exists vs, src_plates (t, p) = Ok vs /\
    Scores.plates (sc_rows p) = map (fun iv => sc_plate (fst iv) (snd iv)) (combine (sort_uniq Z.compare (s_pids p)) vs) /\
    length vs = length (sort_uniq Z.compare (s_pids p)) /\
    Forall (fun v => v_tag v = t /\ v_parent v = p /\ view_ok v) vs.
Proof.
  intros t p Hwf. rewrite src_plates_is_model. cbn [fst snd]. rewrite (plates_spec t p Hwf). eexists. split; [reflexivity|].
  unfold Scores.plates, Scores.unique_plate_ids. rewrite (sc_plate_ids p Hwf), sc_sort_uniq.
  set (ids := sort_uniq Z.compare (s_pids p)). split; [|split].
  - induction ids as [|pid ids IH]; cbn [map combine]; [reflexivity|]. rewrite IH. f_equal. cbn [fst snd].
    destruct (src_get_plate_is_scores_get_plate t p pid Hwf) as (v & Hv & Hs & _).
    rewrite src_get_plate_is_model in Hv. cbn [fst snd] in Hv. unfold get_plate in Hv.
    destruct Hwf as (_ & HP & _). rewrite mk_view_ok in Hv by (now rewrite map_length). injection Hv as <-. now rewrite Hs.
  - now rewrite map_length.
  - apply Forall_forall. intros v Hv. apply in_map_iff in Hv. destruct Hv as (pid & <- & _). cbn [v_tag v_parent].
    repeat split. unfold view_ok. cbn [v_sel v_parent]. rewrite map_length. destruct Hwf as (_ & HP & _). exact HP.
Qed.

(* ---------------- plate.plate_id ---------------- *)
Lemma select_eqb_mask pid (l : list Z) : select (map (fun x => (x =? pid)%Z) l) l = filter (fun x => (x =? pid)%Z) l.
Proof. induction l as [|x l IH]; cbn [map select filter]; [reflexivity|]. now rewrite IH. Qed.

(* the plate screen.get_plate(pid) returns, pid a plate id of the screen, answers pid to plate_id: the [p_id] of the model's plate *)
Theorem src_plate_id_is_scores_p_id : forall (t : Z) (p : screen) (pid : Z), screen_wf p -> In pid (s_pids p) ->
  exists v, src_get_plate (t, p) pid = Ok v /\ src_plate_id v = Ok (Scores.p_id (Scores.get_plate (sc_rows p) pid)).
Proof.
  intros t p pid Hwf Hin. destruct (src_get_plate_is_scores_get_plate t p pid Hwf) as (v & Hv & _). exists v. split; [exact Hv|].
  rewrite src_get_plate_is_model in Hv. cbn [fst snd] in Hv. unfold get_plate in Hv.
  destruct Hwf as (_ & HP & _). rewrite mk_view_ok in Hv by (now rewrite map_length). injection Hv as <-.
  rewrite src_plate_id_is_model. unfold view_plate_id, view_unique_pids, view_pids. cbn [v_sel v_parent Scores.p_id Scores.get_plate].
  rewrite select_eqb_mask.
  rewrite (sort_uniq_ext Z.compare Zcmp_spec _ [pid]); [reflexivity|].
  intros x. rewrite filter_In. cbn [In]. split.
  - intros [_ E]. left. lia.
  - intros [<-|[]]. split; [exact Hin | apply Z.eqb_refl].
Qed.

(* ---------------- plate.is_observed / plate.plate_name on any well-formed view ---------------- *)
Lemma sc_subset_positions v : screen_wf (v_parent v) -> view_ok v ->
  sc_subset v = map (fun i => (i, sc_row (v_parent v) i)) (np_where (v_sel v)).
Proof.
  intros Hwf Hok. unfold sc_subset. rewrite sc_indexed, where_filter. unfold view_ok in Hok. rewrite Hok.
  generalize (seq 0 (screen_size (v_parent v))). intros l.
  induction l as [|i l IH]; cbn [map filter fst]; [reflexivity|]. destruct (nth i (v_sel v) false); cbn [map]; now rewrite IH.
Qed.

Theorem src_view_is_observed_is_scores : forall (pid : Z) (v : view), screen_wf (v_parent v) -> view_ok v ->
  src_view_is_observed v = Ok (Scores.is_observed (sc_plate pid v)).
Proof.
  intros pid v Hwf Hok. rewrite src_view_is_observed_is_model. f_equal.
  unfold view_is_observed, view_mask, Scores.is_observed, sc_plate. cbn [Scores.p_rows].
  rewrite (sc_subset_positions v Hwf Hok), forallb_map. cbn [snd sc_row Scores.r_obs].
  fold (screen_mask (v_parent v)).
  rewrite (select_nth false (v_sel v) (screen_mask (v_parent v))).
  - now rewrite forallb_map.
  - unfold screen_mask. rewrite map_length. destruct Hwf as (_ & _ & HR & _). unfold view_ok in Hok. congruence.
Qed.

(* plate.plate_name: the model's answer is the POSITION of the plate's first row; the translated property returns the plate
   name stored at that position, and raises (IndexError) exactly when the model does *)
Theorem src_plate_name_is_scores_plate_name : forall (pid : Z) (v : view), screen_wf (v_parent v) -> view_ok v ->
  match Scores.plate_name (sc_plate pid v) with
  | Ok i => src_plate_name v = Ok (nth i (map r_plate (s_rows (v_parent v))) [])
  | Err _ => src_plate_name v = Err 98%Z
  end.
Proof.
  intros pid v Hwf Hok.
  assert (E : src_plate_name v = match np_where (v_sel v) with
                                 | [] => Err 98%Z
                                 | i :: _ => Ok (nth i (map r_plate (s_rows (v_parent v))) [])
                                 end).
  { rewrite src_plate_name_is_model. unfold view_plate_name, view_plate_names.
    rewrite (select_nth ([] : name) (v_sel v) (map r_plate (s_rows (v_parent v)))).
    - destruct (np_where (v_sel v)); reflexivity.
    - rewrite map_length. destruct Hwf as (_ & _ & HR & _). unfold view_ok in Hok. congruence. }
  unfold Scores.plate_name, sc_plate. cbn [Scores.p_rows]. rewrite (sc_subset_positions v Hwf Hok), E.
  destruct (np_where (v_sel v)) as [|i r]; reflexivity.
Qed.
