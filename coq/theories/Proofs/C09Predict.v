(* C09 proofs, part 2: the vectorised prediction code is a map of a one-experiment formula;
   symmetry, control neutrality, ranges, subsets, holders. *)
From Coq Require Import ZArith List QArith Qcanon Lia ZifyBool Arith Bool.
From Batchie Require Import Lib.Sexp Lib.Num Lib.NumP Model.Predict Proofs.C09Lists.
Import ListNotations.
Open Scope Qc_scope.

(* ---------------------------------------------------------------- gathers over a mapped column *)

Lemma gather_map {A X} (d : A) arr (f : X -> Z) l :
  gather d arr (map f l) = map (fun x => py_get d arr (f x)) l.
Proof. unfold gather. apply map_map. Qed.

Lemma gather_zero2_map {X} V (f : X -> Z) l :
  gather_zero2 V (map f l) = map (fun x => emb2 V (f x)) l.
Proof.
  unfold gather_zero2, zero_where. rewrite gather_map, map2_map. reflexivity.
Qed.

Lemma gather_zero1_map {X} V (f : X -> Z) l :
  gather_zero1 V (map f l) = map (fun x => emb1 V (f x)) l.
Proof.
  unfold gather_zero1, zero_where. rewrite gather_map, map2_map. reflexivity.
Qed.

Lemma mmul_map {X} (f g : X -> list Qc) l : mmul (map f l) (map g l) = map (fun x => vmul (f x) (g x)) l.
Proof. apply map2_map. Qed.
Lemma madd_map {X} (f g : X -> list Qc) l : madd (map f l) (map g l) = map (fun x => vadd (f x) (g x)) l.
Proof. apply map2_map. Qed.
Lemma vadd_map {X} (f g : X -> Qc) l : vadd (map f l) (map g l) = map (fun x => f x + g x) l.
Proof. apply map2_map. Qed.
Lemma sum_last_map {X} (f : X -> list Qc) l : sum_last (map f l) = map (fun x => qsum (f x)) l.
Proof. unfold sum_last. apply map_map. Qed.

(* ---------------------------------------------------------------- row-wise *)

Theorem sp_mean2_rowwise t rows : sp_mean2 t rows = map (sp_mean_row2 t) rows.
Proof.
  unfold sp_mean2, col_s, col_t0, col_t1.
  rewrite !gather_map, !gather_zero2_map, !gather_zero1_map.
  rewrite !mmul_map, !madd_map, !mmul_map, !sum_last_map, map_map, !vadd_map.
  apply map_ext. intros [[s a] b]. reflexivity.
Qed.

Theorem sp_mean1_rowwise t rows : sp_mean1 t rows = map (sp_mean_row1 t) rows.
Proof.
  unfold sp_mean1.
  rewrite !gather_map, !gather_zero2_map, !gather_zero1_map.
  rewrite !mmul_map, !sum_last_map, map_map, !vadd_map.
  apply map_ext. intros [s a]. reflexivity.
Qed.

Theorem in_mean2_rowwise t rows : in_mean2 t rows = map (in_mean_row2 t) rows.
Proof.
  unfold in_mean2, col_s, col_t0, col_t1.
  rewrite !gather_map, !gather_zero2_map, !mmul_map, !sum_last_map.
  apply map_ext. intros [[s a] b]. reflexivity.
Qed.

Theorem in_viab2_rowwise orc t rows : in_viab2 orc t rows = map (in_viab_row2 orc t) rows.
Proof.
  unfold in_viab2. rewrite in_mean2_rowwise, map2_map. reflexivity.
Qed.


(* every prediction of one sample, as a map over the rows *)
Definition sp_row1 orc (viab : bool) t (r : Z * Z) : Qc :=
  if viab then viab_of_mean orc (sp_mean_row1 t r) else sp_mean_row1 t r.
Definition sp_row2 orc (viab : bool) t (r : Z * Z * Z) : Qc :=
  if viab then viab_of_mean orc (sp_mean_row2 t r) else sp_mean_row2 t r.
Definition in_row2 orc (viab : bool) t (r : Z * Z * Z) : Qc :=
  if viab then in_viab_row2 orc t r else in_mean_row2 t r.

Lemma sp_post1 orc viab t rows : post orc viab (sp_mean1 t rows) = map (sp_row1 orc viab t) rows.
Proof. rewrite sp_mean1_rowwise. destruct viab; cbn [post]; [apply map_map|reflexivity]. Qed.
Lemma sp_post2 orc viab t rows : post orc viab (sp_mean2 t rows) = map (sp_row2 orc viab t) rows.
Proof. rewrite sp_mean2_rowwise. destruct viab; cbn [post]; [apply map_map|reflexivity]. Qed.

Lemma sp_predict_eq orc viab t scr :
  sp_predict orc viab t scr =
  match scr with
  | Scr1 rows => if forallb (sp_valid_row1 t) rows then Ok (map (sp_row1 orc viab t) rows) else Err ERR_INDEX
  | Scr2 rows => if forallb (sp_valid_row2 t) rows then Ok (map (sp_row2 orc viab t) rows) else Err ERR_INDEX
  | ScrN _ _ => Err ERR_ARITY
  end.
Proof. destruct scr; cbn [sp_predict]; now rewrite ?sp_post1, ?sp_post2. Qed.

Lemma in_predict_eq orc viab t scr :
  in_predict orc viab t scr =
  match scr with
  | Scr2 rows =>
      if negb (forallb (in_valid_row2 t) rows) then Err ERR_INDEX
      else if viab && negb (forallb (in_haskey_row2 t) rows) then Err ERR_KEY
      else Ok (map (in_row2 orc viab t) rows)
  | _ => Err ERR_ARITY
  end.
Proof.
  destruct scr; cbn [in_predict]; try reflexivity.
  destruct (negb (forallb (in_valid_row2 t) rows)); [reflexivity|].
  destruct viab; cbn [andb].
  - destruct (forallb (in_haskey_row2 t) rows); cbn [negb]; [|reflexivity].
    now rewrite in_viab2_rowwise.
  - now rewrite in_mean2_rowwise.
Qed.

(* ---------------------------------------------------------------- lengths *)

Lemma theta_predict_length orc k t scr v : theta_predict orc k t scr = Ok v -> length v = scr_size scr.
Proof.
  destruct k; cbn [theta_predict].
  - destruct t as [p|p]; [rewrite sp_predict_eq|rewrite in_predict_eq]; destruct scr; cbn [scr_size]; try discriminate.
    + destruct (forallb _ rows); [|discriminate]. intros H; inversion H. apply map_length.
    + destruct (forallb _ rows); [|discriminate]. intros H; inversion H. apply map_length.
    + destruct (negb _); [discriminate|]. destruct (_ && _); [discriminate|]. intros H; inversion H. apply map_length.
  - destruct t as [p|p]; [rewrite sp_predict_eq|rewrite in_predict_eq]; destruct scr; cbn [scr_size]; try discriminate.
    + destruct (forallb _ rows); [|discriminate]. intros H; inversion H. apply map_length.
    + destruct (forallb _ rows); [|discriminate]. intros H; inversion H. apply map_length.
    + destruct (negb _); [discriminate|]. destruct (_ && _); [discriminate|]. intros H; inversion H. apply map_length.
  - unfold variance. destruct (qeqb _ _); [discriminate|]. intros H; inversion H. apply repeat_length.
Qed.

(* ---------------------------------------------------------------- subsets and row orders *)

Lemma scr_select_size mask scr :
  scr_size (scr_select mask scr) = length (select mask (repeat tt (scr_size scr))).
Proof. destruct scr; cbn [scr_select scr_size]; try apply select_length. reflexivity. Qed.

Theorem predict_subset orc k t scr mask v :
  theta_predict orc k t scr = Ok v ->
  theta_predict orc k t (scr_select mask scr) = Ok (select mask v).
Proof.
  destruct k; cbn [theta_predict].
  - destruct t as [p|p]; rewrite ?sp_predict_eq, ?in_predict_eq; destruct scr; cbn [scr_select]; try discriminate.
    + destruct (forallb _ rows) eqn:E; [|discriminate]. intros H; inversion H.
      rewrite (forallb_select _ mask _ E). now rewrite select_map.
    + destruct (forallb _ rows) eqn:E; [|discriminate]. intros H; inversion H.
      rewrite (forallb_select _ mask _ E). now rewrite select_map.
    + destruct (forallb (in_valid_row2 p) rows) eqn:E; cbn [negb andb]; [|discriminate]. intros H; inversion H.
      rewrite (forallb_select _ mask _ E). cbn [negb]. now rewrite select_map.
  - destruct t as [p|p]; rewrite ?sp_predict_eq, ?in_predict_eq; destruct scr; cbn [scr_select]; try discriminate.
    + destruct (forallb _ rows) eqn:E; [|discriminate]. intros H; inversion H.
      rewrite (forallb_select _ mask _ E). now rewrite select_map.
    + destruct (forallb _ rows) eqn:E; [|discriminate]. intros H; inversion H.
      rewrite (forallb_select _ mask _ E). now rewrite select_map.
    + destruct (forallb (in_valid_row2 p) rows) eqn:E; cbn [negb andb]; [|discriminate].
      destruct (forallb (in_haskey_row2 p) rows) eqn:E2; cbn [negb]; [|discriminate]. intros H; inversion H.
      rewrite (forallb_select _ mask _ E), (forallb_select _ mask _ E2). cbn [negb andb]. now rewrite select_map.
  - unfold variance. destruct (qeqb _ _); [discriminate|]. intros H; inversion H.
    now rewrite scr_select_size, (select_repeat (1 / theta_prec t)).
Qed.

Lemma scr_take_size idx scr : scr_size (scr_take idx scr) = length idx.
Proof. destruct scr; cbn [scr_take scr_size]; unfold take_idx; try apply map_length. reflexivity. Qed.

Lemma take_map0 {A} (f : A -> Qc) d idx l :
  Forall (fun i => (i < length l)%nat) idx -> take_idx 0 idx (map f l) = map f (take_idx d idx l).
Proof.
  intros H. rewrite <- take_idx_map. apply take_idx_indep. now rewrite map_length.
Qed.

Theorem predict_take orc k t scr idx v :
  Forall (fun i => (i < scr_size scr)%nat) idx ->
  theta_predict orc k t scr = Ok v ->
  theta_predict orc k t (scr_take idx scr) = Ok (take_idx 0 idx v).
Proof.
  intros Hidx. destruct k; cbn [theta_predict].
  - destruct t as [p|p]; rewrite ?sp_predict_eq, ?in_predict_eq; destruct scr; cbn [scr_take scr_size] in *; try discriminate.
    + destruct (forallb _ rows) eqn:E; [|discriminate]. intros H; inversion H.
      rewrite (forallb_take _ _ idx _ Hidx E). now rewrite (take_map0 _ (0, 0)%Z).
    + destruct (forallb _ rows) eqn:E; [|discriminate]. intros H; inversion H.
      rewrite (forallb_take _ _ idx _ Hidx E). now rewrite (take_map0 _ (0, 0, 0)%Z).
    + destruct (forallb (in_valid_row2 p) rows) eqn:E; cbn [negb andb]; [|discriminate]. intros H; inversion H.
      rewrite (forallb_take _ _ idx _ Hidx E). cbn [negb]. now rewrite (take_map0 _ (0, 0, 0)%Z).
  - destruct t as [p|p]; rewrite ?sp_predict_eq, ?in_predict_eq; destruct scr; cbn [scr_take scr_size] in *; try discriminate.
    + destruct (forallb _ rows) eqn:E; [|discriminate]. intros H; inversion H.
      rewrite (forallb_take _ _ idx _ Hidx E). now rewrite (take_map0 _ (0, 0)%Z).
    + destruct (forallb _ rows) eqn:E; [|discriminate]. intros H; inversion H.
      rewrite (forallb_take _ _ idx _ Hidx E). now rewrite (take_map0 _ (0, 0, 0)%Z).
    + destruct (forallb (in_valid_row2 p) rows) eqn:E; cbn [negb andb]; [|discriminate].
      destruct (forallb (in_haskey_row2 p) rows) eqn:E2; cbn [negb]; [|discriminate]. intros H; inversion H.
      rewrite (forallb_take _ _ idx _ Hidx E), (forallb_take _ _ idx _ Hidx E2). cbn [negb andb].
      now rewrite (take_map0 _ (0, 0, 0)%Z).
  - unfold variance. destruct (qeqb _ _); [discriminate|]. intros H; inversion H.
    now rewrite scr_take_size, take_idx_repeat.
Qed.

(* ---------------------------------------------------------------- treatment-order symmetry *)

Theorem sp_mean_row2_swap t s a b : sp_mean_row2 t (s, a, b) = sp_mean_row2 t (s, b, a).
Proof.
  cbn [sp_mean_row2].
  rewrite (vadd_comm (emb2 (sV1 t) a)), (vmul3_swap _ (emb2 (sV2 t) a)). ring.
Qed.

Theorem in_mean_row2_swap t s a b : in_mean_row2 t (s, a, b) = in_mean_row2 t (s, b, a).
Proof. cbn [in_mean_row2]. now rewrite vmul3_swap. Qed.

Lemma in_single_swap t s a b : in_single t (s, a, b) = in_single t (s, b, a).
Proof. cbn [in_single]. f_equal. ring. Qed.

Lemma sp_row2_swap orc viab t r : sp_row2 orc viab t (swap_row r) = sp_row2 orc viab t r.
Proof. destruct r as [[s a] b]. unfold sp_row2. cbn [swap_row]. now rewrite (sp_mean_row2_swap t s b a). Qed.

Lemma in_row2_swap orc viab t r : in_row2 orc viab t (swap_row r) = in_row2 orc viab t r.
Proof.
  destruct r as [[s a] b]. unfold in_row2, in_viab_row2. cbn [swap_row].
  now rewrite (in_mean_row2_swap t s b a), (in_single_swap t s b a).
Qed.

Lemma forallb_map_ext {A} (p : A -> bool) (f : A -> A) l :
  (forall x, p (f x) = p x) -> forallb p (map f l) = forallb p l.
Proof. intros H. induction l as [|x l IH]; [reflexivity|]. cbn [map forallb]. now rewrite H, IH. Qed.

Lemma sp_valid_row2_swap t r : sp_valid_row2 t (swap_row r) = sp_valid_row2 t r.
Proof.
  destruct r as [[s a] b]. cbn [swap_row sp_valid_row2].
  destruct (sp_valid_s t s), (sp_valid_t2 t a), (sp_valid_t2 t b); reflexivity.
Qed.
Lemma in_valid_row2_swap t r : in_valid_row2 t (swap_row r) = in_valid_row2 t r.
Proof.
  destruct r as [[s a] b]. cbn [swap_row in_valid_row2].
  destruct (py_valid _ s), (py_valid _ a), (py_valid _ b); reflexivity.
Qed.
Lemma in_haskey_row2_swap t r : in_haskey_row2 t (swap_row r) = in_haskey_row2 t r.
Proof.
  destruct r as [[s a] b]. cbn [swap_row in_haskey_row2].
  destruct (lookup _ s a), (lookup _ s b); reflexivity.
Qed.

Theorem predict_swap orc k t scr : theta_predict orc k t (scr_swap scr) = theta_predict orc k t scr.
Proof.
  destruct scr as [rows|rows|a n]; cbn [scr_swap]; try reflexivity.
  destruct k; cbn [theta_predict].
  - destruct t as [p|p]; rewrite ?sp_predict_eq, ?in_predict_eq.
    + rewrite (forallb_map_ext _ _ _ (sp_valid_row2_swap p)), map_map.
      now rewrite (map_ext _ _ (sp_row2_swap orc false p)).
    + rewrite (forallb_map_ext _ _ _ (in_valid_row2_swap p)), map_map.
      now rewrite (map_ext _ _ (in_row2_swap orc false p)).
  - destruct t as [p|p]; rewrite ?sp_predict_eq, ?in_predict_eq.
    + rewrite (forallb_map_ext _ _ _ (sp_valid_row2_swap p)), map_map.
      now rewrite (map_ext _ _ (sp_row2_swap orc true p)).
    + rewrite (forallb_map_ext _ _ _ (in_valid_row2_swap p)), (forallb_map_ext _ _ _ (in_haskey_row2_swap p)), map_map.
      now rewrite (map_ext _ _ (in_row2_swap orc true p)).
  - unfold variance. cbn [scr_size]. now rewrite map_length.
Qed.

(* ---------------------------------------------------------------- control neutrality *)

Lemma emb1_control V : emb1 V CONTROL = 0.
Proof. reflexivity. Qed.
Lemma emb2_control V : emb2 V CONTROL = zrow (py_get [] V CONTROL).
Proof. reflexivity. Qed.

Lemma emb2_len_le D V a : rectb D V = true -> (length (emb2 V a) <= length (py_get [] V CONTROL))%nat.
Proof.
  intros H. unfold emb2. destruct (a =? CONTROL)%Z; rewrite ?zrow_length; eapply py_get_len_le_last; eassumption.
Qed.

Theorem sp_control_right D t s a :
  rectb D (sV1 t) = true -> sp_mean_row2 t (s, a, CONTROL) = sp_mean_row1 t (s, a).
Proof.
  intros HR. cbn [sp_mean_row2 sp_mean_row1].
  rewrite emb1_control, !emb2_control, qsum_vmul_zrow.
  rewrite vadd_zrow_r by (eapply emb2_len_le; eassumption). ring.
Qed.

Theorem sp_control_left D t s a :
  rectb D (sV1 t) = true -> sp_mean_row2 t (s, CONTROL, a) = sp_mean_row1 t (s, a).
Proof. intros HR. rewrite sp_mean_row2_swap. eapply sp_control_right; eassumption. Qed.

Theorem sp_control_both t s :
  sp_mean_row2 t (s, CONTROL, CONTROL) = salpha t + py_get 0 (sW0 t) s.
Proof.
  cbn [sp_mean_row2]. rewrite emb1_control, !emb2_control, vadd_zrow_zrow, !qsum_vmul_zrow. ring.
Qed.

Theorem sp_control_single t s : sp_mean_row1 t (s, CONTROL) = salpha t + py_get 0 (sW0 t) s.
Proof. cbn [sp_mean_row1]. rewrite emb1_control, emb2_control, qsum_vmul_zrow. ring. Qed.

Definition pad_control (r : Z * Z) : Z * Z * Z := (fst r, snd r, CONTROL).

(* screen level: when the (agent, control) screen can be predicted, so can the single-agent screen, with the same values *)
Theorem sp_control_screen orc D viab t rows v :
  rectb D (sV1 t) = true ->
  sp_predict orc viab t (Scr2 (map pad_control rows)) = Ok v ->
  sp_predict orc viab t (Scr1 rows) = Ok v.
Proof.
  intros HR. rewrite !sp_predict_eq.
  destruct (forallb (sp_valid_row2 t) (map pad_control rows)) eqn:E; [|discriminate].
  intros H; inversion H; subst; clear H.
  assert (E1 : forallb (sp_valid_row1 t) rows = true).
  { rewrite forallb_forall in *. intros [s a] Hin.
    specialize (E (pad_control (s, a)) (in_map _ _ _ Hin)).
    unfold pad_control in E. cbn [fst snd sp_valid_row2] in E. cbn [sp_valid_row1]. unfold sp_valid_t2 in E.
    destruct (sp_valid_s t s); [|discriminate]. destruct (py_valid (length (sV2 t)) a); [|discriminate].
    destruct (py_valid (length (sV1 t)) a); [|discriminate]. destruct (py_valid (length (sV0 t)) a); [|discriminate].
    reflexivity. }
  rewrite E1, map_map. f_equal. apply map_ext. intros [s a].
  unfold sp_row2, sp_row1, pad_control. cbn [fst snd]. now rewrite (sp_control_right D).
Qed.

Theorem in_control_right t s a : in_mean_row2 t (s, a, CONTROL) = 0.
Proof. cbn [in_mean_row2]. rewrite emb2_control. apply qsum_vmul_zrow. Qed.

Theorem in_control_left t s a : in_mean_row2 t (s, CONTROL, a) = 0.
Proof. rewrite in_mean_row2_swap. apply in_control_right. Qed.

Section ExpLn.
Variable orc : oracle.
Hypothesis exp_ln : forall x, 0 < x -> orc ORC_EXP (orc ORC_LN x) = x.

Lemma in_viab_of_zero single : in_viab_of orc 0 (clip_viab single) = clip_viab single.
Proof.
  unfold in_viab_of. rewrite Qcplus_0_l, exp_ln by apply clip_viab_pos. apply clip_viab_idem.
Qed.

Theorem in_control_viab_right t s a :
  in_viab_row2 orc t (s, a, CONTROL)
  = clip_viab (lookup0 (ilookup t) s a * lookup0 (ilookup t) s CONTROL).
Proof. unfold in_viab_row2. rewrite in_control_right. cbn [in_single]. apply in_viab_of_zero. Qed.

Theorem in_control_viab_left t s a :
  in_viab_row2 orc t (s, CONTROL, a)
  = clip_viab (lookup0 (ilookup t) s CONTROL * lookup0 (ilookup t) s a).
Proof. unfold in_viab_row2. rewrite in_control_left. cbn [in_single]. apply in_viab_of_zero. Qed.

(* the clause "viability is the logistic of the mean" is false of the interaction type *)
Hypothesis expit_0 : orc ORC_EXPIT 0 = Q2Qc (1 # 2).

Definition witness_inter : inter_theta :=
  {| iW := [[1]]; iV2 := [[1]]; iprec := 1;
     ilookup := [(0%Z, 0%Z, Q2Qc (1 # 4)); (0%Z, (-1)%Z, 1)] |}.

Theorem inter_viability_not_logistic :
  exists t scr v m,
    theta_predict orc KViab (TI t) scr = Ok v /\ theta_predict orc KMean (TI t) scr = Ok m /\
    v <> map (viab_of_mean orc) m.
Proof.
  exists witness_inter, (Scr2 [(0, 0, CONTROL)%Z]),
    [clip_viab (Q2Qc (1 # 4) * 1)], [0].
  cbn [theta_predict]. rewrite !in_predict_eq. split; [|split].
  - cbn [map]. unfold in_row2. rewrite in_control_viab_right. reflexivity.
  - cbn [map]. unfold in_row2. rewrite in_control_right. reflexivity.
  - cbn [map]. unfold viab_of_mean. rewrite expit_0. intros E. inversion E as [E'].
Qed.
End ExpLn.

(* ---------------------------------------------------------------- viability *)

Theorem sp_viability_is_clipped_logistic orc t scr v :
  sp_predict orc true t scr = Ok v ->
  exists m, sp_predict orc false t scr = Ok m /\ v = map (fun x => clip_viab (orc ORC_EXPIT x)) m.
Proof.
  destruct scr; cbn [sp_predict]; try discriminate.
  - destruct (forallb _ rows); [|discriminate]. intros H; inversion H. eexists; split; reflexivity.
  - destruct (forallb _ rows); [|discriminate]. intros H; inversion H. eexists; split; reflexivity.
Qed.

Definition in_range (x : Qc) : Prop := VIAB_LO <= x /\ x <= VIAB_HI.

Theorem viability_range orc t scr v : theta_predict orc KViab t scr = Ok v -> Forall in_range v.
Proof.
  cbn [theta_predict]. destruct t as [p|p]; rewrite ?sp_predict_eq, ?in_predict_eq; destruct scr; try discriminate.
  - destruct (forallb _ rows); [|discriminate]. intros H; inversion H.
    apply Forall_forall. intros x Hx. apply in_map_iff in Hx as (r & <- & _). apply clip_viab_range.
  - destruct (forallb _ rows); [|discriminate]. intros H; inversion H.
    apply Forall_forall. intros x Hx. apply in_map_iff in Hx as (r & <- & _). apply clip_viab_range.
  - destruct (negb _); [discriminate|]. destruct (_ && _); [discriminate|]. intros H; inversion H.
    apply Forall_forall. intros x Hx. apply in_map_iff in Hx as (r & <- & _). apply clip_viab_range.
Qed.

(* ---------------------------------------------------------------- variance *)

Theorem variance_spec orc t scr v :
  theta_predict orc KVar t scr = Ok v ->
  v = repeat (1 / theta_prec t) (scr_size scr) /\
  (0 < theta_prec t -> Forall (fun x => 0 < x) v).
Proof.
  cbn [theta_predict]. unfold variance. destruct (qeqb _ _); [discriminate|]. intros H; inversion H.
  split; [reflexivity|]. intros Hp. apply Forall_forall. intros x Hx. apply repeat_spec in Hx. subst x.
  now apply Qc_inv_pos.
Qed.

(* ---------------------------------------------------------------- holders *)

Theorem predict_all_rows orc k h scr rows :
  predict_all orc k h scr = Ok rows ->
  length rows = h_n h /\
  forall i, (i < h_n h)%nat ->
    exists t, nth_error (h_thetas h) i = Some t /\ theta_predict orc k t scr = Ok (nth i rows []).
Proof.
  unfold predict_all, res_bind.
  destruct (res_map_all (predict_one orc k h scr) (seq 0 (h_n h))) as [rs|] eqn:E; [|discriminate].
  intros H. assert (rs = rows) as ->.
  { destruct k; try (now inversion H). destruct (h_n h); [discriminate|now inversion H]. }
  destruct (res_map_all_spec _ 0%nat [] _ _ E) as [Hlen Hnth]. rewrite seq_length in *.
  split; [assumption|]. intros i Hi. specialize (Hnth i Hi). rewrite seq_nth in Hnth by assumption.
  cbn [plus] in Hnth. unfold predict_one, res_bind, get_theta in Hnth.
  destruct (nth_error (h_thetas h) i) as [t|]; [|discriminate]. exists t. split; [reflexivity|assumption].
Qed.

Lemma avg_loop_spec f idx : forall acc r,
  avg_loop f idx acc = Ok r ->
  exists subs, res_map_all f idx = Ok subs /\ r = fold_left vadd subs acc.
Proof.
  induction idx as [|i idx IH]; intros acc r H; cbn [avg_loop res_map_all] in *.
  - inversion H. exists []. split; reflexivity.
  - unfold res_bind in *. destruct (f i) as [sub|]; [|discriminate].
    destruct (IH _ _ H) as (subs & -> & ->). exists (sub :: subs). split; reflexivity.
Qed.

Lemma fold_vadd_spec m subs : forall acc,
  length acc = m -> Forall (fun s => length s = m) subs ->
  length (fold_left vadd subs acc) = m /\
  forall j, (j < m)%nat ->
    nth j (fold_left vadd subs acc) 0 = nth j acc 0 + qsum (map (fun r => nth j r 0) subs).
Proof.
  induction subs as [|s subs IH]; intros acc Hacc Hs; cbn [fold_left map].
  - split; [assumption|]. intros j _. cbn [qsum fold_right]. ring.
  - apply Forall_cons_iff in Hs as [Hs1 Hs2].
    assert (Hl : length (vadd acc s) = m).
    { unfold vadd. rewrite map2_length, Hacc, Hs1. apply Nat.min_id. }
    destruct (IH (vadd acc s) Hl Hs2) as [H1 H2]. split; [assumption|].
    intros j Hj. rewrite H2 by assumption. rewrite qsum_cons.
    unfold vadd at 1. rewrite (map2_nth Qcplus 0 0 0) by lia. ring.
Qed.

Theorem predict_avg_exact orc k h scr v :
  k <> KVar ->
  predict_avg orc k h scr = Ok v ->
  exists rows,
    predict_all orc k h scr = Ok rows /\ length v = scr_size scr /\
    forall j, (j < scr_size scr)%nat ->
      nth j v 0 = qsum (map (fun r => nth j r 0) rows) / qofnat (h_n h).
Proof.
  intros Hk. unfold predict_avg, res_bind.
  destruct (avg_loop _ _ _) as [acc|] eqn:E; [|discriminate]. intros H.
  destruct (avg_loop_spec _ _ _ _ E) as (rows & Hrows & ->).
  assert (Hv : v = map (fun x => x / qofnat (h_n h)) (fold_left vadd rows (repeat 0 (scr_size scr)))).
  { destruct (h_n h); [destruct (scr_size scr); [now inversion H|discriminate]|now inversion H]. }
  clear H. exists rows. split.
  { unfold predict_all, res_bind. rewrite Hrows. destruct k; try reflexivity. congruence. }
  assert (Hlens : Forall (fun s => length s = scr_size scr) rows).
  { eapply res_map_all_Forall; [exact Hrows|]. intros i b _ Hb. unfold predict_one, res_bind in Hb.
    destruct (get_theta h i); [|discriminate]. eapply theta_predict_length; eassumption. }
  destruct (fold_vadd_spec (scr_size scr) rows (repeat 0 (scr_size scr)) (repeat_length _ _) Hlens) as [H1 H2].
  subst v. split; [now rewrite map_length|]. intros j Hj.
  rewrite (nth_indep _ 0 (0 / qofnat (h_n h))) by now rewrite map_length, H1.
  rewrite (map_nth (fun x => x / qofnat (h_n h))), H2 by assumption.
  rewrite nth_repeat. f_equal. ring.
Qed.
