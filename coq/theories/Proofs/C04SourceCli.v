(* The command-line wrapper train_model.main: the hand-written model Cli.cli_train_model equals the translation of
   the WHOLE function of /repo, regenerated on every run (Generated/SrcCli.v, configuration CLI_TRAIN_MODEL of
   harness/src_functions.py), for every record of library functions, all model parameters and parsed arguments. *)
From Coq Require Import ZArith List Bool.
From Batchie Require Import Lib.Sexp Lib.PyRt Model.Cli Generated.SrcCli Proofs.PyRtLemmas.
Import ListNotations.
Open Scope Z_scope.

Theorem src_cli_train_model_is_model :
  forall (Scr Sub Sp Pa Mo Th : Type) (L : tm_lib Scr Sub Sp Pa Mo Th) (params : Pa) (a : tm_args),
  src_cli_train_model Scr Sub Sp Pa Mo Th L params a = cli_train_model L params a.
Proof.
  intros. unfold src_cli_train_model, cli_train_model. cbv zeta.
  repeat cli_step. all: reflexivity.
Qed.
