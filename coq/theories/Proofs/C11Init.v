(* C11: the initial-plate generator and the combination filter do not alter experiments. *)
From Coq Require Import ZArith List Bool Arith Lia Permutation.
From Batchie Require Import Lib.Sexp Model.Encode Model.Screen Model.Retro Model.RetroInit
  Proofs.C11Lib Proofs.C11Select.
Import ListNotations.
Open Scope nat_scope.

(* an experiment minus plate label and mask *)
Definition core (r : row) : name * list tkey * Z := (r_sample r, r_treats r, r_obs r).

Lemma vor_length : forall a b, length (vor a b) = Nat.min (length a) (length b).
Proof. induction a as [|x a IH]; intros [|y b]; cbn [vor length Nat.min]; auto. Qed.

Lemma combine_core : forall (g : bool -> name) (v : bvec) rows, length v = length rows ->
  map core (map (fun br => set_mask (fst br) (set_plate (g (fst br)) (snd br))) (combine v rows)) = map core rows.
Proof.
  induction v as [|b v IH]; intros [|r rows] H; try discriminate; [reflexivity|].
  cbn [combine map fst snd]. rewrite IH by (cbn in H; lia). reflexivity.
Qed.

Lemma sparse_cover_final : forall ctrl reveal rows ds out ds',
  sparse_cover ctrl reveal rows ds = Ok (out, ds') ->
  exists final : bvec, length final = length rows /\
    out = map (fun br => set_mask (fst br) (set_plate (if fst br then initial_plate else unobserved_plate) (snd br)))
              (combine final rows).
Proof.
  intros ctrl reveal rows ds out ds' H. unfold sparse_cover in H.
  destruct (negb (forallb r_mask rows)); [discriminate|].
  destruct (sc_samples _ _ _ _ _) as [[c1 ds1]|t]; cbn [res_bind] in H; [|discriminate].
  destruct (sc_loop _ _ _ _) as [[ch ds2]|t]; cbn [res_bind] in H; [|discriminate].
  match type of H with (dor c <- construct (map _ (combine ?f rows)); _) = _ => set (final := f) in * end.
  destruct (construct _) as [c|t] eqn:Ec; cbn [res_bind] in H; [|discriminate].
  apply construct_ok in Ec. inversion H; subst. exists final. split; [|reflexivity].
  subst final. destruct reveal; [rewrite vor_length, map_length|]; rewrite vof_idx_length; lia.
Qed.

Theorem initial_plate_conserves : forall ctrl reveal rows ds out ds',
  sparse_cover ctrl reveal rows ds = Ok (out, ds') -> map core out = map core rows.
Proof.
  intros ctrl reveal rows ds out ds' H. apply sparse_cover_final in H as (final & Hl & ->).
  now apply (combine_core (fun b => if b then initial_plate else unobserved_plate)).
Qed.

Theorem filter_sub : forall ctrl arity rows out,
  combo_filter ctrl arity rows = Ok out -> exists f, out = filter f rows.
Proof.
  intros ctrl arity rows out H. unfold combo_filter in H. destruct (arity <? 2); [discriminate|].
  apply construct_ok in H. eauto.
Qed.
