(* C03: ids_frozen with EVERY step a translated source function: the translated hold-out (Generated/SrcHoldoutIds.v)
   followed by any history of the translated reveal_plates / mask_screen / unmask_screen (Generated/SrcReveal.v) and save + load. *)
From Coq Require Import ZArith List Bool Arith Lia.
From Batchie Require Import Lib.Sexp Model.Encode Model.Screen Model.Reveal Model.Holdout
  Proofs.C03Base Proofs.C03Screen Proofs.C12Reveal Proofs.C03Frozen
  Proofs.C12Source_Base Proofs.C12Source_Reveal Proofs.C12Source_Variant Generated.SrcHoldoutIds Proofs.C03Source_Holdout.
From Batchie Require Model.Retro.
Import ListNotations.
Open Scope Z_scope.

Definition src_lifecycle_full (num : Z) (den : positive) (counts : option (list Z)) (p : screen) (ds : list Retro.draw)
           (test : bool) (ops : list op) : result screen :=
  dor x <- src_balanced_holdout_ids num den counts p ds; src_history ops (half test (fst x)).

Theorem ids_frozen_of_source_full : forall num den counts p ds test ops s,
  src_lifecycle_full num den counts p ds test ops = Ok s -> frozen_to p s.
Proof.
  intros num den counts p ds test ops s H. unfold src_lifecycle_full in H.
  destruct (src_balanced_holdout_ids num den counts p ds) as [[pr ds']|t] eqn:E; cbn [res_bind fst] in H; [|discriminate].
  destruct (src_holdout_is_split _ _ _ _ _ _ _ E) as (sel & _ & Hs).
  rewrite src_history_is_model in H.
  eapply ids_frozen_per_op; [exact Hs| |exact H]. intros o _. apply carries_all.
Qed.
