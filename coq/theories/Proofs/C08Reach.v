(* C08: the bridge between reachable states and the cache invariant.  The block theorems (the C08_gauss_block theorems) and the cache
   theorems (the C08_cache_invariant theorems) assume the cache exact at the START; after __init__, after _update and after reset_model
   it is stale (Mu = [] or shorter than the data).  Here: the first block of every sweep, _reconstruct_Mu, ESTABLISHES the
   invariant from the shapes alone, so from every reachable state every later block of the sweep - and every per-index draw
   inside the five Gaussian step functions - starts from a state whose cache is exact and whose arrays have their sizes. *)
From Coq Require Import ZArith List QArith Qcanon Lia Arith Bool.
From Batchie Require Import Lib.Sexp Lib.Num Model.Gibbs Model.GibbsSpec Proofs.C08Sums Proofs.C08Cache Proofs.C08Gauss Proofs.C08SourceObj.
Import ListNotations.
Open Scope Qc_scope.

Lemma shapes_Wf g s : shapes g s -> Wf g s.
Proof.
  intros (HW & HW0 & HV2 & HV1 & HV0 & _). unfold Wf. destruct HW as [HW _], HV2 as [HV2 _], HV1 as [HV1 _]. repeat split; assumption.
Qed.

(* _reconstruct_Mu establishes the invariant from a stale cache: with data it recomputes every entry; without data the
   cache of a sweep-ready state is empty, which is what the empty data imply *)
Lemma ready_reconstruct_inv g d s : sweep_ready g d s -> Inv g d (reconstruct_Mu g d false s).
Proof.
  intros [Hs HMu]. unfold reconstruct_Mu. destruct (nobs d) as [|n0] eqn:En.
  - split; [|now apply shapes_Wf]. unfold cache_ok, reconstruct. rewrite En. cbn [tab seq map].
    destruct (Mu s) as [|x l]; [reflexivity|cbn [length] in HMu; lia].
  - split; [reflexivity|]. apply shapes_Wf in Hs. exact Hs.
Qed.

Section Reach.
Variables (g : cfg) (d : data) (orc : oracle).

Lemma run_blocks_reconstruct_first bs s :
  run_blocks g d orc (BReconstruct :: bs) s = run_blocks g d orc bs (reconstruct_Mu g d false s).
Proof. reflexivity. Qed.

(* from a sweep-ready state: after _reconstruct_Mu and ANY further sequence of step functions, for all answers *)
Theorem ready_cache_invariant bs s :
  ValidData d -> NoSelfCombo d -> sweep_ready g d s ->
  all_rets (Inv g d) (run_blocks g d orc (BReconstruct :: bs) s).
Proof.
  intros Hv Hns Hr. rewrite run_blocks_reconstruct_first. apply cache_invariant; [exact Hv|exact Hns|].
  now apply ready_reconstruct_inv.
Qed.

Theorem reach_cache_invariant bs s :
  reach g orc d s -> ValidData d -> NoSelfCombo d ->
  all_rets (Inv g d) (run_blocks g d orc (BReconstruct :: bs) s).
Proof.
  intros Hreach Hv Hns. apply ready_cache_invariant; [exact Hv|exact Hns|]. exact (proj1 (reach_ready g orc d s Hreach)).
Qed.

(* every non-empty prefix of the documented sweep, after any number of whole sweeps *)
Theorem reach_cache_invariant_prefix j k s :
  reach g orc d s -> ValidData d -> NoSelfCombo d -> (1 <= k)%nat ->
  all_rets (Inv g d) (run_blocks g d orc (firstn k step_order ++ concat (repeat step_order j)) s)
  /\ all_rets (Inv g d) (run_blocks g d orc (step_order ++ concat (repeat step_order j) ++ firstn k step_order) s).
Proof.
  intros Hreach Hv Hns Hk. split.
  - destruct k as [|k]; [lia|]. cbn [firstn step_order app]. now apply reach_cache_invariant.
  - cbn [step_order app]. now apply reach_cache_invariant.
Qed.

Corollary reach_sweep_invariant s :
  reach g orc d s -> ValidData d -> NoSelfCombo d -> all_rets (Inv g d) (mcmc_step g d orc s).
Proof. intros Hr Hv Hns. unfold mcmc_step, step_order. now apply reach_cache_invariant. Qed.

(* ---- inside a Gaussian step function: the state in which each per-index block computes its draw arguments *)
Fixpoint all_block_starts (P : st -> Prop) (blocks : list (st -> draw * (val -> st))) (s : st) : Prop :=
  match blocks with
  | [] => True
  | b :: r => P s /\ forall v, all_block_starts P r (snd (b s) v)
  end.

Lemma all_block_starts_intro (P : st -> Prop) blocks :
  (forall b, In b blocks -> forall s v, P s -> P (snd (b s) v)) ->
  forall s, P s -> all_block_starts P blocks s.
Proof.
  induction blocks as [|b r IH]; intros Hb s Hs; cbn [all_block_starts]; [exact I|].
  split; [exact Hs|]. intros v. apply IH; [intros b' Hb'; apply Hb; now right|]. apply Hb; [now left|exact Hs].
Qed.

Lemma all_block_starts_weaken (P Q : st -> Prop) blocks : (forall s, P s -> Q s) ->
  forall s, all_block_starts P blocks s -> all_block_starts Q blocks s.
Proof.
  intros HPQ. induction blocks as [|b r IH]; intros s; cbn [all_block_starts]; [auto|].
  intros [Hs Hr]. split; [now apply HPQ|]. intros v. apply IH, Hr.
Qed.

(* the per-index blocks of the five Gaussian step functions *)
Definition gauss_blocks (b : blk) : list (st -> draw * (val -> st)) :=
  match b with
  | BW0 => map (fun c s' => block_W0 d s' c) (seq 0 (c_ncl g))
  | BV0 => map (fun m s' => block_V0 d s' m) (seq 0 (c_ndd g))
  | BW => map (fun c s' => block_W g d s' c) (seq 0 (c_ncl g))
  | BV2 => map (fun m s' => block_V2 g d s' m) (seq 0 (c_ndd g))
  | BV1 => map (fun m s' => block_V1 g d s' m) (seq 0 (c_ndd g))
  | _ => []
  end.

Lemma gauss_blocks_step b s : In b [BW0; BV0; BW; BV2; BV1] -> step_prog g d orc b s = seq_blocks (gauss_blocks b) s.
Proof. intros [<-|[<-|[<-|[<-|[<-|[]]]]]]; reflexivity. Qed.

Lemma inv_block_starts b s : ValidData d -> NoSelfCombo d -> Inv g d s -> all_block_starts (Inv g d) (gauss_blocks b) s.
Proof.
  intros Hv Hns Hi. apply all_block_starts_intro; [|exact Hi].
  destruct b; cbn [gauss_blocks]; try (intros b0 []);
    intros b0 Hb s0 v Hs0; apply in_map_iff in Hb as (c & <- & Hc); apply in_seq in Hc.
  - apply cache_block_W0; (assumption || lia).
  - apply cache_block_V0; (assumption || lia).
  - apply cache_block_W; (assumption || lia).
  - apply cache_block_V2; (assumption || lia).
  - apply cache_block_V1; (assumption || lia).
Qed.

(* from a reachable state, after _reconstruct_Mu and any further step functions `pre` of the sweep, whichever Gaussian
   step function b runs next: EVERY per-index draw of it is computed in a state with exact cache and full-size arrays *)
Theorem reach_gauss_block_starts pre b s :
  reach g orc d s -> ValidData d -> NoSelfCombo d ->
  all_rets (all_block_starts (Inv g d) (gauss_blocks b)) (run_blocks g d orc (BReconstruct :: pre) s).
Proof.
  intros Hr Hv Hns. eapply all_rets_weaken; [|now apply (reach_cache_invariant pre s)].
  intros s1 Hs1. now apply inv_block_starts.
Qed.

(* ... hence the draw arguments are those of the full conditional: the conclusion of the block theorems at every such state *)
Definition W0_conditional (ln : Qc -> Qc) (s : st) : Prop :=
  forall c m v k, (c < c_ncl g)%nat -> block_W0 d s c = (DNormal m v, k) -> v <> 0 ->
  forall x, energy ln g d (upd_W0 s c x) - energy ln g d (upd_W0 s c 0) = (x * x - qofZ 2 * m * x) / v.
Definition V0_conditional (ln : Qc -> Qc) (s : st) : Prop :=
  forall m mu v k, (m < c_ndd g)%nat -> block_V0 d s m = (DNormal mu v, k) -> v <> 0 ->
  forall x, energy ln g d (upd_V0 s m x) - energy ln g d (upd_V0 s m 0) = (x * x - qofZ 2 * mu * x) / v.
Definition W_conditional (ln : Qc -> Qc) (s : st) : Prop :=
  forall c Q b k, (c < c_ncl g)%nat -> block_W g d s c = (DMvn Q b, k) ->
  forall x, energy ln g d (upd_W s c x) - energy ln g d (upd_W s c []) = quad (c_D g) Q x - qofZ 2 * vdot (c_D g) b x.
Definition V2_conditional (ln : Qc -> Qc) (s : st) : Prop :=
  forall m Q b k, (m < c_ndd g)%nat -> block_V2 g d s m = (DMvn Q b, k) ->
  forall x, energy ln g d (upd_V2 s m x) - energy ln g d (upd_V2 s m []) = quad (c_D g) Q x - qofZ 2 * vdot (c_D g) b x.
Definition V1_conditional (ln : Qc -> Qc) (s : st) : Prop :=
  forall m Q b k, (m < c_ndd g)%nat -> block_V1 g d s m = (DMvn Q b, k) ->
  forall x, energy ln g d (upd_V1 s m x) - energy ln g d (upd_V1 s m []) = quad (c_D g) Q x - qofZ 2 * vdot (c_D g) b x.

Lemma inv_conditionals ln s : ValidData d -> NoSelfCombo d -> Inv g d s ->
  W0_conditional ln s /\ V0_conditional ln s /\ W_conditional ln s /\ V2_conditional ln s /\ V1_conditional ln s.
Proof.
  intros Hv Hns [Hc (HW & HW0 & HV2 & HV1 & HV0)]. repeat split.
  - intros c m v k Hlt Hb Hne x. eapply gauss_block_W0; eauto. now rewrite HW0.
  - intros m mu v k Hlt Hb Hne x. eapply gauss_block_V0; eauto. now rewrite HV0.
  - intros c Q b k Hlt Hb x. eapply gauss_block_W; eauto. now rewrite HW.
  - intros m Q b k Hlt Hb x. eapply gauss_block_V2; eauto. now rewrite HV2.
  - intros m Q b k Hlt Hb x. eapply gauss_block_V1; eauto. now rewrite HV1.
Qed.

Theorem reach_gauss_draws_are_conditionals ln pre b s :
  reach g orc d s -> ValidData d -> NoSelfCombo d ->
  all_rets (all_block_starts (fun s2 => W0_conditional ln s2 /\ V0_conditional ln s2 /\ W_conditional ln s2 /\
                                        V2_conditional ln s2 /\ V1_conditional ln s2) (gauss_blocks b))
           (run_blocks g d orc (BReconstruct :: pre) s).
Proof.
  intros Hr Hv Hns. eapply all_rets_weaken; [|now apply (reach_gauss_block_starts pre b s)].
  intros s1. apply all_block_starts_weaken. intros s2 Hs2. now apply inv_conditionals.
Qed.
End Reach.
