(* C16 proofs, part 4 (gap review g5, gap 2): within a batch the screen evolves - the plates already in the batch may be
   revealed between two calls of select_next_plate.  What the policy is handed does not depend on that. *)
From Coq Require Import ZArith List Bool Lia Permutation.
From Batchie Require Import Lib.Sexp Model.Policy Proofs.C16Policy Proofs.C16Hist Proofs.C16Select.
Import ListNotations.
Open Scope Z_scope.

Lemma reveal_ids i screen : map id_of (reveal i screen) = map id_of screen.
Proof.
  unfold reveal. rewrite map_map. apply map_ext. intros [p o]. unfold id_of. cbn [fst].
  destruct (plate_id p =? i); reflexivity.
Qed.

Lemma reveal_all_ids js screen : map id_of (reveal_all js screen) = map id_of screen.
Proof. induction js as [|j js IH]; cbn [reveal_all fold_right]; [reflexivity|]. fold (reveal_all js screen). now rewrite reveal_ids. Qed.

(* flipping the observation flag of a plate whose id is in the batch ids changes neither list handed to the policy *)
Lemma c16_select_args_reveal i screen ids :
  In i ids -> select_args (reveal i screen) ids = select_args screen ids.
Proof.
  intros Hi. apply mem_In in Hi. unfold select_args, reveal. f_equal; [|f_equal].
  - induction screen as [|[p o] s IH]; cbn [map filter fst]; [reflexivity|].
    destruct (plate_id p =? i); cbn [fst]; destruct (mem (plate_id p) ids); cbn [map fst]; now rewrite IH.
  - induction screen as [|[p o] s IH]; cbn [map filter fst snd]; [reflexivity|].
    destruct (plate_id p =? i) eqn:E; cbn [fst snd].
    + apply Z.eqb_eq in E. subst i. rewrite Hi. cbn [negb andb]. rewrite !andb_false_r. exact IH.
    + destruct (negb o && negb (mem (plate_id p) ids)); cbn [map fst]; now rewrite IH.
Qed.

Lemma c16_select_args_reveal_all js screen ids :
  incl js ids -> select_args (reveal_all js screen) ids = select_args screen ids.
Proof.
  induction js as [|j js IH]; intros H; cbn [reveal_all fold_right]; [reflexivity|]. fold (reveal_all js screen).
  rewrite c16_select_args_reveal by (apply H; now left). apply IH. intros x Hx. apply H. now right.
Qed.

(* select_next_plate reads the screen only through those two lists *)
Lemma c16_select_next_reveal_all k js screen scores ids :
  incl js ids -> select_next k (reveal_all js screen) scores ids = select_next k screen scores ids.
Proof. intros H. unfold select_next. now rewrite c16_select_args_reveal_all. Qed.

Lemma reveal_all_app js1 js2 screen : reveal_all js1 (reveal_all js2 screen) = reveal_all (js1 ++ js2) screen.
Proof. unfold reveal_all. now rewrite fold_right_app. Qed.

(* the evolving screen is the first screen with some batch plates revealed *)
Lemma selr_screen k screen0 screen ids :
  sel_hist_reveal k screen0 screen ids -> exists js, incl js ids /\ screen = reveal_all js screen0.
Proof.
  intros H. induction H as [|screen ids scores el i js _ (js0 & Hinc & ->) _ Hjs].
  - exists []. split; [intros x []|reflexivity].
  - exists (js ++ js0). split; [|apply reveal_all_app].
    intros x Hx. apply in_app_or in Hx as [Hx|Hx]; [now apply Hjs|]. apply in_or_app. left. now apply Hinc.
Qed.

(* ... so a history over an evolving screen is a history over the first screen, and at every point the policy is handed
   what it would be handed on the first screen *)
Lemma c16_sel_hist_reveal_is_sel_hist k screen0 screen ids :
  sel_hist_reveal k screen0 screen ids ->
  sel_hist k screen0 ids /\ forall ids', incl ids ids' -> select_args screen ids' = select_args screen0 ids'.
Proof.
  intros H. split.
  - induction H as [|screen ids scores el i js H IH Hsel Hjs]; [constructor|].
    destruct (selr_screen _ _ _ _ H) as (js0 & Hinc & ->).
    rewrite c16_select_next_reveal_all in Hsel by exact Hinc. econstructor; eassumption.
  - destruct (selr_screen _ _ _ _ H) as (js0 & Hinc & ->). intros ids' Hi.
    apply c16_select_args_reveal_all. intros x Hx. apply Hi. now apply Hinc.
Qed.

Lemma c16_select_reachable_evolving k screen0 screen ids :
  NoDup (map id_of screen0) -> sel_hist_reveal k screen0 screen ids ->
  reachable k (snd (select_args screen0 [])) (select_args screen ids).
Proof.
  intros Hnd H. destruct (c16_sel_hist_reveal_is_sel_hist _ _ _ _ H) as [Hs He].
  rewrite (He ids) by apply incl_refl. now apply c16_select_reachable.
Qed.

(* the executable history with reveals between the calls is the history on the first screen *)
Lemma c16_history_reveal_gen k tables : forall flags js screen ids,
  incl js ids -> history_select_reveal k (reveal_all js screen) ids tables flags = history_select k screen ids tables.
Proof.
  induction tables as [|sc rest IH]; intros flags js screen ids Hinc; cbn [history_select_reveal history_select]; [reflexivity|].
  rewrite c16_select_next_reveal_all by exact Hinc.
  destruct (select_next k screen sc ids) as [eo|e]; cbn [res_bind]; [|reflexivity].
  destruct (snd eo) as [i|]; [|reflexivity].
  assert (Hinc' : incl js (ids ++ [i])) by (intros x Hx; apply in_or_app; left; now apply Hinc).
  destruct (hd false flags).
  - change (reveal i (reveal_all js screen)) with (reveal_all (i :: js) screen).
    rewrite IH; [reflexivity|]. intros x [<-|Hx]; [apply in_or_app; right; now left | now apply Hinc'].
  - rewrite IH by exact Hinc'. reflexivity.
Qed.

Lemma c16_history_reveal k screen ids tables flags :
  history_select_reveal k screen ids tables flags = history_select k screen ids tables.
Proof. apply (c16_history_reveal_gen k tables flags [] screen ids). intros x []. Qed.
