(* C08 proofs, part 2: the code's fitted value is the documented mean; splitting the likelihood
   over the rows a block touches; the five Gaussian blocks. *)
From Coq Require Import ZArith List QArith Qcanon Lia Arith Bool.
From Batchie Require Import Lib.Num Lib.NumP Model.Gibbs Model.GibbsSpec Proofs.C08Sums.
Import ListNotations.
Open Scope Qc_scope.

(* ---------------------------------------------------------------- index plumbing *)
Lemma pyidx_nonneg len z : (0 <= z)%Z -> pyidx len z = Z.to_nat z.
Proof. intros H. unfold pyidx. destruct (z <? 0)%Z eqn:E; [apply Z.ltb_lt in E; lia|reflexivity]. Qed.

Lemma get_v_emb v t : (-1 <= t)%Z -> get_v v t = emb_v v t.
Proof.
  intros H. unfold get_v, emb_v, py_v. destruct (t =? -1)%Z eqn:E.
  - apply Z.eqb_eq in E; subst. reflexivity.
  - apply Z.eqb_neq in E. destruct (t <? 0)%Z eqn:E2; [apply Z.ltb_lt in E2; lia|].
    rewrite pyidx_nonneg by lia. reflexivity.
Qed.
Lemma get_r_emb M t : (-1 <= t)%Z -> get_r M t = emb_r M t.
Proof.
  intros H. unfold get_r, emb_r, py_r. destruct (t =? -1)%Z eqn:E.
  - apply Z.eqb_eq in E; subst. reflexivity.
  - apply Z.eqb_neq in E. destruct (t <? 0)%Z eqn:E2; [apply Z.ltb_lt in E2; lia|].
    rewrite pyidx_nonneg by lia. reflexivity.
Qed.
Lemma py_r_nat M c : (0 <= c)%Z -> py_r M c = rnth M (Z.to_nat c).
Proof. intros H. unfold py_r. now rewrite pyidx_nonneg. Qed.
Lemma py_v_nat v c : (0 <= c)%Z -> py_v v c = vnth v (Z.to_nat c).
Proof. intros H. unfold py_v. now rewrite pyidx_nonneg. Qed.

Lemma zeqb_nat z c : (0 <= z)%Z -> (z =? Z.of_nat c)%Z = Nat.eqb c (Z.to_nat z).
Proof.
  intros H. destruct (z =? Z.of_nat c)%Z eqn:E.
  - apply Z.eqb_eq in E. symmetry. apply Nat.eqb_eq. lia.
  - apply Z.eqb_neq in E. symmetry. apply Nat.eqb_neq. lia.
Qed.

(* embedding row of treatment t after row m of the matrix was replaced *)
Lemma emb_r_set M m x t :
  (m < length M)%nat -> emb_r (set_nth m x M) t = if (t =? Z.of_nat m)%Z then x else emb_r M t.
Proof.
  intros Hm. unfold emb_r. destruct (t <? 0)%Z eqn:E.
  - apply Z.ltb_lt in E. destruct (t =? Z.of_nat m)%Z eqn:E2; [apply Z.eqb_eq in E2; lia|reflexivity].
  - apply Z.ltb_ge in E. rewrite zeqb_nat by exact E. unfold rnth. rewrite nth_set_nth.
    apply Nat.ltb_lt in Hm. rewrite Hm, andb_true_r. reflexivity.
Qed.
Lemma emb_v_set v m x t :
  (m < length v)%nat -> emb_v (set_nth m x v) t = if (t =? Z.of_nat m)%Z then x else emb_v v t.
Proof.
  intros Hm. unfold emb_v. destruct (t <? 0)%Z eqn:E.
  - apply Z.ltb_lt in E. destruct (t =? Z.of_nat m)%Z eqn:E2; [apply Z.eqb_eq in E2; lia|reflexivity].
  - apply Z.ltb_ge in E. rewrite zeqb_nat by exact E. unfold vnth. rewrite nth_set_nth.
    apply Nat.ltb_lt in Hm. rewrite Hm, andb_true_r. reflexivity.
Qed.

(* ---------------------------------------------------------------- code mean = documented mean *)
Lemma mu_at_spec g d s i : ValidData d -> mu_at g d s i = spec_mean g d s i.
Proof.
  intros (_ & _ & _ & Hc & H1 & H2). unfold mu_at, mu_row, spec_mean.
  rewrite py_r_nat, py_v_nat by apply Hc. rewrite !get_v_emb, !get_r_emb by (apply H1 || apply H2).
  f_equal. f_equal. unfold vdot. apply sumn_ext; intros k Hk. unfold vadd. now rewrite vnth_tab by exact Hk.
Qed.

Lemma cache_nth g d s i : ValidData d -> cache_ok g d s -> (i < nobs d)%nat -> vnth (Mu s) i = spec_mean g d s i.
Proof.
  intros Hv Hc Hi. rewrite Hc. unfold reconstruct. rewrite vnth_tab by exact Hi. now apply mu_at_spec.
Qed.

(* ---------------------------------------------------------------- splitting the likelihood *)
Lemma lik_split n (y mx m0 : nat -> Qc) (pA pB : nat -> bool) (lA lB : nat -> Qc) :
  (forall i, (i < n)%nat -> pA i = true -> pB i = true -> False) ->
  (forall i, (i < n)%nat -> mx i = m0 i + (if pA i then lA i else 0) + (if pB i then lB i else 0)) ->
  sumn n (fun i => qsq (y i - mx i)) - sumn n (fun i => qsq (y i - m0 i))
  = qsum (map (fun i => hterm (y i - m0 i) (lA i)) (filter pA (seq 0 n)))
    + qsum (map (fun i => hterm (y i - m0 i) (lB i)) (filter pB (seq 0 n))).
Proof.
  intros Hdis Hm. rewrite !qsum_filter_seq, <- sumn_sub, <- sumn_add. apply sumn_ext; intros i Hi.
  rewrite (Hm i Hi). destruct (pA i) eqn:EA, (pB i) eqn:EB.
  - exfalso. eapply Hdis; eauto.
  - unfold hterm, qsq. ring.
  - unfold hterm, qsq. ring.
  - unfold hterm, qsq. ring.
Qed.

Lemma positions_eq k keys n : length keys = n -> positions k keys = filter (fun i => (znth keys i =? k)%Z) (seq 0 n).
Proof. intros <-. reflexivity. Qed.

Lemma positions_lt k keys i : In i (positions k keys) -> (i < length keys)%nat /\ (znth keys i =? k)%Z = true.
Proof. unfold positions. intros H. apply filter_In in H as [H1 H2]. apply in_seq in H1. split; [lia|exact H2]. Qed.

Lemma positions_NoDup k keys : NoDup (positions k keys).
Proof. unfold positions. apply NoDup_filter, seq_NoDup. Qed.

(* scalar version of the quadratic lemma *)
Lemma gauss_scalar (p lam x : Qc) (rs : list Qc) :
  p * qsum (map (fun rho => hterm rho x) rs) + lam * qsq x
  = (p * qlen rs + lam) * qsq x - qofZ 2 * (p * qsum rs) * x.
Proof.
  rewrite (qsum_map_ext _ (fun rho => qsq x + (- qofZ 2 * x) * rho)) by (intros; rewrite hterm_expand; ring).
  rewrite qsum_map_add, qsum_map_scale, qsum_map_const, map_id. ring.
Qed.

Lemma qlen_app {A} (l1 l2 : list A) : qlen (l1 ++ l2) = qlen l1 + qlen l2.
Proof.
  unfold qlen. rewrite app_length, Nat2Z.inj_add. apply Qc_is_canon. unfold Qcplus. cbn [this Q2Qc].
  rewrite !Qred_correct, inject_Z_plus. reflexivity.
Qed.

Lemma scalar_rows (y m0 Mu_ : nat -> Qc) (old p lam x : Qc) (idx : list nat) :
  (forall i, In i idx -> y i - m0 i = y i - Mu_ i + old) ->
  p * qsum (map (fun i => hterm (y i - m0 i) x) idx) + lam * qsq x
  = (p * qlen idx + lam) * qsq x - qofZ 2 * (p * qsum (map (fun i => y i - Mu_ i + old) idx)) * x.
Proof.
  intros H. rewrite (qsum_map_ext _ (fun i => hterm (y i - Mu_ i + old) x)) by (intros i Hi; now rewrite H).
  rewrite <- (map_map (fun i => y i - Mu_ i + old) (fun rho => hterm rho x)), gauss_scalar.
  unfold qlen. now rewrite map_length.
Qed.

(* (x^2 - 2 m x)/v with v = 1/P, m = B/P is P x^2 - 2 B x *)
Lemma normal_form (P B x : Qc) : / P <> 0 -> (x * x - qofZ 2 * (B / P) * x) / (/ P) = P * qsq x - qofZ 2 * B * x.
Proof.
  intros Hv. assert (HP : P <> 0) by (intros ->; apply Hv; reflexivity).
  unfold qsq. field. split; [assumption|intro H; inversion H].
Qed.

Lemma normal_form0 (P x : Qc) : / P <> 0 -> (x * x - qofZ 2 * 0 * x) / (/ P) = P * qsq x.
Proof.
  intros Hv. assert (HP : P <> 0) by (intros ->; apply Hv; reflexivity).
  unfold qsq. field. split; [assumption|intro H; inversion H].
Qed.
Lemma qlen_nil {A} : qlen (@nil A) = 0.
Proof. apply Qc_is_canon. reflexivity. Qed.

Section Blocks.
Variable ln : Qc -> Qc.
Variable g : cfg.
Variable d : data.
Notation D := (c_D g).
Notation n := (nobs d).

(* ================================================================ W0 *)
Definition upd_W0 (s : st) (c : nat) (x : Qc) : st := set_W0 s (set_nth c x (W0 s)).

Lemma mean_W0 s c x i :
  ValidData d -> (c < length (W0 s))%nat ->
  spec_mean g d (upd_W0 s c x) i
  = spec_mean g d (upd_W0 s c 0) i + (if (znth (d_cl d) i =? Z.of_nat c)%Z then x else 0) + 0.
Proof.
  intros (_ & _ & _ & Hc & _ & _) Hlt. unfold spec_mean, upd_W0. cbn [W0 W V0 V1 V2 alpha set_W0].
  rewrite !vnth_set_nth. rewrite zeqb_nat by apply Hc.
  apply Nat.ltb_lt in Hlt. rewrite Hlt, andb_true_r.
  destruct (Nat.eqb c (Z.to_nat (znth (d_cl d) i))); ring.
Qed.

Lemma upd_W0_same s c : upd_W0 s c (vnth (W0 s) c) = s.
Proof. unfold upd_W0, vnth. rewrite set_nth_same. destruct s; reflexivity. Qed.

Lemma prior_W0 s c x :
  (c < c_ncl g)%nat -> (c < length (W0 s))%nat ->
  e_W0 ln g (upd_W0 s c x) - e_W0 ln g (upd_W0 s c 0) = tau0 s * qsq x.
Proof.
  intros Hc Hlt. unfold e_W0, upd_W0. cbn [W0 tau0 set_W0].
  assert (H : forall z, sumn (c_ncl g) (fun c0 => qsq (vnth (set_nth c z (W0 s)) c0))
                        = sumn (c_ncl g) (fun c0 => qsq (vnth (W0 s) c0)) - qsq (vnth (W0 s) c) + qsq z).
  { intros z. rewrite <- (sumn_update (c_ncl g) c (fun c0 => qsq (vnth (W0 s) c0)) (qsq z)) by exact Hc.
    apply sumn_ext; intros k _. rewrite vnth_set_nth, (Nat.eqb_sym c k).
    apply Nat.ltb_lt in Hlt. rewrite Hlt, andb_true_r. destruct (Nat.eqb k c); reflexivity. }
  rewrite !H. unfold qsq. ring.
Qed.

Lemma energy_W0 s c x :
  energy ln g d (upd_W0 s c x) - energy ln g d (upd_W0 s c 0)
  = prec s * (sse g d (upd_W0 s c x) - sse g d (upd_W0 s c 0))
    + (e_W0 ln g (upd_W0 s c x) - e_W0 ln g (upd_W0 s c 0)).
Proof.
  unfold energy, e_lik. change (prec (upd_W0 s c x)) with (prec s). change (prec (upd_W0 s c 0)) with (prec s).
  change (e_V0 ln g (upd_W0 s c x)) with (e_V0 ln g s). change (e_V0 ln g (upd_W0 s c 0)) with (e_V0 ln g s).
  change (e_W ln g (upd_W0 s c x)) with (e_W ln g s). change (e_W ln g (upd_W0 s c 0)) with (e_W ln g s).
  change (e_hyper ln g (upd_W0 s c x)) with (e_hyper ln g s). change (e_hyper ln g (upd_W0 s c 0)) with (e_hyper ln g s).
  cbn [upd_W0 set_W0 V2 V1 phi2 phi1 eta2 eta1]. ring.
Qed.

Theorem gauss_block_W0 s c m v k :
  ValidData d -> cache_ok g d s -> (c < c_ncl g)%nat -> (c < length (W0 s))%nat ->
  block_W0 d s c = (DNormal m v, k) -> v <> 0 ->
  forall x, energy ln g d (upd_W0 s c x) - energy ln g d (upd_W0 s c 0) = (x * x - qofZ 2 * m * x) / v.
Proof.
  intros Hv Hcache Hc Hlt Hb Hv0 x.
  rewrite energy_W0, prior_W0 by assumption.
  unfold sse.
  rewrite (lik_split n (yi d) _ _ (fun i => (znth (d_cl d) i =? Z.of_nat c)%Z) (fun _ => false) (fun _ => x) (fun _ => 0));
    [|intros; discriminate|intros i _; now apply mean_W0].
  assert (Hnil : forall (f : nat -> Qc), qsum (map f (filter (fun _ : nat => false) (seq 0 n))) = 0).
  { intros f. induction (seq 0 n) as [|a l IH]; [reflexivity|exact IH]. }
  rewrite Hnil. destruct Hv as (Hlen & Hv').
  rewrite <- (positions_eq (Z.of_nat c) (d_cl d) n Hlen).
  assert (Hres : forall i, In i (positions (Z.of_nat c) (d_cl d)) ->
            yi d i - spec_mean g d (upd_W0 s c 0) i = yi d i - vnth (Mu s) i + vnth (W0 s) c).
  { intros i Hi. apply positions_lt in Hi as [Hi Hk]. rewrite Hlen in Hi.
    rewrite (cache_nth g d s i) by (assumption || (split; assumption)).
    rewrite <- (upd_W0_same s c) at 2. rewrite (mean_W0 s c (vnth (W0 s) c)) by (assumption || (split; assumption)).
    rewrite Hk. ring. }
  transitivity (prec s * qsum (map (fun i => hterm (yi d i - spec_mean g d (upd_W0 s c 0) i) x) (positions (Z.of_nat c) (d_cl d)))
                + tau0 s * qsq x); [ring|].
  rewrite (scalar_rows (yi d) _ (vnth (Mu s)) (vnth (W0 s) c)) by exact Hres.
  unfold block_W0 in Hb. destruct (positions (Z.of_nat c) (d_cl d)) as [|i0 l] eqn:E.
  - inversion Hb; subst m v. cbn [map]. rewrite qsum_nil.
    rewrite qlen_nil, normal_form0 by exact Hv0. ring.
  - inversion Hb; subst m v. symmetry. apply normal_form. exact Hv0.
Qed.
End Blocks.
