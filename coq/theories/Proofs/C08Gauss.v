(* C08 proofs, part 2: the code's fitted value is the documented mean; splitting the likelihood
   over the rows a block touches; the five Gaussian blocks. *)
From Coq Require Import ZArith List QArith Qcanon Lia Arith Bool.
From Batchie Require Import Lib.Num Lib.NumP Model.Gibbs Model.GibbsSpec Proofs.C08Sums.
Import ListNotations.
Open Scope Qc_scope.

(* ---------------------------------------------------------------- index plumbing *)
Lemma pyidx_nonneg len z : (0 <= z)%Z -> pyidx len z = Z.to_nat z.
Proof. intros H. unfold pyidx. destruct (z <? 0)%Z eqn:E; [apply Z.ltb_lt in E; lia|reflexivity]. Qed.

Lemma get_v_emb v t : (-1 <= t)%Z -> get_v v t = emb_v v t.
Proof.
  intros H. unfold get_v, emb_v, py_v. destruct (t =? -1)%Z eqn:E.
  - apply Z.eqb_eq in E; subst. reflexivity.
  - apply Z.eqb_neq in E. destruct (t <? 0)%Z eqn:E2; [apply Z.ltb_lt in E2; lia|].
    rewrite pyidx_nonneg by lia. reflexivity.
Qed.
Lemma get_r_emb M t : (-1 <= t)%Z -> get_r M t = emb_r M t.
Proof.
  intros H. unfold get_r, emb_r, py_r. destruct (t =? -1)%Z eqn:E.
  - apply Z.eqb_eq in E; subst. reflexivity.
  - apply Z.eqb_neq in E. destruct (t <? 0)%Z eqn:E2; [apply Z.ltb_lt in E2; lia|].
    rewrite pyidx_nonneg by lia. reflexivity.
Qed.
Lemma py_r_nat M c : (0 <= c)%Z -> py_r M c = rnth M (Z.to_nat c).
Proof. intros H. unfold py_r. now rewrite pyidx_nonneg. Qed.
Lemma py_v_nat v c : (0 <= c)%Z -> py_v v c = vnth v (Z.to_nat c).
Proof. intros H. unfold py_v. now rewrite pyidx_nonneg. Qed.

Lemma zeqb_nat z c : (0 <= z)%Z -> (z =? Z.of_nat c)%Z = Nat.eqb c (Z.to_nat z).
Proof.
  intros H. destruct (z =? Z.of_nat c)%Z eqn:E.
  - apply Z.eqb_eq in E. symmetry. apply Nat.eqb_eq. lia.
  - apply Z.eqb_neq in E. symmetry. apply Nat.eqb_neq. lia.
Qed.

(* embedding row of treatment t after row m of the matrix was replaced *)
Lemma emb_r_set M m x t :
  (m < length M)%nat -> emb_r (set_nth m x M) t = if (t =? Z.of_nat m)%Z then x else emb_r M t.
Proof.
  intros Hm. unfold emb_r. destruct (t <? 0)%Z eqn:E.
  - apply Z.ltb_lt in E. destruct (t =? Z.of_nat m)%Z eqn:E2; [apply Z.eqb_eq in E2; lia|reflexivity].
  - apply Z.ltb_ge in E. rewrite zeqb_nat by exact E. unfold rnth. rewrite nth_set_nth.
    apply Nat.ltb_lt in Hm. rewrite Hm, andb_true_r. reflexivity.
Qed.
Lemma emb_v_set v m x t :
  (m < length v)%nat -> emb_v (set_nth m x v) t = if (t =? Z.of_nat m)%Z then x else emb_v v t.
Proof.
  intros Hm. unfold emb_v. destruct (t <? 0)%Z eqn:E.
  - apply Z.ltb_lt in E. destruct (t =? Z.of_nat m)%Z eqn:E2; [apply Z.eqb_eq in E2; lia|reflexivity].
  - apply Z.ltb_ge in E. rewrite zeqb_nat by exact E. unfold vnth. rewrite nth_set_nth.
    apply Nat.ltb_lt in Hm. rewrite Hm, andb_true_r. reflexivity.
Qed.

(* ---------------------------------------------------------------- code mean = documented mean *)
Lemma mu_at_spec g d s i : ValidData d -> mu_at g d s i = spec_mean g d s i.
Proof.
  intros (_ & _ & _ & Hc & H1 & H2). unfold mu_at, mu_row, spec_mean.
  rewrite py_r_nat, py_v_nat by apply Hc. rewrite !get_v_emb, !get_r_emb by (apply H1 || apply H2).
  f_equal. f_equal. unfold vdot. apply sumn_ext; intros k Hk. unfold vadd. now rewrite vnth_tab by exact Hk.
Qed.

Lemma cache_nth g d s i : ValidData d -> cache_ok g d s -> (i < nobs d)%nat -> vnth (Mu s) i = spec_mean g d s i.
Proof.
  intros Hv Hc Hi. rewrite Hc. unfold reconstruct. rewrite vnth_tab by exact Hi. now apply mu_at_spec.
Qed.

(* ---------------------------------------------------------------- splitting the likelihood *)
Lemma lik_split n (y mx m0 : nat -> Qc) (pA pB : nat -> bool) (lA lB : nat -> Qc) :
  (forall i, (i < n)%nat -> pA i = true -> pB i = true -> False) ->
  (forall i, (i < n)%nat -> mx i = m0 i + (if pA i then lA i else 0) + (if pB i then lB i else 0)) ->
  sumn n (fun i => qsq (y i - mx i)) - sumn n (fun i => qsq (y i - m0 i))
  = qsum (map (fun i => hterm (y i - m0 i) (lA i)) (filter pA (seq 0 n)))
    + qsum (map (fun i => hterm (y i - m0 i) (lB i)) (filter pB (seq 0 n))).
Proof.
  intros Hdis Hm. rewrite !qsum_filter_seq, <- sumn_sub, <- sumn_add. apply sumn_ext; intros i Hi.
  rewrite (Hm i Hi). destruct (pA i) eqn:EA, (pB i) eqn:EB.
  - exfalso. eapply Hdis; eauto.
  - unfold hterm, qsq. ring.
  - unfold hterm, qsq. ring.
  - unfold hterm, qsq. ring.
Qed.

Lemma positions_eq k keys n : length keys = n -> positions k keys = filter (fun i => (znth keys i =? k)%Z) (seq 0 n).
Proof. intros <-. reflexivity. Qed.

Lemma positions_lt k keys i : In i (positions k keys) -> (i < length keys)%nat /\ (znth keys i =? k)%Z = true.
Proof. unfold positions. intros H. apply filter_In in H as [H1 H2]. apply in_seq in H1. split; [lia|exact H2]. Qed.

Lemma positions_NoDup k keys : NoDup (positions k keys).
Proof. unfold positions. apply NoDup_filter, seq_NoDup. Qed.

(* scalar version of the quadratic lemma *)
Lemma gauss_scalar (p lam x : Qc) (rs : list Qc) :
  p * qsum (map (fun rho => hterm rho x) rs) + lam * qsq x
  = (p * qlen rs + lam) * qsq x - qofZ 2 * (p * qsum rs) * x.
Proof.
  rewrite (qsum_map_ext _ (fun rho => qsq x + (- qofZ 2 * x) * rho)) by (intros; rewrite hterm_expand; ring).
  rewrite qsum_map_add, qsum_map_scale, qsum_map_const, map_id. ring.
Qed.

Lemma qlen_app {A} (l1 l2 : list A) : qlen (l1 ++ l2) = qlen l1 + qlen l2.
Proof.
  unfold qlen. rewrite app_length, Nat2Z.inj_add. apply Qc_is_canon. unfold Qcplus. cbn [this Q2Qc].
  rewrite !Qred_correct, inject_Z_plus. reflexivity.
Qed.

Lemma scalar_rows (y m0 Mu_ : nat -> Qc) (old p lam x : Qc) (idx : list nat) :
  (forall i, In i idx -> y i - m0 i = y i - Mu_ i + old) ->
  p * qsum (map (fun i => hterm (y i - m0 i) x) idx) + lam * qsq x
  = (p * qlen idx + lam) * qsq x - qofZ 2 * (p * qsum (map (fun i => y i - Mu_ i + old) idx)) * x.
Proof.
  intros H. rewrite (qsum_map_ext _ (fun i => hterm (y i - Mu_ i + old) x)) by (intros i Hi; now rewrite H).
  rewrite <- (map_map (fun i => y i - Mu_ i + old) (fun rho => hterm rho x)), gauss_scalar.
  unfold qlen. now rewrite map_length.
Qed.

(* (x^2 - 2 m x)/v with v = 1/P, m = B/P is P x^2 - 2 B x *)
Lemma normal_form (P B x : Qc) : / P <> 0 -> (x * x - qofZ 2 * (B / P) * x) / (/ P) = P * qsq x - qofZ 2 * B * x.
Proof.
  intros Hv. assert (HP : P <> 0) by (intros ->; apply Hv; reflexivity).
  unfold qsq. field. split; [assumption|intro H; inversion H].
Qed.

Lemma normal_form0 (P x : Qc) : / P <> 0 -> (x * x - qofZ 2 * 0 * x) / (/ P) = P * qsq x.
Proof.
  intros Hv. assert (HP : P <> 0) by (intros ->; apply Hv; reflexivity).
  unfold qsq. field. split; [assumption|intro H; inversion H].
Qed.
Lemma qlen_nil {A} : qlen (@nil A) = 0.
Proof. apply Qc_is_canon. reflexivity. Qed.

Section Blocks.
Variable ln : Qc -> Qc.
Variable g : cfg.
Variable d : data.
Notation D := (c_D g).
Notation n := (nobs d).

(* ================================================================ W0 *)
Definition upd_W0 (s : st) (c : nat) (x : Qc) : st := set_W0 s (set_nth c x (W0 s)).

Lemma mean_W0 s c x i :
  ValidData d -> (c < length (W0 s))%nat ->
  spec_mean g d (upd_W0 s c x) i
  = spec_mean g d (upd_W0 s c 0) i + (if (znth (d_cl d) i =? Z.of_nat c)%Z then x else 0) + 0.
Proof.
  intros (_ & _ & _ & Hc & _ & _) Hlt. unfold spec_mean, upd_W0. cbn [W0 W V0 V1 V2 alpha set_W0].
  rewrite !vnth_set_nth. rewrite zeqb_nat by apply Hc.
  apply Nat.ltb_lt in Hlt. rewrite Hlt, andb_true_r.
  destruct (Nat.eqb c (Z.to_nat (znth (d_cl d) i))); ring.
Qed.

Lemma upd_W0_same s c : upd_W0 s c (vnth (W0 s) c) = s.
Proof. unfold upd_W0, vnth. rewrite set_nth_same. destruct s; reflexivity. Qed.

Lemma prior_W0 s c x :
  (c < c_ncl g)%nat -> (c < length (W0 s))%nat ->
  e_W0 ln g (upd_W0 s c x) - e_W0 ln g (upd_W0 s c 0) = tau0 s * qsq x.
Proof.
  intros Hc Hlt. unfold e_W0, upd_W0. cbn [W0 tau0 set_W0].
  assert (H : forall z, sumn (c_ncl g) (fun c0 => qsq (vnth (set_nth c z (W0 s)) c0))
                        = sumn (c_ncl g) (fun c0 => qsq (vnth (W0 s) c0)) - qsq (vnth (W0 s) c) + qsq z).
  { intros z. rewrite <- (sumn_update (c_ncl g) c (fun c0 => qsq (vnth (W0 s) c0)) (qsq z)) by exact Hc.
    apply sumn_ext; intros k _. rewrite vnth_set_nth, (Nat.eqb_sym c k).
    apply Nat.ltb_lt in Hlt. rewrite Hlt, andb_true_r. destruct (Nat.eqb k c); reflexivity. }
  rewrite !H. unfold qsq. ring.
Qed.

Lemma energy_W0 s c x :
  energy ln g d (upd_W0 s c x) - energy ln g d (upd_W0 s c 0)
  = prec s * (sse g d (upd_W0 s c x) - sse g d (upd_W0 s c 0))
    + (e_W0 ln g (upd_W0 s c x) - e_W0 ln g (upd_W0 s c 0)).
Proof.
  unfold energy, e_lik. change (prec (upd_W0 s c x)) with (prec s). change (prec (upd_W0 s c 0)) with (prec s).
  change (e_V0 ln g (upd_W0 s c x)) with (e_V0 ln g s). change (e_V0 ln g (upd_W0 s c 0)) with (e_V0 ln g s).
  change (e_W ln g (upd_W0 s c x)) with (e_W ln g s). change (e_W ln g (upd_W0 s c 0)) with (e_W ln g s).
  change (e_hyper ln g (upd_W0 s c x)) with (e_hyper ln g s). change (e_hyper ln g (upd_W0 s c 0)) with (e_hyper ln g s).
  cbn [upd_W0 set_W0 V2 V1 phi2 phi1 eta2 eta1]. ring.
Qed.

Theorem gauss_block_W0 s c m v k :
  ValidData d -> cache_ok g d s -> (c < c_ncl g)%nat -> (c < length (W0 s))%nat ->
  block_W0 d s c = (DNormal m v, k) -> v <> 0 ->
  forall x, energy ln g d (upd_W0 s c x) - energy ln g d (upd_W0 s c 0) = (x * x - qofZ 2 * m * x) / v.
Proof.
  intros Hv Hcache Hc Hlt Hb Hv0 x.
  rewrite energy_W0, prior_W0 by assumption.
  unfold sse.
  rewrite (lik_split n (yi d) _ _ (fun i => (znth (d_cl d) i =? Z.of_nat c)%Z) (fun _ => false) (fun _ => x) (fun _ => 0));
    [|intros; discriminate|intros i _; now apply mean_W0].
  assert (Hnil : forall (f : nat -> Qc), qsum (map f (filter (fun _ : nat => false) (seq 0 n))) = 0).
  { intros f. induction (seq 0 n) as [|a l IH]; [reflexivity|exact IH]. }
  rewrite Hnil. destruct Hv as (Hlen & Hv').
  rewrite <- (positions_eq (Z.of_nat c) (d_cl d) n Hlen).
  assert (Hres : forall i, In i (positions (Z.of_nat c) (d_cl d)) ->
            yi d i - spec_mean g d (upd_W0 s c 0) i = yi d i - vnth (Mu s) i + vnth (W0 s) c).
  { intros i Hi. apply positions_lt in Hi as [Hi Hk]. rewrite Hlen in Hi.
    rewrite (cache_nth g d s i) by (assumption || (split; assumption)).
    rewrite <- (upd_W0_same s c) at 2. rewrite (mean_W0 s c (vnth (W0 s) c)) by (assumption || (split; assumption)).
    rewrite Hk. ring. }
  transitivity (prec s * qsum (map (fun i => hterm (yi d i - spec_mean g d (upd_W0 s c 0) i) x) (positions (Z.of_nat c) (d_cl d)))
                + tau0 s * qsq x); [ring|].
  rewrite (scalar_rows (yi d) _ (vnth (Mu s)) (vnth (W0 s) c)) by exact Hres.
  unfold block_W0 in Hb. destruct (positions (Z.of_nat c) (d_cl d)) as [|i0 l] eqn:E.
  - inversion Hb; subst m v. cbn [map]. rewrite qsum_nil.
    rewrite qlen_nil, normal_form0 by exact Hv0. ring.
  - inversion Hb; subst m v. symmetry. apply normal_form. exact Hv0.
Qed.

(* ================================================================ V0 *)
Definition upd_V0 (s : st) (m : nat) (x : Qc) : st := set_V0 s (set_nth m x (V0 s)).
Definition in1 (m : nat) (i : nat) : bool := (znth (d_dd1 d) i =? Z.of_nat m)%Z.
Definition in2 (m : nat) (i : nat) : bool := (znth (d_dd2 d) i =? Z.of_nat m)%Z.

Lemma in12_disjoint m i : NoSelfCombo d -> (i < n)%nat -> in1 m i = true -> in2 m i = true -> False.
Proof.
  unfold in1, in2. intros Hns Hi H1 H2. apply Z.eqb_eq in H1, H2.
  destruct (Hns i Hi) as [H|H]; [lia|congruence].
Qed.

Lemma mean_V0 s m x i :
  (m < length (V0 s))%nat ->
  spec_mean g d (upd_V0 s m x) i
  = spec_mean g d (upd_V0 s m 0) i + (if in1 m i then x else 0) + (if in2 m i then x else 0).
Proof.
  intros Hlt. unfold spec_mean, upd_V0, in1, in2. cbn [W0 W V0 V1 V2 alpha set_V0].
  rewrite !emb_v_set by exact Hlt.
  destruct (znth (d_dd1 d) i =? Z.of_nat m)%Z, (znth (d_dd2 d) i =? Z.of_nat m)%Z; ring.
Qed.

Lemma upd_V0_same s m : upd_V0 s m (vnth (V0 s) m) = s.
Proof. unfold upd_V0, vnth. rewrite set_nth_same. destruct s; reflexivity. Qed.

Lemma prior_V0 s m x :
  (m < c_ndd g)%nat -> (m < length (V0 s))%nat ->
  e_V0 ln g (upd_V0 s m x) - e_V0 ln g (upd_V0 s m 0) = vnth (phi0 s) m * eta0 s * qsq x.
Proof.
  intros Hm Hlt. unfold e_V0, upd_V0. cbn [V0 phi0 eta0 set_V0].
  assert (H : forall z, sumn (c_ndd g) (fun m0 => vnth (phi0 s) m0 * eta0 s * qsq (vnth (set_nth m z (V0 s)) m0))
                        = sumn (c_ndd g) (fun m0 => vnth (phi0 s) m0 * eta0 s * qsq (vnth (V0 s) m0))
                          - vnth (phi0 s) m * eta0 s * qsq (vnth (V0 s) m) + vnth (phi0 s) m * eta0 s * qsq z).
  { intros z. rewrite <- (sumn_update (c_ndd g) m (fun m0 => vnth (phi0 s) m0 * eta0 s * qsq (vnth (V0 s) m0))) by exact Hm.
    apply sumn_ext; intros k _. rewrite vnth_set_nth, (Nat.eqb_sym m k).
    apply Nat.ltb_lt in Hlt. rewrite Hlt, andb_true_r. destruct (Nat.eqb k m) eqn:E; [apply Nat.eqb_eq in E; subst|]; reflexivity. }
  rewrite !H. unfold qsq. ring.
Qed.

Lemma energy_V0 s m x :
  energy ln g d (upd_V0 s m x) - energy ln g d (upd_V0 s m 0)
  = prec s * (sse g d (upd_V0 s m x) - sse g d (upd_V0 s m 0))
    + (e_V0 ln g (upd_V0 s m x) - e_V0 ln g (upd_V0 s m 0)).
Proof.
  unfold energy, e_lik. change (prec (upd_V0 s m x)) with (prec s). change (prec (upd_V0 s m 0)) with (prec s).
  change (e_W0 ln g (upd_V0 s m x)) with (e_W0 ln g s). change (e_W0 ln g (upd_V0 s m 0)) with (e_W0 ln g s).
  change (e_W ln g (upd_V0 s m x)) with (e_W ln g s). change (e_W ln g (upd_V0 s m 0)) with (e_W ln g s).
  change (e_hyper ln g (upd_V0 s m x)) with (e_hyper ln g s). change (e_hyper ln g (upd_V0 s m 0)) with (e_hyper ln g s).
  cbn [upd_V0 set_V0 V2 V1 phi2 phi1 eta2 eta1]. ring.
Qed.

Definition idxV (m : nat) : list nat := positions (Z.of_nat m) (d_dd1 d) ++ positions (Z.of_nat m) (d_dd2 d).

Lemma idxV_in m i : ValidData d -> In i (idxV m) -> (i < n)%nat /\ (in1 m i = true \/ in2 m i = true).
Proof.
  intros (_ & H1 & H2 & _) Hi. unfold idxV in Hi. apply in_app_or in Hi as [Hi|Hi]; apply positions_lt in Hi as [Ha Hb].
  - rewrite H1 in Ha. split; [exact Ha|left; exact Hb].
  - rewrite H2 in Ha. split; [exact Ha|right; exact Hb].
Qed.

Theorem gauss_block_V0 s m mu v k :
  ValidData d -> NoSelfCombo d -> cache_ok g d s -> (m < c_ndd g)%nat -> (m < length (V0 s))%nat ->
  block_V0 d s m = (DNormal mu v, k) -> v <> 0 ->
  forall x, energy ln g d (upd_V0 s m x) - energy ln g d (upd_V0 s m 0) = (x * x - qofZ 2 * mu * x) / v.
Proof.
  intros Hv Hns Hcache Hm Hlt Hb Hv0 x.
  rewrite energy_V0, prior_V0 by assumption.
  unfold sse.
  rewrite (lik_split n (yi d) _ _ (in1 m) (in2 m) (fun _ => x) (fun _ => x));
    [|intros i Hi; now apply in12_disjoint|intros i _; now apply mean_V0].
  pose proof Hv as (_ & Hl1 & Hl2 & _).
  unfold in1 at 1, in2 at 1.
  rewrite <- (positions_eq (Z.of_nat m) (d_dd1 d) n Hl1), <- (positions_eq (Z.of_nat m) (d_dd2 d) n Hl2).
  rewrite <- qsum_app, <- map_app. fold (idxV m).
  assert (Hres : forall i, In i (idxV m) ->
            yi d i - spec_mean g d (upd_V0 s m 0) i = yi d i - vnth (Mu s) i + vnth (V0 s) m).
  { intros i Hi. apply (idxV_in m i Hv) in Hi as [Hi Hk].
    rewrite (cache_nth g d s i) by assumption.
    rewrite <- (upd_V0_same s m) at 2. rewrite (mean_V0 s m (vnth (V0 s) m)) by assumption.
    destruct (in1 m i) eqn:E1, (in2 m i) eqn:E2.
    - exfalso. eapply in12_disjoint; eauto.
    - ring.
    - ring.
    - destruct Hk; discriminate. }
  transitivity (prec s * qsum (map (fun i => hterm (yi d i - spec_mean g d (upd_V0 s m 0) i) x) (idxV m))
                + vnth (phi0 s) m * eta0 s * qsq x); [ring|].
  rewrite (scalar_rows (yi d) _ (vnth (Mu s)) (vnth (V0 s) m)) by exact Hres.
  unfold block_V0 in Hb. fold (idxV m) in Hb. destruct (idxV m) as [|i0 l] eqn:E.
  - inversion Hb; subst mu v. cbn [map]. rewrite qsum_nil.
    rewrite qlen_nil, normal_form0 by exact Hv0. ring.
  - inversion Hb; subst mu v. symmetry. apply normal_form. exact Hv0.
Qed.

(* ================================================================ vector blocks: common core *)
Lemma filter_false_nil {A} (l : list A) : filter (fun _ => false) l = [].
Proof. induction l; [reflexivity|assumption]. Qed.

Lemma vec_core (mean : list Qc -> nat -> Qc) (s : st) (XA XB : nat -> list Qc) (pA pB : nat -> bool)
      (cur lam : list Qc) (p : Qc) :
  (forall i, (i < n)%nat -> pA i = true -> pB i = true -> False) ->
  (forall x i, (i < n)%nat ->
     mean x i = mean [] i + (if pA i then vdot D (XA i) x else 0) + (if pB i then vdot D (XB i) x else 0)) ->
  (forall i, (i < n)%nat -> vnth (Mu s) i = mean cur i) ->
  forall x,
    p * (sumn n (fun i => qsq (yi d i - mean x i)) - sumn n (fun i => qsq (yi d i - mean [] i)))
    + sumn D (fun k => vnth lam k * qsq (vnth x k))
    = quad D (gramQ D p (mk_rows g d s XA cur (filter pA (seq 0 n)) ++ mk_rows g d s XB cur (filter pB (seq 0 n))) lam) x
      - qofZ 2 * vdot D (xtr D p (mk_rows g d s XA cur (filter pA (seq 0 n)) ++ mk_rows g d s XB cur (filter pB (seq 0 n)))) x.
Proof.
  intros Hdis Hlin Hcache x.
  rewrite (lik_split n (yi d) _ _ pA pB (fun i => vdot D (XA i) x) (fun i => vdot D (XB i) x) Hdis) by (intros i Hi; now apply Hlin).
  rewrite <- gauss_rows. f_equal. f_equal. rewrite map_app, qsum_app. unfold mk_rows. rewrite !map_map. cbn [fst snd].
  f_equal; apply qsum_map_ext; intros i Hi; apply filter_In in Hi as [Hi Hp]; apply in_seq in Hi;
    assert (Hi' : (i < n)%nat) by lia; f_equal; rewrite (Hcache i Hi'), (Hlin cur i Hi'), Hp.
  - destruct (pB i) eqn:E; [exfalso; eapply Hdis; eauto|ring].
  - destruct (pA i) eqn:E; [exfalso; eapply Hdis; eauto|ring].
Qed.

(* ================================================================ W *)
Definition upd_W (s : st) (c : nat) (x : list Qc) : st := set_W s (set_nth c x (W s)).
Definition inC (c : nat) (i : nat) : bool := (znth (d_cl d) i =? Z.of_nat c)%Z.

Lemma xrow_W_nth s i k :
  ValidData d -> (k < D)%nat ->
  vnth (xrow_W g d s i) k
  = vnth (emb_r (V2 s) (znth (d_dd1 d) i)) k * vnth (emb_r (V2 s) (znth (d_dd2 d) i)) k
    + (vnth (emb_r (V1 s) (znth (d_dd1 d) i)) k + vnth (emb_r (V1 s) (znth (d_dd2 d) i)) k).
Proof.
  intros (_ & _ & _ & _ & H1 & H2) Hk. unfold xrow_W, vadd, vmul. rewrite !vnth_tab by exact Hk.
  rewrite !get_r_emb by (apply H1 || apply H2). reflexivity.
Qed.

Lemma mean_W s c x i :
  ValidData d -> (c < length (W s))%nat ->
  spec_mean g d (upd_W s c x) i
  = spec_mean g d (upd_W s c []) i + (if inC c i then vdot D (xrow_W g d s i) x else 0) + (if false then 0 else 0).
Proof.
  intros Hv Hlt. pose proof Hv as (_ & _ & _ & Hc & _ & _).
  unfold spec_mean, upd_W, inC. cbn [W0 W V0 V1 V2 alpha set_W].
  rewrite !rnth_set_nth. rewrite zeqb_nat by apply Hc.
  apply Nat.ltb_lt in Hlt. rewrite Hlt, andb_true_r.
  destruct (Nat.eqb c (Z.to_nat (znth (d_cl d) i))); [|ring].
  unfold vdot. rewrite (sumn_ext D (fun k => vnth (xrow_W g d s i) k * vnth x k)
     (fun k => vnth x k * (vnth (emb_r (V1 s) (znth (d_dd1 d) i)) k + vnth (emb_r (V1 s) (znth (d_dd2 d) i)) k)
               + vnth x k * vnth (emb_r (V2 s) (znth (d_dd1 d) i)) k * vnth (emb_r (V2 s) (znth (d_dd2 d) i)) k))
    by (intros k Hk; rewrite xrow_W_nth by assumption; ring).
  rewrite sumn_add.
  rewrite (sumn_zero' D (fun k => vnth [] k * _)) by (intros; rewrite vnth_nil; ring).
  rewrite (sumn_zero' D (fun k => vnth [] k * _ * _)) by (intros; rewrite vnth_nil; ring).
  ring.
Qed.

Lemma upd_W_same s c : upd_W s c (rnth (W s) c) = s.
Proof. unfold upd_W, rnth. rewrite set_nth_same. destruct s; reflexivity. Qed.

Lemma prior_W s c x :
  (c < c_ncl g)%nat -> (c < length (W s))%nat ->
  e_W ln g (upd_W s c x) - e_W ln g (upd_W s c []) = sumn D (fun k => vnth (tau s) k * qsq (vnth x k)).
Proof.
  intros Hc Hlt. unfold e_W, upd_W. cbn [W tau set_W].
  assert (H : forall z, sumn (c_ncl g) (fun c0 => sumn D (fun k => vnth (tau s) k * qsq (vnth (rnth (set_nth c z (W s)) c0) k)))
                        = sumn (c_ncl g) (fun c0 => sumn D (fun k => vnth (tau s) k * qsq (vnth (rnth (W s) c0) k)))
                          - sumn D (fun k => vnth (tau s) k * qsq (vnth (rnth (W s) c) k))
                          + sumn D (fun k => vnth (tau s) k * qsq (vnth z k))).
  { intros z. rewrite <- (sumn_update (c_ncl g) c (fun c0 => sumn D (fun k => vnth (tau s) k * qsq (vnth (rnth (W s) c0) k)))) by exact Hc.
    apply sumn_ext; intros k _. rewrite rnth_set_nth, (Nat.eqb_sym c k).
    apply Nat.ltb_lt in Hlt. rewrite Hlt, andb_true_r. destruct (Nat.eqb k c) eqn:E; [apply Nat.eqb_eq in E; subst|]; reflexivity. }
  rewrite !H. rewrite (sumn_zero' D (fun k => vnth (tau s) k * qsq (vnth [] k))) by (intros; rewrite vnth_nil; unfold qsq; ring).
  ring.
Qed.

Lemma energy_W s c x :
  energy ln g d (upd_W s c x) - energy ln g d (upd_W s c [])
  = prec s * (sse g d (upd_W s c x) - sse g d (upd_W s c []))
    + (e_W ln g (upd_W s c x) - e_W ln g (upd_W s c [])).
Proof.
  unfold energy, e_lik. change (prec (upd_W s c x)) with (prec s). change (prec (upd_W s c [])) with (prec s).
  change (e_W0 ln g (upd_W s c x)) with (e_W0 ln g s). change (e_W0 ln g (upd_W s c [])) with (e_W0 ln g s).
  change (e_V0 ln g (upd_W s c x)) with (e_V0 ln g s). change (e_V0 ln g (upd_W s c [])) with (e_V0 ln g s).
  change (e_hyper ln g (upd_W s c x)) with (e_hyper ln g s). change (e_hyper ln g (upd_W s c [])) with (e_hyper ln g s).
  cbn [upd_W set_W V2 V1 phi2 phi1 eta2 eta1]. ring.
Qed.

Lemma energy_diff_W s c x :
  ValidData d -> cache_ok g d s -> (c < c_ncl g)%nat -> (c < length (W s))%nat ->
  energy ln g d (upd_W s c x) - energy ln g d (upd_W s c [])
  = quad D (gramQ D (prec s) (mk_rows g d s (xrow_W g d s) (rnth (W s) c) (positions (Z.of_nat c) (d_cl d))) (tau s)) x
    - qofZ 2 * vdot D (xtr D (prec s) (mk_rows g d s (xrow_W g d s) (rnth (W s) c) (positions (Z.of_nat c) (d_cl d)))) x.
Proof.
  intros Hv Hcache Hc Hlt. rewrite energy_W, prior_W by assumption. unfold sse.
  pose proof Hv as (Hlen & _).
  rewrite (vec_core (fun z => spec_mean g d (upd_W s c z)) s (xrow_W g d s) (fun _ => []) (inC c) (fun _ => false) (rnth (W s) c) (tau s) (prec s)).
  - rewrite filter_false_nil. unfold mk_rows at 2 4. cbn [map]. rewrite !app_nil_r.
    unfold inC. rewrite <- (positions_eq (Z.of_nat c) (d_cl d) n Hlen). reflexivity.
  - intros; discriminate.
  - intros z i _. rewrite (mean_W s c z i Hv Hlt). destruct (inC c i); ring.
  - intros i Hi. rewrite upd_W_same. now apply cache_nth.
Qed.

Theorem gauss_block_W s c Q b k :
  ValidData d -> cache_ok g d s -> (c < c_ncl g)%nat -> (c < length (W s))%nat ->
  block_W g d s c = (DMvn Q b, k) ->
  forall x, energy ln g d (upd_W s c x) - energy ln g d (upd_W s c []) = quad D Q x - qofZ 2 * vdot D b x.
Proof.
  intros Hv Hcache Hc Hlt Hb x. rewrite energy_diff_W by assumption.
  unfold block_W in Hb. destruct (positions (Z.of_nat c) (d_cl d)) as [|i0 l] eqn:E; [discriminate|].
  inversion Hb; subst Q b. reflexivity.
Qed.

Theorem prior_block_W s c vars k :
  ValidData d -> cache_ok g d s -> (c < c_ncl g)%nat -> (c < length (W s))%nat ->
  block_W g d s c = (DNormalVec vars, k) ->
  vars = map Qcinv (tau s) /\
  forall x, energy ln g d (upd_W s c x) - energy ln g d (upd_W s c []) = sumn D (fun j => vnth (tau s) j * qsq (vnth x j)).
Proof.
  intros Hv Hcache Hc Hlt Hb. unfold block_W in Hb.
  destruct (positions (Z.of_nat c) (d_cl d)) as [|i0 l] eqn:E; [|discriminate].
  inversion Hb; subst vars. split; [reflexivity|]. intros x.
  rewrite energy_diff_W, E by assumption. unfold mk_rows. cbn [map].
  rewrite <- gauss_rows. cbn [map]. rewrite qsum_nil. ring.
Qed.

(* ================================================================ V2, V1: shared pieces *)
Lemma prior_Vk (V phi : list (list Qc)) (eta : list Qc) m x :
  (m < c_ndd g)%nat -> (m < length V)%nat ->
  e_Vk ln g (set_nth m x V) phi eta - e_Vk ln g (set_nth m [] V) phi eta
  = sumn D (fun k => vnth (rnth phi m) k * vnth eta k * qsq (vnth x k)).
Proof.
  intros Hm Hlt. unfold e_Vk.
  assert (H : forall z, sumn (c_ndd g) (fun m0 => sumn D (fun k => vnth (rnth phi m0) k * vnth eta k * qsq (vnth (rnth (set_nth m z V) m0) k)))
                        = sumn (c_ndd g) (fun m0 => sumn D (fun k => vnth (rnth phi m0) k * vnth eta k * qsq (vnth (rnth V m0) k)))
                          - sumn D (fun k => vnth (rnth phi m) k * vnth eta k * qsq (vnth (rnth V m) k))
                          + sumn D (fun k => vnth (rnth phi m) k * vnth eta k * qsq (vnth z k))).
  { intros z. rewrite <- (sumn_update (c_ndd g) m (fun m0 => sumn D (fun k => vnth (rnth phi m0) k * vnth eta k * qsq (vnth (rnth V m0) k)))) by exact Hm.
    apply sumn_ext; intros k _. rewrite rnth_set_nth, (Nat.eqb_sym m k).
    apply Nat.ltb_lt in Hlt. rewrite Hlt, andb_true_r. destruct (Nat.eqb k m) eqn:E; [apply Nat.eqb_eq in E; subst|]; reflexivity. }
  rewrite !H. rewrite (sumn_zero' D (fun k => _ * qsq (vnth [] k))) by (intros; rewrite vnth_nil; unfold qsq; ring).
  ring.
Qed.

Lemma block_V_data getV setV lamf Xa Xb s m Q b k :
  block_V g d getV setV lamf Xa Xb s m = (DMvn Q b, k) ->
  let rows := mk_rows g d s (Xa s) (rnth (getV s) m) (positions (Z.of_nat m) (d_dd1 d))
              ++ mk_rows g d s (Xb s) (rnth (getV s) m) (positions (Z.of_nat m) (d_dd2 d)) in
  Q = gramQ D (prec s) rows (lamf s m) /\ b = xtr D (prec s) rows.
Proof.
  unfold block_V. destruct (positions (Z.of_nat m) (d_dd1 d) ++ positions (Z.of_nat m) (d_dd2 d)); [discriminate|].
  intros H; inversion H; subst. split; reflexivity.
Qed.

Lemma block_V_prior getV setV lamf Xa Xb s m vars k :
  block_V g d getV setV lamf Xa Xb s m = (DNormalVec vars, k) ->
  vars = map Qcinv (lamf s m) /\ positions (Z.of_nat m) (d_dd1 d) = [] /\ positions (Z.of_nat m) (d_dd2 d) = [].
Proof.
  unfold block_V. destruct (positions (Z.of_nat m) (d_dd1 d) ++ positions (Z.of_nat m) (d_dd2 d)) eqn:E; [|discriminate].
  intros H; inversion H; subst. apply app_eq_nil in E. tauto.
Qed.

(* ================================================================ V2 *)
Definition upd_V2 (s : st) (m : nat) (x : list Qc) : st := set_V2 s (set_nth m x (V2 s)).

Lemma xrow_V2a_nth s i k :
  ValidData d -> (k < D)%nat ->
  vnth (xrow_V2a g d s i) k = vnth (rnth (W s) (Z.to_nat (znth (d_cl d) i))) k * vnth (emb_r (V2 s) (znth (d_dd2 d) i)) k.
Proof.
  intros (_ & _ & _ & Hc & H1 & H2) Hk. unfold xrow_V2a, vmul. rewrite vnth_tab by exact Hk.
  rewrite py_r_nat by apply Hc. rewrite get_r_emb by apply H2. reflexivity.
Qed.
Lemma xrow_V2b_nth s i k :
  ValidData d -> (k < D)%nat ->
  vnth (xrow_V2b g d s i) k = vnth (rnth (W s) (Z.to_nat (znth (d_cl d) i))) k * vnth (emb_r (V2 s) (znth (d_dd1 d) i)) k.
Proof.
  intros (_ & _ & _ & Hc & H1 & H2) Hk. unfold xrow_V2b, vmul. rewrite vnth_tab by exact Hk.
  rewrite py_r_nat by apply Hc. rewrite get_r_emb by apply H1. reflexivity.
Qed.

Lemma mean_V2 s m x i :
  ValidData d -> NoSelfCombo d -> (i < n)%nat -> (m < length (V2 s))%nat ->
  spec_mean g d (upd_V2 s m x) i
  = spec_mean g d (upd_V2 s m []) i + (if in1 m i then vdot D (xrow_V2a g d s i) x else 0)
    + (if in2 m i then vdot D (xrow_V2b g d s i) x else 0).
Proof.
  intros Hv Hns Hi Hlt. unfold spec_mean, upd_V2. cbn [W0 W V0 V1 V2 alpha set_V2].
  rewrite !emb_r_set by exact Hlt. fold (in1 m i) (in2 m i).
  destruct (in1 m i) eqn:E1, (in2 m i) eqn:E2.
  - exfalso. eapply in12_disjoint; eauto.
  - assert (HS : sumn D (fun k => vnth (rnth (W s) (Z.to_nat (znth (d_cl d) i))) k * vnth x k * vnth (emb_r (V2 s) (znth (d_dd2 d) i)) k)
               = sumn D (fun k => vnth (rnth (W s) (Z.to_nat (znth (d_cl d) i))) k * vnth [] k * vnth (emb_r (V2 s) (znth (d_dd2 d) i)) k)
                 + vdot D (xrow_V2a g d s i) x).
    { unfold vdot. rewrite <- sumn_add. apply sumn_ext; intros k Hk. rewrite vnth_nil, xrow_V2a_nth by assumption. ring. }
    rewrite HS. ring.
  - assert (HS : sumn D (fun k => vnth (rnth (W s) (Z.to_nat (znth (d_cl d) i))) k * vnth (emb_r (V2 s) (znth (d_dd1 d) i)) k * vnth x k)
               = sumn D (fun k => vnth (rnth (W s) (Z.to_nat (znth (d_cl d) i))) k * vnth (emb_r (V2 s) (znth (d_dd1 d) i)) k * vnth [] k)
                 + vdot D (xrow_V2b g d s i) x).
    { unfold vdot. rewrite <- sumn_add. apply sumn_ext; intros k Hk. rewrite vnth_nil, xrow_V2b_nth by assumption. ring. }
    rewrite HS. ring.
  - ring.
Qed.

Lemma upd_V2_same s m : upd_V2 s m (rnth (V2 s) m) = s.
Proof. unfold upd_V2, rnth. rewrite set_nth_same. destruct s; reflexivity. Qed.

Lemma energy_V2 s m x :
  energy ln g d (upd_V2 s m x) - energy ln g d (upd_V2 s m [])
  = prec s * (sse g d (upd_V2 s m x) - sse g d (upd_V2 s m []))
    + (e_Vk ln g (set_nth m x (V2 s)) (phi2 s) (eta2 s) - e_Vk ln g (set_nth m [] (V2 s)) (phi2 s) (eta2 s)).
Proof.
  unfold energy, e_lik. change (prec (upd_V2 s m x)) with (prec s). change (prec (upd_V2 s m [])) with (prec s).
  change (e_W0 ln g (upd_V2 s m x)) with (e_W0 ln g s). change (e_W0 ln g (upd_V2 s m [])) with (e_W0 ln g s).
  change (e_V0 ln g (upd_V2 s m x)) with (e_V0 ln g s). change (e_V0 ln g (upd_V2 s m [])) with (e_V0 ln g s).
  change (e_W ln g (upd_V2 s m x)) with (e_W ln g s). change (e_W ln g (upd_V2 s m [])) with (e_W ln g s).
  change (e_hyper ln g (upd_V2 s m x)) with (e_hyper ln g s). change (e_hyper ln g (upd_V2 s m [])) with (e_hyper ln g s).
  cbn [upd_V2 set_V2 V2 V1 phi2 phi1 eta2 eta1]. ring.
Qed.

Lemma energy_diff_V2 s m x :
  ValidData d -> NoSelfCombo d -> cache_ok g d s -> (m < c_ndd g)%nat -> (m < length (V2 s))%nat ->
  let rows := mk_rows g d s (xrow_V2a g d s) (rnth (V2 s) m) (positions (Z.of_nat m) (d_dd1 d))
              ++ mk_rows g d s (xrow_V2b g d s) (rnth (V2 s) m) (positions (Z.of_nat m) (d_dd2 d)) in
  energy ln g d (upd_V2 s m x) - energy ln g d (upd_V2 s m [])
  = quad D (gramQ D (prec s) rows (lam_V2 g s m)) x - qofZ 2 * vdot D (xtr D (prec s) rows) x.
Proof.
  intros Hv Hns Hcache Hm Hlt rows. subst rows. rewrite energy_V2, prior_Vk by assumption. unfold sse.
  pose proof Hv as (_ & Hl1 & Hl2 & _).
  rewrite (sumn_ext D _ (fun k => vnth (lam_V2 g s m) k * qsq (vnth x k)))
    by (intros k Hk; unfold lam_V2; now rewrite vnth_tab by exact Hk).
  rewrite (vec_core (fun z => spec_mean g d (upd_V2 s m z)) s (xrow_V2a g d s) (xrow_V2b g d s) (in1 m) (in2 m) (rnth (V2 s) m) (lam_V2 g s m) (prec s)).
  - rewrite (positions_eq (Z.of_nat m) (d_dd1 d) n Hl1), (positions_eq (Z.of_nat m) (d_dd2 d) n Hl2). reflexivity.
  - intros i Hi. now apply in12_disjoint.
  - intros z i Hi. now apply mean_V2.
  - intros i Hi. rewrite upd_V2_same. now apply cache_nth.
Qed.

Theorem gauss_block_V2 s m Q b k :
  ValidData d -> NoSelfCombo d -> cache_ok g d s -> (m < c_ndd g)%nat -> (m < length (V2 s))%nat ->
  block_V2 g d s m = (DMvn Q b, k) ->
  forall x, energy ln g d (upd_V2 s m x) - energy ln g d (upd_V2 s m []) = quad D Q x - qofZ 2 * vdot D b x.
Proof.
  intros Hv Hns Hcache Hm Hlt Hb x. apply block_V_data in Hb as [-> ->]. now apply energy_diff_V2.
Qed.

Theorem prior_block_V2 s m vars k :
  ValidData d -> NoSelfCombo d -> cache_ok g d s -> (m < c_ndd g)%nat -> (m < length (V2 s))%nat ->
  block_V2 g d s m = (DNormalVec vars, k) ->
  vars = map Qcinv (lam_V2 g s m) /\
  forall x, energy ln g d (upd_V2 s m x) - energy ln g d (upd_V2 s m []) = sumn D (fun j => vnth (lam_V2 g s m) j * qsq (vnth x j)).
Proof.
  intros Hv Hns Hcache Hm Hlt Hb. apply block_V_prior in Hb as (-> & E1 & E2). split; [reflexivity|]. intros x.
  rewrite energy_diff_V2, E1, E2 by assumption. unfold mk_rows. cbn [map app].
  rewrite <- gauss_rows. cbn [map]. rewrite qsum_nil. ring.
Qed.

(* ================================================================ V1 *)
Definition upd_V1 (s : st) (m : nat) (x : list Qc) : st := set_V1 s (set_nth m x (V1 s)).

Lemma xrow_V1_nth s i k :
  ValidData d -> (k < D)%nat -> vnth (xrow_V1 g d s i) k = vnth (rnth (W s) (Z.to_nat (znth (d_cl d) i))) k.
Proof.
  intros (_ & _ & _ & Hc & _) Hk. unfold xrow_V1. rewrite vnth_tab by exact Hk. rewrite py_r_nat by apply Hc. reflexivity.
Qed.

Lemma mean_V1 s m x i :
  ValidData d -> (m < length (V1 s))%nat ->
  spec_mean g d (upd_V1 s m x) i
  = spec_mean g d (upd_V1 s m []) i + (if in1 m i then vdot D (xrow_V1 g d s i) x else 0)
    + (if in2 m i then vdot D (xrow_V1 g d s i) x else 0).
Proof.
  intros Hv Hlt. unfold spec_mean, upd_V1. cbn [W0 W V0 V1 V2 alpha set_V1].
  rewrite !emb_r_set by exact Hlt. fold (in1 m i) (in2 m i).
  assert (HX : vdot D (xrow_V1 g d s i) x = sumn D (fun k => vnth (rnth (W s) (Z.to_nat (znth (d_cl d) i))) k * vnth x k)).
  { unfold vdot. apply sumn_ext; intros k Hk. now rewrite xrow_V1_nth by assumption. }
  rewrite HX. clear HX.
  assert (HS : forall a b : list Qc,
     sumn D (fun k => vnth (rnth (W s) (Z.to_nat (znth (d_cl d) i))) k * (vnth a k + vnth b k))
     = sumn D (fun k => vnth (rnth (W s) (Z.to_nat (znth (d_cl d) i))) k * vnth a k)
       + sumn D (fun k => vnth (rnth (W s) (Z.to_nat (znth (d_cl d) i))) k * vnth b k)).
  { intros a b. rewrite <- sumn_add. apply sumn_ext; intros; ring. }
  rewrite !HS.
  assert (HZ : sumn D (fun k => vnth (rnth (W s) (Z.to_nat (znth (d_cl d) i))) k * vnth [] k) = 0)
    by (apply sumn_zero'; intros; rewrite vnth_nil; ring).
  destruct (in1 m i), (in2 m i); rewrite ?HZ; ring.
Qed.

Lemma upd_V1_same s m : upd_V1 s m (rnth (V1 s) m) = s.
Proof. unfold upd_V1, rnth. rewrite set_nth_same. destruct s; reflexivity. Qed.

Lemma energy_V1 s m x :
  energy ln g d (upd_V1 s m x) - energy ln g d (upd_V1 s m [])
  = prec s * (sse g d (upd_V1 s m x) - sse g d (upd_V1 s m []))
    + (e_Vk ln g (set_nth m x (V1 s)) (phi1 s) (eta1 s) - e_Vk ln g (set_nth m [] (V1 s)) (phi1 s) (eta1 s)).
Proof.
  unfold energy, e_lik. change (prec (upd_V1 s m x)) with (prec s). change (prec (upd_V1 s m [])) with (prec s).
  change (e_W0 ln g (upd_V1 s m x)) with (e_W0 ln g s). change (e_W0 ln g (upd_V1 s m [])) with (e_W0 ln g s).
  change (e_V0 ln g (upd_V1 s m x)) with (e_V0 ln g s). change (e_V0 ln g (upd_V1 s m [])) with (e_V0 ln g s).
  change (e_W ln g (upd_V1 s m x)) with (e_W ln g s). change (e_W ln g (upd_V1 s m [])) with (e_W ln g s).
  change (e_hyper ln g (upd_V1 s m x)) with (e_hyper ln g s). change (e_hyper ln g (upd_V1 s m [])) with (e_hyper ln g s).
  cbn [upd_V1 set_V1 V2 V1 phi2 phi1 eta2 eta1]. ring.
Qed.

Lemma energy_diff_V1 s m x :
  ValidData d -> NoSelfCombo d -> cache_ok g d s -> (m < c_ndd g)%nat -> (m < length (V1 s))%nat ->
  let rows := mk_rows g d s (xrow_V1 g d s) (rnth (V1 s) m) (positions (Z.of_nat m) (d_dd1 d))
              ++ mk_rows g d s (xrow_V1 g d s) (rnth (V1 s) m) (positions (Z.of_nat m) (d_dd2 d)) in
  energy ln g d (upd_V1 s m x) - energy ln g d (upd_V1 s m [])
  = quad D (gramQ D (prec s) rows (lam_V1 g s m)) x - qofZ 2 * vdot D (xtr D (prec s) rows) x.
Proof.
  intros Hv Hns Hcache Hm Hlt rows. subst rows. rewrite energy_V1, prior_Vk by assumption. unfold sse.
  pose proof Hv as (_ & Hl1 & Hl2 & _).
  rewrite (sumn_ext D _ (fun k => vnth (lam_V1 g s m) k * qsq (vnth x k)))
    by (intros k Hk; unfold lam_V1; now rewrite vnth_tab by exact Hk).
  rewrite (vec_core (fun z => spec_mean g d (upd_V1 s m z)) s (xrow_V1 g d s) (xrow_V1 g d s) (in1 m) (in2 m) (rnth (V1 s) m) (lam_V1 g s m) (prec s)).
  - rewrite (positions_eq (Z.of_nat m) (d_dd1 d) n Hl1), (positions_eq (Z.of_nat m) (d_dd2 d) n Hl2). reflexivity.
  - intros i Hi. now apply in12_disjoint.
  - intros z i Hi. now apply mean_V1.
  - intros i Hi. rewrite upd_V1_same. now apply cache_nth.
Qed.

Theorem gauss_block_V1 s m Q b k :
  ValidData d -> NoSelfCombo d -> cache_ok g d s -> (m < c_ndd g)%nat -> (m < length (V1 s))%nat ->
  block_V1 g d s m = (DMvn Q b, k) ->
  forall x, energy ln g d (upd_V1 s m x) - energy ln g d (upd_V1 s m []) = quad D Q x - qofZ 2 * vdot D b x.
Proof.
  intros Hv Hns Hcache Hm Hlt Hb x. apply block_V_data in Hb as [-> ->]. now apply energy_diff_V1.
Qed.

Theorem prior_block_V1 s m vars k :
  ValidData d -> NoSelfCombo d -> cache_ok g d s -> (m < c_ndd g)%nat -> (m < length (V1 s))%nat ->
  block_V1 g d s m = (DNormalVec vars, k) ->
  vars = map Qcinv (lam_V1 g s m) /\
  forall x, energy ln g d (upd_V1 s m x) - energy ln g d (upd_V1 s m []) = sumn D (fun j => vnth (lam_V1 g s m) j * qsq (vnth x j)).
Proof.
  intros Hv Hns Hcache Hm Hlt Hb. apply block_V_prior in Hb as (-> & E1 & E2). split; [reflexivity|]. intros x.
  rewrite energy_diff_V1, E1, E2 by assumption. unfold mk_rows. cbn [map app].
  rewrite <- gauss_rows. cbn [map]. rewrite qsum_nil. ring.
Qed.
End Blocks.
