(* C14: specification-side definitions used in the statements (no proofs, nothing here is extracted). *)
From Coq Require Import ZArith List Bool Arith.
From Batchie Require Import Lib.Sexp Model.Encode Model.Screen Model.Views.
Import ListNotations.
Open Scope nat_scope.

(* the per-row arrays of a screen all have [screen_size] entries, treatment id rows have [s_arity] columns
   (true of every screen returned by the constructor: C14Views.mk_screen_wf) *)
Definition screen_wf (s : screen) : Prop :=
  length (s_sids s) = screen_size s /\ length (s_pids s) = screen_size s /\ length (s_rows s) = screen_size s /\
  Forall (fun t => length t = s_arity s) (s_tids s).

(* invariant of ScreenSubset.__init__: the selection vector has one entry per parent row *)
Definition view_ok (v : view) : Prop := length (v_sel v) = screen_size (v_parent v).

(* v is a view of parent number k of the environment ps *)
Definition view_in (ps : list screen) (v : view) (k : nat) : Prop :=
  nth_error ps k = Some (v_parent v) /\ v_tag v = Z.of_nat k /\ view_ok v.

(* the selection vector of length n that selects exactly the indices in l *)
Definition mask_of (n : nat) (l : list nat) : list bool := map (fun i => mem_nat i l) (seq 0 n).

(* scatter of an inner mask over the true positions of an outer one, written by structural recursion *)
Fixpoint expand (sel inner : list bool) : list bool :=
  match sel with
  | [] => []
  | false :: s => false :: expand s inner
  | true :: s => match inner with
                 | [] => true :: s
                 | x :: i' => x :: expand s i'
                 end
  end.

(* first-occurrence mask, structurally: keep a row iff its key was not seen before *)
Fixpoint first_mask_rec (seen keys : list (list Z)) : list bool :=
  match keys with
  | [] => []
  | k :: r => if existsb (name_eqb k) seen then false :: first_mask_rec seen r
              else true :: first_mask_rec (k :: seen) r
  end.
