(* C07: the hand-written chunk arithmetic equals the Gallina translation of the source
   (Generated/SrcArithC07.v, regenerated from /repo by harness/py2coq.py on every run). *)
From Coq Require Import ZArith List Lia.
From Batchie Require Import Model.Chunks Generated.SrcArithC07.
Open Scope Z_scope.

Lemma n_lower_is_source n : n_lower n = src_n_lower n.
Proof. reflexivity. Qed.

Lemma chunk_bounds_is_source n k c : chunk_bounds (n_lower n) k c = src_chunk_bounds n k c.
Proof.
  unfold chunk_bounds, src_chunk_bounds. change (src_n_lower n) with (n_lower n).
  cbv zeta. destruct (k <? n_lower n mod c); f_equal; ring.
Qed.
