(* One piece of Proofs/C18SourceParser.v (which see): the option table of select_next_plate.get_parser(), read from /repo on every run
   (Generated/SrcParser_select_next_plate.v), provides what the argument record of that command assumes. *)
From Coq Require Import ZArith List Bool.
From Batchie Require Import Lib.Sexp Lib.PyRt Model.Cli Proofs.C18Parser Generated.SrcParser_select_next_plate.
Import ListNotations.
Open Scope Z_scope.

Theorem parser_select_next_plate_fields : forall f, In f (sn_fields ++ logging_fields) -> declares src_parser_select_next_plate f.
Proof. apply declares_all. vm_compute. reflexivity. Qed.

Theorem parser_select_next_plate_dests_derived : dests_derived src_parser_select_next_plate.
Proof. apply dests_derived_sound. vm_compute. reflexivity. Qed.

Theorem parser_select_next_plate_dests_distinct : dests_distinct src_parser_select_next_plate.
Proof. apply dests_distinct_sound. vm_compute. reflexivity. Qed.

Theorem parser_select_next_plate_seed : seed_declared src_parser_select_next_plate.
Proof. apply seed_declaredb_sound. vm_compute. reflexivity. Qed.

Theorem parser_select_next_plate_params : params_kv src_parser_select_next_plate.
Proof. apply params_kvb_sound. vm_compute. reflexivity. Qed.
