(* C10: Metric.__init__ (Generated/SrcInits.v) stores its argument: the attribute the translated methods of the class read
   (`self.<attr>` = the model parameter of their links) is the value the object was constructed with - model *)
From Coq Require Import ZArith List Bool.
From Batchie Require Import Lib.Sexp Lib.PyRt Model.Encode Generated.SrcInits.
Import ListNotations.
Open Scope Z_scope.

Theorem src_metric_init_stores : forall (Mo : Type) (model : Mo), src_metric_init Mo model = Ok model.
Proof. reflexivity. Qed.
