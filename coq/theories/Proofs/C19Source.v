(* C19: the hand-written model of the orchestration script (Model/Orchestrate.v) equals the translation of
   nextflow/scripts/batchie.py regenerated from /repo on every run (Generated/SrcOrchestrate.v, by harness/py2gal.py
   with the configurations C19_* of harness/src_functions.py), for all inputs. *)
From Coq Require Import ZArith List Bool Lia.
From Batchie Require Import Lib.Sexp Lib.PyRt Model.Orchestrate Generated.SrcOrchestrate Proofs.C19Base Proofs.C19Main.
Import ListNotations.
Open Scope Z_scope.

(* ---- the run-time library of the sres monad ---- *)
Lemma sfold_ext {S A : Type} (f g : S -> A -> sres S) :
  (forall s a, f s a = g s a) -> forall l s, sfold f l s = sfold g l s.
Proof.
  intros H l; induction l as [|a l IH]; intros s; cbn [sfold]; [reflexivity|].
  rewrite H. destruct (g s a); cbn [sbind]; [apply IH | reflexivity | reflexivity].
Qed.

Lemma filter_all {A : Type} (l : list A) : filter (fun _ => true) l = l.
Proof. induction l as [|a l IH]; cbn [filter]; [reflexivity | now rewrite IH]. Qed.

(* ---- sorted(l, key=dir_sort_key) is the model's sort_dirs ---- *)
Lemma insert_by_iter (p : iter_path) l : insert_by iter_index p l = insert_key p l.
Proof. induction l as [|q l IH]; cbn [insert_by insert_key]; [reflexivity|]. unfold iter_index at 1 2. now rewrite IH. Qed.

Lemma sort_by_iter (l : list iter_path) : sort_by iter_index l = sort_dirs l.
Proof. induction l as [|p l IH]; cbn [sort_by sort_dirs]; [reflexivity|]. now rewrite IH, insert_by_iter. Qed.

Definition tag_plate (i : Z) (p : Z * pdir) : plate_path := ((i, fst p), snd p).

Lemma insert_by_plate i p l :
  insert_by plate_index (tag_plate i p) (map (tag_plate i) l) = map (tag_plate i) (insert_key p l).
Proof.
  induction l as [|q l IH]; cbn [insert_by insert_key map]; [reflexivity|].
  unfold plate_index at 1 2. cbn [tag_plate fst snd].
  destruct (fst p <? fst q); cbn [map]; [reflexivity|]. now rewrite IH.
Qed.

Lemma sort_by_plate i l : sort_by plate_index (map (tag_plate i) l) = map (tag_plate i) (sort_dirs l).
Proof. induction l as [|p l IH]; cbn [sort_by sort_dirs map]; [reflexivity|]. now rewrite IH, insert_by_plate. Qed.

Lemma glob_plates_sorted (d : iter_path) :
  sort_by plate_index (filter (fun _ => true) (glob_plates d)) = map (tag_plate (fst d)) (sort_dirs (snd d)).
Proof. rewrite filter_all. unfold glob_plates. apply sort_by_plate. Qed.

(* ---- the loops of examine ---- *)
(* the translation's loop state against the model's exst: the three Optionals are None together; once the metadata of a
   completed step has been seen, all of them and the leaked loop variable plate_dir are what the model records *)
Definition xrel (cp : option Z) (pd : plate_path) (ci m : option Z) (st : exst) : Prop :=
  m = x_meta st /\ (forall v, m = Some v -> cp = Some (x_plate st) /\ ci = Some (x_iter st) /\ x_leak st = Some pd).

Definition inner_body (it : Z) (s : plate_path * option Z * option Z * option Z) (x : Z * plate_path)
  : sres (plate_path * option Z * option Z * option Z) :=
  if is_none (meta_of (snd x)) then SNamed 1 (fst (snd x))
  else if negb (plate_index (snd x) =? fst x) then SNamed 2 (fst (snd x))
  else SOk (snd x, Some (plate_index (snd x)), Some it, meta_of (snd x)).

Lemma inner_loop it f :
  (forall s x, f s x = inner_body it s x) ->
  forall pl k pd cp ci m st, xrel cp pd ci m st ->
  match examine_plates it st (Z.of_nat k) pl with
  | XNamed w s => sfold f (combine (map Z.of_nat (seq k (length pl))) (map (tag_plate it) pl)) (pd, cp, ci, m) = SNamed w s
  | XOk st' => exists pd' cp' ci' m',
      sfold f (combine (map Z.of_nat (seq k (length pl))) (map (tag_plate it) pl)) (pd, cp, ci, m) = SOk (pd', cp', ci', m')
      /\ xrel cp' pd' ci' m' st'
  end.
Proof.
  intros Hf pl; induction pl as [|[pidx d] pl IH]; intros k pd cp ci m st R.
  - cbn. exists pd, cp, ci, m. split; [reflexivity | exact R].
  - cbn [examine_plates length seq map combine sfold]. rewrite Hf. unfold inner_body.
    unfold meta_of, plate_index, tag_plate. cbn [fst snd].
    destruct (f_meta d) as [mm|] eqn:Em; cbn [is_none sbind]; [|reflexivity].
    destruct (negb (pidx =? Z.of_nat k)); cbn [sbind]; [reflexivity|].
    replace (Z.of_nat k + 1) with (Z.of_nat (S k)) by lia.
    apply IH. split; [reflexivity|]. intros v _. cbn. repeat split; reflexivity.
Qed.

Definition outer_body (s : option Z * plate_path * option Z * option Z) (it : iter_path)
  : sres (option Z * plate_path * option Z * option Z) :=
  let '(cp, pd, ci, m) := s in
  let pls := map (tag_plate (fst it)) (sort_dirs (snd it)) in
  if is_nil pls then SOk (cp, pd, ci, m)
  else dos r <- sfold (inner_body (fst it)) (enumerate_z pls) (pd, Some 0, ci, m);
       let '(pd', cp', ci', m') := r in SOk (cp', pd', ci', m').

Lemma outer_loop f :
  (forall s x, f s x = outer_body s x) ->
  forall l cp pd ci m st, xrel cp pd ci m st ->
  match examine_iters true st l with
  | XNamed w s => sfold f l (cp, pd, ci, m) = SNamed w s
  | XOk st' => exists cp' pd' ci' m', sfold f l (cp, pd, ci, m) = SOk (cp', pd', ci', m') /\ xrel cp' pd' ci' m' st'
  end.
Proof.
  intros Hf l; induction l as [|[i raw] l IH]; intros cp pd ci m st R.
  - cbn. exists cp, pd, ci, m. split; [reflexivity | exact R].
  - cbn [examine_iters sfold]. rewrite Hf. unfold outer_body, examine_iter. cbn [fst snd].
    destruct (sort_dirs raw) as [|p pl] eqn:Es.
    + cbn [map is_nil andb examine_plates xbind sbind]. apply IH, R.
    + assert (Hn : is_nil (map (tag_plate i) (p :: pl)) = false) by reflexivity. rewrite Hn.
      assert (Hn2 : (true && Orchestrate.is_nil (p :: pl)) = false) by reflexivity. rewrite Hn2.
      unfold enumerate_z. rewrite map_length.
      assert (R0 : xrel (Some 0) pd ci m (mkx (x_meta st) (x_iter st) 0 (x_leak st))).
      { destruct R as [R1 R2]. split; [exact R1|]. intros v Hv. destruct (R2 v Hv) as (_ & Hi & Hl).
        cbn. repeat split; assumption. }
      pose proof (inner_loop i (inner_body i) (fun _ _ => eq_refl) (p :: pl) 0 pd (Some 0) ci m _ R0) as H.
      change (Z.of_nat 0) with 0 in H.
      destruct (examine_plates i (mkx (x_meta st) (x_iter st) 0 (x_leak st)) 0 (p :: pl)) as [st'|w s].
      * destruct H as (pd' & cp' & ci' & m' & E & R'). rewrite E. cbn [sbind xbind]. apply IH, R'.
      * rewrite H. reflexivity.
Qed.

Theorem src_examine_is_model : forall (f : fs) (bs : Z),
  src_examine f bs = sres_of_xres (examine true bs f).
Proof.
  intros f bs. unfold src_examine, examine.
  rewrite filter_all. unfold glob_iters. rewrite sort_by_iter.
  match goal with |- context [sfold ?F (sort_dirs f) ?S] => set (body := F) end.
  assert (Hb : forall s x, body s x = outer_body s x).
  { intros [[[cp pd] ci] m] it. unfold body, outer_body. rewrite glob_plates_sorted.
    destruct (map (tag_plate (fst it)) (sort_dirs (snd it))) as [|p pl] eqn:Ep; [reflexivity|].
    cbn [is_nil negb].
    match goal with |- sbind ?X _ = sbind ?Y _ => replace X with Y end.
    - match goal with |- sbind ?Y _ = _ => destruct Y as [[[[pd' cp'] ci'] m']|w s|d w] end; reflexivity.
    - apply sfold_ext. intros [[[a b] c] d] [idx q]. unfold inner_body. cbn [fst snd].
      destruct (is_none (meta_of q)); [reflexivity|]. destruct (negb (plate_index q =? idx)); reflexivity. }
  assert (R0 : xrel None ((0, 0), empty_pdir) None None exst0).
  { split; [reflexivity|]. intros v Hv. discriminate Hv. }
  pose proof (outer_loop body Hb (sort_dirs f) _ _ _ _ _ R0) as H.
  destruct (examine_iters true exst0 (sort_dirs f)) as [st|w s].
  - destruct H as (cp & pd & ci & m & E & R1 & R2). rewrite E. cbn [sbind xbind].
    destruct m as [v|]; rewrite <- R1; cbn [is_none]; [|reflexivity].
    destruct (R2 v eq_refl) as (Hc & Hi & Hl). subst cp ci. rewrite Hl. cbn [sunwrap sbind].
    unfold screen_of_path.
    destruct (x_plate st >=? bs - 1); cbn [sbind sres_of_xres]; reflexivity.
  - rewrite H. reflexivity.
Qed.

(* The model parameter [fixed] is determined by the source: the translation is the repaired examine and not the
   unrepaired one - they differ on the tree of the witness of resume_refuted_empty_iter (iter_0 complete for batch size 2,
   iter_1 created but empty: crash between the two makedirs levels). *)
Definition tree_empty_iter : fs := fst (script_run Retro false 2 4 [] (firstn 3 Proofs.C19Main.witness_empty_iter)).

Lemma src_examine_not_unrepaired :
  src_examine tree_empty_iter 2 <> sres_of_xres (examine false 2 tree_empty_iter).
Proof. rewrite src_examine_is_model. vm_compute. discriminate. Qed.

Theorem src_examine_determines_fixed : forall fixed,
  (forall f bs, src_examine f bs = sres_of_xres (examine fixed bs f)) <-> fixed = true.
Proof.
  intros fixed; split.
  - intros H. destruct fixed; [reflexivity|]. exfalso. exact (src_examine_not_unrepaired (H _ _)).
  - intros ->. exact src_examine_is_model.
Qed.
