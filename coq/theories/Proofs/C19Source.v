(* C19: the hand-written model of the orchestration script (Model/Orchestrate.v) equals the translation of
   nextflow/scripts/batchie.py regenerated from /repo on every run (Generated/SrcOrchestrate.v, by harness/py2gal.py
   with the configurations C19_* of harness/src_functions.py), for all inputs. *)
From Coq Require Import ZArith List Bool Lia.
From Batchie Require Import Lib.Sexp Lib.PyRt Model.Orchestrate Generated.SrcOrchCmd Proofs.C19SourceCmd Generated.SrcOrchestrate
  Proofs.C19Base Proofs.C19Main Proofs.C19Torn.
Import ListNotations.
Open Scope Z_scope.

(* ---- the run-time library of the sres monad ---- *)
Lemma sfold_ext {S A : Type} (f g : S -> A -> sres S) :
  (forall s a, f s a = g s a) -> forall l s, sfold f l s = sfold g l s.
Proof.
  intros H l; induction l as [|a l IH]; intros s; cbn [sfold]; [reflexivity|].
  rewrite H. destruct (g s a); cbn [sbind]; [apply IH | reflexivity | reflexivity].
Qed.

Lemma filter_all {A : Type} (l : list A) : filter (fun _ => true) l = l.
Proof. induction l as [|a l IH]; cbn [filter]; [reflexivity | now rewrite IH]. Qed.

(* ---- sorted(l, key=dir_sort_key) is the model's sort_dirs ---- *)
Lemma insert_by_iter (p : iter_path) l : insert_by iter_index p l = insert_key p l.
Proof. induction l as [|q l IH]; cbn [insert_by insert_key]; [reflexivity|]. unfold iter_index at 1 2. now rewrite IH. Qed.

Lemma sort_by_iter (l : list iter_path) : sort_by iter_index l = sort_dirs l.
Proof. induction l as [|p l IH]; cbn [sort_by sort_dirs]; [reflexivity|]. now rewrite IH, insert_by_iter. Qed.

Definition tag_plate (i : Z) (p : Z * pdir) : plate_path := ((i, fst p), snd p).

Lemma insert_by_plate i p l :
  insert_by plate_index (tag_plate i p) (map (tag_plate i) l) = map (tag_plate i) (insert_key p l).
Proof.
  induction l as [|q l IH]; cbn [insert_by insert_key map]; [reflexivity|].
  unfold plate_index at 1 2. cbn [tag_plate fst snd].
  destruct (fst p <? fst q); cbn [map]; [reflexivity|]. now rewrite IH.
Qed.

Lemma sort_by_plate i l : sort_by plate_index (map (tag_plate i) l) = map (tag_plate i) (sort_dirs l).
Proof. induction l as [|p l IH]; cbn [sort_by sort_dirs map]; [reflexivity|]. now rewrite IH, insert_by_plate. Qed.

Lemma glob_plates_sorted (d : iter_path) :
  sort_by plate_index (filter (fun _ => true) (glob_plates d)) = map (tag_plate (fst d)) (sort_dirs (snd d)).
Proof. rewrite filter_all. unfold glob_plates. apply sort_by_plate. Qed.

(* ---- the helper functions: glob, test for no match, first match ---- *)
Lemma sfold_pure {S A : Type} (f : S -> A -> sres S) (g : S -> A -> S) :
  (forall s a, f s a = SOk (g s a)) -> forall l s, sfold f l s = SOk (fold_left g l s).
Proof.
  intros H l; induction l as [|a l IH]; intros s; cbn [sfold fold_left]; [reflexivity|].
  rewrite H. cbn [sbind]. apply IH.
Qed.

Lemma len0 {A : Type} (l : list A) : (Z.of_nat (length l) =? 0) = is_nil l.
Proof. destruct l; [reflexivity|]. cbn [length Orchestrate.is_nil]. apply Z.eqb_neq. lia. Qed.

Theorem src_get_screen_is_model : forall p : plate_path,
  src_get_screen_from_job_output p = SOk (screen_of_path p).
Proof.
  intros [s d]. unfold src_get_screen_from_job_output, glob_in_plate, screen_of_path, screen_of, produced. cbn [fst snd].
  destruct (f_advanced d), (f_training d); reflexivity.
Qed.

(* validate_job_dir_and_return_meta since the repair: for EVERY list of marker files the glob may match, whatever they hold -
   None without a match; else the first match decides: the document it holds if that is a dict with the key
   n_unobserved_plates, None if json.load raises ValueError, if the document is no dict, if the key is missing *)
Theorem src_validate_is_model : forall d : marker_dir,
  src_validate_job_dir_and_return_meta d = SOk (valid_meta d).
Proof. intros [|[[[m|]|]|] r]; reflexivity. Qed.

(* in a world (tree, torn set): a torn marker is no marker, a whole one is the metadata the tree records *)
Definition world_meta (torn : torn_set) (p : plate_path) : option jval :=
  if is_torn torn (fst p) then None else option_map whole_meta (meta_of p).

Lemma valid_meta_world torn p : valid_meta (marker_dir_of torn p) = world_meta torn p.
Proof.
  unfold marker_dir_of, world_meta, meta_of. destruct (is_torn torn (fst p)); [reflexivity|].
  destruct (f_meta (snd p)); reflexivity.
Qed.

Theorem src_validate_in_world : forall torn (p : plate_path),
  src_validate_job_dir_and_return_meta (marker_dir_of torn p) = SOk (world_meta torn p).
Proof. intros torn p. now rewrite src_validate_is_model, valid_meta_world. Qed.

(* the repair is needed: json.load raising on the first match is None, not an exception *)
Lemma src_validate_torn_is_none r : src_validate_job_dir_and_return_meta (None :: r) = SOk None.
Proof. reflexivity. Qed.

Theorem src_get_test_screen_is_model : forall (f : fs) (s : step),
  src_get_test_screen_from_job_output (f, s) = SOk (test_screen_of f s).
Proof.
  intros f s. unfold src_get_test_screen_from_job_output, glob_in_job, test_screen_of, has_training, produced. cbn [fst snd].
  destruct (get_plate f s) as [d|]; [destruct (f_training d)|]; reflexivity.
Qed.

Theorem src_get_thetas_is_model : forall (done : list action) (f : fs) (s : step),
  src_get_theta_and_dist_chunks done (f, s) = theta_chunks f done s.
Proof.
  intros done f s. unfold src_get_theta_and_dist_chunks, glob_in_job, theta_chunks, has_thetas_dist, produced. cbn [fst snd].
  destruct (get_plate f s) as [d|]; [destruct (f_thetas d), (f_dist d)|]; reflexivity.
Qed.

Theorem src_get_selected_is_model : forall (f : fs) (i : Z),
  src_get_selected_plates (f, i) = SOk (get_selected f i).
Proof.
  intros f i. unfold src_get_selected_plates, glob_selected, get_selected. cbn [fst snd].
  rewrite (sfold_pure _ (fun o x => o ++ [x])) by reflexivity. cbn [sbind].
  assert (E : forall l acc, fold_left (fun (o : list Z) x => o ++ [x]) l acc = acc ++ l).
  { induction l as [|a l IH]; intros acc; cbn [fold_left]; [now rewrite app_nil_r|]. rewrite IH, <- app_assoc. reflexivity. }
  rewrite E. cbn [app]. rewrite len0. destruct (selected_plates f i); reflexivity.
Qed.

(* ---- the loops of examine, on a world with torn markers: the model's examine_t with tfix = true ---- *)
(* the translation's loop state against the model's exst: the three Optionals are None together; once the metadata of a
   completed step has been seen, all of them and the leaked loop variable plate_dir are what the model records; the metadata
   the translation holds is the loaded document of the entry the model holds *)
Definition xrel (cp : option Z) (pd : plate_path) (ci : option Z) (m : option jval) (st : exst) : Prop :=
  m = option_map whole_meta (x_meta st) /\
  (forall v, m = Some v -> cp = Some (x_plate st) /\ ci = Some (x_iter st) /\ x_leak st = Some pd).

Definition inner_body (torn : torn_set) (it : Z) (s : plate_path * option Z * option Z * option jval) (x : Z * plate_path)
  : sres (plate_path * option Z * option Z * option jval) :=
  if is_none (world_meta torn (snd x)) then SNamed 1 (fst (snd x))
  else if negb (plate_index (snd x) =? fst x) then SNamed 2 (fst (snd x))
  else SOk (snd x, Some (plate_index (snd x)), Some it, world_meta torn (snd x)).

Lemma inner_loop torn it f :
  (forall s x, f s x = inner_body torn it s x) ->
  forall pl k pd cp ci m st, xrel cp pd ci m st ->
  match examine_plates_t true torn it st (Z.of_nat k) pl with
  | TNamed w s => sfold f (combine (map Z.of_nat (seq k (length pl))) (map (tag_plate it) pl)) (pd, cp, ci, m) = SNamed w s
  | TOk st' => exists pd' cp' ci' m',
      sfold f (combine (map Z.of_nat (seq k (length pl))) (map (tag_plate it) pl)) (pd, cp, ci, m) = SOk (pd', cp', ci', m')
      /\ xrel cp' pd' ci' m' st'
  | TRaised _ => False
  end.
Proof.
  intros Hf pl; induction pl as [|[pidx d] pl IH]; intros k pd cp ci m st R.
  - cbn. exists pd, cp, ci, m. split; [reflexivity | exact R].
  - cbn [examine_plates_t length seq map combine sfold]. rewrite Hf. unfold inner_body.
    unfold world_meta, meta_of, plate_index, tag_plate. cbn [fst snd].
    destruct (is_torn torn (it, pidx)); cbn [is_none sbind]; [reflexivity|].
    destruct (f_meta d) as [mm|] eqn:Em; cbn [option_map is_none sbind]; [|reflexivity].
    destruct (negb (pidx =? Z.of_nat k)); cbn [sbind]; [reflexivity|].
    replace (Z.of_nat k + 1) with (Z.of_nat (S k)) by lia.
    apply IH. split; [reflexivity|]. intros v _. cbn. repeat split; reflexivity.
Qed.

Definition outer_body (torn : torn_set) (s : option Z * plate_path * option Z * option jval) (it : iter_path)
  : sres (option Z * plate_path * option Z * option jval) :=
  let '(cp, pd, ci, m) := s in
  let pls := map (tag_plate (fst it)) (sort_dirs (snd it)) in
  if is_nil pls then SOk (cp, pd, ci, m)
  else dos r <- sfold (inner_body torn (fst it)) (enumerate_z pls) (pd, Some 0, ci, m);
       let '(pd', cp', ci', m') := r in SOk (cp', pd', ci', m').

Lemma outer_loop torn f :
  (forall s x, f s x = outer_body torn s x) ->
  forall l cp pd ci m st, xrel cp pd ci m st ->
  match examine_iters_t true torn true st l with
  | TNamed w s => sfold f l (cp, pd, ci, m) = SNamed w s
  | TOk st' => exists cp' pd' ci' m', sfold f l (cp, pd, ci, m) = SOk (cp', pd', ci', m') /\ xrel cp' pd' ci' m' st'
  | TRaised _ => False
  end.
Proof.
  intros Hf l; induction l as [|[i raw] l IH]; intros cp pd ci m st R.
  - cbn. exists cp, pd, ci, m. split; [reflexivity | exact R].
  - cbn [examine_iters_t sfold]. rewrite Hf. unfold outer_body, examine_iter_t. cbn [fst snd].
    destruct (sort_dirs raw) as [|p pl] eqn:Es.
    + cbn [map is_nil andb examine_plates_t tbind sbind]. apply IH, R.
    + assert (Hn : is_nil (map (tag_plate i) (p :: pl)) = false) by reflexivity. rewrite Hn.
      assert (Hn2 : (true && Orchestrate.is_nil (p :: pl)) = false) by reflexivity. rewrite Hn2.
      unfold enumerate_z. rewrite map_length.
      assert (R0 : xrel (Some 0) pd ci m (mkx (x_meta st) (x_iter st) 0 (x_leak st))).
      { destruct R as [R1 R2]. split; [exact R1|]. intros v Hv. destruct (R2 v Hv) as (_ & Hi & Hl).
        cbn. repeat split; assumption. }
      pose proof (inner_loop torn i (inner_body torn i) (fun _ _ => eq_refl) (p :: pl) 0 pd (Some 0) ci m _ R0) as H.
      change (Z.of_nat 0) with 0 in H.
      destruct (examine_plates_t true torn i (mkx (x_meta st) (x_iter st) 0 (x_leak st)) 0 (p :: pl)) as [st'|w s|w].
      * destruct H as (pd' & cp' & ci' & m' & E & R'). rewrite E. cbn [sbind tbind]. apply IH, R'.
      * rewrite H. reflexivity.
      * destruct H.
Qed.

(* examine on a world with torn markers IS the model's examine_t with both repairs (fixed = true: an iteration directory
   without plate directories is skipped; tfix = true: an unreadable marker is a missing marker), for EVERY tree, torn set and
   batch size; the metadata it hands on is the loaded document of the model's entry *)
Theorem src_examine_is_model_t : forall (tf : tfs) (bs : Z),
  src_examine tf bs = sres_of_tres (tres_map up_meta (examine_t true true bs tf)).
Proof.
  intros [f torn] bs. unfold src_examine, examine_t. cbn [fst snd].
  rewrite filter_all. unfold glob_iters. rewrite sort_by_iter.
  match goal with |- context [sfold ?F (sort_dirs f) ?S] => set (body := F) end.
  assert (Hb : forall s x, body s x = outer_body torn s x).
  { intros [[[cp pd] ci] m] it. unfold body, outer_body. rewrite glob_plates_sorted.
    destruct (map (tag_plate (fst it)) (sort_dirs (snd it))) as [|p pl] eqn:Ep; [reflexivity|].
    cbn [is_nil negb].
    match goal with |- sbind ?X _ = sbind ?Y _ => replace X with Y end.
    - match goal with |- sbind ?Y _ = _ => destruct Y as [[[[pd' cp'] ci'] m']|w s|d w] end; reflexivity.
    - apply sfold_ext. intros [[[a b] c] d] [idx q]. unfold inner_body. cbn [fst snd].
      rewrite !src_validate_in_world. cbn [sbind].
      destruct (is_none (world_meta torn q)); [reflexivity|]. destruct (negb (plate_index q =? idx)); reflexivity. }
  assert (R0 : xrel None ((0, 0), empty_pdir) None None exst0).
  { split; [reflexivity|]. intros v Hv. discriminate Hv. }
  pose proof (outer_loop torn body Hb (sort_dirs f) _ _ _ _ _ R0) as H.
  destruct (examine_iters_t true torn true exst0 (sort_dirs f)) as [st|w s|w].
  - destruct H as (cp & pd & ci & m & E & R1 & R2). rewrite E. cbn [sbind tbind].
    destruct (x_meta st) as [v|] eqn:Ex; cbn [option_map] in R1; subst m; cbn [is_none]; [|reflexivity].
    destruct (R2 _ eq_refl) as (Hc & Hi & Hl). subst cp ci. rewrite Hl. cbn [sunwrap sbind].
    rewrite src_get_screen_is_model. unfold screen_of_path.
    destruct (x_plate st >=? bs - 1); cbn [sbind tres_map sres_of_tres up_meta option_map]; reflexivity.
  - rewrite H. reflexivity.
  - destruct H.
Qed.

(* no torn marker: the model's examine *)
Theorem src_examine_is_model : forall (f : fs) (bs : Z),
  src_examine (f, []) bs = sres_of_xres (xres_map up_meta (examine true bs f)).
Proof.
  intros f bs. rewrite src_examine_is_model_t, examine_t_nil.
  destruct (examine true bs f); reflexivity.
Qed.

(* The model parameters [fixed] and [tfix] are determined by the source: the translation is the examine with both repairs and
   no other.  Without the first it differs on the tree of the witness of resume_refuted_empty_iter (iter_0 complete for batch
   size 2, iter_1 created but empty: crash between the two makedirs levels); without the second on the world the witness of
   resume_refuted_torn_marker leaves behind (step (1,0) holds a torn marker). *)
Definition tree_empty_iter : fs := fst (script_run Retro false 2 4 [] (firstn 3 Proofs.C19Main.witness_empty_iter)).
Definition world_torn_marker : tfs := fst (script_run_t false Retro true 1 3 ([], []) witness_torn).

Lemma src_examine_not_unrepaired :
  src_examine (tree_empty_iter, []) 2 <> sres_of_xres (xres_map up_meta (examine false 2 tree_empty_iter)).
Proof. rewrite src_examine_is_model. vm_compute. discriminate. Qed.

Lemma src_examine_not_raising_on_torn :
  src_examine world_torn_marker 1 <> sres_of_tres (tres_map up_meta (examine_t false true 1 world_torn_marker)).
Proof. rewrite src_examine_is_model_t. vm_compute. discriminate. Qed.

Theorem src_examine_determines_fixed : forall fixed,
  (forall f bs, src_examine (f, []) bs = sres_of_xres (xres_map up_meta (examine fixed bs f))) <-> fixed = true.
Proof.
  intros fixed; split.
  - intros H. destruct fixed; [reflexivity|]. exfalso. exact (src_examine_not_unrepaired (H _ _)).
  - intros ->. exact src_examine_is_model.
Qed.

Theorem src_examine_determines_repairs : forall tfix fixed,
  (forall tf bs, src_examine tf bs = sres_of_tres (tres_map up_meta (examine_t tfix fixed bs tf))) <-> tfix = true /\ fixed = true.
Proof.
  intros tfix fixed; split.
  - intros H. destruct tfix.
    + split; [reflexivity|]. apply src_examine_determines_fixed. intros f bs. rewrite H, examine_t_nil.
      destruct (examine fixed bs f); reflexivity.
    + exfalso. destruct fixed.
      * exact (src_examine_not_raising_on_torn (H _ _)).
      * specialize (H (tree_empty_iter, []) 2). rewrite examine_t_nil in H. apply src_examine_not_unrepaired.
        rewrite H. destruct (examine false 2 tree_empty_iter); reflexivity.
  - intros [-> ->]. exact src_examine_is_model_t.
Qed.

(* ================= run_next_retrospective_step / run_next_prospective_step ================= *)

(* ---- the directory a call clears and re-creates is not one it reads afterwards ---- *)
Lemma lookup_update {A} k k' (g : A -> A) (l : list (Z * A)) :
  lookup k (update k' g l) = if k' =? k then option_map g (lookup k l) else lookup k l.
Proof.
  induction l as [|[k0 a] l IH]; cbn [update lookup].
  - destruct (k' =? k); reflexivity.
  - destruct (Z.eqb_spec k0 k') as [->|N]; cbn [lookup].
    + destruct (k' =? k); reflexivity.
    + destruct (Z.eqb_spec k0 k) as [->|N2].
      * destruct (Z.eqb_spec k' k) as [->|_]; [congruence | reflexivity].
      * exact IH.
Qed.

Lemma lookup_remove_key {A} k k' (l : list (Z * A)) : k <> k' -> lookup k (remove_key k' l) = lookup k l.
Proof.
  intros N. unfold remove_key. induction l as [|[k0 a] l IH]; cbn [filter lookup fst]; [reflexivity|].
  destruct (Z.eqb_spec k0 k') as [->|N2]; cbn [negb lookup].
  - destruct (Z.eqb_spec k' k) as [->|_]; [congruence | exact IH].
  - destruct (k0 =? k); [reflexivity | exact IH].
Qed.

Lemma lookup_ensure {A} k k' (d : A) (l : list (Z * A)) : k <> k' -> lookup k (ensure k' d l) = lookup k l.
Proof.
  intros N. unfold ensure. destruct (lookup k' l); [reflexivity|].
  rewrite lookup_app. destruct (lookup k l); [reflexivity|]. cbn [lookup].
  destruct (Z.eqb_spec k' k) as [->|_]; [congruence | reflexivity].
Qed.

Lemma get_plate_rmtree f s s' : s' <> s -> get_plate (rmtree s f) s' = get_plate f s'.
Proof.
  intros N. unfold get_plate, rmtree. rewrite lookup_update.
  destruct (Z.eqb_spec (fst s) (fst s')) as [E|_]; [|reflexivity].
  destruct (lookup (fst s') f) as [d|]; cbn [option_map]; [|reflexivity].
  apply lookup_remove_key. intros E2. apply N. destruct s, s'; cbn [fst snd] in *; congruence.
Qed.

Lemma get_plate_mk_iter f i s' : get_plate (mk_iter i f) s' = get_plate f s'.
Proof.
  unfold get_plate, mk_iter, ensure.
  match goal with |- context [match ?X with Some _ => f | None => _ end] => destruct X eqn:E end; [reflexivity|].
  rewrite lookup_app. destruct (lookup (fst s') f) eqn:E2; [reflexivity|]. cbn [lookup].
  destruct (i =? fst s'); reflexivity.
Qed.

Lemma get_plate_mk_plate f s s' : s' <> s -> get_plate (mk_plate s f) s' = get_plate f s'.
Proof.
  intros N. unfold get_plate, mk_plate. rewrite lookup_update.
  destruct (Z.eqb_spec (fst s) (fst s')) as [E|_]; [|reflexivity].
  destruct (lookup (fst s') f) as [d|]; cbn [option_map]; [|reflexivity].
  apply lookup_ensure. intros E2. apply N. destruct s, s'; cbn [fst snd] in *; congruence.
Qed.

Lemma get_plate_after f s s' :
  s' <> s -> get_plate (tree_after f [ARmTree s; AMkIter (fst s); AMkPlate s]) s' = get_plate f s'.
Proof.
  intros N. cbn [tree_after fold_left apply_action].
  now rewrite get_plate_mk_plate, get_plate_mk_iter, get_plate_rmtree.
Qed.

Lemma get_selected_list f i : match get_selected f i with Some l => l | None => [] end = selected_plates f i.
Proof. unfold get_selected. destruct (selected_plates f i); reflexivity. Qed.

(* the launch a call makes is the one the TRANSLATED command builder's command line denotes (Proofs/C19SourceCmd.v) *)
Local Ltac builders :=
  rewrite ?src_run_initial_plate_is_model, ?src_run_first_batch_plate_is_model,
    ?src_run_first_prospective_batch_plate_is_model, ?src_run_subsequent_batch_plate_is_model.

(* the part of both functions after the directory has been cleared and re-created, for a step that is not (i, 0):
   get_theta_and_dist_chunks on plate_0 of the iteration, then the translated run_subsequent_batch_plate with the two glob
   patterns of that directory *)
Lemma next_step_tail f i j scr extra :
  (j =? 0) = false ->
  (dos r <- theta_chunks (tree_after f [ARmTree (i, j); AMkIter i; AMkPlate (i, j)]) [ARmTree (i, j); AMkIter i; AMkPlate (i, j)] (i, 0);
   dos acts <- src_run_subsequent_batch_plate [ARmTree (i, j); AMkIter i; AMkPlate (i, j)] (i, j) scr (TGlob r) (DGlob r) tt extra
                 (get_selected f i);
   SOk acts)
  = if has_thetas_dist f (i, 0)
    then match scr with
         | Some sp => SOk ([ARmTree (i, j); AMkIter i; AMkPlate (i, j)] ++ [ALaunch (i, j) (LNext sp (i, 0) (selected_plates f i))])
         | None => SRaised [ARmTree (i, j); AMkIter i; AMkPlate (i, j)] 9
         end
    else SRaised [ARmTree (i, j); AMkIter i; AMkPlate (i, j)] 2.
Proof.
  intros Ej.
  assert (N : (i, 0) <> (i, j)) by (intros E; injection E as E; subst j; discriminate Ej).
  pose proof (get_plate_after f (i, j) (i, 0) N) as H. cbn [fst] in H.
  unfold theta_chunks, has_thetas_dist. rewrite H.
  destruct (match get_plate f (i, 0) with Some d => f_thetas d && f_dist d | None => false end); cbn [sbind]; [|reflexivity].
  builders.
  destruct scr as [sp|]; cbn [next_cmd launch_cmd sbind]; [|reflexivity].
  now rewrite get_selected_list.
Qed.

Lemma test_screen_after f i j :
  (i =? 0) && (j =? 0) = false ->
  test_screen_of (tree_after f [ARmTree (i, j); AMkIter i; AMkPlate (i, j)]) (0, 0) = test_screen_of f (0, 0).
Proof.
  intros E0.
  assert (N : (0, 0) <> (i, j)) by (intros E; injection E as E1 E2; subst i j; discriminate E0).
  pose proof (get_plate_after f (i, j) (0, 0) N) as H. cbn [fst] in H.
  unfold test_screen_of, has_training. now rewrite H.
Qed.

(* the part of run_next_retrospective_step after the early `return False` (the translation has it twice: once after
   the test of the metadata, once where there is no metadata) *)
Local Ltac retro_tail f i j scr :=
  rewrite src_get_selected_is_model; cbn [sbind app fst];
  destruct ((i =? 0) && (j =? 0)) eqn:E0; [builders; reflexivity|];
  pose proof (test_screen_after f i j E0) as Ht;
  destruct (j =? 0) eqn:Ej;
  [ rewrite src_get_test_screen_is_model; cbn [sbind];
    rewrite Ht; unfold test_screen_of;
    destruct (has_training f (0, 0)); cbn [is_none]; [builders; destruct scr|]; reflexivity
  | rewrite src_get_thetas_is_model, (next_step_tail f i j scr _ Ej); unfold next_action;
    destruct (has_thetas_dist f (i, 0)); [destruct scr|]; reflexivity ].

(* a call of run_next_* on a world with torn markers: what step_result_t says - the translated examine decides whether a
   directory is named (a torn marker: "invalid structure", like a missing one); if none is, the call is the model's plan on the
   tree component.  The metadata lookup meta["n_unobserved_plates"] never raises: the document examine hands on has the key *)
Theorem src_run_next_retro_is_model_t : forall (tf : tfs) (extra : eargs) (bs : Z),
  src_run_next_retrospective_step tf SInput extra bs = step_result_t true Retro true bs tf.
Proof.
  intros [f torn] extra bs. unfold src_run_next_retrospective_step, step_result_t, plan_of.
  change (tfs_after (f, torn) []) with (f, torn). cbn [tree_after fold_left fst snd].
  rewrite src_examine_is_model_t.
  destruct (examine_t true true bs (f, torn)) as [[[[i j] meta] scr]|w s|w] eqn:Et;
    cbn [tres_map sres_of_tres up_meta sbind]; [|reflexivity|reflexivity].
  apply examine_t_ok in Et. cbn [fst] in Et. rewrite Et. cbn [result_of_plan].
  destruct meta as [m|]; cbn [option_map is_some sunwrap sbind whole_meta jget_nup].
  - destruct (m <=? 0); [reflexivity|]. retro_tail f i j scr.
  - retro_tail f i j scr.
Qed.

Theorem src_run_next_prosp_is_model_t : forall (tf : tfs) (extra : eargs) (bs : Z),
  src_run_next_prospective_step tf SInput extra bs = step_result_t true Prosp true bs tf.
Proof.
  intros [f torn] extra bs. unfold src_run_next_prospective_step, step_result_t, plan_of.
  change (tfs_after (f, torn) []) with (f, torn). cbn [tree_after fold_left fst snd].
  rewrite src_examine_is_model_t.
  destruct (examine_t true true bs (f, torn)) as [[[[i j] meta] scr]|w s|w] eqn:Et;
    cbn [tres_map sres_of_tres up_meta sbind]; [|reflexivity|reflexivity].
  apply examine_t_ok in Et. cbn [fst] in Et. rewrite Et. cbn [result_of_plan].
  rewrite src_get_selected_is_model. cbn [sbind app fst].
  destruct (j =? 0) eqn:Ej; [builders; reflexivity|].
  rewrite src_get_thetas_is_model, (next_step_tail f i j (Some SInput) _ Ej). unfold next_action.
  destruct (has_thetas_dist f (i, 0)); reflexivity.
Qed.

(* on a well-formed world (a torn marker's directory records no metadata) - in particular without torn markers - a call is
   the model's plan on the tree component *)
Lemma step_result_t_wf md fixed bs tf : torn_wf tf ->
  step_result_t true md fixed bs tf = result_of_plan md bs (plan_of md fixed bs (fst tf)).
Proof.
  intros Hwf. unfold step_result_t, plan_of. rewrite (examine_t_repaired_is_missing fixed bs tf Hwf).
  destruct (examine fixed bs (fst tf)) as [a|w s]; reflexivity.
Qed.

Lemma torn_wf_nil f : torn_wf (f, []).
Proof. intros it pl pidx d _ _ H. discriminate H. Qed.

Theorem src_run_next_retro_is_model : forall (f : fs) (extra : eargs) (bs : Z),
  src_run_next_retrospective_step (f, []) SInput extra bs = result_of_plan Retro bs (plan_of Retro true bs f).
Proof. intros f extra bs. rewrite src_run_next_retro_is_model_t. apply (step_result_t_wf Retro true bs (f, [])), torn_wf_nil. Qed.

Theorem src_run_next_prosp_is_model : forall (f : fs) (extra : eargs) (bs : Z),
  src_run_next_prospective_step (f, []) SInput extra bs = result_of_plan Prosp bs (plan_of Prosp true bs f).
Proof. intros f extra bs. rewrite src_run_next_prosp_is_model_t. apply (step_result_t_wf Prosp true bs (f, [])), torn_wf_nil. Qed.

(* ---- the value a call hands back to main() ---- *)
Definition src_run_next (md : mode) (tf : tfs) (extra : eargs) (bs : Z) : sres (bool * list action) :=
  match md with
  | Retro => src_run_next_retrospective_step tf SInput extra bs
  | Prosp => src_run_next_prospective_step tf SInput extra bs
  end.

Theorem src_run_next_is_model_t : forall md tf extra bs,
  src_run_next md tf extra bs = step_result_t true md true bs tf.
Proof. intros [|] tf extra bs; [apply src_run_next_retro_is_model_t | apply src_run_next_prosp_is_model_t]. Qed.

Theorem src_run_next_is_model : forall md f extra bs,
  src_run_next md (f, []) extra bs = result_of_plan md bs (plan_of md true bs f).
Proof. intros [|] f extra bs; [apply src_run_next_retro_is_model | apply src_run_next_prosp_is_model]. Qed.

Lemma plan_acts_shape md fixed bs f acts :
  plan_of md fixed bs f = PActs acts -> exists a b c x, acts = [a; b; c; x].
Proof.
  unfold plan_of. destruct (examine fixed bs f) as [[[[i j] meta] scr]|w s]; [|discriminate].
  destruct md.
  - destruct (match meta with Some m => m <=? 0 | None => false end); [discriminate|].
    destruct ((i =? 0) && (j =? 0)); [intros H; injection H as <-; cbn [app]; repeat eexists|].
    destruct (j =? 0); [|intros H; injection H as <-; cbn [app]; repeat eexists].
    destruct (has_training f (0, 0)); [destruct scr|]; intros H; injection H as <-; cbn [app]; repeat eexists.
  - destruct (j =? 0); intros H; injection H as <-; cbn [app]; repeat eexists.
Qed.

(* whenever the model says a call returns b to main() (call_returns: it was not interrupted, the script did not raise,
   the pipeline's exit status was 0), b is the value the translated function returns *)
Lemma call_returns_plan : forall md bs n f e b,
  call_returns md bs (snd (attempt md true bs n f e)) = Some b ->
  exists acts, result_of_plan md bs (plan_of md true bs f) = SOk (b, acts).
Proof.
  intros md bs n f e b. unfold attempt.
  destruct (plan_of md true bs f) as [w s| |acts] eqn:Ep; cbn [snd call_returns result_of_plan].
  - discriminate.
  - intros H; injection H as <-. eexists; reflexivity.
  - destruct (plan_acts_shape _ _ _ _ _ Ep) as (a0 & b0 & c0 & x & ->).
    destruct (e_k e <? 4)%nat; cbn [snd call_returns]; [discriminate|].
    cbn [nth rev app]. destruct x as [s|i|s|s l|w]; cbn [snd call_returns]; try discriminate.
    destruct ((length (pubs_of (outputs n (fold_left (fun f a => apply_action a f) (firstn 3 [a0; b0; c0; ALaunch s l]) f) l) (e_order e))
               <=? e_k e - 4)%nat && complete_run md l (outputs n (fold_left (fun f a => apply_action a f) (firstn 3 [a0; b0; c0; ALaunch s l]) f) l));
      [|discriminate].
    intros H; injection H as <-. eexists; reflexivity.
Qed.

Theorem call_returns_is_source : forall md bs n f e extra b,
  call_returns md bs (snd (attempt md true bs n f e)) = Some b ->
  exists acts, src_run_next md (f, []) extra bs = SOk (b, acts).
Proof. intros md bs n f e extra b H. rewrite src_run_next_is_model. exact (call_returns_plan md bs n f e b H). Qed.

(* the same on a world with torn markers, for the model's attempt_t with the repair *)
Theorem call_returns_is_source_t : forall md bs n tf te extra b,
  call_returns md bs (snd (attempt_t true md true bs n tf te)) = Some b ->
  exists acts, src_run_next md tf extra bs = SOk (b, acts).
Proof.
  intros md bs n tf te extra b. rewrite src_run_next_is_model_t. unfold attempt_t, step_result_t.
  destruct (examine_t true true bs tf) as [[[[i j] meta] scr]|w s|w]; cbn [snd call_returns]; try discriminate.
  pose proof (call_returns_plan md bs n (fst tf) (te_e te) b) as H.
  destruct (attempt md true bs n (fst tf) (te_e te)) as [f1 g]. cbn [snd] in H.
  destruct g as [w s| |k|w|s l ps ok]; cbn [snd]; try exact H.
  destruct (te_torn te && last_is_meta ps && Nat.eqb (length ps) (e_k (te_e te) - 4)); cbn [snd call_returns]; [discriminate|].
  destruct (te_torn te && ok && Nat.eqb (S (length ps)) (e_k (te_e te) - 4)); cbn [snd call_returns]; [discriminate|exact H].
Qed.
