(* C19 — generic facts about the association lists, sorting, the pipeline primitives. *)
From Coq Require Import ZArith List Bool Lia Arith.
From Batchie Require Import Model.Orchestrate.
Import ListNotations.
Open Scope Z_scope.

(* ---------- keyed tables built from a nat range ---------- *)
Definition tab {A} (g : nat -> A) (a cnt : nat) : list (Z * A) :=
  map (fun j => (Z.of_nat j, g j)) (seq a cnt).

Lemma tab_S {A} (g : nat -> A) a cnt : tab g a (S cnt) = tab g a cnt ++ [(Z.of_nat (a + cnt), g (a + cnt)%nat)].
Proof. unfold tab. rewrite seq_S, map_app. reflexivity. Qed.

Lemma tab_cons {A} (g : nat -> A) a cnt : tab g a (S cnt) = (Z.of_nat a, g a) :: tab g (S a) cnt.
Proof. reflexivity. Qed.

Lemma tab_app {A} (g : nat -> A) a c1 c2 : tab g a (c1 + c2) = tab g a c1 ++ tab g (a + c1) c2.
Proof. unfold tab. rewrite seq_app, map_app. reflexivity. Qed.

Lemma tab_ext {A} (g h : nat -> A) a cnt :
  (forall j, (a <= j < a + cnt)%nat -> g j = h j) -> tab g a cnt = tab h a cnt.
Proof.
  intros H. unfold tab. apply map_ext_in. intros j Hj. apply in_seq in Hj. now rewrite H.
Qed.

Lemma tab_keys_lt {A} (g : nat -> A) a cnt q : In q (tab g a cnt) -> Z.of_nat a <= fst q < Z.of_nat (a + cnt).
Proof.
  unfold tab. intros H. apply in_map_iff in H as (j & <- & Hj). apply in_seq in Hj. cbn [fst]. lia.
Qed.

(* ---------- lookup / update / ensure / remove_key ---------- *)
Lemma lookup_app {A} k (l1 l2 : list (Z * A)) :
  lookup k (l1 ++ l2) = match lookup k l1 with Some a => Some a | None => lookup k l2 end.
Proof.
  induction l1 as [|[k' a] l1 IH]; cbn [lookup app]; [reflexivity|].
  destruct (k' =? k); [reflexivity|exact IH].
Qed.

Lemma lookup_none {A} k (l : list (Z * A)) : (forall q, In q l -> fst q <> k) -> lookup k l = None.
Proof.
  induction l as [|[k' a] l IH]; intros H; cbn [lookup]; [reflexivity|].
  destruct (Z.eqb_spec k' k) as [->|_].
  - exfalso. apply (H (k, a)); [now left|reflexivity].
  - apply IH. intros q Hq. apply H. now right.
Qed.

Lemma lookup_tab {A} (g : nat -> A) a cnt k :
  lookup (Z.of_nat k) (tab g a cnt) = if ((a <=? k) && (k <? a + cnt))%nat then Some (g k) else None.
Proof.
  revert a; induction cnt as [|cnt IH]; intros a.
  - cbn [tab seq map lookup]. destruct (a <=? k)%nat eqn:E1, (k <? a + 0)%nat eqn:E2; try reflexivity.
    apply Nat.leb_le in E1. apply Nat.ltb_lt in E2. lia.
  - rewrite tab_cons. cbn [lookup]. destruct (Z.eqb_spec (Z.of_nat a) (Z.of_nat k)) as [E|E].
    + apply Nat2Z.inj in E. subst k.
      replace (a <=? a)%nat with true by (symmetry; now apply Nat.leb_le).
      replace (a <? a + S cnt)%nat with true by (symmetry; apply Nat.ltb_lt; lia). reflexivity.
    + rewrite IH. assert (a <> k) by (intros ->; now apply E).
      destruct (S a <=? k)%nat eqn:E1, (a <=? k)%nat eqn:E2, (k <? S a + cnt)%nat eqn:E3, (k <? a + S cnt)%nat eqn:E4;
        try reflexivity; exfalso;
        repeat match goal with
               | H : (_ <=? _)%nat = true |- _ => apply Nat.leb_le in H
               | H : (_ <=? _)%nat = false |- _ => apply Nat.leb_gt in H
               | H : (_ <? _)%nat = true |- _ => apply Nat.ltb_lt in H
               | H : (_ <? _)%nat = false |- _ => apply Nat.ltb_ge in H
               end; lia.
Qed.

Lemma lookup_tab_in {A} (g : nat -> A) a cnt k : (a <= k < a + cnt)%nat -> lookup (Z.of_nat k) (tab g a cnt) = Some (g k).
Proof.
  intros H. rewrite lookup_tab.
  replace (a <=? k)%nat with true by (symmetry; apply Nat.leb_le; lia).
  replace (k <? a + cnt)%nat with true by (symmetry; apply Nat.ltb_lt; lia). reflexivity.
Qed.

Lemma lookup_tab_out {A} (g : nat -> A) a cnt k : (k < a \/ a + cnt <= k)%nat -> lookup (Z.of_nat k) (tab g a cnt) = None.
Proof.
  intros H. apply lookup_none. intros q Hq E. apply tab_keys_lt in Hq. lia.
Qed.

Lemma update_none {A} k f (l : list (Z * A)) : lookup k l = None -> update k f l = l.
Proof.
  induction l as [|[k' a] l IH]; cbn [lookup update]; [reflexivity|].
  destruct (k' =? k); [discriminate|]. intros H. now rewrite IH.
Qed.

Lemma update_app_r {A} k f (l1 l2 : list (Z * A)) :
  lookup k l1 = None -> update k f (l1 ++ l2) = l1 ++ update k f l2.
Proof.
  induction l1 as [|[k' a] l1 IH]; cbn [lookup update app]; [reflexivity|].
  destruct (k' =? k); [discriminate|]. intros H. now rewrite IH.
Qed.

Lemma update_hd {A} k f (a : A) (l : list (Z * A)) : update k f ((k, a) :: l) = (k, f a) :: l.
Proof. cbn [update]. now rewrite Z.eqb_refl. Qed.

Lemma remove_key_none {A} k (l : list (Z * A)) : (forall q, In q l -> fst q <> k) -> remove_key k l = l.
Proof.
  unfold remove_key. induction l as [|q l IH]; intros H; cbn [filter]; [reflexivity|].
  destruct (Z.eqb_spec (fst q) k) as [E|E]; cbn [negb].
  - exfalso. apply (H q); [now left|exact E].
  - rewrite IH; [reflexivity|]. intros q' Hq'. apply H. now right.
Qed.

Lemma remove_key_app {A} k (l1 l2 : list (Z * A)) : remove_key k (l1 ++ l2) = remove_key k l1 ++ remove_key k l2.
Proof. unfold remove_key. apply filter_app. Qed.

Lemma remove_key_one {A} k (a : A) : remove_key k [(k, a)] = [].
Proof. unfold remove_key. cbn [filter fst]. now rewrite Z.eqb_refl. Qed.

(* ---------- sorting ---------- *)
Fixpoint incr {A} (l : list (Z * A)) : Prop :=
  match l with
  | a :: ((b :: _) as r) => fst a < fst b /\ incr r
  | _ => True
  end.

Lemma sort_incr {A} (l : list (Z * A)) : incr l -> sort_dirs l = l.
Proof.
  induction l as [|a [|b r] IH]; intros H; [reflexivity|reflexivity|].
  destruct H as [Hab Hr]. change (sort_dirs (a :: b :: r)) with (insert_key a (sort_dirs (b :: r))).
  rewrite (IH Hr). cbn [insert_key]. apply Z.ltb_lt in Hab. now rewrite Hab.
Qed.

Lemma incr_tab {A} (g : nat -> A) a cnt : incr (tab g a cnt).
Proof.
  revert a; induction cnt as [|cnt IH]; intros a; [exact I|].
  rewrite tab_cons. destruct cnt as [|cnt]; [exact I|].
  specialize (IH (S a)). rewrite tab_cons in IH |- *. split; [cbn [fst]; lia|exact IH].
Qed.

Lemma incr_app_last {A} (l : list (Z * A)) k d :
  incr l -> (forall q, In q l -> fst q < k) -> incr (l ++ [(k, d)]).
Proof.
  induction l as [|a [|b r] IH]; intros Hl Hk; [exact I| |].
  - cbn [app]. split; [apply Hk; now left|exact I].
  - destruct Hl as [Hab Hr]. change ((a :: b :: r) ++ [(k, d)]) with (a :: ((b :: r) ++ [(k, d)])).
    cbn [app] in IH |- *. split; [exact Hab|]. apply IH; [exact Hr|]. intros q Hq. apply Hk. now right.
Qed.

(* ---------- seqZ, select, reveal ---------- *)
Lemma seqZ_in a m q : In q (seqZ a m) <-> a <= q < a + Z.of_nat m.
Proof.
  revert a; induction m as [|m IH]; intros a; cbn [seqZ In].
  - lia.
  - rewrite IH. lia.
Qed.

Lemma seqZ_length a m : length (seqZ a m) = m.
Proof. revert a; induction m as [|m IH]; intros a; cbn [seqZ length]; [reflexivity|now rewrite IH]. Qed.

Lemma mem_false p l : (forall q, In q l -> q <> p) -> mem p l = false.
Proof.
  unfold mem. induction l as [|q l IH]; intros H; cbn [existsb]; [reflexivity|].
  destruct (Z.eqb_spec p q) as [->|_]; [exfalso; apply (H q); [now left|reflexivity]|].
  apply IH. intros q' Hq'. apply H. now right.
Qed.

Lemma mem_true p l : In p l -> mem p l = true.
Proof. unfold mem. intros H. apply existsb_exists. exists p. split; [exact H|apply Z.eqb_refl]. Qed.

Lemma reveal_id p l : (forall q, In q l -> q <> p) -> reveal p l = l.
Proof.
  unfold reveal. induction l as [|q l IH]; intros H; cbn [filter]; [reflexivity|].
  destruct (Z.eqb_spec q p) as [E|E]; cbn [negb].
  - exfalso. apply (H q); [now left|exact E].
  - rewrite IH; [reflexivity|]. intros q' Hq'. apply H. now right.
Qed.

Lemma reveal_head a m : reveal a (seqZ a (S m)) = seqZ (a + 1) m.
Proof.
  cbn [seqZ]. unfold reveal. cbn [filter]. rewrite Z.eqb_refl. cbn [negb].
  apply reveal_id. intros q Hq. apply seqZ_in in Hq. lia.
Qed.

(* first unobserved plate of [a, a+m) when the excluded ones are all below a *)
Lemma select_head a m excl : (forall q, In q excl -> q < a) -> select (seqZ a (S m)) excl = Some a.
Proof.
  intros H. unfold select. cbn [seqZ find]. rewrite mem_false; [reflexivity|].
  intros q Hq. apply H in Hq. lia.
Qed.

(* prospective: plates 0..j-1 excluded -> plate j *)
Lemma select_skip a (j m : nat) :
  select (seqZ a (j + S m)) (seqZ a j) = Some (a + Z.of_nat j).
Proof.
  unfold select. assert (G : forall (j' : nat) b, b = a + Z.of_nat (j - j')%nat -> (j' <= j)%nat ->
    find (fun p => negb (mem p (seqZ a j))) (seqZ b (j' + S m)) = Some (a + Z.of_nat j)).
  { induction j' as [|j' IH]; intros b Hb Hle.
    - cbn [Nat.add seqZ find]. rewrite mem_false; [cbn [negb]; f_equal; lia|].
      intros q Hq. apply seqZ_in in Hq. lia.
    - cbn [Nat.add seqZ find]. rewrite mem_true; [cbn [negb]|apply seqZ_in; lia].
      apply IH; lia. }
  apply (G j a); [|lia]. replace (j - j)%nat with O by lia. lia.
Qed.

Lemma select_none a (n j : nat) : (n <= j)%nat -> select (seqZ a n) (seqZ a j) = None.
Proof.
  intros H. unfold select.
  assert (G : forall l, (forall q, In q l -> In q (seqZ a j)) -> find (fun p => negb (mem p (seqZ a j))) l = None).
  { induction l as [|q l IH]; intros Hl; cbn [find]; [reflexivity|].
    rewrite mem_true by (apply Hl; now left). cbn [negb]. apply IH. intros q' Hq'. apply Hl. now right. }
  apply G. intros q Hq. apply seqZ_in in Hq. apply seqZ_in. lia.
Qed.

(* ---------- publications ---------- *)
Definition kind_eqb (a b : kind) : bool :=
  match a, b with
  | KTraining, KTraining | KTest, KTest | KThetas, KThetas | KDist, KDist
  | KSelected, KSelected | KAdvanced, KAdvanced | KMeta, KMeta => true
  | _, _ => false
  end.
Lemma kind_eqb_spec a b : reflect (a = b) (kind_eqb a b).
Proof. destruct a, b; cbn; constructor; congruence. Qed.

(* the priority order names every kind, and names the marker last *)
Definition covers (order : list kind) : bool := forallb (fun k => existsb (kind_eqb k) order) all_kinds.
Definition entry_ok (e : entry) : bool := covers (e_order e) && marker_last (e_order e).

Lemma covers_in order k : covers order = true -> In k order.
Proof.
  unfold covers. intros H. rewrite forallb_forall in H.
  assert (Hk : In k all_kinds) by (destruct k; cbn; tauto).
  apply H in Hk. apply existsb_exists in Hk as (k' & Hin & E). destruct (kind_eqb_spec k k'); [now subst|discriminate].
Qed.

Fixpoint pub_fold (o : pdir) (ks : list kind) (d : pdir) : pdir :=
  match ks with [] => d | k :: r => pub_fold o r (publish o k d) end.

Definition inb (k : kind) (ks : list kind) : bool := existsb (kind_eqb k) ks.

Lemma pub_fold_fields o ks : forall d,
  let r := pub_fold o ks d in
  f_training r = (if inb KTraining ks then f_training o else f_training d) /\
  f_test r = (if inb KTest ks then f_test o else f_test d) /\
  f_thetas r = (if inb KThetas ks then f_thetas o else f_thetas d) /\
  f_dist r = (if inb KDist ks then f_dist o else f_dist d) /\
  f_selected r = (if inb KSelected ks then f_selected o else f_selected d) /\
  f_advanced r = (if inb KAdvanced ks then f_advanced o else f_advanced d) /\
  f_meta r = (if inb KMeta ks then f_meta o else f_meta d) /\
  f_by r = f_by d.
Proof.
  induction ks as [|k ks IH]; intros d; cbn [pub_fold inb existsb].
  - repeat split.
  - specialize (IH (publish o k d)). cbn zeta in IH. destruct IH as (H1 & H2 & H3 & H4 & H5 & H6 & H7 & H8).
    cbn zeta. rewrite H1, H2, H3, H4, H5, H6, H7, H8. unfold inb.
    destruct k; cbn [kind_eqb orb publish f_training f_test f_thetas f_dist f_selected f_advanced f_meta f_by];
      repeat split; repeat match goal with |- context [if ?b then _ else _] => destruct b end; reflexivity.
Qed.

Lemma inb_filter k p ks : inb k (filter p ks) = inb k ks && p k.
Proof.
  unfold inb. induction ks as [|a ks IH]; cbn [filter existsb]; [reflexivity|].
  destruct (p a) eqn:Ea; cbn [existsb]; rewrite IH.
  - destruct (kind_eqb_spec k a) as [->|_]; cbn [orb]; [now rewrite Ea|reflexivity].
  - destruct (kind_eqb_spec k a) as [->|_]; cbn [orb]; [rewrite Ea; now rewrite andb_false_r|reflexivity].
Qed.

Lemma inb_in k ks : In k ks -> inb k ks = true.
Proof. intros H. apply existsb_exists. exists k. split; [exact H|]. now destruct (kind_eqb_spec k k). Qed.

(* everything produced is published: the directory holds exactly the outputs *)
Lemma pub_fold_all o l order :
  covers order = true -> f_by o = Some l ->
  pub_fold o (pubs_of o order) (set_by l empty_pdir) = o.
Proof.
  intros Hc Hby. pose proof (pub_fold_fields o (pubs_of o order) (set_by l empty_pdir)) as H. cbn zeta in H.
  destruct H as (H1 & H2 & H3 & H4 & H5 & H6 & H7 & H8).
  unfold pubs_of in *. rewrite !inb_filter in *.
  rewrite !(inb_in _ _ (covers_in order _ Hc)) in *. cbn [andb] in *.
  destruct (pub_fold o (filter (produced o) order) (set_by l empty_pdir)) as [a1 a2 a3 a4 a5 a6 a7 a8].
  destruct o as [b1 b2 b3 b4 b5 b6 b7 b8].
  cbn [f_training f_test f_thetas f_dist f_selected f_advanced f_meta f_by produced set_by empty_pdir] in *.
  subst a8. rewrite Hby. f_equal.
  - rewrite H1. now destruct b1.
  - rewrite H2. now destruct b2.
  - rewrite H3. now destruct b3.
  - rewrite H4. now destruct b4.
  - rewrite H5. now destruct b5.
  - rewrite H6. now destruct b6.
  - rewrite H7. now destruct b7.
Qed.

Lemma marker_last_cons k t : t <> [] -> marker_last (k :: t) = negb (is_meta k) && marker_last t.
Proof. destruct t; [congruence|reflexivity]. Qed.

Lemma marker_last_filter p l : marker_last l = true -> marker_last (filter p l) = true.
Proof.
  induction l as [|k t IH]; intros H; [reflexivity|].
  destruct t as [|k' r].
  - cbn [filter]. destruct (p k); reflexivity.
  - rewrite marker_last_cons in H by congruence.
    apply andb_true_iff in H as [Hk Hr]. specialize (IH Hr).
    change (filter p (k :: k' :: r)) with (if p k then k :: filter p (k' :: r) else filter p (k' :: r)).
    destruct (p k); [|exact IH].
    destruct (filter p (k' :: r)) as [|k2 r2] eqn:E; [reflexivity|].
    rewrite marker_last_cons by congruence. now rewrite Hk, IH.
Qed.

(* a strict prefix of a marker-last list does not contain the marker *)
Lemma marker_last_prefix l p : marker_last l = true -> (p < length l)%nat -> inb KMeta (firstn p l) = false.
Proof.
  revert p; induction l as [|k [|k' r] IH]; intros p H Hp.
  - cbn in Hp. lia.
  - cbn in Hp. assert (p = O) by lia. subst p. reflexivity.
  - change (marker_last (k :: k' :: r)) with (negb (is_meta k) && marker_last (k' :: r)) in H.
    apply andb_true_iff in H as [Hk Hr]. destruct p as [|p]; [reflexivity|].
    cbn [firstn inb existsb]. change (existsb (kind_eqb KMeta) (firstn p (k' :: r))) with (inb KMeta (firstn p (k' :: r))).
    rewrite IH; [|exact Hr|cbn [length] in Hp |- *; lia].
    destruct k; cbn in Hk |- *; congruence.
Qed.

Lemma firstn_all2 {A} (l : list A) p : (length l <= p)%nat -> firstn p l = l.
Proof. apply firstn_all2. Qed.
