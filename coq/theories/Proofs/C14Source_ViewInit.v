(* C14, one piece of Proofs/C14Source.v (conventions and objects: see there): ScreenSubset.__init__ *)
From Coq Require Import ZArith List Bool Arith Lia ZifyBool.
From Batchie Require Import Lib.Sexp Lib.PyRt Model.Encode Model.Screen Model.Views Generated.SrcViews
  Proofs.PyRtLemmas Proofs.C14Lists Proofs.C14Source_Base Proofs.C14Source_ScreenSize.
Import ListNotations.
Open Scope Z_scope.

(* ScreenSubset.__init__ (also what Plate(...) runs): whatever the fresh instance held, the two checks and then
   the object (screen, selection_vector) *)
Theorem src_view_init_is_model : forall (self : view) (s : pyscreen) (sv : anyarray),
  src_view_init self s sv = mk_view (fst s) (snd s) (fst sv) (snd sv).
Proof.
  intros self s sv. unfold src_view_init, mk_view. destruct (negb (fst sv)); [reflexivity|].
  rewrite src_screen_size_is_model. cbn [res_bind]. rewrite of_nat_eqb.
  destruct (negb (Nat.eqb (length (snd sv)) (screen_size (snd s)))); reflexivity.
Qed.
