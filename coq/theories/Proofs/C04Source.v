(* C04: the hand-written models of Model/Train.v equal the translations of
     batchie.core.BayesianModel.add_observations
     batchie.models.sparse_combo.SparseDrugCombo._add_observations
     batchie.models.sparse_combo.LegacySparseDrugComboImpl.n_obs / _update
     batchie.models.sparse_combo_interaction.LegacySparseDrugComboInteractionImpl.n_obs / _update
     batchie.models.sparse_combo_interaction.SparseDrugComboInteraction._add_observations
     batchie.data.create_single_treatment_effect_map
   regenerated from /repo on every run (Generated/SrcTrain.v, by harness/py2gal.py with the configurations C04_* of
   harness/src_functions.py), for all inputs.
   The legacy sampler object is Train.legacy (four lists, three defaultdict(list)); the model's training data is a list
   of trips.  The representation map is [legacy_of]: the object whose four lists are the columns of the trips and whose
   index dictionaries are [index_dict] of the id columns (every id in order of first occurrence -> the ascending
   positions that hold it).  The translated _update maps legacy_of st to legacy_of (st ++ [trip]) for EVERY st, so the
   objects reachable from the empty one by any number of calls are exactly the legacy_of st. *)
From Coq Require Import ZArith List Bool Lia Arith QArith Qcanon Sorted.
From Batchie Require Import Lib.Sexp Lib.Num Lib.PyRt Generated.Consts Generated.ConstsClip Model.Encode Model.Train Generated.SrcTrain
  Proofs.PyRtLemmas Proofs.C01Sort.
Import ListNotations.
Open Scope Z_scope.

(* ---------- small facts ---------- *)
Lemma res_bind_ok_r {A} (x : result A) : (dor r <- x; Ok r) = x.
Proof. destruct x; reflexivity. Qed.

Lemma all_true_map {A} (f : A -> bool) l : all_true (map f l) = forallb f l.
Proof. unfold all_true. induction l as [|a l IH]; cbn [map forallb]; [reflexivity | now rewrite IH]. Qed.

Lemma any_true_map {A} (f : A -> bool) l : any_true (map f l) = existsb f l.
Proof. unfold any_true. induction l as [|a l IH]; cbn [map existsb]; [reflexivity | now rewrite IH]. Qed.

Lemma zip4_map {R A B C D} (f : R -> A) (g : R -> B) (h : R -> C) (k : R -> D) rows :
  zip4 (map f rows) (map g rows) (map h rows) (map k rows) = map (fun r => (f r, g r, h r, k r)) rows.
Proof. induction rows as [|r rows IH]; cbn [map zip4]; [reflexivity | now rewrite IH]. Qed.

Lemma zip5_map {R A B C D E} (f : R -> A) (g : R -> B) (h : R -> C) (k : R -> D) (e : R -> E) rows :
  zip5 (map f rows) (map g rows) (map h rows) (map k rows) (map e rows)
  = map (fun r => (f r, g r, h r, k r, e r)) rows.
Proof. induction rows as [|r rows IH]; cbn [map zip5]; [reflexivity | now rewrite IH]. Qed.

Lemma select_map {A B} (f : A -> B) m : forall l, select m (map f l) = map f (select m l).
Proof.
  induction m as [|b m IH]; intros [|a l]; cbn [select map]; try reflexivity.
  destruct b; cbn [map]; now rewrite IH.
Qed.

Lemma select_map_filter {A} (p : A -> bool) l : select (map p l) l = filter p l.
Proof. induction l as [|a l IH]; cbn [map select filter]; [reflexivity|]. destruct (p a); now rewrite IH. Qed.

(* ---------- BayesianModel.add_observations ---------- *)
Theorem src_add_observations_is_model : forall (S : Type) (inner : S -> list trow -> result S) (self : S) (rows : list trow),
  src_add_observations S inner self rows = add_observations (inner self) rows.
Proof.
  intros S inner self rows. unfold src_add_observations, add_observations. rewrite all_true_map.
  destruct (forallb t_mask rows); cbn [negb]; [apply res_bind_ok_r | reflexivity].
Qed.

(* ---------- the index dictionaries ---------- *)
Lemma positions_from_app k a : forall i b,
  positions_from i k (a ++ b) = positions_from i k a ++ positions_from (i + Z.of_nat (length a)) k b.
Proof.
  induction a as [|c a IH]; intros i b; cbn [app positions_from length].
  - now rewrite Z.add_0_r.
  - rewrite IH. replace (i + 1 + Z.of_nat (length a)) with (i + Z.of_nat (S (length a))) by lia.
    destruct (c =? k); reflexivity.
Qed.

Lemma positions_snoc k col c :
  positions k (col ++ [c]) = positions k col ++ (if c =? k then [Z.of_nat (length col)] else []).
Proof. unfold positions. rewrite positions_from_app. cbn [positions_from Z.add]. destruct (c =? k); reflexivity. Qed.

Lemma positions_from_absent k col : forall i, existsb (Z.eqb k) col = false -> positions_from i k col = [].
Proof.
  induction col as [|c col IH]; intros i H; cbn [positions_from]; [reflexivity|].
  cbn [existsb] in H. apply orb_false_iff in H. destruct H as [H1 H2].
  rewrite Z.eqb_sym, H1. now apply IH.
Qed.

Lemma positions_from_spec k col : forall i j,
  In j (positions_from i k col) <-> i <= j /\ nth_error col (Z.to_nat (j - i)) = Some k.
Proof.
  induction col as [|c col IH]; intros i j; cbn [positions_from].
  - split; [intros [] | intros [_ H]]. destruct (Z.to_nat (j - i)); discriminate.
  - assert (Hrec : In j (positions_from (i + 1) k col) <-> i <= j /\ j <> i /\ nth_error (c :: col) (Z.to_nat (j - i)) = Some k).
    { rewrite IH. split.
      - intros [H1 H2]. replace (Z.to_nat (j - i)) with (S (Z.to_nat (j - (i + 1)))) by lia. cbn [nth_error]. repeat split; try lia. exact H2.
      - intros (H1 & H2 & H3). replace (Z.to_nat (j - i)) with (S (Z.to_nat (j - (i + 1)))) in H3 by lia. cbn [nth_error] in H3.
        split; [lia | exact H3]. }
    destruct (Z.eqb_spec c k) as [->|Hne]; cbn [In]; rewrite ?Hrec.
    + split.
      * intros [<-|(H1 & _ & H3)]; [|tauto]. split; [lia|]. now rewrite Z.sub_diag.
      * intros [H1 H2]. destruct (Z.eq_dec i j) as [->|Hd]; [now left|]. right. repeat split; try lia. exact H2.
    + split; [tauto|]. intros [H1 H2]. repeat split; try assumption.
      intros ->. rewrite Z.sub_diag in H2. cbn in H2. congruence.
Qed.

(* the positions of k: exactly the row numbers (from 0) at which the column holds k *)
Lemma positions_spec k col j : In j (positions k col) <-> 0 <= j /\ nth_error col (Z.to_nat j) = Some k.
Proof. unfold positions. rewrite positions_from_spec, Z.sub_0_r. reflexivity. Qed.

Lemma positions_from_sorted k col : forall i, StronglySorted Z.lt (positions_from i k col).
Proof.
  induction col as [|c col IH]; intros i; cbn [positions_from]; [constructor|].
  destruct (c =? k); [|apply IH]. constructor; [apply IH|].
  apply Forall_forall. intros j Hj. apply positions_from_spec in Hj. lia.
Qed.

Lemma first_occurrences_snoc col c :
  first_occurrences (col ++ [c])
  = if existsb (Z.eqb c) (first_occurrences col) then first_occurrences col else first_occurrences col ++ [c].
Proof. unfold first_occurrences. rewrite fold_left_app. reflexivity. Qed.

Lemma first_occurrences_mem k col : existsb (Z.eqb k) (first_occurrences col) = existsb (Z.eqb k) col.
Proof.
  induction col as [|c col IH] using rev_ind; [reflexivity|].
  rewrite first_occurrences_snoc, existsb_app. cbn [existsb]. rewrite orb_false_r.
  destruct (existsb (Z.eqb c) (first_occurrences col)) eqn:E.
  - rewrite IH. destruct (Z.eqb_spec k c) as [->|_]; [|now rewrite orb_false_r].
    rewrite <- IH, E. reflexivity.
  - rewrite existsb_app, IH. cbn [existsb]. now rewrite orb_false_r.
Qed.

Lemma existsb_eqb_In k l : existsb (Z.eqb k) l = true <-> In k l.
Proof.
  rewrite existsb_exists. split.
  - intros (x & Hx & E). apply Z.eqb_eq in E. now subst.
  - intros H. exists k. split; [exact H | apply Z.eqb_refl].
Qed.

Lemma NoDup_snoc {A} (l : list A) a : NoDup l -> ~ In a l -> NoDup (l ++ [a]).
Proof.
  induction l as [|x l IH]; intros Hnd Hn; cbn [app]; [repeat constructor; intros []|].
  inversion Hnd as [|? ? Hx Hl]; subst. constructor.
  - rewrite in_app_iff. cbn [In]. intros [H|[H|[]]]; [contradiction|]. apply Hn. now left.
  - apply IH; [exact Hl|]. intros H. apply Hn. now right.
Qed.

Lemma first_occurrences_NoDup col : NoDup (first_occurrences col).
Proof.
  induction col as [|c col IH] using rev_ind; [constructor|].
  rewrite first_occurrences_snoc. destruct (existsb (Z.eqb c) (first_occurrences col)) eqn:E; [exact IH|].
  apply NoDup_snoc; [exact IH|]. intros H. apply existsb_eqb_In in H. congruence.
Qed.

Lemma first_occurrences_In k col : In k (first_occurrences col) <-> In k col.
Proof. rewrite <- !existsb_eqb_In, first_occurrences_mem. reflexivity. Qed.

(* one bucket append on a dict that lists distinct keys *)
Lemma dict_append_map (P : Z -> list Z) c n : forall F, NoDup F ->
  dict_append (map (fun k => (k, P k)) F) c n
  = if existsb (Z.eqb c) F then map (fun k => (k, if k =? c then P k ++ [n] else P k)) F
    else map (fun k => (k, P k)) F ++ [(c, [n])].
Proof.
  induction F as [|k F IH]; intros Hnd; cbn [map dict_append existsb]; [reflexivity|].
  inversion Hnd as [|? ? Hk HF]; subst.
  destruct (Z.eqb_spec k c) as [->|Hne].
  - rewrite Z.eqb_refl. cbn [orb]. f_equal. apply map_ext_in. intros x Hx.
    destruct (Z.eqb_spec x c) as [->|_]; [contradiction | reflexivity].
  - rewrite IH by exact HF. destruct (Z.eqb_spec c k) as [->|_]; [congruence|]. cbn [orb].
    destruct (existsb (Z.eqb c) F); reflexivity.
Qed.

(* the invariant step: appending row number len(col) to the bucket of c gives the index of col ++ [c] *)
Lemma index_dict_snoc col c n : n = Z.of_nat (length col) ->
  dict_append (index_dict col) c n = index_dict (col ++ [c]).
Proof.
  intros ->. unfold index_dict. rewrite dict_append_map by apply first_occurrences_NoDup.
  rewrite first_occurrences_snoc. destruct (existsb (Z.eqb c) (first_occurrences col)) eqn:E.
  - apply map_ext. intros k. rewrite positions_snoc, (Z.eqb_sym k c). destruct (c =? k); [reflexivity | now rewrite app_nil_r].
  - rewrite map_app. cbn [map]. f_equal.
    + apply map_ext_in. intros k Hk. rewrite positions_snoc.
      destruct (Z.eqb_spec c k) as [->|_]; [|now rewrite app_nil_r].
      apply existsb_eqb_In in Hk. congruence.
    + rewrite positions_snoc, Z.eqb_refl. unfold positions.
      rewrite positions_from_absent by (now rewrite <- first_occurrences_mem). reflexivity.
Qed.

(* every id of the column has exactly one entry: its positions *)
Lemma index_dict_entry col k l : In (k, l) (index_dict col) <-> In k col /\ l = positions k col.
Proof.
  unfold index_dict. rewrite in_map_iff. split.
  - intros (x & E & Hx). inversion E; subst. split; [now apply first_occurrences_In | reflexivity].
  - intros [H ->]. exists k. split; [reflexivity | now apply first_occurrences_In].
Qed.

Lemma index_dict_keys col : map fst (index_dict col) = first_occurrences col.
Proof. unfold index_dict. rewrite map_map. cbn [fst]. apply map_id. Qed.

(* ---------- LegacySparseDrugCombo(Interaction)Impl._update ---------- *)
Definition mk_trip (y : oval) (cl d1 d2 : Z) : trip := {| tr_y := y; tr_cl := cl; tr_d1 := d1; tr_d2 := d2 |}.

Lemma legacy_of_snoc st y cl d1 d2 :
  legacy_of (st ++ [mk_trip y cl d1 d2])
  = {| lg_y := map tr_y st ++ [y]; lg_cline := map tr_cl st ++ [cl]; lg_dd1 := map tr_d1 st ++ [d1];
       lg_dd2 := map tr_d2 st ++ [d2];
       lg_cline_idxs := dict_append (index_dict (map tr_cl st)) cl (Z.of_nat (length st));
       lg_dd1_idxs := dict_append (index_dict (map tr_d1 st)) d1 (Z.of_nat (length st));
       lg_dd2_idxs := dict_append (index_dict (map tr_d2 st)) d2 (Z.of_nat (length st)) |}.
Proof.
  unfold legacy_of. rewrite !map_app. cbn [map mk_trip tr_y tr_cl tr_d1 tr_d2].
  rewrite !index_dict_snoc by (now rewrite map_length). reflexivity.
Qed.

Theorem src_legacy_update_is_model : forall st y cl d1 d2,
  src_legacy_update (legacy_of st) y cl d1 d2 = Ok (legacy_of (st ++ [mk_trip y cl d1 d2])).
Proof.
  intros st y cl d1 d2. rewrite legacy_of_snoc. unfold src_legacy_update, src_legacy_n_obs. cbn [res_bind].
  unfold legacy_of, set_lg_y, set_lg_cline, set_lg_dd1, set_lg_dd2, set_lg_cline_idxs, set_lg_dd1_idxs, set_lg_dd2_idxs.
  cbn [lg_y lg_cline lg_dd1 lg_dd2 lg_cline_idxs lg_dd1_idxs lg_dd2_idxs]. rewrite map_length. reflexivity.
Qed.

Theorem src_legacy_int_update_is_model : forall st y cl d1 d2,
  src_legacy_int_update (legacy_of st) y cl d1 d2 = Ok (legacy_of (st ++ [mk_trip y cl d1 d2])).
Proof.
  intros st y cl d1 d2. rewrite legacy_of_snoc. unfold src_legacy_int_update, src_legacy_int_n_obs. cbn [res_bind].
  unfold legacy_of, set_lg_y, set_lg_cline, set_lg_dd1, set_lg_dd2, set_lg_cline_idxs, set_lg_dd1_idxs, set_lg_dd2_idxs.
  cbn [lg_y lg_cline lg_dd1 lg_dd2 lg_cline_idxs lg_dd1_idxs lg_dd2_idxs]. rewrite map_length. reflexivity.
Qed.

Theorem src_legacy_n_obs_is_model : forall st,
  src_legacy_n_obs (legacy_of st) = Ok (Z.of_nat (length st)) /\ src_legacy_int_n_obs (legacy_of st) = Ok (Z.of_nat (length st)).
Proof. intros st. unfold src_legacy_n_obs, src_legacy_int_n_obs, legacy_of. cbn [lg_y]. now rewrite map_length. Qed.

Lemma mk_trip_eta t : mk_trip (tr_y t) (tr_cl t) (tr_d1 t) (tr_d2 t) = t.
Proof. destruct t; reflexivity. Qed.

(* any number of calls, from any reachable object (in particular from the empty one, legacy_of []) *)
Lemma legacy_updates_gen (upd : legacy -> oval -> Z -> Z -> Z -> result legacy) :
  (forall st y cl d1 d2, upd (legacy_of st) y cl d1 d2 = Ok (legacy_of (st ++ [mk_trip y cl d1 d2]))) ->
  forall calls st,
  res_fold (fun w t => upd w (tr_y t) (tr_cl t) (tr_d1 t) (tr_d2 t)) calls (legacy_of st) = Ok (legacy_of (st ++ calls)).
Proof.
  intros H calls. induction calls as [|t calls IH]; intros st; cbn [res_fold]; [now rewrite app_nil_r|].
  rewrite H, mk_trip_eta. cbn [res_bind]. rewrite IH, <- app_assoc. reflexivity.
Qed.

(* the seeded-change invariant, spelled out: after ANY sequence of _update calls on a fresh object the four lists are
   the columns of the calls and every index dictionary maps each id of its column, in order of first occurrence, to
   exactly the ascending row numbers at which the column holds it *)
Theorem legacy_index_invariant : forall calls : list trip,
  (res_fold (fun w t => src_legacy_update w (tr_y t) (tr_cl t) (tr_d1 t) (tr_d2 t)) calls (legacy_of []) = Ok (legacy_of calls)) /\
  (res_fold (fun w t => src_legacy_int_update w (tr_y t) (tr_cl t) (tr_d1 t) (tr_d2 t)) calls (legacy_of []) = Ok (legacy_of calls)) /\
  let w := legacy_of calls in
  lg_y w = map tr_y calls /\ lg_cline w = map tr_cl calls /\ lg_dd1 w = map tr_d1 calls /\ lg_dd2 w = map tr_d2 calls /\
  lg_cline_idxs w = index_dict (lg_cline w) /\ lg_dd1_idxs w = index_dict (lg_dd1 w) /\ lg_dd2_idxs w = index_dict (lg_dd2 w) /\
  (forall col k l, In (k, l) (index_dict col) <-> In k col /\ l = positions k col) /\
  (forall col, NoDup (map fst (index_dict col))) /\
  (forall col k j, In j (positions k col) <-> 0 <= j /\ nth_error col (Z.to_nat j) = Some k) /\
  (forall col k, StronglySorted Z.lt (positions k col)).
Proof.
  intros calls. split; [|split].
  - exact (legacy_updates_gen _ src_legacy_update_is_model calls []).
  - exact (legacy_updates_gen _ src_legacy_int_update_is_model calls []).
  - cbv zeta. do 7 (split; [reflexivity|]).
    split; [exact index_dict_entry|]. split; [|split].
    + intros col. rewrite index_dict_keys. apply first_occurrences_NoDup.
    + intros col k j. apply positions_spec.
    + intros col k. apply positions_from_sorted.
Qed.

(* ---------- SparseDrugCombo._add_observations ---------- *)
Lemma oclip_at_consts v : oclip_at (q_of_pair OBS_CLIP_LO) (q_of_pair OBS_CLIP_HI) v = oclip v.
Proof. destruct v as [q| |[|]]; reflexivity. Qed.

Lemma id_at_0 l : id_at l 0 = match nth_error l 0 with Some a => Ok a | None => Err 4 end.
Proof. reflexivity. Qed.
Lemma id_at_1 l : id_at l 1 = match nth_error l 1 with Some a => Ok a | None => Err 4 end.
Proof. reflexivity. Qed.

(* the per-row loop, for any loop body that is (up to conversion) the translated one *)
Lemma sdc_loop orc r32 (F : legacy -> oval * list Z * Z * bool -> result legacy) :
  (forall w y dd cl (m : bool), F w (y, dd, cl, m)
     = dor w' <- (if m then dor a <- id_at dd 0; dor b <- id_at dd 1; dor w'' <- src_legacy_update w y cl a b; Ok w''
                  else Ok w);
       Ok w') ->
  forall rows st,
  res_fold F (map (fun r => (sdc_transform orc r32 (t_obs r), t_treats r, t_sample r, t_mask r)) rows) (legacy_of st)
  = dor new <- res_map_all (sdc_trip orc r32) (filter t_mask rows); Ok (legacy_of (st ++ new)).
Proof.
  intros HF rows. induction rows as [|r rows IH]; intros st; cbn [map res_fold filter].
  - cbn [res_map_all res_bind]. now rewrite app_nil_r.
  - rewrite HF. destruct (t_mask r); cbn [res_bind]; [|apply IH].
    cbn [res_map_all]. unfold sdc_trip at 1. rewrite id_at_0, id_at_1.
    destruct (nth_error (t_treats r) 0) as [d1|]; cbn [res_bind]; [|reflexivity].
    destruct (nth_error (t_treats r) 1) as [d2|]; cbn [res_bind]; [|reflexivity].
    rewrite src_legacy_update_is_model. cbn [res_bind]. rewrite IH.
    destruct (res_map_all (sdc_trip orc r32) (filter t_mask rows)) as [new|t]; cbn [res_bind]; [|reflexivity].
    rewrite <- app_assoc. reflexivity.
Qed.

Theorem src_sdc_add_observations_is_model : forall orc r32 (st : list trip) (rows : list trow),
  src_sdc_add_observations orc r32 (legacy_of st) rows = dor t <- sdc_inner orc r32 st rows; Ok (legacy_of t).
Proof.
  intros orc r32 st rows. unfold src_sdc_add_observations, sdc_inner.
  rewrite !map_map, all_true_map. destruct (forallb (fun r => o_nonneg (t_obs r)) rows); cbn [negb]; [|reflexivity].
  cbv zeta. rewrite any_true_map.
  (* the clip bounds of the call (float literals of the translation) are the model's, Generated/Consts.v: by conversion *)
  change (fun x : trow => ologit orc (oclip_at _ _ (cast32 r32 (t_obs x)))) with (fun r : trow => sdc_transform orc r32 (t_obs r)).
  change (fun x : trow => o_isnan (ologit orc (oclip_at _ _ (cast32 r32 (t_obs x)))))
    with (fun r : trow => o_isnan (sdc_transform orc r32 (t_obs r))).
  destruct (existsb (fun r => o_isnan (sdc_transform orc r32 (t_obs r))) rows); [reflexivity|].
  rewrite zip4_map, (sdc_loop orc r32) by (intros; reflexivity).
  destruct (res_map_all (sdc_trip orc r32) (filter t_mask rows)); reflexivity.
Qed.

(* the public entry point on a SparseDrugCombo: the translated guard around the translated _add_observations *)
Theorem src_sdc_add_is_model : forall orc r32 st rows,
  src_add_observations legacy (src_sdc_add_observations orc r32) (legacy_of st) rows
  = dor t <- sdc_add orc r32 st rows; Ok (legacy_of t).
Proof.
  intros orc r32 st rows. rewrite src_add_observations_is_model. unfold sdc_add, add_observations.
  destruct (forallb t_mask rows); [apply src_sdc_add_observations_is_model | reflexivity].
Qed.

(* ---------- create_single_treatment_effect_map ---------- *)
Lemma select_map_map {R A} (p : R -> bool) (f : R -> A) rows : select (map p rows) (map f rows) = map f (filter p rows).
Proof. now rewrite select_map, select_map_filter. Qed.

Lemma and_vec_map {R} (p q : R -> bool) rows : and_vec (map p rows) (map q rows) = map (fun r => p r && q r) rows.
Proof. induction rows as [|r rows IH]; cbn [map and_vec]; [reflexivity | now rewrite IH]. Qed.

Lemma existsb_filter {A} (p : A -> bool) l : existsb p l = match filter p l with [] => false | _ :: _ => true end.
Proof. induction l as [|a l IH]; cbn [existsb filter]; [reflexivity|]. destruct (p a); [reflexivity | exact IH]. Qed.

Lemma dict2_set_fresh {V} (d : list ((Z * Z) * V)) k v :
  Forall (fun kv => fst kv <> k) d -> dict2_set d k v = d ++ [(k, v)].
Proof.
  induction d as [|[k' v'] d IH]; intros H; cbn [dict2_set app]; [reflexivity|].
  inversion H as [|? ? Hk Hd]; subst. cbn [fst] in Hk.
  destruct ((fst k' =? fst k) && (snd k' =? snd k)) eqn:E.
  - exfalso. apply andb_true_iff in E. destruct E as [E1 E2]. apply Z.eqb_eq in E1, E2. apply Hk.
    destruct k', k; cbn [fst snd] in *; congruence.
  - now rewrite IH.
Qed.

(* the inner loop (over the treatment ids) for one sample id s: every (s, t) it stores is new *)
Lemma sem_inner_loop {V} (ev : Z -> option V) (s : Z) (F : list ((Z * Z) * V) -> Z -> result (list ((Z * Z) * V))) :
  (forall res t, F res t = Ok (match ev t with Some v => dict2_set res (s, t) v | None => res end)) ->
  forall ts res, NoDup ts -> Forall (fun kv => fst (fst kv) = s -> ~ In (snd (fst kv)) ts) res ->
  res_fold F ts res = Ok (res ++ flat_map (fun t => match ev t with Some v => [((s, t), v)] | None => [] end) ts).
Proof.
  intros HF ts. induction ts as [|t ts IH]; intros res Hnd Hres; cbn [res_fold flat_map]; [now rewrite app_nil_r|].
  inversion Hnd as [|? ? Ht Hts]; subst. rewrite HF. cbn [res_bind].
  destruct (ev t) as [v|]; cbn [app].
  - rewrite dict2_set_fresh.
    + rewrite IH; [now rewrite <- app_assoc | exact Hts |].
      apply Forall_app. split.
      * eapply Forall_impl; [|exact Hres]. cbn beta. intros kv H E Hin. apply (H E). now right.
      * constructor; [|constructor]. cbn [fst snd]. intros _. exact Ht.
    + eapply Forall_impl; [|exact Hres]. cbn beta. intros [[a b] w] H E. cbn [fst snd] in *. inversion E; subst.
      apply H; [reflexivity | now left].
  - apply IH; [exact Hts|]. eapply Forall_impl; [|exact Hres]. cbn beta. intros kv H E Hin. apply (H E). now right.
Qed.

(* the outer loop (over the sample ids) *)
Lemma sem_outer_loop {V} (row : Z -> list ((Z * Z) * V)) (F : list ((Z * Z) * V) -> Z -> result (list ((Z * Z) * V))) :
  (forall s, Forall (fun kv => fst (fst kv) = s) (row s)) ->
  (forall res s, Forall (fun kv => fst (fst kv) <> s) res -> F res s = Ok (res ++ row s)) ->
  forall ss res, NoDup ss -> Forall (fun kv => ~ In (fst (fst kv)) ss) res ->
  res_fold F ss res = Ok (res ++ flat_map row ss).
Proof.
  intros Hrow HF ss. induction ss as [|s ss IH]; intros res Hnd Hres; cbn [res_fold flat_map]; [now rewrite app_nil_r|].
  inversion Hnd as [|? ? Hs Hss]; subst. rewrite HF.
  - cbn [res_bind]. rewrite IH; [now rewrite <- app_assoc | exact Hss |].
    apply Forall_app. split.
    + eapply Forall_impl; [|exact Hres]. cbn beta. intros kv H Hin. apply H. now right.
    + eapply Forall_impl; [|apply Hrow]. cbn beta. intros kv -> . exact Hs.
  - eapply Forall_impl; [|exact Hres]. cbn beta. intros kv H E. apply H. now left.
Qed.

(* the value stored for (s, t), if any *)
Definition sem_val (arity : nat) (rows : list trow) (s t : Z) : option oval :=
  if t =? CONTROL_SENTINEL_VALUE then Some oone
  else match filter (single_matches s t) (filter (is_single arity) rows) with
       | [] => None
       | m => Some (omean (map t_obs m))
       end.
Definition sem_row (arity : nat) (rows : list trow) (s : Z) : lookup :=
  flat_map (fun t => match sem_val arity rows s t with Some v => [((s, t), v)] | None => [] end)
           (sort_uniq Z.compare (concat (map t_treats rows))).

Lemma single_effect_map_rows arity rows :
  single_effect_map arity rows = flat_map (sem_row arity rows) (sort_uniq Z.compare (map t_sample rows)).
Proof.
  unfold single_effect_map, sem_row. cbv zeta. apply flat_map_ext. intros s. apply flat_map_ext. intros t.
  unfold sem_val. destruct (t =? CONTROL_SENTINEL_VALUE); [reflexivity|].
  destruct (filter (single_matches s t) (filter (is_single arity) rows)); reflexivity.
Qed.

Lemma single_mask_eq arity rows : (2 <= arity)%nat ->
  eq_vec (ctrl_counts (map t_treats rows)) (Z.of_nat arity - 1) = map (is_single arity) rows.
Proof.
  intros Ha. unfold eq_vec, ctrl_counts. rewrite !map_map. apply map_ext. intros r. unfold is_single.
  destruct (Nat.eqb_spec (count_ctrl (t_treats r)) (arity - 1)) as [E|E]; [apply Z.eqb_eq | apply Z.eqb_neq]; lia.
Qed.

Theorem src_single_effect_map_is_model : forall (arity : nat) (rows : list trow),
  src_create_single_treatment_effect_map oval oone omean arity (map t_sample rows) (map t_treats rows) (map t_obs rows)
  = if Z.of_nat arity <? 2 then Err 4 else Ok (single_effect_map arity rows).
Proof.
  intros arity rows. unfold src_create_single_treatment_effect_map.
  destruct (Z.of_nat arity <? 2) eqn:Ea; [reflexivity|]. apply Z.ltb_ge in Ea.
  cbv zeta. rewrite single_mask_eq by lia. rewrite !select_map_map.
  set (singles := filter (is_single arity) rows).
  rewrite (sem_outer_loop (sem_row arity rows)).
  - cbn [res_bind app]. now rewrite single_effect_map_rows.
  - intros s. unfold sem_row. apply Forall_forall. intros kv Hkv. apply in_flat_map in Hkv. destruct Hkv as (t & _ & Hkv).
    destruct (sem_val arity rows s t); [|contradiction]. destruct Hkv as [<-|[]]. reflexivity.
  - intros res s Hres.
    rewrite (sem_inner_loop (sem_val arity rows s) s).
    + reflexivity.
    + intros res' t. unfold sem_val. fold singles. destruct (t =? CONTROL_SENTINEL_VALUE); [reflexivity|].
      unfold row_maxima, eq_vec. rewrite !map_map, and_vec_map, any_true_map, select_map_map.
      change (fun r : trow => (zmax_list (t_treats r) =? t) && (t_sample r =? s)) with (single_matches s t).
      rewrite existsb_filter. destruct (filter (single_matches s t) singles); reflexivity.
    + apply (sort_uniq_NoDup Z.compare Zcmp_spec).
    + eapply Forall_impl; [|exact Hres]. cbn beta. intros kv H E. contradiction.
  - apply (sort_uniq_NoDup Z.compare Zcmp_spec).
  - constructor.
Qed.

(* ---------- SparseDrugComboInteraction._add_observations ---------- *)
Lemma combo_mask_eq arity rows : eq_vec (ctrl_counts (map t_treats rows)) 0 = map (combo_sel true arity) rows.
Proof.
  unfold eq_vec, ctrl_counts. rewrite !map_map. apply map_ext. intros r. unfold combo_sel.
  destruct (Nat.eqb_spec (count_ctrl (t_treats r)) 0) as [E|E]; [apply Z.eqb_eq | apply Z.eqb_neq]; lia.
Qed.

Lemma int_loop orc r32 (F : legacy -> oval * Z * Z * Z * bool -> result legacy) :
  (forall w y d1 d2 cl (m : bool), F w (y, d1, d2, cl, m)
     = dor w' <- (if m then dor w'' <- src_legacy_int_update w y cl d1 d2; Ok w'' else Ok w); Ok w') ->
  forall rows st,
  res_fold F (map (fun r => (int_transform orc r32 (t_obs r), nth 0 (t_treats r) 0, nth 1 (t_treats r) 0, t_sample r, t_mask r)) rows)
           (legacy_of st)
  = Ok (legacy_of (st ++ map (int_trip orc r32) (filter t_mask rows))).
Proof.
  intros HF rows. induction rows as [|r rows IH]; intros st; cbn [map res_fold filter]; [now rewrite app_nil_r|].
  rewrite HF. destruct (t_mask r); cbn [res_bind]; [|apply IH].
  rewrite src_legacy_int_update_is_model. cbn [res_bind map]. rewrite IH, <- app_assoc. reflexivity.
Qed.

Theorem src_int_add_observations_is_model : forall orc r32 (arity : nat) (st : istate) (rows : list trow),
  src_int_add_observations orc r32 arity (i_lookup st) (legacy_of (i_train st)) rows
  = dor s <- int_inner orc r32 true true true st arity rows; Ok (i_lookup s, legacy_of (i_train s)).
Proof.
  intros orc r32 arity st rows. unfold src_int_add_observations, int_inner.
  destruct (Nat.eqb_spec arity 2) as [->|Hne]; cbn [negb].
  2:{ destruct (Z.eqb_spec (Z.of_nat arity) 2) as [E|_]; [lia | reflexivity]. }
  change (Z.of_nat 2 =? 2) with true. cbn [negb andb].
  rewrite map_map, all_true_map. destruct (forallb (fun r => o_nonneg (t_obs r)) rows); cbn [negb]; [|reflexivity].
  rewrite src_single_effect_map_is_model. change (Z.of_nat 2 <? 2) with false. cbn [res_bind]. cbv zeta.
  rewrite (combo_mask_eq 2), !select_map_map. unfold column. rewrite !map_map, any_true_map.
  set (sel := filter (combo_sel true 2) rows).
  change (fun x : trow => o_isnan (ologit orc (cast32 r32 (t_obs x)))) with (fun r : trow => o_isnan (int_transform orc r32 (t_obs r))).
  destruct (existsb (fun r => o_isnan (int_transform orc r32 (t_obs r))) sel); [reflexivity|].
  change (fun x : trow => ologit orc (cast32 r32 (t_obs x))) with (fun r : trow => int_transform orc r32 (t_obs r)).
  rewrite zip5_map, (int_loop orc r32) by (intros; reflexivity). reflexivity.
Qed.

(* the public entry point on a SparseDrugComboInteraction *)
Theorem src_int_add_is_model : forall orc r32 arity st rows,
  src_add_observations (lookup * legacy)
    (fun self d => src_int_add_observations orc r32 arity (fst self) (snd self) d)
    (i_lookup st, legacy_of (i_train st)) rows
  = dor s <- int_add orc r32 true true true st arity rows; Ok (i_lookup s, legacy_of (i_train s)).
Proof.
  intros orc r32 arity st rows. rewrite src_add_observations_is_model. unfold int_add, add_observations. cbn [fst snd].
  destruct (forallb t_mask rows); [apply src_int_add_observations_is_model | reflexivity].
Qed.

(* ---------- which variant of the interaction model the source is ---------- *)
(* the translation DETERMINES the three switches of Model/Train.v's interaction model: the fully repaired variant is the
   only one whose model equals the translated source on all inputs *)
Definition src_id_oracle : oracle := fun _ x => x.
Definition view_int (r : result (lookup * legacy)) : option (list Z * list Z * list Z) :=
  match r with Ok p => Some (lg_cline (snd p), lg_dd1 (snd p), lg_dd2 (snd p)) | Err _ => None end.
Definition src_w_row (t1 t2 : Z) (o : Q) : trow :=
  {| t_sample := 0; t_plate := 0; t_treats := [t1; t2]; t_obs := OFin (Q2Qc o); t_mask := true |}.

Theorem int_source_variant_unique : forall fixed_mask guard_neg guard_nan : bool,
  (forall orc r32 arity st rows,
     src_int_add_observations orc r32 arity (i_lookup st) (legacy_of (i_train st)) rows
     = dor s <- int_inner orc r32 fixed_mask guard_neg guard_nan st arity rows; Ok (i_lookup s, legacy_of (i_train s)))
  <-> (fixed_mask = true /\ guard_neg = true /\ guard_nan = true).
Proof.
  intros fm gn gnan. split.
  - intros H.
    assert (Hfm : fm = true).
    { destruct fm; [reflexivity|]. exfalso.
      pose proof (H src_id_oracle OFin 2%nat istate0 [src_w_row 0 1 (1 # 4); src_w_row (-1) (-1) (1 # 2)]) as E.
      apply (f_equal view_int) in E. destruct gn, gnan; vm_compute in E; discriminate. }
    subst fm.
    assert (Hgn : gn = true).
    { destruct gn; [reflexivity|]. exfalso.
      pose proof (H src_id_oracle OFin 2%nat istate0 [src_w_row (-1) (-1) (-3 # 1)]) as E.
      apply (f_equal view_int) in E. destruct gnan; vm_compute in E; discriminate. }
    subst gn.
    assert (Hgnan : gnan = true).
    { destruct gnan; [reflexivity|]. exfalso.
      pose proof (H src_id_oracle OFin 2%nat istate0 [src_w_row 0 1 (2 # 1)]) as E.
      apply (f_equal view_int) in E. vm_compute in E. discriminate. }
    now subst.
  - intros (-> & -> & ->). intros orc r32 arity st rows. apply src_int_add_observations_is_model.
Qed.
