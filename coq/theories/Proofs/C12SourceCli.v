(* The command-line wrappers reveal_plate.main and extract_screen_metadata.main: the hand-written models of
   Model/Cli.v equal the translations of the WHOLE functions of /repo, regenerated on every run (Generated/SrcCli.v,
   configurations CLI_REVEAL_PLATE / CLI_EXTRACT_METADATA of harness/src_functions.py), for every record of library
   functions and all parsed arguments. *)
From Coq Require Import ZArith List Bool Lia.
From Batchie Require Import Lib.Sexp Lib.PyRt Model.Cli Generated.SrcCli Proofs.PyRtLemmas.
Import ListNotations.
Open Scope Z_scope.

Theorem src_cli_reveal_plate_is_model : forall (Scr : Type) (L : rp_lib Scr) (a : rp_args),
  src_cli_reveal_plate Scr L a = cli_reveal_plate L a.
Proof.
  intros. unfold src_cli_reveal_plate, cli_reveal_plate. cbv zeta.
  repeat cli_step. all: reflexivity.
Qed.

(* the counting loop, for an arbitrary body equal to the canonical one *)
Lemma count_loop {A : Type} (p : A -> bool) (f : Z * Z -> A -> result (Z * Z)) :
  (forall s x, f s x = Ok (if p x then (fst s + 1, snd s) else (fst s, snd s + 1))) ->
  forall l s, res_fold f l s = Ok (fst s + count_if p l, snd s + count_if (fun x => negb (p x)) l).
Proof.
  intros Hf l. unfold count_if. induction l as [|x l IH]; intros [n m]; cbn [res_fold filter length fst snd].
  - now rewrite !Z.add_0_r.
  - rewrite Hf. cbn [res_bind fst snd]. destruct (p x); cbn [negb length]; rewrite IH; cbn [fst snd]; f_equal; f_equal; lia.
Qed.

Theorem src_cli_extract_screen_metadata_is_model : forall (Scr Pl : Type) (L : em_lib Scr Pl) (a : em_args),
  src_cli_extract_screen_metadata Scr Pl L a = cli_extract_screen_metadata L a.
Proof.
  intros. unfold src_cli_extract_screen_metadata, cli_extract_screen_metadata. cbv zeta.
  cli_step.
  rewrite (count_loop (em_is_observed L)).
  - cbn [res_bind fst snd app]. rewrite !Z.add_0_l. reflexivity.
  - intros [n m] x. cbn [fst snd]. destruct (em_is_observed L x); reflexivity.
Qed.
