(* C13 / C11, one piece of Proofs/C13SourceHelpers.v (representation and side conditions: see there): Screen.plates = plates_of *)
From Coq Require Import ZArith List Bool Arith Lia ZifyBool.
From Batchie Require Import Lib.Sexp Lib.PyRt Generated.Consts Model.Encode Model.Screen Model.Views Model.Retro Model.RetroHoldout
  Generated.SrcEncode Generated.SrcViews Generated.SrcPlates
  Proofs.PyRtLemmas Proofs.C01Sort Proofs.C01Encode Proofs.C14Defs Proofs.C14Lists Proofs.C14Unique Proofs.C14Views
  Proofs.C14ToScreen
  Proofs.C14Source_Plates Proofs.C13SourceHelpers_Base.
Import ListNotations.
Open Scope nat_scope.

(* ---------------- Screen.plates  =  plates_of ---------------- *)
(* the plates of a screen object whose plate ids are fresh are, in order, the selection vectors plates_of lists: one per
   sorted distinct plate NAME; all are views of that object, of the parent's length *)
Theorem src_plates_is_plates_of : forall (tag : Z) (p : screen), screen_wf p -> plate_ids_fresh p ->
  exists vs, src_plates (tag, p) = Ok vs /\ map v_sel vs = plates_of (s_rows p) /\
             Forall (fun v => v_tag v = tag /\ v_parent v = p /\ view_ok v) vs.
Proof.
  intros tag p Hwf (m & Hm). rewrite src_plates_is_model. cbn [fst snd]. rewrite (plates_spec tag p Hwf).
  eexists. split; [reflexivity|]. split.
  - rewrite map_map. cbn [v_sel]. unfold plates_of, plate_names_of, plate_vec, in_plate.
    pose proof (fresh_ids_are_ranks _ _ _ _ Hm) as Hr. rewrite Hr.
    set (names := map r_plate (s_rows p)). set (su := sort_uniq name_cmp names).
    pose proof (ranks_sorted_unique names) as Hs. cbv zeta in Hs. fold su in Hs. rewrite Hs. rewrite map_map.
    rewrite <- (map_nth_seq su []) at 2. rewrite map_map. apply map_ext_in. intros j Hj. apply in_seq in Hj.
    pose proof (rank_eqb_name names j) as He. cbv zeta in He. fold su in He. rewrite He by lia.
    unfold names. now rewrite map_map.
  - apply Forall_forall. intros v Hv. apply in_map_iff in Hv. destruct Hv as (pid & <- & _). cbn [v_tag v_parent].
    repeat split. unfold view_ok. cbn [v_sel v_parent]. rewrite map_length. destruct Hwf as (_ & HP & _). exact HP.
Qed.
