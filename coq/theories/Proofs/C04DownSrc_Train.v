(* C04 downstream, source level: the training stage (train_model.main's add_observations call, both MCMC models) and the sampler
   (translated mcmc_step) on the data the translated training stored.  See Proofs/C04DownSrc.v. *)
From Coq Require Import ZArith List Bool QArith Qcanon Lia.
From Batchie Require Import Lib.Sexp Lib.Num Lib.PyRt Model.Train Model.Downstream Proofs.C04Train Proofs.C04Down.
From Batchie Require Model.Scores Model.Policy Model.Gibbs Model.DistMat Model.Cli.
From Batchie Require Generated.SrcGibbs Generated.SrcTrain Proofs.C04Source.
Import ListNotations.
Open Scope Z_scope.

(* ---- training: the translated add_observations around the translated SparseDrugCombo._add_observations, on a fresh
   wrapped object, handed the observed subset (train_model.main's call) ---- *)
Definition src_stage_train (orc : oracle) (r32 : Qc -> oval) (rows : list trow) : result legacy :=
  match train_input rows with
  | Some o => SrcTrain.src_add_observations legacy (SrcTrain.src_sdc_add_observations orc r32) (legacy_of []) o
  | None => Ok (legacy_of [])
  end.

Lemma src_stage_train_is_model orc r32 rows :
  src_stage_train orc r32 rows = dor t <- train_sdc orc r32 rows; Ok (legacy_of t).
Proof.
  unfold src_stage_train, train_sdc. destruct (train_input rows) as [o|]; [|reflexivity].
  apply C04Source.src_sdc_add_is_model.
Qed.

Lemma src_stage_train_noninterference orc r32 s1 s2 : same_except_masked s1 s2 ->
  src_stage_train orc r32 s1 = src_stage_train orc r32 s2.
Proof. intros H. rewrite !src_stage_train_is_model. now rewrite (train_sdc_noninterference orc r32 s1 s2 H). Qed.

(* the same for SparseDrugComboInteraction: (single-effect lookup, wrapped object) after train_model.main's training call *)
Definition src_stage_train_int (orc : oracle) (r32 : Qc -> oval) (arity : nat) (rows : list trow) : result (lookup * legacy) :=
  match train_input rows with
  | Some o => SrcTrain.src_add_observations (lookup * legacy)
                (fun self d => SrcTrain.src_int_add_observations orc r32 arity (fst self) (snd self) d) ([], legacy_of []) o
  | None => Ok ([], legacy_of [])
  end.

Lemma src_stage_train_int_is_model orc r32 arity rows :
  src_stage_train_int orc r32 arity rows
  = dor s <- train_int orc r32 true true true arity rows; Ok (i_lookup s, legacy_of (i_train s)).
Proof.
  unfold src_stage_train_int, train_int. destruct (train_input rows) as [o|]; [|reflexivity].
  exact (C04Source.src_int_add_is_model orc r32 arity istate0 o).
Qed.

(* ... so whatever the interaction sampler and its predictions compute from the trained object (its Gibbs blocks read the wrapped
   lists, predict_viability the lookup frozen here) is computed from equal inputs *)
Lemma src_stage_train_int_noninterference orc r32 arity s1 s2 : same_except_masked s1 s2 ->
  src_stage_train_int orc r32 arity s1 = src_stage_train_int orc r32 arity s2.
Proof.
  intros H. rewrite !src_stage_train_int_is_model.
  now rewrite (train_int_noninterference orc r32 true true true arity s1 s2 H).
Qed.

(* ---- the sampler: the translated mcmc_step (its order of the thirteen block calls) with ANY block runner that is given
   the stored data - in particular C08's translated blocks `C08SourceObj.src_run flags g d orc` ---- *)
Definition legacy_data (w : legacy) : option Gibbs.data :=
  match all_some (map fin_of (lg_y w)) with
  | Some ys => Some {| Gibbs.d_y := ys; Gibbs.d_cl := lg_cline w; Gibbs.d_dd1 := lg_dd1 w; Gibbs.d_dd2 := lg_dd2 w |}
  | None => None
  end.

Lemma legacy_data_of st : legacy_data (legacy_of st) = gibbs_data st.
Proof. unfold legacy_data, gibbs_data, legacy_of. cbn [lg_y lg_cline lg_dd1 lg_dd2]. rewrite map_map. reflexivity. Qed.

Fixpoint src_sweeps (run : Gibbs.data -> Gibbs.blk -> Gibbs.st -> Gibbs.gprog Gibbs.st) (d : Gibbs.data) (nsteps : Z)
    (s : Gibbs.st) (vals : list (list Gibbs.val)) : option (list Gibbs.st) :=
  match vals with
  | [] => Some []
  | vs :: rest =>
      match snd (Gibbs.run_prog (Gibbs.to_prog (SrcGibbs.src_mcmc_step (run d) nsteps s)) vs) with
      | Some s' => match src_sweeps run d (nsteps + 1) s' rest with Some r => Some (s' :: r) | None => None end
      | None => None
      end
  end.

Definition src_stage_thetas run orc r32 (s0 : Gibbs.st) (vals : list (list Gibbs.val)) (rows : list trow)
  : result (list Gibbs.st) :=
  dor w <- src_stage_train orc r32 rows;
  match legacy_data w with
  | None => Err 3
  | Some d => match src_sweeps run d 0 s0 vals with Some th => Ok th | None => Err 9 end
  end.

Lemma src_stage_thetas_noninterference run orc r32 s0 vals s1 s2 : same_except_masked s1 s2 ->
  src_stage_thetas run orc r32 s0 vals s1 = src_stage_thetas run orc r32 s0 vals s2.
Proof. intros H. unfold src_stage_thetas. now rewrite (src_stage_train_noninterference orc r32 s1 s2 H). Qed.

(* the data the sampler is run on are the model's training trips of the observed rows *)
Lemma src_stage_thetas_data run orc r32 s0 vals rows :
  src_stage_thetas run orc r32 s0 vals rows =
  dor t <- train_sdc orc r32 rows;
  match gibbs_data t with
  | None => Err 3
  | Some d => match src_sweeps run d 0 s0 vals with Some th => Ok th | None => Err 9 end
  end.
Proof.
  unfold src_stage_thetas. rewrite src_stage_train_is_model.
  destruct (train_sdc orc r32 rows) as [t|e]; cbn [res_bind]; [|reflexivity]. now rewrite legacy_data_of.
Qed.

