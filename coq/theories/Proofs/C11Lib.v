(* Generic lemmas behind C11 (and reused by C13): names, relabelling, boolean selection,
   sub-multisets, the generate_plates / smooth_plates wrapper. *)
From Coq Require Import ZArith List Bool Arith Lia Permutation Sorted.
From Batchie Require Import Lib.Sexp Model.Encode Model.Screen Model.Retro.
Import ListNotations.
Open Scope nat_scope.

(* ---------- names ---------- *)
Lemma name_cmp_eq : forall a b, name_cmp a b = Eq <-> a = b.
Proof.
  induction a as [|x a IH]; intros [|y b]; cbn [name_cmp]; try (split; congruence).
  destruct (Z.compare_spec x y) as [Hxy|Hxy|Hxy].
  - rewrite IH. subst. split; congruence.
  - split; [discriminate|]. intros H; inversion H; lia.
  - split; [discriminate|]. intros H; inversion H; lia.
Qed.

Lemma name_eqb_eq : forall a b, name_eqb a b = true <-> a = b.
Proof.
  intros a b. unfold name_eqb. rewrite <- name_cmp_eq. destruct (name_cmp a b); split; congruence.
Qed.
Lemma name_eqb_refl : forall a, name_eqb a a = true.
Proof. intros a. now apply name_eqb_eq. Qed.
Lemma name_eqb_neq : forall a b, name_eqb a b = false <-> a <> b.
Proof.
  intros a b. rewrite <- name_eqb_eq. destruct (name_eqb a b); split; congruence.
Qed.
Lemma name_eqb_sym : forall a b, name_eqb a b = name_eqb b a.
Proof.
  intros a b. destruct (name_eqb a b) eqn:E.
  - apply name_eqb_eq in E. subst. now rewrite name_eqb_refl.
  - symmetry. apply name_eqb_neq. apply name_eqb_neq in E. congruence.
Qed.

Lemma name_mem_In : forall x l, name_mem x l = true <-> In x l.
Proof.
  intros x l. unfold name_mem. rewrite existsb_exists. split.
  - intros (y & Hy & E). apply name_eqb_eq in E. now subst.
  - intros H. exists x. split; [exact H|apply name_eqb_refl].
Qed.

Lemma name_cmp_antisym : forall a b, name_cmp b a = CompOpp (name_cmp a b).
Proof.
  induction a as [|x a IH]; intros [|y b]; cbn [name_cmp CompOpp]; try reflexivity.
  rewrite (Z.compare_antisym x y). destruct (x ?= y)%Z; cbn [CompOpp]; auto.
Qed.

Lemma name_cmp_lt_trans : forall a b c, name_cmp a b = Lt -> name_cmp b c = Lt -> name_cmp a c = Lt.
Proof.
  induction a as [|x a IH]; intros [|y b] [|z c]; cbn [name_cmp]; try congruence.
  destruct (Z.compare_spec x y) as [Hxy|Hxy|Hxy]; destruct (Z.compare_spec y z) as [Hyz|Hyz|Hyz];
    try congruence; intros H1 H2.
  - subst. rewrite Z.compare_refl. eapply IH; eassumption.
  - subst. now apply Z.compare_lt_iff in Hyz as ->.
  - subst. now apply Z.compare_lt_iff in Hxy as ->.
  - assert (Hxz : (x < z)%Z) by lia. now apply Z.compare_lt_iff in Hxz as ->.
Qed.

(* ---------- sort_uniq name_cmp: membership, NoDup ---------- *)
Lemma In_insert_uniq : forall k l x, In x (insert_uniq name_cmp k l) <-> x = k \/ In x l.
Proof.
  intros k l x. induction l as [|y l IH]; cbn [insert_uniq In].
  - intuition congruence.
  - destruct (name_cmp k y) eqn:E; cbn [In].
    + apply name_cmp_eq in E. subst. intuition congruence.
    + intuition congruence.
    + rewrite IH. intuition congruence.
Qed.

Lemma In_sort_uniq : forall l x, In x (sort_uniq name_cmp l) <-> In x l.
Proof.
  induction l as [|y l IH]; intros x; cbn [sort_uniq fold_right In]; [tauto|].
  change (fold_right (insert_uniq name_cmp) [] l) with (sort_uniq name_cmp l).
  rewrite In_insert_uniq, IH. intuition congruence.
Qed.

Definition name_lt (a b : name) : Prop := name_cmp a b = Lt.

Lemma insert_uniq_sorted : forall k l,
  StronglySorted name_lt l -> StronglySorted name_lt (insert_uniq name_cmp k l).
Proof.
  intros k l H. induction H as [|y l Hs IH Hall]; cbn [insert_uniq].
  - repeat constructor.
  - destruct (name_cmp k y) eqn:E.
    + now constructor.
    + constructor; [now constructor|]. constructor; [exact E|].
      eapply Forall_impl; [|exact Hall]. intros z Hz. eapply name_cmp_lt_trans; eassumption.
    + constructor; [exact IH|]. apply Forall_forall. intros z Hz. apply In_insert_uniq in Hz as [->|Hz].
      * unfold name_lt. rewrite name_cmp_antisym, E. reflexivity.
      * rewrite Forall_forall in Hall. now apply Hall.
Qed.

Lemma sort_uniq_sorted : forall l, StronglySorted name_lt (sort_uniq name_cmp l).
Proof.
  induction l as [|y l IH]; cbn [sort_uniq fold_right]; [constructor|].
  now apply insert_uniq_sorted.
Qed.

Lemma sorted_NoDup : forall l, StronglySorted name_lt l -> NoDup l.
Proof.
  intros l H. induction H as [|y l Hs IH Hall]; constructor; [|exact IH].
  intros Hin. rewrite Forall_forall in Hall. specialize (Hall _ Hin). unfold name_lt in Hall.
  assert (E : name_cmp y y = Eq) by now apply name_cmp_eq. congruence.
Qed.

Lemma NoDup_sort_uniq : forall l, NoDup (sort_uniq name_cmp l).
Proof. intros l. apply sorted_NoDup, sort_uniq_sorted. Qed.

Lemma In_sample_names : forall rows s, In s (sample_names rows) <-> exists r, In r rows /\ r_sample r = s.
Proof.
  intros rows s. unfold sample_names. rewrite In_sort_uniq, in_map_iff. firstorder.
Qed.
Lemma In_plate_names_of : forall rows p, In p (plate_names_of rows) <-> exists r, In r rows /\ r_plate r = p.
Proof.
  intros rows p. unfold plate_names_of. rewrite In_sort_uniq, in_map_iff. firstorder.
Qed.

Lemma in_plate_true : forall p r, in_plate p r = true <-> r_plate r = p.
Proof. intros. unfold in_plate. apply name_eqb_eq. Qed.
Lemma in_sample_true : forall s r, in_sample s r = true <-> r_sample r = s.
Proof. intros. unfold in_sample. apply name_eqb_eq. Qed.

(* ---------- rows ---------- *)
Lemma strip_set_plate : forall p r, strip (set_plate p r) = strip r.
Proof. reflexivity. Qed.
Lemma strip_set_mask_false : forall r, r_mask r = false -> strip (set_mask false r) = strip r.
Proof. intros r H. unfold strip, set_mask. cbn. now rewrite H. Qed.
Lemma set_plate_sample : forall p r, r_sample (set_plate p r) = r_sample r.
Proof. reflexivity. Qed.
Lemma set_plate_mask : forall p r, r_mask (set_plate p r) = r_mask r.
Proof. reflexivity. Qed.
Lemma set_plate_plate : forall p r, r_plate (set_plate p r) = p.
Proof. reflexivity. Qed.

Lemma strip_mask : forall a b, strip a = strip b -> r_mask a = r_mask b.
Proof. intros a b H. unfold strip in H. congruence. Qed.
Lemma strip_sample : forall a b, strip a = strip b -> r_sample a = r_sample b.
Proof. intros a b H. unfold strip in H. congruence. Qed.

Definition unmasked (rows : list row) : Prop := Forall (fun r => r_mask r = false) rows.

Lemma unmasked_unobserved : forall rows, unmasked (unobserved rows).
Proof.
  intros rows. apply Forall_forall. intros r Hr. apply filter_In in Hr as [_ H].
  now apply negb_true_iff in H.
Qed.

Lemma observed_all : forall rows, unobserved rows = [] -> observed rows = rows.
Proof.
  induction rows as [|r rows IH]; cbn [unobserved observed filter]; [reflexivity|].
  destruct (r_mask r); cbn [negb]; [|discriminate]. intros H. f_equal. now apply IH.
Qed.

Lemma cons_eq_inv {A} (x y : A) a b : x :: a = y :: b -> x = y /\ a = b.
Proof. intros H. now inversion H. Qed.

Lemma unmasked_of_strip : forall a b, map strip a = map strip b -> unmasked b -> unmasked a.
Proof.
  induction a as [|x a IH]; intros [|y b] H Hb; try discriminate; [constructor|].
  cbn [map] in H. apply cons_eq_inv in H as [H1 H2]. inversion Hb; subst. constructor.
  - rewrite (strip_mask _ _ H1). assumption.
  - eapply IH; eassumption.
Qed.

(* ---------- enum_from ---------- *)
Lemma enum_from_snd {A} : forall (l : list A) k, map snd (enum_from k l) = l.
Proof. induction l as [|a l IH]; intros k; cbn [enum_from map snd]; [reflexivity|]. now rewrite IH. Qed.
Lemma enum_from_fst {A} : forall (l : list A) k, map fst (enum_from k l) = seq k (length l).
Proof. induction l as [|a l IH]; intros k; cbn [enum_from map fst seq length]; [reflexivity|]. now rewrite IH. Qed.
Lemma enum_from_length {A} : forall (l : list A) k, length (enum_from k l) = length l.
Proof. induction l as [|a l IH]; intros k; cbn [enum_from length]; [reflexivity|]. now rewrite IH. Qed.
Lemma In_enum_from {A} : forall (l : list A) k i a,
  In (i, a) (enum_from k l) <-> k <= i /\ nth_error l (i - k) = Some a.
Proof.
  induction l as [|x l IH]; intros k i a; cbn [enum_from In].
  - split; [tauto|]. intros [_ H]. now destruct (i - k).
  - rewrite IH. split.
    + intros [H|[H1 H2]].
      * inversion H; subst. split; [lia|]. now rewrite Nat.sub_diag.
      * split; [lia|]. replace (i - k) with (S (i - S k)) by lia. exact H2.
    + intros [H1 H2]. destruct (Nat.eq_dec i k) as [->|Hne].
      * left. rewrite Nat.sub_diag in H2. cbn in H2. congruence.
      * right. split; [lia|]. replace (i - k) with (S (i - S k)) in H2 by lia. exact H2.
Qed.

(* ---------- generic: relabelling plates conserves rows minus label ---------- *)
Lemma relabel_conserves : forall (f : nat -> row -> name) rows k,
  map strip (map (fun ir => set_plate (f (fst ir) (snd ir)) (snd ir)) (enum_from k rows)) = map strip rows.
Proof.
  intros f rows. induction rows as [|r rows IH]; intros k; cbn [enum_from map]; [reflexivity|].
  now rewrite IH.
Qed.

Lemma vrelabel_strip : forall v nm rows, map strip (vrelabel v nm rows) = map strip rows.
Proof.
  induction v as [|b v IH]; intros nm [|r rows]; cbn [vrelabel map]; try reflexivity.
  rewrite IH. now destruct b.
Qed.
Lemma vrelabel_length : forall v nm rows, length (vrelabel v nm rows) = length rows.
Proof. intros. rewrite <- (map_length strip), vrelabel_strip. apply map_length. Qed.

Lemma combine_relabel_strip_gen {A} (g : A -> name) : forall (xs : list A) rows,
  length xs = length rows -> unmasked rows ->
  map strip (map (fun x => set_mask false (set_plate (g (fst x)) (snd x))) (combine xs rows)) = map strip rows.
Proof.
  induction xs as [|n xs IH]; intros [|r rows] Hl Hu; try discriminate; [reflexivity|].
  cbn [combine map fst snd]. inversion Hu; subst. rewrite IH by (cbn in Hl; auto; lia).
  f_equal. rewrite strip_set_mask_false by (now rewrite set_plate_mask). apply strip_set_plate.
Qed.

Lemma combine_relabel_strip : forall (names : list name) rows,
  length names = length rows -> unmasked rows ->
  map strip (map (fun x => set_mask false (set_plate (fst x) (snd x))) (combine names rows)) = map strip rows.
Proof. intros. now apply (combine_relabel_strip_gen (fun n => n)). Qed.

(* ---------- generic: boolean selection yields a sub-multiset ---------- *)
Definition submulti {A} (a b : list A) : Prop := exists rest, Permutation (a ++ rest) b.

Lemma submulti_refl {A} : forall l : list A, submulti l l.
Proof. intros l. exists []. now rewrite app_nil_r. Qed.
Lemma submulti_trans {A} : forall a b c : list A, submulti a b -> submulti b c -> submulti a c.
Proof.
  intros a b c [r1 H1] [r2 H2]. exists (r1 ++ r2). rewrite app_assoc. rewrite H1. exact H2.
Qed.
Lemma submulti_map {A B} (f : A -> B) : forall a b, submulti a b -> submulti (map f a) (map f b).
Proof. intros a b [r H]. exists (map f r). rewrite <- map_app. now apply Permutation_map. Qed.
Lemma submulti_of_eq {A} : forall a b : list A, a = b -> submulti a b.
Proof. intros a b ->. apply submulti_refl. Qed.
Lemma submulti_In {A} : forall (a b : list A) x, submulti a b -> In x a -> In x b.
Proof. intros a b x [r H] Hx. eapply Permutation_in; [exact H|]. apply in_or_app. now left. Qed.

Lemma filter_partition {A} (f : A -> bool) : forall l,
  Permutation (filter f l ++ filter (fun x => negb (f x)) l) l.
Proof.
  induction l as [|a l IH]; cbn [filter app]; [constructor|].
  destruct (f a); cbn [negb app].
  - now constructor.
  - etransitivity; [symmetry; apply Permutation_middle|]. now constructor.
Qed.

Lemma filter_submulti {A} (f : A -> bool) : forall l, submulti (filter f l) l.
Proof. intros l. eexists. apply filter_partition. Qed.

Lemma vselect_partition {A} : forall (v : bvec) (l : list A), length v = length l ->
  Permutation (vselect (map negb v) l ++ vselect v l) l.
Proof.
  induction v as [|b v IH]; intros [|x l] Hl; try discriminate; cbn [vselect map app]; [constructor|].
  cbn in Hl. destruct b; cbn [negb app].
  - etransitivity; [symmetry; apply Permutation_middle|]. constructor. apply IH. lia.
  - constructor. apply IH. lia.
Qed.

Lemma vselect_submulti {A} : forall (v : bvec) (l : list A), submulti (vselect v l) l.
Proof.
  induction v as [|b v IH]; intros [|x l]; cbn [vselect]; try (exists []; constructor).
  - exists (x :: l). apply Permutation_refl.
  - destruct (IH l) as [r H]. destruct b.
    + exists r. cbn [app]. now constructor.
    + exists (x :: r). etransitivity; [symmetry; apply Permutation_middle|]. now constructor.
Qed.

Lemma unobserved_observed_partition : forall rows, Permutation (unobserved rows ++ observed rows) rows.
Proof.
  intros rows. unfold unobserved, observed.
  etransitivity; [apply Permutation_app_comm|].
  etransitivity; [|apply (filter_partition r_mask rows)]. reflexivity.
Qed.

Lemma filter_vselect {A} (f : A -> bool) : forall l, filter f l = vselect (map f l) l.
Proof.
  induction l as [|a l IH]; cbn [filter map vselect]; [reflexivity|]. destruct (f a); now rewrite IH.
Qed.

Lemma filter_filter' {A} (f g : A -> bool) : forall l, filter f (filter g l) = filter (fun x => g x && f x) l.
Proof.
  induction l as [|a l IH]; cbn [filter]; [reflexivity|].
  destruct (g a); cbn [filter andb]; [destruct (f a)|]; now rewrite IH.
Qed.

(* ---------- construct / wrap ---------- *)
Lemma construct_ok : forall rows out, construct rows = Ok out -> out = rows.
Proof. intros rows out. unfold construct. destruct (plate_uniform rows); congruence. Qed.

Lemma is_nil_true {A} : forall l : list A, is_nil l = true <-> l = [].
Proof. intros [|a l]; cbn; split; congruence. Qed.

Lemma wrap_ok : forall f rows ds out ds',
  wrap f rows ds = Ok (out, ds') ->
  (unobserved rows = [] /\ out = rows /\ ds' = ds) \/
  (unobserved rows <> [] /\ exists nu, f (unobserved rows) ds = Ok (nu, ds') /\ out = nu ++ observed rows).
Proof.
  intros f rows ds out ds' H. unfold wrap in H.
  destruct (is_nil (unobserved rows)) eqn:Eu.
  - apply is_nil_true in Eu. left. inversion H; subst. repeat split; auto.
  - right. split; [intros E; rewrite E in Eu; discriminate|].
    destruct (f (unobserved rows) ds) as [[nu ds1]|t] eqn:Ef; cbn [res_bind] in H; [|discriminate].
    destruct (is_nil (observed rows)) eqn:Eo.
    + apply is_nil_true in Eo. inversion H; subst. exists out. rewrite Eo, app_nil_r. auto.
    + destruct (construct (nu ++ observed rows)) as [c|t] eqn:Ec; cbn [res_bind] in H; [|discriminate].
      apply construct_ok in Ec. inversion H; subst. exists nu. auto.
Qed.

(* on a fully unobserved screen the wrapper is the inner function (or the identity on the empty screen) *)
Lemma unobserved_unmasked : forall rows, unmasked rows -> unobserved rows = rows /\ observed rows = [].
Proof.
  induction rows as [|r rows IH]; intros H; [split; reflexivity|].
  inversion H as [|? ? Hr Hrest]; subst. destruct (IH Hrest) as [H1 H2].
  cbn [unobserved observed filter]. rewrite Hr. cbn [negb]. split; [f_equal; exact H1|exact H2].
Qed.

Lemma wrap_unmasked : forall f rows ds out ds',
  unmasked rows -> wrap f rows ds = Ok (out, ds') ->
  (rows = [] /\ out = [] /\ ds' = ds) \/ (rows <> [] /\ f rows ds = Ok (out, ds')).
Proof.
  intros f rows ds out ds' Hu H. destruct (unobserved_unmasked rows Hu) as [H1 H2].
  apply wrap_ok in H. rewrite H1, H2 in H. destruct H as [(E & -> & ->)|(Hne & nu & Hf & ->)].
  - left. subst. auto.
  - right. rewrite app_nil_r. auto.
Qed.
