(* C10: ThetaHolder.__iter__ (a generator; Generated/SrcCoreSmall.v) yields the stored samples, in their order *)
From Coq Require Import ZArith List Bool.
From Batchie Require Import Lib.Sexp Lib.PyRt Model.Thetas Generated.SrcCoreSmall Proofs.PyRtLemmas.
Import ListNotations.
Open Scope Z_scope.

Lemma fold_snoc_list {A} : forall (l acc : list A), fold_left (fun r a => r ++ [a]) l acc = acc ++ l.
Proof.
  induction l as [|a l IH]; intros acc; cbn [fold_left]; [now rewrite app_nil_r|].
  rewrite IH, <- app_assoc. reflexivity.
Qed.

Theorem src_holder_iter_is_thetas : forall (P S : Type) (self : pyobj P S),
  src_holder_iter P S self = Ok (attr_thetas self).
Proof.
  intros P S self. unfold src_holder_iter.
  rewrite (res_fold_pure _ (fun r a => r ++ [a])) by reflexivity. cbn [res_bind]. now rewrite fold_snoc_list.
Qed.
