(* C07: the storage-level translations of the ChunkedDistanceMatrix methods (Generated/SrcDistMat.v, regenerated from
   /repo on every run by harness/py2gal.py) against the entry-list model of Model/DistMat.v, through the representation
   map dm_of_storage and under the storage invariant storage_ok. *)
From Coq Require Import ZArith List Bool Lia.
From Batchie Require Import Lib.Sexp Lib.PyRt Lib.ListX Model.Chunks Model.DistMat Generated.SrcChunks Generated.SrcDistMat
  Proofs.PyRtLemmas Proofs.C07Chunks Proofs.C07Source.
Import ListNotations.
Open Scope Z_scope.

(* ---- lists as arrays ---- *)
Definition upd {A} (l : list A) (c : nat) (x : A) : list A := firstn c l ++ x :: skipn (S c) l.

Lemma upd_length {A} (l : list A) c x : (c < length l)%nat -> length (upd l c x) = length l.
Proof.
  intros H. unfold upd. rewrite app_length. cbn [length]. rewrite firstn_length, skipn_length. lia.
Qed.

Lemma nth_upd_same {A} (l : list A) c x d : (c < length l)%nat -> nth c (upd l c x) d = x.
Proof.
  intros H. unfold upd. rewrite app_nth2; rewrite firstn_length, Nat.min_l by lia; [|lia].
  now rewrite Nat.sub_diag.
Qed.

Lemma nth_upd_other {A} (l : list A) c x d k : (c < length l)%nat -> k <> c -> nth k (upd l c x) d = nth k l d.
Proof.
  intros H Hk. unfold upd. rewrite <- (firstn_skipn c l) at 3.
  destruct (Nat.lt_ge_cases k c) as [L|G].
  - rewrite !app_nth1 by (rewrite firstn_length; lia). reflexivity.
  - rewrite !app_nth2 by (rewrite firstn_length; lia). rewrite firstn_length, Nat.min_l by lia.
    destruct (k - c)%nat as [|m] eqn:E; [lia|]. cbn [nth].
    replace (skipn c l) with (firstn 1 (skipn c l) ++ skipn 1 (skipn c l)) by apply firstn_skipn.
    rewrite ListX.skipn_skipn. rewrite app_nth2; rewrite firstn_length, skipn_length, Nat.min_l by lia; [|lia].
    replace (c + 1)%nat with (S c) by lia. f_equal. lia.
Qed.

Lemma list_get_in {A} (l : list A) (z : Z) d :
  0 <= z < Z.of_nat (length l) -> list_get l z = Ok (nth (Z.to_nat z) l d).
Proof.
  intros H. unfold list_get. replace (z <? 0) with false by (symmetry; apply Z.ltb_ge; lia).
  replace (z <? 0) with false by (symmetry; apply Z.ltb_ge; lia).
  destruct (nth_error l (Z.to_nat z)) as [a|] eqn:E.
  - now rewrite (nth_error_nth _ _ d E).
  - apply nth_error_None in E. lia.
Qed.

Lemma list_get_out {A} (l : list A) (z : Z) : Z.of_nat (length l) <= z -> list_get l z = Err 98.
Proof.
  intros H. unfold list_get. replace (z <? 0) with false by (symmetry; apply Z.ltb_ge; lia).
  replace (z <? 0) with false by (symmetry; apply Z.ltb_ge; lia).
  destruct (nth_error l (Z.to_nat z)) as [a|] eqn:E; [|reflexivity].
  assert (X : nth_error l (Z.to_nat z) <> None) by congruence. apply nth_error_Some in X. lia.
Qed.

Lemma list_set_in {A} tag (l : list A) (z : Z) v :
  0 <= z < Z.of_nat (length l) -> list_set tag l z v = Ok (upd l (Z.to_nat z) v).
Proof.
  intros H. unfold list_set. replace (z <? 0) with false by (symmetry; apply Z.ltb_ge; lia).
  replace ((0 <=? z) && (z <? Z.of_nat (length l))) with true; [reflexivity|].
  symmetry. apply andb_true_iff. split; [apply Z.leb_le | apply Z.ltb_lt]; lia.
Qed.

Lemma nth_all_same {A} (l : list A) (x : A) k : (forall y, In y l -> y = x) -> nth k l x = x.
Proof. intros H. destruct (nth_in_or_default k l x) as [I|E]; [now apply H | exact E]. Qed.

Lemma nth_prefix {A} (l : list A) c k d : (k < c)%nat -> nth k (firstn c l) d = nth k l d.
Proof.
  revert l k. induction c as [|c IH]; intros l k H; [lia|].
  destruct l as [|a l]; [now destruct k|]. destruct k as [|k]; [reflexivity|]. cbn [firstn nth]. apply IH. lia.
Qed.

Lemma firstn_as_map {A} (l : list A) d : forall c, (c <= length l)%nat ->
  firstn c l = map (fun k => nth k l d) (seq 0 c).
Proof.
  induction l as [|a l IH]; intros c H.
  - cbn [length] in H. replace c with 0%nat by lia. reflexivity.
  - destruct c as [|c]; [reflexivity|]. cbn [firstn seq map nth]. f_equal.
    rewrite <- seq_shift, map_map. apply IH. cbn [length] in H. lia.
Qed.

Section Mat.
Variable V : Type.
Variable vzero : V.
Variable visz : V -> bool.
Hypothesis visz_zero : visz vzero = true.

Notation ok := (storage_ok vzero visz).
Notation abs := (dm_of_storage vzero).
Notation refines := (storage_refines vzero visz).

Definition entry_at (st : cdm V) (k : nat) : entry V :=
  (nth k (c_rows st) 0, nth k (c_cols st) 0, nth k (c_vals st) vzero).

Lemma abs_entries st : dm_entries (abs st) = map (entry_at st) (seq 0 (Z.to_nat (c_cur st))).
Proof. reflexivity. Qed.

(* ---- __init__ ---- *)
Lemma fresh_ok size c : 0 <= c -> ok (cdm_fresh vzero size c) /\ abs (cdm_fresh vzero size c) = dm_empty V size.
Proof.
  intros Hc. split; [|reflexivity]. unfold storage_ok, cdm_fresh. cbn [c_rows c_cols c_vals c_cur c_chunk].
  rewrite !repeat_length. repeat split; try lia.
  - apply nth_all_same. intros y Hy. now apply repeat_spec in Hy.
  - apply nth_all_same. intros y Hy. now apply repeat_spec in Hy.
  - rewrite nth_all_same; [exact visz_zero|]. intros y Hy. now apply repeat_spec in Hy.
Qed.

Theorem src_init_is_model : forall (self0 : cdm V) (size n_chunks chunk_index : Z) (chunk_size : option Z),
  src_cdm_init V vzero visz self0 size n_chunks chunk_index chunk_size
  = dor c <- init_chunk_size size n_chunks chunk_index chunk_size;
    if c <? 0 then Err 13 else Ok (cdm_fresh vzero size c).
Proof.
  intros self0 size nch ci cs. unfold src_cdm_init, init_chunk_size.
  assert (T : forall (st : cdm V) c, c_size st = size -> c_chunk st = c ->
    (let self1 := set_c_cur st 0 in
     dor r3 <- np_zeros 0 (c_chunk self1); let self2 := set_c_rows self1 r3 in
     dor r4 <- np_zeros 0 (c_chunk self2); let self3 := set_c_cols self2 r4 in
     dor r5 <- np_zeros vzero (c_chunk self3); let self4 := set_c_vals self3 r5 in Ok self4)
    = if c <? 0 then Err 13 else Ok (cdm_fresh vzero size c)).
  { intros st c Hs Hc. destruct st as [sz ch cu rs cl vs]. cbn [c_size c_chunk] in Hs, Hc. subst sz ch.
    cbn zeta. unfold np_zeros, set_c_cur, set_c_rows, set_c_cols, set_c_vals. cbn [c_size c_chunk c_cur c_rows c_cols c_vals].
    destruct (c <? 0); reflexivity. }
  rewrite src_chunk_is_model.
  destruct cs as [c|]; cbn [opt_int_truthy].
  - destruct (c =? 0); cbn [negb unwrap res_bind].
    + destruct (chunk_checked size ci nch) as [l|t]; cbn [res_bind]; [|reflexivity]. now apply T.
    + now apply T.
  - destruct (chunk_checked size ci nch) as [l|t]; cbn [res_bind]; [|reflexivity]. now apply T.
Qed.

(* ---- _expand_storage, add_value ---- *)
Definition expanded (st : cdm V) : cdm V :=
  {| c_size := c_size st; c_chunk := c_chunk st; c_cur := c_cur st;
     c_rows := c_rows st ++ repeat 0 (Z.to_nat (c_chunk st));
     c_cols := c_cols st ++ repeat 0 (Z.to_nat (c_chunk st));
     c_vals := c_vals st ++ repeat vzero (Z.to_nat (c_chunk st)) |}.

Lemma src_expand_is st : 0 <= c_chunk st -> src_cdm_expand_storage V vzero visz st = Ok (expanded st).
Proof.
  intros H. destruct st as [sz ch cu rs cl vs]. cbn [c_chunk] in H.
  unfold src_cdm_expand_storage, expanded, np_zeros, set_c_rows, set_c_cols, set_c_vals.
  cbn [c_size c_chunk c_cur c_rows c_cols c_vals].
  replace (ch <? 0) with false by (symmetry; apply Z.ltb_ge; lia). reflexivity.
Qed.

Lemma nth_app_zeros {A} (l : list A) (z : A) n k : nth k (l ++ repeat z n) z = nth k l z.
Proof.
  destruct (Nat.lt_ge_cases k (length l)) as [L|G].
  - now rewrite app_nth1.
  - rewrite app_nth2 by exact G. rewrite (nth_overflow l) by exact G.
    apply nth_all_same. intros y Hy. now apply repeat_spec in Hy.
Qed.

Lemma expanded_ok st : ok st -> ok (expanded st) /\ abs (expanded st) = abs st.
Proof.
  intros (H1 & H2 & H3 & H4 & H5). split.
  - unfold storage_ok, expanded. cbn [c_rows c_cols c_vals c_cur c_chunk].
    rewrite !app_length, !repeat_length. repeat split; try lia.
    + rewrite nth_app_zeros. now apply H5.
    + rewrite nth_app_zeros. now apply H5.
    + rewrite nth_app_zeros. now apply H5.
  - unfold dm_of_storage, expanded. cbn [c_rows c_cols c_vals c_cur c_size]. f_equal.
    apply map_ext. intros k. now rewrite !nth_app_zeros.
Qed.

Definition grow (st : cdm V) : cdm V :=
  if c_cur st + 1 >? Z.of_nat (length (c_vals st)) then expanded st else st.

Lemma grow_ok st : ok st -> ok (grow st) /\ abs (grow st) = abs st.
Proof. intros H. unfold grow. destruct (_ >? _); [now apply expanded_ok | now split]. Qed.

Lemma grow_fields st : c_size (grow st) = c_size st /\ c_cur (grow st) = c_cur st /\ c_chunk (grow st) = c_chunk st.
Proof. unfold grow. destruct (_ >? _); repeat split; reflexivity. Qed.

Lemma grow_room st : ok st -> has_room st -> c_cur (grow st) < Z.of_nat (length (c_rows (grow st))).
Proof.
  intros (H1 & H2 & H3 & H4 & H5) R. unfold grow, has_room in *. rewrite H2 in *.
  destruct (Z.gtb_spec (c_cur st + 1) (Z.of_nat (length (c_rows st)))) as [G|G].
  - cbn [expanded c_cur c_rows]. rewrite app_length, repeat_length. lia.
  - lia.
Qed.

Lemma grow_no_room st : ok st -> ~ has_room st -> Z.of_nat (length (c_rows (grow st))) <= c_cur (grow st).
Proof.
  intros (H1 & H2 & H3 & H4 & H5) R. unfold grow, has_room in *. rewrite H2 in *.
  destruct (Z.gtb_spec (c_cur st + 1) (Z.of_nat (length (c_rows st)))) as [G|G].
  - cbn [expanded c_cur c_rows]. rewrite app_length, repeat_length. lia.
  - lia.
Qed.

Definition push (st : cdm V) (i j : Z) (v : V) : cdm V :=
  {| c_size := c_size st; c_chunk := c_chunk st; c_cur := c_cur st + 1;
     c_rows := upd (c_rows st) (Z.to_nat (c_cur st)) i;
     c_cols := upd (c_cols st) (Z.to_nat (c_cur st)) j;
     c_vals := upd (c_vals st) (Z.to_nat (c_cur st)) v |}.

Lemma push_ok st i j v : ok st -> c_cur st < Z.of_nat (length (c_rows st)) ->
  ok (push st i j v) /\
  abs (push st i j v) = {| dm_size := c_size st; dm_entries := dm_entries (abs st) ++ [(i, j, v)] |}.
Proof.
  intros (H1 & H2 & H3 & H4 & H5) L.
  assert (Lr : (Z.to_nat (c_cur st) < length (c_rows st))%nat) by lia.
  assert (Lc : (Z.to_nat (c_cur st) < length (c_cols st))%nat) by lia.
  assert (Lv : (Z.to_nat (c_cur st) < length (c_vals st))%nat) by lia.
  split.
  - unfold storage_ok, push. cbn [c_rows c_cols c_vals c_cur c_chunk].
    rewrite !upd_length by assumption. repeat split; try lia.
    + rewrite nth_upd_other by (assumption || lia). apply H5. lia.
    + rewrite nth_upd_other by (assumption || lia). apply H5. lia.
    + rewrite nth_upd_other by (assumption || lia). apply H5. lia.
  - unfold dm_of_storage, push. cbn [c_rows c_cols c_vals c_cur c_size dm_entries]. f_equal.
    replace (Z.to_nat (c_cur st + 1)) with (Z.to_nat (c_cur st) + 1)%nat by lia.
    rewrite seq_app, map_app. cbn [seq map Nat.add]. f_equal.
    + apply map_ext_in. intros k Hk. apply in_seq in Hk.
      rewrite !nth_upd_other by (assumption || lia). reflexivity.
    + now rewrite !nth_upd_same by assumption.
Qed.

(* add_value on a well-formed storage, exactly: the two guards, growth when the arrays are full, then the slot at
   current_index (still zero, so none of the three "already calculated" tests fires) or an IndexError when there is none *)
Lemma src_add_value_eq st i j v : ok st ->
  src_cdm_add_value V vzero visz st i j v
  = if (i >=? c_size st) || (j >=? c_size st) then Err 1
    else if i <? j then Err 2
    else if c_cur (grow st) <? Z.of_nat (length (c_rows (grow st))) then Ok (push (grow st) i j v) else Err 98.
Proof.
  intros Hok. unfold src_cdm_add_value.
  destruct ((i >=? c_size st) || (j >=? c_size st)); [reflexivity|]. destruct (i <? j); [reflexivity|].
  assert (G : (if c_cur st + 1 >? Z.of_nat (length (c_vals st))
               then dor s <- src_cdm_expand_storage V vzero visz st; Ok s else Ok st) = Ok (grow st)).
  { unfold grow. destruct (_ >? _); [|reflexivity]. rewrite src_expand_is by apply Hok. reflexivity. }
  rewrite G. cbn [res_bind]. destruct (grow_ok st Hok) as [Hg _]. clear G. set (g := grow st) in *. clearbody g.
  destruct Hg as (H1 & H2 & H3 & H4 & H5).
  destruct (Z.ltb_spec (c_cur g) (Z.of_nat (length (c_rows g)))) as [L|L].
  - destruct (H5 (Z.to_nat (c_cur g)) ltac:(lia)) as (Z1 & Z2 & Z3).
    rewrite (list_get_in (c_rows g) (c_cur g) 0) by lia. cbn [res_bind]. rewrite Z1. cbn [Z.eqb negb].
    rewrite list_set_in by lia. cbn [res_bind c_size c_chunk c_cur c_rows c_cols c_vals set_c_rows set_c_cols set_c_vals set_c_cur].
    rewrite (list_get_in (c_cols g) (c_cur g) 0) by lia. cbn [res_bind]. rewrite Z2. cbn [Z.eqb negb].
    rewrite list_set_in by lia. cbn [res_bind c_size c_chunk c_cur c_rows c_cols c_vals set_c_rows set_c_cols set_c_vals set_c_cur].
    rewrite (list_get_in (c_vals g) (c_cur g) vzero) by lia. cbn [res_bind]. rewrite Z3. cbn [negb].
    rewrite list_set_in by lia. cbn [res_bind c_size c_chunk c_cur c_rows c_cols c_vals set_c_rows set_c_cols set_c_vals set_c_cur]. reflexivity.
  - rewrite list_get_out by lia. reflexivity.
Qed.

Theorem src_add_value_is_model : forall st i j v, ok st -> has_room st ->
  refines (src_cdm_add_value V vzero visz st i j v) (add_value V (abs st) i j v).
Proof.
  intros st i j v Hok R. rewrite src_add_value_eq by exact Hok. unfold add_value. cbn [dm_size dm_of_storage].
  destruct ((i >=? c_size st) || (j >=? c_size st)); [reflexivity|]. destruct (i <? j); [reflexivity|].
  pose proof (grow_room st Hok R) as L. destruct (grow_ok st Hok) as [Hg Ha]. destruct (grow_fields st) as (F1 & F2 & F3).
  replace (c_cur (grow st) <? Z.of_nat (length (c_rows (grow st)))) with true by (symmetry; apply Z.ltb_lt; exact L).
  destruct (push_ok (grow st) i j v Hg L) as [P1 P2]. split; [exact P1|]. rewrite P2, Ha, F1. reflexivity.
Qed.

(* a matrix built for an empty chunk (chunk_size 0, no slot) cannot take a value: once the guards pass, IndexError *)
Theorem src_add_value_no_room : forall st i j v, ok st -> ~ has_room st ->
  src_cdm_add_value V vzero visz st i j v
  = if (i >=? c_size st) || (j >=? c_size st) then Err 1 else if i <? j then Err 2 else Err 98.
Proof.
  intros st i j v Hok R. rewrite src_add_value_eq by exact Hok. pose proof (grow_no_room st Hok R) as L.
  replace (c_cur (grow st) <? Z.of_nat (length (c_rows (grow st)))) with false by (symmetry; apply Z.ltb_ge; exact L).
  reflexivity.
Qed.

(* ---- is_complete ---- *)
Theorem src_is_complete_is_model : forall st, ok st ->
  src_cdm_is_complete V vzero visz st = Ok (is_complete V (abs st)).
Proof.
  intros st (H1 & H2 & H3 & H4 & H5). unfold src_cdm_is_complete. rewrite src_n_lower_is_model. cbn [res_bind].
  unfold is_complete. rewrite abs_entries, map_length, seq_length, Z2Nat.id by lia. reflexivity.
Qed.

(* ---- combine ---- *)
Lemma n_lower_nonneg n : 0 <= n_lower n.
Proof. unfold n_lower. apply Z.div_pos; [nia | lia]. Qed.

(* the single chunk of one is the whole enumeration *)
Lemma chunk_checked_all size : chunk_checked size 0 1 = Ok (map zpair (lower_tri (Z.to_nat size))).
Proof.
  unfold chunk_checked. cbn [Z.ltb Z.compare negb Z.eqb]. rewrite chunk_bounds_cut.
  pose proof (n_lower_nonneg size) as HN.
  rewrite cut_0 by lia. change (0 + 1) with 1. rewrite cut_c by lia. cbn [Z.ltb Z.compare].
  replace (n_lower size - 0 <? 0) with false by (symmetry; apply Z.ltb_ge; lia).
  do 2 f_equal. unfold slice. cbn [Z.to_nat skipn].
  destruct (Z.le_gt_cases 0 size) as [H|H].
  - assert (E : n_lower size = Z.of_nat (length (lower_tri (Z.to_nat size))))
      by (rewrite lower_tri_length, Z2Nat.id by lia; reflexivity).
    rewrite E, Z.sub_0_r, Nat2Z.id. apply firstn_all.
  - replace (Z.to_nat size) with 0%nat by lia. apply firstn_nil.
Qed.

Definition comp_chunk (a : cdm V) : Z :=
  if c_cur a =? 0 then Z.of_nat (length (lower_tri (Z.to_nat (c_size a)))) else c_cur a.

Lemma comp_chunk_bounds a : ok a -> 0 <= comp_chunk a /\ (Z.to_nat (c_cur a) <= Z.to_nat (comp_chunk a))%nat.
Proof.
  intros (H1 & H2 & H3 & H4 & H5). unfold comp_chunk. destruct (Z.eqb_spec (c_cur a) 0) as [E|E]; [rewrite E|]; lia.
Qed.

Lemma comp_chunk_pos a : ok a -> c_cur a <> 0 \/ 2 <= c_size a -> 0 < comp_chunk a.
Proof.
  intros (H1 & H2 & H3 & H4 & H5) H. unfold comp_chunk. destruct (Z.eqb_spec (c_cur a) 0) as [E|E]; [|lia].
  destruct H as [H|H]; [lia|].
  assert (I : In (1, 0)%nat (lower_tri (Z.to_nat (c_size a)))) by (apply lower_tri_In; lia).
  destruct (lower_tri (Z.to_nat (c_size a))); [destruct I | cbn [length]; lia].
Qed.

Lemma combine_init a : ok a ->
  src_cdm_init V vzero visz (cdm_blank V) (c_size a) 1 0 (Some (c_cur a)) = Ok (cdm_fresh vzero (c_size a) (comp_chunk a)).
Proof.
  intros Hok. rewrite src_init_is_model. unfold init_chunk_size. rewrite chunk_checked_all. cbn [res_bind].
  rewrite map_length. fold (comp_chunk a). destruct (comp_chunk_bounds a Hok) as [H _].
  destruct (c_cur a =? 0) eqn:E; unfold comp_chunk in *; rewrite E in *; cbn [res_bind];
    match goal with |- (if ?c then _ else _) = _ => replace c with false by (symmetry; apply Z.ltb_ge; lia) end; reflexivity.
Qed.

Lemma np_prefix_nonneg {A} (l : list A) k : 0 <= k -> np_prefix l k = firstn (Z.to_nat k) l.
Proof. intros H. unfold np_prefix. now replace (k <? 0) with false by (symmetry; apply Z.ltb_ge; lia). Qed.

Lemma np_store_prefix_ok {A} (a l : list A) cur : 0 <= cur ->
  (Z.to_nat cur <= length a)%nat -> (Z.to_nat cur <= length l)%nat ->
  np_store_prefix a cur (np_prefix l cur) = Ok (firstn (Z.to_nat cur) l ++ skipn (Z.to_nat cur) a).
Proof.
  intros H Ha Hl. unfold np_store_prefix. rewrite !np_prefix_nonneg by exact H.
  rewrite !firstn_length, !Nat.min_l by assumption. now rewrite Nat.eqb_refl.
Qed.

(* the object combine fills before its loop: a copy of self's used prefix over fresh zero storage *)
Definition composed1 (a : cdm V) : cdm V :=
  let c := Z.to_nat (c_cur a) in let n := Z.to_nat (comp_chunk a) in
  {| c_size := c_size a; c_chunk := comp_chunk a; c_cur := c_cur a;
     c_rows := firstn c (c_rows a) ++ skipn c (repeat 0 n);
     c_cols := firstn c (c_cols a) ++ skipn c (repeat 0 n);
     c_vals := firstn c (c_vals a) ++ skipn c (repeat vzero n) |}.

Lemma nth_copy {A} (l : list A) (z : A) c n k : (c <= length l)%nat ->
  nth k (firstn c l ++ skipn c (repeat z n)) z = if (k <? c)%nat then nth k l z else z.
Proof.
  intros H. destruct (Nat.ltb_spec k c) as [L|G].
  - rewrite app_nth1 by (rewrite firstn_length; lia). now apply nth_prefix.
  - rewrite app_nth2 by (rewrite firstn_length; lia). apply nth_all_same.
    intros y Hy. apply ListX.In_skipn in Hy. now apply repeat_spec in Hy.
Qed.

Lemma composed1_ok a : ok a -> ok (composed1 a) /\ abs (composed1 a) = abs a.
Proof.
  intros Hok. destruct (comp_chunk_bounds a Hok) as [B1 B2]. destruct Hok as (H1 & H2 & H3 & H4 & H5). split.
  - unfold storage_ok, composed1. cbn [c_rows c_cols c_vals c_cur c_chunk].
    rewrite !app_length, !firstn_length, !skipn_length, !repeat_length, !Nat.min_l by lia.
    repeat split; try lia.
    + rewrite nth_copy by lia. replace (k <? Z.to_nat (c_cur a))%nat with false by (symmetry; apply Nat.ltb_ge; lia). reflexivity.
    + rewrite nth_copy by lia. replace (k <? Z.to_nat (c_cur a))%nat with false by (symmetry; apply Nat.ltb_ge; lia). reflexivity.
    + rewrite nth_copy by lia. replace (k <? Z.to_nat (c_cur a))%nat with false by (symmetry; apply Nat.ltb_ge; lia). exact visz_zero.
  - unfold dm_of_storage, composed1. cbn [c_rows c_cols c_vals c_cur c_size]. f_equal.
    apply map_ext_in. intros k Hk. apply in_seq in Hk. rewrite !nth_copy by lia.
    replace (k <? Z.to_nat (c_cur a))%nat with true by (symmetry; apply Nat.ltb_lt; lia). reflexivity.
Qed.

Lemma key_link comp x y : ok comp ->
  pair_in_zip x y (np_prefix (c_rows comp) (c_cur comp)) (np_prefix (c_cols comp) (c_cur comp))
  = has_key V (dm_entries (abs comp)) x y.
Proof.
  intros (H1 & H2 & H3 & H4 & H5). rewrite !np_prefix_nonneg by lia.
  rewrite (firstn_as_map (c_rows comp) 0), (firstn_as_map (c_cols comp) 0) by lia.
  rewrite abs_entries. unfold pair_in_zip, has_key.
  induction (seq 0 (Z.to_nat (c_cur comp))) as [|k s IH]; [reflexivity|].
  cbn [map List.combine existsb entry_at fst snd]. now rewrite IH.
Qed.

Lemma add_value_keeps_chunk st i j v st' : ok st ->
  src_cdm_add_value V vzero visz st i j v = Ok st' -> c_chunk st' = c_chunk st.
Proof.
  intros Hok. rewrite src_add_value_eq by exact Hok.
  destruct (_ || _); [discriminate|]. destruct (i <? j); [discriminate|]. destruct (_ <? _); [|discriminate].
  intros H. injection H as <-. cbn [push c_chunk]. apply grow_fields.
Qed.

(* one pass of combine's loop: read entry k of other, add it unless its key is already there *)
Definition combine_body (b comp : cdm V) (k : Z) : result (cdm V) :=
  dor r3 <- list_get (c_rows b) k;
  dor r4 <- list_get (c_cols b) k;
  dor r5 <- list_get (c_vals b) k;
  let '(row, col, value) := (r3, r4, r5) in
  dor comp <- (if negb (pair_in_zip row col (np_prefix (c_rows comp) (c_cur comp)) (np_prefix (c_cols comp) (c_cur comp)))
               then dor comp <- src_cdm_add_value V vzero visz comp row col value; Ok comp
               else Ok comp);
  Ok comp.

Lemma combine_fold_link (f : cdm V -> Z -> result (cdm V)) (b : cdm V) :
  ok b -> (forall comp k, f comp k = combine_body b comp k) ->
  forall (ks : list nat) comp, (forall k, In k ks -> (k < Z.to_nat (c_cur b))%nat) -> ok comp -> 0 < c_chunk comp ->
  refines (res_fold f (map Z.of_nat ks) comp) (combine_loop V (abs comp) (map (entry_at b) ks)).
Proof.
  intros Hb Hf ks. destruct Hb as (B1 & B2 & B3 & B4 & B5).
  induction ks as [|k ks IH]; intros comp Hks Hok Hpos; cbn [map res_fold combine_loop].
  - now split.
  - assert (Hk : (k < Z.to_nat (c_cur b))%nat) by (apply Hks; now left).
    rewrite Hf. unfold combine_body.
    rewrite (list_get_in (c_rows b) (Z.of_nat k) 0), (list_get_in (c_cols b) (Z.of_nat k) 0),
      (list_get_in (c_vals b) (Z.of_nat k) vzero) by lia.
    cbn [res_bind]. rewrite Nat2Z.id. unfold entry_at at 1. rewrite key_link by exact Hok.
    destruct (has_key V (dm_entries (abs comp)) (nth k (c_rows b) 0) (nth k (c_cols b) 0)); cbn [negb res_bind].
    + apply IH; [intros k' Hk'; apply Hks; now right | exact Hok | exact Hpos].
    + assert (R : has_room comp) by (right; exact Hpos).
      pose proof (src_add_value_is_model comp (nth k (c_rows b) 0) (nth k (c_cols b) 0) (nth k (c_vals b) vzero) Hok R) as L.
      pose proof (add_value_keeps_chunk comp (nth k (c_rows b) 0) (nth k (c_cols b) 0) (nth k (c_vals b) vzero)) as K.
      destruct (src_cdm_add_value V vzero visz comp _ _ _) as [st'|t];
        destruct (add_value V (abs comp) _ _ _) as [m'|t']; cbn [storage_refines] in L; try contradiction.
      * cbn [res_bind]. destruct L as [L1 L2]. rewrite <- L2.
        apply IH; [intros k' Hk'; apply Hks; now right | exact L1 | rewrite (K st' Hok eq_refl); exact Hpos].
      * cbn [res_bind storage_refines]. exact L.
Qed.

Lemma zrange_nat z : zrange z = map Z.of_nat (seq 0 (Z.to_nat z)).
Proof. reflexivity. Qed.

Theorem src_combine_is_model : forall a b, ok a -> ok b ->
  (c_cur b = 0 \/ c_cur a <> 0 \/ 2 <= c_size a) ->
  refines (src_cdm_combine V vzero visz a b) (combine V (abs a) (abs b)).
Proof.
  intros a b Ha Hb Hroom. unfold src_cdm_combine, combine. cbn [dm_size dm_of_storage].
  destruct (negb (c_size a =? c_size b)); [reflexivity|].
  rewrite combine_init by exact Ha. cbn [res_bind].
  destruct (comp_chunk_bounds a Ha) as [B1 B2]. pose proof Ha as (H1 & H2 & H3 & H4 & H5).
  unfold cdm_store_rows, cdm_store_cols, cdm_store_vals.
  cbn [cdm_fresh c_rows c_cols c_vals set_c_rows set_c_cols set_c_vals c_size c_chunk c_cur].
  rewrite np_store_prefix_ok by (rewrite ?repeat_length; lia).
  cbn [res_bind cdm_fresh c_rows c_cols c_vals set_c_rows set_c_cols set_c_vals c_size c_chunk c_cur].
  rewrite np_store_prefix_ok by (rewrite ?repeat_length; lia).
  cbn [res_bind cdm_fresh c_rows c_cols c_vals set_c_rows set_c_cols set_c_vals c_size c_chunk c_cur].
  rewrite np_store_prefix_ok by (rewrite ?repeat_length; lia).
  cbn [res_bind cdm_fresh c_rows c_cols c_vals set_c_rows set_c_cols set_c_vals set_c_cur c_size c_chunk c_cur].
  fold (composed1 a). destruct (composed1_ok a Ha) as [C1 C2].
  rewrite zrange_nat. rewrite <- C2 at 1. rewrite (abs_entries b).
  destruct (Z.eq_dec (c_cur b) 0) as [E0|E0].
  - rewrite E0. cbn [Z.to_nat seq map res_fold res_bind combine_loop]. now split.
  - assert (Hpos : 0 < c_chunk (composed1 a)) by (cbn [composed1 c_chunk]; apply comp_chunk_pos; [exact Ha | lia]).
    match goal with |- context [res_fold ?f _ _] =>
      pose proof (combine_fold_link f b Hb ltac:(intros; reflexivity) (seq 0 (Z.to_nat (c_cur b))) (composed1 a)
                    ltac:(intros k Hk; apply in_seq in Hk; lia) C1 Hpos) as L end.
    destruct (res_fold _ _ _) as [st|t]; destruct (combine_loop V _ _) as [m|t']; cbn [storage_refines] in L; try contradiction;
      cbn [res_bind storage_refines]; exact L.
Qed.

(* ---- concat ---- *)
Lemma concat_fold_link (f : cdm V -> cdm V -> result (cdm V)) :
  (forall acc m, f acc m = if negb (c_size acc =? c_size m) then Err 3
                           else dor r <- src_cdm_combine V vzero visz acc m; Ok r) ->
  forall ms acc, Forall (storage_ok vzero visz) ms -> Forall roomy ms -> ok acc ->
  refines (res_fold f ms acc) (concat_loop V (abs acc) (map abs ms)).
Proof.
  intros Hf ms. induction ms as [|m ms IH]; intros acc Hms Hr Hacc; cbn [map res_fold concat_loop].
  - now split.
  - rewrite Hf. cbn [dm_size dm_of_storage]. inversion Hms as [|? ? Hm Hms']; subst. inversion Hr as [|? ? Rm Hr']; subst.
    destruct (Z.eqb_spec (c_size acc) (c_size m)) as [E|E]; cbn [negb]; [|reflexivity].
    assert (Hroom : c_cur m = 0 \/ c_cur acc <> 0 \/ 2 <= c_size acc) by (destruct Rm as [R|R]; [now left | right; right; lia]).
    pose proof (src_combine_is_model acc m Hacc Hm Hroom) as L.
    destruct (src_cdm_combine V vzero visz acc m) as [st|t]; destruct (combine V (abs acc) (abs m)) as [d|t'];
      cbn [storage_refines] in L; try contradiction; cbn [res_bind storage_refines]; [|exact L].
    destruct L as [L1 L2]. rewrite <- L2. now apply IH.
Qed.

Theorem src_concat_is_model : forall ms, Forall (storage_ok vzero visz) ms -> Forall roomy (tl ms) ->
  refines (src_cdm_concat V vzero visz ms) (dm_concat V (map abs ms)).
Proof.
  intros ms Hms Hr. unfold src_cdm_concat. destruct ms as [|m [|m2 r]].
  - reflexivity.
  - cbn [length map dm_concat]. change (Z.of_nat 1 =? 1) with true. cbv iota.
    change (list_get [m] 0) with (Ok m : result (cdm V)). cbn [res_bind storage_refines]. inversion Hms; subst. now split.
  - cbn [length]. replace (Z.of_nat (S (S (length r))) =? 1) with false by (symmetry; apply Z.eqb_neq; lia).
    replace (Z.of_nat (S (S (length r))) =? 0) with false by (symmetry; apply Z.eqb_neq; lia).
    change (list_get (m :: m2 :: r) 0) with (Ok m : result (cdm V)). cbn [res_bind tl map dm_concat].
    inversion Hms as [|? ? Hm Hms']; subst.
    match goal with |- context [res_fold ?f _ _] =>
      pose proof (concat_fold_link f ltac:(intros; reflexivity) (m2 :: r) m Hms' Hr Hm) as L end.
    cbn [map] in L.
    destruct (res_fold _ _ _) as [st|t]; destruct (concat_loop V _ _) as [d|t']; cbn [storage_refines] in L; try contradiction;
      cbn [res_bind storage_refines]; exact L.
Qed.

(* ---- to_dense ---- *)
Definition mat_of (f : nat -> nat -> V) (n : nat) : list (list V) :=
  map (fun a => map (fun b => f a b) (seq 0 n)) (seq 0 n).

Lemma mat_of_ext f g n : (forall a b, (a < n)%nat -> (b < n)%nat -> f a b = g a b) -> mat_of f n = mat_of g n.
Proof.
  intros H. unfold mat_of. apply map_ext_in. intros a Ha. apply in_seq in Ha.
  apply map_ext_in. intros b Hb. apply in_seq in Hb. apply H; lia.
Qed.

Lemma upd_map_seq {A} (g : nat -> A) n c v : (c < n)%nat ->
  upd (map g (seq 0 n)) c v = map (fun b => if (b =? c)%nat then v else g b) (seq 0 n).
Proof.
  intros H. apply (nth_ext _ _ v v).
  - rewrite upd_length by (rewrite map_length, seq_length; lia). now rewrite !map_length.
  - intros k Hk. rewrite upd_length, map_length, seq_length in Hk by (rewrite map_length, seq_length; lia).
    rewrite (ListX.nth_map_seq0 (fun b => if (b =? c)%nat then v else g b)) by exact Hk.
    destruct (Nat.eqb_spec k c) as [->|N].
    + apply nth_upd_same. rewrite map_length, seq_length. lia.
    + rewrite nth_upd_other by (rewrite ?map_length, ?seq_length; lia). now apply ListX.nth_map_seq0.
Qed.

Lemma set2_mat_of tag f n r c v : (r < n)%nat -> (c < n)%nat ->
  list_set2 tag (mat_of f n) (Z.of_nat r) (Z.of_nat c) v
  = Ok (mat_of (fun a b => if (a =? r)%nat && (b =? c)%nat then v else f a b) n).
Proof.
  intros Hr Hc. unfold list_set2.
  assert (Ln : length (mat_of f n) = n) by (unfold mat_of; now rewrite map_length, seq_length).
  rewrite Ln. replace (Z.of_nat r <? 0) with false by (symmetry; apply Z.ltb_ge; lia).
  replace ((0 <=? Z.of_nat r) && (Z.of_nat r <? Z.of_nat n)) with true
    by (symmetry; apply andb_true_iff; split; [apply Z.leb_le | apply Z.ltb_lt]; lia).
  rewrite Nat2Z.id. unfold mat_of at 1. rewrite (ListX.nth_map_seq0 (fun a => map (fun b => f a b) (seq 0 n))) by exact Hr.
  rewrite list_set_in by (rewrite map_length, seq_length; lia). cbn [res_bind].
  rewrite list_set_in by (rewrite Ln; lia). rewrite !Nat2Z.id. f_equal.
  unfold mat_of. rewrite !upd_map_seq by assumption. apply map_ext. intros a.
  destruct (a =? r)%nat eqn:E; cbn [andb]; [|reflexivity].
  apply Nat.eqb_eq in E. subst a. reflexivity.
Qed.

Lemma repeat_as_map {A} (x : A) n : repeat x n = map (fun _ => x) (seq 0 n).
Proof. induction n as [|n IH]; [reflexivity|]. cbn [repeat seq map]. now rewrite <- seq_shift, map_map, IH. Qed.

Lemma dense_get_if es a b (c : bool) x y :
  dense_get V es a b (if c then x else y) = if c then dense_get V es a b x else dense_get V es a b y.
Proof. now destruct c. Qed.

(* one pass of to_dense's loop *)
Definition dense_body (st : cdm V) (dense : list (list V)) (k : Z) : result (list (list V)) :=
  dor r4 <- list_get (c_rows st) k;
  dor r5 <- list_get (c_cols st) k;
  dor r6 <- list_get (c_vals st) k;
  dor dense <- list_set2 98 dense r4 r5 r6;
  dor r7 <- list_get (c_cols st) k;
  dor r8 <- list_get (c_rows st) k;
  dor r9 <- list_get (c_vals st) k;
  dor dense <- list_set2 98 dense r7 r8 r9;
  Ok dense.

Lemma dense_fold_link (f : list (list V) -> Z -> result (list (list V))) (st : cdm V) (n : nat) :
  ok st -> entries_in_range st -> c_size st = Z.of_nat n -> (forall d k, f d k = dense_body st d k) ->
  forall (ks : list nat) g, (forall k, In k ks -> (k < Z.to_nat (c_cur st))%nat) ->
  res_fold f (map Z.of_nat ks) (mat_of g n)
  = Ok (mat_of (fun a b => dense_get V (map (entry_at st) ks) (Z.of_nat a) (Z.of_nat b) (g a b)) n).
Proof.
  intros (H1 & H2 & H3 & H4 & H5) Hin Hn Hf ks. induction ks as [|k ks IH]; intros g Hks; cbn [map res_fold dense_get].
  - reflexivity.
  - assert (Hk : (k < Z.to_nat (c_cur st))%nat) by (apply Hks; now left).
    destruct (Hin k Hk) as [[R0 R1] [C0 C1]]. rewrite Hn in R1, C1.
    rewrite Hf. unfold dense_body.
    rewrite (list_get_in (c_rows st) (Z.of_nat k) 0), (list_get_in (c_cols st) (Z.of_nat k) 0),
      (list_get_in (c_vals st) (Z.of_nat k) vzero) by lia.
    cbn [res_bind]. rewrite Nat2Z.id.
    set (i := nth k (c_rows st) 0) in *. set (j := nth k (c_cols st) 0) in *. set (v := nth k (c_vals st) vzero).
    rewrite <- (Z2Nat.id i R0), <- (Z2Nat.id j C0).
    rewrite set2_mat_of by lia. cbn [res_bind]. rewrite set2_mat_of by lia. cbn [res_bind].
    rewrite IH by (intros k' Hk'; apply Hks; now right). f_equal. apply mat_of_ext. intros a b Ha Hb.
    unfold entry_at at 2. fold i j v. rewrite <- (Z2Nat.id i R0) at 1 2. rewrite <- (Z2Nat.id j C0) at 1 2.
    rewrite !dense_get_if.
    repeat match goal with |- context [(?x =? ?y)%nat] => destruct (Nat.eqb_spec x y) end;
      repeat match goal with |- context [Z.eqb ?x ?y] => destruct (Z.eqb_spec x y) end;
      cbn [andb orb]; try reflexivity; lia.
Qed.

Theorem src_to_dense_is_model : forall st, ok st -> entries_in_range st ->
  src_cdm_to_dense V vzero visz st = to_dense V vzero (abs st).
Proof.
  intros st Hok Hin. unfold src_cdm_to_dense, to_dense. rewrite src_is_complete_is_model by exact Hok. cbn [res_bind].
  destruct (is_complete V (abs st)) eqn:C; cbn [negb]; [|reflexivity].
  pose proof Hok as (H1 & H2 & H3 & H4 & H5).
  assert (Hs : 0 <= c_size st).
  { unfold is_complete in C. rewrite abs_entries, map_length, seq_length, Z2Nat.id in C by lia.
    cbn [dm_size dm_of_storage] in C. apply Z.eqb_eq in C.
    destruct (Z.eq_dec (c_cur st) 0) as [E|E].
    - destruct (Z.le_gt_cases 0 (c_size st)) as [G|G]; [exact G|]. exfalso.
      assert (X : 2 / 2 <= c_size st * (c_size st - 1) / 2) by (apply Z.div_le_mono; [lia | nia]).
      unfold n_lower in C. change (2 / 2) with 1 in X. lia.
    - destruct (Hin 0%nat ltac:(lia)) as [[? ?] _]. lia. }
  cbn [dm_size dm_of_storage]. set (n := Z.to_nat (c_size st)).
  assert (Hn : c_size st = Z.of_nat n) by (unfold n; lia).
  unfold np_zeros2. replace ((c_size st <? 0) || (c_size st <? 0)) with false
    by (symmetry; apply orb_false_iff; split; apply Z.ltb_ge; lia).
  cbn [res_bind]. fold n.
  replace (repeat (repeat vzero n) n) with (mat_of (fun _ _ => vzero) n)
    by (unfold mat_of; now rewrite !repeat_as_map).
  rewrite zrange_nat.
  match goal with |- context [res_fold ?f _ _] =>
    rewrite (dense_fold_link f st n Hok Hin Hn ltac:(intros; reflexivity) (seq 0 (Z.to_nat (c_cur st))) (fun _ _ => vzero))
      by (intros k Hk; apply in_seq in Hk; lia) end.
  cbn [res_bind]. reflexivity.
Qed.

(* ---- calculate_pairwise_distance_matrix_on_predictions ---- *)
Section Calc.
Variables Th Pr : Type.
Variable get_theta : Z -> Th.
Variable predict : Th -> Pr.
Variable dist : Pr -> Pr -> V.

(* the composite the model abstracts as d i j: the metric on the predictions of samples i and j *)
Definition metric_of (i j : nat) : V :=
  dist (predict (get_theta (Z.of_nat i))) (predict (get_theta (Z.of_nat j))).

Definition calc_body (st : cdm V) (p : Z * Z) : result (cdm V) :=
  let '(i, j) := p in
  dor st <- src_cdm_add_value V vzero visz st i j (dist (predict (get_theta i)) (predict (get_theta j))); Ok st.

Lemma add_all_link (f : cdm V -> Z * Z -> result (cdm V)) :
  (forall st p, f st p = calc_body st p) ->
  forall (ps : list (nat * nat)) st, ok st -> 0 < c_chunk st ->
  refines (res_fold f (map zpair ps) st) (add_all V metric_of (abs st) ps).
Proof.
  intros Hf ps. induction ps as [|[i j] ps IH]; intros st Hok Hpos; cbn [map res_fold add_all].
  - now split.
  - rewrite Hf. unfold calc_body, zpair. cbn [fst snd]. fold (metric_of i j).
    assert (R : has_room st) by (right; exact Hpos).
    pose proof (src_add_value_is_model st (Z.of_nat i) (Z.of_nat j) (metric_of i j) Hok R) as L.
    pose proof (add_value_keeps_chunk st (Z.of_nat i) (Z.of_nat j) (metric_of i j)) as K.
    destruct (src_cdm_add_value V vzero visz st _ _ _) as [st'|t];
      destruct (add_value V (abs st) _ _ _) as [m'|t']; cbn [storage_refines] in L; try contradiction.
    + cbn [res_bind]. destruct L as [L1 L2]. rewrite <- L2. apply IH; [exact L1 | rewrite (K st' Hok eq_refl); exact Hpos].
    + cbn [res_bind storage_refines]. exact L.
Qed.

Theorem src_calculate_is_model : forall (n : nat) (k c : Z), 0 <= k < c ->
  refines (src_calculate_pairwise V vzero visz Th Pr (Z.of_nat n) get_theta predict dist k c)
          (compute_chunk V metric_of n k c).
Proof.
  intros n k c Hk. unfold src_calculate_pairwise, compute_chunk.
  rewrite src_chunk_is_model, chunk_checked_in_range by exact Hk. cbn [res_bind].
  rewrite src_init_is_model. unfold init_chunk_size. rewrite chunk_checked_in_range by exact Hk. cbn [res_bind].
  rewrite map_length.
  replace (Z.of_nat (length (chunk n k c)) <? 0) with false by (symmetry; apply Z.ltb_ge; lia). cbn [res_bind].
  destruct (fresh_ok (Z.of_nat n) (Z.of_nat (length (chunk n k c))) ltac:(lia)) as [F1 F2]. rewrite <- F2.
  destruct (chunk n k c) as [|p ps] eqn:E.
  - cbn [map res_fold res_bind add_all storage_refines]. now split.
  - rewrite <- E in *.
    assert (Hpos : 0 < c_chunk (cdm_fresh vzero (Z.of_nat n) (Z.of_nat (length (chunk n k c)))))
      by (cbn [cdm_fresh c_chunk]; rewrite E; cbn [length]; lia).
    match goal with |- context [res_fold ?f ?l ?s] =>
      pose proof (add_all_link f ltac:(intros st [i j]; reflexivity) (chunk n k c) _ F1 Hpos) as L;
      set (r := res_fold f l s) in * end.
    destruct r as [st|t]; destruct (add_all V _ _ _) as [m|t']; cbn [storage_refines] in L; try contradiction;
      cbn [res_bind storage_refines]; exact L.
Qed.

(* outside 0 <= k < c the function fails (or returns the empty chunk) before any distance is computed: exactly as
   get_lower_triangular_indices_chunk does *)
Theorem src_calculate_bad_chunk : forall (n k c : Z) t, chunk_checked n k c = Err t ->
  src_calculate_pairwise V vzero visz Th Pr n get_theta predict dist k c = Err t.
Proof. intros n k c t H. unfold src_calculate_pairwise. now rewrite src_chunk_is_model, H. Qed.
End Calc.

(* ---- save / load (h5py calls as primitives over the record of the file's four datasets) ---- *)
Theorem src_save_is_model : forall st, src_cdm_save V vzero visz st = Ok (file_of_storage st).
Proof. reflexivity. Qed.

(* loading what save wrote rebuilds the object over fresh storage (the same construction as combine's copy): it is
   well formed and represents the same matrix - the model's dm_load (dm_save m) = m *)
Lemma src_load_of_saved st : ok st -> src_cdm_load V vzero visz (file_of_storage st) = Ok (composed1 st).
Proof.
  intros Hok. destruct (comp_chunk_bounds st Hok) as [B1 B2]. pose proof Hok as (H1 & H2 & H3 & H4 & H5).
  unfold src_cdm_load, file_of_storage, h5_first, h5_dataset. cbn [f_rows f_cols f_vals f_size res_bind].
  change (list_get [c_size st] 0) with (Ok (c_size st) : result Z). cbn [res_bind].
  assert (EL : Z.of_nat (length (np_prefix (c_vals st) (c_cur st))) = c_cur st)
    by (rewrite np_prefix_nonneg, firstn_length, Nat.min_l by lia; lia).
  rewrite EL. rewrite combine_init by exact Hok. cbn [res_bind].
  unfold cdm_store_rows, cdm_store_cols, cdm_store_vals.
  cbn [cdm_fresh c_rows c_cols c_vals set_c_rows set_c_cols set_c_vals c_size c_chunk c_cur].
  rewrite np_store_prefix_ok by (rewrite ?repeat_length; lia).
  cbn [res_bind cdm_fresh c_rows c_cols c_vals set_c_rows set_c_cols set_c_vals c_size c_chunk c_cur].
  rewrite np_store_prefix_ok by (rewrite ?repeat_length; lia).
  cbn [res_bind cdm_fresh c_rows c_cols c_vals set_c_rows set_c_cols set_c_vals c_size c_chunk c_cur].
  rewrite np_store_prefix_ok by (rewrite ?repeat_length; lia).
  cbn [res_bind cdm_fresh c_rows c_cols c_vals set_c_rows set_c_cols set_c_vals set_c_cur c_size c_chunk c_cur].
  reflexivity.
Qed.

Theorem src_load_save_is_model : forall st, ok st ->
  refines (dor f <- src_cdm_save V vzero visz st; src_cdm_load V vzero visz f) (Ok (dm_load V (dm_save V (abs st)))).
Proof.
  intros st Hok. rewrite src_save_is_model. cbn [res_bind]. rewrite src_load_of_saved by exact Hok.
  cbn [storage_refines]. destruct (composed1_ok st Hok) as [C1 C2]. split; [exact C1 | rewrite C2; reflexivity].
Qed.
End Mat.
