(* C16: the hand-written model Policy.filter_eligible equals the translation of
   KPerSamplePlatePolicy.filter_eligible_plates regenerated from /repo on every run
   (Generated/SrcPolicy.v, by harness/py2gal.py), for all inputs. *)
From Coq Require Import ZArith List Bool Lia.
From Batchie Require Import Lib.Sexp Lib.PyRt Model.Policy Generated.SrcPolicy Proofs.PyRtLemmas.
Import ListNotations.
Open Scope Z_scope.

Lemma dict_incr_incr d s : dict_incr d s 1 = incr d s.
Proof.
  induction d as [|[k v] d IH]; cbn [dict_incr incr]; [reflexivity|].
  destruct (k =? s); [reflexivity | now rewrite IH].
Qed.

Lemma count_loop ps d0 :
  fold_left (fun d p => dict_incr d (sample_of p) 1) ps d0 = fold_left (fun d p => incr d (sample_of p)) ps d0.
Proof.
  revert d0; induction ps as [|p ps IH]; intros d0; cbn [fold_left]; [reflexivity|].
  now rewrite dict_incr_incr, IH.
Qed.

Lemma mem_zmem x l : mem x l = zmem x l.
Proof. reflexivity. Qed.

(* the set built by the `insufficient` loop has the members of the model's list *)
Lemma insuff_loop k d : forall s0 x,
  zmem x (fold_left (fun s (kv : Z * Z) => if snd kv <? k then set_add s (fst kv) else s) d s0)
  = zmem x s0 || mem x (insufficient k d).
Proof.
  unfold insufficient. induction d as [|[a v] d IH]; intros s0 x; cbn [fold_left filter map].
  - cbn. now rewrite orb_false_r.
  - rewrite IH. cbn [fst snd]. destruct (v <? k); cbn [map mem existsb].
    + rewrite zmem_set_add. fold (mem x (map fst (filter (fun sv => snd sv <? k) d))). now rewrite orb_assoc.
    + reflexivity.
Qed.

Lemma dict_mem_keys x d : dict_mem x d = mem x (map fst d).
Proof. unfold dict_mem, mem. induction d as [|[a v] d IH]; cbn; [reflexivity | now rewrite IH]. Qed.

Lemma chosen_loop k d o :
  fold_left (fun (acc : option Z) (kv : Z * Z) => if snd kv <? k then Some (fst kv) else acc) d o
  = fold_left (fun acc sv => if snd sv <? k then Some (fst sv) else acc) d o.
Proof. reflexivity. Qed.

Theorem src_filter_eligible_is_model : forall k batch remaining,
  src_filter_eligible_plates k batch remaining = filter_eligible k batch remaining.
Proof.
  intros k b r. unfold src_filter_eligible_plates, filter_eligible.
  rewrite (res_fold_check single 1) by (intros u a; unfold single; destruct (n_unique (rows a) =? 1); reflexivity).
  destruct (forallb single (b ++ r)); cbn [res_bind]; [|reflexivity].
  rewrite (res_fold_pure _ (fun d p => dict_incr d (sample_of p) 1)) by reflexivity.
  cbn [res_bind]. rewrite count_loop. fold (count_samples r).
  rewrite (res_fold_pure _ (fun s (kv : Z * Z) => if snd kv <? k then set_add s (fst kv) else s))
    by (intros s [a v]; cbn [fst snd]; destruct (v <? k); reflexivity).
  cbn [res_bind].
  rewrite (res_fold_pure _ (fun d p => dict_incr d (sample_of p) 1)) by reflexivity.
  cbn [res_bind]. rewrite count_loop. fold (count_samples b).
  rewrite (res_fold_pure _ (fun (acc : option Z) (kv : Z * Z) => if snd kv <? k then Some (fst kv) else acc))
    by (intros s [a v]; cbn [fst snd]; destruct (v <? k); reflexivity).
  cbn [res_bind]. unfold dict_items. fold (sample_chosen k (count_samples b)).
  destruct (sample_chosen k (count_samples b)) as [c|] eqn:Ec; cbn [is_some].
  - rewrite (res_fold_pure _ (fun res p => if sample_of p =? c then res ++ [p] else res))
      by (intros s a; cbn [unwrap res_bind]; destruct (sample_of a =? c); reflexivity).
    cbn [res_bind]. now rewrite fold_append_filter.
  - rewrite (res_fold_pure _ (fun res p =>
        if negb (zmem (sample_of p)
                   (fold_left (fun s (kv : Z * Z) => if snd kv <? k then set_add s (fst kv) else s) (count_samples r) []))
           && negb (dict_mem (sample_of p) (count_samples b))
        then res ++ [p] else res))
      by (intros s a; match goal with |- context [if ?c then _ else _] => destruct c end; reflexivity).
    cbn [res_bind]. rewrite fold_append_filter. cbn [app]. f_equal.
    apply filter_ext. intros p. rewrite insuff_loop, dict_mem_keys. reflexivity.
Qed.
