(* C08 proofs, part 6: sample_mvn_from_precision.  For lower-triangular L with non-zero diagonal
   and L L^T = Q, the result x of the two triangular solves satisfies L^T (x - m) = z with
   Q m = b: at z = 0 the result is the mean Q^-1 b, and z |-> x - m is L^-T, so the covariance of
   x for standard-normal z is L^-T L^-1 = Q^-1. *)
From Coq Require Import ZArith List QArith Qcanon Lia Arith Bool.
From Batchie Require Import Lib.Num Lib.NumP Model.Gibbs Model.Mvn Proofs.C08Sums Proofs.C08Mgp.
Import ListNotations.
Open Scope Qc_scope.

Lemma vnth_app1 a b k : (k < length a)%nat -> vnth (a ++ b) k = vnth a k.
Proof. intros H. unfold vnth. now apply app_nth1. Qed.
Lemma vnth_middle a x : vnth (a ++ [x]) (length a) = x.
Proof. unfold vnth. apply nth_middle. Qed.

Section Mvn.
Variable D : nat.
Variable L : list (list Qc).
Notation Lx j k := (vnth (rnth L j) k).
Hypothesis L_lower : forall j k, (j < k)%nat -> (k < D)%nat -> Lx j k = 0.
Hypothesis L_diag : forall j, (j < D)%nat -> Lx j j <> 0.

(* ---------------------------------------------------------------- back substitution: L^T x = z *)
Lemma back_go_spec z : forall j acc,
  (j <= D)%nat -> length acc = (D - j)%nat ->
  let X := back_go D L z j acc in
  length X = D /\
  (forall t, (t < D - j)%nat -> vnth X (j + t) = vnth acc t) /\
  (forall i, (i < j)%nat ->
     Lx i i * vnth X i + sumn (D - S i) (fun t => Lx (S i + t) i * vnth X (S i + t)) = vnth z i).
Proof.
  induction j as [|j IH]; intros acc Hj Hl X; subst X; cbn [back_go].
  - split; [lia|split; [intros t Ht; reflexivity|intros i Hi; lia]].
  - set (xj := (vnth z j - sumn (D - S j) (fun t => Lx (S j + t) j * vnth acc t)) / Lx j j).
    destruct (IH (xj :: acc)) as (H1 & H2 & H3); [lia|cbn [length]; lia|].
    split; [exact H1|split].
    + intros t Ht. replace (S j + t)%nat with (j + S t)%nat by lia. rewrite H2 by lia. reflexivity.
    + intros i Hi. destruct (Nat.eq_dec i j) as [->|Hne]; [|apply H3; lia].
      replace (vnth (back_go D L z j (xj :: acc)) j) with xj.
      2:{ replace j with (j + 0)%nat at 2 by lia. rewrite H2 by lia. reflexivity. }
      rewrite (sumn_ext (D - S j) (fun t => Lx (S j + t) j * vnth (back_go D L z j (xj :: acc)) (S j + t))
                                  (fun t => Lx (S j + t) j * vnth acc t)).
      * unfold xj. field. apply L_diag. lia.
      * intros t Ht. replace (S j + t)%nat with (j + S t)%nat by lia. rewrite H2 by lia. reflexivity.
Qed.

Theorem back_subst_correct z j :
  (j < D)%nat -> sumn D (fun k => Lx k j * vnth (back_subst D L z) k) = vnth z j.
Proof.
  intros Hj. unfold back_subst.
  destruct (back_go_spec z D []) as (_ & _ & H3); [lia|cbn [length]; lia|].
  rewrite <- (H3 j Hj).
  rewrite (sumn_split D j) by lia. rewrite (sumn_zero' j) by (intros k Hk; rewrite L_lower by lia; ring).
  replace (D - j)%nat with (S (D - S j)) by lia.
  generalize (back_go D L z D []) as X. intros X.
  assert (Hs : forall m f, sumn (S m) f = f 0%nat + sumn m (fun t => f (S t))).
  { intros m f. induction m as [|m IH]; [rewrite sumn_S, !sumn_0; ring|]. rewrite sumn_S, IH, sumn_S. ring. }
  rewrite Hs. rewrite Nat.add_0_r.
  rewrite (sumn_ext (D - S j) (fun t => Lx (j + S t) j * vnth X (j + S t)) (fun t => Lx (S j + t) j * vnth X (S j + t)))
    by (intros t _; replace (j + S t)%nat with (S j + t)%nat by lia; reflexivity).
  ring.
Qed.

(* ---------------------------------------------------------------- forward substitution: L w = b *)
Lemma fwd_go_spec : forall rows bs acc,
  length rows = length bs ->
  (forall i, (i < length rows)%nat -> vnth (nth i rows []) (length acc + i) <> 0) ->
  let X := fwd_go rows bs acc in
  length X = (length acc + length rows)%nat /\
  (forall t, (t < length acc)%nat -> vnth X t = vnth acc t) /\
  (forall i, (i < length rows)%nat ->
     vdot (length acc + i) (nth i rows []) X + vnth (nth i rows []) (length acc + i) * vnth X (length acc + i) = vnth bs i).
Proof.
  induction rows as [|r rows IH]; intros bs acc Hl Hd X; subst X.
  - cbn [fwd_go length]. split; [lia|split; [intros; reflexivity|intros i Hi; lia]].
  - destruct bs as [|bj bs]; [cbn in Hl; lia|]. cbn [fwd_go].
    set (wj := (bj - vdot (length acc) r acc) / vnth r (length acc)).
    destruct (IH bs (acc ++ [wj])) as (H1 & H2 & H3).
    + cbn [length] in Hl. lia.
    + intros i Hi. rewrite app_length. cbn [length]. replace (length acc + 1 + i)%nat with (length acc + S i)%nat by lia.
      apply (Hd (S i)). cbn [length]. lia.
    + rewrite app_length in *. cbn [length] in *. split; [|split].
      * lia.
      * intros t Ht. rewrite H2 by lia. now apply vnth_app1.
      * intros i Hi. destruct i as [|i].
        -- cbn [nth]. rewrite Nat.add_0_r.
           assert (Hw : vnth (fwd_go rows bs (acc ++ [wj])) (length acc) = wj).
           { rewrite H2 by lia. apply vnth_middle. }
           rewrite Hw.
           assert (Hv : vdot (length acc) r (fwd_go rows bs (acc ++ [wj])) = vdot (length acc) r acc).
           { unfold vdot. apply sumn_ext; intros k Hk. rewrite H2 by lia. now rewrite vnth_app1 by exact Hk. }
           rewrite Hv. change (vnth (bj :: bs) 0) with bj. unfold wj. field.
           specialize (Hd 0%nat). cbn [nth length] in Hd. rewrite Nat.add_0_r in Hd. apply Hd. lia.
        -- cbn [nth]. replace (length acc + S i)%nat with (length acc + 1 + i)%nat by lia. change (vnth (bj :: bs) (S i)) with (vnth bs i).
           apply H3. lia.
Qed.

Hypothesis L_len : length L = D.

Theorem fwd_subst_correct b j :
  length b = D -> (j < D)%nat -> sumn D (fun k => Lx j k * vnth (fwd_subst L b) k) = vnth b j.
Proof.
  intros Hb Hj. unfold fwd_subst.
  destruct (fwd_go_spec L b []) as (_ & _ & H3); [lia|cbn [length]; intros i Hi; apply L_diag; lia|].
  cbn [length Nat.add] in H3. rewrite <- (H3 j) by lia. fold (rnth L j).
  generalize (fwd_go L b []) as X. intros X.
  rewrite (sumn_split D j) by lia. replace (D - j)%nat with (S (D - S j)) by lia.
  assert (Hs : forall m f, sumn (S m) f = f 0%nat + sumn m (fun t => f (S t))).
  { intros m f. induction m as [|m IH]; [rewrite sumn_S, !sumn_0; ring|]. rewrite sumn_S, IH, sumn_S. ring. }
  rewrite Hs, Nat.add_0_r. rewrite (sumn_zero' (D - S j)) by (intros t Ht; rewrite L_lower by lia; ring).
  unfold vdot. ring.
Qed.

(* ---------------------------------------------------------------- the sampler *)
Variable Q : list (list Qc).
Hypothesis Q_chol : forall j k, (j < D)%nat -> (k < D)%nat -> vnth (rnth Q j) k = sumn D (fun t => Lx j t * Lx k t).

Theorem mvn_mean_solves b j :
  length b = D -> (j < D)%nat -> sumn D (fun k => vnth (rnth Q j) k * vnth (mvn_mean D L b) k) = vnth b j.
Proof.
  intros Hb Hj. rewrite <- (fwd_subst_correct b j Hb Hj).
  rewrite (sumn_ext D _ (fun k => sumn D (fun t => Lx j t * (Lx k t * vnth (mvn_mean D L b) k)))).
  - rewrite sumn_swap. apply sumn_ext; intros t Ht. rewrite sumn_scale. f_equal.
    unfold mvn_mean. now apply back_subst_correct.
  - intros k Hk. rewrite Q_chol by assumption.
    transitivity (vnth (mvn_mean D L b) k * sumn D (fun t => Lx j t * Lx k t)); [ring|].
    rewrite <- sumn_scale. apply sumn_ext; intros t _. ring.
Qed.

Theorem mvn_sample_law z b j :
  (j < D)%nat ->
  sumn D (fun k => Lx k j * (vnth (sample_mvn D L z b) k - vnth (mvn_mean D L b) k)) = vnth z j.
Proof.
  intros Hj. rewrite <- (back_subst_correct z j Hj). apply sumn_ext; intros k Hk.
  unfold sample_mvn, vadd. rewrite vnth_tab by exact Hk. f_equal. ring.
Qed.
End Mvn.
