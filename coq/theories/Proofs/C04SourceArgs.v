(* The argument-handling glue of train_model: the statements of get_args() after parser.parse_args(), and main() as a
   whole command.  The hand-written models Cli.tm_get_args / cli_train_model_cmd equal the translations of the functions
   of /repo, regenerated on every run (Generated/SrcCliArgs.v, configurations ARGS_GET_ARGS_TM / ARGS_CMD_TM of
   harness/src_functions.py), for every introspection record, every record of string primitives, every constructor and
   library record, and all raw namespaces. *)
From Coq Require Import ZArith List Bool Lia.
From Batchie Require Import Lib.Sexp Lib.PyRt Model.Cli Generated.SrcCli Generated.SrcCliArgs Proofs.PyRtLemmas
  Proofs.C04SourceCli Proofs.C18SourceArgs_Cast Proofs.C18SourceIntrospect.
Import ListNotations.
Open Scope Z_scope.

Theorem src_tm_get_args_is_model : forall (Cls F O : Type) (I : introspect Cls) (P : pyprims F O) (raw : tm_ns Cls F O),
  src_tm_get_args Cls F O I P raw = tm_get_args I P raw.
Proof.
  intros. unfold src_tm_get_args, tm_get_args. cbv zeta.
  rewrite <- (resolve_block I P BBayesianModel (tm_model raw) (tm_model_param raw)
                (fun c ps => Ok (tm_set_model_cls (tm_set_model_params raw ps) c))).
  unfold s_batchie.
  destruct (i_get_class I [98; 97; 116; 99; 104; 105; 101] (tm_model raw) BBayesianModel) as [c|e]; cbn [res_bind]; [|reflexivity].
  destruct (i_required I c) as [req|e]; cbn [res_bind]; [|reflexivity].
  destruct (negb (opt_list_truthy (tm_model_param raw))); cbn [res_bind]; [reflexivity|].
  destruct (unwrap (tm_model_param raw)) as [u|e]; cbn [res_bind]; [|reflexivity].
  destruct (src_cast_dict_to_type F O P u req); reflexivity.
Qed.

Theorem src_cli_train_model_cmd_is_model :
  forall (Cls F O : Type) (I : introspect Cls) (P : pyprims F O) (Scr Sub Sp Mo Th : Type)
         (construct : Cls -> list (str * pval F O) -> result Mo) (L : tm_lib Scr Sub Sp (list (str * pval F O)) Mo Th)
         (raw : tm_ns Cls F O),
  src_cli_train_model_cmd Cls F O I P Scr Sub Sp Mo Th construct L raw = cli_train_model_cmd I P construct L raw.
Proof.
  intros. unfold src_cli_train_model_cmd, cli_train_model_cmd. cbv zeta.
  rewrite src_tm_get_args_is_model.
  destruct (tm_get_args I P raw) as [a|e]; cbn [res_bind]; [|reflexivity].
  rewrite <- C04SourceCli.src_cli_train_model_is_model.
  unfold SrcCli.src_cli_train_model, instantiate. cbv zeta.
  cbn [tm_with_construct tm_load_screen tm_from_screen tm_set_space tm_construct tm_new_holder tm_subset_observed
       tm_add_observations tm_sample tm_model_cls tm_model_params tm_set_model_params tm_plain].
  destruct (tm_load_screen L (tm_data (tm_plain a))) as [s|e]; cbn [res_bind]; [|reflexivity].
  destruct (tm_from_screen L s); cbn [res_bind]; [|reflexivity].
  destruct (unwrap (tm_model_cls a)); cbn [res_bind]; reflexivity.
Qed.

Theorem src_cli_train_model_cmd_world :
  forall (Mod Obj F O : Type) (W : pyworld Mod Obj) (P : pyprims F O) (Scr Sub Sp Mo Th : Type)
         (construct : Obj -> list (str * pval F O) -> result Mo) (L : tm_lib Scr Sub Sp (list (str * pval F O)) Mo Th)
         (raw : tm_ns Obj F O),
  src_cli_train_model_cmd Obj F O (introspect_src W) P Scr Sub Sp Mo Th construct L raw
  = cli_train_model_cmd (introspect_of W) P construct L raw.
Proof.
  intros. rewrite src_cli_train_model_cmd_is_model.
  unfold cli_train_model_cmd, tm_get_args. now rewrite resolve_src.
Qed.
