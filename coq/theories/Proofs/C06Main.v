(* C06 proofs, part 4: the statements of Props/C06.v in their final, unfolded form. *)
From Coq Require Import ZArith List Arith Lia Bool Sorted Permutation.
From Batchie Require Import Lib.ListX Lib.Sexp Model.Scores Proofs.C06Split Proofs.C06Rows Proofs.C06Select.
Import ListNotations.
Open Scope Z_scope.

Lemma array_split_sizes_all {A} (l : list A) (n : nat) : (0 < n)%nat ->
  length (array_split l n) = n /\
  forall k, (k < n)%nat ->
    length (nth k (array_split l n) []) = (length l / n + (if k <? length l mod n then 1 else 0))%nat.
Proof. intros Hn. split; [apply array_split_length|]. intros k Hk. now apply array_split_sizes. Qed.

Definition is_candidate (s : screen) (batch : list Z) (pid : Z) : Prop :=
  In pid (map r_plate s) /\ (exists r, In r s /\ r_plate r = pid /\ r_obs r = false) /\ ~ In pid batch.

Lemma chunks_cover_once s batch (n : nat) :
  (0 < n)%nat -> batch_valid s batch ->
  exists pss,
    res_map_all (score_chunk s batch (Z.of_nat n)) (map Z.of_nat (seq 0 n)) = Ok pss /\
    NoDup (map fst (concat pss)) /\
    forall pid, In pid (map fst (concat pss)) <-> is_candidate s batch pid.
Proof.
  intros Hn Hb. destruct (chunks_partition s batch n Hn Hb) as (pss & E & _ & Hids).
  exists pss. split; [exact E|]. rewrite Hids. destruct (candidates_spec s batch) as [Hs Hin].
  split; [now apply StronglySorted_lt_NoDup|exact Hin].
Qed.

Lemma unconditioned_rows s n k ps pid rows :
  score_chunk s [] n k = Ok ps -> In (pid, rows) ps ->
  rows = sub_rows s (Z.eqb pid) /\
  (forall i r, In (i, r) rows <-> nth_error s i = Some r /\ r_plate r = pid) /\
  StronglySorted lt (map fst rows).
Proof.
  intros E Hin. destruct (handed_rows _ _ _ _ _ _ _ E Hin) as [_ ->].
  split; [reflexivity|]. split; [|apply sub_rows_positions_ascending].
  intros i r. rewrite sub_rows_In, Z.eqb_eq. intuition congruence.
Qed.

Lemma conditioned_rows s batch n k ps pid rows :
  batch <> [] -> score_chunk s batch n k = Ok ps -> In (pid, rows) ps ->
  let union := union_rows s batch pid in
  rows = uniq_first [] union /\
  (forall i r, In (i, r) union <-> nth_error s i = Some r /\ (r_plate r = pid \/ In (r_plate r) batch)) /\
  StronglySorted lt (map fst union) /\
  NoDup (map row_key rows) /\
  (forall key, In key (map row_key rows) <-> In key (map row_key union)) /\
  (forall x, In x rows -> In x union).
Proof.
  intros Hne E Hin. destruct (handed_rows _ _ _ _ _ _ _ E Hin) as [_ Hrows].
  destruct batch as [|b0 b']; [congruence|]. subst rows.
  destruct (conditioned_spec s (b0 :: b') pid) as (H1 & H2 & H3 & H4 & H5 & _).
  cbv zeta. split; [reflexivity|]. split; [exact H1|]. split; [exact H2|]. split; [exact H3|].
  split; [exact H4|exact H5].
Qed.

Lemma conditioned_first_occurrence s batch pid pre x post :
  union_rows s batch pid = pre ++ x :: post ->
  (In x (conditioned s batch pid) <-> ~ In (row_key x) (map row_key pre)).
Proof.
  intros E. destruct (conditioned_spec s batch pid) as (_ & _ & _ & _ & _ & H). exact (H pre x post E).
Qed.

Lemma select_sound_rows scorer policy s batch n order :
  (forall f, policy = Some f -> forall b c, incl (f b c) c) ->
  1 <= n -> batch_valid s batch ->
  (forall k, 0 <= k < n -> In k order) -> (forall k, In k order -> 0 <= k < n) ->
  exists r, pipeline scorer policy s batch n order = Ok r /\
    match r with
    | None => eligible_plates policy s batch = []
    | Some pid =>
        is_candidate s batch pid /\
        In pid (map p_id (eligible_plates policy s batch)) /\
        forall q, In q (eligible_plates policy s batch) ->
          plate_score scorer s batch pid <= plate_score scorer s batch (p_id q)
    end.
Proof.
  intros H1 H2 H3 H4 H5. destruct (select_sound scorer policy s batch n order H1 H2 H3 H4 H5) as (r & E & Hp).
  exists r. split; [exact E|]. destruct r as [pid|]; [|exact Hp].
  destruct Hp as (Hc & He & Hmin). split; [|now split]. now apply candidates_spec.
Qed.

Lemma select_sound_perm_rows scorer policy s batch (n : nat) order :
  (forall f, policy = Some f -> forall b c, incl (f b c) c) ->
  (0 < n)%nat -> batch_valid s batch ->
  Permutation order (map Z.of_nat (seq 0 n)) ->
  exists r, pipeline scorer policy s batch (Z.of_nat n) order = Ok r /\
    match r with
    | None => eligible_plates policy s batch = []
    | Some pid =>
        is_candidate s batch pid /\
        In pid (map p_id (eligible_plates policy s batch)) /\
        forall q, In q (eligible_plates policy s batch) ->
          plate_score scorer s batch pid <= plate_score scorer s batch (p_id q)
    end.
Proof.
  intros Hpol Hn Hb Hperm. apply select_sound_rows; try assumption; [lia| |].
  - intros k Hk. apply (Permutation_in _ (Permutation_sym Hperm)).
    apply in_map_iff. exists (Z.to_nat k). split; [lia|]. apply in_seq. lia.
  - intros k Hk. apply (Permutation_in _ Hperm) in Hk. apply in_map_iff in Hk.
    destruct Hk as (j & <- & Hj). apply in_seq in Hj. lia.
Qed.

(* no policy: None iff there is no candidate at all *)
Lemma none_iff_no_policy scorer s batch n order :
  1 <= n -> batch_valid s batch ->
  (forall k, 0 <= k < n -> In k order) -> (forall k, In k order -> 0 <= k < n) ->
  (pipeline scorer None s batch n order = Ok None <-> forall pid, ~ is_candidate s batch pid).
Proof.
  intros H2 H3 H4 H5.
  rewrite (none_iff scorer None s batch n order ltac:(discriminate) H2 H3 H4 H5).
  unfold eligible_plates. split.
  - intros E pid Hc. apply candidates_spec in Hc. rewrite E in Hc. contradiction.
  - intros H. destruct (candidates s batch) as [|p l] eqn:E; [reflexivity|].
    exfalso. apply (H (p_id p)). apply candidates_spec. rewrite E. now left.
Qed.
