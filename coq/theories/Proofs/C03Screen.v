(* C03 / C12: inversion and construction lemmas for the Screen constructor [mk_screen], the
   characterisation of [plate_uniform], and the column-major flatten / unflatten round trip. *)
From Coq Require Import ZArith List Bool Lia Arith.
From Batchie Require Import Lib.Sexp Generated.Consts Model.Encode Model.Screen Proofs.C03Base.
Import ListNotations.
Open Scope Z_scope.

(* the rows the constructor stores: mask / observations defaulted as the arguments say *)
Definition norm_rows (og mg : bool) (rows : list row) : list row :=
  if og then
    (if mg then rows
     else map (fun r => {| r_sample := r_sample r; r_plate := r_plate r; r_treats := r_treats r;
                           r_obs := r_obs r; r_mask := true |}) rows)
  else map (fun r => {| r_sample := r_sample r; r_plate := r_plate r; r_treats := r_treats r;
                        r_obs := 0; r_mask := false |}) rows.

Definition arity_ok (a : nat) (rows : list row) : bool :=
  forallb (fun r => Nat.eqb (length (r_treats r)) a) rows.
Definition tmap_bad (tm : option (tmapping * bool)) : bool :=
  match tm with Some (m, isint) => negb (zero_indexed isint (map snd m)) | None => false end.
Definition smap_bad (sm : option (nmapping * bool)) : bool :=
  match sm with Some (m, isint) => negb (zero_indexed isint (map snd m)) | None => false end.

Definition the_tkeys (a : nat) (rows : list row) : list tkey := flatten_cols ([], 0) a (map r_treats rows).

Lemma mk_screen_unfold rows a c tm sm og mg :
  mk_screen rows a c tm sm og mg =
  if negb (arity_ok a rows) then Err 1
  else if negb og && mg then Err 7
  else
    let rows' := norm_rows og mg rows in
    if negb (plate_uniform rows') then Err 2
    else if tmap_bad tm then Err 3
    else if smap_bad sm then Err 4
    else
      dor te <- encode_treatments (the_tkeys a rows') c (option_map fst tm);
      let '(tflat, tmp) := te in
      dor se <- encode_names (map r_sample rows') (option_map fst sm) 6;
      let '(sids, smp) := se in
      dor pe <- encode_names (map r_plate rows') None 6;
      let '(pids, pmp) := pe in
      Ok {| s_rows := rows'; s_arity := a; s_ctrl := c;
            s_tmap := tmp; s_smap := smp; s_pmap := pmp;
            s_tids := unflatten_cols a (length rows') tflat;
            s_sids := sids; s_pids := pids |}.
Proof. reflexivity. Qed.

Record built (rows : list row) (a : nat) (c : name) (tm : option (tmapping * bool))
  (sm : option (nmapping * bool)) (og mg : bool) (s : screen) (tflat : list Z) : Prop := {
  b_arity_ok : arity_ok a rows = true;
  b_flags : negb og && mg = false;
  b_uniform : plate_uniform (norm_rows og mg rows) = true;
  b_tmap_ok : tmap_bad tm = false;
  b_smap_ok : smap_bad sm = false;
  b_treats : encode_treatments (the_tkeys a (norm_rows og mg rows)) c (option_map fst tm) = Ok (tflat, s_tmap s);
  b_samples : encode_names (map r_sample (norm_rows og mg rows)) (option_map fst sm) 6 = Ok (s_sids s, s_smap s);
  b_plates : encode_names (map r_plate (norm_rows og mg rows)) None 6 = Ok (s_pids s, s_pmap s);
  b_rows : s_rows s = norm_rows og mg rows;
  b_ar : s_arity s = a;
  b_ctrl : s_ctrl s = c;
  b_tids : s_tids s = unflatten_cols a (length (norm_rows og mg rows)) tflat
}.

Lemma mk_screen_inv rows a c tm sm og mg s :
  mk_screen rows a c tm sm og mg = Ok s -> exists tflat, built rows a c tm sm og mg s tflat.
Proof.
  rewrite mk_screen_unfold.
  destruct (arity_ok a rows) eqn:E1; cbn [negb]; [|discriminate].
  destruct (negb og && mg) eqn:E2; [discriminate|].
  cbv zeta.
  destruct (plate_uniform (norm_rows og mg rows)) eqn:E3; cbn [negb]; [|discriminate].
  destruct (tmap_bad tm) eqn:E4; [discriminate|].
  destruct (smap_bad sm) eqn:E5; [discriminate|].
  destruct (encode_treatments _ c (option_map fst tm)) as [[tflat tmp]|] eqn:E6; cbn [res_bind]; [|discriminate].
  destruct (encode_names (map r_sample _) (option_map fst sm) 6) as [[sids smp]|] eqn:E7; cbn [res_bind]; [|discriminate].
  destruct (encode_names (map r_plate _) None 6) as [[pids pmp]|] eqn:E8; cbn [res_bind]; [|discriminate].
  intros H. inversion H; subst s; clear H. exists tflat.
  constructor; cbn [s_rows s_arity s_ctrl s_tmap s_smap s_pmap s_tids s_sids s_pids]; auto.
Qed.

Lemma mk_screen_ok rows a c tm sm og mg tflat tmp sids smp pids pmp :
  arity_ok a rows = true -> negb og && mg = false ->
  plate_uniform (norm_rows og mg rows) = true -> tmap_bad tm = false -> smap_bad sm = false ->
  encode_treatments (the_tkeys a (norm_rows og mg rows)) c (option_map fst tm) = Ok (tflat, tmp) ->
  encode_names (map r_sample (norm_rows og mg rows)) (option_map fst sm) 6 = Ok (sids, smp) ->
  encode_names (map r_plate (norm_rows og mg rows)) None 6 = Ok (pids, pmp) ->
  mk_screen rows a c tm sm og mg =
  Ok {| s_rows := norm_rows og mg rows; s_arity := a; s_ctrl := c; s_tmap := tmp; s_smap := smp; s_pmap := pmp;
        s_tids := unflatten_cols a (length (norm_rows og mg rows)) tflat; s_sids := sids; s_pids := pids |}.
Proof.
  intros E1 E2 E3 E4 E5 E6 E7 E8. rewrite mk_screen_unfold, E1, E2. cbn [negb]. cbv zeta.
  rewrite E3, E4, E5, E6. cbn [negb res_bind]. rewrite E7. cbn [res_bind]. rewrite E8. reflexivity.
Qed.

(* a screen some constructor call returned *)
Definition constructed (s : screen) : Prop :=
  exists rows a c tm sm og mg, mk_screen rows a c tm sm og mg = Ok s.

(* ---------- norm_rows ---------- *)
Lemma norm_rows_tt rows : norm_rows true true rows = rows.
Proof. reflexivity. Qed.

Lemma norm_rows_length og mg rows : length (norm_rows og mg rows) = length rows.
Proof. unfold norm_rows. destruct og, mg; now rewrite ?map_length. Qed.

Lemma norm_rows_sample og mg rows : map r_sample (norm_rows og mg rows) = map r_sample rows.
Proof. unfold norm_rows. destruct og, mg; rewrite ?map_map; reflexivity. Qed.
Lemma norm_rows_plate og mg rows : map r_plate (norm_rows og mg rows) = map r_plate rows.
Proof. unfold norm_rows. destruct og, mg; rewrite ?map_map; reflexivity. Qed.
Lemma norm_rows_treats og mg rows : map r_treats (norm_rows og mg rows) = map r_treats rows.
Proof. unfold norm_rows. destruct og, mg; rewrite ?map_map; reflexivity. Qed.

Lemma arity_ok_treats a rows rows' : map r_treats rows' = map r_treats rows -> arity_ok a rows' = arity_ok a rows.
Proof.
  unfold arity_ok. revert rows'; induction rows as [|r rows IH]; intros [|r' rows'] H; cbn [map] in H; try discriminate; [reflexivity|].
  inversion H. cbn [forallb]. rewrite H1. f_equal. now apply IH.
Qed.

(* ---------- plate_uniform ---------- *)
Lemma first_mask_Some p rows b :
  first_mask p rows = Some b -> exists r, In r rows /\ r_plate r = p /\ r_mask r = b.
Proof.
  induction rows as [|r rows IH]; cbn [first_mask]; [discriminate|].
  destruct (name_eqb (r_plate r) p) eqn:E.
  - intros H; inversion H. apply name_eqb_eq in E. exists r. repeat split; auto. now left.
  - intros H. destruct (IH H) as (r' & Hin & Hp & Hm). exists r'. repeat split; auto. now right.
Qed.

Lemma first_mask_In r rows : In r rows -> exists b, first_mask (r_plate r) rows = Some b.
Proof.
  induction rows as [|r' rows IH]; cbn [first_mask In]; [tauto|].
  intros [H|H].
  - subst. rewrite name_eqb_refl. now eexists.
  - destruct (name_eqb (r_plate r') (r_plate r)); [now eexists|now apply IH].
Qed.

Lemma plate_uniform_spec rows :
  plate_uniform rows = true <->
  (forall r1 r2, In r1 rows -> In r2 rows -> r_plate r1 = r_plate r2 -> r_mask r1 = r_mask r2).
Proof.
  unfold plate_uniform. rewrite forallb_forall. split.
  - intros H r1 r2 H1 H2 Hp.
    pose proof (H r1 H1) as A1. pose proof (H r2 H2) as A2. rewrite Hp in A1.
    destruct (first_mask (r_plate r2) rows) as [b|]; [|discriminate].
    apply eqb_prop in A1. apply eqb_prop in A2. congruence.
  - intros H r Hr. destruct (first_mask_In r rows Hr) as [b Hb]. rewrite Hb.
    destruct (first_mask_Some _ _ _ Hb) as (r0 & Hin & Hp & Hm).
    rewrite <- Hm. rewrite (H r0 r Hin Hr Hp). apply eqb_reflx.
Qed.

Lemma forallb_false_exists {A} (f : A -> bool) l :
  forallb f l = false -> exists x, In x l /\ f x = false.
Proof.
  induction l as [|a l IH]; cbn [forallb]; [discriminate|].
  destruct (f a) eqn:E; cbn [andb].
  - intros H. destruct (IH H) as (x & Hx & Hf). exists x. split; [now right|exact Hf].
  - intros _. exists a. split; [now left|exact E].
Qed.

Lemma plate_uniform_false rows :
  plate_uniform rows = false ->
  exists r1 r2, In r1 rows /\ In r2 rows /\ r_plate r1 = r_plate r2 /\ r_mask r1 <> r_mask r2.
Proof.
  unfold plate_uniform. intros H.
  apply forallb_false_exists in H.
  destruct H as (r & Hr & Hneg).
  destruct (first_mask_In r rows Hr) as [b Hb]. rewrite Hb in Hneg.
  destruct (first_mask_Some _ _ _ Hb) as (r0 & Hin & Hp & Hm).
  exists r0, r. repeat split; auto. rewrite Hm. intros Heq. rewrite Heq in Hneg. now rewrite eqb_reflx in Hneg.
Qed.

(* ---------- flatten_cols / unflatten_cols ---------- *)
Lemma column_length {A} (d : A) i rows : length (column d i rows) = length rows.
Proof. unfold column. apply map_length. Qed.

Lemma nth_concat_blocks {A} (d : A) (f : nat -> list A) (n : nat) :
  (forall c, length (f c) = n) ->
  forall a start c i, (c < a)%nat -> (i < n)%nat ->
    nth (c * n + i) (concat (map f (seq start a))) d = nth i (f (start + c)%nat) d.
Proof.
  intros Hlen a. induction a as [|a IH]; intros start c i Hc Hi; [lia|].
  cbn [seq map concat]. destruct c as [|c].
  - cbn [Nat.mul Nat.add]. rewrite app_nth1 by (rewrite Hlen; lia). now rewrite Nat.add_0_r.
  - rewrite app_nth2 by (rewrite Hlen; nia). rewrite Hlen.
    replace (S c * n + i - n)%nat with (c * n + i)%nat by nia.
    rewrite IH by lia. f_equal. f_equal. lia.
Qed.

Lemma flatten_cols_nth {A} (d : A) a (rows : list (list A)) c i :
  (c < a)%nat -> (i < length rows)%nat ->
  nth (c * length rows + i) (flatten_cols d a rows) d = nth c (nth i rows []) d.
Proof.
  intros Hc Hi. unfold flatten_cols.
  rewrite (nth_concat_blocks d (fun j => column d j rows) (length rows)) by (auto using column_length).
  cbn [Nat.add]. unfold column.
  rewrite (nth_indep _ d (nth c [] d)) by (rewrite map_length; lia).
  now rewrite (map_nth (fun r => nth c r d)).
Qed.

Lemma flatten_cols_length {A} (d : A) a (rows : list (list A)) :
  length (flatten_cols d a rows) = (a * length rows)%nat.
Proof.
  unfold flatten_cols. generalize 0%nat. induction a as [|a IH]; intros st; cbn [seq map concat]; [reflexivity|].
  rewrite app_length, column_length, IH. lia.
Qed.

Lemma unflatten_cols_nth a n flat i c :
  (i < n)%nat -> (c < a)%nat ->
  nth c (nth i (unflatten_cols a n flat) []) 0 = nth (c * n + i) flat 0.
Proof.
  intros Hi Hc. unfold unflatten_cols.
  rewrite (nth_indep _ [] ((fun j => map (fun i0 => nth (i0 * n + j) flat 0) (seq 0 a)) 0%nat)) by (rewrite map_length, seq_length; lia).
  rewrite (map_nth (fun j => map (fun i0 => nth (i0 * n + j) flat 0) (seq 0 a))).
  rewrite seq_nth by lia. cbn [Nat.add].
  rewrite (nth_indep _ 0 ((fun i0 => nth (i0 * n + i) flat 0) 0%nat)) by (rewrite map_length, seq_length; lia).
  rewrite (map_nth (fun i0 => nth (i0 * n + i) flat 0)). rewrite seq_nth by lia. reflexivity.
Qed.

Lemma unflatten_cols_length a n flat : length (unflatten_cols a n flat) = n.
Proof. unfold unflatten_cols. now rewrite map_length, seq_length. Qed.
