(* C01 proofs, part 2: the encoders. *)
From Coq Require Import ZArith List Lia Bool Sorted Permutation.
From Batchie Require Import Lib.Sexp Generated.Consts Model.Encode Proofs.C01Sort.
Import ListNotations.
Open Scope Z_scope.

(* the constant read from the source on every run *)
Lemma sentinel_is_minus_one : CONTROL_SENTINEL_VALUE = -1.
Proof. reflexivity. Qed.

Definition zseq (s : Z) (n : nat) : list Z := map (fun i => s + Z.of_nat i) (seq 0 n).

Lemma zseq_S s n : zseq s (S n) = s :: zseq (s + 1) n.
Proof.
  unfold zseq. cbn [seq map]. f_equal; [lia|].
  rewrite <- seq_shift, map_map. apply map_ext. intros i. lia.
Qed.

Lemma zseq_In s n z : In z (zseq s n) <-> s <= z < s + Z.of_nat n.
Proof.
  unfold zseq. rewrite in_map_iff. split.
  - intros (i & <- & Hi). apply in_seq in Hi. lia.
  - intros H. exists (Z.to_nat (z - s)). split; [lia|apply in_seq; lia].
Qed.

Lemma zseq_0 n : zseq 0 n = map Z.of_nat (seq 0 n).
Proof. unfold zseq. apply map_ext. intros; lia. Qed.

Lemma zseq_sorted s n : SSorted Z.compare (zseq s n).
Proof.
  revert s; induction n as [|n IH]; intros s; [constructor|].
  rewrite zseq_S. constructor; [apply IH|]. apply Forall_forall. intros z Hz.
  apply zseq_In in Hz. unfold lt. apply Z.compare_lt_iff. lia.
Qed.

Lemma zseq_length s n : length (zseq s n) = n.
Proof. unfold zseq. now rewrite map_length, seq_length. Qed.

(* ---------- treatments ---------- *)
Definition nonctrl (ctrl : name) (k : tkey) : bool := negb (is_control ctrl k).

Lemma is_control_iff ctrl k : is_control ctrl k = true <-> snd k <= 0 \/ fst k = ctrl.
Proof.
  unfold is_control. rewrite orb_true_iff, name_eqb_eq, Z.leb_le. tauto.
Qed.

Lemma assign_from_keys ctrl l : forall idx cum, map fst (assign_from ctrl idx cum l) = l.
Proof. induction l as [|k l IH]; intros; cbn [assign_from map fst]; [reflexivity|now rewrite IH]. Qed.

Lemma assign_from_ctrl ctrl l : forall idx cum e,
  In e (assign_from ctrl idx cum l) -> is_control ctrl (fst e) = true -> snd e = CONTROL_SENTINEL_VALUE.
Proof.
  induction l as [|k l IH]; intros idx cum e; cbn [assign_from In]; [tauto|].
  intros [<-|H] Hc; [cbn [fst snd] in *; now rewrite Hc|eapply IH; eassumption].
Qed.

(* the non-control entries, in order, carry the ids (idx-cum), (idx-cum)+1, ... *)
Lemma assign_from_nonctrl ctrl l : forall idx cum,
  map snd (filter (fun e => nonctrl ctrl (fst e)) (assign_from ctrl idx cum l))
  = zseq (idx - cum) (length (filter (nonctrl ctrl) l)).
Proof.
  induction l as [|k l IH]; intros idx cum; cbn [assign_from filter map]; [reflexivity|].
  cbn [fst]. destruct (is_control ctrl k) eqn:E.
  - assert (En : nonctrl ctrl k = false) by (unfold nonctrl; now rewrite E). rewrite !En.
    rewrite IH. f_equal. lia.
  - assert (En : nonctrl ctrl k = true) by (unfold nonctrl; now rewrite E). rewrite !En.
    cbn [map snd length]. rewrite zseq_S, IH. f_equal. f_equal. lia.
Qed.

Lemma filter_map_fst {A B} (p : A -> bool) (l : list (A * B)) :
  map fst (filter (fun e => p (fst e)) l) = filter p (map fst l).
Proof.
  induction l as [|[a b] l IH]; cbn [filter map fst]; [reflexivity|].
  destruct (p a); cbn [map fst]; now rewrite IH.
Qed.

Lemma assign_from_nonctrl_range ctrl l idx cum e :
  In e (assign_from ctrl idx cum l) -> is_control ctrl (fst e) = false ->
  idx - cum <= snd e < idx - cum + Z.of_nat (length (filter (nonctrl ctrl) l)).
Proof.
  intros Hin Hc. apply zseq_In. rewrite <- assign_from_nonctrl. apply in_map, filter_In.
  split; [exact Hin|unfold nonctrl; now rewrite Hc].
Qed.

(* entries with the same non-control id have the same key (ids enumerate positions) *)
Lemma assign_from_inj ctrl l : forall idx cum e1 e2,
  In e1 (assign_from ctrl idx cum l) -> In e2 (assign_from ctrl idx cum l) ->
  is_control ctrl (fst e1) = false -> is_control ctrl (fst e2) = false ->
  snd e1 = snd e2 -> e1 = e2.
Proof.
  induction l as [|k l IH]; intros idx cum e1 e2; cbn [assign_from In]; [tauto|].
  intros H1 H2 C1 C2 Heq.
  destruct (is_control ctrl k) eqn:E.
  - destruct H1 as [<-|H1]; [cbn [fst] in C1; congruence|].
    destruct H2 as [<-|H2]; [cbn [fst] in C2; congruence|].
    eapply IH; eassumption.
  - destruct H1 as [<-|H1], H2 as [<-|H2]; [reflexivity| | |eapply IH; eassumption].
    + pose proof (assign_from_nonctrl_range _ _ _ _ _ H2 C2) as R. cbn [snd] in Heq. lia.
    + pose proof (assign_from_nonctrl_range _ _ _ _ _ H1 C1) as R. cbn [snd] in Heq. lia.
Qed.

Lemma tlookup_Some m k id : tlookup m k = Some id -> In (k, id) m.
Proof.
  induction m as [|[k' id'] m IH]; cbn [tlookup]; [discriminate|].
  destruct (tkey_eqb k k') eqn:E.
  - apply tkey_eqb_eq in E. subst. intros H; inversion H; subst. now left.
  - intros H. right. now apply IH.
Qed.

Lemma tlookup_None m k : tlookup m k = None <-> ~ In k (map fst m).
Proof.
  induction m as [|[k' id'] m IH]; cbn [tlookup map fst In]; [tauto|].
  destruct (tkey_eqb k k') eqn:E.
  - apply tkey_eqb_eq in E. subst. split; [discriminate|tauto].
  - rewrite IH. assert (k' <> k) by (intros ->; assert (tkey_eqb k k = true) by (now apply tkey_eqb_eq); congruence).
    tauto.
Qed.

Lemma tlookup_NoDup m k id : NoDup (map fst m) -> In (k, id) m -> tlookup m k = Some id.
Proof.
  induction m as [|[k' id'] m IH]; cbn [tlookup map fst In]; [tauto|].
  intros Hnd [Heq|Hin]; inversion Hnd as [|? ? Hn Hnd']; subst.
  - inversion Heq; subst. assert (E : tkey_eqb k k = true) by now apply tkey_eqb_eq. now rewrite E.
  - destruct (tkey_eqb k k') eqn:E; [|now apply IH].
    apply tkey_eqb_eq in E. subst. exfalso. apply Hn. change k' with (fst (k', id)). now apply in_map.
Qed.

Lemma opt_map_all_Some {A B} (f : A -> option B) l r :
  opt_map_all f l = Some r <-> Forall2 (fun a b => f a = Some b) l r.
Proof.
  revert r; induction l as [|a l IH]; intros r; cbn [opt_map_all].
  - split; [intros H; inversion H; constructor|intros H; inversion H; reflexivity].
  - unfold opt_bind. destruct (f a) as [b|] eqn:E.
    + destruct (opt_map_all f l) as [bs|] eqn:E2.
      * split; [intros H; inversion H; subst; constructor; [exact E|now apply IH]|].
        intros H; inversion H as [|? ? ? ? Hab Hrest]; subst. apply IH in Hrest. congruence.
      * split; [discriminate|]. intros H; inversion H as [|? ? ? ? Hab Hrest]; subst.
        apply IH in Hrest. discriminate.
    + split; [discriminate|]. intros H; inversion H; subst. congruence.
Qed.

Lemma opt_map_all_None {A B} (f : A -> option B) l :
  opt_map_all f l = None <-> exists a, In a l /\ f a = None.
Proof.
  induction l as [|a l IH]; cbn [opt_map_all In].
  - split; [discriminate|intros (? & [] & _)].
  - unfold opt_bind. destruct (f a) as [b|] eqn:E.
    + destruct (opt_map_all f l) as [bs|] eqn:E2.
      * split; [discriminate|]. intros (x & [<-|Hx] & Hf); [congruence|].
        assert (Hc : Some bs = None) by (apply IH; now exists x). discriminate.
      * split; [|reflexivity]. intros _. destruct (proj1 IH eq_refl) as (x & Hx & Hf). exists x. tauto.
    + split; [|reflexivity]. intros _. exists a. tauto.
Qed.

(* the mapping built from the data *)
Section Built.
Variable ctrl : name.
Variable keys : list tkey.
Let m := build_tmapping ctrl keys.
Let su := sort_uniq tkey_cmp keys.

Lemma built_keys : map fst m = su.
Proof. apply assign_from_keys. Qed.

Lemma built_keys_NoDup : NoDup (map fst m).
Proof. rewrite built_keys. apply sort_uniq_NoDup, tkey_cmp_spec. Qed.

Lemma built_covers k : In k keys -> exists id, tlookup m k = Some id.
Proof.
  intros Hk. destruct (tlookup m k) as [id|] eqn:E; [now exists id|].
  apply tlookup_None in E. exfalso. apply E. rewrite built_keys.
  now apply (sort_uniq_In _ tkey_cmp_spec).
Qed.

Lemma built_encode_ok : exists ids, encode_treatments keys ctrl None = Ok (ids, m).
Proof.
  unfold encode_treatments. fold m.
  destruct (opt_map_all (tlookup m) keys) as [ids|] eqn:E; [now exists ids|].
  apply opt_map_all_None in E as (k & Hk & Hn). destruct (built_covers k Hk) as (id & Hid). congruence.
Qed.

(* sentinel exactly on controls *)
Lemma built_control_iff k id : In (k, id) m -> (id = CONTROL_SENTINEL_VALUE <-> is_control ctrl k = true).
Proof.
  intros Hin. split.
  - intros ->. destruct (is_control ctrl k) eqn:E; [reflexivity|].
    pose proof (assign_from_nonctrl_range ctrl su 0 0 (k, CONTROL_SENTINEL_VALUE) Hin E) as R.
    cbn [snd] in R. rewrite sentinel_is_minus_one in R. lia.
  - intros Hc. exact (assign_from_ctrl ctrl su 0 0 (k, id) Hin Hc).
Qed.

Definition n_nonctrl : nat := length (filter (nonctrl ctrl) su).

(* the non-control ids of the mapping are exactly 0 .. n-1, each once, in key order *)
Lemma built_nonctrl_ids :
  map snd (filter (fun e => nonctrl ctrl (fst e)) m) = map Z.of_nat (seq 0 n_nonctrl).
Proof.
  unfold m, build_tmapping. rewrite assign_from_nonctrl. fold su. apply zseq_0.
Qed.

Lemma built_dense z :
  (exists k, In (k, z) m /\ z <> CONTROL_SENTINEL_VALUE) <-> 0 <= z < Z.of_nat n_nonctrl.
Proof.
  split.
  - intros (k & Hin & Hne).
    assert (E : is_control ctrl k = false).
    { destruct (is_control ctrl k) eqn:E; [|reflexivity]. exfalso. apply Hne. now apply (proj2 (built_control_iff k z Hin)). }
    pose proof (assign_from_nonctrl_range ctrl su 0 0 (k, z) Hin E) as R. cbn [snd] in R. unfold n_nonctrl. lia.
  - intros Hz.
    assert (Hin : In z (map snd (filter (fun e => nonctrl ctrl (fst e)) m))).
    { rewrite built_nonctrl_ids, <- zseq_0. apply zseq_In. lia. }
    apply in_map_iff in Hin as ([k id] & Heq & Hf). cbn [snd] in Heq. subst id.
    apply filter_In in Hf as [Hin Hnc]. exists k. split; [exact Hin|].
    rewrite sentinel_is_minus_one. lia.
Qed.

Lemma built_inj k1 k2 id :
  In (k1, id) m -> In (k2, id) m -> id <> CONTROL_SENTINEL_VALUE -> k1 = k2.
Proof.
  intros H1 H2 Hne.
  assert (E1 : is_control ctrl k1 = false).
  { destruct (is_control ctrl k1) eqn:E; [|reflexivity]. exfalso. apply Hne. now apply (proj2 (built_control_iff k1 id H1)). }
  assert (E2 : is_control ctrl k2 = false).
  { destruct (is_control ctrl k2) eqn:E; [|reflexivity]. exfalso. apply Hne. now apply (proj2 (built_control_iff k2 id H2)). }
  pose proof (assign_from_inj ctrl su 0 0 (k1, id) (k2, id) H1 H2 E1 E2 eq_refl) as H. now inversion H.
Qed.

Lemma built_functional k id1 id2 : In (k, id1) m -> In (k, id2) m -> id1 = id2.
Proof.
  intros H1 H2. pose proof built_keys_NoDup as Hnd.
  apply (tlookup_NoDup m k id1 Hnd) in H1. apply (tlookup_NoDup m k id2 Hnd) in H2. congruence.
Qed.
End Built.

(* ---------- 1-d names ---------- *)
Lemma number_from_keys {A} (l : list A) : forall idx, map fst (number_from idx l) = l.
Proof. induction l as [|a l IH]; intros; cbn [number_from map fst]; [reflexivity|now rewrite IH]. Qed.

Lemma number_from_ids {A} (l : list A) : forall idx, map snd (number_from idx l) = zseq idx (length l).
Proof.
  induction l as [|a l IH]; intros idx; cbn [number_from map snd length]; [reflexivity|].
  now rewrite zseq_S, IH.
Qed.

Lemma number_from_inj {A} (l : list A) : forall idx e1 e2,
  In e1 (number_from idx l) -> In e2 (number_from idx l) -> snd e1 = snd e2 -> e1 = e2.
Proof.
  induction l as [|a l IH]; intros idx e1 e2; cbn [number_from In]; [tauto|].
  assert (R : forall e, In e (number_from (idx + 1) l) -> idx + 1 <= snd e).
  { intros e He. apply (in_map snd) in He. rewrite number_from_ids in He. apply zseq_In in He. lia. }
  intros [<-|H1] [<-|H2] Heq; [reflexivity| | |eapply IH; eassumption].
  - apply R in H2. cbn [snd] in Heq. lia.
  - apply R in H1. cbn [snd] in Heq. lia.
Qed.

Lemma nlookup_Some m k id : nlookup m k = Some id -> In (k, id) m.
Proof.
  induction m as [|[k' id'] m IH]; cbn [nlookup]; [discriminate|].
  destruct (name_eqb k k') eqn:E.
  - apply name_eqb_eq in E. subst. intros H; inversion H; subst. now left.
  - intros H. right. now apply IH.
Qed.

Lemma nlookup_None m k : nlookup m k = None <-> ~ In k (map fst m).
Proof.
  induction m as [|[k' id'] m IH]; cbn [nlookup map fst In]; [tauto|].
  destruct (name_eqb k k') eqn:E.
  - apply name_eqb_eq in E. subst. split; [discriminate|tauto].
  - rewrite IH. assert (k' <> k) by (intros ->; assert (name_eqb k k = true) by (now apply name_eqb_eq); congruence).
    tauto.
Qed.

Lemma nlookup_NoDup m k id : NoDup (map fst m) -> In (k, id) m -> nlookup m k = Some id.
Proof.
  induction m as [|[k' id'] m IH]; cbn [nlookup map fst In]; [tauto|].
  intros Hnd [Heq|Hin]; inversion Hnd as [|? ? Hn Hnd']; subst.
  - inversion Heq; subst. assert (E : name_eqb k k = true) by now apply name_eqb_eq. now rewrite E.
  - destruct (name_eqb k k') eqn:E; [|now apply IH].
    apply name_eqb_eq in E. subst. exfalso. apply Hn. change k' with (fst (k', id)). now apply in_map.
Qed.

Section BuiltN.
Variable names : list name.
Let m := build_nmapping names.
Let su := sort_uniq name_cmp names.

Lemma nbuilt_keys : map fst m = su.
Proof. apply number_from_keys. Qed.

Lemma nbuilt_keys_NoDup : NoDup (map fst m).
Proof. rewrite nbuilt_keys. apply sort_uniq_NoDup, name_cmp_spec. Qed.

Lemma nbuilt_ids : map snd m = map Z.of_nat (seq 0 (length su)).
Proof. unfold m, build_nmapping. rewrite number_from_ids. apply zseq_0. Qed.

Lemma nbuilt_encode_ok tag : exists ids, encode_names names None tag = Ok (ids, m).
Proof.
  unfold encode_names. fold m.
  destruct (opt_map_all (nlookup m) names) as [ids|] eqn:E; [now exists ids|].
  apply opt_map_all_None in E as (k & Hk & Hn). apply nlookup_None in Hn. exfalso. apply Hn.
  rewrite nbuilt_keys. now apply (sort_uniq_In _ name_cmp_spec).
Qed.

Lemma nbuilt_dense z : (exists k, In (k, z) m) <-> 0 <= z < Z.of_nat (length su).
Proof.
  split.
  - intros (k & Hin). apply (in_map snd) in Hin. cbn [snd] in Hin. rewrite nbuilt_ids, <- zseq_0 in Hin.
    apply zseq_In in Hin. lia.
  - intros Hz. assert (Hin : In z (map snd m)) by (rewrite nbuilt_ids, <- zseq_0; apply zseq_In; lia).
    apply in_map_iff in Hin as ([k id] & Heq & Hin). cbn [snd] in Heq. subst. now exists k.
Qed.

Lemma nbuilt_inj k1 k2 id : In (k1, id) m -> In (k2, id) m -> k1 = k2.
Proof.
  intros H1 H2. pose proof (number_from_inj su 0 (k1, id) (k2, id) H1 H2 eq_refl) as H. now inversion H.
Qed.

Lemma nbuilt_functional k id1 id2 : In (k, id1) m -> In (k, id2) m -> id1 = id2.
Proof.
  intros H1 H2. pose proof nbuilt_keys_NoDup as Hnd.
  apply (nlookup_NoDup m k id1 Hnd) in H1. apply (nlookup_NoDup m k id2 Hnd) in H2. congruence.
Qed.
End BuiltN.

(* ---------- zero_indexed ---------- *)
Lemma Zlist_eqb_eq a : forall b, Zlist_eqb a b = true <-> a = b.
Proof.
  induction a as [|x a IH]; intros [|y b]; cbn [Zlist_eqb]; try (split; [discriminate|discriminate]).
  - tauto.
  - rewrite andb_true_iff, Z.eqb_eq, IH. split; [intros [-> ->]; reflexivity|intros H; inversion H; tauto].
Qed.

Lemma existsb_sentinel ids : existsb (Z.eqb CONTROL_SENTINEL_VALUE) ids = true <-> In (-1) ids.
Proof.
  rewrite existsb_exists. rewrite sentinel_is_minus_one. split.
  - intros (x & Hx & E). apply Z.eqb_eq in E. now subst.
  - intros H. exists (-1). split; [exact H|reflexivity].
Qed.

(* characterisation: the distinct ids are -1 (optionally) and a dense range 0..u-1 *)
Lemma zero_indexed_spec ids :
  zero_indexed true ids = true <->
  exists u : nat, forall z, In z ids <-> ((z = -1 /\ In (-1) ids) \/ 0 <= z < Z.of_nat u).
Proof.
  unfold zero_indexed. cbn [negb]. set (su := sort_uniq Z.compare ids).
  assert (Hin : forall z, In z su <-> In z ids) by (intros; apply (sort_uniq_In _ Zcmp_spec)).
  destruct (existsb (Z.eqb CONTROL_SENTINEL_VALUE) ids) eqn:E.
  - apply existsb_sentinel in E. rewrite Zlist_eqb_eq. split.
    + intros Hsu. remember (length su - 1)%nat as n eqn:En. clear En. exists n. intros z. rewrite <- Hin, Hsu. cbn [In].
      rewrite <- zseq_0, zseq_In. split; [intros [<-|H]; [left; tauto|right; lia]|intros [[-> _]|H]; [now left|right; lia]].
    + intros (u & Hu).
      assert (Hsu : su = (-1) :: zseq 0 u).
      { apply (SSorted_unique _ Zcmp_spec); [apply sort_uniq_sorted, Zcmp_spec| |].
        - constructor; [apply zseq_sorted|]. apply Forall_forall. intros z Hz. apply zseq_In in Hz.
          unfold lt. apply Z.compare_lt_iff. lia.
        - intros z. rewrite Hin, Hu. cbn [In]. rewrite zseq_In.
          split; [intros [[-> _]|H]; [now left|right; lia]|intros [<-|H]; [left; tauto|right; lia]]. }
      rewrite Hsu. cbn [length]. rewrite zseq_length. replace (S u - 1)%nat with u by lia. now rewrite <- zseq_0.
  - assert (Hno : ~ In (-1) ids).
    { intros H. apply existsb_sentinel in H. congruence. }
    rewrite Zlist_eqb_eq. split.
    + intros Hsu. remember (length su) as n eqn:En. clear En. exists n. intros z. rewrite <- Hin, Hsu. rewrite <- zseq_0, zseq_In.
      split; [intros H; right; lia|intros [[_ H]|H]; [contradiction|lia]].
    + intros (u & Hu).
      assert (Hsu : su = zseq 0 u).
      { apply (SSorted_unique _ Zcmp_spec); [apply sort_uniq_sorted, Zcmp_spec|apply zseq_sorted|].
        intros z. rewrite Hin, Hu, zseq_In. split; [intros [[_ H]|H]; [contradiction|lia]|intros H; right; lia]. }
      rewrite Hsu at 2. rewrite zseq_length. rewrite <- zseq_0. exact Hsu.
Qed.

Lemma zero_indexed_nonint ids : zero_indexed false ids = false.
Proof. reflexivity. Qed.
