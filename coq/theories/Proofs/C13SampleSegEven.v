(* C13: SampleSegregating generator, repaired logic: the plates of one sample are the chunks of
   np.array_split(permutation, n_plates): their sizes differ by at most one ("equal sized plates"),
   and each generated plate holds exactly the rows of its chunk. *)
From Coq Require Import ZArith List Bool Arith Lia Permutation.
From Batchie Require Import Lib.Sexp Lib.ListX Model.Encode Model.Screen Model.Retro Model.Pairwise
  Proofs.C11Lib Proofs.C11Gen Proofs.C11Select Proofs.C11Holdout Proofs.C13Wrap Proofs.C13SampleSeg.
Import ListNotations.
Open Scope nat_scope.

(* ---------- np.array_split: no chunk is shorter than len / n ---------- *)
Lemma array_split_chunk_min {A} : forall (l : list A) n c, 0 < n -> In c (array_split l n) ->
  length l / n <= length c.
Proof.
  intros l n c Hn Hc. unfold array_split in Hc. apply in_map_iff in Hc as (j & <- & Hj).
  apply in_seq in Hj. pose proof (Nat.div_mod (length l) n ltac:(lia)) as Hdm.
  pose proof (Nat.mod_upper_bound (length l) n ltac:(lia)) as Hm.
  set (q := length l / n) in *. set (r := length l mod n) in *.
  assert (Hq : S j * q <= n * q) by (apply Nat.mul_le_mono_r; lia).
  rewrite firstn_length, skipn_length. unfold split_start. lia.
Qed.

Lemma NoDup_app_intro {A} : forall l1 l2 : list A,
  NoDup l1 -> NoDup l2 -> (forall x, In x l1 -> In x l2 -> False) -> NoDup (l1 ++ l2).
Proof.
  induction l1 as [|a l1 IH]; intros l2 H1 H2 Hd; cbn [app]; [exact H2|].
  inversion H1 as [|? ? Hn Hnd]; subst. constructor.
  - intros Hin. apply in_app_or in Hin as [Hin|Hin]; [contradiction|]. apply (Hd a); [now left|exact Hin].
  - apply IH; [exact Hnd|exact H2|]. intros x Hx. apply Hd. now right.
Qed.

Lemma NoDup_concat_chunk {A} : forall (ls : list (list A)) c, NoDup (concat ls) -> In c ls -> NoDup c.
Proof.
  induction ls as [|l ls IH]; intros c H Hc; [contradiction|]. cbn [concat] in H.
  destruct (NoDup_app_inv _ _ H) as (H1 & H2 & _). destruct Hc as [<-|Hc]; [exact H1|now apply IH].
Qed.

(* ---------- the smaller of the (at most two) chunk sizes of sample s ---------- *)
Definition ss_q (mx : Z) (rows : list row) (s : name) : nat :=
  let L := length (idx_where (in_sample s) rows) in
  if (Z.of_nat L >? mx)%Z then L / Z.to_nat (cdiv (Z.of_nat L) mx) else L.

Definition chunk_even (mx : Z) (rows : list row) (samples : list name) (c : list nat) : Prop :=
  exists s, In s samples /\ (forall i, In i c -> In i (idx_where (in_sample s) rows)) /\
            ss_q mx rows s <= length c <= ss_q mx rows s + 1.

Lemma ss_plates_even : forall mx rows samples ds pis ds',
  ss_plates true mx rows samples ds = Ok (pis, ds') ->
  ss_contract mx rows samples ds -> NoDup samples ->
  NoDup (concat pis) /\ forall c, In c pis -> chunk_even mx rows samples c.
Proof.
  intros mx rows samples. induction samples as [|s samples IH]; intros ds pis ds' H HC Hnd; cbn [ss_plates] in H.
  - inversion H; subst. split; [constructor|intros c []].
  - cbn [ss_contract] in HC. fold (sample_count s rows) in H. inversion Hnd as [|? ? Hns Hnd']; subst.
    set (idx := idx_where (in_sample s) rows) in *.
    assert (Hweak : forall c, chunk_even mx rows samples c -> chunk_even mx rows (s :: samples) c).
    { intros c (s' & Hs' & Hrest). exists s'. split; [now right|exact Hrest]. }
    assert (Hdisj : forall ps x, (forall c, In c ps -> chunk_even mx rows samples c) ->
              In x idx -> In x (concat ps) -> False).
    { intros ps x Hps Hx Hc. apply in_concat in Hc as (c & Hc & Hxc).
      destruct (Hps c Hc) as (s' & Hs' & Hin & _). specialize (Hin x Hxc).
      apply In_idx_where in Hx as (r & Hr & Hsr). apply In_idx_where in Hin as (r' & Hr' & Hsr').
      apply in_sample_true in Hsr, Hsr'. apply Hns. replace s with s' by congruence. exact Hs'. }
    destruct (sample_count s rows >? mx)%Z eqn:Eb.
    + destruct (mx <=? 0)%Z eqn:Em; [discriminate|]. apply Z.leb_gt in Em.
      destruct ds as [|[perm|l] ds1]; try contradiction. destruct HC as [HP HC].
      cbn [take_ints res_bind] in H.
      destruct (ss_plates true mx rows samples ds1) as [[ps ds2]|t] eqn:Er; cbn [res_bind] in H; [|discriminate].
      inversion H; subst pis ds2. clear H. destruct (IH _ _ _ Er HC Hnd') as [IH1 IH2].
      assert (HL : 0 < length idx) by (unfold sample_count in Eb; fold idx in Eb; lia).
      destruct (array_split_bound (length idx) (Z.to_nat mx) ltac:(lia) HL) as [Hn0 Hb].
      rewrite Z2Nat.id in Hn0, Hb by lia.
      assert (Hq : ss_q mx rows s = length idx / Z.to_nat (cdiv (Z.of_nat (length idx)) mx)).
      { unfold ss_q. cbv zeta. fold idx. unfold sample_count in Eb. fold idx in Eb. now rewrite Eb. }
      set (n := Z.to_nat (cdiv (Z.of_nat (length idx)) mx)) in *.
      assert (Hlen : length perm = length idx) by now apply Permutation_length.
      split.
      * rewrite concat_app, array_split_concat by exact Hn0. apply NoDup_app_intro; [|exact IH1|].
        -- eapply Permutation_NoDup; [symmetry; exact HP|apply NoDup_idx_where].
        -- intros x Hx. apply (Hdisj ps x IH2). eapply Permutation_in; [exact HP|exact Hx].
      * intros c Hc. apply in_app_or in Hc as [Hc|Hc]; [|now apply Hweak, IH2].
        exists s. split; [now left|]. destruct (array_split_chunk perm n c Hc) as [Hsub Hl].
        pose proof (array_split_chunk_min perm n c Hn0 Hc) as Hmin. split.
        -- intros i Hi. eapply Permutation_in; [exact HP|]. now apply Hsub.
        -- rewrite Hq. rewrite Hlen in Hl, Hmin. destruct (length idx mod n =? 0); lia.
    + destruct (ss_plates true mx rows samples ds) as [[ps ds2]|t] eqn:Er; cbn [res_bind] in H; [|discriminate].
      inversion H; subst pis ds2. clear H. destruct (IH _ _ _ Er HC Hnd') as [IH1 IH2]. cbn [app concat].
      split.
      * apply NoDup_app_intro; [apply NoDup_idx_where|exact IH1|]. intros x Hx. exact (Hdisj ps x IH2 Hx).
      * intros c [<-|Hc]; [|now apply Hweak, IH2]. exists s. split; [now left|]. split; [auto|].
        unfold ss_q. cbv zeta. fold idx. unfold sample_count in Eb. fold idx in Eb. rewrite Eb. lia.
Qed.

Lemma nth_error_nth_nil {A} : forall (ls : list (list A)) j c, nth_error ls j = Some c -> nth j ls [] = c.
Proof. intros ls j c H. now apply nth_error_nth. Qed.

(* ---------- the inner generator: a generated plate holds exactly its chunk ---------- *)
Lemma sample_seg_even : forall mx u ds nu ds',
  sample_seg true mx u ds = Ok (nu, ds') ->
  ss_contract mx u (sample_names u) ds ->
  forall r1 r2, In r1 nu -> In r2 nu -> r_sample r1 = r_sample r2 ->
    length (filter (in_plate (r_plate r1)) nu) <= length (filter (in_plate (r_plate r2)) nu) + 1.
Proof.
  intros mx u ds nu ds' H HC. unfold sample_seg in H.
  destruct (ss_plates true mx u (sample_names u) ds) as [[pis ds1]|t] eqn:Es; cbn [res_bind] in H; [|discriminate].
  match type of H with (dor c <- construct ?x; _) = _ => destruct (construct x) as [c|t] eqn:Ec end;
    cbn [res_bind] in H; [|discriminate].
  apply construct_ok in Ec. inversion H; subst c nu ds1. clear H.
  destruct (ss_plates_spec _ _ _ _ _ _ Es HC) as [_ Hcover].
  destruct (ss_plates_even _ _ _ _ _ _ Es HC (NoDup_sort_uniq _)) as [Hnd Heven].
  assert (Hlab : forall i r, nth_error u i = Some r ->
            exists j c, nth_error pis j = Some c /\ In i c /\ label_of pis i = gen_name j).
  { intros i r Hn. destruct (label_of_spec pis i) as [[_ Hno]|Hyes]; [exfalso|exact Hyes].
    destruct (Hcover (r_sample r) i) as (c & Hc & Hic).
    - apply In_sample_names. exists r. split; [eapply nth_error_In; exact Hn|reflexivity].
    - apply In_idx_where. exists r. split; [exact Hn|now apply in_sample_true].
    - exact (Hno c Hc Hic). }
  (* the chunk containing an index is unique *)
  assert (Huniq : forall i j c j' c', nth_error pis j = Some c -> nth_error pis j' = Some c' ->
            In i c -> In i c' -> j = j').
  { intros i j c j' c' Hj Hj' Hi Hi'. destruct (Nat.eq_dec j j') as [E|E]; [exact E|exfalso].
    apply (NoDup_concat_disjoint pis j j' i Hnd E).
    - now rewrite (nth_error_nth_nil _ _ _ Hj).
    - now rewrite (nth_error_nth_nil _ _ _ Hj'). }
  set (nu := map (fun ir => set_plate (label_of pis (fst ir)) (snd ir)) (enum_from 0 u)).
  assert (Hrow : forall r', In r' nu -> exists i r, nth_error u i = Some r /\ r' = set_plate (label_of pis i) r).
  { intros r' Hr'. apply in_map_iff in Hr' as ([i r] & <- & Hin). apply In_enum_from in Hin as [_ Hn].
    rewrite Nat.sub_0_r in Hn. exists i, r. auto. }
  (* plate gen_name j holds exactly chunk j *)
  assert (Hcount : forall j c, nth_error pis j = Some c -> length (filter (in_plate (gen_name j)) nu) = length c).
  { intros j c Hj. unfold nu. rewrite filter_length_map. cbn [set_plate r_plate fst snd].
    rewrite <- (map_length fst). apply Nat.le_antisymm; apply NoDup_incl_length.
    - apply NoDup_map_fst_filter, NoDup_enum_fst.
    - intros i Hi'. apply in_map_iff in Hi' as ([i' r] & E & Hin). cbn in E. subst i'.
      apply filter_In in Hin as [Hin Hf]. cbn [fst snd] in Hf. apply in_plate_true in Hf. cbn [set_plate r_plate] in Hf.
      apply In_enum_from in Hin as [_ Hn]. rewrite Nat.sub_0_r in Hn.
      destruct (Hlab _ _ Hn) as (j' & c' & Hj' & Hi2 & L'). rewrite L' in Hf. apply gen_name_inj in Hf. subst j'.
      congruence.
    - apply (NoDup_concat_chunk pis); [exact Hnd|eapply nth_error_In; exact Hj].
    - intros i Hi. destruct (Heven c (nth_error_In _ _ Hj)) as (s & _ & Hin & _).
      pose proof (Hin i Hi) as Hr. apply In_idx_where in Hr as (r & Hn & _).
      apply in_map_iff. exists (i, r). split; [reflexivity|]. apply filter_In. split.
      + apply In_enum_from. rewrite Nat.sub_0_r. split; [lia|exact Hn].
      + cbn [fst snd]. apply in_plate_true. cbn [set_plate r_plate].
        destruct (Hlab _ _ Hn) as (j' & c' & Hj' & Hi2 & L'). rewrite L'. f_equal.
        exact (Huniq i j' c' j c Hj' Hj Hi2 Hi). }
  intros r1 r2 H1 H2 Hs.
  destruct (Hrow _ H1) as (i1 & q1 & Hn1 & ->). destruct (Hrow _ H2) as (i2 & q2 & Hn2 & ->).
  cbn [set_plate r_plate r_sample] in *.
  destruct (Hlab _ _ Hn1) as (j1 & c1 & Hj1 & Hi1 & L1). destruct (Hlab _ _ Hn2) as (j2 & c2 & Hj2 & Hi2 & L2).
  rewrite L1, L2, (Hcount _ _ Hj1), (Hcount _ _ Hj2).
  destruct (Heven c1 (nth_error_In _ _ Hj1)) as (s1 & _ & Hin1 & Hb1).
  destruct (Heven c2 (nth_error_In _ _ Hj2)) as (s2 & _ & Hin2 & Hb2).
  apply Hin1, In_idx_where in Hi1 as (r1 & Hr1 & S1). apply Hin2, In_idx_where in Hi2 as (r2 & Hr2 & S2).
  apply in_sample_true in S1, S2. assert (E : s1 = s2) by congruence. rewrite E in Hb1. lia.
Qed.

(* ---------- through generate_plates ---------- *)
Theorem sample_segregating_even : forall mx rows ds out ds',
  generate_plates (GSampleSeg true mx) rows ds = Ok (out, ds') ->
  ss_contract mx (unobserved rows) (sample_names (unobserved rows)) ds ->
  forall r1 r2, In r1 (unobserved out) -> In r2 (unobserved out) -> r_sample r1 = r_sample r2 ->
    length (filter (in_plate (r_plate r1)) (unobserved out))
    <= length (filter (in_plate (r_plate r2)) (unobserved out)) + 1.
Proof.
  intros mx rows ds out ds' H HC. apply generate_wrap_unobs in H as [[_ E]|H].
  - rewrite E. intros r1 r2 [].
  - cbn [generate_inner] in H. eapply sample_seg_even; eassumption.
Qed.
