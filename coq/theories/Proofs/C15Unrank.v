(* C15: loop invariants of generate_combination_at_sorted_index (Model/Unrank.v).
   State at the while test, for the current k = S k' and n:
       n_ck          = C(n-1, k')
       current_index = B + C(n, S k')      (exclusive upper bound of the ranks still possible;
                                            B = rank contribution of the entries already yielded)
       B <= index < current_index
   The test  current_index - n_ck > index  is  index < B + C(n-1, S k')  (Pascal), i.e. "the
   next entry is < n-1".  Each // is exact by an absorption identity and the
   `n_ck -= n_ck % k` line subtracts 0. *)
From Coq Require Import ZArith List Lia Arith.
From Batchie Require Import Lib.Sexp Model.Unrank Model.Binom Proofs.C15Binom.
Import ListNotations.
Open Scope Z_scope.

Lemma krange_S : forall k, krange (S k) = Z.of_nat (S k) :: krange k.
Proof.
  intros k. unfold krange. rewrite seq_S, rev_app_distr. cbn [rev app map]. reflexivity.
Qed.

Lemma unrank_inner_eq : forall fuel index k cur nck n,
  unrank_inner fuel index k cur nck n =
  if cur - nck >? index then
    match fuel with
    | O => Err 9
    | S f =>
        if n - 1 =? 0 then Err 8
        else unrank_inner f index k (cur - nck)
               ((nck * (n - k) - (nck * (n - k)) mod k) / (n - 1)) (n - 1)
    end
  else Ok (cur, nck, n).
Proof. intros [|f]; reflexivity. Qed.

(* the two arithmetic steps of one while iteration *)
Lemma step_nck : forall n k', 2 <= n ->
  (Cz (n - 1) k' * (n - Z.of_nat (S k'))
   - (Cz (n - 1) k' * (n - Z.of_nat (S k'))) mod Z.of_nat (S k')) / (n - 1)
  = Cz (n - 1 - 1) k'.
Proof.
  intros n k' Hn.
  assert (E : Cz (n - 1) k' * (n - Z.of_nat (S k')) = Cz (n - 1) (S k') * Z.of_nat (S k')).
  { pose proof (Cz_down (n - 1) k' ltac:(lia)) as H.
    rewrite (Z.mul_comm (Cz (n - 1) (S k'))). rewrite <- H. rewrite Z.mul_comm. f_equal. lia. }
  rewrite E. rewrite Z.mod_mul by lia. rewrite Z.sub_0_r.
  pose proof (Cz_absorb (n - 1) k' ltac:(lia)) as H.
  rewrite (Z.mul_comm (Cz (n - 1) (S k'))). rewrite H.
  rewrite Z.mul_comm. apply Z.div_mul. lia.
Qed.

(* the `n_ck -= n_ck % k` line subtracts 0 in every reachable state (n_ck = C(n-1,k-1)) *)
Lemma mod_line_noop : forall n k', 1 <= n ->
  (Cz (n - 1) k' * (n - Z.of_nat (S k'))) mod Z.of_nat (S k') = 0.
Proof.
  intros n k' Hn.
  pose proof (Cz_down (n - 1) k' ltac:(lia)) as H.
  replace (Cz (n - 1) k' * (n - Z.of_nat (S k'))) with (Cz (n - 1) (S k') * Z.of_nat (S k')).
  - apply Z.mod_mul. lia.
  - rewrite (Z.mul_comm (Cz (n - 1) (S k'))). rewrite <- H. rewrite Z.mul_comm. f_equal. lia.
Qed.

Lemma inner_spec : forall fuel index k' B n,
  1 <= n -> n <= Z.of_nat fuel ->
  B <= index < B + Cz n (S k') ->
  exists m, Z.of_nat (S k') <= m <= n /\
    unrank_inner fuel index (Z.of_nat (S k')) (B + Cz n (S k')) (Cz (n - 1) k') n
      = Ok (B + Cz m (S k'), Cz (m - 1) k', m) /\
    B + Cz (m - 1) (S k') <= index < B + Cz m (S k').
Proof.
  induction fuel as [|f IH]; intros index k' B n Hn Hf Hi.
  - lia.
  - rewrite unrank_inner_eq.
    assert (Ecur : B + Cz n (S k') - Cz (n - 1) k' = B + Cz (n - 1) (S k')).
    { rewrite (Cz_pascal n k') by lia. lia. }
    rewrite Ecur.
    destruct (B + Cz (n - 1) (S k') >? index) eqn:Ht.
    + apply Z.gtb_lt in Ht.
      assert (Hk : Z.of_nat (S k') <= n - 1).
      { apply Cz_pos_inv; lia. }
      destruct (n - 1 =? 0) eqn:Hz; [apply Z.eqb_eq in Hz; lia|].
      rewrite step_nck by lia.
      destruct (IH index k' B (n - 1)) as [m [Hm [Hrun Hb]]]; [lia | lia | lia |].
      exists m. split; [lia|]. split; [exact Hrun | exact Hb].
    + assert (Hge : B + Cz (n - 1) (S k') <= index).
      { destruct (Z.gtb_spec (B + Cz (n - 1) (S k')) index); [discriminate | lia]. }
      exists n. split.
      * split; [|lia]. apply Cz_pos_inv; lia.
      * split; [reflexivity | lia].
Qed.

(* outer loop: from the state (cur = B + C(n,k), nck = C(n,k), n) the remaining k entries are
   produced without error, strictly descending below n, and their rank is index - B *)
Lemma outer_spec : forall k index B n,
  0 <= n -> B <= index < B + Cz n k ->
  exists c, unrank_outer index (krange k) (B + Cz n k) (Cz n k) n = Ok c /\
    length c = k /\ desc_below n c /\ B + rank c = index.
Proof.
  induction k as [|k' IH]; intros index B n Hn Hi.
  - exists []. cbn [krange seq rev map unrank_outer length desc_below rank].
    rewrite Cz_0_r in Hi. repeat split. lia.
  - rewrite krange_S. cbn [unrank_outer].
    assert (Hk : Z.of_nat (S k') <= n) by (apply Cz_pos_inv; lia).
    destruct (n =? 0) eqn:Hz; [apply Z.eqb_eq in Hz; lia|].
    assert (E : Cz n (S k') * Z.of_nat (S k') / n = Cz (n - 1) k').
    { rewrite (Z.mul_comm (Cz n (S k'))), Cz_absorb by lia.
      rewrite Z.mul_comm. apply Z.div_mul. lia. }
    rewrite E.
    destruct (inner_spec (S (Z.to_nat n)) index k' B n) as [m [Hm [Hrun Hb]]]; [lia | lia | exact Hi |].
    rewrite Hrun. cbn [res_bind].
    assert (Ecur : B + Cz m (S k') = (B + Cz (m - 1) (S k')) + Cz (m - 1) k').
    { rewrite (Cz_pascal m k') by lia. lia. }
    rewrite Ecur.
    destruct (IH index (B + Cz (m - 1) (S k')) (m - 1)) as [c [Hrun' [Hlen [Hdesc Hrank]]]]; [lia | lia |].
    rewrite Hrun'. cbn [res_bind].
    exists ((m - 1) :: c). split; [reflexivity|].
    cbn [length desc_below rank]. rewrite Hlen.
    split; [reflexivity|]. split; [|lia].
    split; [lia | exact Hdesc].
Qed.

(* (a)+(b)+(c): every in-range index is unranked without error to a strictly descending
   k-tuple below n whose rank is the index *)
Lemma unrank_spec : forall n k index,
  0 <= n -> 0 <= index < Cz n k ->
  exists c, unrank index n k = Ok c /\ length c = k /\ desc_below n c /\ rank c = index.
Proof.
  intros n k index Hn Hi. unfold unrank. rewrite init_nck_Cz by exact Hn.
  destruct (outer_spec k index 0 n Hn ltac:(lia)) as [c [Hrun [Hlen [Hdesc Hrank]]]].
  exists c. rewrite Z.add_0_l in Hrun. rewrite Hrun. repeat split; try assumption; lia.
Qed.

(* ---------------------------------------------------------------- rank: bounds, order *)

Lemma rank_nonneg : forall c, 0 <= rank c.
Proof.
  induction c as [|x r IH]; cbn [rank]; [lia|].
  pose proof (Cz_nonneg x (S (length r))). lia.
Qed.

Lemma rank_lt : forall c n, desc_below n c -> rank c < Cz n (length c).
Proof.
  induction c as [|x r IH]; intros n Hd.
  - cbn [rank length]. rewrite Cz_0_r. lia.
  - cbn [rank length]. destruct Hd as [Hx Hr].
    specialize (IH x Hr).
    pose proof (Cz_pascal (x + 1) (length r) ltac:(lia)) as P.
    replace (x + 1 - 1) with x in P by lia.
    pose proof (Cz_mono (x + 1) n (S (length r)) ltac:(lia)). lia.
Qed.

Lemma rank_range : forall c n, desc_below n c -> 0 <= rank c < Cz n (length c).
Proof. intros c n Hd. split; [apply rank_nonneg | apply rank_lt; exact Hd]. Qed.

Lemma desc_below_weaken : forall c n n', n <= n' -> desc_below n c -> desc_below n' c.
Proof. intros [|x r] n n' H Hd; cbn [desc_below] in *; [exact I|]. destruct Hd. split; [lia|assumption]. Qed.

(* (d) rank is strictly monotone for the lexicographic order on descending tuples *)
Lemma rank_lex_mono : forall a b n,
  length a = length b -> desc_below n a -> desc_below n b -> lex_lt a b -> rank a < rank b.
Proof.
  induction a as [|x a' IH]; intros b n Hlen Ha Hb Hlt.
  - destruct b; [contradiction | discriminate].
  - destruct b as [|y b']; [discriminate|].
    cbn [length] in Hlen. injection Hlen as Hlen.
    cbn [rank]. destruct Ha as [Hx Ha]. destruct Hb as [Hy Hb].
    cbn [lex_lt] in Hlt. destruct Hlt as [Hxy | [Hxy Hlt]].
    + pose proof (rank_lt a' x Ha) as R.
      pose proof (Cz_pascal (x + 1) (length a') ltac:(lia)) as P.
      replace (x + 1 - 1) with x in P by lia.
      pose proof (Cz_mono (x + 1) y (S (length a')) ltac:(lia)).
      pose proof (rank_nonneg b'). rewrite <- Hlen. lia.
    + subst y. specialize (IH b' x Hlen Ha Hb Hlt). rewrite Hlen. lia.
Qed.

Lemma lex_trichotomy : forall a b, length a = length b -> lex_lt a b \/ a = b \/ lex_lt b a.
Proof.
  induction a as [|x a' IH]; intros [|y b'] Hlen; try discriminate.
  - right; left; reflexivity.
  - cbn [length] in Hlen. injection Hlen as Hlen. cbn [lex_lt].
    destruct (Z.lt_trichotomy x y) as [H | [H | H]].
    + left; left; exact H.
    + subst y. destruct (IH b' Hlen) as [H | [H | H]].
      * left; right; split; [reflexivity | exact H].
      * right; left; f_equal; exact H.
      * right; right; right; split; [reflexivity | exact H].
    + right; right; left; exact H.
Qed.

Lemma lex_lt_irrefl : forall a, ~ lex_lt a a.
Proof. induction a as [|x a IH]; cbn [lex_lt]; [tauto|]. intros [H | [_ H]]; [lia | exact (IH H)]. Qed.

Lemma lex_lt_trans : forall a b c, lex_lt a b -> lex_lt b c -> lex_lt a c.
Proof.
  induction a as [|x a IH]; intros [|y b] [|z c] Hab Hbc; cbn [lex_lt] in *; try tauto.
  destruct Hab as [H1 | [H1 H1']]; destruct Hbc as [H2 | [H2 H2']].
  - left; lia.
  - left; lia.
  - left; lia.
  - right; split; [lia | exact (IH b c H1' H2')].
Qed.

Lemma rank_injective : forall a b n,
  length a = length b -> desc_below n a -> desc_below n b -> rank a = rank b -> a = b.
Proof.
  intros a b n Hlen Ha Hb Hr.
  destruct (lex_trichotomy a b Hlen) as [H | [H | H]]; [|exact H|].
  - pose proof (rank_lex_mono a b n Hlen Ha Hb H). lia.
  - pose proof (rank_lex_mono b a n (eq_sym Hlen) Hb Ha H). lia.
Qed.

(* (e) unrank is the inverse of rank on the strictly descending k-tuples below n *)
Lemma unrank_rank : forall n c, 0 <= n -> desc_below n c -> unrank (rank c) n (length c) = Ok c.
Proof.
  intros n c Hn Hd.
  destruct (unrank_spec n (length c) (rank c) Hn (rank_range c n Hd)) as [c' [Hrun [Hlen [Hd' Hr]]]].
  rewrite Hrun. f_equal. exact (rank_injective c' c n Hlen Hd' Hd Hr).
Qed.

(* ascending enumeration: a larger index gives a lexicographically larger tuple *)
Lemma unrank_ascending : forall n k i j a b,
  0 <= n -> 0 <= i -> i < j -> j < Cz n k ->
  unrank i n k = Ok a -> unrank j n k = Ok b -> lex_lt a b.
Proof.
  intros n k i j a b Hn Hi Hij Hj Ea Eb.
  destruct (unrank_spec n k i Hn ltac:(lia)) as [a' [Ea' [La [Da Ra]]]].
  destruct (unrank_spec n k j Hn ltac:(lia)) as [b' [Eb' [Lb [Db Rb]]]].
  rewrite Ea in Ea'. injection Ea' as <-. rewrite Eb in Eb'. injection Eb' as <-.
  destruct (lex_trichotomy a b ltac:(congruence)) as [H | [H | H]]; [exact H | |].
  - subst b. lia.
  - pose proof (rank_lex_mono b a n ltac:(congruence) Db Da H). lia.
Qed.

Lemma unrank_injective : forall n k i j c,
  0 <= n -> 0 <= i < Cz n k -> 0 <= j < Cz n k ->
  unrank i n k = Ok c -> unrank j n k = Ok c -> i = j.
Proof.
  intros n k i j c Hn Hi Hj Ei Ej.
  destruct (unrank_spec n k i Hn Hi) as [a [Ea [_ [_ Ra]]]].
  destruct (unrank_spec n k j Hn Hj) as [b [Eb [_ [_ Rb]]]].
  rewrite Ei in Ea. injection Ea as <-. rewrite Ej in Eb. injection Eb as <-. lia.
Qed.

(* ---------------------------------------------------------------- the fuel is not an artefact *)
(* for n >= 0 and ANY index (in range or not) the model never runs out of fuel: the Python
   while loop terminates (it decrements n and stops with ZeroDivisionError at n = 0 at the latest) *)
Lemma inner_no_fuel_error : forall fuel index k cur nck n,
  1 <= n -> n <= Z.of_nat fuel ->
  match unrank_inner fuel index k cur nck n with
  | Err t => t <> 9
  | Ok (_, _, n') => 1 <= n' <= n
  end.
Proof.
  induction fuel as [|f IH]; intros index k cur nck n Hn Hf; [lia|].
  rewrite unrank_inner_eq.
  destruct (cur - nck >? index) eqn:Ht; [|lia].
  destruct (n - 1 =? 0) eqn:Hz; [discriminate|].
  apply Z.eqb_neq in Hz.
  specialize (IH index k (cur - nck) ((nck * (n - k) - (nck * (n - k)) mod k) / (n - 1)) (n - 1) ltac:(lia) ltac:(lia)).
  destruct (unrank_inner f index k (cur - nck) ((nck * (n - k) - (nck * (n - k)) mod k) / (n - 1)) (n - 1))
    as [[[c' k'] n'] | t]; [lia | exact IH].
Qed.

Lemma outer_no_fuel_error : forall ks index cur nck n,
  0 <= n -> unrank_outer index ks cur nck n <> Err 9.
Proof.
  induction ks as [|k ks IH]; intros index cur nck n Hn; cbn [unrank_outer]; [discriminate|].
  destruct (n =? 0) eqn:Hz; [discriminate|]. apply Z.eqb_neq in Hz.
  pose proof (inner_no_fuel_error (S (Z.to_nat n)) index k cur (nck * k / n) n ltac:(lia) ltac:(lia)) as H.
  destruct (unrank_inner (S (Z.to_nat n)) index k cur (nck * k / n) n) as [[[c' k'] n'] | t]; cbn [res_bind].
  - specialize (IH index c' k' (n' - 1) ltac:(lia)).
    destruct (unrank_outer index ks c' k' (n' - 1)) as [rest | t]; cbn [res_bind]; [discriminate | exact IH].
  - intros E. injection E as E. exact (H E).
Qed.

Lemma unrank_no_fuel_error : forall index n k, 0 <= n -> unrank index n k <> Err 9.
Proof. intros index n k Hn. unfold unrank. apply outer_no_fuel_error. exact Hn. Qed.
