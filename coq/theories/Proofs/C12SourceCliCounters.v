(* C12, clause "the number of unobserved plates REPORTED for the screen": the counters extract_screen_metadata.main
   writes, with the library calls of its model record instantiated by the TRANSLATED Screen.plates / ScreenBase.is_observed /
   n_plates / n_unique_samples / n_unique_treatments / size (Generated/SrcViews.v, SrcPlates.v; their own links are C14's),
   are Model/Reveal.v's n_unobserved_plates / n_observed_plates / n_plates of the loaded screen - the counters
   C12_unobserved_drop is about.  em_lib wants total functions; the translated ones return a result, which is read
   through ok_or (the theorem shows every one of them is Ok on a constructed screen, so the default is never used). *)
From Coq Require Import ZArith List Bool Lia.
From Batchie Require Import Lib.Sexp Lib.PyRt Generated.Consts Model.Encode Model.Screen Model.Reveal Model.Views Model.Cli
  Generated.SrcViews Generated.SrcPlates Generated.SrcCli
  Proofs.C03Base Proofs.C03Screen Proofs.C12Reveal Proofs.C12SourceCli
  Proofs.C14Defs Proofs.C14Views Proofs.C14SourceHelpers Proofs.C14Source_Plates Proofs.C14Source_ScreenSize.
Import ListNotations.
Open Scope Z_scope.

Definition ok_or {A} (d : A) (r : result A) : A := match r with Ok x => x | Err _ => d end.

Definition em_src_lib (load : path -> result pyscreen) : em_lib pyscreen view :=
  mk_em_lib load
    (fun s => ok_or [] (src_plates s))
    (fun p => ok_or false (src_view_is_observed p))
    (fun s => ok_or 0 (src_screen_n_unique_samples s))
    (fun s => ok_or 0 (src_screen_n_unique_treatments s))
    (fun s => ok_or 0 (src_screen_size s))
    (fun s => ok_or 0 (src_screen_n_plates s)).

Lemma plate_view_observed (pid : Z) (rows : list row) (pids : list Z) :
  forallb (fun b : bool => b) (Views.select (map (fun x => x =? pid) pids) (map r_mask rows))
  = forallb (fun rp : row * Z => negb (snd rp =? pid) || r_mask (fst rp)) (combine rows pids).
Proof.
  revert pids; induction rows as [|r rows IH]; intros [|p pids]; cbn [map Views.select combine forallb]; try reflexivity.
  cbn [fst snd]. destruct (p =? pid); cbn [negb orb andb forallb]; now rewrite IH.
Qed.

Lemma filter_map_length {A B} (f : B -> bool) (g : A -> B) (l : list A) :
  length (filter f (map g l)) = length (filter (fun x => f (g x)) l).
Proof. induction l as [|a l IH]; cbn [map filter]; [reflexivity|]. destruct (f (g a)); cbn [length]; now rewrite IH. Qed.

Theorem src_cli_extract_screen_metadata_counters : forall (load : path -> result pyscreen) (a : em_args) (s : pyscreen),
  load (em_screen a) = Ok s -> constructed (snd s) ->
  src_cli_extract_screen_metadata pyscreen view (em_src_lib load) a
  = Ok [(em_output a,
         mk_meta (Z.of_nat (n_unique_samples_rows (snd s))) (Z.of_nat (length (screen_unique_treatments (snd s))))
                 (Z.of_nat (length (s_tids (snd s)))) (Z.of_nat (Reveal.n_plates (snd s)))
                 (Z.of_nat (n_unobserved_plates (snd s))) (Z.of_nat (n_observed_plates (snd s))))].
Proof.
  intros load a s Hload (rows & ar & c & tm & sm & og & mg & Hmk).
  assert (Hwf : screen_wf (snd s)) by (eapply mk_screen_wf; exact Hmk).
  rewrite src_cli_extract_screen_metadata_is_model. unfold cli_extract_screen_metadata, em_src_lib.
  cbn [em_load_screen em_plates em_is_observed em_n_unique_samples em_n_unique_treatments em_size em_n_plates].
  rewrite Hload. cbn [res_bind].
  destruct (src_screen_props_are_model s) as (_ & Hnp & _ & Hns & _ & Hnt & _).
  rewrite Hnp, Hns, Hnt, src_screen_size_is_model, src_plates_is_model, (plates_spec (fst s) (snd s) Hwf).
  cbn [ok_or]. unfold count_if. rewrite !filter_map_length.
  assert (Hobs : forall pid,
            ok_or false (src_view_is_observed {| v_tag := fst s; v_parent := snd s; v_sel := map (fun x => x =? pid) (s_pids (snd s)) |})
            = plate_observed (snd s) pid).
  { intros pid. destruct (src_view_props_are_model {| v_tag := fst s; v_parent := snd s; v_sel := map (fun x => x =? pid) (s_pids (snd s)) |})
      as (_ & Hio & _). rewrite Hio. cbn [ok_or]. unfold view_is_observed, view_mask, plate_observed. cbn [v_sel v_parent].
    apply plate_view_observed. }
  rewrite (filter_ext _ (fun pid => negb (plate_observed (snd s) pid))) by (intros pid; now rewrite Hobs).
  rewrite (filter_ext (fun x => ok_or false _) (plate_observed (snd s))) by (intros pid; now rewrite Hobs).
  reflexivity.
Qed.
