(* C18 - the mirror image of the frame theorem (Proofs/C18RandProg.v `frame`): a randomised step whose requests are ALL
   served from the process-global component - what the variational grid model's training does (set_rng stores the generator
   made from the seed, nothing ever reads it; numpy.random.choice, torch.randperm and pyro's sample statements draw from the
   global numpy / torch generators) - is a function of the global state alone: the generator it was given is returned
   untouched and has NO influence on output, requests or answers.  Together with `global_draws_refuted` this is why such a
   step violates the property for every seed: the seed is not an input of it at all.  G is any type, e.g. the pair
   (numpy global state, torch global state). *)
From Coq Require Import ZArith List Bool.
From Batchie Require Import Lib.Sexp Model.RandProg.
Import ListNotations.

Lemma global_only_frame :
  forall (Req Ans Out S G : Type) (ggen : G -> Req -> Ans * G) (wstep : S * G -> Req -> Ans * (S * G))
         (p : prog Req Ans Out),
  (forall s g r, wstep (s, g) r = (fst (ggen g r), (s, snd (ggen g r)))) ->
  forall s g,
    o_out (exec wstep p (s, g)) = o_out (exec ggen p g)
    /\ o_reqs (exec wstep p (s, g)) = o_reqs (exec ggen p g)
    /\ o_answers (exec wstep p (s, g)) = o_answers (exec ggen p g)
    /\ o_final (exec wstep p (s, g)) = (s, o_final (exec ggen p g)).
Proof.
  intros Req Ans Out S G ggen wstep p Hglob. induction p as [o0 | r k IH]; intros s g.
  - cbn. repeat split; reflexivity.
  - cbn. rewrite Hglob. cbn [fst snd].
    destruct (IH (fst (ggen g r)) s (snd (ggen g r))) as (H1 & H2 & H3 & H4).
    rewrite H1, H2, H3, H4. repeat split; reflexivity.
Qed.

Lemma from_global_is_global : forall (Req Ans S G : Type) (ggen : G -> Req -> Ans * G) (s : S) (g : G) r,
  from_global ggen (s, g) r = (fst (ggen g r), (s, snd (ggen g r))).
Proof. reflexivity. Qed.

(* the given generator (the seed) is irrelevant: two runs with DIFFERENT own states and the same global state agree *)
Lemma given_generator_unread :
  forall (Req Ans Out S G : Type) (ggen : G -> Req -> Ans * G) (p : prog Req Ans Out) (s1 s2 : S) (g : G),
    o_out (exec (from_global ggen) p (s1, g)) = o_out (exec (from_global ggen) p (s2, g))
    /\ o_reqs (exec (from_global ggen) p (s1, g)) = o_reqs (exec (from_global ggen) p (s2, g))
    /\ o_answers (exec (from_global ggen) p (s1, g)) = o_answers (exec (from_global ggen) p (s2, g))
    /\ fst (o_final (exec (from_global ggen) p (s1, g))) = s1
    /\ snd (o_final (exec (from_global ggen) p (s1, g))) = snd (o_final (exec (from_global ggen) p (s2, g))).
Proof.
  intros Req Ans Out S G ggen p s1 s2 g.
  destruct (global_only_frame Req Ans Out S G ggen (from_global ggen) p (from_global_is_global Req Ans S G ggen) s1 g) as (A1 & A2 & A3 & A4).
  destruct (global_only_frame Req Ans Out S G ggen (from_global ggen) p (from_global_is_global Req Ans S G ggen) s2 g) as (B1 & B2 & B3 & B4).
  rewrite A1, A2, A3, A4, B1, B2, B3, B4. cbn [fst snd]. repeat split; reflexivity.
Qed.

(* the observation "modulo the known leak" of the harness: with the global component equal at the start of both runs
   (same seeds for numpy / torch / every unseeded construction) a globally served step IS repeatable - so a difference that
   remains there has another cause than the recorded leak *)
Lemma global_only_repeatable_from_equal_global :
  forall (Req Ans Out S G : Type) (ggen : G -> Req -> Ans * G) (p : prog Req Ans Out) (s : S) (g1 g2 : G),
    g1 = g2 -> exec (from_global ggen) p (s, g1) = exec (from_global ggen) p (s, g2).
Proof. intros; subst; reflexivity. Qed.
