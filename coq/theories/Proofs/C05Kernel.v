(* C05 proofs, part 3: the vectorised kernel on any arrays that REPRESENT a list of plates
   (agree with each plate on its own cells, 0 / NaN elsewhere, wide enough) equals the direct
   one-plate estimator, plate by plate; the 0/NaN padding of the code is such a representation. *)
From Coq Require Import ZArith List QArith Qcanon Lia Arith Permutation.
From Batchie Require Import Lib.Sexp Lib.Num Lib.NumP Model.Dbal Proofs.C05Pad Proofs.C05Lse.
Import ListNotations.

Definition rect {A} (T E : nat) (a : list (list A)) : Prop :=
  length a = T /\ Forall (fun r => length r = E) a.
(* a plate: means and variances are both n_thetas x n_exp arrays *)
Definition plate_wf (T : nat) (pl : plate) : Prop := exists E, rect T E (fst pl) /\ rect T E (snd pl).
Definition triple_valid (T : nat) (t : triple) : Prop :=
  let '(a, b, c) := t in (a < T /\ b < T /\ c < T)%nat.
Definition n_exp (pl : plate) : nat := snd (shape2 (fst pl)).

(* [pred]/[vars] are dense arrays holding the plates: plate p occupies cells (p, i, e) with
   e < n_exp; all other cells of the first T rows hold 0 (means) / NaN (variances). *)
Definition represents (T : nat) (plates : list plate)
  (pred : list (list (list Qc))) (vars : list (list (list (option Qc)))) : Prop :=
  fst (fst (shape3 pred)) = length plates /\
  forall p, (p < length plates)%nat ->
    let pl := nth p plates ([], []) in
    (n_exp pl <= snd (shape3 pred))%nat /\
    forall i e, (i < T)%nat ->
      get3 0%Qc pred p i e = (if (e <? n_exp pl)%nat then get2 0%Qc (fst pl) i e else 0%Qc) /\
      get3 None vars p i e = (if (e <? n_exp pl)%nat then Some (get2 0%Qc (snd pl) i e) else None).

Section KernelProofs.
Variable orc : oracle.
Variable pred : list (list (list Qc)).
Variable vars : list (list (list (option Qc))).
Variable D : list (list Qc).
Variable df : Qc.
Variable T : nat.
Variable pl : plate.
Variable p : nat.
Hypothesis Hcells : forall i e, (i < T)%nat ->
  get3 0%Qc pred p i e = (if (e <? n_exp pl)%nat then get2 0%Qc (fst pl) i e else 0%Qc) /\
  get3 None vars p i e = (if (e <? n_exp pl)%nat then Some (get2 0%Qc (snd pl) i e) else None).

Lemma k_mu_cell i e : (i < T)%nat ->
  k_mu pred p i e = if (e <? n_exp pl)%nat then get2 0%Qc (fst pl) i e else 0%Qc.
Proof. intros Hi. unfold k_mu. apply (Hcells i e Hi). Qed.
Lemma k_pv_cell i e : (i < T)%nat ->
  k_pv vars p i e = if (e <? n_exp pl)%nat then get2 0%Qc (snd pl) i e else 1%Qc.
Proof. intros Hi. unfold k_pv. rewrite (proj2 (Hcells i e Hi)). now destruct (e <? n_exp pl)%nat. Qed.
Lemma k_mask_cell i e : (i < T)%nat ->
  k_mask vars p i e = if (e <? n_exp pl)%nat then 1%Qc else 0%Qc.
Proof. intros Hi. unfold k_mask. rewrite (proj2 (Hcells i e Hi)). now destruct (e <? n_exp pl)%nat. Qed.

(* on a real cell the two per-experiment terms are those of the direct estimator *)
Lemma exp_term_in t e : triple_valid T t -> (e < n_exp pl)%nat ->
  (k_mask vars p (fst (fst t)) e * half * ln orc (1 / k_alpha vars p t e))%Qc = fst (direct_exp_term orc pl t e) /\
  (- k_exp_factor vars p t e * (k_d12 pred vars p t e + k_d13 pred vars p t e + k_d23 pred vars p t e))%Qc
  = snd (direct_exp_term orc pl t e).
Proof.
  destruct t as [[i1 i2] i3]. intros (H1 & H2 & H3) He. apply Nat.ltb_lt in He.
  unfold k_exp_factor, k_alpha, k_d12, k_d13, k_d23, direct_exp_term, triple_term. cbn [fst snd].
  rewrite !k_pv_cell, !k_mu_cell, !k_mask_cell by assumption. rewrite He. split; [ring|reflexivity].
Qed.

(* on a padded cell both terms vanish *)
Lemma exp_term_out t e : triple_valid T t -> (n_exp pl <= e)%nat ->
  (k_mask vars p (fst (fst t)) e * half * ln orc (1 / k_alpha vars p t e))%Qc = 0%Qc /\
  (- k_exp_factor vars p t e * (k_d12 pred vars p t e + k_d13 pred vars p t e + k_d23 pred vars p t e))%Qc = 0%Qc.
Proof.
  destruct t as [[i1 i2] i3]. intros (H1 & H2 & H3) He. apply Nat.ltb_ge in He.
  unfold k_exp_factor, k_alpha, k_d12, k_d13, k_d23. cbn [fst snd].
  rewrite !k_pv_cell, !k_mu_cell, !k_mask_cell by assumption. rewrite He. unfold qsq. split; ring.
Qed.

Lemma summand_eq W t : triple_valid T t -> (n_exp pl <= W)%nat ->
  k_summand orc pred vars D df W p t = direct_summand orc D df pl t.
Proof.
  intros Hv Hle. unfold k_summand, k_ltd, direct_summand.
  destruct t as [[i1 i2] i3]. unfold k_dsum.
  destruct (qeqb _ 0%Qc); [reflexivity|]. fold (n_exp pl).
  assert (HA : k_log_norm orc vars W p (i1, i2, i3)
               = qsum (map fst (map (direct_exp_term orc pl (i1, i2, i3)) (seq 0 (n_exp pl))))).
  { unfold k_log_norm.
    rewrite (qsum_seq_trunc _ (n_exp pl) W Hle) by (intros e He; apply (exp_term_out (i1, i2, i3) e Hv He)).
    rewrite map_map. apply qsum_map_ext. intros e He. apply in_seq in He.
    apply (exp_term_in (i1, i2, i3) e Hv). lia. }
  assert (HB : k_ll pred vars W p (i1, i2, i3)
               = qsum (map snd (map (direct_exp_term orc pl (i1, i2, i3)) (seq 0 (n_exp pl))))).
  { unfold k_ll.
    rewrite (qsum_seq_trunc _ (n_exp pl) W Hle) by (intros e He; apply (exp_term_out (i1, i2, i3) e Hv He)).
    rewrite map_map. apply qsum_map_ext. intros e He. apply in_seq in He.
    apply (exp_term_in (i1, i2, i3) e Hv). lia. }
  now rewrite HA, HB.
Qed.
End KernelProofs.

Theorem kernel_represents orc T plates pred vars D df ts :
  represents T plates pred vars -> Forall (triple_valid T) ts ->
  kernel orc pred vars D df ts = map (direct orc D df ts) plates.
Proof.
  intros [Hn Hrep] Hts. unfold kernel. destruct (shape3 pred) as [[n T'] W] eqn:Hs.
  cbn [fst snd] in Hn, Hrep. subst n.
  rewrite <- (map_seq_nth (direct orc D df ts) plates ([], [])).
  apply map_ext_in. intros p Hp. apply in_seq in Hp.
  destruct (Hrep p ltac:(lia)) as [Hle Hcells].
  unfold direct. f_equal. apply map_ext_in. intros t Ht.
  rewrite Forall_forall in Hts.
  exact (summand_eq orc pred vars D df T _ p Hcells W t (Hts t Ht) Hle).
Qed.

(* ---- the code's own padding is a representation ---- *)
Lemma rect_width {A} T E (a : list (list A)) : rect T E a -> (0 < T)%nat -> snd (shape2 a) = E.
Proof.
  intros [Hl HF] HT. destruct a as [|r a]; cbn [length] in Hl; [lia|].
  cbn [shape2 snd hd]. now inversion HF.
Qed.

Lemma rect_row {A} T E (a : list (list A)) i : rect T E a -> (i < T)%nat -> length (nth i a []) = E.
Proof.
  intros [Hl HF] Hi. rewrite Forall_forall in HF. apply HF. apply nth_In. lia.
Qed.

Lemma pad_represents T plates :
  (0 < T)%nat -> Forall (plate_wf T) plates ->
  represents T plates (pad_means (map fst plates)) (pad_vars (map snd plates)).
Proof.
  intros HT Hwf. split.
  - destruct plates as [|pl0 rest]; [reflexivity|].
    unfold pad_means. cbn [map]. rewrite shape3_pad_ragged; [cbn [fst length]; now rewrite map_length|].
    inversion Hwf as [|? ? (E & [Hl _] & _) _]; subst. cbn [shape2 fst]. exact HT.
  - intros p Hp pl. rewrite Forall_forall in Hwf.
    assert (Hpl : @nth (list (list Qc) * list (list Qc)) p plates ([], []) = pl) by reflexivity. clearbody pl.
    assert (Hin : In pl plates) by (rewrite <- Hpl; apply nth_In; exact Hp).
    destruct (Hwf pl Hin) as (E & Hm & Hv).
    assert (HE : n_exp pl = E) by (unfold n_exp; eapply rect_width; eassumption).
    split.
    + destruct plates as [|pl0 rest]; [cbn [length] in Hp; lia|].
      unfold pad_means. cbn [map]. rewrite shape3_pad_ragged.
      * cbn [snd]. apply (max_list_ge (map (fun a => snd (shape2 a)) (map fst (pl0 :: rest)))).
        rewrite map_map. apply in_map_iff. exists pl. split; [reflexivity|exact Hin].
      * destruct (Hwf pl0 (or_introl eq_refl)) as (E0 & [Hl _] & _). cbn [shape2 fst]. rewrite Hl. exact HT.
    + intros i e Hi. unfold pad_means, pad_vars. rewrite !get3_pad_ragged. unfold get3.
      rewrite (nth_map_in fst plates p ([], []) []) by exact Hp.
      rewrite !(nth_map_in _ _ p [] []) by (rewrite ?map_length; exact Hp).
      rewrite (nth_map_in snd plates p ([], []) []) by exact Hp. rewrite !Hpl.
      pose proof (rect_row T E _ i Hm Hi) as Hrm. pose proof (rect_row T E _ i Hv Hi) as Hrv.
      unfold get2. rewrite (nth_map_in _ (snd pl) i [] []) by (destruct Hv as [-> _]; exact Hi).
      rewrite HE. destruct (e <? E)%nat eqn:He.
      * apply Nat.ltb_lt in He. split; [reflexivity|].
        apply (nth_map_in Some). now rewrite Hrv.
      * apply Nat.ltb_ge in He. split; apply nth_overflow; rewrite ?map_length; lia.
Qed.

Theorem hetero_eq_direct orc T plates D df ts :
  (0 < T)%nat -> Forall (plate_wf T) plates -> Forall (triple_valid T) ts ->
  hetero orc plates D df ts = map (direct orc D df ts) plates.
Proof.
  intros HT Hwf Hts. unfold hetero. apply (kernel_represents orc T); [now apply pad_represents|exact Hts].
Qed.
