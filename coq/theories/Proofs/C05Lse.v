(* C05 proofs, part 2: the log-sum-exp reduction.  It is -inf exactly when every summand is,
   and it does not depend on the order of the summands (for every ln / exp). *)
From Coq Require Import ZArith List QArith Qcanon Lia Arith Permutation.
From Batchie Require Import Lib.Sexp Lib.Num Lib.NumP Model.Dbal Proofs.C05Pad.
Import ListNotations.

Lemma ext_max_cons a l :
  ext_max (a :: l) = match a, ext_max l with
                     | None, m => m
                     | Some x, None => Some x
                     | Some x, Some y => Some (qmax x y)
                     end.
Proof. reflexivity. Qed.

Lemma ext_max_spec l :
  match ext_max l with
  | None => Forall (fun a => a = None) l
  | Some m => In (Some m) l /\ forall x, In (Some x) l -> (x <= m)%Qc
  end.
Proof.
  induction l as [|a l IH]; [constructor|].
  rewrite ext_max_cons. destruct a as [x|], (ext_max l) as [y|].
  - destruct IH as [Hin Hmax]. unfold qmax, qltb. destruct (Qclt_le_dec x y) as [Hlt|Hle].
    + split; [now right|]. intros z [Hz|Hz]; [inversion Hz; subst; now apply Qclt_le_weak|now apply Hmax].
    + split; [now left|]. intros z [Hz|Hz]; [inversion Hz; subst; apply Qcle_refl|].
      eapply Qcle_trans; [now apply Hmax|exact Hle].
  - split; [now left|]. intros z [Hz|Hz]; [inversion Hz; subst; apply Qcle_refl|].
    rewrite Forall_forall in IH. specialize (IH _ Hz). discriminate.
  - destruct IH as [Hin Hmax]. split; [now right|]. intros z [Hz|Hz]; [discriminate|now apply Hmax].
  - now constructor.
Qed.

Lemma ext_max_perm l l' : Permutation l l' -> ext_max l = ext_max l'.
Proof.
  intros HP. pose proof (ext_max_spec l) as H1. pose proof (ext_max_spec l') as H2.
  destruct (ext_max l) as [m|], (ext_max l') as [m'|].
  - destruct H1 as [Hin1 Hmax1], H2 as [Hin2 Hmax2]. f_equal. apply Qcle_antisym.
    + apply Hmax2. eapply Permutation_in; eassumption.
    + apply Hmax1. eapply Permutation_in; [apply Permutation_sym|]; eassumption.
  - destruct H1 as [Hin1 _]. rewrite Forall_forall in H2.
    specialize (H2 _ (Permutation_in _ HP Hin1)). discriminate.
  - destruct H2 as [Hin2 _]. rewrite Forall_forall in H1.
    specialize (H1 _ (Permutation_in _ (Permutation_sym HP) Hin2)). discriminate.
  - reflexivity.
Qed.

Lemma filter_length_perm {A} (f : A -> bool) l l' :
  Permutation l l' -> length (filter f l) = length (filter f l').
Proof.
  induction 1 as [|x l l' _ IH|x y l|l l' l'' _ IH1 _ IH2]; cbn [filter].
  - reflexivity.
  - destruct (f x); cbn [length]; now rewrite IH.
  - destruct (f x), (f y); reflexivity.
  - congruence.
Qed.

Theorem logsumexp_perm orc l l' : Permutation l l' -> logsumexp orc l = logsumexp orc l'.
Proof.
  intros HP. unfold logsumexp. rewrite (ext_max_perm _ _ HP).
  destruct (ext_max l') as [amax|]; [|reflexivity].
  rewrite (qsum_perm _ _ (Permutation_map (lse_shifted orc amax) HP)).
  unfold qlen. now rewrite (filter_length_perm (lse_ismax amax) _ _ HP).
Qed.

Theorem logsumexp_none_iff orc l : logsumexp orc l = None <-> Forall (fun a => a = None) l.
Proof.
  unfold logsumexp. pose proof (ext_max_spec l) as H. destruct (ext_max l) as [m|].
  - split; [discriminate|]. intros HF. destruct H as [Hin _].
    rewrite Forall_forall in HF. specialize (HF _ Hin). discriminate.
  - tauto.
Qed.
