(* C14, one piece of Proofs/C14SourceHelpers.v (which see): Plate.plate_name *)
From Coq Require Import ZArith List Bool Arith Lia ZifyBool.
From Batchie Require Import Lib.Sexp Lib.PyRt Generated.Consts Model.Encode Model.Screen Model.Views
  Generated.SrcEncode Generated.SrcViews Generated.SrcPlates
  Proofs.PyRtLemmas Proofs.C01Sort Proofs.C14Defs Proofs.C14Lists Proofs.C14Unique
  Proofs.C14SourceHelpers_Base.
Import ListNotations.
Open Scope Z_scope.

Theorem src_plate_name_is_model : forall v : view, src_plate_name v = view_plate_name v.
Proof.
  intros v. unfold src_plate_name, view_plate_name, view_plate_names, view_screen. cbn [snd].
  rewrite list_get_0. destruct (select (v_sel v) (map r_plate (s_rows (v_parent v)))); reflexivity.
Qed.
