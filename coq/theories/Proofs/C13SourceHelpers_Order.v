(* C13 / C11, one piece of Proofs/C13SourceHelpers.v (representation and side conditions: see there): plate.size = plate_size; Plate.__lt__ = the order of pop *)
From Coq Require Import ZArith List Bool Arith Lia ZifyBool.
From Batchie Require Import Lib.Sexp Lib.PyRt Generated.Consts Model.Encode Model.Screen Model.Views Model.Retro Model.RetroHoldout
  Generated.SrcEncode Generated.SrcViews Generated.SrcPlates
  Proofs.PyRtLemmas Proofs.C01Sort Proofs.C01Encode Proofs.C14Defs Proofs.C14Lists Proofs.C14Unique Proofs.C14Views
  Proofs.C14ToScreen
  Proofs.C14Source_ViewSize Proofs.C14SourceHelpers_Base Proofs.C14SourceHelpers_PlateLt Proofs.C13SourceHelpers_Base.
Import ListNotations.
Open Scope nat_scope.

(* ---------------- plate.size = plate_size; Plate.__lt__ = the order of pop ---------------- *)

Theorem src_view_size_is_plate_size : forall v : view, screen_wf (v_parent v) -> view_ok v ->
  src_view_size v = Ok (plate_size (v_sel v)).
Proof. intros v Hwf Hok. rewrite src_view_size_is_model. f_equal. now apply view_size_vcount. Qed.

Theorem src_plate_lt_is_vcount_lt : forall a b : view, view_ok a -> view_ok b ->
  src_plate_lt a b = Ok (vcount (v_sel a) <? vcount (v_sel b)).
Proof.
  intros a b Ha Hb. rewrite src_plate_lt_is_model. unfold view_lt, view_size, view_tids.
  now rewrite !vcount_select by assumption.
Qed.

(* what [pop] demands of heapq's answer - `forallb (fun w => vcount v <=? vcount w) heap` - is that no plate of the heap is
   smaller than it in the order Plate.__lt__ defines *)
Theorem pop_minimality_is_plate_lt : forall (v : view) (heap : list view), view_ok v -> Forall view_ok heap ->
  forallb (fun w => vcount (v_sel v) <=? vcount w) (map v_sel heap) = true <->
  (forall w, In w heap -> src_plate_lt w v = Ok false).
Proof.
  intros v heap Hv Hh. rewrite forallb_map, forallb_forall. rewrite Forall_forall in Hh. split.
  - intros H w Hw. rewrite src_plate_lt_is_vcount_lt by auto. specialize (H w Hw). f_equal.
    apply Nat.ltb_ge. now apply Nat.leb_le.
  - intros H w Hw. specialize (H w Hw). rewrite src_plate_lt_is_vcount_lt in H by auto. injection H as H.
    apply Nat.leb_le. now apply Nat.ltb_ge.
Qed.
