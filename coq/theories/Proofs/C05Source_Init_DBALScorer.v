(* C05: GaussianDBALScorer.__init__ (Generated/SrcInits.v) stores its arguments: the attributes the translated methods of the class read
   (`self.<attr>` = the model parameter of their links) are the values the object was constructed with - (max_chunk, max_triples) *)
From Coq Require Import ZArith List Bool.
From Batchie Require Import Lib.Sexp Lib.PyRt Model.Encode Generated.SrcInits.
Import ListNotations.
Open Scope Z_scope.

Theorem src_dbal_scorer_init_stores : forall max_chunk max_triples : Z, src_dbal_scorer_init max_chunk max_triples = Ok (max_chunk, max_triples).
Proof. reflexivity. Qed.
