(* C04: ComboGridFactorModel._add_observations (models/grid_combo.py) - the hand model Train.grid_inner / grid_add / train_grid
   equals the translation of the WHOLE method regenerated on every run (Generated/SrcTrainGrid.v, configuration C04_GRID_ADD),
   and the property's clauses for this third shipped model class. *)
From Coq Require Import ZArith List Bool QArith Qcanon Lia.
From Batchie Require Import Lib.Sexp Lib.Num Lib.PyRt Generated.Consts Model.Train Generated.SrcTrain Generated.SrcTrainGrid
  Proofs.C04Train Proofs.C04Source.
Import ListNotations.
Open Scope Z_scope.

Section Grid.
Variable C : Type.
Variable u : unpack_fn C.

Lemma grid_cols_app (a b : list (gtrip C)) :
  grid_cols (a ++ b) =
  let '(s1, c1, e1, d1, f1, y1) := grid_cols a in
  let '(s2, c2, e2, d2, f2, y2) := grid_cols b in
  (s1 ++ s2, c1 ++ c2, e1 ++ e2, d1 ++ d2, f1 ++ f2, y1 ++ y2).
Proof. unfold grid_cols. rewrite !map_app. reflexivity. Qed.

Lemma grid_cols_new (rows : list trow) :
  grid_cols (map (grid_trip u) rows) =
  let '(s, a, b, c, d) := unpack_cols u (map (fun r => {| t_sample := t_sample r; t_plate := t_plate r; t_treats := t_treats r;
                                                           t_obs := t_obs r; t_mask := true |}) rows) in
  (s, c, d, a, b, map (fun r => oclip01 (t_obs r)) rows).
Proof.
  unfold grid_cols, unpack_cols, grid_trip. cbn [gt_u gt_y].
  assert (E : forall (l : list trow),
    filter t_mask (map (fun r => {| t_sample := t_sample r; t_plate := t_plate r; t_treats := t_treats r; t_obs := t_obs r; t_mask := true |}) l)
    = map (fun r => {| t_sample := t_sample r; t_plate := t_plate r; t_treats := t_treats r; t_obs := t_obs r; t_mask := true |}) l).
  { induction l as [|x l IH]; [reflexivity|]. cbn [map filter t_mask]. now rewrite IH. }
  rewrite E, !map_map. cbn [t_sample t_treats]. reflexivity.
Qed.

Lemma unpack_cols_filter (rows : list trow) :
  unpack_cols u rows =
  (map (fun r => match u (t_sample r) (t_treats r) with (s, _, _, _, _) => s end) (filter t_mask rows),
   map (fun r => match u (t_sample r) (t_treats r) with (_, a, _, _, _) => a end) (filter t_mask rows),
   map (fun r => match u (t_sample r) (t_treats r) with (_, _, b, _, _) => b end) (filter t_mask rows),
   map (fun r => match u (t_sample r) (t_treats r) with (_, _, _, c, _) => c end) (filter t_mask rows),
   map (fun r => match u (t_sample r) (t_treats r) with (_, _, _, _, d) => d end) (filter t_mask rows)).
Proof. unfold unpack_cols. rewrite !map_map. reflexivity. Qed.

(* the translated method on the object holding the training entries [st] = the model, for every st and row list *)
Theorem src_grid_add_observations_is_model : forall (st : list (gtrip C)) (rows : list trow),
  (let '(s, c, e, d, f, y) := grid_cols st in src_grid_add_observations C u s c e d f y rows)
  = dor t <- grid_inner u st rows; Ok (grid_cols t).
Proof.
  intros st rows. unfold grid_inner.
  destruct (grid_cols st) as [[[[[s c] e] d] f] y] eqn:Est.
  unfold src_grid_add_observations. rewrite map_map, all_true_map.
  destruct (forallb (fun r => o_nonneg (t_obs r)) rows); cbn [negb res_bind]; [|reflexivity].
  rewrite unpack_cols_filter. cbv zeta. rewrite select_map_map.
  f_equal. rewrite grid_cols_app, Est.
  unfold grid_cols, grid_trip. rewrite !map_map. cbn [gt_u gt_y]. unfold oclip01. reflexivity.
Qed.

Theorem src_grid_add_is_model : forall (st : list (gtrip C)) (rows : list trow),
  src_add_observations _
    (fun (self : list Z * list C * list C * list Z * list Z * list oval) d =>
       let '(s, c, e, dd, f, y) := self in src_grid_add_observations C u s c e dd f y d)
    (grid_cols st) rows
  = dor t <- grid_add u st rows; Ok (grid_cols t).
Proof.
  intros st rows. rewrite src_add_observations_is_model. unfold grid_add, add_observations.
  destruct (forallb t_mask rows); [apply src_grid_add_observations_is_model | reflexivity].
Qed.

(* ---- the property's clauses ---- *)
Lemma train_grid_noninterference (s1 s2 : list trow) : same_except_masked s1 s2 -> train_grid u s1 = train_grid u s2.
Proof. intros H. unfold train_grid. now rewrite (train_input_noninterference s1 s2 H). Qed.

Lemma train_grid_exactly_once (rows : list trow) :
  (forall t, train_grid u rows = Ok t -> t = map (grid_trip u) (filter t_mask rows)) /\
  ((forall r, In r rows -> t_mask r = true -> o_nonneg (t_obs r) = true) -> exists t, train_grid u rows = Ok t).
Proof.
  unfold train_grid, train_input, grid_add, add_observations, grid_inner.
  destruct (existsb t_mask rows) eqn:Ex.
  - rewrite forallb_filter_self, filter_idem. split.
    + intros t. destruct (forallb _ _); cbn [negb]; intros H; inversion H. reflexivity.
    + intros H. assert (F : forallb (fun r => o_nonneg (t_obs r)) (filter t_mask rows) = true).
      { apply forallb_forall. intros r Hr. apply filter_In in Hr as [Hi Hm]. now apply H. }
      rewrite F. cbn [negb]. eexists. reflexivity.
  - split.
    + intros t H. inversion H. now rewrite (existsb_false_filter_nil _ _ Ex).
    + intros _. eexists. reflexivity.
Qed.

Lemma grid_refuses_masked (st : list (gtrip C)) (rows : list trow) r :
  In r rows -> t_mask r = false -> grid_add u st rows = Err 1.
Proof. intros Hi Hm. unfold grid_add. exact (add_observations_refuses_masked _ _ rows r Hi Hm). Qed.

Lemma grid_refuses_negative_nan (st : list (gtrip C)) (rows : list trow) r :
  In r rows -> (o_negative (t_obs r) = true \/ t_obs r = ONaN) ->
  (exists t, grid_add u st rows = Err t) /\ (t_mask r = true -> exists t, train_grid u rows = Err t).
Proof.
  intros Hi Hb. pose proof (bad_obs_not_nonneg (t_obs r) Hb) as Hn.
  split.
  - unfold grid_add, add_observations, grid_inner. destruct (forallb t_mask rows); [|eexists; reflexivity].
    rewrite (forallb_false_of_In _ rows r Hi Hn). cbn [negb]. eexists. reflexivity.
  - intros Hm. unfold train_grid, train_input. rewrite (existsb_true_of_In t_mask rows r Hi Hm).
    unfold grid_add, add_observations, grid_inner. rewrite forallb_filter_self.
    rewrite (forallb_false_of_In _ (filter t_mask rows) r); [cbn [negb]; eexists; reflexivity| |exact Hn].
    apply filter_In. now split.
Qed.
End Grid.
