(* C12: the lifecycle operations on masks, values and plates. *)
From Coq Require Import ZArith List Bool Lia Arith.
From Batchie Require Import Lib.Sexp Generated.Consts Model.Encode Model.Screen Model.Reveal Model.Holdout
  Proofs.C03Base Proofs.C03Screen.
Import ListNotations.
Open Scope Z_scope.

(* ---------- list helpers ---------- *)
Lemma combine_map_fst {A B} (l1 : list A) (l2 : list B) :
  length l2 = length l1 -> map fst (combine l1 l2) = l1.
Proof.
  revert l2; induction l1 as [|a l1 IH]; intros [|b l2] H; cbn [combine map fst length] in *; try discriminate; [reflexivity|].
  f_equal. apply IH. lia.
Qed.

Lemma combine_map_r {A B C} (f : B -> C) (l1 : list A) (l2 : list B) :
  combine l1 (map f l2) = map (fun p => (fst p, f (snd p))) (combine l1 l2).
Proof.
  revert l2; induction l1 as [|a l1 IH]; intros [|b l2]; cbn [combine map fst snd]; try reflexivity. now rewrite IH.
Qed.

Lemma combine_map_self {A B C} (g : A * B -> C) (l1 : list A) (l2 : list B) :
  combine (map g (combine l1 l2)) l2 = map (fun p => (g p, snd p)) (combine l1 l2).
Proof.
  revert l2; induction l1 as [|a l1 IH]; intros [|b l2]; cbn [combine map fst snd]; try reflexivity. now rewrite IH.
Qed.

Lemma nth_error_map_inv {A B} (f : A -> B) l i y :
  nth_error (map f l) i = Some y -> exists x, nth_error l i = Some x /\ y = f x.
Proof.
  rewrite nth_error_map. destruct (nth_error l i) as [x|]; cbn [option_map]; [|discriminate].
  intros H; inversion H. now exists x.
Qed.

Lemma nth_error_combine {A B} (l1 : list A) (l2 : list B) i a b :
  nth_error (combine l1 l2) i = Some (a, b) -> nth_error l1 i = Some a /\ nth_error l2 i = Some b.
Proof.
  revert l2 i; induction l1 as [|x l1 IH]; intros [|y l2] [|i]; cbn [combine nth_error]; try discriminate.
  - intros H; inversion H; auto.
  - apply IH.
Qed.

Lemma In_combine_nth {A B} (l1 : list A) (l2 : list B) a b :
  In (a, b) (combine l1 l2) -> exists i, nth_error l1 i = Some a /\ nth_error l2 i = Some b.
Proof.
  intros H. apply In_nth_error in H. destruct H as [i Hi]. exists i. now apply nth_error_combine.
Qed.

Lemma filter_split_length {A} (p q : A -> bool) l :
  length (filter p l) = (length (filter (fun x => p x && negb (q x)) l) + length (filter (fun x => p x && q x) l))%nat.
Proof.
  induction l as [|a l IH]; cbn [filter length]; [reflexivity|].
  destruct (p a), (q a); cbn [andb negb length]; lia.
Qed.

Lemma filter_ext_in' {A} (f g : A -> bool) l : (forall x, In x l -> f x = g x) -> filter f l = filter g l.
Proof.
  induction l as [|a l IH]; intros H; cbn [filter]; [reflexivity|].
  rewrite (H a) by now left. rewrite IH by (intros x Hx; apply H; now right). reflexivity.
Qed.

(* ---------- rows ---------- *)
(* everything of a row except the mask *)
Definition row_core (r : row) : name * name * list tkey * Z := (r_sample r, r_plate r, r_treats r, r_obs r).

Lemma with_mask_core b r : row_core (with_mask b r) = row_core r.
Proof. reflexivity. Qed.
Lemma with_mask_mask b r : r_mask (with_mask b r) = b.
Proof. reflexivity. Qed.

Lemma row_eq r1 r2 : row_core r1 = row_core r2 -> r_mask r1 = r_mask r2 -> r1 = r2.
Proof.
  destruct r1 as [a1 b1 c1 d1 e1], r2 as [a2 b2 c2 d2 e2]. unfold row_core.
  cbn [r_sample r_plate r_treats r_obs r_mask]. intros H ->. now inversion H.
Qed.

(* the new row reveal builds from (old row, its plate id) *)
Definition reveal_row (ids : list Z) (rp : row * Z) : row :=
  with_mask (r_mask (fst rp) || mem_Z (snd rp) ids) (fst rp).

Lemma reveal_rows_eq s ids :
  reveal_rows s ids = map (reveal_row ids) (combine (s_rows s) (s_pids s)).
Proof. unfold reveal_rows, reveal_sel. rewrite combine_map_r, map_map. reflexivity. Qed.

(* the plate ids of a screen are the encoding of its plate names *)
Definition plates_encoded (s : screen) : Prop :=
  encode_names (map r_plate (s_rows s)) None 6 = Ok (s_pids s, s_pmap s).

Lemma constructed_plates s : constructed s -> plates_encoded s.
Proof.
  intros (rows & a & c & tm & sm & og & mg & H). destruct (mk_screen_inv _ _ _ _ _ _ _ _ H) as [tflat B].
  unfold plates_encoded. rewrite (b_rows _ _ _ _ _ _ _ _ _ B). exact (b_plates _ _ _ _ _ _ _ _ _ B).
Qed.

Lemma constructed_uniform s : constructed s -> plate_uniform (s_rows s) = true.
Proof.
  intros (rows & a & c & tm & sm & og & mg & H). destruct (mk_screen_inv _ _ _ _ _ _ _ _ H) as [tflat B].
  rewrite (b_rows _ _ _ _ _ _ _ _ _ B). exact (b_uniform _ _ _ _ _ _ _ _ _ B).
Qed.

Lemma plates_encoded_length s : plates_encoded s -> length (s_pids s) = length (s_rows s).
Proof.
  intros H. apply encode_names_inv in H. destruct H as [_ H]. apply opt_map_all_length in H. now rewrite map_length in H.
Qed.

Lemma plates_encoded_lookup s r pid :
  plates_encoded s -> In (r, pid) (combine (s_rows s) (s_pids s)) -> nlookup (s_pmap s) (r_plate r) = Some pid.
Proof.
  intros H Hin. apply encode_names_inv in H. destruct H as [_ H].
  destruct (In_combine_nth _ _ _ _ Hin) as (i & Hr & Hp).
  apply opt_map_all_Some in H. apply (f_equal (fun l => nth_error l i)) in H.
  rewrite !nth_error_map, Hr, Hp in H. cbn [option_map] in H. now inversion H.
Qed.

(* same plate name => same plate id *)
Lemma plates_encoded_same s r1 p1 r2 p2 :
  plates_encoded s -> In (r1, p1) (combine (s_rows s) (s_pids s)) -> In (r2, p2) (combine (s_rows s) (s_pids s)) ->
  r_plate r1 = r_plate r2 -> p1 = p2.
Proof.
  intros H H1 H2 Hp. apply (plates_encoded_lookup s _ _ H) in H1. apply (plates_encoded_lookup s _ _ H) in H2.
  rewrite Hp in H1. congruence.
Qed.

(* same plate id => same plate name *)
Lemma plates_encoded_inj s r1 r2 p :
  plates_encoded s -> In (r1, p) (combine (s_rows s) (s_pids s)) -> In (r2, p) (combine (s_rows s) (s_pids s)) ->
  r_plate r1 = r_plate r2.
Proof.
  intros H H1 H2. pose proof (plates_encoded_lookup s _ _ H H1) as L1. pose proof (plates_encoded_lookup s _ _ H H2) as L2.
  apply encode_names_inv in H. destruct H as [Hm _]. rewrite Hm in L1, L2. eapply build_nmapping_inj; eassumption.
Qed.

Lemma map_core_reveal_rows s ids :
  length (s_pids s) = length (s_rows s) -> map row_core (reveal_rows s ids) = map row_core (s_rows s).
Proof.
  intros Hl. rewrite reveal_rows_eq, map_map.
  rewrite (map_ext _ (fun rp => row_core (fst rp))) by reflexivity.
  rewrite <- map_map. now rewrite combine_map_fst.
Qed.

Lemma map_core_proj rows rows' :
  map row_core rows' = map row_core rows ->
  map r_sample rows' = map r_sample rows /\ map r_plate rows' = map r_plate rows /\
  map r_treats rows' = map r_treats rows /\ map r_obs rows' = map r_obs rows.
Proof.
  intros H.
  assert (A : forall (f : name * name * list tkey * Z -> name), map (fun r => f (row_core r)) rows' = map (fun r => f (row_core r)) rows)
    by (intros f; rewrite <- !(map_map row_core f); now rewrite H).
  assert (B : forall (f : name * name * list tkey * Z -> list tkey), map (fun r => f (row_core r)) rows' = map (fun r => f (row_core r)) rows)
    by (intros f; rewrite <- !(map_map row_core f); now rewrite H).
  assert (C : forall (f : name * name * list tkey * Z -> Z), map (fun r => f (row_core r)) rows' = map (fun r => f (row_core r)) rows)
    by (intros f; rewrite <- !(map_map row_core f); now rewrite H).
  repeat split.
  - exact (A (fun x => fst (fst (fst x)))).
  - exact (A (fun x => snd (fst (fst x)))).
  - exact (B (fun x => snd (fst x))).
  - exact (C (fun x => snd x)).
Qed.

(* ---------- rebuild ---------- *)
Lemma rebuild_inv carry s rows s' :
  rebuild carry s rows = Ok s' ->
  s_rows s' = rows /\ plate_uniform rows = true /\
  encode_names (map r_plate rows) None 6 = Ok (s_pids s', s_pmap s') /\
  s_arity s' = s_arity s /\ s_ctrl s' = s_ctrl s /\ constructed s'.
Proof.
  unfold rebuild. intros H. pose proof H as H0. apply mk_screen_inv in H. destruct H as [tflat B].
  pose proof (b_rows _ _ _ _ _ _ _ _ _ B) as Hr. pose proof (b_uniform _ _ _ _ _ _ _ _ _ B) as Hu.
  pose proof (b_plates _ _ _ _ _ _ _ _ _ B) as Hp. rewrite norm_rows_tt in *.
  repeat split; auto.
  - exact (b_ar _ _ _ _ _ _ _ _ _ B).
  - exact (b_ctrl _ _ _ _ _ _ _ _ _ B).
  - do 7 eexists. exact H0.
Qed.

Lemma rebuild_same_plates carry s rows s' :
  plates_encoded s -> map r_plate rows = map r_plate (s_rows s) -> rebuild carry s rows = Ok s' ->
  s_pids s' = s_pids s /\ s_pmap s' = s_pmap s.
Proof.
  intros Hs Hp H. apply rebuild_inv in H. destruct H as (_ & _ & He & _).
  rewrite Hp in He. unfold plates_encoded in Hs. rewrite Hs in He. now inversion He.
Qed.

(* ---------- reveal ---------- *)
Lemma reveal_plates_inv v s ids s' :
  reveal_plates v s ids = Ok s' ->
  reveal_zero_guard s ids = false /\ existsb obs_is_nan (revealed_values s ids) = false /\
  rebuild (carry_reveal v) s (reveal_rows s ids) = Ok s'.
Proof.
  unfold reveal_plates. destruct (reveal_zero_guard s ids); [discriminate|].
  destruct (existsb obs_is_nan _); [discriminate|]. auto.
Qed.

Theorem reveal_exact v s ids s' :
  plates_encoded s -> reveal_plates v s ids = Ok s' ->
  s_rows s' = map (reveal_row ids) (combine (s_rows s) (s_pids s)) /\
  map row_core (s_rows s') = map row_core (s_rows s) /\
  s_pids s' = s_pids s /\ s_pmap s' = s_pmap s.
Proof.
  intros Hs H. apply reveal_plates_inv in H. destruct H as (_ & _ & H).
  pose proof (plates_encoded_length s Hs) as Hl.
  pose proof (map_core_reveal_rows s ids Hl) as Hc.
  destruct (rebuild_same_plates _ _ _ _ Hs (proj1 (proj2 (map_core_proj _ _ Hc))) H) as [Hp Hm].
  apply rebuild_inv in H. destruct H as (Hr & _).
  rewrite Hr. repeat split; auto. apply reveal_rows_eq.
Qed.

Theorem reveal_monotone v s ids s' i r r' :
  plates_encoded s -> reveal_plates v s ids = Ok s' ->
  nth_error (s_rows s) i = Some r -> nth_error (s_rows s') i = Some r' ->
  row_core r' = row_core r /\ (r_mask r = true -> r_mask r' = true).
Proof.
  intros Hs H Hr Hr'. destruct (reveal_exact v s ids s' Hs H) as (Hrows & _).
  rewrite Hrows in Hr'. apply nth_error_map_inv in Hr'. destruct Hr' as ([r0 p] & Hc & ->).
  apply nth_error_combine in Hc. destruct Hc as [Hc _]. rewrite Hr in Hc. inversion Hc; subst r0.
  unfold reveal_row. cbn [fst snd]. split; [reflexivity|]. intros ->. reflexivity.
Qed.

(* the row-by-row mask equation *)
Theorem reveal_mask_eq v s ids s' :
  plates_encoded s -> reveal_plates v s ids = Ok s' ->
  map r_mask (s_rows s') = map (fun rp => r_mask (fst rp) || mem_Z (snd rp) ids) (combine (s_rows s) (s_pids s)).
Proof.
  intros Hs H. destruct (reveal_exact v s ids s' Hs H) as (Hrows & _). rewrite Hrows, map_map. reflexivity.
Qed.

(* refusals *)
Theorem reveal_refuses_guard v s ids :
  reveal_zero_guard s ids = true -> reveal_plates v s ids = Err 8.
Proof. unfold reveal_plates. now intros ->. Qed.

Theorem reveal_refuses_zero v s ids :
  forallb obs_is_zero (revealed_values s ids) = true -> reveal_plates v s ids = Err 8.
Proof. intros H. apply reveal_refuses_guard. unfold reveal_zero_guard. now rewrite H. Qed.

Lemma select_all_false {A} (sel : list bool) (l : list A) :
  (forall b, In b sel -> b = false) -> select sel l = [].
Proof.
  revert l; induction sel as [|b sel IH]; intros l H; cbn [select]; [reflexivity|].
  destruct l as [|a l]; [reflexivity|].
  rewrite (H b) by now left. apply IH. intros b' Hb'. apply H. now right.
Qed.

Theorem reveal_refuses_unknown v s ids :
  (forall pid, In pid ids -> ~ In pid (s_pids s)) -> reveal_plates v s ids = Err 8.
Proof.
  intros H. apply reveal_refuses_zero. unfold revealed_values.
  rewrite select_all_false; [reflexivity|].
  intros b Hb. unfold reveal_sel in Hb. apply in_map_iff in Hb. destruct Hb as (pid & <- & Hpid).
  unfold mem_Z. destruct (existsb (Z.eqb pid) ids) eqn:E; [|reflexivity].
  apply existsb_exists in E. destruct E as (x & Hx & Heq). apply Z.eqb_eq in Heq. subst x.
  exfalso. exact (H pid Hx Hpid).
Qed.

Lemma obs_nan_not_zero b : obs_is_nan b = true -> obs_is_zero b = false.
Proof.
  unfold obs_is_zero. intros H.
  destruct (b =? 0) eqn:E0; [apply Z.eqb_eq in E0; subst b; vm_compute in H; discriminate|].
  destruct (b =? two63) eqn:E1; [apply Z.eqb_eq in E1; subst b; vm_compute in H; discriminate|].
  reflexivity.
Qed.

(* a selection containing a NaN is refused: with the NaN error unless the zero guard (which the code tests first:
   some OTHER selected plate holds only zeros) already refused it - never because the selected values are jointly zero *)
Theorem reveal_refuses_nan v s ids :
  existsb obs_is_nan (revealed_values s ids) = true ->
  forallb obs_is_zero (revealed_values s ids) = false /\
  reveal_plates v s ids = Err (if reveal_zero_guard s ids then 8 else 9).
Proof.
  intros H. split.
  - destruct (forallb obs_is_zero (revealed_values s ids)) eqn:E; [|reflexivity].
    exfalso. apply existsb_exists in H. destruct H as (b & Hb & Hn).
    rewrite forallb_forall in E. specialize (E b Hb). now rewrite (obs_nan_not_zero b Hn) in E.
  - unfold reveal_plates. rewrite H. now destruct (reveal_zero_guard s ids).
Qed.

(* ---------- mask / unmask / save+load ---------- *)
Theorem mask_exact v s s' :
  plates_encoded s -> mask_screen v s = Ok s' ->
  s_rows s' = map (with_mask false) (s_rows s) /\ s_pids s' = s_pids s /\ s_pmap s' = s_pmap s.
Proof.
  intros Hs H. unfold mask_screen in H.
  assert (Hp : map r_plate (map (with_mask false) (s_rows s)) = map r_plate (s_rows s)) by (rewrite map_map; reflexivity).
  destruct (rebuild_same_plates _ _ _ _ Hs Hp H) as [A B]. apply rebuild_inv in H. destruct H as (Hr & _). auto.
Qed.

Theorem unmask_exact v s s' :
  plates_encoded s -> unmask_screen v s = Ok s' ->
  s_rows s' = map (with_mask true) (s_rows s) /\ s_pids s' = s_pids s /\ s_pmap s' = s_pmap s.
Proof.
  intros Hs H. unfold unmask_screen in H.
  assert (Hp : map r_plate (map (with_mask true) (s_rows s)) = map r_plate (s_rows s)) by (rewrite map_map; reflexivity).
  destruct (rebuild_same_plates _ _ _ _ Hs Hp H) as [A B]. apply rebuild_inv in H. destruct H as (Hr & _). auto.
Qed.

Lemma save_load_inv s s' :
  save_load s = Ok s' ->
  s_rows s' = s_rows s /\ s_tmap s' = s_tmap s /\ s_smap s' = s_smap s /\ s_arity s' = s_arity s /\ s_ctrl s' = s_ctrl s /\
  encode_names (map r_plate (s_rows s)) None 6 = Ok (s_pids s', s_pmap s') /\ constructed s'.
Proof.
  unfold save_load. intros H. pose proof H as H0. apply mk_screen_inv in H. destruct H as [tflat B].
  pose proof (b_rows _ _ _ _ _ _ _ _ _ B) as Hr. pose proof (b_plates _ _ _ _ _ _ _ _ _ B) as Hp.
  pose proof (b_treats _ _ _ _ _ _ _ _ _ B) as Ht. pose proof (b_samples _ _ _ _ _ _ _ _ _ B) as Hsm.
  rewrite norm_rows_tt in *. cbn [option_map fst] in Ht, Hsm.
  apply encode_treatments_inv in Ht. apply encode_names_inv in Hsm.
  repeat split; auto; try tauto.
  - exact (b_ar _ _ _ _ _ _ _ _ _ B).
  - exact (b_ctrl _ _ _ _ _ _ _ _ _ B).
  - do 7 eexists. exact H0.
Qed.

Theorem save_load_exact s s' :
  plates_encoded s -> save_load s = Ok s' ->
  s_rows s' = s_rows s /\ s_pids s' = s_pids s /\ s_pmap s' = s_pmap s.
Proof.
  intros Hs H. apply save_load_inv in H. destruct H as (Hr & _ & _ & _ & _ & Hp & _).
  unfold plates_encoded in Hs. rewrite Hs in Hp. inversion Hp. auto.
Qed.

(* ---------- histories ---------- *)
Lemma fold_Err v ops t : fold_left (fun acc o => dor s <- acc; step v s o) ops (Err t) = Err t.
Proof. induction ops as [|o ops IH]; cbn [fold_left res_bind]; [reflexivity|exact IH]. Qed.

Lemma history_cons v o ops s0 : history v (o :: ops) s0 = dor s1 <- step v s0 o; history v ops s1.
Proof.
  unfold history. cbn [fold_left res_bind]. destruct (step v s0 o) as [s1|t]; cbn [res_bind]; [reflexivity|apply fold_Err].
Qed.

Lemma history_nil v s0 : history v [] s0 = Ok s0.
Proof. reflexivity. Qed.

Lemma history_invariant (P : screen -> Prop) v :
  (forall s o s', P s -> step v s o = Ok s' -> P s') ->
  forall ops s0 s, P s0 -> history v ops s0 = Ok s -> P s.
Proof.
  intros Hstep ops. induction ops as [|o ops IH]; intros s0 s H0 H.
  - rewrite history_nil in H. now inversion H; subst.
  - rewrite history_cons in H. destruct (step v s0 o) as [s1|t] eqn:E; cbn [res_bind] in H; [|discriminate].
    eapply IH; [|exact H]. eapply Hstep; eassumption.
Qed.

Lemma step_constructed v s o s' : step v s o = Ok s' -> constructed s'.
Proof.
  destruct o as [ids| | |]; cbn [step]; intros H.
  - apply reveal_plates_inv in H. destruct H as (_ & _ & H). now apply rebuild_inv in H.
  - now apply rebuild_inv in H.
  - now apply rebuild_inv in H.
  - now apply save_load_inv in H.
Qed.

Theorem atomic_invariant v ops s0 s :
  constructed s0 -> history v ops s0 = Ok s -> plate_uniform (s_rows s) = true.
Proof.
  intros H0 H. apply constructed_uniform.
  revert H. apply (history_invariant constructed v); [|exact H0].
  intros s1 o s' _ Hs. eapply step_constructed; eassumption.
Qed.

Lemma holdout_split_inv p sel tr te :
  holdout_split p sel = Ok (tr, te) ->
  length sel = length (s_rows p) /\
  mk_screen (select (map negb sel) (s_rows p)) (s_arity p) (s_ctrl p) (Some (s_tmap p, true)) (Some (s_smap p, true)) true true = Ok tr /\
  mk_screen (map (with_mask true) (select sel (s_rows p))) (s_arity p) (s_ctrl p) (Some (s_tmap p, true)) (Some (s_smap p, true)) true true = Ok te.
Proof.
  unfold holdout_split. destruct (Nat.eqb (length sel) (length (s_rows p))) eqn:E; cbn [negb]; [|discriminate].
  apply Nat.eqb_eq in E.
  destruct (mk_screen (select (map negb sel) _) _ _ _ _ true true) as [tr'|] eqn:E1; cbn [res_bind]; [|discriminate].
  destruct (mk_screen (map (with_mask true) _) _ _ _ _ true true) as [te'|] eqn:E2; cbn [res_bind]; [|discriminate].
  intros H; inversion H; subst. auto.
Qed.

Lemma holdout_constructed p sel pr t : holdout_split p sel = Ok pr -> constructed (half t pr).
Proof.
  destruct pr as [tr te]. intros H. apply holdout_split_inv in H. destruct H as (_ & H1 & H2).
  destruct t; cbn [half fst snd]; do 7 eexists; eassumption.
Qed.

Theorem atomic_invariant_lifecycle v p sel t ops s :
  lifecycle v p sel t ops = Ok s -> plate_uniform (s_rows s) = true.
Proof.
  unfold lifecycle. destruct (holdout_split p sel) as [pr|] eqn:E; cbn [res_bind]; [|discriminate].
  apply atomic_invariant. eapply holdout_constructed; eassumption.
Qed.
