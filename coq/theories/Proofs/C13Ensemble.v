(* C13: the per-sample minimum THROUGH the ensemble smoother (MergeMin, MergeTopBottom, OptimalSize, NPlatePerCellLine in
   this order): the last stage is the per-sample-minimum smoother run on what the first three leave, so its guarantee is the
   ensemble's. *)
From Coq Require Import ZArith List Bool Arith Lia Permutation.
From Batchie Require Import Lib.Sexp Model.Encode Model.Screen Model.Retro
  Proofs.C11Lib Proofs.C11Gen Proofs.C11Smooth Proofs.C11Select Proofs.C11Holdout
  Proofs.C13Wrap Proofs.C13NPlate Proofs.C13MergeLib Proofs.C13Shapes.
Import ListNotations.

Lemma unobserved_idem : forall rows, unobserved (unobserved rows) = unobserved rows.
Proof.
  intros rows. unfold unobserved. induction rows as [|r rows IH]; cbn [filter]; [reflexivity|].
  destruct (negb (r_mask r)) eqn:E; cbn [filter]; [rewrite E; now rewrite IH|exact IH].
Qed.

Theorem ensemble_minimum_w : forall ms n m rows ds out ds',
  smooth_plates (SEnsemble true ms n m) rows ds = Ok (out, ds') ->
  forall s, In s (sample_names (unobserved out)) ->
    (m <= Z.of_nat (length (sample_plates s (unobserved out))))%Z.
Proof.
  intros ms n m rows ds out ds' H s Hs. apply smooth_wrap_unobs in H as [[_ E]|H].
  - rewrite E in Hs. destruct Hs.
  - cbn [smooth_inner] in H. unfold ensemble in H.
    destruct (wrap (merge_min ms) (unobserved rows) ds) as [[s1 d1]|t] eqn:E1; cbn [res_bind] in H; [|discriminate].
    destruct (wrap (pure_sm (merge_tb n)) s1 d1) as [[s2 d2]|t] eqn:E2; cbn [res_bind] in H; [|discriminate].
    destruct (wrap optimal_smooth s2 d2) as [[s3 d3]|t] eqn:E3; cbn [res_bind] in H; [|discriminate].
    change (smooth_plates (SNPlate true m) s3 d3 = Ok (unobserved out, ds')) in H.
    pose proof (nplate_minimum_w m s3 d3 (unobserved out) ds' H s) as Hmin.
    rewrite unobserved_idem in Hmin. now apply Hmin.
Qed.
