(* C18 for the initial cover, about the TRANSLATED source: InitialRetrospectivePlateGenerator.generate_and_unmask_initial_plate
   around SparseCoverPlateGenerator._generate_and_unmask_initial_plate (Generated/SrcRetroGen.v; their only request-making
   primitive is rng.choice(a, size=1) on the function's own generator argument, read as taking the next recorded answer) with the
   fuel C13 proves sufficient: output and unread rest depend on the consumed prefix of the answer stream only. *)
From Coq Require Import ZArith List Bool Arith Lia.
From Batchie Require Import Lib.Sexp Model.Encode Model.Screen Model.Retro Model.RetroInit Generated.SrcRetroGen Proofs.C13SparseTerm Proofs.C13Source Proofs.C18SparseCover.
Import ListNotations.

Theorem src_sparse_cover_explicit_stream : forall ctrl reveal rows ds out ds',
  src_generate_and_unmask_initial_plate
    (fun s d => src_sparse_cover ctrl reveal s d (S (ndistinct (all_tids ctrl rows)))) rows ds = Ok (out, ds') ->
  exists used, ds = used ++ ds' /\
    forall tail, src_generate_and_unmask_initial_plate
                   (fun s d => src_sparse_cover ctrl reveal s d (S (ndistinct (all_tids ctrl rows)))) rows (used ++ tail) = Ok (out, tail).
Proof.
  intros ctrl reveal rows ds out ds' H.
  destruct (link_sparse_cover_generate_and_unmask_initial_plate ctrl reveal rows ds (S (ndistinct (all_tids ctrl rows)))
              (or_intror (Nat.lt_succ_diag_r _))) as (_ & _ & L).
  rewrite L in H. destruct (sparse_cover_explicit_stream _ _ _ _ _ _ H) as (used & Hd & Ht).
  exists used. split; [exact Hd|]. intros tail.
  destruct (link_sparse_cover_generate_and_unmask_initial_plate ctrl reveal rows (used ++ tail) (S (ndistinct (all_tids ctrl rows)))
              (or_intror (Nat.lt_succ_diag_r _))) as (_ & _ & L2).
  rewrite L2. apply Ht.
Qed.
