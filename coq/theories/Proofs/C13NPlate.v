(* C13: NPlatePerCellLine, repaired logic: no sample is left with fewer unobserved plates than
   configured.  (The code as found is refuted in Props/C13.v.) *)
From Coq Require Import ZArith List Bool Arith Lia Permutation.
From Batchie Require Import Lib.Sexp Model.Encode Model.Screen Model.Retro
  Proofs.C11Lib Proofs.C11Gen Proofs.C11Select.
Import ListNotations.
Open Scope nat_scope.

(* the distinct plates holding an experiment of sample s *)
Definition sample_plates (s : name) (rows : list row) : list name :=
  sort_uniq name_cmp (map r_plate (filter (in_sample s) rows)).

Lemma In_sample_plates : forall s rows p,
  In p (sample_plates s rows) <-> exists r, In r rows /\ r_sample r = s /\ r_plate r = p.
Proof.
  intros s rows p. unfold sample_plates. rewrite In_sort_uniq, in_map_iff. split.
  - intros (r & Hp & Hr). apply filter_In in Hr as [Hr Hs]. apply in_sample_true in Hs. eauto.
  - intros (r & Hr & Hs & Hp). exists r. split; [exact Hp|]. apply filter_In. split; [exact Hr|].
    now apply in_sample_true.
Qed.

Lemma res_map_all_Forall2 {A B} (f : A -> result B) : forall l l',
  res_map_all f l = Ok l' -> Forall2 (fun a b => f a = Ok b) l l'.
Proof.
  induction l as [|a l IH]; intros l' H; cbn [res_map_all] in H.
  - inversion H. constructor.
  - destruct (f a) as [b|t] eqn:Ea; cbn [res_bind] in H; [|discriminate].
    destruct (res_map_all f l) as [bs|t]; cbn [res_bind] in H; [|discriminate].
    inversion H; subst. constructor; [exact Ea|now apply IH].
Qed.

(* the dict of counts *)
Fixpoint get (s : name) (counts : list (name * nat)) : nat :=
  match counts with
  | [] => 0
  | (k, c) :: r => if name_eqb k s then c else get s r
  end.

Lemma get_count_add : forall s k counts,
  (forall k' c, In (k', c) counts -> 0 < c) ->
  get s (count_add k counts) = (if name_eqb k s then 1 else 0) + get s counts
  /\ (forall k' c, In (k', c) (count_add k counts) -> 0 < c).
Proof.
  intros s k counts. induction counts as [|[k0 c0] counts IH]; intros Hpos; cbn [count_add get].
  - split; [destruct (name_eqb k s); reflexivity|]. intros k' c [E|[]]. inversion E. lia.
  - destruct (name_eqb k0 k) eqn:E0.
    + apply name_eqb_eq in E0. subst k0. cbn [get]. split.
      * destruct (name_eqb k s); lia.
      * intros k' c [E|Hin]; [inversion E; lia|]. eapply Hpos. right. exact Hin.
    + cbn [get]. destruct IH as [IH1 IH2]; [intros k' c Hin; eapply Hpos; right; exact Hin|]. split.
      * destruct (name_eqb k0 s) eqn:E1.
        -- apply name_eqb_eq in E1. subst k0. rewrite name_eqb_sym in E0. rewrite E0. reflexivity.
        -- exact IH1.
      * intros k' c [E|Hin]; [inversion E; subst; eapply Hpos; left; reflexivity|eapply IH2; exact Hin].
Qed.

Definition occ (s : name) (l : list name) : nat := length (filter (fun k => name_eqb k s) l).

Lemma get_fold : forall s sps acc,
  (forall k' c, In (k', c) acc -> 0 < c) ->
  get s (fold_left (fun a k => count_add k a) sps acc) = occ s sps + get s acc
  /\ (forall k' c, In (k', c) (fold_left (fun a k => count_add k a) sps acc) -> 0 < c).
Proof.
  intros s sps. induction sps as [|k sps IH]; intros acc Hpos; cbn [fold_left].
  - split; [reflexivity|exact Hpos].
  - destruct (get_count_add s k acc Hpos) as [H1 H2]. destruct (IH _ H2) as [H3 H4]. split; [|exact H4].
    rewrite H3, H1. unfold occ. cbn [filter]. destruct (name_eqb k s); cbn [length]; lia.
Qed.

Lemma In_get : forall s counts, 0 < get s counts -> In (s, get s counts) counts.
Proof.
  intros s counts. induction counts as [|[k c] counts IH]; cbn [get]; [lia|].
  destruct (name_eqb k s) eqn:E.
  - apply name_eqb_eq in E. subst. intros _. now left.
  - intros H. right. now apply IH.
Qed.

(* _get_plate_sample_id *)
Lemma plate_sample_ok : forall p rows s, plate_sample p rows = Ok s -> plate_samples p rows = [s].
Proof.
  intros p rows s H. unfold plate_sample in H. destruct (plate_samples p rows) as [|a [|b l]]; congruence.
Qed.

Lemma In_plate_samples : forall p rows s,
  In s (plate_samples p rows) <-> exists r, In r rows /\ r_plate r = p /\ r_sample r = s.
Proof.
  intros p rows s. unfold plate_samples. rewrite In_sort_uniq, in_map_iff. split.
  - intros (r & Hs & Hr). apply filter_In in Hr as [Hr Hp]. apply in_plate_true in Hp. eauto.
  - intros (r & Hr & Hp & Hs). exists r. split; [exact Hs|]. apply filter_In. split; [exact Hr|].
    now apply in_plate_true.
Qed.

(* when every plate holds one sample ([sps] are the plates' samples), a row's sample is its plate's *)
Definition one_sample_plates (rows : list row) (sps : list name) : Prop :=
  Forall2 (fun p s => plate_sample p rows = Ok s) (plate_names_of rows) sps.

Lemma one_sample_row : forall rows sps, one_sample_plates rows sps ->
  forall r, In r rows -> plate_sample (r_plate r) rows = Ok (r_sample r).
Proof.
  intros rows sps H r Hr.
  assert (Hp : In (r_plate r) (plate_names_of rows)) by (apply In_plate_names_of; eauto).
  unfold one_sample_plates in H. revert Hp. induction H as [|p s ps ss Hps _ IH]; [intros []|].
  intros [->|Hp]; [|now apply IH].
  pose proof (plate_sample_ok _ _ _ Hps) as Hl.
  assert (Hin : In (r_sample r) (plate_samples (r_plate r) rows)) by (apply In_plate_samples; eauto).
  rewrite Hl in Hin. destruct Hin as [<-|[]]. exact Hps.
Qed.

Lemma occ_Forall2 : forall rows s ps sps,
  Forall2 (fun p s' => plate_sample p rows = Ok s') ps sps ->
  occ s sps = length (filter (fun p => match plate_sample p rows with Ok s' => name_eqb s' s | Err _ => false end) ps).
Proof.
  intros rows s ps sps H. induction H as [|p s' ps sps Hp _ IH]; [reflexivity|].
  unfold occ in *. cbn [filter]. rewrite Hp. destruct (name_eqb s' s); cbn [length]; congruence.
Qed.

Lemma plate_count_of_sample : forall rows sps s, one_sample_plates rows sps ->
  occ s sps = length (sample_plates s rows).
Proof.
  intros rows sps s H. rewrite (occ_Forall2 rows s _ _ H).
  apply Permutation_length, NoDup_Permutation.
  - apply NoDup_filter, NoDup_sort_uniq.
  - apply NoDup_sort_uniq.
  - intros p. rewrite filter_In, In_sample_plates. split.
    + intros [Hp Hs]. destruct (plate_sample p rows) as [s'|t] eqn:E; [|discriminate].
      apply name_eqb_eq in Hs. subst s'. apply plate_sample_ok in E.
      assert (Hin : In s (plate_samples p rows)) by (rewrite E; now left).
      apply In_plate_samples in Hin as (r & Hr & Hpl & Hsa). eauto.
    + intros (r & Hr & Hs & Hp). split; [apply In_plate_names_of; eauto|].
      rewrite <- Hp, (one_sample_row rows sps H r Hr), Hs. apply name_eqb_refl.
Qed.

Theorem nplate_minimum : forall m rows out,
  nplate true m rows = Ok out ->
  forall s, In s (sample_names out) -> (m <= Z.of_nat (length (sample_plates s out)))%Z.
Proof.
  intros m rows out H s Hs. unfold nplate, plate_counts in H.
  destruct (res_map_all _ (plate_names_of rows)) as [sps|t] eqn:Er; cbn [res_bind] in H; [|discriminate].
  apply res_map_all_Forall2 in Er. fold (one_sample_plates rows sps) in Er.
  inversion H; subst out. clear H.
  set (counts := fold_left (fun acc s0 => count_add s0 acc) sps []) in *.
  set (drop := map fst (filter (fun kc => (Z.of_nat (snd kc) <? m)%Z) counts)) in *.
  apply In_sample_names in Hs as (r & Hr & Hsr). apply filter_In in Hr as [Hr Hnd].
  apply negb_true_iff in Hnd. rewrite Hsr in Hnd.
  (* the rows of sample s are all kept, so its plates are those of the input *)
  assert (Hsame : sample_plates s (filter (fun r0 => negb (name_mem (r_sample r0) drop)) rows) = sample_plates s rows).
  { unfold sample_plates. rewrite filter_filter'. f_equal. f_equal. apply filter_ext_in. intros r0 _.
    destruct (in_sample s r0) eqn:E; [|now rewrite andb_false_r].
    apply in_sample_true in E. now rewrite E, Hnd. }
  rewrite Hsame, <- (plate_count_of_sample rows sps s Er).
  destruct (get_fold s sps [] ltac:(intros k' c [])) as [Hg _]. cbn [get] in Hg. rewrite Nat.add_0_r in Hg.
  fold counts in Hg.
  assert (Hpos : 0 < occ s sps).
  { rewrite (plate_count_of_sample rows sps s Er).
    assert (Hin : In (r_plate r) (sample_plates s rows)) by (apply In_sample_plates; eauto).
    destruct (sample_plates s rows); [contradiction|cbn; lia]. }
  destruct (Z.of_nat (occ s sps) <? m)%Z eqn:El; [|apply Z.ltb_ge in El; lia].
  exfalso. assert (Hd : In s drop).
  { unfold drop. apply in_map_iff. exists (s, get s counts). split; [reflexivity|].
    apply filter_In. split; [apply In_get; lia|]. cbn [snd]. now rewrite Hg. }
  apply name_mem_In in Hd. congruence.
Qed.
