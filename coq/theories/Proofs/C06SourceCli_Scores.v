(* One piece of Proofs/C06SourceCli.v (which see): calculate_scores.main *)
From Coq Require Import ZArith List Bool Lia.
From Batchie Require Import Lib.Sexp Lib.PyRt Model.Cli Generated.SrcCli Proofs.PyRtLemmas Proofs.C06SourceCli_Prng.
Import ListNotations.
Open Scope Z_scope.

Theorem src_cli_calculate_scores_is_model :
  forall (Scr Pl Th Dm Sc H : Type) (L : cs_lib Scr Pl Th Dm Sc H) (mix : Z -> Z) (a : cs_args),
  src_cli_calculate_scores Scr Pl Th Dm Sc H L mix a = cli_calculate_scores L mix a.
Proof.
  intros. unfold src_cli_calculate_scores, cli_calculate_scores. cbv zeta.
  rewrite !res_map_all_ret, src_get_prng_is_model.
  repeat cli_step.
Qed.
