(* C19 — the completion marker published before advanced_screen.h5 (retrospective mode; asynchronous publishing): witness. *)
From Coq Require Import ZArith List Bool.
From Batchie Require Import Model.Orchestrate Proofs.C19Base Proofs.C19Main.
Import ListNotations.
Open Scope Z_scope.

Definition meta_before_advanced : list kind := [KTraining; KTest; KThetas; KDist; KSelected; KMeta; KAdvanced].
(* the run of step (0,0) is interrupted after six of its seven files: everything but advanced_screen.h5 *)
Definition witness_marker_before_advanced : list entry := [mke 10 meta_before_advanced; full; full].

Theorem resume_refuted_marker_before_advanced :
  exists sched,
    Forall (fun e => covers (e_order e) = true) sched /\
    let r := script_run Retro true 1 3 [] sched in
    (* step (1,0) is started from the TRAINING screen of (0,0) - the screen before plate 0 was revealed - ... *)
    nth 1 (snd r) GDone = GLaunch (1, 0) (LFirst (SFile (0, 0) KTraining) (SFile (0, 0) KTraining))
                                   [KThetas; KDist; KSelected; KAdvanced; KMeta] true /\
    ideal_launch Retro 1 1 = LFirst (SFile (0, 0) KAdvanced) (SFile (0, 0) KTraining) /\
    (* ... and records the selection of plate 0 a second time *)
    (exists d0 d1, get_plate (fst r) (0, 0) = Some d0 /\ get_plate (fst r) (1, 0) = Some d1 /\
                   f_selected d0 = Some 0 /\ f_selected d1 = Some 0 /\ f_advanced d0 = None) /\
    completed (fst r) <> ideal Retro 1 3 (length (completed (fst r))).
Proof.
  exists witness_marker_before_advanced. split; [repeat constructor|].
  cbn zeta. split; [vm_compute; reflexivity|]. split; [reflexivity|]. split.
  - eexists. eexists. vm_compute. repeat split; reflexivity.
  - vm_compute. discriminate.
Qed.

(* with batch size 2 the marker-before-advanced directory is a plate > 0: the next call finds no screen at all and raises a
   TypeError that names nothing (after creating the next job directory, which the call after it names, the operator removes,
   and so on): however often the script is rerun, no further step is ever completed *)
Definition stuck_sched : list entry := [full; mke 6 meta_before_advanced; full].
Definition stuck_a : fs := fst (script_run Retro true 2 4 [] stuck_sched).
Definition stuck_b : fs := fst (attempt Retro true 2 4 stuck_a full).

Lemma stuck_cycle : forall m f, f = stuck_a \/ f = stuck_b ->
  let f' := fst (script_run Retro true 2 4 f (repeat full m)) in f' = stuck_a \/ f' = stuck_b.
Proof.
  induction m as [|m IH]; intros f Hf; [exact Hf|].
  cbn [repeat script_run].
  assert (Hstep : fst (attempt Retro true 2 4 f full) = stuck_a \/ fst (attempt Retro true 2 4 f full) = stuck_b).
  { destruct Hf as [-> | ->]; [right; reflexivity|left; vm_compute; reflexivity]. }
  destruct (attempt Retro true 2 4 f full) as [f1 g]. cbn [fst] in Hstep.
  specialize (IH f1 Hstep). cbn zeta in IH.
  destruct (script_run Retro true 2 4 f1 (repeat full m)) as [f2 gs]. exact IH.
Qed.

Lemma script_run_app md fixed bs n : forall s1 s2 f,
  fst (script_run md fixed bs n f (s1 ++ s2)) = fst (script_run md fixed bs n (fst (script_run md fixed bs n f s1)) s2).
Proof.
  induction s1 as [|e s1 IH]; intros s2 f; cbn [app script_run]; [reflexivity|].
  destruct (attempt md fixed bs n f e) as [f1 g]. specialize (IH s2 f1).
  destruct (script_run md fixed bs n f1 (s1 ++ s2)) as [f3 gs3].
  destruct (script_run md fixed bs n f1 s1) as [f2 gs]. cbn [fst] in *. exact IH.
Qed.

Theorem marker_before_advanced_strands :
  Forall (fun e => covers (e_order e) = true) stuck_sched /\
  nth 2 (snd (script_run Retro true 2 4 [] stuck_sched)) GDone = GFail 9 /\
  forall m, map fst (completed (fst (script_run Retro true 2 4 [] (stuck_sched ++ repeat full m)))) = [(0, 0); (0, 1)].
Proof.
  split; [repeat constructor|]. split; [vm_compute; reflexivity|].
  intros m. rewrite script_run_app. fold stuck_a.
  destruct (stuck_cycle m stuck_a (or_introl eq_refl)) as [E|E]; cbn zeta in E; rewrite E; vm_compute; reflexivity.
Qed.
