(* C06 proofs, part 3: the holder, argmin over the eligibility mask, the whole pipeline. *)
From Coq Require Import ZArith List Arith Lia Bool Sorted Permutation.
From Batchie Require Import Lib.ListX Lib.Sexp Model.Scores Proofs.C06Split Proofs.C06Rows.
Import ListNotations.
Open Scope Z_scope.

(* ---------- holder ---------- *)
Lemma add_scores_fill size (done l : list slot) :
  add_scores (mkholder size (done ++ repeat (0, 0) (length l)) (length done)) l
  = Ok (mkholder size (done ++ l) (length done + length l)).
Proof.
  revert done; induction l as [|[pid sc] l IH]; intros done; cbn [add_scores length repeat].
  - now rewrite Nat.add_0_r.
  - unfold add_score. cbn [h_cur h_slots h_size].
    assert (Hlt : Nat.ltb (length done) (length (done ++ (0, 0) :: repeat (0, 0) (length l))) = true).
    { apply Nat.ltb_lt. rewrite app_length. cbn [length]. lia. }
    rewrite Hlt. cbn [res_bind].
    rewrite firstn_app, firstn_all, Nat.sub_diag. cbn [firstn]. rewrite app_nil_r.
    rewrite skipn_app, skipn_all2 by lia. replace (S (length done) - length done)%nat with 1%nat by lia.
    cbn [skipn app].
    replace (done ++ (pid, sc) :: repeat (0, 0) (length l)) with ((done ++ [(pid, sc)]) ++ repeat (0, 0) (length l))
      by (now rewrite <- app_assoc).
    replace (S (length done)) with (length (done ++ [(pid, sc)])) by (rewrite app_length; cbn [length]; lia).
    rewrite IH. rewrite <- app_assoc. cbn [app]. f_equal. f_equal. rewrite app_length. cbn [length]. lia.
Qed.

Lemma exact_fill (answer : list slot) :
  add_scores (holder_new (length answer)) answer
  = Ok (mkholder (Z.of_nat (length answer)) answer (length answer)).
Proof. exact (add_scores_fill (Z.of_nat (length answer)) [] answer). Qed.

Definition slot_of (scorer : scorer_t) (p : Z * list irow) : slot := (fst p, scorer (fst p) (snd p)).

Theorem chunk_holder_exact scorer s batch n k ps :
  score_chunk s batch n k = Ok ps ->
  chunk_holder scorer s batch n k
  = Ok (mkholder (Z.of_nat (length ps)) (map (slot_of scorer) ps) (length ps)).
Proof.
  intros E. unfold chunk_holder, chunk_holder_of_answer. rewrite E. cbn [res_bind].
  rewrite <- (map_length (fun p => (fst p, scorer (fst p) (snd p))) ps) at 1.
  rewrite exact_fill. now rewrite map_length.
Qed.

Theorem overfill_raises h pid sc : (length (h_slots h) <= h_cur h)%nat -> add_score h pid sc = Err 4.
Proof.
  intros H. unfold add_score. destruct (h_cur h <? length (h_slots h))%nat eqn:E; [|reflexivity].
  apply Nat.ltb_lt in E. lia.
Qed.

Theorem save_load h :
  h_slots (h_load (h_save h)) = h_slots h /\ h_cur (h_load (h_save h)) = h_cur h /\
  h_size (h_load (h_save h)) = Z.of_nat (length (h_slots h)).
Proof. now repeat split. Qed.

Lemma fold_combine_slots t h :
  h_slots (fold_left h_combine t h) = h_slots h ++ concat (map h_slots t).
Proof.
  revert h; induction t as [|a t IH]; intros h; cbn [fold_left map concat]; [now rewrite app_nil_r|].
  rewrite IH. cbn [h_combine h_slots]. now rewrite app_assoc.
Qed.

Lemma h_concat_slots hs : hs <> [] ->
  exists h, h_concat hs = Ok h /\ h_slots h = concat (map h_slots hs).
Proof.
  destruct hs as [|a t]; [congruence|]. intros _. eexists. split; [reflexivity|].
  rewrite fold_combine_slots. reflexivity.
Qed.

(* ---------- argmin ---------- *)
Lemma argmin_first_none l : argmin_first l = None -> l = [].
Proof.
  destruct l as [|x r]; [reflexivity|]. cbn [argmin_first].
  destruct (argmin_first r) as [y|]; [destruct (snd y <? snd x)|]; discriminate.
Qed.

Lemma argmin_first_spec l x : argmin_first l = Some x ->
  exists pre post, l = pre ++ x :: post /\
    (forall y, In y pre -> snd x < snd y) /\ (forall y, In y post -> snd x <= snd y).
Proof.
  revert x; induction l as [|a r IH]; intros x; cbn [argmin_first]; [discriminate|].
  destruct (argmin_first r) as [y|] eqn:Er.
  - destruct (IH y eq_refl) as (pre & post & -> & Hpre & Hpost).
    destruct (snd y <? snd a) eqn:E; intros Hx; injection Hx as <-.
    + apply Z.ltb_lt in E. exists (a :: pre), post. split; [reflexivity|]. split; [|exact Hpost].
      intros z [<-|Hz]; [exact E|now apply Hpre].
    + apply Z.ltb_ge in E. exists [], (pre ++ y :: post). split; [reflexivity|]. split; [intros z []|].
      intros z Hz. apply in_app_or in Hz. destruct Hz as [Hz|[<-|Hz]].
      * specialize (Hpre z Hz). lia.
      * exact E.
      * specialize (Hpost z Hz). lia.
  - intros Hx; injection Hx as <-. apply argmin_first_none in Er. subst r.
    exists [], []. split; [reflexivity|]. split; intros z [].
Qed.

Lemma filter_split {A} (f : A -> bool) l pre x post :
  filter f l = pre ++ x :: post ->
  exists pre' post', l = pre' ++ x :: post' /\ filter f pre' = pre /\ filter f post' = post.
Proof.
  revert pre; induction l as [|a l IH]; intros pre; cbn [filter].
  - destruct pre; discriminate.
  - destruct (f a) eqn:E.
    + destruct pre as [|b pre]; cbn [app]; intros H; injection H as -> H.
      * exists [], l. cbn [filter app]. now repeat split.
      * destruct (IH pre H) as (pre' & post' & -> & H1 & H2).
        exists (b :: pre'), post'. cbn [filter app]. rewrite E, H1. now repeat split.
    + intros H. destruct (IH pre H) as (pre' & post' & -> & H1 & H2).
      exists (a :: pre'), post'. cbn [filter app]. rewrite E. now repeat split.
Qed.

(* plate_id_with_minimum_score: the first slot, in storage order, among the eligible slots
   of minimal score *)
Theorem min_plate_first h (eligible : list Z) pid :
  min_plate h (Some eligible) = Ok pid ->
  exists pre sc post,
    h_slots h = pre ++ (pid, sc) :: post /\ In pid eligible /\
    (forall i v, In (i, v) pre -> In i eligible -> sc < v) /\
    (forall i v, In (i, v) post -> In i eligible -> sc <= v).
Proof.
  unfold min_plate. destruct (argmin_first _) as [[i0 sc]|] eqn:E; [|discriminate].
  cbn [fst]. intros H; injection H as ->.
  destruct (argmin_first_spec _ _ E) as (pre & post & Hf & Hpre & Hpost).
  assert (Hin : In (pid, sc) (filter (fun sl => zmem (fst sl) eligible) (h_slots h)))
    by (rewrite Hf; apply in_or_app; right; now left).
  apply filter_In in Hin. destruct Hin as [_ Hel]. cbn [fst] in Hel. apply zmem_true in Hel.
  destruct (filter_split _ _ _ _ _ Hf) as (pre' & post' & Hs & H1 & H2).
  exists pre', sc, post'. split; [exact Hs|]. split; [exact Hel|]. split.
  - intros i v Hi He. apply (Hpre (i, v)). rewrite <- H1. apply filter_In. split; [exact Hi|].
    cbn [fst]. now apply zmem_true.
  - intros i v Hi He. apply (Hpost (i, v)). rewrite <- H2. apply filter_In. split; [exact Hi|].
    cbn [fst]. now apply zmem_true.
Qed.

Theorem min_plate_empty h eligible :
  (forall i v, In (i, v) (h_slots h) -> ~ In i eligible) -> min_plate h (Some eligible) = Err 6.
Proof.
  intros H. unfold min_plate.
  destruct (argmin_first _) as [[i v]|] eqn:E; [|reflexivity]. exfalso.
  destruct (argmin_first_spec _ _ E) as (pre & post & Hf & _).
  assert (Hin : In (i, v) (filter (fun sl => zmem (fst sl) eligible) (h_slots h)))
    by (rewrite Hf; apply in_or_app; right; now left).
  apply filter_In in Hin. destruct Hin as [Hin Hz]. apply zmem_true in Hz. eapply H; eassumption.
Qed.

(* ---------- the pipeline ---------- *)
Section Pipeline.
Variable scorer : scorer_t.
Variable policy : option policy_t.
Variable s : screen.
Variable batch : list Z.
Variable n : Z.
Variable order : list Z.

Hypothesis policy_sub : forall f, policy = Some f -> forall b c, incl (f b c) c.
Hypothesis n_pos : 1 <= n.
Hypothesis batch_ok : batch_valid s batch.
Hypothesis order_covers : forall k, 0 <= k < n -> In k order.
Hypothesis order_in_range : forall k, In k order -> 0 <= k < n.

Let cands := candidates s batch.
Let elig := eligible_plates policy s batch.
Let score (p : plate) : Z := scorer (p_id p) (rows_for s batch p).

Definition chunk_slots (k : Z) : list slot :=
  map (slot_of scorer) (map (handed_of s batch) (chunk_plates s batch n (Z.to_nat k))).
Definition loaded (k : Z) : holder :=
  h_load (h_save (mkholder (Z.of_nat (length (map (handed_of s batch) (chunk_plates s batch n (Z.to_nat k)))))
                   (chunk_slots k)
                   (length (map (handed_of s batch) (chunk_plates s batch n (Z.to_nat k)))))).

Lemma elig_incl : incl elig cands.
Proof.
  unfold elig, eligible_plates. destruct policy as [f|] eqn:E; [|apply incl_refl].
  apply (policy_sub f eq_refl).
Qed.

Lemma load_chunk_ok k : In k order -> load_chunk scorer s batch n k = Ok (loaded k).
Proof.
  intros Hk. unfold load_chunk.
  rewrite (chunk_holder_exact scorer s batch n k _ (score_chunk_ok s batch n k batch_ok (order_in_range k Hk))).
  reflexivity.
Qed.

Lemma chunk_slots_sound k sl : In sl (chunk_slots k) -> exists p, In p cands /\ sl = (p_id p, score p).
Proof.
  unfold chunk_slots. rewrite map_map. intros H. apply in_map_iff in H. destruct H as (p & <- & Hp).
  exists p. split; [|reflexivity]. unfold chunk_plates in Hp. eapply array_split_In, Hp.
Qed.

Lemma all_slots_complete p : In p cands -> In (p_id p, score p) (concat (map chunk_slots order)).
Proof.
  intros Hp. destruct (array_split_cover cands (Z.to_nat n) p ltac:(lia) Hp) as (j & Hj & Hin).
  apply in_concat. exists (chunk_slots (Z.of_nat j)). split.
  - apply in_map, order_covers. lia.
  - unfold chunk_slots. rewrite map_map. apply in_map_iff. exists p. split; [reflexivity|].
    unfold chunk_plates. now rewrite Nat2Z.id.
Qed.

Lemma all_slots_sound sl : In sl (concat (map chunk_slots order)) ->
  exists p, In p cands /\ sl = (p_id p, score p).
Proof.
  intros H. apply in_concat in H. destruct H as (c & Hc & Hsl).
  apply in_map_iff in Hc. destruct Hc as (k & <- & _). eapply chunk_slots_sound, Hsl.
Qed.

Lemma score_is_plate_score p : In p cands -> score p = plate_score scorer s batch (p_id p).
Proof.
  intros Hp. unfold score, plate_score. now rewrite <- (candidates_are_plates s batch p Hp).
Qed.

Lemma cands_same_id p q : In p cands -> In q cands -> p_id p = p_id q -> p = q.
Proof.
  intros Hp Hq E. rewrite (candidates_are_plates s batch p Hp), (candidates_are_plates s batch q Hq). now rewrite E.
Qed.

Definition select_post (r : option Z) : Prop :=
  match r with
  | None => elig = []
  | Some pid =>
      In pid (map p_id cands) /\ In pid (map p_id elig) /\
      forall q, In q elig -> plate_score scorer s batch pid <= plate_score scorer s batch (p_id q)
  end.

Lemma pipeline_combined :
  exists h, (dor hs <- res_map_all (load_chunk scorer s batch n) order; h_concat hs) = Ok h /\
            h_slots h = concat (map chunk_slots order).
Proof.
  rewrite (res_map_all_ok _ loaded) by (intros k Hk; now apply load_chunk_ok).
  cbn [res_bind].
  assert (Hne : map loaded order <> []).
  { pose proof (order_covers 0 ltac:(lia)) as H0. destruct order; [contradiction|discriminate]. }
  destruct (h_concat_slots _ Hne) as (h & Eh & Hs). exists h. split; [exact Eh|].
  rewrite Hs, map_map. reflexivity.
Qed.

Theorem select_sound : exists r, pipeline scorer policy s batch n order = Ok r /\ select_post r.
Proof.
  destruct pipeline_combined as (h & Eh & Hs).
  unfold pipeline.
  destruct (res_map_all (load_chunk scorer s batch n) order) as [hs|t] eqn:Em; cbn [res_bind] in Eh |- *;
    [|discriminate].
  rewrite Eh. cbn [res_bind]. unfold select_next. fold elig.
  destruct elig as [|e0 erest] eqn:Ee.
  - exists None. split; [reflexivity|]. cbn [select_post]. exact Ee.
  - rewrite <- Ee.
    pose proof elig_incl as Hincl.
    destruct (min_plate h (Some (map p_id elig))) as [best|t] eqn:Emin.
    + destruct (min_plate_first _ _ _ Emin) as (pre & sc & post & Hsl & Hbest & Hpre & Hpost).
      assert (Hin : In (best, sc) (concat (map chunk_slots order)))
        by (rewrite <- Hs, Hsl; apply in_or_app; right; now left).
      destruct (all_slots_sound _ Hin) as (p & Hp & Esl). injection Esl as -> ->.
      cbn [res_bind].
      assert (Hz : zmem (p_id p) (map r_plate s) = true).
      { apply zmem_true. apply candidates_In_id in Hp. apply candidate_ids_In in Hp. tauto. }
      rewrite Hz. exists (Some (p_id p)). split; [reflexivity|]. cbn [select_post].
      split; [now apply in_map|]. split; [exact Hbest|].
      intros q Hq. specialize (Hincl q Hq).
      rewrite <- !score_is_plate_score by assumption.
      pose proof (all_slots_complete q Hincl) as Hqs. rewrite <- Hs, Hsl in Hqs.
      assert (Hqe : In (p_id q) (map p_id elig)) by now apply in_map.
      apply in_app_or in Hqs. destruct Hqs as [Hqs|[Hqs|Hqs]].
      * specialize (Hpre _ _ Hqs Hqe). lia.
      * injection Hqs as _ <-. lia.
      * exact (Hpost _ _ Hqs Hqe).
    + exfalso.
      assert (He0 : In e0 elig) by (rewrite Ee; now left).
      pose proof (all_slots_complete e0 (Hincl e0 He0)) as H0. rewrite <- Hs in H0.
      unfold min_plate in Emin.
      destruct (argmin_first _) eqn:Ea; [discriminate|]. apply argmin_first_none in Ea.
      assert (Hf : In (p_id e0, score e0) (filter (fun sl => zmem (fst sl) (map p_id elig)) (h_slots h))).
      { apply filter_In. split; [exact H0|]. cbn [fst]. apply zmem_true. now apply in_map. }
      rewrite Ea in Hf. contradiction.
Qed.

Theorem none_iff : pipeline scorer policy s batch n order = Ok None <-> elig = [].
Proof.
  destruct select_sound as (r & Er & Hpost). rewrite Er. split.
  - intros H. injection H as ->. exact Hpost.
  - intros He. destruct r as [pid|]; [|reflexivity].
    cbn [select_post] in Hpost. destruct Hpost as (_ & Hin & _). rewrite He in Hin. contradiction.
Qed.

Lemma pipeline_unfold :
  exists h, h_slots h = concat (map chunk_slots order) /\
            pipeline scorer policy s batch n order = select_next policy s batch h.
Proof.
  destruct pipeline_combined as (h & Eh & Hs). exists h. split; [exact Hs|].
  unfold pipeline.
  destruct (res_map_all (load_chunk scorer s batch n) order) as [hs|t] eqn:Em; cbn [res_bind] in Eh |- *;
    [|discriminate].
  rewrite Eh. reflexivity.
Qed.

(* ties: the plate returned is the first, in storage order (chunks in the order they were
   combined, each chunk in ascending plate id), among the allowed plates of minimal score *)
Theorem pipeline_first_min pid :
  pipeline scorer policy s batch n order = Ok (Some pid) ->
  exists pre post,
    concat (map chunk_slots order) = pre ++ (pid, plate_score scorer s batch pid) :: post /\
    (forall i v, In (i, v) pre -> In i (map p_id elig) -> plate_score scorer s batch pid < v) /\
    (forall i v, In (i, v) post -> In i (map p_id elig) -> plate_score scorer s batch pid <= v).
Proof.
  destruct pipeline_unfold as (h & Hs & ->). unfold select_next. fold elig.
  destruct elig as [|e0 erest] eqn:Ee; [discriminate|]. rewrite <- Ee.
  destruct (min_plate h (Some (map p_id elig))) as [best|t] eqn:Emin; cbn [res_bind]; [|discriminate].
  destruct (zmem best (map r_plate s)); [|discriminate]. intros H; injection H as ->.
  destruct (min_plate_first _ _ _ Emin) as (pre & sc & post & Hsl & _ & Hpre & Hpost).
  assert (Hin : In (pid, sc) (concat (map chunk_slots order)))
    by (rewrite <- Hs, Hsl; apply in_or_app; right; now left).
  destruct (all_slots_sound _ Hin) as (p & Hp & Esl). injection Esl as -> ->.
  rewrite <- (score_is_plate_score p Hp). exists pre, post. rewrite <- Hs. now repeat split.
Qed.

End Pipeline.

(* ---------- corollaries ---------- *)
Theorem select_sound_perm scorer policy s batch (n : nat) order :
  (forall f, policy = Some f -> forall b c, incl (f b c) c) ->
  (0 < n)%nat -> batch_valid s batch ->
  Permutation order (map Z.of_nat (seq 0 n)) ->
  exists r, pipeline scorer policy s batch (Z.of_nat n) order = Ok r /\ select_post scorer policy s batch r.
Proof.
  intros Hpol Hn Hb Hperm. apply select_sound; try assumption; [lia| |].
  - intros k Hk. apply (Permutation_in _ (Permutation_sym Hperm)).
    apply in_map_iff. exists (Z.to_nat k). split; [lia|]. apply in_seq. lia.
  - intros k Hk. apply (Permutation_in _ Hperm) in Hk. apply in_map_iff in Hk.
    destruct Hk as (j & <- & Hj). apply in_seq in Hj. lia.
Qed.

Lemma StronglySorted_app_cons {A} (R : A -> A -> Prop) l1 x l2 y :
  StronglySorted R (l1 ++ x :: l2) -> In y l2 -> R x y.
Proof.
  induction l1 as [|a l1 IH]; cbn [app]; intros H Hy; inversion H as [|? ? Hs Hall]; subst.
  - rewrite Forall_forall in Hall. now apply Hall.
  - now apply IH.
Qed.

Lemma identity_order_slots scorer s batch (n : nat) :
  (0 < n)%nat ->
  concat (map (chunk_slots scorer s batch (Z.of_nat n)) (map Z.of_nat (seq 0 n)))
  = map (fun p => (p_id p, scorer (p_id p) (rows_for s batch p))) (candidates s batch).
Proof.
  intros Hn. rewrite map_map. unfold chunk_slots.
  rewrite (map_ext _ (fun j => map (slot_of scorer) (map (handed_of s batch) (chunk_plates s batch (Z.of_nat n) j))))
    by (intros j; now rewrite Nat2Z.id).
  rewrite <- (map_map (chunk_plates s batch (Z.of_nat n))
                      (fun c => map (slot_of scorer) (map (handed_of s batch) c))).
  rewrite chunk_plates_all.
  rewrite (map_ext _ (map (fun p => slot_of scorer (handed_of s batch p)))) by (intros c; apply map_map).
  rewrite <- concat_map, array_split_concat by exact Hn. reflexivity.
Qed.

(* chunks combined in index order: ties go to the smallest plate id *)
Theorem ties_identity_order scorer policy s batch (n : nat) pid :
  (forall f, policy = Some f -> forall b c, incl (f b c) c) ->
  (0 < n)%nat -> batch_valid s batch ->
  pipeline scorer policy s batch (Z.of_nat n) (map Z.of_nat (seq 0 n)) = Ok (Some pid) ->
  forall q, In q (eligible_plates policy s batch) ->
    plate_score scorer s batch (p_id q) = plate_score scorer s batch pid -> pid <= p_id q.
Proof.
  intros Hpol Hn Hb Hpipe q Hq Heq.
  assert (Hcov : forall k, 0 <= k < Z.of_nat n -> In k (map Z.of_nat (seq 0 n))).
  { intros k Hk. apply in_map_iff. exists (Z.to_nat k). split; [lia|]. apply in_seq. lia. }
  assert (Hrng : forall k, In k (map Z.of_nat (seq 0 n)) -> 0 <= k < Z.of_nat n).
  { intros k Hk. apply in_map_iff in Hk. destruct Hk as (j & <- & Hj). apply in_seq in Hj. lia. }
  destruct (pipeline_first_min scorer policy s batch (Z.of_nat n) _ ltac:(lia) Hb Hcov Hrng pid Hpipe)
    as (pre & post & Hs & Hpre & Hpost).
  rewrite identity_order_slots in Hs by exact Hn.
  assert (Hqc : In q (candidates s batch)).
  { eapply elig_incl; eassumption. }
  assert (Hqs : In (p_id q, plate_score scorer s batch (p_id q)) (pre ++ (pid, plate_score scorer s batch pid) :: post)).
  { rewrite <- Hs. apply in_map_iff. exists q. split; [|exact Hqc].
    unfold plate_score. now rewrite <- (candidates_are_plates s batch q Hqc). }
  assert (Hqe : In (p_id q) (map p_id (eligible_plates policy s batch))) by now apply in_map.
  apply in_app_or in Hqs. destruct Hqs as [Hqs|[Hqs|Hqs]].
  - specialize (Hpre _ _ Hqs Hqe). lia.
  - injection Hqs as <- _. lia.
  - assert (Hsorted : StronglySorted Z.lt (map fst (pre ++ (pid, plate_score scorer s batch pid) :: post))).
    { rewrite <- Hs, map_map. cbn [fst]. apply candidates_spec. }
    rewrite map_app in Hsorted. cbn [map fst] in Hsorted.
    pose proof (StronglySorted_app_cons _ _ _ _ (p_id q) Hsorted) as Hlt.
    assert (In (p_id q) (map fst post)) as Hin by (apply in_map_iff; now exists (p_id q, plate_score scorer s batch (p_id q))).
    specialize (Hlt Hin). lia.
Qed.
